import Lean.Data.Json
open Lean

partial def loop (h : IO.FS.Stream) (n : Nat) : IO Nat := do
  let line ← h.getLine
  if line.isEmpty then return n
  match Json.parse line with
  | .ok j =>
    let op := (j.getObjValAs? String "op").toOption.getD "?"
    let s := (j.getObjValAs? String "s").toOption.getD ""
    IO.println (Json.compress (Json.mkObj [("op", op), ("len", s.length), ("chars", Json.arr (s.toList.map (fun c => (c.toNat : Json))).toArray)]))
  | .error e => IO.println s!"bad {e}"
  loop h (n+1)

def main : IO Unit := do
  let n ← loop (← IO.getStdin) 0
  IO.eprintln s!"lines {n}"
