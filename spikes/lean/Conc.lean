/-! Spike: FileCache.get_or_compute / get as a small-step interleaving semantics, any number of callers.
    Protocol after repair F8 (save to temp, atomic replace).  Values are Nats: computation number i yields i. -/
namespace ConcSpike

inductive Kind | get | goc (forced : Bool)
deriving DecidableEq

inductive PC
  | start | inL1 | checked (ex : Bool) | afterL1 (ex : Bool)
  | wantL2 | inL2 | computed (v : Nat) | saved (v : Nat) | done (r : Option Nat)
deriving DecidableEq

structure Th where
  pc : PC
  kind : Kind
  late : Bool      -- ghost: the caller's first step happened after some get_or_compute had returned

structure St where
  file : Option Nat
  lock : Option Nat
  th : Nat → Th
  fresh : Nat
  retGoc : Bool    -- ghost: some get_or_compute has returned

def setTh (s : St) (t : Nat) (x : Th) : Nat → Th := fun u => if u = t then x else s.th u

def holds (p : PC) : Bool :=
  match p with
  | .inL1 | .checked _ | .inL2 | .computed _ | .saved _ => true
  | _ => false

def wantsLoad (k : Kind) (ex : Bool) : Bool :=
  match k with
  | .get => ex
  | .goc f => ex && !f

inductive Step : St → Nat → St → Prop
  | acquire1 (s t) (h : (s.th t).pc = .start) (hl : s.lock = none) :
      Step s t { s with lock := some t, th := setTh s t { (s.th t) with pc := .inL1, late := s.retGoc } }
  | check (s t) (h : (s.th t).pc = .inL1) :
      Step s t { s with th := setTh s t { (s.th t) with pc := .checked s.file.isSome } }
  | release1 (s t ex) (h : (s.th t).pc = .checked ex) :
      Step s t { s with lock := none, th := setTh s t { (s.th t) with pc := .afterL1 ex } }
  | load (s t ex v) (h : (s.th t).pc = .afterL1 ex) (hw : wantsLoad (s.th t).kind ex = true) (hf : s.file = some v) :
      Step s t { s with th := setTh s t { (s.th t) with pc := .done (some v) },
                        retGoc := s.retGoc || (match (s.th t).kind with | .goc _ => true | .get => false) }
  | getMiss (s t) (h : (s.th t).pc = .afterL1 false) (hk : (s.th t).kind = .get) :
      Step s t { s with th := setTh s t { (s.th t) with pc := .done none } }
  | toL2 (s t ex f) (h : (s.th t).pc = .afterL1 ex) (hk : (s.th t).kind = .goc f) (hw : wantsLoad (.goc f) ex = false) :
      Step s t { s with th := setTh s t { (s.th t) with pc := .wantL2 } }
  | acquire2 (s t) (h : (s.th t).pc = .wantL2) (hl : s.lock = none) :
      Step s t { s with lock := some t, th := setTh s t { (s.th t) with pc := .inL2 } }
  | compute (s t) (h : (s.th t).pc = .inL2) :
      Step s t { s with fresh := s.fresh + 1, th := setTh s t { (s.th t) with pc := .computed s.fresh } }
  | replace (s t v) (h : (s.th t).pc = .computed v) :
      Step s t { s with file := some v, th := setTh s t { (s.th t) with pc := .saved v } }
  | release2 (s t v) (h : (s.th t).pc = .saved v) :
      Step s t { s with lock := none, retGoc := true, th := setTh s t { (s.th t) with pc := .done (some v) } }

/-- invariant: everything the property needs -/
structure Inv (s : St) : Prop where
  fileComplete : ∀ v, s.file = some v → v < s.fresh
  retPresent : s.retGoc = true → s.file.isSome = true
  sawPresent : ∀ t ex, ((s.th t).pc = .checked ex ∨ (s.th t).pc = .afterL1 ex) → ex = true → s.file.isSome = true
  lockOwner : ∀ t, holds (s.th t).pc = true → s.lock = some t
  lateRet : ∀ t, (s.th t).late = true → (s.th t).pc ≠ .start → s.retGoc = true
  lateSees : ∀ t ex, (s.th t).late = true → ((s.th t).pc = .checked ex ∨ (s.th t).pc = .afterL1 ex) → ex = true
  lateNoCompute : ∀ t, (s.th t).late = true → (s.th t).kind = .goc false →
      (s.th t).pc ≠ .wantL2 ∧ (s.th t).pc ≠ .inL2 ∧ (∀ v, (s.th t).pc ≠ .computed v) ∧ (∀ v, (s.th t).pc ≠ .saved v)
  pendingComplete : ∀ t v, ((s.th t).pc = .computed v ∨ (s.th t).pc = .saved v ∨ (s.th t).pc = .done (some v)) → v < s.fresh
  savedPresent : ∀ t v, (s.th t).pc = .saved v → s.file.isSome = true

theorem setTh_same (s : St) (t : Nat) (x : Th) : setTh s t x t = x := by simp [setTh]
theorem setTh_other (s : St) (t u : Nat) (x : Th) (h : u ≠ t) : setTh s t x u = s.th u := by simp [setTh, h]

end ConcSpike

namespace ConcSpike

theorem inv_step {s s' : St} {t : Nat} (hI : Inv s) (hS : Step s t s') : Inv s' := by
  obtain ⟨h1, h2, h3, h4, h5, h6, h7, h8, h9⟩ := hI
  cases hS with
  | acquire1 h hl => refine ⟨?_, ?_, ?_, ?_, ?_, ?_, ?_, ?_, ?_⟩ <;> grind [setTh, holds, wantsLoad]
  | check h => refine ⟨?_, ?_, ?_, ?_, ?_, ?_, ?_, ?_, ?_⟩ <;> grind [setTh, holds, wantsLoad]
  | release1 ex h => refine ⟨?_, ?_, ?_, ?_, ?_, ?_, ?_, ?_, ?_⟩ <;> grind [setTh, holds, wantsLoad]
  | load ex v h hw hf => refine ⟨?_, ?_, ?_, ?_, ?_, ?_, ?_, ?_, ?_⟩ <;> grind [setTh, holds, wantsLoad]
  | getMiss h hk => refine ⟨?_, ?_, ?_, ?_, ?_, ?_, ?_, ?_, ?_⟩ <;> grind [setTh, holds, wantsLoad]
  | toL2 ex f h hk hw =>
    have hlate : (s.th t).late = true → ex = true := fun hl => h6 t ex hl (Or.inr h)
    cases ex <;> cases f <;> simp [wantsLoad] at hw <;>
      refine ⟨?_, ?_, ?_, ?_, ?_, ?_, ?_, ?_, ?_⟩ <;> grind [setTh, holds, wantsLoad]
  | acquire2 h hl => refine ⟨?_, ?_, ?_, ?_, ?_, ?_, ?_, ?_, ?_⟩ <;> grind [setTh, holds, wantsLoad]
  | compute h => refine ⟨?_, ?_, ?_, ?_, ?_, ?_, ?_, ?_, ?_⟩ <;> grind [setTh, holds, wantsLoad]
  | replace v h => refine ⟨?_, ?_, ?_, ?_, ?_, ?_, ?_, ?_, ?_⟩ <;> grind [setTh, holds, wantsLoad]
  | release2 v h => refine ⟨?_, ?_, ?_, ?_, ?_, ?_, ?_, ?_, ?_⟩ <;> grind [setTh, holds, wantsLoad]

end ConcSpike

namespace ConcSpike

/-- reachability: any number of callers, any interleaving, any length -/
inductive Reach (s0 : St) : St → Prop
  | refl : Reach s0 s0
  | step {s s' t} : Reach s0 s → Step s t s' → Reach s0 s'

theorem inv_reach {s0 s : St} (h0 : Inv s0) (hr : Reach s0 s) : Inv s := by
  induction hr with
  | refl => exact h0
  | step _ hs ih => exact inv_step ih hs

/-- initial state: no file, nobody started; any assignment of kinds to (infinitely many) callers -/
def init (kinds : Nat → Kind) : St :=
  { file := none, lock := none, fresh := 0, retGoc := false,
    th := fun t => { pc := .start, kind := kinds t, late := false } }

theorem inv_init (kinds : Nat → Kind) : Inv (init kinds) := by
  refine ⟨?_, ?_, ?_, ?_, ?_, ?_, ?_, ?_, ?_⟩ <;> simp [init, holds]

/-- C15: every returned value was produced by a completed computation, and a late unforced caller never computes -/
theorem returns_complete (kinds : Nat → Kind) {s : St} (hr : Reach (init kinds) s) (t v : Nat)
    (hd : (s.th t).pc = .done (some v)) : v < s.fresh :=
  (inv_reach (inv_init kinds) hr).pendingComplete t v (Or.inr (Or.inr hd))

theorem no_recompute_after_return (kinds : Nat → Kind) {s : St} (hr : Reach (init kinds) s) (t : Nat)
    (hl : (s.th t).late = true) (hk : (s.th t).kind = .goc false) :
    (s.th t).pc ≠ .inL2 ∧ ∀ v, (s.th t).pc ≠ .computed v :=
  let h := (inv_reach (inv_init kinds) hr).lateNoCompute t hl hk
  ⟨h.2.1, h.2.2.1⟩

#print axioms no_recompute_after_return
#print axioms returns_complete
end ConcSpike
