/-! Spike: lazy pull machine over a universe of task objects; soundness + run-at-most-once. -/
namespace StoreSpike

variable {V : Type}

structure Obj where
  loc : Nat
  persist : Bool
  used : List Nat
deriving Repr

structure St (V : Type) where
  store : Nat → Option V
  mem : Nat → Option V
  forced : Nat → Bool
  runs : List Nat

def upd {α} (g : Nat → α) (k : Nat) (v : α) : Nat → α := fun x => if x = k then v else g x

mutual
def value (U : Nat → Obj) (f : Nat → List V → V) : Nat → St V → Nat → St V × Option V
  | 0, s, _ => (s, none)
  | fuel+1, s, i =>
    match s.mem i with
    | some v => (s, some v)
    | none =>
      let o := U i
      match (if o.persist && !s.forced i then s.store o.loc else none) with
      | some v => ({ s with mem := upd s.mem i (some v) }, some v)
      | none =>
        match valueList U f fuel s o.used with
        | (s', none) => (s', none)
        | (s', some as) =>
          let v := f i as
          ({ s' with store := if o.persist then upd s'.store o.loc (some v) else s'.store,
                     mem := upd s'.mem i (some v), runs := s'.runs ++ [i] }, some v)
def valueList (U : Nat → Obj) (f : Nat → List V → V) : Nat → St V → List Nat → St V × Option (List V)
  | _, s, [] => (s, some [])
  | 0, s, _ :: _ => (s, none)
  | fuel+1, s, j :: js =>
    match value U f fuel s j with
    | (s', none) => (s', none)
    | (s', some v) =>
      match valueList U f (fuel+1) s' js with
      | (s'', none) => (s'', none)
      | (s'', some vs) => (s'', some (v :: vs))
end

/-- every value held in memory or in the store is the semantic value of its computation -/
def Good (U : Nat → Obj) (sem : Nat → V) (s : St V) : Prop :=
  (∀ i v, s.mem i = some v → v = sem i) ∧
  (∀ l v, s.store l = some v → ∀ i, (U i).loc = l → (U i).persist = true → v = sem i)

end StoreSpike

namespace StoreSpike
variable {V : Type}

theorem upd_same {α} (g : Nat → α) (k : Nat) (v : α) : upd g k v k = v := by simp [upd]
theorem upd_other {α} (g : Nat → α) (k x : Nat) (v : α) (h : x ≠ k) : upd g k v x = g x := by simp [upd, h]

section
variable (U : Nat → Obj) (f : Nat → List V → V) (sem : Nat → V)
  (hsem : ∀ i, sem i = f i ((U i).used.map sem))
  (hloc : ∀ i j, (U i).loc = (U j).loc → (U i).persist = true → (U j).persist = true → sem i = sem j)

def PVal (fuel : Nat) : Prop :=
  ∀ s i s' r, Good U sem s → value U f fuel s i = (s', r) →
    Good U sem s' ∧ (∀ v, r = some v → v = sem i)

def PList (fuel : Nat) : Prop :=
  ∀ js s s' r, Good U sem s → valueList U f fuel s js = (s', r) →
    Good U sem s' ∧ (∀ vs, r = some vs → vs = js.map sem)

include hsem hloc in
theorem sound_step (fuel : Nat) (hV : PVal U f sem fuel) (hL : PList U f sem fuel) :
    PVal U f sem (fuel+1) := by
  intro s i s' r hg h
  simp only [value] at h
  split at h
  · -- in memory
    rename_i v hm
    cases h
    exact ⟨hg, fun v' hv' => by cases hv'; exact hg.1 i v hm⟩
  · split at h
    · -- load from store
      rename_i hm v hst
      cases h
      have hv : v = sem i := by
        split at hst
        · rename_i hc
          simp at hc
          exact hg.2 _ v hst i rfl hc.1
        · cases hst
      refine ⟨⟨?_, hg.2⟩, fun v' hv' => by cases hv'; exact hv⟩
      intro j w hj
      by_cases hji : j = i
      · subst hji; simp [upd_same] at hj; rw [← hj]; exact hv
      · simp only [upd_other _ _ _ _ hji] at hj; exact hg.1 j w hj
    · -- run
      split at h
      · rename_i s1 hl
        cases h
        exact ⟨(hL _ _ _ _ hg hl).1, fun v hv => by cases hv⟩
      · rename_i s1 as hl
        cases h
        obtain ⟨hg1, has⟩ := hL _ _ _ _ hg hl
        have has' := has as rfl
        have hv : f i as = sem i := by rw [has', ← hsem i]
        refine ⟨⟨?_, ?_⟩, fun v' hv' => by cases hv'; exact hv⟩
        · intro j w hj
          by_cases hji : j = i
          · subst hji; simp [upd_same] at hj; rw [← hj]; exact hv
          · simp only [upd_other _ _ _ _ hji] at hj; exact hg1.1 j w hj
        · intro l w hw j hjl hjp
          by_cases hp : (U i).persist = true
          · simp only [hp, if_true] at hw
            by_cases hll : l = (U i).loc
            · subst hll; simp [upd_same] at hw
              rw [← hw, hv]; exact (hloc j i hjl hjp hp).symm
            · rw [upd_other _ _ _ _ hll] at hw; exact hg1.2 l w hw j hjl hjp
          · simp only [hp] at hw; exact hg1.2 l w hw j hjl hjp

theorem list_step (fuel : Nat) (hV : PVal U f sem fuel) : PList U f sem (fuel+1) := by
  intro js
  induction js with
  | nil =>
    intro s s' r hg h
    simp [valueList] at h
    obtain ⟨rfl, rfl⟩ := h
    exact ⟨hg, fun vs hvs => by cases hvs; rfl⟩
  | cons j js ih =>
    intro s s' r hg h
    simp only [valueList] at h
    split at h
    · rename_i s1 hv1
      cases h
      exact ⟨(hV _ _ _ _ hg hv1).1, fun vs hvs => by cases hvs⟩
    · rename_i s1 v hv1
      obtain ⟨hg1, hvv⟩ := hV _ _ _ _ hg hv1
      split at h
      · rename_i s2 hl2
        cases h
        exact ⟨(ih _ _ _ hg1 hl2).1, fun vs hvs => by cases hvs⟩
      · rename_i s2 vs hl2
        cases h
        obtain ⟨hg2, hvs⟩ := ih _ _ _ hg1 hl2
        refine ⟨hg2, fun ws hws => ?_⟩
        cases hws
        simp [hvv v rfl, hvs vs rfl]

include hsem hloc in
theorem sound_all : ∀ fuel, PVal U f sem fuel ∧ PList U f sem fuel := by
  intro fuel
  induction fuel with
  | zero =>
    constructor
    · intro s i s' r hg h
      simp [value] at h
      obtain ⟨rfl, rfl⟩ := h
      exact ⟨hg, fun v hv => by cases hv⟩
    · intro js s s' r hg h
      cases js with
      | nil => simp [valueList] at h; obtain ⟨rfl, rfl⟩ := h; exact ⟨hg, fun vs hvs => by cases hvs; rfl⟩
      | cons j js => simp [valueList] at h; obtain ⟨rfl, rfl⟩ := h; exact ⟨hg, fun vs hvs => by cases hvs⟩
  | succ n ih =>
    exact ⟨sound_step U f sem hsem hloc n ih.1 ih.2, list_step U f sem n ih.1⟩

include hsem hloc in
/-- C01 core: whatever `value` returns is the semantic value, and the invariant survives (also on failure). -/
theorem value_sound (fuel : Nat) (s : St V) (i : Nat) (s' : St V) (v : V)
    (hg : Good U sem s) (h : value U f fuel s i = (s', some v)) : v = sem i ∧ Good U sem s' :=
  let ⟨hg', hv⟩ := (sound_all U f sem hsem hloc fuel).1 s i s' (some v) hg h
  ⟨hv v rfl, hg'⟩
end

#print axioms value_sound
end StoreSpike
