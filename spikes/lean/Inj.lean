abbrev Str := List Char

inductive PVal where
  | atom : Str → PVal
  | str : Str → PVal
  | list : List PVal → PVal
  | dict : List (Str × PVal) → PVal

namespace PVal

def q : Char := '\''

mutual
def reprV : PVal → Str
  | .atom t => t
  | .str s => q :: (s ++ [q])
  | .list xs => '[' :: (reprL xs ++ [']'])
  | .dict kvs => '{' :: (reprD kvs ++ ['}'])
def reprL : List PVal → Str
  | [] => []
  | x :: r => reprV x ++ reprLT r
def reprLT : List PVal → Str
  | [] => []
  | x :: r => ',' :: ' ' :: (reprV x ++ reprLT r)
def reprD : List (Str × PVal) → Str
  | [] => []
  | (k, v) :: r => q :: (k ++ (q :: ':' :: ' ' :: (reprV v ++ reprDT r)))
def reprDT : List (Str × PVal) → Str
  | [] => []
  | (k, v) :: r => ',' :: ' ' :: q :: (k ++ (q :: ':' :: ' ' :: (reprV v ++ reprDT r)))
end

/-- delimiter characters: an atom token contains none of them -/
def isDelim (c : Char) : Bool :=
  c == ',' || c == ' ' || c == ']' || c == '}' || c == ':' || c == q || c == '[' || c == '{'

mutual
def WF : PVal → Prop
  | .atom t => t ≠ [] ∧ ∀ c ∈ t, isDelim c = false
  | .str s => ∀ c ∈ s, c ≠ q
  | .list xs => WFL xs
  | .dict kvs => WFD kvs
def WFL : List PVal → Prop
  | [] => True
  | x :: r => WF x ∧ WFL r
def WFD : List (Str × PVal) → Prop
  | [] => True
  | (k, v) :: r => (∀ c ∈ k, c ≠ q) ∧ WF v ∧ WFD r
end

/-- a "stop" suffix: empty or starting with a delimiter -/
def Stop (r : Str) : Prop := r = [] ∨ ∃ c t, r = c :: t ∧ isDelim c = true

theorem span_unique {p : Char → Bool} : ∀ (a b r1 r2 : Str),
    (∀ c ∈ a, p c = false) → (∀ c ∈ b, p c = false) →
    (r1 = [] ∨ ∃ c t, r1 = c :: t ∧ p c = true) → (r2 = [] ∨ ∃ c t, r2 = c :: t ∧ p c = true) →
    a ++ r1 = b ++ r2 → a = b ∧ r1 = r2 := by
  intro a
  induction a with
  | nil =>
    intro b r1 r2 _ hb h1 h2 h
    cases b with
    | nil => exact ⟨rfl, by simpa using h⟩
    | cons x b' =>
      simp at h
      rcases h1 with h1 | ⟨c, t, h1, hc⟩
      · simp [h1] at h
      · subst h1; simp at h
        have := hb x (by simp)
        rw [← h.1] at this; simp [this] at hc
  | cons x a' ih =>
    intro b r1 r2 ha hb h1 h2 h
    cases b with
    | nil =>
      simp at h
      rcases h2 with h2 | ⟨c, t, h2, hc⟩
      · simp [h2] at h
      · subst h2; simp at h
        have := ha x (by simp)
        rw [h.1] at this; simp [this] at hc
    | cons y b' =>
      simp at h
      obtain ⟨hxy, h⟩ := h
      have := ih b' r1 r2 (fun c hc => ha c (by simp [hc])) (fun c hc => hb c (by simp [hc])) h1 h2 h
      exact ⟨by rw [hxy, this.1], this.2⟩

end PVal

namespace PVal

theorem isDelim_q : isDelim q = true := by decide

/-- first character of a WF value's repr, for constructor discrimination -/
theorem reprV_ne_nil : ∀ v, WF v → reprV v ≠ []
  | .atom t, h => by simp [reprV]; exact h.1
  | .str s, _ => by simp [reprV]
  | .list xs, _ => by simp [reprV]
  | .dict kvs, _ => by simp [reprV]

/-- the head of reprV is never `]`, `}`, `,`, ` `, `:` -/
def closing (c : Char) : Bool := c == ']' || c == '}' || c == ',' || c == ' ' || c == ':'

theorem reprV_head : ∀ v, WF v → ∃ c t, reprV v = c :: t ∧ closing c = false
  | .atom t, h => by
    cases t with
    | nil => exact absurd rfl h.1
    | cons c t' =>
      refine ⟨c, t', by simp [reprV], ?_⟩
      have := h.2 c (by simp)
      simp [isDelim] at this
      simp [closing, this]
  | .str s, _ => ⟨q, s ++ [q], by simp [reprV], by decide⟩
  | .list xs, _ => ⟨'[', reprL xs ++ [']'], by simp [reprV], by decide⟩
  | .dict kvs, _ => ⟨'{', reprD kvs ++ ['}'], by simp [reprV], by decide⟩

end PVal

namespace PVal

theorem stop_cons_delim {c : Char} {t : Str} (h : isDelim c = true) : Stop (c :: t) :=
  Or.inr ⟨c, t, rfl, h⟩

theorem stop_LT (xs : List PVal) (r : Str) : Stop (reprLT xs ++ ']' :: r) := by
  cases xs with
  | nil => exact stop_cons_delim (by decide)
  | cons x xs => simp [reprLT]; exact stop_cons_delim (by decide)

theorem stop_DT (kvs : List (Str × PVal)) (r : Str) : Stop (reprDT kvs ++ '}' :: r) := by
  cases kvs with
  | nil => exact stop_cons_delim (by decide)
  | cons kv kvs => obtain ⟨k, v⟩ := kv; simp [reprDT]; exact stop_cons_delim (by decide)

theorem key_unique (k k' : Str) (r1 r2 : Str) (hk : ∀ c ∈ k, c ≠ q) (hk' : ∀ c ∈ k', c ≠ q)
    (h : k ++ q :: r1 = k' ++ q :: r2) : k = k' ∧ r1 = r2 := by
  have := span_unique (p := fun c => c == q) k k' (q :: r1) (q :: r2)
    (fun c hc => by simpa using hk c hc) (fun c hc => by simpa using hk' c hc)
    (Or.inr ⟨q, r1, rfl, by simp⟩) (Or.inr ⟨q, r2, rfl, by simp⟩) h
  exact ⟨this.1, by simpa using this.2⟩

mutual
theorem injV : ∀ (v w : PVal) (r1 r2 : Str), WF v → WF w → Stop r1 → Stop r2 →
    reprV v ++ r1 = reprV w ++ r2 → v = w ∧ r1 = r2
  | .atom t, w, r1, r2, hv, hw, s1, s2, h => by
    cases w with
    | atom t' =>
      have := span_unique (p := isDelim) t t' r1 r2 hv.2 hw.2 s1 s2 (by simpa [reprV] using h)
      exact ⟨by rw [this.1], this.2⟩
    | str s =>
      exfalso
      obtain ⟨hne, hd⟩ := hv
      cases t with
      | nil => exact hne rfl
      | cons c t' =>
        simp [reprV] at h
        have := hd c (by simp); rw [h.1] at this; simp [isDelim_q] at this
    | list xs =>
      exfalso
      obtain ⟨hne, hd⟩ := hv
      cases t with
      | nil => exact hne rfl
      | cons c t' =>
        simp [reprV] at h
        have := hd c (by simp); rw [h.1] at this; simp [isDelim] at this
    | dict kvs =>
      exfalso
      obtain ⟨hne, hd⟩ := hv
      cases t with
      | nil => exact hne rfl
      | cons c t' =>
        simp [reprV] at h
        have := hd c (by simp); rw [h.1] at this; simp [isDelim] at this
  | .str s, w, r1, r2, hv, hw, s1, s2, h => by
    cases w with
    | atom t' =>
      exfalso
      obtain ⟨hne, hd⟩ := hw
      cases t' with
      | nil => exact hne rfl
      | cons c t'' =>
        simp [reprV] at h
        have := hd c (by simp); rw [← h.1] at this; simp [isDelim_q] at this
    | str s' =>
      simp [reprV] at h
      have := key_unique s s' r1 r2 hv hw (by simpa using h)
      exact ⟨by rw [this.1], this.2⟩
    | list xs => simp [reprV, q] at h
    | dict kvs => simp [reprV, q] at h
  | .list xs, w, r1, r2, hv, hw, s1, s2, h => by
    cases w with
    | atom t' =>
      exfalso
      obtain ⟨hne, hd⟩ := hw
      cases t' with
      | nil => exact hne rfl
      | cons c t'' =>
        simp [reprV] at h
        have := hd c (by simp); rw [← h.1] at this; simp [isDelim] at this
    | str s' => simp [reprV, q] at h
    | list ys =>
      simp [reprV] at h
      have := injL xs ys r1 r2 hv hw (by simpa using h)
      exact ⟨by rw [this.1], this.2⟩
    | dict kvs => simp [reprV] at h
  | .dict kvs, w, r1, r2, hv, hw, s1, s2, h => by
    cases w with
    | atom t' =>
      exfalso
      obtain ⟨hne, hd⟩ := hw
      cases t' with
      | nil => exact hne rfl
      | cons c t'' =>
        simp [reprV] at h
        have := hd c (by simp); rw [← h.1] at this; simp [isDelim] at this
    | str s' => simp [reprV, q] at h
    | list ys => simp [reprV] at h
    | dict kvs' =>
      simp [reprV] at h
      have := injD kvs kvs' r1 r2 hv hw (by simpa using h)
      exact ⟨by rw [this.1], this.2⟩
theorem injL : ∀ (xs ys : List PVal) (r1 r2 : Str), WFL xs → WFL ys →
    reprL xs ++ ']' :: r1 = reprL ys ++ ']' :: r2 → xs = ys ∧ r1 = r2
  | [], ys, r1, r2, _, hy, h => by
    cases ys with
    | nil => simpa [reprL] using h
    | cons y ys' =>
      exfalso
      obtain ⟨c, t, hc, hcl⟩ := reprV_head y hy.1
      simp [reprL, hc] at h
      rw [← h.1] at hcl; simp [closing] at hcl
  | x :: xs', ys, r1, r2, hx, hy, h => by
    cases ys with
    | nil =>
      exfalso
      obtain ⟨c, t, hc, hcl⟩ := reprV_head x hx.1
      simp [reprL, hc] at h
      rw [h.1] at hcl; simp [closing] at hcl
    | cons y ys' =>
      simp only [reprL, List.append_assoc] at h
      have hV := injV x y _ _ hx.1 hy.1 (stop_LT xs' r1) (stop_LT ys' r2) h
      have hT := injLT xs' ys' r1 r2 hx.2 hy.2 hV.2
      exact ⟨by rw [hV.1, hT.1], hT.2⟩
theorem injLT : ∀ (xs ys : List PVal) (r1 r2 : Str), WFL xs → WFL ys →
    reprLT xs ++ ']' :: r1 = reprLT ys ++ ']' :: r2 → xs = ys ∧ r1 = r2
  | [], ys, r1, r2, _, hy, h => by
    cases ys with
    | nil => simpa [reprLT] using h
    | cons y ys' => simp [reprLT] at h
  | x :: xs', ys, r1, r2, hx, hy, h => by
    cases ys with
    | nil => simp [reprLT] at h
    | cons y ys' =>
      simp only [reprLT, List.cons_append, List.append_assoc, List.cons.injEq, true_and] at h
      have hV := injV x y _ _ hx.1 hy.1 (stop_LT xs' r1) (stop_LT ys' r2) h
      have hT := injLT xs' ys' r1 r2 hx.2 hy.2 hV.2
      exact ⟨by rw [hV.1, hT.1], hT.2⟩
theorem injD : ∀ (xs ys : List (Str × PVal)) (r1 r2 : Str), WFD xs → WFD ys →
    reprD xs ++ '}' :: r1 = reprD ys ++ '}' :: r2 → xs = ys ∧ r1 = r2
  | [], ys, r1, r2, _, hy, h => by
    cases ys with
    | nil => simpa [reprD] using h
    | cons y ys' => obtain ⟨k, v⟩ := y; simp [reprD, q] at h
  | (k, v) :: xs', ys, r1, r2, hx, hy, h => by
    cases ys with
    | nil => simp [reprD, q] at h
    | cons y ys' =>
      obtain ⟨k', v'⟩ := y
      simp only [reprD, List.cons_append, List.append_assoc, List.cons.injEq, true_and] at h
      have hK := key_unique k k' _ _ hx.1 hy.1 h
      have hV := injV v v' _ _ hx.2.1 hy.2.1 (stop_DT xs' r1) (stop_DT ys' r2) (by simpa using hK.2)
      have hT := injDT xs' ys' r1 r2 hx.2.2 hy.2.2 hV.2
      exact ⟨by rw [hK.1, hV.1, hT.1], hT.2⟩
theorem injDT : ∀ (xs ys : List (Str × PVal)) (r1 r2 : Str), WFD xs → WFD ys →
    reprDT xs ++ '}' :: r1 = reprDT ys ++ '}' :: r2 → xs = ys ∧ r1 = r2
  | [], ys, r1, r2, _, hy, h => by
    cases ys with
    | nil => simpa [reprDT] using h
    | cons y ys' => obtain ⟨k, v⟩ := y; simp [reprDT] at h
  | (k, v) :: xs', ys, r1, r2, hx, hy, h => by
    cases ys with
    | nil => simp [reprDT] at h
    | cons y ys' =>
      obtain ⟨k', v'⟩ := y
      simp only [reprDT, List.cons_append, List.append_assoc, List.cons.injEq, true_and] at h
      have hK := key_unique k k' _ _ hx.1 hy.1 h
      have hV := injV v v' _ _ hx.2.1 hy.2.1 (stop_DT xs' r1) (stop_DT ys' r2) (by simpa using hK.2)
      have hT := injDT xs' ys' r1 r2 hx.2.2 hy.2.2 hV.2
      exact ⟨by rw [hK.1, hV.1, hT.1], hT.2⟩
end

theorem reprV_injective (v w : PVal) (hv : WF v) (hw : WF w) (h : reprV v = reprV w) : v = w :=
  (injV v w [] [] hv hw (Or.inl rfl) (Or.inl rfl) (by simpa using h)).1

/-- the known collision: without the quote-free hypothesis injectivity is false -/
theorem reprV_not_injective : ∃ v w : PVal, v ≠ w ∧ reprV v = reprV w :=
  ⟨.list [.str ['a'], .str ['b']], .list [.str ("a', 'b".toList)], by simp, by decide⟩

#print axioms reprV_injective
#print axioms reprV_not_injective
end PVal
