import warnings; warnings.filterwarnings('ignore')
import json, tempfile, shutil, sys, os, logging, time, random, copy
from pathlib import Path
from typing import List
from taskchain import Task, Config, Chain, MultiChain, Parameter, InMemoryData
from taskchain.utils.data import search_and_replace_placeholders, ReprStr
print('--- C11')
d = {'a': '{A}/x', 'b': ['{B}{B}', {'c': '{C}', 'd': 3, 'e': '{{A}}', 'f': '{A', 'g': '{}', 'h':'{A}}{'}], 't': ('{A}',), 'n': None}
try:
    r = search_and_replace_placeholders(copy.deepcopy({k:v for k,v in d.items() if k!='t'}), {'A': 'va', 'B': 2})
    print(r, [type(x).__name__ for x in [r['a'], r['b'][0], r['b'][1]['c']]])
    r2 = search_and_replace_placeholders(copy.deepcopy(r), {'A': 'va', 'B': 2})
    print(r2 == r, repr(r2['a']), repr(copy.deepcopy(r)['a']), repr(copy.copy(r['a'])))
except Exception as e: print('EXC', type(e).__name__, e)
try:
    print(search_and_replace_placeholders({'t': ('{A}',)}, {'A': 1}))
except Exception as e: print('tuple EXC', type(e).__name__, e)
# value that itself contains placeholder text
r = search_and_replace_placeholders({'a': '{A}'}, {'A': '{B}', 'B': 'x'})
print(r, repr(r['a']))
r2 = search_and_replace_placeholders(r, {'A': '{B}', 'B': 'x'}); print('again:', r2, repr(r2['a']))
# top-level string
print(repr(search_and_replace_placeholders('{A}', {'A': 1})))
# object attributes
class GV: A = 'ga'
print(search_and_replace_placeholders({'a': '{A} {__class__} {B}'}, GV()))
# dict keys with placeholders not replaced
print(search_and_replace_placeholders({'{A}': '{A}'}, {'A': 1}))
# ReprStr behaves as str
s = search_and_replace_placeholders({'a': '{A}/x'}, {'A': 'v'})['a']
print(s == 'v/x', s + 'y', type(s + 'y').__name__, s.upper(), json.dumps(s), hash(s) == hash('v/x'), repr(s), str(s), f'{s}', f'{s!r}')
print(repr(copy.copy(s)), repr(copy.deepcopy(s)))
import pickle
try: print(repr(pickle.loads(pickle.dumps(s))))
except Exception as e: print('pickle EXC', type(e).__name__, e)
# in config: uses paths & object args
c = Config(name='c', data={'a': '{A}', 'l': ['{A}'], 'n': {'class': 'taskchain.cache.JsonCache', 'args': ['/tmp/{A}']}}, global_vars={'A': 'v'})
print(c.data)
# context values with placeholders
c = Config(name='c', data={'a': 1}, context={'a': '{A}'}, global_vars={'A': 'v'})
print(c.data, repr(c.data['a']))
# newline in placeholder string : regex . doesn't match newline
print(search_and_replace_placeholders({'a': '{A\n}', 'b': 'x\n{A}'}, {'A': 1, 'A\n': 2}))
