import warnings; warnings.filterwarnings('ignore')
import json, tempfile, io, contextlib
from pathlib import Path
from taskchain import Config
from taskchain.utils.migration import migrate_to_parameter_mode
src = Path(tempfile.mkdtemp()); dst = Path(tempfile.mkdtemp())
cfgp = src / 'cfg.json'
json.dump({'tasks': ['migtasks.*'], 'p1': 1}, cfgp.open('w'))
old = Config(src/'data', cfgp).chain(parameter_mode=False)
print(old.md.value, old.mc.value)   # me not computed
def snap(p): return sorted((str(x.relative_to(p)), x.read_bytes() if x.is_file() else None) for x in p.rglob('*'))
before = snap(src)
with contextlib.redirect_stdout(io.StringIO()) as out:
    migrate_to_parameter_mode(Config(src/'data', cfgp), dst, dry=True)
print('dry wrote:', [str(x.relative_to(dst)) for x in dst.rglob('*')])
with contextlib.redirect_stdout(io.StringIO()) as out:
    migrate_to_parameter_mode(Config(src/'data', cfgp), dst, dry=False)
print('src unchanged:', snap(src) == before)
print([str(x.relative_to(src)) for x in src.rglob('*')])
print([str(x.relative_to(dst)) for x in dst.rglob('*')])
new = Config(dst, cfgp).chain()
print({n: t.has_data for n, t in new.tasks.items()}, new.md.value, (new.md.value/'f.txt').read_text(), new.mc.value)
s1 = snap(dst)
try:
    with contextlib.redirect_stdout(io.StringIO()) as out:
        migrate_to_parameter_mode(Config(src/'data', cfgp), dst, dry=False)
    print('second migration ok; unchanged:', snap(dst) == s1)
except Exception as e:
    import traceback; traceback.print_exc()
