import warnings; warnings.filterwarnings('ignore')
import json, tempfile, shutil, sys, os, logging, time, random, copy
from pathlib import Path
from typing import List, Dict
from taskchain import Task, Config, Chain, MultiChain, Parameter, InMemoryData
from taskchain.utils.testing import TestChain, create_test_task, MockTask
print('--- C19')
class A(Task):
    class Meta:
        parameters = [Parameter('pa', default=5)]
    def run(self, pa) -> int: return pa
class B(Task):
    class Meta:
        task_group = 'g'
    def run(self) -> int: return 7
class C(Task):
    class Meta:
        input_tasks = [A, 'g:b']
        parameters = [Parameter('p1'), Parameter('p2', default=3)]
    def run(self, a, b, p1, p2) -> int:
        return a*1000 + b*100 + p1*10 + p2
t = create_test_task(C, input_tasks={'a': 2, B: 4}, parameters={'p1': 1})
print(t.value, t.has_data, t.data_path)
print(list(t.data_path.parent.parent.rglob('*')))
# falsy mock values
t = create_test_task(C, input_tasks={'a': 0, B: 0}, parameters={'p1': 0})
print(t.value)
try:
    t = create_test_task(C, input_tasks={'a': None, B: 0}, parameters={'p1': 0}); print('None mock', t.value)
except Exception as e: print('EXC', type(e).__name__, e)
# missing input / param at construction
for kw in [dict(input_tasks={'a': 2}, parameters={'p1': 1}), dict(input_tasks={'a': 2, B: 4}, parameters={})]:
    try: create_test_task(C, **kw); print('no error!')
    except Exception as e: print('EXC', type(e).__name__, e)
tc = TestChain([A, C], mock_tasks={B: 4}, parameters={'p1': 1, 'pa': 9})
print(tc.c.value, {n: type(t).__name__ for n, t in tc.tasks.items()})
# mock by name with group
tc = TestChain([C], mock_tasks={'g:b': 4, 'a': 1}, parameters={'p1': 1})
print(tc.c.value)
# compare with real chain
tmp = Path(tempfile.mkdtemp())
rc = Config(tmp, name='r', data={'tasks':[A,B,C], 'p1': 1, 'pa': 2}).chain()
print(rc.c.value, rc.c.data_path)
# the test chain is NOT in parameter mode -> name-mode paths 'test.json'
print(tc.c.data_path)
