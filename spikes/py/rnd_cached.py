import warnings; warnings.filterwarnings('ignore')
import random, sys, inspect, itertools, logging, json
import taskchain.cache as tc
lg = logging.getLogger('cache'); lg.handlers.clear(); lg.addHandler(logging.NullHandler()); lg.propagate = False

class Rec(tc.Cache):
    def __init__(self): self.store = {}; self.keys = []
    def get(self, key): self.keys.append(('get', key)); return self.store.get(key, tc.NO_VALUE)
    def get_or_compute(self, key, computer, force=False):
        self.keys.append(('goc', key, force))
        if key not in self.store or force: self.store[key] = computer()
        return self.store[key]
    def subcache(self, *a): raise NotImplementedError

VALS = [0, 1, True, False, None, 1.0, 'a', '1', [1], [True], {'k': 1}, {'k': True}, '', [], {}]
def case(seed):
    rng = random.Random(seed)
    npos = rng.randint(0, 3); nkw = rng.randint(0, 2)
    params = []
    seen_default = False
    for i in range(npos):
        has_d = seen_default or rng.random() < 0.4
        seen_default = seen_default or has_d
        params.append((f'p{i}', 'pos', has_d, rng.choice(VALS) if has_d else None))
    for i in range(nkw):
        has_d = rng.random() < 0.6
        params.append((f'k{i}', 'kw', has_d, rng.choice(VALS) if has_d else None))
    ignored = [p[0] for p in params if rng.random() < 0.2]
    sig = 'self' + ''.join(f', {n}' + (f'={d!r}' if h else '') for n, k, h, d in params if k == 'pos')
    if nkw: sig += ', *' + ''.join(f', {n}' + (f'={d!r}' if h else '') for n, k, h, d in params if k == 'kw')
    names = [p[0] for p in params]
    src = f'def m({sig}):\n    self.n += 1\n    return [{", ".join(names)}]\n'
    ns = {}; exec(src, ns)
    rec = Rec()
    class O:
        def __init__(self): self.n = 0
    O.m = tc.cached(rec, ignore_kwargs=ignored)(ns['m'])
    o = O()
    def binding():
        return {n: (rng.choice(VALS) if (not h or rng.random() < 0.6) else d) for n, k, h, d in params}
    def spell(b):
        # random spelling of binding b
        pos = [p for p in params if p[1] == 'pos']
        npos_given = rng.randint(0, len(pos))
        args = [b[p[0]] for p in pos[:npos_given]]
        kwargs = {}
        rest = pos[npos_given:] + [p for p in params if p[1] == 'kw']
        rng.shuffle(rest)
        for n, k, h, d in rest:
            if h and json.dumps(b[n]) == json.dumps(d) and rng.random() < 0.5: continue   # omit default
            kwargs[n] = b[n]
        # validity: a positional param after npos_given without default must be in kwargs (it is)
        return args, kwargs

    def jkey(b): return json.dumps({k: v for k, v in b.items() if k not in ignored}, sort_keys=True)
    seen = {}
    for _ in range(rng.randint(3, 10)):
        b = binding()
        for _ in range(rng.randint(1, 4)):
            args, kwargs = spell(b)
            before = o.n; nkeys = len(rec.store)
            r = o.m(*args, **kwargs)
            k = rec.keys[-1][1]
            assert k == jkey(b), ('KEY', src, args, kwargs, k, jkey(b))
            jk = jkey(b)
            if jk in seen:
                assert o.n == before and r == seen[jk], ('RECOMPUTED', src, args, kwargs)
            else:
                assert o.n == before + 1, ('NOTRUN', src, args, kwargs)
                seen[jk] = r
    # control keywords
    b = binding(); args, kwargs = spell(b); jk = jkey(b)
    n0 = o.n; r = o.m(*args, only_cache=True, **kwargs)
    assert o.n == n0 and (r is tc.NO_VALUE) == (jk not in seen), 'only_cache'
    r = o.m(*args, store_cache_value='S', **kwargs)
    assert o.n == n0 and (r == 'S' if jk not in seen else r == seen[jk]), ('store', r)
    r = o.m(*args, force_cache=True, **kwargs); assert o.n == n0 + 1, 'force'
    return 1

if __name__ == '__main__':
    a, b = int(sys.argv[1]), int(sys.argv[2]); bad = 0
    for s in range(a, b):
        try: case(s)
        except AssertionError as e: bad += 1; print('FAIL', s, str(e)[:400])
        except Exception as e: bad += 1; print('EXC', s, type(e).__name__, str(e)[:300])
    print('cases', b - a, 'bad', bad)
