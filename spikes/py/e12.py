import warnings; warnings.filterwarnings('ignore')
import json, tempfile, io, contextlib, math
from pathlib import Path
from typing import Generator
import numpy as np, pandas as pd
from taskchain import Config, Task, Parameter
from taskchain.data import *
vals = {}
def mk(name, typ, val, data_class=None):
    ns = {}
    def run(self): return val() if callable(val) else val
    run.__annotations__ = {'return': typ}
    meta = type('Meta', (), {'name': name, **({'data_class': data_class} if data_class else {})})
    return type(name, (Task,), {'run': run, 'Meta': meta})
def gen():
    yield from [1, 'a', {'k': [1.5, None]}, [], 0, '', 'é\n"x']
cases = [
 ('j_zero', int, 0), ('j_empty_str', str, ''), ('j_empty_list', list, []), ('j_empty_dict', dict, {}), ('j_false', bool, False),
 ('j_float0', float, 0.0), ('j_negzero', float, -0.0), ('j_big', int, 2**63-1), ('j_min', int, -2**63), ('j_u64', int, 2**64-1), ('j_over', int, 2**64),
 ('j_nan', float, float('nan')), ('j_inf', float, float('inf')),
 ('j_nested', dict, {'a': [1, 2.5, 'x', None, True, {'b': []}], 'é': ' \x00'}), ('j_tuple', list, [(1,2)]),
 ('j_intkey', dict, {1: 'a'}), ('j_float_small', float, 5e-324), ('j_float_max', float, 1.7976931348623157e308),
 ('j_surrogate', str, '\ud800'), ('j_npint', int, np.int64(5)),
 ('n_empty', np.ndarray, np.zeros((0,3))), ('n_0d', np.ndarray, np.array(5)), ('n_bool', np.ndarray, np.array([True, False])), ('n_str', np.ndarray, np.array(['a','bcd'])),
 ('n_f16', np.ndarray, np.arange(4, dtype=np.float16).reshape(2,2)), ('n_c', np.ndarray, np.array([1+2j])), ('n_obj', np.ndarray, np.array([{'a':1}, None], dtype=object)),
 ('n_fortran', np.ndarray, np.asfortranarray(np.arange(6).reshape(2,3))), ('n_nan', np.ndarray, np.array([np.nan, 1.0])),
 ('p_df', pd.DataFrame, pd.DataFrame({'a':[1,2],'b':['x',None]}, index=['i','j'])), ('p_empty', pd.DataFrame, pd.DataFrame()), ('p_series', pd.Series, pd.Series([1.5, 2], name='s')),
 ('g_gen', Generator, gen), ('g_empty', Generator, lambda: iter(())),
]
tmp = Path(tempfile.mkdtemp())
def eq(a, b):
    if isinstance(a, np.ndarray) or isinstance(b, np.ndarray):
        try: return type(a) == type(b) and a.dtype == b.dtype and a.shape == b.shape and (np.array_equal(a, b, equal_nan=True) if a.dtype.kind in 'fc' else np.array_equal(a,b))
        except Exception as e: return f'cmp-exc {e}'
    if isinstance(a, (pd.DataFrame, pd.Series)): return type(a)==type(b) and a.equals(b)
    if isinstance(a, float) and isinstance(b, float) and math.isnan(a) and math.isnan(b): return True
    return type(a) == type(b) and a == b and repr(a) == repr(b)
for name, typ, val in cases:
    cls = mk(name, typ, val)
    try:
        c1 = Config(tmp, name='c', data={'tasks':[cls]}).chain()
        v1 = c1[name].value
    except Exception as e:
        print(f'{name:14} compute EXC {type(e).__name__}: {str(e)[:70]}'); 
        c2 = Config(tmp, name='c', data={'tasks':[cls]}).chain()
        print(f'{"":14} -> has_data after failure: {c2[name].has_data}')
        continue
    try:
        c2 = Config(tmp, name='c', data={'tasks':[cls]}).chain()
        v2 = c2[name].value
        orig = val() if callable(val) else val
        if typ is Generator: orig = list(orig)
        print(f'{name:14} computed==returned {eq(v1, orig)!s:6} loaded==returned {eq(v2, orig)!s:6} v2={v2!r:.60}')
    except Exception as e:
        print(f'{name:14} load EXC {type(e).__name__}: {str(e)[:80]}')
