import warnings; warnings.filterwarnings('ignore')
import json, tempfile, shutil, sys, os, logging, time, random, copy
from pathlib import Path
from typing import List, Dict
from taskchain import Task, Config, Chain, MultiChain, Parameter, InMemoryData
from taskchain.utils.testing import TestChain, create_test_task, MockTask
class A(Task):
    class Meta:
        parameters = [Parameter('pa', default=5)]
    def run(self, pa) -> int: return pa
class C(Task):
    class Meta:
        input_tasks = [A]
        parameters = [Parameter('p1')]
    def run(self, a, p1) -> int:
        return a*10 + p1
tmp = Path(tempfile.mkdtemp())
print(create_test_task(C, input_tasks={'a': 2}, parameters={'p1': 1}, base_dir=tmp).value)
print(create_test_task(C, input_tasks={'a': 3}, parameters={'p1': 4}, base_dir=tmp).value, '<- expected 34')

print('--- C20 migration')
from taskchain.utils.migration import migrate_to_parameter_mode
import io, contextlib
from taskchain.data import DirData
class Dd(Task):
    class Meta:
        input_tasks = [C]
    def run(self, c) -> DirData:
        d = self.get_data_object()
        (d.dir / 'f.txt').write_text(str(c))
        return d
src = Path(tempfile.mkdtemp()); dst = Path(tempfile.mkdtemp())
cfgp = src / 'cfg.json'
import __main__
json.dump({'tasks': ['__main__.A', '__main__.C', '__main__.Dd'], 'p1': 1}, cfgp.open('w'))
old = Config(src/'data', cfgp).chain(parameter_mode=False)
print(old.dd.value, old.c.value)
def snap(p): return sorted((str(x.relative_to(p)), x.read_bytes() if x.is_file() else None) for x in p.rglob('*'))
before = snap(src)
with contextlib.redirect_stdout(io.StringIO()) as out:
    migrate_to_parameter_mode(Config(src/'data', cfgp), dst, dry=True)
print('dry wrote:', [str(x.relative_to(dst)) for x in dst.rglob('*')])
with contextlib.redirect_stdout(io.StringIO()) as out:
    migrate_to_parameter_mode(Config(src/'data', cfgp), dst, dry=False)
print('src unchanged:', snap(src) == before)
print([str(x.relative_to(dst)) for x in dst.rglob('*')])
new = Config(dst, cfgp).chain()
print({n: t.has_data for n, t in new.tasks.items()}, new.dd.value, (new.dd.value/'f.txt').read_text(), new.c.value)
s1 = snap(dst)
try:
    with contextlib.redirect_stdout(io.StringIO()) as out:
        migrate_to_parameter_mode(Config(src/'data', cfgp), dst, dry=False)
    print('second migration ok; unchanged:', snap(dst) == s1)
except Exception as e:
    print('second migration EXC', type(e).__name__, e)
