import warnings; warnings.filterwarnings('ignore')
import json, tempfile, shutil, sys, os, logging
from pathlib import Path
from taskchain.cache import *
logging.getLogger('cache').handlers.clear()
print('--- C16')
class O:
    def __init__(self):
        self.cache = InMemoryCache(); self.n = 0
    @cached()
    def m(self, a, b=2, *, c=3, verbose=False):
        self.n += 1
        return (a, b, c)
    @cached(ignore_kwargs=['verbose'])
    def m2(self, a, b=2, *, c=3, verbose=False):
        self.n += 1
        return (a, b, c, verbose)
    @cached(version='2')
    def m3(self, a):
        self.n += 1
        return a
    @cached()
    def va(self, a, *rest, k=1):
        self.n += 1
        return (a, rest, k)
o = O()
print(o.m(1), o.m(1, 2), o.m(a=1), o.m(1, b=2, c=3), o.m(b=2, a=1), o.m(1, c=3), o.n)
print(o.m(1, 3), o.m(1, b=3), o.n)
print(o.m2(1), o.m2(1, verbose=True), o.n)
print(o.m(True), o.m(1.0), o.n, '<- 1 vs True vs 1.0 key:', )
import json as j
print(j.dumps({'a': 1}, sort_keys=True), j.dumps({'a': True}, sort_keys=True), j.dumps({'a': 1.0}, sort_keys=True))
try: print(o.va(1, 2, 3), o.va(1, 2, 4), o.n)
except Exception as e: print('varargs EXC', type(e).__name__, e)
print(o.m(1, only_cache=True), o.m(99, only_cache=True))
print(o.m(5, store_cache_value='stored'), o.m(5), o.n)
print(o.m(1, force_cache=True), o.n)
# keys not JSON-distinguishable: '1' vs 1 distinct; (1,2) vs [1,2] same
print(o.m((1,2)), o.m([1,2]), o.n)
# dict arg with int keys
print(o.m({1:2}), o.m({'1':2}), o.n)
# too many positional
try: o.m(1,2,3)
except Exception as e: print('EXC', type(e).__name__, e)
