"""Reference (frozen) key scheme, written as the Lean model will be: pure functions on a tagged value tree.
   Validated against taskchain on random values."""
import warnings; warnings.filterwarnings('ignore')
import hashlib, random, sys, tempfile, logging, json
from pathlib import Path
logging.disable(logging.CRITICAL)

# ---- model value: ('atom', tok) | ('str', s) | ('rstr', val, orig) | ('list', [..]) | ('dict', [(k, v)..])
def py_repr_str(s):
    # CPython unicode_repr
    q = "'"
    if "'" in s and '"' not in s: q = '"'
    out = [q]
    for ch in s:
        o = ord(ch)
        if ch == q or ch == '\\': out.append('\\' + ch)
        elif ch == '\t': out.append('\\t')
        elif ch == '\n': out.append('\\n')
        elif ch == '\r': out.append('\\r')
        elif o < 0x20 or o == 0x7f: out.append('\\x%02x' % o)
        elif o < 0x7f: out.append(ch)
        elif not ch.isprintable():          # table `printable` in the model
            if o <= 0xff: out.append('\\x%02x' % o)
            elif o <= 0xffff: out.append('\\u%04x' % o)
            else: out.append('\\U%08x' % o)
        else: out.append(ch)
    out.append(q)
    return ''.join(out)

def repr_inst(v):
    t = v[0]
    if t == 'atom': return v[1]
    if t == 'str': return "'" + v[1] + "'"
    if t == 'rstr': return py_repr_str(v[2])
    if t == 'list': return '[' + ', '.join(repr_inst(x) for x in v[1]) + ']'
    if t == 'dict':
        items = sorted(v[1], key=lambda kv: [ord(c) for c in kv[0]])
        return '{' + ', '.join("'" + k + "': " + repr_inst(x) for k, x in items) + '}'
    raise ValueError(t)

def py_eq(a, b):
    """Python == on model values (numeric tower on atoms)."""
    def num(tok):
        if tok == 'True': return 1
        if tok == 'False': return 0
        try: return int(tok)
        except ValueError: pass
        try: return float(tok)
        except ValueError: return None
    if a[0] == 'atom' and b[0] == 'atom':
        if a[1] == b[1]: return a[1] != 'nan'
        na, nb = num(a[1]), num(b[1])
        return na is not None and nb is not None and na == nb
    sa = a[1] if a[0] in ('str', 'rstr') else None
    sb = b[1] if b[0] in ('str', 'rstr') else None
    if sa is not None or sb is not None: return sa is not None and sb is not None and sa == sb
    if a[0] != b[0]: return False
    if a[0] == 'list': return len(a[1]) == len(b[1]) and all(py_eq(x, y) for x, y in zip(a[1], b[1]))
    if a[0] == 'dict':
        da, db = dict(a[1]), dict(b[1])
        return da.keys() == db.keys() and all(py_eq(da[k], db[k]) for k in da)
    return False

def param_repr(p):
    # p: dict(name, value, default (None = NO_DEFAULT), ignore, dpd, is_path)
    if p['ignore']: return None
    if p['dpd'] and p['default'] is not None and py_eq(p['value'], p['default']): return None
    if p.get('is_path') and p['value'][0] in ('str', 'rstr'):
        vr = py_repr_str(p['value'][2] if p['value'][0] == 'rstr' else p['value'][1])
    else:
        vr = repr_inst(p['value'])
    return p['name'] + '=' + vr

def registry_repr(params):
    rs = [r for r in (param_repr(p) for p in sorted(params, key=lambda p: p['name'])) if r is not None]
    return '###'.join(rs) if rs else None

def key_text(params, inputs, ns):
    # inputs: list of (full name, key)
    def strip(n): return n[len(ns) + 2:] if ns else n
    ins = '###'.join(strip(n) + '=' + k for n, k in sorted(inputs))
    return f'{registry_repr(params)}$$${ins}'

def key(params, inputs, ns):
    return hashlib.sha256(key_text(params, inputs, ns).encode()).hexdigest()[:32]

# ---- python value <-> model value
def to_model(x):
    from taskchain.utils.data import ReprStr
    if isinstance(x, ReprStr): return ('rstr', str(x), eval(x.repr))
    if isinstance(x, str): return ('str', x)
    if x is None or isinstance(x, (bool, int, float)): return ('atom', repr(x))
    if isinstance(x, list): return ('list', [to_model(y) for y in x])
    if isinstance(x, dict): return ('dict', [(k, to_model(v)) for k, v in x.items()])
    raise TypeError(type(x))

ALPH = ["a", "b", "'", '"', "\\", " ", ",", ":", "#", "$", "=", "[", "]", "{", "}", "\n", "\t", "\x00", "\x7f", "é", " ", "😀", "1", ".", "-"]
def gen_value(rng, depth=0):
    r = rng.random()
    if depth >= 4 or r < 0.45:
        k = rng.randrange(8)
        if k == 0: return None
        if k == 1: return rng.choice([True, False])
        if k == 2: return rng.choice([0, 1, -1, 10**20, -7, 2**63])
        if k == 3: return rng.choice([0.0, -0.0, 1.0, 1.5, 1e16, 1e-7, 5e-324, float('inf'), 1e22, 123456789.123])
        return ''.join(rng.choice(ALPH) for _ in range(rng.randrange(0, 6)))
    if r < 0.75: return [gen_value(rng, depth + 1) for _ in range(rng.randrange(0, 4))]
    return {''.join(rng.choice(ALPH) for _ in range(rng.randrange(0, 4))): gen_value(rng, depth + 1) for _ in range(rng.randrange(0, 4))}

if __name__ == '__main__':
    from taskchain import Task, Config, Parameter
    from taskchain.utils.clazz import repr_from_instantiation
    rng = random.Random(int(sys.argv[1]) if len(sys.argv) > 1 else 0)
    N = int(sys.argv[2]) if len(sys.argv) > 2 else 3000
    bad = 0
    for i in range(N):
        v = gen_value(rng)
        if repr_inst(to_model(v)) != repr_from_instantiation(v):
            bad += 1; print('REPR', repr(v), repr_inst(to_model(v)), repr_from_instantiation(v))
    print('repr_inst cases', N, 'bad', bad)
    # python repr of str
    bad = 0
    for i in range(N):
        s = ''.join(rng.choice(ALPH) for _ in range(rng.randrange(0, 8)))
        if py_repr_str(s) != repr(s): bad += 1; print('PYREPR', [s], py_repr_str(s), repr(s))
    print('py_repr_str cases', N, 'bad', bad)
    # full key through a chain: two-level pipeline with params of all flags, namespace
    tmp = Path(tempfile.mkdtemp())
    bad = 0; M = 300
    for i in range(M):
        vals = {n: gen_value(rng) for n in ['pa', 'pb', 'pc', 'pd']}
        dflt = rng.choice([0, None, 'x', [], vals['pc']])
        gv = {'G': rng.choice(['g1', 2, "q'"])}
        if rng.random() < 0.3: vals['pb'] = '{G}/' + ''.join(rng.choice(ALPH[:12]) for _ in range(3))
        class Up(Task):
            class Meta:
                name = 'up'; task_group = rng.choice(['', 'g', 'g:h'])
                parameters = [Parameter('pa'), Parameter('pb', ignore_persistence=rng.random() < 0.3)]
            def run(self) -> int: return 1
        class Down(Task):
            class Meta:
                name = 'down'; input_tasks = [Up]
                parameters = [Parameter('pc', default=dflt, dont_persist_default_value=rng.random() < 0.7), Parameter('pd', default=None)]
            def run(self) -> int: return 2
        ns = rng.choice([None, 'n', 'n::m'])
        try:
            ch = Config(tmp, name='c', namespace=ns, data={'tasks': [Up, Down], **vals}, global_vars=gv).chain()
        except TypeError as e:
            continue  # unorderable dict keys etc.
        up = [t for n, t in ch.tasks.items() if n.endswith('up')][0]; down = [t for n, t in ch.tasks.items() if n.endswith('down')][0]
        def mparams(task):
            out = []
            for p in task.parameters.values():
                out.append(dict(name=p.name, value=to_model(p.value), default=None if p.required else to_model(p.default), ignore=p.ignore_persistence, dpd=p.dont_persist_default_value))
            return out
        kup = key(mparams(up), [], ns)
        kdown = key(mparams(down), [(up.fullname, kup)], ns)
        if (kup, kdown) != (up.name_for_persistence, down.name_for_persistence):
            bad += 1; print('KEY', vals, dflt, ns, key_text(mparams(down), [(up.fullname, kup)], ns), '|', down.params.repr)
        exp_path = tmp.joinpath(*Up.slugname.split(':')) / f'{kup}.json'
        if up.data_path != exp_path: bad += 1; print('PATH', up.data_path, exp_path)
    print('chain key cases', M, 'bad', bad)
