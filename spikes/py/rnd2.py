import warnings; warnings.filterwarnings('ignore')
import json, tempfile, random, sys, logging, importlib, os, copy, shutil
from pathlib import Path
from taskchain import Task, Config, Chain, Parameter
logging.disable(logging.CRITICAL)

LETTERS = 'abcdefgh'
def gen_pipelines(rng, tmp):
    """returns module name, pipelines: list of list of class specs"""
    specs = []  # each: dict(name, group, params:[(name, default|NOD)], inputs:[spec-index], pipeline idx)
    npipe = rng.randint(1, 3)
    pipes = []
    for p in range(npipe):
        ntask = rng.randint(1, 3)
        group = rng.choice([None, f'g{p}', f'g{p}:h'])
        cur = []
        for t in range(ntask):
            idx = len(specs)
            name = f'p{p}t{t}'
            params = []
            for k in range(rng.randint(0, 2)):
                pn = rng.choice(['x', 'y', f'q{p}'])
                if pn in [a for a, _ in params]: continue
                params.append((pn, rng.choice(['NOD', 0, 'dflt'])))
            # inputs: from same pipeline earlier tasks (by class or by short name)
            inputs = []
            for j in cur:
                if rng.random() < 0.6: inputs.append((j, rng.choice(['class', 'name', 'gname'])))
            specs.append(dict(name=name, group=group, params=params, inputs=inputs, pipe=p, cross=[]))
            cur.append(idx)
        pipes.append(cur)
    return specs, pipes

def write_module(specs, tmp, modname):
    lines = ['from taskchain import Task, Parameter', 'RUNLOG = []', 'NOD = Parameter.NO_DEFAULT']
    for i, s in enumerate(specs):
        cname = 'C' + s['name'].capitalize()
        s['cname'] = cname
        ins = []
        for j, how in s['inputs']:
            t = specs[j]
            if how == 'class': ins.append(t['cname'])
            elif how == 'name': ins.append(repr(t['name']))
            else: ins.append(repr((t['group'] + ':' if t['group'] else '') + t['name']))
        for ref in s['cross']: ins.append(repr(ref))
        ps = ', '.join(f"Parameter({pn!r}, default={('NOD' if d == 'NOD' else repr(d))})" for pn, d in s['params'])
        lines += [f'class {cname}(Task):', '    class Meta:', f'        name = {s["name"]!r}']
        if s['group']: lines.append(f'        task_group = {s["group"]!r}')
        lines += [f'        input_tasks = [{", ".join(ins)}]', f'        parameters = [{ps}]',
                  '    def run(self) -> dict:',
                  '        RUNLOG.append(self.fullname)',
                  '        return {"t": self.slugname, "p": {k: self.params[k] for k in self.params.keys()}, "i": {k: v.value for k, v in self.input_tasks.items()}}']
    (tmp / f'{modname}.py').write_text('\n'.join(lines) + '\n')

def main(seed):
    rng = random.Random(seed)
    tmp = Path(tempfile.mkdtemp(prefix='rnd2_'))
    try:
        return run_case(rng, tmp, seed)
    finally:
        shutil.rmtree(tmp, ignore_errors=True)

def run_case(rng, tmp, seed):
    specs, pipes = gen_pipelines(rng, tmp)
    modname = f'pm{seed}'
    # config tree: each pipeline has a config file; a root config uses pipeline configs, some under namespaces, maybe same twice
    mounts = []  # (pipe idx, ns or None)
    nsnames = ['n', 'xn', 'na', 'g0', 'p0', 'p0t0']
    for p in range(len(pipes)):
        for _ in range(rng.randint(1, 2)):
            ns = rng.choice([None] + nsnames)
            if (p, ns) not in mounts: mounts.append((p, ns))
    # avoid same pipeline at root twice etc. cross inputs: last pipeline's first task depends on some task of an earlier mount by ns-qualified name
    root_tasks = []
    cfg_params = {}
    for p, cur in enumerate(pipes):
        data = {'tasks': [f'{modname}.{"C" + specs[i]["name"].capitalize()}' for i in cur]}
        for i in cur:
            for pn, d in specs[i]['params']:
                if d == 'NOD' or rng.random() < 0.5:
                    data.setdefault(pn, rng.choice([1, 2, 'v', [1, {'k': 'z'}]]))
        cfg_params[p] = data
    # main consumer task referencing mounted tasks by qualified names
    cons_inputs = []
    for (p, ns) in mounts:
        if rng.random() < 0.7:
            t = specs[rng.choice(pipes[p])]
            q = (f'{ns}::' if ns else '') + ((t['group'] + ':') if t['group'] and rng.random() < 0.5 else '') + t['name']
            if q not in cons_inputs: cons_inputs.append(q)
    specs.append(dict(name='cons', group=None, params=[('z', 0)], inputs=[], pipe=-1, cross=cons_inputs))
    write_module(specs, tmp, modname)
    sys.path.insert(0, str(tmp)); importlib.invalidate_caches()
    for p in cfg_params:
        json.dump(cfg_params[p], (tmp / f'pipe{p}.json').open('w'))
    uses = [f'{tmp}/pipe{p}.json' + (f' as {ns}' if ns else '') for p, ns in mounts]
    json.dump({'tasks': [f'{modname}.CCons'], 'uses': uses, 'z': 5}, (tmp / 'main.json').open('w'))
    # context
    ctx = {}
    if rng.random() < 0.7:
        for pn in ['x', 'y', 'q0']:
            if rng.random() < 0.4: ctx[pn] = rng.choice([7, 'c'])
        fn = {}
        for ns in set(ns for _, ns in mounts if ns):
            if rng.random() < 0.6: fn[ns] = {rng.choice(['x', 'y', 'q0', 'q1']): rng.choice([8, 'd'])}
        if fn: ctx['for_namespaces'] = fn
    data_dir = tmp / 'data'
    def build(ctx_):
        return Config(data_dir, tmp / 'main.json', context=copy.deepcopy(ctx_) if ctx_ else None).chain()
    # reference
    def ref_params(p, ns):
        d = dict(cfg_params[p]); d.update({k: v for k, v in ctx.items() if k != 'for_namespaces'})
        if ns: d.update(ctx.get('for_namespaces', {}).get(ns, {}))
        return d
    exp_tasks = {}
    err = None
    for p, ns in mounts:
        eff = ref_params(p, ns)
        for i in pipes[p]:
            s = specs[i]
            full = (f'{ns}::' if ns else '') + ((s['group'] + ':') if s['group'] else '') + s['name']
            pv = {}
            for pn, d in s['params']:
                if pn in eff: pv[pn] = eff[pn]
                elif d == 'NOD': err = 'missing'
                else: pv[pn] = d
            if full in exp_tasks: err = err or 'conflict'
            exp_tasks[full] = (i, ns, pv)
    try:
        ch = build(ctx)
    except Exception as e:
        got_err = type(e).__name__ + ':' + str(e)[:80]
        if err: return 'experr'
        # could be ambiguity/not found of cons inputs: acceptable categories
        return ('ERR', got_err)
    if err == 'missing':
        return ('MISSED-ERROR', err)
    if err == 'conflict':
        return ('NOCONFLICT', sorted(ch.tasks))
    got = {n: t for n, t in ch.tasks.items() if n != 'cons'}
    if set(got) != set(exp_tasks):
        return ('TASKSET', sorted(got), sorted(exp_tasks))
    bad = []
    for n, t in got.items():
        i, ns, pv = exp_tasks[n]
        gp = {k: t.params[k] for k in t.params.keys()}
        if gp != pv: bad.append(('PARAM', n, gp, pv))
        # inputs: expected same-namespace tasks
        exp_in = set()
        for j, how in specs[i]['inputs']:
            sj = specs[j]
            exp_in.add((f'{ns}::' if ns else '') + ((sj['group'] + ':') if sj['group'] else '') + sj['name'])
        gi = set(str(v) if isinstance(v, Task) else None for v in t.input_tasks.values())
        # compare by location-equivalence: the input objects' own params must equal expectation
        for k, v in t.input_tasks.items():
            pass
        if len(t.input_tasks) != len(exp_in): bad.append(('NINPUTS', n, list(t.input_tasks.keys()), sorted(exp_in)))
        # value provenance
        try:
            v = t.value
            if v['p'] != pv: bad.append(('VALUE-PARAM', n, v['p'], pv))
            for (j, how), (k, iv) in zip(specs[i]['inputs'], v['i'].items()):
                ej = exp_tasks[(f'{ns}::' if ns else '') + ((specs[j]['group'] + ':') if specs[j]['group'] else '') + specs[j]['name']]
                if iv['p'] != ej[2]: bad.append(('VALUE-INPUT', n, k, iv['p'], ej[2]))
        except Exception as e:
            bad.append(('VALUE-EXC', n, type(e).__name__, str(e)[:80]))
    return bad or 'ok'

if __name__ == '__main__':
    a, b = int(sys.argv[1]), int(sys.argv[2])
    from collections import Counter
    c = Counter()
    for s in range(a, b):
        try: r = main(s)
        except Exception as e:
            import traceback; r = ('HARNESS-EXC', type(e).__name__, str(e)[:200]); traceback.print_exc()
        key = r if isinstance(r, str) else (r[0] if isinstance(r, tuple) else r[0][0])
        c[key] += 1
        if key not in ('ok', 'experr', 'ERR'): print(s, str(r)[:400])
        elif key == 'ERR' and s % 7 == 0: print(s, r)
    print(c)
