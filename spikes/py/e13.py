import warnings; warnings.filterwarnings('ignore')
import json, tempfile, logging
from pathlib import Path
from taskchain import Task, Config, Chain, MultiChain, Parameter
logging.disable(logging.CRITICAL)
class P1Task(Task):
    class Meta:
        parameters = [Parameter('x')]
    def run(self, x) -> int: return x
class P2Task(Task):
    class Meta:
        input_tasks = [P1Task]
    def run(self, p1) -> int: return p1 + 1
import sys; sys.modules['pipe13'] = sys.modules['__main__']
tmp = Path(tempfile.mkdtemp())
json.dump({'tasks': ['pipe13.P1Task', 'pipe13.P2Task'], 'x': 1}, (tmp/'p.json').open('w'))
json.dump({'uses': [f'{tmp}/p.json as a']}, (tmp/'c1.json').open('w'))
json.dump({'uses': [f'{tmp}/p.json as b']}, (tmp/'c2.json').open('w'))
json.dump({'uses': [f'{tmp}/p.json']}, (tmp/'c3.json').open('w'))
for names in (['c1','c2'], ['c1','c3'], ['c3','c1']):
    try:
        mc = MultiChain([Config(tmp, tmp/f'{n}.json') for n in names])
        print(names, 'ok', {n: {k: (str(t), list(t.input_tasks.keys())) for k, t in mc[n].tasks.items()} for n in names})
        for n in names:
            print('   values', n, {k: t.value for k, t in mc[n].tasks.items()})
    except Exception as e:
        print(names, 'EXC', type(e).__name__, e)
# single chain, same pipeline twice with identical params and inputs
json.dump({'uses': [f'{tmp}/p.json as a', f'{tmp}/p.json as b']}, (tmp/'c4.json').open('w'))
ch = Config(tmp, tmp/'c4.json').chain()
print({k: (str(t), list(t.input_tasks.keys())) for k, t in ch.tasks.items()}, ch['b::p2'].value)
