import warnings; warnings.filterwarnings('ignore')
import json, tempfile, shutil, sys, os
from pathlib import Path
from typing import List
from taskchain import Task, Config, Chain, MultiChain, Parameter, InMemoryData
from taskchain.utils.clazz import repr_from_instantiation
from taskchain.task import _find_task_full_name

print("--- C03 string quoting")
print(repr_from_instantiation(['a','b']), '|', repr_from_instantiation(["a', 'b"]))

class P(Task):
    class Meta:
        parameters = [Parameter('v')]
    def run(self, v) -> list:
        return [v]

tmp = Path(tempfile.mkdtemp())
c1 = Config(tmp, name='c1', data={'tasks':[P], 'v': ['a','b']}).chain()
c2 = Config(tmp, name='c2', data={'tasks':[P], 'v': ["a', 'b"]}).chain()
print(c1.p.data_path == c2.p.data_path)
print(c1.p.value, c2.p.value)

print("--- C10 textual suffix")
try:
    print(_find_task_full_name('a', ['n::a','xn::a']))
except KeyError as e: print('KeyError', e)
try:
    print(_find_task_full_name('a', ['xn::a','n::a']))
except KeyError as e: print('KeyError', e)
try:
    print(_find_task_full_name('a', ['g:a','xg:a']))
except KeyError as e: print('KeyError', e)
try:
    print(_find_task_full_name('a', ['a','xa']))
except KeyError as e: print('KeyError', e)
try:
    print(_find_task_full_name('ba', ['g:ba','a:ba', 'ba']))
except KeyError as e: print('KeyError', e)

print("--- C05 unserializable JSON")
class U(Task):
    def run(self) -> dict:
        return {'a': {1,2}}
tmp2 = Path(tempfile.mkdtemp())
ch = Config(tmp2, name='c', data={'tasks':[U]}).chain()
try:
    ch.u.value
except Exception as e: print('ERR', type(e), e)
print(list(tmp2.rglob('*')))
ch = Config(tmp2, name='c', data={'tasks':[U]}).chain()
print('has_data', ch.u.has_data)
try:
    print(ch.u.value)
except Exception as e: print('ERR', type(e), e)
