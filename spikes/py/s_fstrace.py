import warnings; warnings.filterwarnings('ignore')
import sys, os, tempfile, json
from pathlib import Path
EVENTS = []
ACTIVE = [False]
CRASH_AT = int(os.environ.get('CRASH_AT', '-1'))
ROOT = [None]
def hook(ev, args):
    if not ACTIVE[0]: return
    if ev in ('open', 'os.rename', 'os.remove', 'os.mkdir', 'os.rmdir', 'shutil.rmtree', 'shutil.move', 'os.truncate', 'shutil.copyfile', 'os.symlink'):
        a = [str(x) for x in args[:3]]
        if ROOT[0] and not any(ROOT[0] in x for x in a): return
        if ev == 'open' and ('r' == a[1] or a[1] == 'rb' or a[1] == 'None') and not (len(args) > 2 and isinstance(args[2], int) and args[2] & (os.O_WRONLY | os.O_RDWR | os.O_CREAT)):
            kind = 'open-r'
        else:
            kind = ev
        EVENTS.append((kind, [x.replace(ROOT[0], '<D>') for x in a]))
        if len(EVENTS) - 1 == CRASH_AT:
            os._exit(9)
sys.addaudithook(hook)
import numpy as np, pandas as pd
from typing import Generator
from taskchain import Task, Config
from taskchain.data import DirData
def mk(name, typ, fn):
    def run(self): return fn(self)
    run.__annotations__ = {'return': typ}
    return type(name, (Task,), {'run': run, 'Meta': type('Meta', (), {'name': name})})
def dirrun(self):
    d = self.get_data_object(); (d.dir / 'f.txt').write_text('x'); return d
def gen(self):
    yield 1; yield {'a': 2}
classes = {
 'j': mk('j', dict, lambda s: {'a': [1, 2]}), 'n': mk('n', np.ndarray, lambda s: np.arange(3)),
 'p': mk('p', pd.DataFrame, lambda s: pd.DataFrame({'a': [1]})), 'g': mk('g', Generator, gen), 'd': mk('d', DirData, dirrun),
}
which = sys.argv[1]
tmp = Path(sys.argv[2]); ROOT[0] = str(tmp)
ch = Config(tmp, name='c', data={'tasks': [classes[which]]}).chain()
ACTIVE[0] = True
t = ch[which]
if len(sys.argv) > 3 and sys.argv[3] == 'force': t.force()
v = t.value
ACTIVE[0] = False
for e in EVENTS: print(e)
