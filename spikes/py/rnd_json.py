import warnings; warnings.filterwarnings('ignore')
import random, sys, tempfile, math, shutil
from pathlib import Path
from taskchain.utils import json as tj
from taskchain.utils.io import write_jsons, iter_json_file
CH = ['a', 'Z', '0', ' ', '"', "'", '\\', '/', '\n', '\r', '\t', '\x00', '\x1f', '\x7f', '\x85', ' ', ' ', 'é', 'ß', '中', '😀', '﻿', '�', '{', '}', '[', ']', ',', ':']
def s(rng): return ''.join(rng.choice(CH) for _ in range(rng.randrange(0, 7)))
def val(rng, d=0):
    r = rng.random()
    if d > 4 or r < 0.5:
        k = rng.randrange(7)
        return [None, rng.choice([True, False]), rng.choice([0, -1, 2**63 - 1, -2**63, 2**64 - 1, 2**53 + 1, 7]),
                rng.choice([0.0, -0.0, 1.5, 5e-324, 1.7976931348623157e308, -1e-7, 1e16, 0.1, 123456.789e3]), s(rng), s(rng), rng.randrange(10)][k]
    if r < 0.75: return [val(rng, d + 1) for _ in range(rng.randrange(0, 4))]
    return {s(rng): val(rng, d + 1) for _ in range(rng.randrange(0, 4))}
def eq(a, b):
    if type(a) != type(b): return False
    if isinstance(a, float): return (a == b and math.copysign(1, a) == math.copysign(1, b))
    if isinstance(a, list): return len(a) == len(b) and all(eq(x, y) for x, y in zip(a, b))
    if isinstance(a, dict): return list(a.keys()) == list(b.keys()) if False else (a.keys() == b.keys() and all(eq(a[k], b[k]) for k in a))
    return a == b
rng = random.Random(int(sys.argv[1])); N = int(sys.argv[2]); bad = 0
tmp = Path(tempfile.mkdtemp())
for i in range(N):
    v = val(rng)
    for kw in ({}, {'indent': 2, 'sort_keys': True}):
        t = tj.dumps(v, **kw)
        if not eq(tj.loads(t), v): bad += 1; print('RT', repr(v)[:100], t[:100])
        if not kw and ('\n' in t or '\r' in t): bad += 1; print('RAWNL', repr(t))
    items = [val(rng) for _ in range(rng.randrange(0, 6))]
    write_jsons(items, tmp / 'x.jsonl', use_tqdm=False)
    back = list(iter_json_file(tmp / 'x.jsonl', use_tqdm=False))
    if not eq(back, items): bad += 1; print('JSONL', repr(items)[:200], repr(back)[:200])
shutil.rmtree(tmp)
print('cases', N, 'bad', bad)
