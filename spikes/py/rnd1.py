import warnings; warnings.filterwarnings('ignore')
import json, tempfile, random, sys, logging
from pathlib import Path
from taskchain import Task, Config, Chain, MultiChain, Parameter, InMemoryData
logging.disable(logging.CRITICAL)

RUNLOG = []
def make_pipeline(rng, n):
    classes = []
    for i in range(n):
        k = rng.randint(0, min(i, 3))
        deps = rng.sample(range(i), k) if i else []
        inmem = rng.random() < 0.2
        pnames = [f'p{i}'] if rng.random() < 0.7 else []
        def mk(i=i, deps=deps, inmem=inmem, pnames=pnames):
            dep_classes = [classes[d] for d in deps]
            # half of deps as run args, others accessed manually (or unused)
            used = [d for d in deps if rng.random() < 0.8]
            def run(self):
                RUNLOG.append((self.fullname, self.name_for_persistence))
                vals = [self.input_tasks[f't{d}'].value for d in used]
                return {'t': i, 'p': {p: self.params[p] for p in pnames}, 'i': vals}
            run.__annotations__ = {'return': dict}
            meta = {'input_tasks': dep_classes, 'parameters': [Parameter(p, default=0) for p in pnames], 'name': f't{i}'}
            if inmem: meta['data_class'] = InMemoryData
            cls = type(f'T{i}', (Task,), {'run': run, 'Meta': type('Meta', (), meta)})
            cls._deps = deps; cls._used = used; cls._inmem = inmem; cls._pnames = pnames; cls._i = i
            return cls
        classes.append(mk())
    return classes

def expected_value(classes, params, i):
    c = classes[i]
    return {'t': i, 'p': {p: params.get(p, 0) for p in c._pnames}, 'i': [expected_value(classes, params, d) for d in c._used]}

def main(seed):
    rng = random.Random(seed)
    n = rng.randint(2, 7)
    classes = make_pipeline(rng, n)
    tmp = Path(tempfile.mkdtemp())
    # model
    store = set()      # keys (task i, key)
    chains = []        # list of dict: chain, params, mem (set of i with mem), forced set
    def newchain():
        params = {f'p{i}': rng.choice([0, 1, 2]) for i in range(n) if rng.random() < 0.6}
        ch = Config(tmp, name=f'c{len(chains)}', data={'tasks': classes, **params}).chain()
        chains.append({'chain': ch, 'params': params, 'mem': set(), 'forced': set()})
    def key(c, i): return c['chain'][f't{i}'].name_for_persistence
    def model_value(c, i, runs):
        cls = classes[i]
        if i in c['mem']: return
        if not cls._inmem and (i, key(c, i)) in store and i not in c['forced']:
            c['mem'].add(i); return
        # run
        runs_pos = len(runs); runs.append(None)  # RUNLOG appended at start of run
        runs[runs_pos] = i
        for d in cls._used: model_value(c, d, runs)
        if not cls._inmem: store.add((i, key(c, i)))
        c['mem'].add(i)
    newchain()
    for step in range(rng.randint(5, 25)):
        op = rng.choice(['value', 'value', 'value', 'new', 'force', 'cforce', 'inspect'])
        c = rng.choice(chains); i = rng.randrange(n)
        RUNLOG.clear()
        if op == 'new':
            newchain(); assert RUNLOG == [], ('construction ran', RUNLOG)
        elif op == 'value':
            runs = []
            model_value(c, i, runs)
            v = c['chain'][f't{i}'].value
            assert v == expected_value(classes, c['params'], i), ('VALUE', seed, step, v, expected_value(classes, c['params'], i))
            got = [int(n_[1:]) for n_, _ in RUNLOG]
            assert got == runs, ('RUNS', seed, step, got, runs)
        elif op == 'force':
            dd = rng.random() < 0.5
            c['chain'][f't{i}'].force(delete_data=dd)
            c['forced'].add(i); c['mem'].discard(i)
            if dd and not classes[i]._inmem: store.discard((i, key(c, i)))
            assert RUNLOG == []
        elif op == 'cforce':
            dd = rng.random() < 0.5; rc = rng.random() < 0.5
            desc = {i}
            changed = True
            while changed:
                changed = False
                for j in range(n):
                    if j not in desc and any(d in desc for d in classes[j]._deps):
                        desc.add(j); changed = True
            c['chain'].force(f't{i}', delete_data=dd, recompute=rc)
            for j in desc:
                c['forced'].add(j); c['mem'].discard(j)
                if dd and not classes[j]._inmem: store.discard((j, key(c, j)))
            forced_impl = {j for j in range(n) if c['chain'][f't{j}'].is_forced}
            assert forced_impl == c['forced'], ('FORCED', seed, step, forced_impl, c['forced'])
            if rc:
                got = sorted(int(n_[1:]) for n_, _ in RUNLOG)
                # each forced-by-this-call task runs exactly once; upstream missing may run too
                for j in desc: assert got.count(j) == 1, ('RECOMPUTE', seed, step, got, desc)
                # replay into model: order arbitrary -> just apply effects
                for j in got:
                    if not classes[j]._inmem: store.add((j, key(c, j)))
                    c['mem'].add(j)
                # also tasks loaded from store during recompute become mem: approximate by marking used deps of run tasks
                for j in got:
                    for d in classes[j]._used:
                        if d not in c['mem']: c['mem'].add(d)
            else:
                assert RUNLOG == []
        elif op == 'inspect':
            t = c['chain'][f't{i}']
            hd = t.has_data; _ = t.data_path; _ = t.run_info; _ = t.log; _ = c['chain'].tasks_df
            assert RUNLOG == []
            exp = (not classes[i]._inmem) and (i, key(c, i)) in store
            assert hd == exp, ('HASDATA', seed, step, hd, exp)
    return n

if __name__ == '__main__':
    a, b = int(sys.argv[1]), int(sys.argv[2])
    bad = 0
    for s in range(a, b):
        try: main(s)
        except AssertionError as e:
            bad += 1; print('FAIL', s, str(e)[:300])
        except Exception as e:
            bad += 1; print('EXC', s, type(e).__name__, str(e)[:300])
    print('done', b - a, 'bad', bad)
