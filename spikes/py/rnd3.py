import warnings; warnings.filterwarnings('ignore')
import json, tempfile, random, sys, logging, importlib, os, copy, shutil, itertools
from pathlib import Path
from collections import Counter
logging.disable(logging.CRITICAL)
import refbuild as R
from taskchain import Task, Config, Chain, MultiChain, Parameter
from taskchain.parameter import InputTaskParameter
from taskchain.utils.clazz import repr_from_instantiation

NSN = ['n', 'xn', 'na', 'g', 't0', 't']          # namespace names colliding with groups / task names
VALS = [1, 2, 'v', "q'", [1, {'k': 'z'}], None, True, 0]

def gen_classes(rng):
    n = rng.randint(2, 7); classes = {}; order = []
    for i in range(n):
        cname = 'K' + 'abcdefgh'[i] + 'x'
        group = rng.choice([None, None, 'g', 'g:h', 'n'])
        name = rng.choice([f't{i}'] * 6 + ['t', 't0'])   # collisions on purpose
        params = []
        for pn in rng.sample(['x', 'y', 'z', 'w'], rng.randint(0, 3)):
            p = {'name': pn}
            if rng.random() < 0.6: p['default'] = rng.choice(VALS)
            if rng.random() < 0.2: p['name_in_config'] = pn + '_cfg'
            if rng.random() < 0.2: p['ignore'] = True
            if rng.random() < 0.3 and 'default' in p: p['dpd'] = True
            if rng.random() < 0.04: p['dtype'] = rng.choice([int, str])
            params.append(p)
        inputs = []
        for j in rng.sample(order, min(len(order), rng.randint(0, 2))):
            cj = classes[j]
            how = rng.random()
            if how < 0.4: inputs.append({'by': 'class', 'ref': j})
            elif how < 0.6: inputs.append({'by': 'name', 'ref': cj['name']})
            elif how < 0.75: inputs.append({'by': 'name', 'ref': R.slug(cj)})
            elif how < 0.80: inputs.append({'by': 'name', 'ref': rng.choice(NSN) + '::' + cj['name']})
            else: inputs.append({'by': rng.choice(['class', 'name']), 'ref': j if False else (j), 'default': 5, '_opt': True})
        if rng.random() < 0.1: inputs.append({'by': 'name', 'ref': '~t.*'})
        # normalise optional entries
        for inp in inputs:
            if inp.get('_opt'):
                if inp['by'] == 'name': inp['ref'] = classes[inp['ref']]['name']
                del inp['_opt']
        classes[cname] = dict(cname=cname, group=group, name=name, params=params, inputs=inputs, abstract=rng.random() < 0.05)
        order.append(cname)
    return classes

def write_module(classes, tmp, modname):
    L = ['from taskchain import Task, Parameter', 'from taskchain.parameter import InputTaskParameter', 'ND = Parameter.NO_DEFAULT']
    for cn, c in classes.items():
        ins = []
        for i in c['inputs']:
            ref = i['ref'] if i['by'] == 'class' else repr(i['ref'])
            ins.append(f'InputTaskParameter({ref}, default={i["default"]!r})' if 'default' in i else ref)
        ps = []
        for p in c['params']:
            kw = [repr(p['name'])]
            if 'default' in p: kw.append(f'default={p["default"]!r}')
            if 'name_in_config' in p: kw.append(f'name_in_config={p["name_in_config"]!r}')
            if p.get('ignore'): kw.append('ignore_persistence=True')
            if p.get('dpd'): kw.append('dont_persist_default_value=True')
            if p.get('dtype'): kw.append(f'dtype={p["dtype"].__name__}')
            ps.append(f'Parameter({", ".join(kw)})')
        L += [f'class {cn}(Task):', '    class Meta:', f'        name = {c["name"]!r}']
        if c['group']: L.append(f'        task_group = {c["group"]!r}')
        if c['abstract']: L.append('        abstract = True')
        L += [f'        input_tasks = [{", ".join(ins)}]', f'        parameters = [{", ".join(ps)}]', '    def run(self) -> int:', '        return 1']
    (tmp / f'{modname}.py').write_text('\n'.join(L) + '\n')

def gen_case(rng, tmp, seed):
    classes = gen_classes(rng)
    mod = f'bm{seed}'
    write_module(classes, tmp, mod)
    names = list(classes)
    D = str(tmp)
    fs = {}
    # pipeline files
    nfiles = rng.randint(1, 4); files = []
    pool = names[:]; rng.shuffle(pool)
    for f in range(nfiles):
        mine = [pool.pop() for _ in range(min(len(pool), rng.randint(1, 3)))] if f < nfiles - 1 else pool[:]
        if rng.random() < 0.2 and names: mine.append(rng.choice(names))     # same class in two files -> conflicts sometimes
        data = {'tasks': mine}
        if rng.random() < 0.15 and mine: data['excluded_tasks'] = [rng.choice(mine)]
        for cn in mine:
            for p in classes[cn]['params']:
                if 'default' not in p or rng.random() < 0.5:
                    if rng.random() < 0.9: data[p.get('name_in_config', p['name'])] = rng.choice(VALS)
        files.append((f'{D}/f{f}.json', data))
    # uses between files: file i may use files > i
    for i, (path, data) in enumerate(files):
        us = []
        for j in range(i + 1, len(files)):
            if j == i + 1 or rng.random() < 0.3:
                for _ in range(rng.randint(1, 2)):
                    ns = rng.choice([None] + NSN)
                    pth = files[j][0] if rng.random() < 0.7 else '{D}/' + files[j][0].split('/')[-1]
                    u = pth + (f' as {ns}' if ns else '')
                    if u not in us: us.append(u)
        if us: data['uses'] = us if len(us) > 1 or rng.random() < 0.5 else us[0]
    multipart = rng.random() < 0.3 and len(files) >= 2
    if multipart:
        # fold files[1:] into one multi-part file mp.json; rewrite references
        mp = {'configs': {}}
        ren = {}
        for k, (path, data) in enumerate(files[1:]):
            pn = f'p{k}'; ren[path] = f'{D}/mp.json#{pn}'; ren['{D}/' + path.split('/')[-1]] = '{D}/mp.json#' + pn
            mp['configs'][pn] = data
        def rw(u, inside):
            for old, new in ren.items():
                if u.startswith(old):
                    rest = u[len(old):]
                    return ('#' + new.split('#')[1] if inside and rng.random() < 0.7 else new) + rest
            return u
        for pn, data in mp['configs'].items():
            if 'uses' in data: data['uses'] = [rw(u, True) for u in R.los(data['uses'])]
        if 'uses' in files[0][1]: files[0][1]['uses'] = [rw(u, False) for u in R.los(files[0][1]['uses'])]
        fs[files[0][0]] = files[0][1]; fs[f'{D}/mp.json'] = mp
    else:
        for path, data in files: fs[path] = data
    main = files[0][0]
    # contexts
    def ctx_dict(depth=0):
        c = {}
        for pn in ['x', 'y', 'z', 'w', 'x_cfg']:
            if rng.random() < 0.25: c[pn] = rng.choice([7, 'c', [3]])
        if rng.random() < 0.5:
            c['for_namespaces'] = {rng.choice(NSN + ['n::xn', 'g::n']): {rng.choice(['x', 'y', 'z']): rng.choice([8, 'd'])} for _ in range(rng.randint(1, 2))}
        return c
    kind = rng.choice(['none', 'dict', 'file', 'list', 'uses'])
    ctx = None
    if kind == 'dict': ctx = ctx_dict()
    elif kind == 'file': fs[f'{D}/ctx.json'] = ctx_dict(); ctx = f'{D}/ctx.json'
    elif kind == 'list':
        fs[f'{D}/ctx.json'] = ctx_dict(); ctx = [ctx_dict(), f'{D}/ctx.json', ctx_dict()]
    elif kind == 'uses':
        fs[f'{D}/c1.json'] = ctx_dict(); fs[f'{D}/c2.json'] = ctx_dict()
        if rng.random() < 0.4: fs[f'{D}/c2.json']['uses'] = f'{D}/c1.json as ' + rng.choice(NSN)
        top = ctx_dict(); top['uses'] = [f'{D}/c1.json as ' + rng.choice(NSN), ('{D}/c2.json' if rng.random() < .5 else f'{D}/c2.json') + rng.choice(['', ' as ' + rng.choice(NSN)])]
        if rng.random() < 0.5: fs[f'{D}/ctx.json'] = top; ctx = f'{D}/ctx.json'
        else: ctx = top
    gv = {'D': D}
    for p, d in fs.items(): json.dump(d, open(p, 'w'))
    return classes, mod, fs, main, ctx, gv

def describe_impl(ch):
    out = {}
    objs = {}
    for n, t in ch.tasks.items():
        objs.setdefault(id(t), []).append(n)
        ins = [(k, (str(v) if isinstance(v, Task) else ('default', v))) for k, v in t.input_tasks.items()]
        out[n] = dict(params={k: t.params[k] for k in t.params.keys()}, inputs=ins, key=t.name_for_persistence, obj=str(t))
    return out, sorted(sorted(v) for v in objs.values())

def describe_ref(new):
    out = {}; objs = {}
    for n, t in new.items():
        objs.setdefault(id(t), []).append(n)
        ins = [(k, (v.fullname if isinstance(v, R.T) else v)) for k, v in t.inputs.items()]
        out[n] = dict(params=t.params, inputs=ins, key=t.key, obj=t.fullname)
    return out, sorted(sorted(v) for v in objs.values())

def main(seed, stats):
    rng = random.Random(seed)
    tmp = Path(tempfile.mkdtemp(prefix='rnd3_'))
    sys.path.insert(0, str(tmp))
    try:
        classes, mod, fs, mainp, ctx, gv = gen_case(rng, tmp, seed)
        importlib.invalidate_caches()
        # implementation
        try:
            fs2 = copy.deepcopy(fs)
            for d in fs2.values():
                for part in (d['configs'].values() if 'configs' in d else [d]):
                    for fld in ('tasks', 'excluded_tasks'):
                        if fld in part: part[fld] = [f'{mod}.{c}' for c in part[fld]]
            for p, d in fs2.items(): json.dump(d, open(p, 'w'))
            ch = Config(tmp / 'data', mainp, global_vars=gv, context=copy.deepcopy(ctx)).chain()
            impl = describe_impl(ch)
        except Exception as e:
            impl = ('ERR', type(e).__name__, str(e)[:100])
        try:
            new = R.build(fs, mainp, classes, ctx_src=copy.deepcopy(ctx), gv=gv, reprfn=repr_from_instantiation)
            ref = describe_ref(new)
        except (R.BuildError, KeyError) as e:
            ref = ('ERR', type(e).__name__, str(e)[:100])
        ie, re_ = isinstance(impl, tuple) and impl[0] == 'ERR', isinstance(ref, tuple) and ref[0] == 'ERR'
        if ie or re_:
            stats['err' if ie and re_ else 'ERRMISMATCH'] += 1
            if ie != re_: return ('ERRMISMATCH', impl if ie else 'impl ok', ref if re_ else 'ref ok')
            stats['errkind:' + ref[2].split(':')[0]] += 1
            return None
        stats['ok'] += 1; stats['tasks'] += len(impl[0])
        if impl != ref:
            for n in impl[0]:
                if n not in ref[0] or impl[0][n] != ref[0][n]: return ('DIFF', n, impl[0].get(n), ref[0].get(n))
            return ('DIFF-OBJ', impl[1], ref[1], list(impl[0]), list(ref[0]))
        return None
    finally:
        sys.path.remove(str(tmp)); shutil.rmtree(tmp, ignore_errors=True)

if __name__ == '__main__':
    a, b = int(sys.argv[1]), int(sys.argv[2]); stats = Counter(); bad = 0
    for s in range(a, b):
        try: r = main(s, stats)
        except Exception as e:
            import traceback; traceback.print_exc(); r = ('HARNESS', str(e)[:200])
        if r: bad += 1; print(s, str(r)[:600])
    print(dict(stats), 'bad', bad)
