import warnings; warnings.filterwarnings('ignore')
import json, tempfile, shutil, sys, os, logging
from pathlib import Path
from taskchain.cache import *
logging.getLogger('cache').handlers.clear()
print('--- C14')
d = Path(tempfile.mkdtemp())
c = JsonCache(d)
calls = []
def comp(v):
    def f():
        calls.append(v); return v
    return f
print(c.get('k'), c.get_or_compute('k', comp(1)), c.get_or_compute('k', comp(2)), c.get('k'), c.get_or_compute('k', comp(3), force=True), calls)
fp = c.filepath('k')
print(fp.read_text())
fp.write_text('')   # empty
print('empty ->', c.get('k'), c.get_or_compute('k', comp(4)))
fp.write_text('{"key":"k","val')
print('trunc ->', c.get('k') , c.get_or_compute('k', comp(5)))
fp.write_text('{"key":"other","value":1}')
for op in (lambda: c.get('k'), lambda: c.get_or_compute('k', comp(6))):
    try: print('mismatch ->', op())
    except Exception as e: print('mismatch -> EXC', type(e).__name__, e)
# failing computer
def boom(): raise RuntimeError('x')
try: c.get_or_compute('z', boom)
except RuntimeError: print('raised; file exists?', c.filepath('z').exists(), c.get('z'))
# None handling
c2 = JsonCache(d/'n', allow_nones=False)
try: c2.get_or_compute('n', lambda: None)
except Exception as e: print('None ->', type(e).__name__, c2.filepath('n').exists())
# weird keys
for k in ['', 'a/b', 'é\U0001F600', 'a\x00b', '\ud800']:
    try:
        print(repr(k), c.get_or_compute(k, comp(k)) == k, c.get(k) == k)
    except Exception as e: print(repr(k), 'EXC', type(e).__name__, e)
# value unserializable
try: c.get_or_compute('u', lambda: {1,2})
except Exception as e: print('unser ->', type(e).__name__, c.filepath('u').exists(), c.filepath('u').read_text())
try: print(c.get('u'), c.get_or_compute('u', comp(7)))
except Exception as e: print('EXC', e)
# non-roundtrip values: tuple, int keys, nan
print(c.get_or_compute('t', lambda: (1,2)), c.get('t'))
print(c.get_or_compute('ik', lambda: {1:2}), c.get('ik'))
print(c.get_or_compute('nan', lambda: float('nan')), c.get('nan'))
print(c.get_or_compute('big', lambda: 2**70) if False else '')
try: print(c.get_or_compute('big', lambda: 2**64))
except Exception as e: print('big EXC', type(e).__name__, e, c.filepath('big').exists())
print('--- subcache')
s1 = c.subcache('x'); s2 = c.subcache('y')
print(s1.get_or_compute('k', comp('s1')), s2.get_or_compute('k', comp('s2')), c.get('k'))
print('--- InMemoryCache')
m = InMemoryCache()
print(m.get('a'), m.get_or_compute('a', comp(None)), m.get_or_compute('a', comp(9)), calls[-2:])
