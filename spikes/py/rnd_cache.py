import warnings; warnings.filterwarnings('ignore')
import random, sys, tempfile, logging, shutil, inspect, json, itertools
from pathlib import Path
import numpy as np, pandas as pd
import taskchain.cache as tc
lg = logging.getLogger('cache'); lg.handlers.clear(); lg.addHandler(logging.NullHandler()); lg.propagate = False

def eq(a, b):
    if isinstance(a, np.ndarray) or isinstance(b, np.ndarray): return isinstance(a, np.ndarray) and isinstance(b, np.ndarray) and a.dtype == b.dtype and a.shape == b.shape and np.array_equal(a, b)
    if isinstance(a, pd.DataFrame) or isinstance(b, pd.DataFrame): return isinstance(a, pd.DataFrame) and isinstance(b, pd.DataFrame) and a.equals(b)
    return type(a) == type(b) and a == b

def c14(seed):
    rng = random.Random(seed)
    d = Path(tempfile.mkdtemp(prefix='c14_'))
    try:
        kind = rng.choice(['json', 'np', 'pd', 'mem'])
        mk = {'json': lambda p: tc.JsonCache(p), 'np': lambda p: tc.NumpyArrayCache(p), 'pd': lambda p: tc.DataFrameCache(p), 'mem': lambda p: tc.InMemoryCache()}[kind]
        root = mk(d)
        caches = {'': root}
        model = {}   # (cachename, key) -> value
        KEYS = ['k', 'k2', '', 'a/b', 'é😀', 'x\x00y', ' ', 'K', 'k ']
        def val():
            i = rng.randint(0, 5)
            if kind == 'np': return np.arange(i, dtype=rng.choice([np.int64, np.float32])).reshape(-1)
            if kind == 'pd': return pd.DataFrame({'a': list(range(i))})
            return rng.choice([i, str(i), [i, {'a': None}], {'k': [i]}, None, 0, '', [], False, 1.5])
        for step in range(rng.randint(5, 30)):
            cn = rng.choice(list(caches)); c = caches[cn]; k = rng.choice(KEYS)
            op = rng.choice(['get', 'goc', 'goc', 'force', 'raise', 'sub', 'damage'])
            if op == 'sub':
                if kind == 'mem' or rng.random() < .5:
                    name = rng.choice(['s1', 's2'])
                    nn = cn + '/' + name
                    sc = c.subcache(name)
                    if nn in caches and kind == 'mem': assert sc is caches[nn], 'mem subcache identity'
                    caches[nn] = sc
                continue
            if op == 'damage':
                if kind == 'mem' or (cn, k) not in model: continue
                fp = c.filepath(k); b = fp.read_bytes()
                how = rng.choice(['del', 'empty', 'trunc'])
                if how == 'del': fp.unlink()
                elif how == 'empty': fp.write_bytes(b'')
                else: fp.write_bytes(b[:rng.randrange(0, len(b))])
                del model[(cn, k)]
                continue
            calls = []
            v = val()
            def comp():
                calls.append(1)
                if op == 'raise': raise RuntimeError('boom')
                return v
            if op == 'get':
                r = c.get(k)
                if (cn, k) in model: assert eq(r, model[(cn, k)]), ('get', kind, k, r, model[(cn, k)])
                else: assert r is tc.NO_VALUE, ('get-absent', kind, k, r)
            else:
                try:
                    r = c.get_or_compute(k, comp, force=(op == 'force'))
                    raised = False
                except RuntimeError: raised = True
                if (cn, k) in model and op != 'force':
                    assert not raised and calls == [] and eq(r, model[(cn, k)]), ('hit', kind, op, k, calls, r, model[(cn, k)])
                else:
                    assert calls == [1], ('calls', kind, op, k, calls)
                    if op == 'raise':
                        assert raised
                        # a failing computation stores nothing (and does not destroy an entry it was forced over? n/a: raise is unforced)
                    else:
                        assert not raised and eq(r, v), ('computed', r, v)
                        model[(cn, k)] = v
        # final: every model entry readable from fresh cache objects
        if kind != 'mem':
            for (cn, k), v in model.items():
                c2 = mk(d)
                for part in [p for p in cn.split('/') if p]: c2 = c2.subcache(part)
                r = c2.get(k)
                # JSON round trip domain
                assert eq(r, v), ('fresh', kind, cn, k, r, v)
        return kind
    finally:
        shutil.rmtree(d, ignore_errors=True)

if __name__ == '__main__':
    a, b = int(sys.argv[1]), int(sys.argv[2]); bad = 0
    from collections import Counter; cnt = Counter()
    for s in range(a, b):
        try: cnt[c14(s)] += 1
        except AssertionError as e: bad += 1; print('FAIL', s, str(e)[:300])
        except Exception as e: bad += 1; print('EXC', s, type(e).__name__, str(e)[:300])
    print(dict(cnt), 'bad', bad)
