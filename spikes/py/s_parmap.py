import warnings; warnings.filterwarnings('ignore')
import concurrent.futures, threading, random, time
from concurrent.futures import Future
ORDER = []      # dictated completion order per chunk: list of permutations
CALLS = []
class CtlExecutor:
    def __init__(self, max_workers=None):
        self.pending = []
    def submit(self, fn, *args):
        f = Future(); self.pending.append((f, fn, args)); return f
    def __enter__(self): 
        return self
    def __exit__(self, *a):
        return False
    def shutdown(self, wait=True): pass
    def release(self, perm):
        # complete futures in the dictated order, from a separate thread
        def work():
            for i in perm:
                f, fn, args = self.pending[i]
                try: f.set_result(fn(*args))
                except BaseException as e: f.set_exception(e)
                time.sleep(0)  # results are set strictly sequentially
        threading.Thread(target=work, daemon=True).start()
concurrent.futures.ThreadPoolExecutor = CtlExecutor
import taskchain.utils.threading as th
import asyncio
# the coroutine submits all futures of a chunk and then awaits as_completed; we hook as_completed to trigger release
_as_completed = asyncio.as_completed
EXECS = []
_orig_init = CtlExecutor.__init__
def init(self, max_workers=None):
    _orig_init(self, max_workers); EXECS.append(self)
CtlExecutor.__init__ = init
def as_completed(fs, **kw):
    ex = EXECS[-1]; perm = ORDER.pop(0); assert sorted(perm) == list(range(len(ex.pending))), (perm, len(ex.pending))
    ex.release(perm)
    return _as_completed(fs, **kw)
asyncio.as_completed = as_completed

def f(x):
    CALLS.append(x); return x * x
rng = random.Random(5)
ok = 0
for case in range(200):
    n = rng.randint(0, 25); c = rng.randint(1, 8); threads = rng.randint(2, 6); sort = rng.random() < 0.8
    xs = [rng.randint(0, 99) for _ in range(n)]
    sizes = [min(c, n - i) for i in range(0, n, c)]
    perms = []
    for s in sizes:
        p = list(range(s)); rng.shuffle(p); perms.append(p)
    ORDER[:] = [list(p) for p in perms]; CALLS.clear(); EXECS.clear()
    r = th.parallel_map(f, xs, threads=threads, chunksize=c, sort=sort, use_tqdm=False)
    exp = [x * x for x in xs]
    if sort: assert r == exp, (case, r, exp)
    else:
        # expected: per chunk, results in completion order
        e2 = []; off = 0
        for s, p in zip(sizes, perms):
            e2 += [exp[off + i] for i in p]; off += s
        assert r == e2, (case, r, e2, perms)
    assert sorted(CALLS) == sorted(xs)
    ok += 1
print('ok', ok)
