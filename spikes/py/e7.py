import warnings; warnings.filterwarnings('ignore')
import json, tempfile, shutil, sys, os, logging, time, random
from pathlib import Path
print('--- C17')
from taskchain.utils.threading import parallel_map
from taskchain.utils.iter import chunked, parallel_map as pm_iter
def f(x):
    time.sleep(random.random()*0.01); return x*x
for n, th, cs in [(0,3,4),(1,3,4),(7,3,3),(9,2,3),(10,4,1000),(5,1,2)]:
    r = parallel_map(f, list(range(n)), threads=th, chunksize=cs, use_tqdm=False)
    print(n, th, cs, r == [x*x for x in range(n)])
print(list(chunked(range(7), 3)), list(chunked([], 3)), list(chunked(range(6), 3)))
try: print(list(chunked(range(3), 0)))
except Exception as e: print('EXC', e)
def g(x):
    if x == 3: raise KeyError('three')
    return x
try: parallel_map(g, list(range(6)), threads=2, use_tqdm=False)
except Exception as e: print('propagated', type(e).__name__, e)
r = parallel_map(f, list(range(9)), threads=3, chunksize=3, sort=False, use_tqdm=False)
print(r)
r = parallel_map(f, (x for x in range(5)), threads=3, chunksize=2, use_tqdm=False); print(r)
print(pm_iter(f, list(range(7)), threads=3))
