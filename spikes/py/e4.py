import warnings; warnings.filterwarnings('ignore')
import json, tempfile, shutil, sys, os, logging
from pathlib import Path
from typing import List
from taskchain import Task, Config, Chain, MultiChain, Parameter, InMemoryData

print('--- C18: failure then retry, logs')
state = {'fail': True, 'n': 0}
class L(Task):
    def run(self) -> int:
        state['n'] += 1
        self.logger.info(f'run number {state["n"]}')
        self.save_to_run_info({'n': state['n']})
        if state['fail']:
            raise ValueError('boom')
        self.logger.info('finishing')
        return state['n']
tmp = Path(tempfile.mkdtemp())
ch = Config(tmp, name='c', data={'tasks':[L]}).chain()
try: ch.l.value
except ValueError: print('failed as expected')
print('log after fail:', ch.l.log)
print('handlers:', ch.l.logger.handlers)
state['fail'] = False
print('value', ch.l.value)
print('log after retry:', ch.l.log)
print('run_info log:', ch.l.run_info['log'])
print('handlers:', ch.l.logger.handlers)
print(ch.l.force().value)
print('log after force:', ch.l.log)
print('run_info log:', ch.l.run_info['log'], ch.l.run_info['input_tasks'], ch.l.run_info['parameters'], ch.l.run_info['config'])
# new chain same process
ch2 = Config(tmp, name='c', data={'tasks':[L]}).chain()
print(ch2.l.force().value, ch2.l.log)
print((tmp/'l').iterdir().__next__())
print(open(ch2.l._data_without_value.log_path,'rb').read())
