import warnings; warnings.filterwarnings('ignore')
import sys, random, tempfile, json, copy, importlib, logging
from pathlib import Path
logging.disable(logging.CRITICAL)
import rnd3, refbuild as R
from taskchain import Config
seed = int(sys.argv[1])
rng = random.Random(seed); tmp = Path(tempfile.mkdtemp()); sys.path.insert(0, str(tmp))
classes, mod, fs, mainp, ctx, gv = rnd3.gen_case(rng, tmp, seed)
for p, d in fs.items(): print(p.replace(str(tmp), '<D>'), json.dumps(d).replace(str(tmp), '<D>'))
print('ctx', json.dumps(ctx).replace(str(tmp), '<D>') if ctx else None)
for cn, c in classes.items(): print(cn, {k: v for k, v in c.items() if k != 'cname'})
