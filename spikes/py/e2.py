import warnings; warnings.filterwarnings('ignore')
import json, tempfile, shutil, sys, os
from pathlib import Path
from typing import List
from taskchain import Task, Config, Chain, MultiChain, Parameter, InMemoryData
from taskchain.parameter import AutoParameterObject, InputTaskParameter

class Abc(Task):
    class Meta:
        parameters = [Parameter('x'), Parameter('y')]
    def run(self) -> int:
        return 1000 * self.params.x + self.params.y

print('--- C09/C01: same config file under two namespaces w/ per-namespace context')
tmp = Path(tempfile.mkdtemp())
json.dump({'tasks': ['__main__.Abc'], 'x': 1, 'y': 1}, (tmp/'c1.json').open('w'))
json.dump({'uses': [f'{tmp}/c1.json as ns', f'{tmp}/c1.json as ns2']}, (tmp/'c.json').open('w'))
chain = Config(tmp, tmp/'c.json', context={'for_namespaces': {'ns': {'x': 11}, 'ns2': {'x': 21}}}).chain()
print({n: (t.params.x, t.value, t.fullname) for n, t in chain.tasks.items()})
print(chain['ns::abc'] is chain['ns2::abc'])

print('--- C09: two configs declaring same task in same namespace')
tmp = Path(tempfile.mkdtemp())
ca = Config(tmp, name='ca', data={'tasks':[Abc], 'x':1, 'y':1})
cb = Config(tmp, name='cb', data={'tasks':[Abc], 'x':2, 'y':2})
for order in ([ca, cb], [cb, ca]):
    try:
        ch = Config(tmp, name='main', data={'uses': order}).chain()
        print('no error; abc.x =', ch.abc.params.x)
    except Exception as e:
        print('ERR', type(e).__name__, e)
    ca = Config(tmp, name='ca', data={'tasks':[Abc], 'x':1, 'y':1})
    cb = Config(tmp, name='cb', data={'tasks':[Abc], 'x':2, 'y':2})

print('--- C08: namespace textual prefix of task name')
class TrainX(Task):
    def run(self) -> int: return 1
class UseTrainX(Task):
    class Meta:
        input_tasks = [TrainX]
    def run(self, train_x) -> int: return train_x + 1
tmp = Path(tempfile.mkdtemp())
try:
    ch = Config(tmp, name='inner', namespace='train', data={'tasks':[TrainX, UseTrainX]}).chain()
    print(list(ch.tasks), {k: v for k,v in ch['use_train_x'].input_tasks.items()})
except Exception as e:
    print('ERR', type(e).__name__, e)
class TrainX2(Task):
    class Meta:
        name = 'train_x'
    def run(self) -> int: return 100
try:
    inner = Config(tmp, name='inner', namespace='train', data={'tasks':[TrainX, UseTrainX]})
    other = Config(tmp, name='other', data={'tasks':[TrainX2]})
    ch = Config(tmp, name='main', data={'uses':[inner, other]}).chain()
    print(list(ch.tasks), {k: str(v) for k,v in ch['use_train_x'].input_tasks.items()}, ch['use_train_x'].value)
except Exception as e:
    print('ERR', type(e).__name__, e)

print('--- C08: cycle')
class CycA(Task):
    class Meta:
        input_tasks = ['cyc_b']
    def run(self) -> int: return 1
class CycB(Task):
    class Meta:
        input_tasks = ['cyc_a']
    def run(self) -> int: return 1
for pm in (True, False):
    try:
        ch = Config(tmp, name='cyc', data={'tasks':[CycA, CycB]}).chain(parameter_mode=pm)
        print('built!', pm)
    except BaseException as e:
        print('ERR', pm, type(e).__name__, str(e)[:80])
