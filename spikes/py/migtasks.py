from taskchain import Task, Parameter
from taskchain.data import DirData
import numpy as np
class MaTask(Task):
    class Meta:
        parameters = [Parameter('pa', default=5)]
    def run(self, pa) -> int: return pa
class McTask(Task):
    class Meta:
        input_tasks = [MaTask]
        parameters = [Parameter('p1')]
    def run(self, ma, p1) -> int:
        return ma*10 + p1
class MdTask(Task):
    class Meta:
        input_tasks = [McTask]
    def run(self, mc) -> DirData:
        d = self.get_data_object()
        (d.dir / 'f.txt').write_text(str(mc))
        return d
class MeTask(Task):
    def run(self) -> np.ndarray:
        return np.arange(5)
