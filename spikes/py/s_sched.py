import warnings; warnings.filterwarnings('ignore')
import threading, tempfile, logging, pathlib, sys
from pathlib import Path
import taskchain.cache as tc
logging.getLogger('cache').handlers.clear(); logging.getLogger('cache').addHandler(logging.NullHandler()); logging.getLogger('cache').propagate = False

class Sched:
    def __init__(self):
        self.sems = {}; self.back = threading.Semaphore(0); self.done = set(); self.trace = []; self.lock_owner = None
        self.tls = threading.local()
    def me(self): return getattr(self.tls, 'name', None)
    def point(self, what):
        n = self.me()
        if n is None: return
        self.trace.append((n, what))
        self.back.release()          # hand control back to scheduler
        self.sems[n].acquire()       # wait for next grant
    def spawn(self, name, fn):
        self.sems[name] = threading.Semaphore(0)
        def body():
            self.tls.name = name
            self.sems[name].acquire()
            try: r = fn()
            except Exception as e: r = ('EXC', type(e).__name__)
            self.trace.append((name, ('ret', r))); self.done.add(name); self.back.release()
        t = threading.Thread(target=body, daemon=True); t.start(); return t
    def step(self, name):
        assert name not in self.done, name
        self.sems[name].release(); self.back.acquire()
S = Sched()

class SchedLock:
    def __init__(self, path, **kw): self.path = path
    def __enter__(self):
        while True:
            S.point('try-lock')
            if S.lock_owner is None:
                S.lock_owner = S.me(); return self
    def __exit__(self, *a):
        S.lock_owner = None; S.point('unlock')
tc.FileLock = SchedLock
_exists = pathlib.Path.exists
def exists(self):
    r = _exists(self)
    if self.suffix == '.json': S.point(('exists', r))
    return r
pathlib.Path.exists = exists
_open = pathlib.Path.open
def popen(self, mode='r', *a, **kw):
    if self.suffix == '.json' and 'r' in mode: S.point('before-read-open')
    f = _open(self, mode, *a, **kw)
    if self.suffix == '.json' and 'w' in mode: S.point('truncated')
    return f
pathlib.Path.open = popen

d = Path(tempfile.mkdtemp()); cache = tc.JsonCache(d)
computed = []
def caller(tag):
    def comp():
        computed.append(tag); S.point('computed'); return tag
    return lambda: cache.get_or_compute('k', comp)
for n in 'ABC': S.spawn(n, caller('v' + n))
def run(name, until):
    # run thread until its trace shows `until`
    while True:
        S.step(name)
        last = [w for (n, w) in S.trace if n == name][-1]
        if last == until or (isinstance(last, tuple) and last[0] == until) or name in S.done: return last
run('A', 'unlock'); run('B', 'unlock')          # both saw "absent"
print('A ->', run('A', 'ret'))                    # A computes, stores, returns
run('C', 'unlock')                                # C starts after A returned; sees exists=True
run('B', 'truncated')                             # B (late double computer) truncates the file
r = run('C', 'try-lock')                          # C loads the truncated file -> falls through to the second lock
print('C after load attempt ->', r)
print('B ->', run('B', 'ret'))
print('C ->', run('C', 'ret'))
print('computed:', computed)
print([t for t in S.trace if t[0] == 'C'])
