import warnings; warnings.filterwarnings('ignore')
import json, tempfile, shutil, sys, os, logging
from pathlib import Path
from typing import List
from taskchain import Task, Config, Chain, MultiChain, Parameter, InMemoryData
from taskchain.parameter import AutoParameterObject, InputTaskParameter, ParameterObject

class AO(AutoParameterObject):
    def __init__(self, arg, k=None):
        self.arg = arg; self.k = k

class Plain:
    def __init__(self, a=None, b=None): self.a=a; self.b=b

class T(Task):
    class Meta:
        parameters = [Parameter('o')]
    def run(self, o) -> int: return 1

tmp = Path(tempfile.mkdtemp())
def key(data):
    return Config(tmp, name='c', data=dict(tasks=[T], **data)).chain().t.name_for_persistence, Config(tmp, name='c', data=dict(tasks=[T], **data)).chain().t.params.repr if False else None

print('--- C02 dict order inside AutoParameterObject arg')
k1 = Config(tmp, name='c', data={'tasks':[T], 'o': {'class':'__main__.AO', 'args':[{'a':1,'b':2}]}}).chain().t
k2 = Config(tmp, name='c', data={'tasks':[T], 'o': {'class':'__main__.AO', 'args':[{'b':2,'a':1}]}}).chain().t
print(k1.params.repr, '|', k2.params.repr, k1.name_for_persistence == k2.name_for_persistence)
print('--- C02 kwargs order for plain class')
k1 = Config(tmp, name='c', data={'tasks':[T], 'o': {'class':'__main__.Plain', 'kwargs':{'a':1,'b':2}}}).chain().t
k2 = Config(tmp, name='c', data={'tasks':[T], 'o': {'class':'__main__.Plain', 'kwargs':{'b':2,'a':1}}}).chain().t
print(k1.params.repr, '|', k2.params.repr, k1.name_for_persistence == k2.name_for_persistence)
print('--- C02 dict order plain param')
k1 = Config(tmp, name='c', data={'tasks':[T], 'o': {'a':1,'b':[{'y':1,'x':2}]}}).chain().t
k2 = Config(tmp, name='c', data={'tasks':[T], 'o': {'b':[{'x':2,'y':1}],'a':1}}).chain().t
print(k1.params.repr, '|', k2.params.repr, k1.name_for_persistence == k2.name_for_persistence)
print('--- set-valued')
class SO(AutoParameterObject):
    def __init__(self, items):
        self.items = set(items)
k1 = Config(tmp, name='c', data={'tasks':[T], 'o': {'class':'__main__.SO', 'args':[['alpha','beta','gamma','delta']]}}).chain().t
print(k1.params.repr)
print('--- AutoParameterObject with string containing quotes: python repr escapes')
k1 = Config(tmp, name='c', data={'tasks':[T], 'o': {'class':'__main__.AO', 'args':[["a', 'b"]]}}).chain().t
k2 = Config(tmp, name='c', data={'tasks':[T], 'o': {'class':'__main__.AO', 'args':[["a","b"]]}}).chain().t
print(k1.params.repr, '|', k2.params.repr)
print('--- default equality: 0 vs False')
class D(Task):
    class Meta:
        parameters = [Parameter('f', default=0, dont_persist_default_value=True)]
    def run(self, f) -> list: return [f]
a = Config(tmp, name='c', data={'tasks':[D], 'f': False}).chain().d
b = Config(tmp, name='c', data={'tasks':[D]}).chain().d
print(a.params.repr, b.params.repr, a.name_for_persistence == b.name_for_persistence, a.value, b.value)
