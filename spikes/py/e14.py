import warnings; warnings.filterwarnings('ignore')
import tempfile, logging
from pathlib import Path
from typing import List
import numpy as np
from taskchain import Task, Config
from taskchain.data import ListOfNumpyData, DirData, ContinuesData
logging.disable(logging.CRITICAL)
N = [12]
class Ln(Task):
    class Meta:
        data_class = ListOfNumpyData
    def run(self) -> list:
        return [np.full((2,), i) for i in range(N[0])]
class Dd(Task):
    def run(self) -> DirData:
        d = self.get_data_object(); (d.dir / f'f{N[0]}.txt').write_text('x'); return d
class Cd(Task):
    def run(self) -> ContinuesData:
        d = self.get_data_object(); (d.dir / f'f{N[0]}.txt').write_text('x'); d.finished(); return d
tmp = Path(tempfile.mkdtemp())
def chain(): return Config(tmp, name='c', data={'tasks': [Ln, Dd, Cd]}).chain()
ch = chain()
print([int(a[0]) for a in ch.ln.value][:13], sorted(p.name for p in ch.dd.value.iterdir()), sorted(p.name for p in ch.cd.value.iterdir()))
ch = chain(); print('reload', [int(a[0]) for a in ch.ln.value], ch.dd.has_data, ch.cd.has_data)
N[0] = 3
ch = chain(); ch.force(['ln', 'dd', 'cd'], recompute=True)
ch = chain(); print('after forced recompute', [int(a[0]) for a in ch.ln.value], sorted(p.name for p in ch.dd.value.iterdir()), sorted(p.name for p in ch.cd.value.iterdir()))
ch = chain(); ch.force(['ln', 'dd', 'cd'], delete_data=True); print('deleted', ch.ln.has_data, ch.dd.has_data, ch.cd.has_data)
print(sorted(str(p.relative_to(tmp)) for p in tmp.rglob('*') if p.is_dir()))
