import TCV.Model.Basic
import TCV.Model.Sort
/-!
# M-Glue — what taskchain itself does between `run` and the serializers (`data.py`, `Task.data`,
`utils/io.py`)

The serializers (orjson, numpy, pandas, pickle) are parameters (`Codec`); modelled is the glue:
the type check and the `is None` guards, `set_value`/`value`, the json-lines framing of
`write_jsons`/`iter_json_file`, and the file naming / numeric ordering of `ListOfNumpyData`.
-/
namespace TCV.Glue

inductive Err | valueNotSet | typeMismatch | saveError | loadError | noData
  deriving DecidableEq, Repr

/-- a serializer pair: `save` produces the stored form, `load` reads it back; both may raise -/
structure Codec (V S : Type) where
  save : V → Except Err S
  load : S → Except Err V

/-- `Data.value`: `if not hasattr(self, '_value') or self._value is None: raise ValueError`.
Python's `None` is `none`; every other object — also `0`, `""`, `[]`, `{}` — is `some _`. -/
def dataValue {V} : Option V → Except Err V
  | none => .error .valueNotSet
  | some v => .ok v

/-- what a task class fixes: the `isinstance` test of `_process_run_result` and its data class -/
structure TaskCls (V S : Type) where
  typeOk : V → Bool
  codec : Codec V S
  /-- `GeneratedDataLazy.save` ends with `self.load(None)`: the value handed out is read back from the file -/
  rereads : Bool

/-- the computing branch of `Task.data` followed by `.value`: `_process_run_result` (a result that is
`None` or fails the type test raises `ValueError`), `set_value`, `save` (which reads `self.value`),
then `Data.value`.  Returns the new stored form and the value the computing chain hands out. -/
def compute {V S} (T : TaskCls V S) (runResult : Option V) : Except Err (S × V) :=
  match runResult with
  | none => .error .typeMismatch
  | some r =>
    if T.typeOk r then
      match dataValue (some r) with          -- `self.value` inside `save`
      | .error e => .error e
      | .ok v =>
        match T.codec.save v with
        | .error e => .error e
        | .ok s =>
          if T.rereads then
            match T.codec.load s with
            | .error e => .error e
            | .ok v' => (dataValue (some v')).map (fun x => (s, x))
          else (dataValue (some v)).map (fun x => (s, x))
    else .error .typeMismatch

/-- a later chain: new data object, `exists()`, `load`, `.value`; `load` stores whatever the reader
returns in `_value` — a stored `null` comes back as `None` and `.value` raises -/
def reload {V S} (T : TaskCls V S) (readerGives : V → Option V) (store : Option S) : Except Err V :=
  match store with
  | none => .error .noData
  | some s =>
    match T.codec.load s with
    | .error e => .error e
    | .ok v => dataValue (readerGives v)

/-! ## json lines: `write_jsons` / `iter_json_file` -/

/-- `f.write(json.dumps(j) + '\n')` for every item -/
def writeJsons {α} (enc : α → Str) (xs : List α) : Str := (xs.map (fun x => enc x ++ ['\n'])).flatten

/-- universal-newline translation of text-mode reading: `\r\n` and `\r` become `\n`
(`prevCR`: the previous character was a `\r`, already emitted as `\n`) -/
def universalNewlinesAux : Bool → Str → Str
  | _, [] => []
  | prevCR, c :: cs =>
    if c = '\r' then '\n' :: universalNewlinesAux true cs
    else if c = '\n' ∧ prevCR = true then universalNewlinesAux false cs
    else c :: universalNewlinesAux false cs

def universalNewlines (s : Str) : Str := universalNewlinesAux false s

/-- `for row in f`: split after every `\n`; `cur` is the line being collected (reversed) -/
def splitLinesAux : Str → Str → List Str
  | [], cur => if cur = [] then [] else [cur.reverse]
  | c :: cs, cur => if c = '\n' then ('\n' :: cur).reverse :: splitLinesAux cs [] else splitLinesAux cs (c :: cur)

def iterLines (text : Str) : List Str := splitLinesAux (universalNewlines text) []

/-- `str.strip()` for a given whitespace test (`str.isspace`) -/
def strip (isSpace : Char → Bool) (s : Str) : Str :=
  ((s.dropWhile isSpace).reverse.dropWhile isSpace).reverse

/-- `[json.loads(row.strip()) for row in f]` -/
def readJsons {α} (isSpace : Char → Bool) (dec : Str → Except Err α) (text : Str) : Except Err (List α) :=
  (iterLines text).mapM (fun row => dec (strip isSpace row))

def jsonlCodec {α} (isSpace : Char → Bool) (enc : α → Str) (dec : Str → Except Err α) : Codec (List α) Str where
  save := fun xs => .ok (writeJsons enc xs)
  load := readJsons isSpace dec

/-! ## `ListOfNumpyData`: files `0.npy`, `1.npy`, … and their numeric order -/

def digitChar (d : Nat) : Char := Char.ofNat (48 + d)

/-- `str(i)` for a natural number (fuel = number of digits is at most `n + 1`) -/
def digitsAux : Nat → Nat → Str
  | 0, _ => []
  | fuel + 1, n => if n < 10 then [digitChar n] else digitsAux fuel (n / 10) ++ [digitChar (n % 10)]

def digits (n : Nat) : Str := digitsAux (n + 1) n

/-- `int(text)` on decimal digits; anything else makes `int` raise -/
def parseNatAux : Str → Nat → Option Nat
  | [], acc => some acc
  | c :: cs, acc => if '0' ≤ c ∧ c ≤ '9' then parseNatAux cs (acc * 10 + (c.toNat - 48)) else none

def parseNat (s : Str) : Option Nat := if s = [] then none else parseNatAux s 0

/-- `f'{i}.npy'` -/
def fileName (i : Nat) : Str := digits i ++ ".npy".toList

/-- `name.split('.')[0]` -/
def beforeDot : Str → Str
  | [] => []
  | c :: cs => if c = '.' then [] else c :: beforeDot cs

/-- the sort key `int(f.name.split('.')[0])` -/
def fileKey (name : Str) : Option Nat := parseNat (beforeDot name)

def endsWithNpy (name : Str) : Bool := ".npy".toList.isSuffixOf name

/-- a directory as the OS enumerates it: names with contents, in no particular order -/
abbrev Dir (B : Type) := List (Str × B)

/-- `save`: a fresh directory with one file per array -/
def saveList {A B} (ser : A → B) (vs : List A) : Dir B := vs.zipIdx.map (fun p => (fileName p.2, ser p.1))

/-- `load`: `sorted(path.glob('*.npy'), key=lambda f: int(f.name.split('.')[0]))`, then `np.load`
each; a name whose key is not a number makes `int` raise -/
def loadList {A B} (de : B → Except Err A) (d : Dir B) : Except Err (List A) :=
  let files := d.filter (fun e => endsWithNpy e.1)
  match files.mapM (fun e => (fileKey e.1).map (fun k => (k, e.2))) with
  | none => .error .loadError
  | some keyed => (isort (fun a b => decide (a.1 ≤ b.1)) keyed).mapM (fun e => de e.2)

/-- the variant that sorts the names as text (what `sorted(path.glob('*.npy'))` alone would do) -/
def strLe : Str → Str → Bool
  | [], _ => true
  | _ :: _, [] => false
  | a :: as, b :: bs => if a < b then true else if b < a then false else strLe as bs

def loadListLex {A B} (de : B → Except Err A) (d : Dir B) : Except Err (List A) :=
  ((isort (fun a b => strLe a.1 b.1) (d.filter (fun e => endsWithNpy e.1)))).mapM (fun e => de e.2)

def listNpCodec {A B} (ser : A → B) (de : B → Except Err A) : Codec (List A) (Dir B) where
  save := fun vs => .ok (saveList ser vs)
  load := loadList de

end TCV.Glue
