import TCV.Model.Basic
/-!
# M-Store — the lazy pull machine

Mirrors `task.py: Task.data / _get_run_arguments / _process_run_result / force / has_data`,
`chain.py: Chain.force / dependent_tasks`, `MultiChain.force`.

A *universe* of task objects (all objects of all chains of a history, numbered so that inputs come
before their dependants), a store shared by everything that works on one data directory, per-object
memory (`Task._data`) and forced flags, and the log of `run` invocations.  The task functions are a
parameter `f` (an arbitrary function of the object and the values of the inputs it uses), and which
runs raise is a parameter of each request.
-/
namespace TCV.Store

/-- one task object -/
structure Obj where
  /-- storage location (task directory + key); equal `loc` = same files -/
  loc : Nat
  /-- the data class persists (everything except `InMemoryData`) -/
  persist : Bool
  /-- input tasks whose values are run arguments, in signature order (requested before `run` starts) -/
  args : List Nat
  /-- input tasks whose values `run` requests itself, in order -/
  pulls : List Nat
  /-- all declared input tasks (a superset of `args ++ pulls`): the edges of the chain's graph -/
  deps : List Nat
deriving Repr, DecidableEq

/-- the inputs whose values the computation uses, in the order they are requested -/
def Obj.used (o : Obj) : List Nat := o.args ++ o.pulls

abbrev Universe := List Obj

def obj (U : Universe) (i : Nat) : Obj := U.getD i { loc := 0, persist := false, args := [], pulls := [], deps := [] }

structure St (V : Type) where
  store : Nat → Option V
  mem : Nat → Option V
  forced : Nat → Bool
  /-- objects whose `run` was entered, in order -/
  runs : List Nat

def St.init {V} : St V := { store := fun _ => none, mem := fun _ => none, forced := fun _ => false, runs := [] }

def upd {α} (g : Nat → α) (k : Nat) (v : α) : Nat → α := fun x => if x = k then v else g x

variable {V : Type}

/-- request the values of several inputs in order with the request function `val`; stops at the first one that raises -/
def valueListWith (val : St V → Nat → St V × Option V) : St V → List Nat → St V × Option (List V)
  | s, [] => (s, some [])
  | s, j :: js =>
    match val s j with
    | (s', none) => (s', none)
    | (s', some v) =>
      match valueListWith val s' js with
      | (s'', none) => (s'', none)
      | (s'', some vs) => (s'', some (v :: vs))

/-- `task.value`: memory, else stored-and-not-forced, else run (arguments first, then the body, which
pulls further inputs); `none` = the request raised.  `fails j` = the body of `j` raises when run.
`fuel` bounds the nesting depth (Python: the recursion limit); it never runs out when it exceeds the
number of objects of an acyclic universe. -/
def value (U : Universe) (f : Nat → List V → V) (fails : Nat → Bool) : Nat → St V → Nat → St V × Option V
  | 0, s, _ => (s, none)
  | fuel + 1, s, i =>
    match s.mem i with
    | some v => (s, some v)
    | none =>
      let o := obj U i
      match (if o.persist && !s.forced i then s.store o.loc else none) with
      | some v => ({ s with mem := upd s.mem i (some v) }, some v)
      | none =>
        match valueListWith (value U f fails fuel) s o.args with
        | (s1, none) => (s1, none)
        | (s1, some as) =>
          let s2 := { s1 with runs := s1.runs ++ [i] }
          match valueListWith (value U f fails fuel) s2 o.pulls with
          | (s3, none) => (s3, none)
          | (s3, some ps) =>
            if fails i then (s3, none)
            else
              let v := f i (as ++ ps)
              ({ s3 with store := if o.persist then upd s3.store o.loc (some v) else s3.store,
                         mem := upd s3.mem i (some v) }, some v)

/-- `task.force(delete_data)` -/
def forceTask (U : Universe) (s : St V) (i : Nat) (del : Bool) : St V :=
  let o := obj U i
  { s with store := if del && o.persist then upd s.store o.loc none else s.store,
           forced := upd s.forced i true,
           mem := upd s.mem i none }

/-- descendants (reflexive) of the set `S` inside a chain whose objects are `nodes`, listed in
dependency order: one pass suffices because inputs precede their dependants -/
def descendants (U : Universe) (S : List Nat) : List Nat → List Nat → List Nat
  | [], acc => acc
  | t :: rest, acc =>
    if S.contains t || (obj U t).deps.any (fun d => acc.contains d) then descendants U S rest (acc ++ [t])
    else descendants U S rest acc

def forceAll (U : Universe) (del : Bool) : St V → List Nat → St V
  | s, [] => s
  | s, t :: ts => forceAll U del (forceTask U s t del) ts

def valueAll (U : Universe) (f : Nat → List V → V) (fails : Nat → Bool) (fuel : Nat) : St V → List Nat → St V × List (Option V)
  | s, [] => (s, [])
  | s, t :: ts =>
    let (s1, r) := value U f fails fuel s t
    let (s2, rs) := valueAll U f fails fuel s1 ts
    (s2, r :: rs)

/-- `for task in forced: task.value` with a run that raises: the loop ends at the first failed request -/
def valueAllStop (U : Universe) (f : Nat → List V → V) (fails : Nat → Bool) (fuel : Nat) : St V → List Nat → St V × List (Option V)
  | s, [] => (s, [])
  | s, t :: ts =>
    match value U f fails fuel s t with
    | (s1, none) => (s1, [none])
    | (s1, some v) =>
      let (s2, rs) := valueAllStop U f fails fuel s1 ts
      (s2, some v :: rs)

inductive Op where
  /-- `task.value` on object `i`; `failing` = objects whose body raises during this request -/
  | value (i : Nat) (failing : List Nat)
  /-- `task.force(delete_data=del)` -/
  | force (i : Nat) (del : Bool)
  /-- `chain.force(S, recompute, delete_data)` on the chain with objects `nodes` (dependency order);
  `order` = the order in which `recompute` requests the forced tasks (a permutation of the forced set) -/
  | chainForce (nodes S : List Nat) (del recompute : Bool) (order : List Nat)
  /-- `chain.force(S, recompute=True, delete_data=del)` during which the bodies of `failing` raise: the exception leaves
  `force` at the first failed request of `order` -/
  | chainForceF (nodes S : List Nat) (del : Bool) (order failing : List Nat)
  /-- `has_data`, `data_path`, `run_info`, `log`, `tasks_df`, building a chain … -/
  | inspect (i : Nat)
  /-- `task.reset_data()`: the object forgets the value it holds in memory — nothing else (the forced flag stays) -/
  | reset (i : Nat)
deriving Repr

inductive Out (V : Type) where
  | val (r : Option V)
  | forced (ts : List Nat)
  | vals (ts : List Nat) (rs : List (Option V))
  | hasData (b : Bool)

def step (U : Universe) (f : Nat → List V → V) (fuel : Nat) (s : St V) : Op → St V × Out V
  | .value i failing =>
    let (s', r) := value U f (fun j => failing.contains j) fuel s i
    (s', .val r)
  | .force i del => (forceTask U s i del, .forced [i])
  | .chainForce nodes S del recompute order =>
    let F := descendants U S nodes []
    let s1 := forceAll U del s F
    if recompute then
      let (s2, rs) := valueAll U f (fun _ => false) fuel s1 order
      (s2, .vals F rs)
    else (s1, .forced F)
  | .chainForceF nodes S del order failing =>
    let F := descendants U S nodes []
    let s1 := forceAll U del s F
    let (s2, rs) := valueAllStop U f (fun j => failing.contains j) fuel s1 order
    (s2, .vals F rs)
  | .inspect i =>
    let o := obj U i
    (s, .hasData (o.persist && (s.store o.loc).isSome))
  | .reset i => ({ s with mem := upd s.mem i none }, .forced [])

def runOps (U : Universe) (f : Nat → List V → V) (fuel : Nat) : St V → List Op → St V × List (Out V)
  | s, [] => (s, [])
  | s, op :: ops =>
    let (s1, o) := step U f fuel s op
    let (s2, os) := runOps U f fuel s1 ops
    (s2, o :: os)

end TCV.Store
