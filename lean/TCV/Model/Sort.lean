/-!
# Stable insertion sort (structural, so that it evaluates in the kernel)

Python's `sorted` is a stable sort; on the key sets that occur in the model (unique keys) every
sorting algorithm yields the same list, and `isort` is stable anyway.
-/
namespace TCV

def insertBy {α} (le : α → α → Bool) (x : α) : List α → List α
  | [] => [x]
  | y :: ys => if le x y then x :: y :: ys else y :: insertBy le x ys

def isort {α} (le : α → α → Bool) : List α → List α
  | [] => []
  | x :: xs => insertBy le x (isort le xs)

end TCV
