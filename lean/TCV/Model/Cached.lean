import TCV.Model.Val
import TCV.Model.Cache
/-!
# M-Cached — the `cached` decorator (`cache.py: cached.__call__`)

* a **signature** is the list of the method's parameters after `self`: name, positional-or-keyword
  or keyword-only, optional default (`*args` / `**kwargs` are outside the domain);
* a **call** is `(args, kwargs)`; `kwargs` is Python's insertion-ordered dict as an association list;
* `normalise` is the loop of the code, transcribed as it is: the `i`-th parameter takes `args[i]`
  when there is one (also when it is keyword-only, also over an explicit keyword — Python itself
  would reject such calls, the code does not), then a missing name gets its default; surplus
  positionals are dropped;
* the cache key is `json.dumps(kwargs_without_ignored, sort_keys=True)`: the items sorted by name
  (`keyDict`), printed by an encoder `enc` (a parameter of the theorems; `TCV.Json.dumpsStd` in the
  driver);
* `binding` is Python's own binding (`inspect.signature(m).bind(*args, **kwargs)` followed by
  `apply_defaults()`), defined independently of the loop; `valid` says that binding succeeds.

Values are an arbitrary type `V`.
-/
namespace TCV.Cached
open TCV

structure Param (V : Type) where
  name : Str
  kwOnly : Bool
  default : Option V

abbrev Sig (V : Type) := List (Param V)

structure Call (V : Type) where
  args : List V
  kwargs : List (Str × V)

/-! ### Python dict operations on association lists -/

def dget {V} : List (Str × V) → Str → Option V
  | [], _ => none
  | (k, v) :: r, n => if k = n then some v else dget r n

def dhas {V} (kw : List (Str × V)) (n : Str) : Bool := (dget kw n).isSome

/-- `kw[n] = v`: replaces in place, or appends -/
def dset {V} : List (Str × V) → Str → V → List (Str × V)
  | [], n, v => [(n, v)]
  | (k, w) :: r, n, v => if k = n then (k, v) :: r else (k, w) :: dset r n v

def keys {V} (kw : List (Str × V)) : List Str := kw.map (·.1)

/-! ### the decorator's normalisation -/

/-- the body of `for i, (arg, parameter) in enumerate(signature(method).parameters.items())`
for the parameter with index `i` (after `self`) -/
def normStep {V} (args : List V) (kw : List (Str × V)) (p : Param V) (i : Nat) : List (Str × V) :=
  let kw1 := match args[i]? with
    | some a => dset kw p.name a
    | none => kw
  match p.default with
  | some d => if dhas kw1 p.name then kw1 else dset kw1 p.name d
  | none => kw1

def normLoop {V} (args : List V) : Sig V → Nat → List (Str × V) → List (Str × V)
  | [], _, kw => kw
  | p :: ps, i, kw => normLoop args ps (i + 1) (normStep args kw p i)

/-- `kwargs` as the method is finally called with (`method(obj, **kwargs)`) -/
def normalise {V} (sig : Sig V) (c : Call V) : List (Str × V) := normLoop c.args sig 0 c.kwargs

/-- `{k: v for k, v in kwargs.items() if k not in self.ignore_params}` -/
def dropIgnored {V} (ign : List Str) (kw : List (Str × V)) : List (Str × V) :=
  kw.filter (fun kv => !ign.contains kv.1)

/-- the dictionary that is serialised, in the order `sort_keys=True` prints it -/
def keyDict {V} (sig : Sig V) (ign : List Str) (c : Call V) : List (Str × V) :=
  PVal.sortItems (dropIgnored ign (normalise sig c))

/-- the cache key text -/
def cacheKey {V} (enc : List (Str × V) → Str) (sig : Sig V) (ign : List Str) (c : Call V) : Str :=
  enc (keyDict sig ign c)

/-! ### Python's binding (the specification) -/

/-- the value Python binds to the parameter with index `i` -/
def bindVal {V} (c : Call V) (p : Param V) (i : Nat) : Option V :=
  if p.kwOnly then (dget c.kwargs p.name).or p.default
  else (c.args[i]?).or ((dget c.kwargs p.name).or p.default)

def bindFrom {V} (c : Call V) : Sig V → Nat → List (Str × V)
  | [], _ => []
  | p :: ps, i => match bindVal c p i with
    | some v => (p.name, v) :: bindFrom c ps (i + 1)
    | none => bindFrom c ps (i + 1)

/-- `signature(m).bind(*args, **kwargs)` + `apply_defaults()`, as (name, value) in signature order -/
def binding {V} (sig : Sig V) (c : Call V) : List (Str × V) := bindFrom c sig 0

/-- a well-formed signature: distinct names, positional-or-keyword parameters before keyword-only ones -/
def wfSig {V} (sig : Sig V) : Bool :=
  decide (sig.map (·.name)).Nodup && decide (sig.Pairwise (fun p q => (!(p.kwOnly && !q.kwOnly)) = true))

def npos {V} (sig : Sig V) : Nat := (sig.filter (fun p => !p.kwOnly)).length

def allBound {V} (c : Call V) : Sig V → Nat → Bool
  | [], _ => true
  | p :: ps, i => (bindVal c p i).isSome && allBound c ps (i + 1)

/-- Python accepts the call: not too many positionals, keyword names distinct, known, and not also
given positionally, every parameter bound -/
def valid {V} (sig : Sig V) (c : Call V) : Bool :=
  wfSig sig && decide (c.args.length ≤ npos sig) && decide (keys c.kwargs).Nodup &&
  (keys c.kwargs).all (fun n => (sig.map (·.name)).contains n) &&
  (keys c.kwargs).all (fun n => !((sig.take c.args.length).map (·.name)).contains n) &&
  allBound c sig 0

/-! ### methods with a `**kwargs` catch-all -/

/-- the extra keyword arguments of a call — names that are not parameters: what `**kwargs` catches -/
def extras {V} (sig : Sig V) (c : Call V) : List (Str × V) :=
  c.kwargs.filter (fun kv => !(sig.map (·.name)).contains kv.1)

/-- the call without its extra keyword arguments -/
def named {V} (sig : Sig V) (c : Call V) : Call V :=
  { c with kwargs := c.kwargs.filter (fun kv => (sig.map (·.name)).contains kv.1) }

/-- Python accepts the call of a method whose signature ends in `**kwargs`: keyword names distinct, and the named part is a
valid call -/
def validKw {V} (sig : Sig V) (c : Call V) : Bool :=
  decide (keys c.kwargs).Nodup && valid sig (named sig c)

/-- Python's binding of such a call: the named parameters, then the extras (flattened out of the catch-all dictionary) -/
def bindingKw {V} (sig : Sig V) (c : Call V) : List (Str × V) := binding sig (named sig c) ++ extras sig c

/-! ### sub-cache naming and the control keywords -/

/-- `subcache_name = method.__name__` (+ `'.' + version`) -/
def subcacheName (method : Str) (version : Option Str) : Str :=
  match version with
  | none => method
  | some v => method ++ '.' :: v

structure Ctl where
  forceCache : Bool
  onlyCache : Bool
  /-- `store_cache_value` (`none` = `NO_VALUE`) -/
  store : Option Cache.Val

/-- what the decorated method does with the cache, as an operation of M-Cache on the sub-cache `d`;
`result` is what the method itself would do when called with the normalised keywords;
`none` = the `assert store_cache_value is NO_VALUE or not only_cache` fails -/
def toOp (d : Cache.Dir) (key : Str) (result : Cache.Comp) (ctl : Ctl) : Option Cache.Op :=
  if ctl.store.isSome && ctl.onlyCache then none
  else if ctl.onlyCache then some (.get d key)
  else match ctl.store with
    | some v => some (.goc d key (.ret v) ctl.forceCache)
    | none => some (.goc d key result ctl.forceCache)

/-- number of times the *method* runs: the computer calls, unless the computer is the constant
`lambda: store_cache_value` -/
def methodCalls (ctl : Ctl) (computerCalls : Nat) : Nat :=
  if ctl.store.isSome then 0 else computerCalls

end TCV.Cached
