import TCV.Model.Glue
/-!
# M-Json — a small model of JSON text as `utils/json.py` (orjson) writes and reads it

Encoder: orjson's compact form (`json.dumps(j)`, used by `write_jsons`) and the `indent=2,
sort_keys=True` form of `JSONData.save`.  Decoder: a fuelled recursive-descent parser.
How a float is printed is library behaviour: a float is its token (`float tok`).
-/
namespace TCV.JsonText
open TCV TCV.Glue

inductive JVal where
  | null
  | bool (b : Bool)
  | int (i : Int)
  /-- a float, as the token the serializer prints (`1.5`, `-0.0`, `5e-324`, `1e21`) -/
  | float (tok : Str)
  | str (s : Str)
  | arr (xs : List JVal)
  /-- string keys, in the order given -/
  | obj (kvs : List (Str × JVal))

/-! ## encoder -/

def hexDigit (n : Nat) : Char := if n < 10 then Char.ofNat (48 + n) else Char.ofNat (87 + n)

/-- four lower-case hex digits -/
def hex4 (n : Nat) : Str := [hexDigit (n / 4096 % 16), hexDigit (n / 256 % 16), hexDigit (n / 16 % 16), hexDigit (n % 16)]

/-- orjson escapes `"`, `\`, and the control characters below 0x20; everything else is written raw
(also 0x7f, U+0085, U+2028) -/
def escChar (c : Char) : Str :=
  if c = '"' then ['\\', '"']
  else if c = '\\' then ['\\', '\\']
  else if c = '\n' then ['\\', 'n']
  else if c = '\r' then ['\\', 'r']
  else if c = '\t' then ['\\', 't']
  else if c = '\x08' then ['\\', 'b']
  else if c = '\x0c' then ['\\', 'f']
  else if c.toNat < 0x20 then '\\' :: 'u' :: hex4 c.toNat
  else [c]

def escStr : Str → Str
  | [] => []
  | c :: r => escChar c ++ escStr r

def encStr (s : Str) : Str := '"' :: (escStr s ++ ['"'])

def encInt : Int → Str
  | .ofNat n => digits n
  | .negSucc n => '-' :: digits (n + 1)

mutual
/-- `orjson.dumps(v)` -/
def enc : JVal → Str
  | .null => ['n', 'u', 'l', 'l']
  | .bool true => ['t', 'r', 'u', 'e']
  | .bool false => ['f', 'a', 'l', 's', 'e']
  | .int i => encInt i
  | .float t => t
  | .str s => encStr s
  | .arr xs => '[' :: encElems xs
  | .obj kvs => '{' :: encMembers kvs
def encElems : List JVal → Str
  | [] => [']']
  | x :: r => enc x ++ encTail r
def encTail : List JVal → Str
  | [] => [']']
  | x :: r => ',' :: (enc x ++ encTail r)
def encMembers : List (Str × JVal) → Str
  | [] => ['}']
  | (k, x) :: r => encStr k ++ ':' :: (enc x ++ encMTail r)
def encMTail : List (Str × JVal) → Str
  | [] => ['}']
  | (k, x) :: r => ',' :: (encStr k ++ ':' :: (enc x ++ encMTail r))
end

def indent (d : Nat) : Str := List.replicate (2 * d) ' '

/-- code-point order of keys (orjson `OPT_SORT_KEYS` compares the UTF-8 bytes, which is the same order) -/
def keyLe (a b : Str × JVal) : Bool := Glue.strLe a.1 b.1

mutual
/-- the value with the members of every mapping sorted by key (stable) -/
def sortKeys : JVal → JVal
  | .arr xs => .arr (sortElems xs)
  | .obj kvs => .obj (isort keyLe (sortMembers kvs))
  | v => v
def sortElems : List JVal → List JVal
  | [] => []
  | x :: r => sortKeys x :: sortElems r
def sortMembers : List (Str × JVal) → List (Str × JVal)
  | [] => []
  | (k, x) :: r => (k, sortKeys x) :: sortMembers r
end

mutual
/-- indent-2 form of a value at nesting depth `d`, members in the order given -/
def encP (d : Nat) : JVal → Str
  | .arr xs => encPElems d xs
  | .obj kvs => encPMembers d kvs
  | .null => ['n', 'u', 'l', 'l']
  | .bool true => ['t', 'r', 'u', 'e']
  | .bool false => ['f', 'a', 'l', 's', 'e']
  | .int i => encInt i
  | .float t => t
  | .str s => encStr s
def encPElems (d : Nat) : List JVal → Str
  | [] => ['[', ']']
  | x :: r => '[' :: '\n' :: (indent (d + 1) ++ encP (d + 1) x ++ encPTail d r)
def encPTail (d : Nat) : List JVal → Str
  | [] => '\n' :: (indent d ++ [']'])
  | x :: r => ',' :: '\n' :: (indent (d + 1) ++ encP (d + 1) x ++ encPTail d r)
def encPMembers (d : Nat) : List (Str × JVal) → Str
  | [] => ['{', '}']
  | (k, x) :: r => '{' :: '\n' :: (indent (d + 1) ++ encStr k ++ ':' :: ' ' :: (encP (d + 1) x ++ encPMTail d r))
def encPMTail (d : Nat) : List (Str × JVal) → Str
  | [] => '\n' :: (indent d ++ ['}'])
  | (k, x) :: r => ',' :: '\n' :: (indent (d + 1) ++ encStr k ++ ':' :: ' ' :: (encP (d + 1) x ++ encPMTail d r))
end

/-- `orjson.dumps(v, option=OPT_INDENT_2 | OPT_SORT_KEYS)` — what `JSONData.save` writes -/
def encPretty (v : JVal) : Str := encP 0 (sortKeys v)

/-! ## decoder -/

def isWs (c : Char) : Bool := c = ' ' || c = '\n' || c = '\r' || c = '\t'

def skipWs : Str → Str
  | [] => []
  | c :: r => if isWs c then skipWs r else c :: r

def isNumChar (c : Char) : Bool :=
  ('0' ≤ c ∧ c ≤ '9') || c = '-' || c = '+' || c = '.' || c = 'e' || c = 'E'

/-- longest prefix of number characters, and the rest -/
def spanNum : Str → Str × Str
  | [] => ([], [])
  | c :: r => if isNumChar c then let p := spanNum r; (c :: p.1, p.2) else ([], c :: r)

def isFloatTok (t : Str) : Bool := t.any (fun c => c = '.' || c = 'e' || c = 'E')

def parseIntTok : Str → Option Int
  | '-' :: ds => (parseNat ds).map (fun n => -(n : Int))
  | ds => (parseNat ds).map (fun n => (n : Int))

def hexVal (c : Char) : Option Nat :=
  if '0' ≤ c ∧ c ≤ '9' then some (c.toNat - 48)
  else if 'a' ≤ c ∧ c ≤ 'f' then some (c.toNat - 87)
  else if 'A' ≤ c ∧ c ≤ 'F' then some (c.toNat - 55)
  else none

def parseHex4 : Str → Option (Nat × Str)
  | a :: b :: c :: d :: r =>
    match hexVal a, hexVal b, hexVal c, hexVal d with
    | some x, some y, some z, some w => some (x * 4096 + y * 256 + z * 16 + w, r)
    | _, _, _, _ => none
  | _ => none

def unesc (e : Char) : Option Char :=
  if e = '"' then some '"' else if e = '\\' then some '\\' else if e = '/' then some '/'
  else if e = 'b' then some '\x08' else if e = 'f' then some '\x0c' else if e = 'n' then some '\n'
  else if e = 'r' then some '\r' else if e = 't' then some '\t' else none

def validScalar (n : Nat) : Bool := n < 0xd800 || (0xdfff < n && n < 0x110000)

/-- one character of a string literal: raw (control characters are rejected, as orjson does) or
an escape; `\\uXXXX` yields the BMP character (surrogate pairs, which orjson never writes, are
outside this model).  Returns the character and the remaining text. -/
def readChar : Str → Option (Char × Str)
  | [] => none
  | c :: r =>
    if c = '\\' then
      match r with
      | [] => none
      | e :: r' =>
        if e = 'u' then
          match r' with
          | h1 :: h2 :: h3 :: h4 :: r'' =>
            match hexVal h1, hexVal h2, hexVal h3, hexVal h4 with
            | some x, some y, some z, some w =>
              if validScalar (x * 4096 + y * 256 + z * 16 + w) then
                some (Char.ofNat (x * 4096 + y * 256 + z * 16 + w), r'')
              else none
            | _, _, _, _ => none
          | _ => none
        else (unesc e).map (fun x => (x, r'))
    else if c.toNat < 0x20 then none
    else some (c, r)

/-- the inside of a string literal, after the opening quote; `acc` is reversed -/
def parseStrAux : Nat → Str → Str → Option (Str × Str)
  | 0, _, _ => none
  | _ + 1, [], _ => none
  | f + 1, c :: r, acc =>
    if c = '"' then some (acc.reverse, r)
    else
      match readChar (c :: r) with
      | some (x, r') => parseStrAux f r' (x :: acc)
      | none => none

def parseStr (s : Str) : Option (Str × Str) := parseStrAux (s.length + 1) s []

/-- a number token: digits with an optional sign are an integer, anything with `.`/`e`/`E` a float -/
def parseNum (s : Str) : Option (JVal × Str) :=
  let p := spanNum s
  if p.1 = [] then none
  else if isFloatTok p.1 then some (.float p.1, p.2)
  else (parseIntTok p.1).map (fun i => (.int i, p.2))

/-- the rest of a literal (`ull`, `rue`, `alse`) -/
def expect : Str → Str → Option Str
  | [], r => some r
  | c :: cs, d :: r => if c = d then expect cs r else none
  | _ :: _, [] => none

mutual
/-- one value (leading white space allowed) -/
def parseVal : Nat → Str → Option (JVal × Str)
  | 0, _ => none
  | f + 1, s =>
    match skipWs s with
    | [] => none
    | c :: r =>
      if c = 'n' then (expect ['u', 'l', 'l'] r).map (fun r' => (.null, r'))
      else if c = 't' then (expect ['r', 'u', 'e'] r).map (fun r' => (.bool true, r'))
      else if c = 'f' then (expect ['a', 'l', 's', 'e'] r).map (fun r' => (.bool false, r'))
      else if c = '"' then (parseStr r).map (fun p => (.str p.1, p.2))
      else if c = '[' then
        match skipWs r with
        | [] => none
        | c' :: r' => if c' = ']' then some (.arr [], r') else (parseElems f (c' :: r')).map (fun p => (.arr p.1, p.2))
      else if c = '{' then
        match skipWs r with
        | [] => none
        | c' :: r' => if c' = '}' then some (.obj [], r') else (parseMembers f (c' :: r')).map (fun p => (.obj p.1, p.2))
      else parseNum (c :: r)
/-- `value (, value)* ]` -/
def parseElems : Nat → Str → Option (List JVal × Str)
  | 0, _ => none
  | f + 1, s =>
    match parseVal f s with
    | none => none
    | some (x, r) =>
      match skipWs r with
      | [] => none
      | c :: r' =>
        if c = ']' then some ([x], r')
        else if c = ',' then (parseElems f r').map (fun p => (x :: p.1, p.2))
        else none
/-- `"key" : value (, "key" : value)* }` -/
def parseMembers : Nat → Str → Option (List (Str × JVal) × Str)
  | 0, _ => none
  | f + 1, s =>
    match skipWs s with
    | [] => none
    | q :: r =>
      if q = '"' then
        match parseStr r with
        | none => none
        | some (k, r1) =>
          match skipWs r1 with
          | [] => none
          | c :: r2 =>
            if c = ':' then
              match parseVal f r2 with
              | none => none
              | some (x, r3) =>
                match skipWs r3 with
                | [] => none
                | c' :: r' =>
                  if c' = '}' then some ([(k, x)], r')
                  else if c' = ',' then (parseMembers f r').map (fun p => ((k, x) :: p.1, p.2))
                  else none
            else none
      else none
end

/-- `orjson.loads(text)`: one value, nothing but white space after it -/
def decode (text : Str) : Option JVal :=
  match parseVal (text.length + 1) text with
  | some (v, r) => if skipWs r = [] then some v else none
  | none => none

end TCV.JsonText
