import TCV.Model.Val
/-!
# M-Key — parameter registry text, input text, key, paths (the frozen scheme of release 1.4.0)

Mirrors `parameter.py: AbstractParameter.repr, ParameterRegistry.repr`,
`chain.py: TaskParameterConfig.get_name_for_persistence`, `task.py: Task.path`,
`data.py: FileData._path, Data.run_info_path, Data.log_path`.
The hash is a parameter `H` (instantiated with SHA-256 in the driver).
-/
namespace TCV
namespace Key
open PVal

/-- one declared parameter of a task together with the value the task received -/
structure Param where
  name : Str
  value : PVal
  /-- `none` = `NO_DEFAULT` -/
  default : Option PVal
  ignore : Bool          -- `ignore_persistence`
  dpd : Bool             -- `dont_persist_default_value`
  isPath : Bool := false -- `dtype is Path`

/-- `AbstractParameter.value_repr` -/
def valueRepr (printable : Char → Bool) (p : Param) : Str :=
  if p.isPath then
    match p.value with
    | .str s => pyRepr printable s
    | .rstr _ o => pyRepr printable o
    | v => reprInst printable v       -- `None` stays `None`
  else reprInst printable p.value

/-- `repr(pathlib.Path(s))` for a normalised relative or absolute POSIX path text: `PosixPath('<s>')` -/
def pathRepr (printable : Char → Bool) (s : Str) : Str := "PosixPath(".toList ++ pyRepr printable s ++ [')']

/-- `self.value == self.default` (Python `==`; `NO_DEFAULT` equals nothing).  For a `dtype=Path` parameter `self.value` is
`Path(_value)` unless `_value is None`: a string value equals the default only if the default is the `Path` object of that
text (a `Path` default is the opaque object `PosixPath('<text>')`; domain: normalised path texts, where `Path` equality is
equality of texts) — never a `str` default — and `None` equals only `None` -/
def isDefaultVal (printable : Char → Bool) (p : Param) : Bool :=
  match p.default with
  | some d =>
    if p.isPath then
      match p.value, d with
      | .atom a, .atom b => atomEq a b
      | .str s, .obj r => r == pathRepr printable s
      | .rstr s _, .obj r => r == pathRepr printable s
      | .obj a, .obj b => a == b
      | _, _ => false
    else pyEq p.value d
  | none => false

/-- `AbstractParameter.repr`: `none` when the parameter does not take part in persistence -/
def paramRepr (printable : Char → Bool) (p : Param) : Option Str :=
  if p.ignore then none
  else if p.dpd && isDefaultVal printable p then none
  else some (p.name ++ '=' :: valueRepr printable p)

/-- `'###'.join(parts)` -/
def joinHash : List Str → Str
  | [] => []
  | [p] => p
  | p :: r => p ++ '#' :: '#' :: '#' :: joinHash r

/-- `ParameterRegistry.repr` as it ends up in the f-string: the text `None` when nothing is persisted -/
def registryRepr (printable : Char → Bool) (ps : List Param) : Str :=
  let sorted := isort (fun a b : Param => strLe a.name b.name) ps
  match sorted.filterMap (paramRepr printable) with
  | [] => "None".toList
  | rs => joinHash rs

/-- remove the task's own namespace (and the `::`) from an input task's full name:
`_name[len(outer_namespace) + 2:]` -/
def stripNs (ns : Option Str) (name : Str) : Str :=
  match ns with
  | none => name
  | some n => if n.isEmpty then name else name.drop (n.length + 2)

/-- the `input_tasks_repr` of `get_name_for_persistence`; `ins` = (full name, key) of every input task -/
def inputsRepr (ns : Option Str) (ins : List (Str × Str)) : Str :=
  let sorted := isort (fun a b : Str × Str => strLe a.1 b.1) ins
  joinHash (sorted.map (fun (n, k) => stripNs ns n ++ '=' :: k))

def keyText (printable : Char → Bool) (ps : List Param) (ns : Option Str) (ins : List (Str × Str)) : Str :=
  registryRepr printable ps ++ '$' :: '$' :: '$' :: inputsRepr ns ins

/-- the storage key: first 32 hex digits of the hash of the key text -/
def keyOf (H : Str → Str) (printable : Char → Bool) (ps : List Param) (ns : Option Str)
    (ins : List (Str × Str)) : Str :=
  (H (keyText printable ps ns ins)).take 32

/-! ## paths (relative to the data directory, components) -/

/-- Python `slugname.replace(':', '/')` as path components -/
def splitOnColon : Str → Str → List Str
  | [], cur => [cur.reverse]
  | ':' :: r, cur => cur.reverse :: splitOnColon r []
  | c :: r, cur => splitOnColon r (c :: cur)

/-- `Task.path` relative to `base_dir`: group levels and task name -/
def taskDir (slug : Str) : List Str := splitOnColon slug []

/-- file or directory of the result: `<key>.<ext>` or `<key>` -/
def dataName (key : Str) (ext : Option Str) : Str :=
  match ext with
  | none => key
  | some e => key ++ '.' :: e

def dataPath (slug key : Str) (ext : Option Str) : List Str := taskDir slug ++ [dataName key ext]

/-- index of the last `.` of a file name (`name.rfind('.')`), if any -/
def lastDot (name : Str) : Option Nat :=
  match (name.reverse.takeWhile (· != '.')).length with
  | n => if n < name.length then some (name.length - 1 - n) else none

/-- `pathlib.PurePath(name).stem`: the name without its last suffix; a leading dot or a trailing dot is no suffix -/
def pyStem (name : Str) : Str :=
  match lastDot name with
  | some i => if 0 < i && i < name.length - 1 then name.take i else name
  | none => name

/-- `Data.run_info_path` / `Data.log_path`: `path.parent / f'{path.stem}.run_info.yaml'` — named after the STEM of the result's
file or directory name (for `<key>.<ext>` that is the key; for a directory result it is the key up to its last dot) -/
def runInfoPath (slug key : Str) (ext : Option Str) : List Str := taskDir slug ++ [pyStem (dataName key ext) ++ ".run_info.yaml".toList]
def logPath (slug key : Str) (ext : Option Str) : List Str := taskDir slug ++ [pyStem (dataName key ext) ++ ".log".toList]

end Key
end TCV
