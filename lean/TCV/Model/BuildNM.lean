import TCV.Model.Build
/-!
# M-Build, name mode — `Chain(config, parameter_mode=False)`

Mirrors `chain.py: Chain._prepare` (the `else` branch), `_create_tasks(task_registry=…)`, `_create_task` (registry key
`(slugname, config.repr_name_without_namespace)`), the single `_process_dependencies` pass and `_build_graph` with its
explicit acyclicity test.  In name mode the storage key of a task is the NAME of the config its object was created with
(`Config.get_name_for_persistence`).
-/
namespace TCV.BuildNM
open TCV TCV.Config TCV.Build TCV.PVal

/-- a task object of a name-mode chain -/
structure Obj where
  id : Nat
  /-- identity of the config object the task was created with -/
  cfgId : Nat
  cid : Str
  slug : Str
  ns : Option Str
  params : List (Str × PVal)
  /-- `config.name`: the name for persistence -/
  cfgName : Str

abbrev Registry := List ((Str × Str) × Obj)

def regGet (k : Str × Str) : Registry → Option Obj
  | [] => none
  | (k', v) :: r => if k'.1 == k.1 && k'.2 == k.2 then some v else regGet k r

/-- `Config.repr_name_without_namespace`: `repr_name.split('::')[-1]` -/
def reprNameNoNs (c : Cfg) : Str := Names.localOf c.reprName

/-- `tasks[name] = task`, refusing a name already held by a task of another config object -/
def register (name : Str) (o : Obj) : List (Str × Obj) → Except Err (List (Str × Obj))
  | [] => .ok [(name, o)]
  | (n, u) :: r =>
    if n == name then
      if u.cfgId == o.cfgId then .ok ((name, o) :: r) else .error .conflict
    else match register name o r with
      | .error e => .error e
      | .ok r' => .ok ((n, u) :: r')

structure St where
  tasks : List (Str × Obj)
  reg : Registry
  next : Nat

/-- the tasks one config declares; the task object is created (parameters set — this can fail) before the registry is consulted -/
def addTasks (classes : Classes) (cfg : Cfg) (cfgId : Nat) : List Str → St → Except Err St
  | [], st => .ok st
  | cid :: rest, st =>
    match get? cid classes with
    | none => .error .notFound
    | some c =>
      if c.abstract || cfg.excluded.contains cid then addTasks classes cfg cfgId rest st
      else match setParams c.params cfg.data with
        | .error e => .error e
        | .ok ps =>
          let key := (c.slug, reprNameNoNs cfg)
          let (o, reg', next') : Obj × Registry × Nat := match regGet key st.reg with
            | some o => (o, st.reg, st.next)
            | none =>
              let o : Obj := { id := st.next, cfgId := cfgId, cid := cid, slug := c.slug, ns := cfg.ns, params := ps, cfgName := cfg.name }
              (o, st.reg ++ [(key, o)], st.next + 1)
          match register (fullName cfg.ns c.slug) o st.tasks with
          | .error e => .error e
          | .ok ts => addTasks classes cfg cfgId rest { tasks := ts, reg := reg', next := next' }

def createTasksFrom (classes : Classes) : List Cfg → Nat → St → Except Err St
  | [], _, st => .ok st
  | cfg :: rest, cfgId, st =>
    match addTasks classes cfg cfgId cfg.tasks st with
    | .error e => .error e
    | .ok st' => createTasksFrom classes rest (cfgId + 1) st'

/-! ## the acyclicity test (`nx.is_directed_acyclic_graph`) as repeated peeling of source nodes -/

/-- nodes that still have an input among the nodes alive -/
def stuck (edges : List (Nat × Nat)) (alive : List Nat) : List Nat :=
  alive.filter (fun n => edges.any (fun e => e.2 == n && alive.contains e.1))

def peel (edges : List (Nat × Nat)) : Nat → List Nat → List Nat
  | 0, alive => alive
  | k + 1, alive => peel edges k (stuck edges alive)

/-- all nodes can be removed, sources first -/
def isDAG (nodes : List Nat) (edges : List (Nat × Nat)) : Bool := (peel edges nodes.length nodes).isEmpty

/-- a task of the built chain -/
structure TaskN where
  full : Str
  obj : Obj
  inputs : List (Str × InVal)

structure Chain where
  tasks : List TaskN
  reg : Registry
  next : Nat
  nextCfg : Nat

def lastInputs (ins : List (Nat × List (Str × InVal))) (id : Nat) : List (Str × InVal) :=
  match ins.reverse.find? (fun p => p.1 == id) with
  | some p => p.2
  | none => []

def edgesOf (tasks : List TaskN) : List (Nat × Nat) :=
  tasks.flatMap (fun t => t.inputs.filterMap (fun kv => match kv.2 with
    | .task f => (tasks.find? (fun u => u.full == f)).map (fun u => (u.obj.id, t.obj.id))
    | .dflt _ => none))

/-- `Chain(config, shared_tasks=registry, parameter_mode=False)`; `cfgBase` numbers the config objects of this chain -/
def build (fs : FS) (cfs : CtxFS) (classes : Classes) (main : Str) (mainNs : Option Str) (ctxSrc : Option CtxSrc)
    (reg : Registry) (next cfgBase fuel : Nat) : Except Err Chain := do
  let ctx ← match ctxSrc with
    | none => pure none
    | some s => (prepareCtx cfs fuel s none).map some
  let cfg ← loadCfg fs ctx main mainNs
  let cfgs ← processConfig fs ctx fuel cfg []
  let st ← createTasksFrom classes cfgs cfgBase { tasks := [], reg := reg, next := next }
  let names := st.tasks.map (·.1)
  -- `_process_dependencies`: every listed name, in order; a task object listed under several names keeps the inputs set last
  let ins ← st.tasks.mapM (fun (p : Str × Obj) => match get? p.2.cid classes with
    | some c => (resolveInputs classes names p.1 c p.2.ns).map (fun i => (p.2.id, i))
    | none => .error .notFound)
  let tasks := st.tasks.map (fun (p : Str × Obj) => ({ full := p.1, obj := p.2, inputs := lastInputs ins p.2.id } : TaskN))
  -- `_build_graph`
  if isDAG (tasks.map (·.obj.id)).eraseDups (edgesOf tasks) then
    pure { tasks := tasks, reg := st.reg, next := st.next, nextCfg := cfgBase + cfgs.length }
  else .error .tooDeep

def buildMultiAux (fs : FS) (cfs : CtxFS) (classes : Classes) (fuel : Nat) :
    List (Str × Option CtxSrc) → List Str → Registry → Nat → Nat → Except Err (List Chain)
  | [], _, _, _, _ => .ok []
  | m :: rest, seen, reg, next, cfgBase =>
    match mainName fs m.1 with
    | .error e => .error e
    | .ok nm =>
      -- `assert config.name not in self.chains`
      if seen.contains nm then .error .dupChain
      else match build fs cfs classes m.1 none m.2 reg next cfgBase fuel with
        | .error e => .error e
        | .ok c => match buildMultiAux fs cfs classes fuel rest (nm :: seen) c.reg c.next c.nextCfg with
          | .error e => .error e
          | .ok cs => .ok (c :: cs)

/-- `MultiChain(configs, parameter_mode=False)`: one registry `(task name, config file) ↦ object` shared by all member chains, in
order; an object listed by several chains keeps the input table the LAST of them set -/
def buildMulti (fs : FS) (cfs : CtxFS) (classes : Classes) (mains : List (Str × Option CtxSrc)) (fuel : Nat) : Except Err (List Chain) :=
  match buildMultiAux fs cfs classes fuel mains [] [] 0 0 with
  | .error e => .error e
  | .ok cs =>
    let all := cs.flatMap (fun c => c.tasks.map (fun t => (t.obj.id, t.inputs)))
    .ok (cs.map (fun c => { c with tasks := c.tasks.map (fun t =>
      match all.reverse.find? (fun p => p.1 == t.obj.id) with
      | some p => { t with inputs := p.2 }
      | none => t) }))

end TCV.BuildNM
