import TCV.Model.Basic
/-!
# M-RunRec — run info and logs

Mirrors `task.py: Task.data` (handler attach/detach around `run`, after repair F5 also on failure),
`Task._init_run_info / save_to_run_info / _finish_run_info`, `data.py: Data.get_log_handler` (a
`FileHandler` opened with mode `'w'`: the log file is truncated when the handler is created),
`Data.log`, `Data.save_run_info`.

One *run event* is one execution of `run` of one task object: logger name (`task_<fullname>`), location,
the lines it logs through its logger, the records it adds, whether it succeeded, and the static run
info (task, parameter representations, input keys, config).  Runs of one process are processed in the
order in which they start.  Nested runs (inputs computed while a run is in progress) use other logger
names — names are unique inside a chain and a task never depends on a task of another chain — so the
messages of a run are emitted as one block.
-/
namespace TCV.RunRec

structure RunEv (I R : Type) where
  logger : Str
  loc : Nat
  /-- every line logged through the task's logger while its handler is attached, in order
  (`… - run started …`, the task's own messages, `… - run ended` on success) -/
  lines : List Str
  records : List R
  ok : Bool
  info : I

structure St (I R : Type) where
  /-- file handlers currently attached: (logger name, location of the log file) -/
  handlers : List (Str × Nat)
  logs : Nat → List Str
  runinfo : Nat → Option (I × List R)

def St.init {I R} : St I R := { handlers := [], logs := fun _ => [], runinfo := fun _ => none }

variable {I R : Type}

/-- a line logged through logger `name` is written by every file handler attached to that logger — once per handler -/
def emit (hs : List (Str × Nat)) (name : Str) (line : Str) (logs : Nat → List Str) : Nat → List Str :=
  fun l => logs l ++ List.replicate (hs.countP (fun h => h.1 == name && h.2 == l)) line

def emitAll (hs : List (Str × Nat)) (name : Str) : List Str → (Nat → List Str) → Nat → List Str
  | [], logs => logs
  | ln :: r, logs => emitAll hs name r (emit hs name ln logs)

def removeFirst (h : Str × Nat) : List (Str × Nat) → List (Str × Nat)
  | [] => []
  | x :: r => if x.1 == h.1 && x.2 == h.2 then r else x :: removeFirst h r

/-- one run.  `leaky = true` is the pre-repair behaviour (a failed run leaves its handler attached). -/
def runStep (leaky : Bool) (s : St I R) (e : RunEv I R) : St I R :=
  -- `FileHandler(log_path, mode='w')`: truncate, then attach
  let logs0 : Nat → List Str := fun l => if l = e.loc then [] else s.logs l
  let hs := s.handlers ++ [(e.logger, e.loc)]
  let logs1 := emitAll hs e.logger e.lines logs0
  if e.ok then
    { handlers := removeFirst (e.logger, e.loc) hs, logs := logs1,
      runinfo := fun l => if l = e.loc then some (e.info, e.records) else s.runinfo l }
  else
    { handlers := if leaky then hs else removeFirst (e.logger, e.loc) hs, logs := logs1, runinfo := s.runinfo }

def runAll (leaky : Bool) : St I R → List (RunEv I R) → St I R
  | s, [] => s
  | s, e :: r => runAll leaky (runStep leaky s e) r

/-- a new interpreter: no handlers; files stay -/
def restart (s : St I R) : St I R := { s with handlers := [] }

end TCV.RunRec
