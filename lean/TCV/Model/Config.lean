import TCV.Model.Val
/-!
# M-Config — config files, multi-part files, contexts

Mirrors `config.py`: `Config.__init__/_prepare/_get_part/_update_uses/apply_context`,
`Context.prepare_context/merge_contexts/_prepare`.  Data are association lists with Python `dict`
semantics (`update`: existing keys keep their position, new keys are appended, later values win).
Placeholders/global_vars are M-Subst's business and not part of this layer.
-/
namespace TCV.Config
open TCV

/-- a Python `dict` with string keys: unique keys, insertion order -/
abbrev Data := List (Str × PVal)

def get? {β} (k : Str) : List (Str × β) → Option β
  | [] => none
  | (k', v) :: r => if k' == k then some v else get? k r

/-- `d[k] = v` -/
def set {β} (k : Str) (v : β) : List (Str × β) → List (Str × β)
  | [] => [(k, v)]
  | (k', v') :: r => if k' == k then (k, v) :: r else (k', v') :: set k v r

/-- `d.update(e)` -/
def update {β} (d e : List (Str × β)) : List (Str × β) := e.foldl (fun acc kv => set kv.1 kv.2 acc) d

def erase {β} (k : Str) : List (Str × β) → List (Str × β)
  | [] => []
  | (k', v) :: r => if k' == k then r else (k', v) :: erase k r

def reserved : List Str :=
  ["tasks", "excluded_tasks", "uses", "human_readable_data_name", "configs", "for_namespaces", "main_part"].map String.toList

/-- one part of a config file, as written in the file: `tasks`, `excluded_tasks`, `uses` are class ids /
use strings, everything else is parameter data.  (In the code all of it is one dict; the model keeps the
three structural fields apart and the harness never generates them inside contexts.) -/
structure Part where
  data : Data
  tasks : List Str
  excluded : List Str
  uses : List Str
  mainPart : Bool := false

inductive File where
  | single (p : Part)
  | multi (parts : List (Str × Part))

abbrev FS := List (Str × File)

inductive Err where
  | noFile | noPart | multipartShape | notFound | ambiguous | conflict | missingParam | badType
  | missingInput | dupInput | tooDeep | unsupported
  /-- `MultiChain`: two member configs with one name -/
  | dupChain
deriving DecidableEq, Repr

/-! ## strings -/

def isPrefix : Str → Str → Bool
  | [], _ => true
  | _ :: _, [] => false
  | a :: as, b :: bs => a == b && isPrefix as bs

/-- split at the LAST occurrence of `" as "` (the regex `(.*) as (.*)` is greedy) -/
def splitAsAux : Str → Str → Option (Str × Str) → Option (Str × Str)
  | [], _, best => best
  | c :: r, pre, best =>
    let best' := if isPrefix " as ".toList (c :: r) then some (pre.reverse, r.drop 3) else best
    splitAsAux r (c :: pre) best'

def splitAs (s : Str) : Option (Str × Str) := splitAsAux s [] none

/-- `path.split('#')` into file and optional part -/
def splitHash : Str → Str → Str × Option Str
  | [], acc => (acc.reverse, none)
  | '#' :: r, acc => (acc.reverse, some r)
  | c :: r, acc => splitHash r (c :: acc)

/-- file name without directory and without the last extension: `'.'.join(name.split('.')[:-1])` -/
def baseName (path : Str) : Str :=
  let afterSlash := (path.reverse.takeWhile (· != '/')).reverse
  match (afterSlash.reverse.dropWhile (· != '.')) with
  | [] => []           -- no dot: `name_parts[:-1]` is empty
  | _ :: r => r.reverse

/-- `f'{outer}::{inner}' if outer else inner` -/
def joinNsOpt (outer : Option Str) (inner : Str) : Str :=
  match outer with
  | some o => if o.isEmpty then inner else o ++ ':' :: ':' :: inner
  | none => inner

/-! ## contexts -/

/-- a prepared `Context`: global data and per-namespace data -/
structure Ctx where
  data : Data
  forNs : List (Str × Data)
  ns : Option Str := none

/-- where a context comes from -/
inductive CtxSrc where
  /-- a dict: global entries, `for_namespaces`, `uses` -/
  | dict (data : Data) (forNs : List (Str × Data)) (uses : List Str)
  /-- a context file (a key of `ctxFiles`) -/
  | file (path : Str)
  | list (srcs : List CtxSrc)

/-- context files: path ↦ (data, for_namespaces, uses) -/
abbrev CtxFS := List (Str × (Data × List (Str × Data) × List Str))

/-- `Context._prepare` for a context built from raw (data, for_namespaces, uses) under `namespace`.
With a namespace everything moves below it: `for_namespaces` keys are prefixed and the global data
(and `uses`) become the entry of the namespace itself.  `uses` is returned separately. -/
def ctxOfRaw (data : Data) (forNs : List (Str × Data)) (ns : Option Str) : Ctx :=
  match ns with
  | none => { data := data, forNs := forNs, ns := none }
  | some n =>
    let pref := forNs.map (fun kv => (n ++ ':' :: ':' :: kv.1, kv.2))
    { data := [], forNs := set n (data.filter (fun kv => !reserved.contains kv.1)) pref, ns := some n }

/-- `Context.merge_contexts`: later contexts win, per namespace too -/
def mergeCtx (cs : List Ctx) : Ctx :=
  { data := cs.foldl (fun acc c => update acc c.data) [],
    forNs := cs.foldl (fun acc c => c.forNs.foldl (fun a kv => set kv.1 (update ((get? kv.1 a).getD []) kv.2) a) acc) [],
    ns := none }

/-- `Context.prepare_context`: fuel bounds the nesting of `uses` inside contexts -/
def prepareCtx (cfs : CtxFS) : Nat → CtxSrc → Option Str → Except Err Ctx
  | 0, _, _ => .error .tooDeep
  | fuel + 1, src, ns =>
    let withUses (c : Ctx) (uses : List Str) : Except Err Ctx :=
      if uses.isEmpty then .ok c
      else do
        let subs ← uses.mapM (fun u =>
          match splitAs u with
          | some (path, alias) => prepareCtx cfs fuel (.file path) (some (joinNsOpt c.ns alias))
          | none => prepareCtx cfs fuel (.file u) (match c.ns with | some n => if n.isEmpty then none else some n | none => none))
        .ok (mergeCtx (c :: subs))
    match src with
    | .dict data forNs uses => withUses (ctxOfRaw data forNs ns) uses
    | .file path =>
      match get? path cfs with
      | none => .error .noFile
      | some (data, forNs, uses) => withUses (ctxOfRaw data forNs ns) uses
    | .list srcs => do
      let cs ← srcs.mapM (fun s => prepareCtx cfs fuel s ns)
      .ok (mergeCtx cs)

/-! ## configs -/

/-- a loaded `Config` -/
structure Cfg where
  path : Str
  part : Option Str
  ns : Option Str
  data : Data
  tasks : List Str
  excluded : List Str
  uses : List Str

/-- `Config.name` -/
def Cfg.name (c : Cfg) : Str :=
  match c.part with
  | some p => baseName c.path ++ '#' :: p
  | none => baseName c.path

/-- `Config.repr_name`: identifies a config inside a chain -/
def Cfg.reprName (c : Cfg) : Str :=
  let n := match c.ns with
    | none => c.path
    | some ns => ns ++ ':' :: ':' :: c.path
  match c.part with
  | some p => n ++ '#' :: p
  | none => n

/-- `Config.apply_context`: global entries, then the entries for exactly the config's namespace -/
def applyContext (data : Data) (ctx : Option Ctx) (ns : Option Str) : Data :=
  match ctx with
  | none => data
  | some c =>
    let d1 := update data c.data
    match ns with
    | none => d1
    | some n => if n.isEmpty then d1 else
      c.forNs.foldl (fun acc kv => if kv.1 == n then update acc kv.2 else acc) d1

/-- `Config.__init__` for a file path (possibly `path#part`) -/
def loadCfg (fs : FS) (ctx : Option Ctx) (pathSpec : Str) (ns : Option Str) : Except Err Cfg :=
  let (path, part) := splitHash pathSpec []
  match get? path fs with
  | none => .error .noFile
  | some (.single p) =>
    .ok { path, part := part, ns, data := applyContext p.data ctx ns, tasks := p.tasks, excluded := p.excluded, uses := p.uses }
  | some (.multi parts) =>
    let pick : Except Err (Str × Part) :=
      -- `if self._part:` — an empty part name (`file#`) counts as no part given
      match part.bind (fun pn => if pn.isEmpty then none else some pn) with
      | some pn => match get? pn parts with
        | some p => .ok (pn, p)
        | none => .error .noPart
      | none => match parts.find? (fun kv => kv.2.mainPart) with
        | some kv => .ok kv
        | none => .error .noPart
    match pick with
    | .error e => .error e
    | .ok (pn, p) =>
      -- `_update_uses`: `#part` references resolve within this file
      let uses := p.uses.map (fun u => match u with
        | '#' :: _ => path ++ u
        | _ => u)
      .ok { path, part := some pn, ns, data := applyContext p.data ctx ns, tasks := p.tasks, excluded := p.excluded, uses }

/-- `Chain._process_config`: depth-first, first occurrence of a `repr_name` wins -/
def processConfig (fs : FS) (ctx : Option Ctx) : Nat → Cfg → List Cfg → Except Err (List Cfg)
  | 0, _, _ => .error .tooDeep
  | fuel + 1, cfg, acc =>
    if acc.any (fun c => c.reprName == cfg.reprName) then .ok acc
    else
      cfg.uses.foldlM (fun acc' u =>
        let (path, ns) := match splitAs u with
          | some (p, alias) => (p, some (joinNsOpt cfg.ns alias))
          | none => (u, match cfg.ns with | some n => if n.isEmpty then none else some n | none => none)
        match loadCfg fs ctx path ns with
        | .error e => .error e
        | .ok used => processConfig fs ctx fuel used acc') (acc ++ [cfg])

end TCV.Config
