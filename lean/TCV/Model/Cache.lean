import TCV.Model.Basic
/-!
# M-Cache — `FileCache.get / get_or_compute`, `JsonCache`, `DataFrameCache`, `NumpyArrayCache`,
`InMemoryCache`, sub-caches (`cache.py`), as a sequential machine

A cache file is `absent`, `corrupt` (present but the reader raises something that is not a
`CacheException`: empty, truncated, garbage) or `entry k v` (a complete entry written for key `k`
with value `v`; `foreign` = `entry k' v` found at the path of another key `k`).

Parameters (runtime/library behaviour the model does not express):
* `H : Str → Str` — `sha256(key.encode()).hexdigest()`;
* the serializers: writing `v` yields `entry k v`, reading `entry k v` yields `v` (round trip of the
  cache type's value domain), reading anything else that exists raises a non-`CacheException`;
* the file system between operations is changed only by the explicit environment operation
  `Op.setFile` (delete / empty / truncate / swap in a file recorded for another key).

Values are `Option Nat`: `none` is Python's `None` (the only value the code looks at), `some n` any
other value of the cache type's domain (the harness interns real values).
-/
namespace TCV.Cache

abbrev Key := Str
abbrev Val := Option Nat
/-- directory of a (sub-)cache relative to the root cache: the list of path components -/
abbrev Dir := List Str
abbrev Path := List Str

inductive FileSt
  | absent
  | corrupt
  | entry (k : Key) (v : Val)
deriving DecidableEq, Repr

/-- `Path.exists()` -/
def FileSt.present : FileSt → Bool
  | .absent => false
  | _ => true

/-- per cache class: does the file record its key (`JsonCache`), may `None` be stored, file extension -/
structure Conf where
  keyed : Bool
  allowNones : Bool
  ext : Str
deriving DecidableEq, Repr

/-- `FileCache.subcache` is `self.__class__(self.directory / directory)`: constructor defaults apply,
so a sub-cache of `JsonCache(dir, allow_nones=False)` **allows** `None` again (as in the code) -/
def confOf (root : Conf) (d : Dir) : Conf :=
  match d with
  | [] => root
  | _ => { root with allowNones := true }

/-- `FileCache.filepath`: `<dir>/<hash[:5]>/<hash[5:]>.<ext>` -/
def pathOf (H : Str → Str) (c : Conf) (d : Dir) (k : Key) : Path :=
  d ++ [(H k).take 5, (H k).drop 5 ++ '.' :: c.ext]

abbrev FS := Path → FileSt

def FS.set (fs : FS) (p : Path) (f : FileSt) : FS := fun q => if q = p then f else fs q

inductive Comp
  | ret (v : Val)
  | raise
deriving DecidableEq, Repr

inductive Op
  | get (d : Dir) (k : Key)
  | goc (d : Dir) (k : Key) (c : Comp) (force : Bool)
  /-- environment: the file at the path of `(d, k)` is replaced by `f` (deleted, damaged, swapped) -/
  | setFile (d : Dir) (k : Key) (f : FileSt)
deriving DecidableEq, Repr

inductive Out
  | val (v : Val)
  | noValue            -- `NO_VALUE`
  | cacheErr           -- `CacheException`
  | raised             -- the computer's exception
  | unit               -- environment operations return nothing
deriving DecidableEq, Repr

inductive LoadRes
  | ok (v : Val)
  | cacheErr           -- `CacheException`: re-raised by `get` / `get_or_compute`
  | fail               -- any other exception: logged, treated as "not cached"
deriving DecidableEq, Repr

/-- `load_value(filepath, key)` -/
def load (c : Conf) (k : Key) : FileSt → LoadRes
  | .absent => .fail
  | .corrupt => .fail
  | .entry k' v =>
    if c.keyed && k' != k then .cacheErr
    else if v.isNone && !c.allowNones then .cacheErr
    else .ok v

/-- result of one operation: new file system, output, number of computer calls -/
structure Res where
  fs : FS
  out : Out
  calls : Nat

/-- the tail of `get_or_compute`: `value = computer(); save_value(tmp, key, value); tmp.replace(filepath)` -/
def computeAndStore (c : Conf) (fs : FS) (p : Path) (k : Key) : Comp → Res
  | .raise => ⟨fs, .raised, 1⟩
  | .ret v =>
    if v.isNone && !c.allowNones then ⟨fs, .cacheErr, 1⟩      -- `save_value` raises before opening the temp file
    else ⟨fs.set p (.entry k v), .val v, 1⟩

def exec (H : Str → Str) (root : Conf) (fs : FS) : Op → Res
  | .get d k =>
    let c := confOf root d
    let p := pathOf H c d k
    if (fs p).present then
      match load c k (fs p) with
      | .ok v => ⟨fs, .val v, 0⟩
      | .cacheErr => ⟨fs, .cacheErr, 0⟩
      | .fail => ⟨fs, .noValue, 0⟩
    else ⟨fs, .noValue, 0⟩
  | .goc d k comp force =>
    let c := confOf root d
    let p := pathOf H c d k
    if (fs p).present && !force then
      match load c k (fs p) with
      | .ok v => ⟨fs, .val v, 0⟩
      | .cacheErr => ⟨fs, .cacheErr, 0⟩
      | .fail => computeAndStore c fs p k comp
    else computeAndStore c fs p k comp
  | .setFile d k f =>
    let c := confOf root d
    ⟨fs.set (pathOf H c d k) f, .unit, 0⟩

/-- a whole history: outputs and computer-call counts, in order, and the final file system -/
def run (H : Str → Str) (root : Conf) : FS → List Op → List (Out × Nat) × FS
  | fs, [] => ([], fs)
  | fs, op :: rest =>
    let r := exec H root fs op
    let (outs, fs') := run H root r.fs rest
    ((r.out, r.calls) :: outs, fs')

/-! ### the dictionary specification

One slot per (sub-cache, key).  `bad` is a slot whose file is an entry that must be *reported*
(recorded for another key, or `None` where `None` is not allowed).  Corrupt files are `none`. -/

inductive Slot
  | none
  | some (v : Val)
  | bad
deriving DecidableEq, Repr

abbrev Dict := Dir × Key → Slot

def Dict.set (D : Dict) (a : Dir × Key) (s : Slot) : Dict := fun b => if b = a then s else D b

/-- what a file means for the slot of key `k` -/
def slotOf (c : Conf) (k : Key) : FileSt → Slot
  | .absent => .none
  | .corrupt => .none
  | .entry k' v =>
    if c.keyed && k' != k then .bad
    else if v.isNone && !c.allowNones then .bad
    else .some v

structure SRes where
  D : Dict
  out : Out
  calls : Nat

def specCompute (c : Conf) (D : Dict) (a : Dir × Key) : Comp → SRes
  | .raise => ⟨D, .raised, 1⟩
  | .ret v =>
    if v.isNone && !c.allowNones then ⟨D, .cacheErr, 1⟩
    else ⟨D.set a (.some v), .val v, 1⟩

def specExec (root : Conf) (D : Dict) : Op → SRes
  | .get d k =>
    match D (d, k) with
    | .some v => ⟨D, .val v, 0⟩
    | .bad => ⟨D, .cacheErr, 0⟩
    | .none => ⟨D, .noValue, 0⟩
  | .goc d k comp force =>
    if force then specCompute (confOf root d) D (d, k) comp
    else match D (d, k) with
      | .some v => ⟨D, .val v, 0⟩
      | .bad => ⟨D, .cacheErr, 0⟩
      | .none => specCompute (confOf root d) D (d, k) comp
  | .setFile d k f => ⟨D.set (d, k) (slotOf (confOf root d) k f), .unit, 0⟩

def specRun (root : Conf) : Dict → List Op → List (Out × Nat) × Dict
  | D, [] => ([], D)
  | D, op :: rest =>
    let r := specExec root D op
    let (outs, D') := specRun root r.D rest
    ((r.out, r.calls) :: outs, D')

/-- the dictionary a file system stands for -/
def absOf (H : Str → Str) (root : Conf) (fs : FS) : Dict :=
  fun a => slotOf (confOf root a.1) a.2 (fs (pathOf H (confOf root a.1) a.1 a.2))

/-- `InMemoryCache` *is* the dictionary specification without `bad` slots: nothing is keyed by file,
`None` is storable, every sub-cache name is its own dictionary -/
def memConf : Conf := { keyed := false, allowNones := true, ext := [] }

/-- `InMemoryCache.get / get_or_compute` (`subcache(name)` selects the dictionary of `d`) -/
def memExec (D : Dict) (op : Op) : SRes := specExec memConf D op

def memRun (D : Dict) (ops : List Op) : List (Out × Nat) × Dict := specRun memConf D ops

end TCV.Cache
