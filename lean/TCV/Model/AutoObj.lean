import TCV.Model.Val
/-!
# M-AutoObj — `AutoParameterObject.repr` (parameter.py)

A parameter object derived from `AutoParameterObject` is represented for persistence by
`ClassName(arg1=repr(v1), arg2=repr(v2), …)`: the arguments of `__init__` (signature order), skipping those listed in
`ignore_persistence_args()`, looked up on the instance as attribute `_arg` **first** and `arg` second (missing both:
`AttributeError`), skipping values that are `IgnoreForPersistence` and — for arguments listed in
`dont_persist_default_value_args()` — values equal to the default; the remaining `(name, value)` pairs sorted by name.

The instance is modelled by what `getattr` can see: a list of `(attribute name, value)` (instance attributes and
properties alike).  Values are JSON-like (`PVal`, with substituted strings `rstr`), printed by Python's `repr`
(`pyReprV`: strings escaped by `unicode_repr`, mappings in insertion order — finding K2).  Not modelled:
`IgnoreForPersistence` instances nested *inside* containers, sets, nested parameter objects.
-/
namespace TCV.AutoObj
open TCV TCV.PVal

mutual
/-- Python `repr(v)` of a JSON-like value (`ReprStr` prints `repr` of its source text) -/
def pyReprV (pr : Char → Bool) : PVal → Str
  | .atom t => t
  | .str s => pyRepr pr s
  | .rstr _ o => pyRepr pr o
  | .list xs => '[' :: (pyReprL pr xs ++ [']'])
  | .dict kvs => '{' :: (pyReprD pr kvs ++ ['}'])
  | .obj r => r
def pyReprL (pr : Char → Bool) : List PVal → Str
  | [] => []
  | x :: r => pyReprV pr x ++ pyReprLT pr r
def pyReprLT (pr : Char → Bool) : List PVal → Str
  | [] => []
  | x :: r => ',' :: ' ' :: (pyReprV pr x ++ pyReprLT pr r)
def pyReprD (pr : Char → Bool) : List (Str × PVal) → Str
  | [] => []
  | (k, v) :: r => pyRepr pr k ++ (':' :: ' ' :: (pyReprV pr v ++ pyReprDT pr r))
def pyReprDT (pr : Char → Bool) : List (Str × PVal) → Str
  | [] => []
  | (k, v) :: r => ',' :: ' ' :: (pyRepr pr k ++ (':' :: ' ' :: (pyReprV pr v ++ pyReprDT pr r)))
end

/-- what `getattr(self, name)` returns -/
inductive AVal where
  | plain (v : PVal)
  /-- an instance of `IgnoreForPersistence` -/
  | ignored

structure Arg where
  name : Str
  /-- default of the `__init__` parameter (`none`: no default) -/
  default : Option PVal

structure Decl where
  cls : Str
  /-- `signature(self.__init__).parameters`, in order -/
  args : List Arg
  ignore : List Str
  dpd : List Str

abbrev Attrs := List (Str × AVal)

/-- `_arg` first, then `arg` -/
def argValue (ats : Attrs) (a : Str) : Option AVal :=
  match lookup ('_' :: a) ats with
  | some v => some v
  | none => lookup a ats

def isDefault (d : Decl) (a : Arg) (v : PVal) : Bool :=
  d.dpd.contains a.name && (match a.default with
    | some dv => pyEq v dv
    | none => false)

/-- the `(name, value)` pairs that enter the text, in signature order; `none` = `AttributeError` -/
def collect (d : Decl) (ats : Attrs) : List Arg → Option (List (Str × PVal))
  | [] => some []
  | a :: r =>
    if d.ignore.contains a.name then collect d ats r
    else match argValue ats a.name with
      | none => none
      | some .ignored => collect d ats r
      | some (.plain v) =>
        if isDefault d a v then collect d ats r
        else (collect d ats r).map (fun kvs => (a.name, v) :: kvs)

def argText (pr : Char → Bool) (kv : Str × PVal) : Str := kv.1 ++ ('=' :: pyReprV pr kv.2)

def joinCS : List Str → Str
  | [] => []
  | [x] => x
  | x :: y :: r => x ++ (',' :: ' ' :: joinCS (y :: r))

def textOf (pr : Char → Bool) (cls : Str) (kvs : List (Str × PVal)) : Str :=
  cls ++ ('(' :: (joinCS ((sortItems kvs).map (argText pr)) ++ [')']))

/-- `AutoParameterObject.repr()` -/
def autoRepr (pr : Char → Bool) (d : Decl) (ats : Attrs) : Option Str :=
  (collect d ats d.args).map (textOf pr d.cls)

mutual
/-- forget what was substituted for placeholders (keep the source text) -/
def erase : PVal → PVal
  | .rstr _ o => .rstr [] o
  | .list xs => .list (eraseL xs)
  | .dict kvs => .dict (eraseD kvs)
  | v => v
def eraseL : List PVal → List PVal
  | [] => []
  | x :: r => erase x :: eraseL r
def eraseD : List (Str × PVal) → List (Str × PVal)
  | [] => []
  | (k, v) :: r => (k, erase v) :: eraseD r
end

end TCV.AutoObj
