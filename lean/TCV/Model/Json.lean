import TCV.Model.Val
/-!
# M-Json (the part used by C14 and C16) — JSON values and the two printers `cache.py` uses

* `dumpsStd`  = `json.dumps(v, sort_keys=True)` of the standard library (`cached` keys): separators
  `", "` and `": "`, `ensure_ascii=True` (everything outside `' '..'~'` escaped, astral characters as
  surrogate pairs), mapping items sorted by key at every level;
* `dumpsCompact` = `orjson.dumps(v)` (cache entry files): no spaces, non-ASCII characters verbatim,
  insertion order.

Numbers are tokens (the text Python prints for them); strings are `List Char` (no lone surrogates).
-/
namespace TCV.Json
open TCV

inductive JVal where
  | null
  | bool (b : Bool)
  | num (tok : Str)
  | str (s : Str)
  | arr (xs : List JVal)
  | obj (kvs : List (Str × JVal))

def hex4 (n : Nat) : Str := PVal.hexN 4 n

/-- `\uXXXX` -/
def uEsc (n : Nat) : Str := '\\' :: 'u' :: hex4 n

/-- the short escapes both printers share; `none` = no short escape -/
def shortEsc (c : Char) : Option Str :=
  if c == '"' then some ['\\', '"']
  else if c == '\\' then some ['\\', '\\']
  else if c == '\n' then some ['\\', 'n']
  else if c == '\r' then some ['\\', 'r']
  else if c == '\t' then some ['\\', 't']
  else if c.toNat == 8 then some ['\\', 'b']
  else if c.toNat == 12 then some ['\\', 'f']
  else none

/-- `json.encoder.py_encode_basestring_ascii` for one character -/
def escStdChar (c : Char) : Str :=
  match shortEsc c with
  | some e => e
  | none =>
    let o := c.toNat
    if 0x20 ≤ o && o ≤ 0x7e then [c]
    else if o < 0x10000 then uEsc o
    else
      let v := o - 0x10000
      uEsc (0xd800 + v / 0x400) ++ uEsc (0xdc00 + v % 0x400)

/-- orjson: only `"`, `\` and control characters below 0x20 are escaped -/
def escCompactChar (c : Char) : Str :=
  match shortEsc c with
  | some e => e
  | none => if c.toNat < 0x20 then uEsc c.toNat else [c]

def quote (esc : Char → Str) (s : Str) : Str := '"' :: (s.flatMap esc ++ ['"'])

def strStd (s : Str) : Str := quote escStdChar s
def strCompact (s : Str) : Str := quote escCompactChar s

mutual
/-- `sort_keys=True`: mapping items sorted by key (code points), at every level -/
def sortKeys : JVal → JVal
  | .arr xs => .arr (sortKeysL xs)
  | .obj kvs => .obj (PVal.sortItems (sortKeysO kvs))
  | v => v
def sortKeysL : List JVal → List JVal
  | [] => []
  | x :: r => sortKeys x :: sortKeysL r
def sortKeysO : List (Str × JVal) → List (Str × JVal)
  | [] => []
  | (k, v) :: r => (k, sortKeys v) :: sortKeysO r
end

mutual
/-- the standard library's text for a value whose mappings are in the order given -/
def dumpsRaw : JVal → Str
  | .null => "null".toList
  | .bool true => "true".toList
  | .bool false => "false".toList
  | .num t => t
  | .str s => strStd s
  | .arr xs => '[' :: (dumpsRawL xs ++ [']'])
  | .obj kvs => '{' :: (dumpsRawO kvs ++ ['}'])
def dumpsRawL : List JVal → Str
  | [] => []
  | [x] => dumpsRaw x
  | x :: y :: r => dumpsRaw x ++ ',' :: ' ' :: dumpsRawL (y :: r)
def dumpsRawO : List (Str × JVal) → Str
  | [] => []
  | [(k, v)] => strStd k ++ ':' :: ' ' :: dumpsRaw v
  | (k, v) :: y :: r => strStd k ++ ':' :: ' ' :: dumpsRaw v ++ ',' :: ' ' :: dumpsRawO (y :: r)
end

/-- `json.dumps(v, sort_keys=True)` -/
def dumpsStd (v : JVal) : Str := dumpsRaw (sortKeys v)

mutual
/-- `orjson.dumps(v)`: compact, insertion order -/
def dumpsCompact : JVal → Str
  | .null => "null".toList
  | .bool true => "true".toList
  | .bool false => "false".toList
  | .num t => t
  | .str s => strCompact s
  | .arr xs => '[' :: (dumpsCompactL xs ++ [']'])
  | .obj kvs => '{' :: (dumpsCompactO kvs ++ ['}'])
def dumpsCompactL : List JVal → Str
  | [] => []
  | [x] => dumpsCompact x
  | x :: y :: r => dumpsCompact x ++ ',' :: dumpsCompactL (y :: r)
def dumpsCompactO : List (Str × JVal) → Str
  | [] => []
  | [(k, v)] => strCompact k ++ ':' :: dumpsCompact v
  | (k, v) :: y :: r => strCompact k ++ ':' :: dumpsCompact v ++ ',' :: dumpsCompactO (y :: r)
end

/-- the text `JsonCache.save_value` writes: `json.dump({'key': key, 'value': value}, f)` -/
def entryText (k : Str) (v : JVal) : Str :=
  dumpsCompact (.obj [("key".toList, .str k), ("value".toList, v)])

/-! ### the structural scan every JSON decoder performs

Brackets are counted outside string literals; inside a string a backslash protects the next
character.  A text can only be a complete JSON document if the scan never closes more than it opened
and ends outside any string at depth 0.  (That decoders reject everything else is the assumption
under which `torn_json_never_loads` speaks about `orjson.loads`.) -/

structure Scan where
  depth : Nat
  inStr : Bool
  esc : Bool
deriving DecidableEq, Repr

def scanChar (s : Scan) (c : Char) : Option Scan :=
  if s.inStr then
    if s.esc then some { s with esc := false }
    else if c = '\\' then some { s with esc := true }
    else if c = '"' then some { s with inStr := false }
    else some s
  else if c = '"' then some { s with inStr := true }
  else if c = '{' ∨ c = '[' then some { s with depth := s.depth + 1 }
  else if c = '}' ∨ c = ']' then (if s.depth = 0 then none else some { s with depth := s.depth - 1 })
  else some s

def scan : Scan → Str → Option Scan
  | s, [] => some s
  | s, c :: r => match scanChar s c with
    | none => none
    | some s' => scan s' r

/-- necessary for being a complete JSON document -/
def complete (t : Str) : Bool := !t.isEmpty && scan ⟨0, false, false⟩ t == some ⟨0, false, false⟩

/-- number tokens contain no quote and no bracket (true of everything Python/orjson print for numbers) -/
def tokOK (t : Str) : Bool := t.all (fun c => c != '"' && c != '{' && c != '[' && c != '}' && c != ']')

mutual
def numsOK : JVal → Bool
  | .num t => tokOK t
  | .arr xs => numsOKL xs
  | .obj kvs => numsOKO kvs
  | _ => true
def numsOKL : List JVal → Bool
  | [] => true
  | x :: r => numsOK x && numsOKL r
def numsOKO : List (Str × JVal) → Bool
  | [] => true
  | (_, v) :: r => numsOK v && numsOKO r
end

end TCV.Json
