import TCV.Model.Config
import TCV.Model.Names
import TCV.Model.Key
/-!
# M-Build — chain construction

Mirrors `chain.py`: `Chain._prepare / _create_tasks / _create_task / _process_dependencies /
_expand_tasks / _recreate_tasks_with_parameter_config`, `TaskParameterConfig`, `MultiChain._prepare`,
and `parameter.py: Parameter.set_value` — on the tree **after** repairs F1, F2, F3 (no first-pass
registry in parameter mode, conflict test by identity, namespace prefix test at `::`).
-/
namespace TCV.Build
open TCV TCV.Config TCV.PVal

inductive DType | int | float | str | bool | list | dict | path
deriving DecidableEq, Repr

structure ParamDecl where
  name : Str
  nic : Str                      -- `name_in_config`
  default : Option PVal          -- `none` = required
  dtype : Option DType := none
  ignore : Bool := false
  dpd : Bool := false

inductive InRef where
  | byClass (cid : Str)
  | byName (ref : Str)           -- incl. patterns `~…` / `~~…`

structure InputDecl where
  ref : InRef
  /-- optional input (`InputTaskParameter` with a default): `some d` -/
  default : Option PVal := none

structure ClassDecl where
  cid : Str
  slug : Str                     -- `group:name`
  params : List ParamDecl
  inputs : List InputDecl
  abstract : Bool := false

abbrev Classes := List (Str × ClassDecl)

/-! ## parameters -/

def isIntTok (t : Str) : Bool := (intTok t).isSome
def isBoolTok (t : Str) : Bool := t == "True".toList || t == "False".toList
def isNoneTok (t : Str) : Bool := t == "None".toList

/-- `isinstance(value, dtype)` for JSON-like values (`bool` is an `int` in Python) -/
def typeOk (d : DType) : PVal → Bool
  | .atom t =>
    if isNoneTok t then true                       -- `value is not None and …`
    else match d with
      | .bool => isBoolTok t
      | .int => isBoolTok t || isIntTok t
      | .float => !(isBoolTok t || isIntTok t)
      | _ => false
  | .str _ | .rstr _ _ => d == .str || d == .path
  | .list _ => d == .list
  | .dict _ => d == .dict
  | .obj r => d == .path && isPrefix "PosixPath(".toList r      -- a `Path` object (only a declared default can be one)

/-- `Parameter.set_value` for one declared parameter against the data of ONE config:
the config's value under `name_in_config`, else the default, else an error; then the type check -/
def setParam (p : ParamDecl) (data : Data) : Except Err PVal :=
  match (match get? p.nic data with
         | some v => some v
         | none => p.default) with
  | none => .error .missingParam
  | some v =>
    match p.dtype with
    | some d => if typeOk d v then .ok v else .error .badType
    | none => .ok v

/-- `ParameterRegistry.set_values`: every declared parameter, in declaration order; the first failure aborts -/
def setParams : List ParamDecl → Data → Except Err (List (Str × PVal))
  | [], _ => .ok []
  | p :: ps, data =>
    match setParam p data with
    | .error e => .error e
    | .ok v => match setParams ps data with
      | .error e => .error e
      | .ok r => .ok ((p.name, v) :: r)

/-! ## first pass: tasks of every config -/

/-- a task instance of the first pass -/
structure Task1 where
  full : Str                     -- full name `ns::group:name`
  cls : ClassDecl
  cfgIx : Nat                    -- index of the declaring config in the chain's config list
  ns : Option Str
  params : List (Str × PVal)

def fullName (ns : Option Str) (slug : Str) : Str :=
  match ns with
  | none => slug
  | some n => n ++ ':' :: ':' :: slug

/-- `tasks[name] = task` with Python dict semantics, refusing two different configs for one name -/
def register (t : Task1) : List Task1 → Except Err (List Task1)
  | [] => .ok [t]
  | u :: r =>
    if u.full == t.full then
      if u.cfgIx == t.cfgIx then .ok (t :: r) else .error .conflict
    else match register t r with
      | .error e => .error e
      | .ok r' => .ok (u :: r')

/-- the tasks one config declares: `tasks` entries that are neither abstract nor excluded, in order -/
def addTasks (classes : Classes) (cfg : Cfg) (ix : Nat) : List Str → List Task1 → Except Err (List Task1)
  | [], acc => .ok acc
  | cid :: rest, acc =>
    match get? cid classes with
    | none => .error .notFound
    | some c =>
      if c.abstract || cfg.excluded.contains cid then addTasks classes cfg ix rest acc
      else match setParams c.params cfg.data with
        | .error e => .error e
        | .ok ps =>
          match register { full := fullName cfg.ns c.slug, cls := c, cfgIx := ix, ns := cfg.ns, params := ps } acc with
          | .error e => .error e
          | .ok acc' => addTasks classes cfg ix rest acc'

def createTasksFrom (classes : Classes) : List Cfg → Nat → List Task1 → Except Err (List Task1)
  | [], _, acc => .ok acc
  | cfg :: rest, ix, acc =>
    match addTasks classes cfg ix cfg.tasks acc with
    | .error e => .error e
    | .ok acc' => createTasksFrom classes rest (ix + 1) acc'

/-- `Chain._create_tasks` -/
def createTasks (classes : Classes) (cfgs : List Cfg) : Except Err (List Task1) :=
  createTasksFrom classes cfgs 0 []

/-! ## dependencies -/

/-- `re.fullmatch(pattern, s)` for the supported patterns: a literal, or a literal followed by `.*` -/
def patMatch (pat s : Str) : Bool :=
  match pat.reverse with
  | '*' :: '.' :: r => isPrefix r.reverse s
  | _ => pat == s

def stripTildes : Str → Str
  | '~' :: r => stripTildes r
  | s => s

/-- `Chain._expand_tasks`: a pattern input becomes the (full names of the) matching tasks -/
def expandInputs (inputs : List InputDecl) (names : List Str) (cur : Str) : List InputDecl :=
  let curNs := (Names.splitNs cur).dropLast
  inputs.flatMap (fun i =>
    match i.ref with
    | .byName ('~' :: rest) =>
      let anyNs := match rest with | '~' :: _ => true | _ => false
      let pat := stripTildes rest
      (names.filter (fun n =>
        (anyNs || curNs == (Names.splitNs n).dropLast) && patMatch pat (Names.localOf n))).map
        (fun n => { i with ref := .byName n })
    | _ => [i])

/-- what an input declaration resolves to -/
inductive InVal where
  | task (full : Str)
  | dflt (v : PVal)

def findErr : Names.Err → Err
  | .notFound => .notFound
  | .ambiguous => .ambiguous

/-- the name an input declaration is looked up under: the class's slug or the given name, prefixed with the
declaring task's namespace unless it already starts with `namespace::` -/
def lookupName (classes : Classes) (ns : Option Str) (i : InputDecl) : Except Err (Str × Bool) :=
  let raw : Except Err (Str × Bool) := match i.ref with
    | .byName r => .ok (r, true)
    | .byClass cid => match get? cid classes with
      | some c => .ok (c.slug, false)
      | none => .error .notFound
  match raw with
  | .error e => .error e
  | .ok (raw, byName) =>
    .ok (match ns with
      | some n => if !n.isEmpty && !isPrefix (n ++ [':', ':']) raw then n ++ ':' :: ':' :: raw else raw
      | none => raw, byName)

/-- one step of `Chain._process_dependencies`: resolve one (expanded) input declaration -/
def resolveOne (classes : Classes) (names : List Str) (ns : Option Str) (acc : List (Str × InVal)) (i : InputDecl) :
    Except Err (List (Str × InVal)) :=
  match lookupName classes ns i with
  | .error e => .error e
  | .ok (name, byName) =>
    if acc.any (fun kv => kv.1 == name) then .error .dupInput
    else match Names.findFull name names false with
      | .ok found =>
        -- a by-name reference is replaced by the full name found; a by-class reference keeps its
        -- spelling and the task must exist under exactly that name
        let key := if byName then found else name
        if names.contains key then .ok (set key (.task key) acc)
        else if byName then .error .notFound
        else
          -- a by-class reference found only a task of ANOTHER name (another group's homonym): that is not the class — the input is
          -- absent (repair F18; before it, `tasks[input_task_name]` raised a bare KeyError)
          match i.default with
          | some d => .ok (set name (.dflt d) acc)
          | none => .error .missingInput
      | .error _ =>
        match i.default with
        | some d => .ok (set name (.dflt d) acc)
        | none => .error .missingInput

def resolveAll (classes : Classes) (names : List Str) (ns : Option Str) :
    List InputDecl → List (Str × InVal) → Except Err (List (Str × InVal))
  | [], acc => .ok acc
  | i :: rest, acc => match resolveOne classes names ns acc i with
    | .error e => .error e
    | .ok acc' => resolveAll classes names ns rest acc'

/-- `Chain._process_dependencies` for one task: ordered map input name ↦ task or default -/
def resolveInputs (classes : Classes) (names : List Str) (tname : Str) (cls : ClassDecl) (ns : Option Str) :
    Except Err (List (Str × InVal)) :=
  resolveAll classes names ns (expandInputs cls.inputs names tname) []

/-! ## second pass: keys, sharing, final tasks -/

/-- a task of the built chain -/
structure Task2 where
  full : Str
  cid : Str
  slug : Str
  ns : Option Str
  cfgIx : Nat
  params : List (Str × PVal)
  inputs : List (Str × InVal)
  key : Str
  /-- identity of the task object: objects are shared by `(slug, key)` across the chains of a registry -/
  objId : Nat
  /-- namespace of the config the object was created with (differs from `ns` only for an object shared
  from an earlier chain of a MultiChain that mounted the pipeline elsewhere) -/
  objNs : Option Str
  /-- parameter values the object holds (the creator's; they can differ from `params` only in parameters that do
  not enter the key) -/
  objParams : List (Str × PVal) := []
  /-- class of the object (the creator's; differs from `cid` only when two classes carry one task name) -/
  objCid : Str := []

def toKeyParams (decls : List ParamDecl) (vals : List (Str × PVal)) : List Key.Param :=
  decls.filterMap (fun d => (get? d.name vals).map (fun v =>
    { name := d.name, value := v, default := d.default, ignore := d.ignore, dpd := d.dpd, isPath := d.dtype == some .path }))

/-- the registry of a (Multi)Chain: `(slug, key) ↦ (object id, namespace and parameter values of the config that
created the object)` -/
abbrev Registry := List ((Str × Str) × (Nat × Option Str × List (Str × PVal) × Str))

def regGet (k : Str × Str) : Registry → Option (Nat × Option Str × List (Str × PVal) × Str)
  | [] => none
  | (k', v) :: r => if k'.1 == k.1 && k'.2 == k.2 then some v else regGet k r

/-- `Chain._create_task` with a registry: an object registered under `(slug, key)` is reused, otherwise a new
object (fresh id) is created and registered -/
def assign (reg : Registry) (next : Nat) (k : Str × Str) (ns : Option Str) (ps : List (Str × PVal)) (cid : Str := []) :
    Nat × Option Str × List (Str × PVal) × Registry × Nat × Str :=
  match regGet k reg with
  | some (o, ons, ops, ocid) => (o, ons, ops, reg, next, ocid)
  | none => (next, ns, ps, reg ++ [(k, (next, ns, ps, cid))], next + 1, cid)

structure B2 where
  done : List Task2
  reg : Registry
  next : Nat

/-- `_recreate_tasks_with_parameter_config._get_task`: inputs first (recursion), then key, then registry -/
def recreate (H : Str → Str) (pr : Char → Bool) (t1s : List (Task1 × List (Str × InVal))) :
    Nat → B2 → Str → Except Err B2
  | 0, _, _ => .error .tooDeep
  | fuel + 1, st, name =>
    if st.done.any (fun t => t.full == name) then .ok st
    else match t1s.find? (fun p => p.1.full == name) with
      | none => .error .notFound
      | some (t, ins) =>
        match ins.foldlM (fun s kv => match kv.2 with
                | .task f => recreate H pr t1s fuel s f
                | .dflt _ => .ok s) st with
        | .error e => .error e
        | .ok st1 =>
          let inKeys := ins.filterMap (fun kv => match kv.2 with
            | .task f => (st1.done.find? (fun t => t.full == f)).map (fun t2 => (kv.1, t2.key))
            | .dflt _ => none)
          let key := Key.keyOf H pr (toKeyParams t.cls.params t.params) t.ns inKeys
          let (oid, ons, ops, reg', next', ocid) := assign st1.reg st1.next (t.cls.slug, key) t.ns t.params t.cls.cid
          .ok { done := st1.done ++ [{ full := t.full, cid := t.cls.cid, slug := t.cls.slug, ns := t.ns, cfgIx := t.cfgIx,
                                       params := t.params, inputs := ins, key := key, objId := oid, objNs := ons, objParams := ops, objCid := ocid }],
                reg := reg', next := next' }

structure Chain where
  tasks : List Task2
  reg : Registry
  next : Nat

/-- `Chain(config, shared_tasks=registry)` in parameter mode -/
def build (H : Str → Str) (pr : Char → Bool) (fs : FS) (cfs : CtxFS) (classes : Classes)
    (main : Str) (mainNs : Option Str) (ctxSrc : Option CtxSrc) (reg : Registry) (next : Nat) (fuel : Nat) :
    Except Err Chain := do
  let ctx ← match ctxSrc with
    | none => pure none
    | some s => (prepareCtx cfs fuel s none).map some
  let cfg ← loadCfg fs ctx main mainNs
  let cfgs ← processConfig fs ctx fuel cfg []
  let t1 ← createTasks classes cfgs
  let names := t1.map (·.full)
  let withIns ← t1.mapM (fun t => (resolveInputs classes names t.full t.cls t.ns).map (fun ins => (t, ins)))
  let st ← names.foldlM (fun s n => recreate H pr withIns fuel s n) { done := [], reg := reg, next := next }
  -- the second `_process_dependencies` pass: every task OBJECT resolves its inputs again, in the namespace of the
  -- config it was created with — for an object shared from an earlier chain that is the earlier chain's namespace
  let ins2 ← st.done.mapM (fun t => match get? t.objCid classes with
    | some c => (resolveInputs classes names t.full c t.objNs).map (fun i => (t.objId, i))
    | none => .error .notFound)
  -- an object listed under several names keeps the inputs set last
  let final := st.done.map (fun t => match ins2.reverse.find? (fun p => p.1 == t.objId) with
    | some p => { t with inputs := p.2 }
    | none => t)
  pure { tasks := final, reg := st.reg, next := st.next }

/-- `config.name` of a member's main config (the name the member chain is filed under) -/
def mainName (fs : FS) (main : Str) : Except Err Str :=
  match loadCfg fs none main none with
  | .error e => .error e
  | .ok cfg => .ok cfg.name

/-- `MultiChain._prepare`: `seen` = names of the member chains built so far; a second config with the same name is refused
(`assert config.name not in self.chains`) before its chain is built -/
def buildMultiAux (H : Str → Str) (pr : Char → Bool) (fs : FS) (cfs : CtxFS) (classes : Classes) (fuel : Nat) :
    List (Str × Option CtxSrc) → List Str → Registry → Nat → Except Err (List Chain)
  | [], _, _, _ => .ok []
  | m :: rest, seen, reg, next =>
    match mainName fs m.1 with
    | .error e => .error e
    | .ok nm =>
      if seen.contains nm then .error .dupChain
      else match build H pr fs cfs classes m.1 none m.2 reg next fuel with
        | .error e => .error e
        | .ok c => match buildMultiAux H pr fs cfs classes fuel rest (nm :: seen) c.reg c.next with
          | .error e => .error e
          | .ok cs => .ok (c :: cs)

/-- `MultiChain(configs)`: one registry shared by all chains, in order -/
def buildMulti (H : Str → Str) (pr : Char → Bool) (fs : FS) (cfs : CtxFS) (classes : Classes)
    (mains : List (Str × Option CtxSrc)) (fuel : Nat) : Except Err (List Chain) :=
  match buildMultiAux H pr fs cfs classes fuel mains [] [] 0 with
  | .error e => .error e
  | .ok cs =>
    -- task objects are shared and mutable: an object keeps the input tasks set by the LAST chain that listed it
    let all := cs.flatMap (fun c => c.tasks.map (fun t => (t.objId, t.inputs)))
    .ok (cs.map (fun c => { c with tasks := c.tasks.map (fun t =>
      match all.reverse.find? (fun p => p.1 == t.objId) with
      | some p => { t with inputs := p.2 }
      | none => t) }))

end TCV.Build
