import TCV.Model.Basic
/-!
# M-Conc — `FileCache.get` / `FileCache.get_or_compute` as an interleaving semantics

One key, one cache file, **any number of callers** (`Nat`-indexed), each executing the code of
`cache.py` step by step; a schedule is a list of caller ids.  One model step = one observable action
of the code (the actions the harness turns into scheduling points):

```
get:             acquire ─ exists ─ release ─ [openr → return value | NO_VALUE]
get_or_compute:  acquire ─ exists ─ release ─ [openr → return value]            (present, not forced)
                 … ─ acquire ─ compute ─ openw:tmp ─ write:tmp ─ replace ─ release → return value
```

* the lock is a mutex (parameter: `filelock.FileLock` excludes across threads and processes);
* `load_value` happens **outside** the lock (as in the code);
* values are `Nat`s: the `i`-th successful computation yields `i`, so "`v < fresh`" reads "`v` was
  produced by a computation that has completed";
* a computer may raise (`goc _ true`): the `with lock:` block releases and the call ends `raised`;
* `Mode.atomic` is the code as it is (repair F8: write `tmp_<name>`, then `replace`, an atomic
  rename by assumption); `Mode.inplace` is the protocol before the repair (`open('w')` truncates the
  cache file itself, then writes) — kept to document what the repair bought (`TCV.C15`).

Ghost fields (not in the code, only read by theorems): `late`, `failed`, `ncomp`, `saw`, `returned`.
-/
namespace TCV.Conc

inductive Mode | atomic | inplace
deriving DecidableEq, Repr

/-- what a caller runs: `get`, or `get_or_compute(force=forced)` with a computer that raises or not -/
inductive Kind
  | get
  | goc (forced raises : Bool)
deriving DecidableEq, Repr

/-- outcome of a call: a value, `NO_VALUE`, or the computer's own exception -/
inductive Res
  | val (v : Nat)
  | miss
  | raised
deriving DecidableEq, Repr

/-- content of a file as a reader sees it: not there, there but not (yet) a complete entry
(empty/partially written — `json.load` fails), or the complete entry for value `v` -/
inductive FileSt
  | absent
  | torn
  | entry (v : Nat)
deriving DecidableEq, Repr

/-- `Path.exists()`: an empty or partial file exists -/
def FileSt.present : FileSt → Bool
  | .absent => false
  | _ => true

inductive PC
  | start                  -- before `with lock:` (1st)
  | inL1                   -- lock held, before `filepath.exists()`
  | checked (ex : Bool)    -- lock held, after `exists()`
  | loading                -- lock released, about to `load_value`
  | wantL2                 -- before `with lock:` (2nd)
  | inL2                   -- lock held, before `computer()`
  | computed (v : Nat)     -- lock held, `value` in hand
  | tmpOpen (v : Nat)      -- lock held, `tmp_<name>` opened for writing (truncated)
  | tmpWritten (v : Nat)   -- lock held, `tmp_<name>` complete
  | truncated (v : Nat)    -- (in-place protocol only) lock held, cache file truncated
  | saved (v : Nat)        -- lock held, cache file is the new entry
  | raisedIn               -- lock held, computer raised
  | done (r : Res)
deriving DecidableEq, Repr

structure Th where
  pc : PC
  kind : Kind
  /-- ghost: the caller's first step happened after some call had returned a value -/
  late : Bool
  /-- ghost: a load that was attempted because the file existed did not yield an entry -/
  failed : Bool
  /-- ghost: number of times this caller invoked its computer -/
  ncomp : Nat
  /-- ghost: result of this caller's existence check -/
  saw : Bool

structure St where
  file : FileSt
  tmp : FileSt
  lock : Option Nat
  th : Nat → Th
  /-- number of successful computations so far = the next value -/
  fresh : Nat
  /-- ghost: some call has returned a value -/
  returned : Bool

def upd (s : St) (t : Nat) (x : Th) : Nat → Th := fun u => if u = t then x else s.th u

/-- which program counters hold the lock -/
def holds : PC → Bool
  | .inL1 | .checked _ | .inL2 | .computed _ | .tmpOpen _ | .tmpWritten _ | .truncated _ | .saved _
  | .raisedIn => true
  | _ => false

/-- `if filepath_exists` (get) / `if filepath_exists and not force` (get_or_compute) -/
def wantsLoad : Kind → Bool → Bool
  | .get, ex => ex
  | .goc f _, ex => ex && !f

/-- where a caller goes when it leaves the first `with lock:` block -/
def afterCheck (k : Kind) (ex : Bool) : PC :=
  if wantsLoad k ex then .loading
  else match k with
    | .get => .done .miss
    | .goc _ _ => .wantL2

/-- where a caller goes when `load_value` raised something that is not a `CacheException` -/
def afterLoadFail : Kind → PC
  | .get => .done .miss
  | .goc _ _ => .wantL2

def raises : Kind → Bool
  | .goc _ r => r
  | .get => false

/-- **executable** small step: caller `t` performs its next action; `none` = not enabled
(blocked on the lock, or finished) -/
def step (m : Mode) (s : St) (t : Nat) : Option St :=
  let c := s.th t
  match c.pc with
  | .start =>
    if s.lock = none then
      some { s with lock := some t, th := upd s t { c with pc := .inL1, late := s.returned } }
    else none
  | .inL1 =>
    some { s with th := upd s t { c with pc := .checked s.file.present, saw := s.file.present } }
  | .checked ex =>
    some { s with lock := none, th := upd s t { c with pc := afterCheck c.kind ex } }
  | .loading =>
    match s.file with
    | .entry v => some { s with returned := true, th := upd s t { c with pc := .done (.val v) } }
    | _ => some { s with th := upd s t { c with pc := afterLoadFail c.kind, failed := true } }
  | .wantL2 =>
    if s.lock = none then some { s with lock := some t, th := upd s t { c with pc := .inL2 } }
    else none
  | .inL2 =>
    if raises c.kind then
      some { s with th := upd s t { c with pc := .raisedIn, ncomp := c.ncomp + 1 } }
    else
      some { s with fresh := s.fresh + 1,
                    th := upd s t { c with pc := .computed s.fresh, ncomp := c.ncomp + 1 } }
  | .computed v =>
    match m with
    | .atomic => some { s with tmp := .torn, th := upd s t { c with pc := .tmpOpen v } }
    | .inplace => some { s with file := .torn, th := upd s t { c with pc := .truncated v } }
  | .tmpOpen v => some { s with tmp := .entry v, th := upd s t { c with pc := .tmpWritten v } }
  | .tmpWritten v =>
    some { s with file := s.tmp, tmp := .absent, th := upd s t { c with pc := .saved v } }
  | .truncated v => some { s with file := .entry v, th := upd s t { c with pc := .saved v } }
  | .saved v =>
    some { s with lock := none, returned := true, th := upd s t { c with pc := .done (.val v) } }
  | .raisedIn => some { s with lock := none, th := upd s t { c with pc := .done .raised } }
  | .done _ => none

/-- the same step relation as an inductive proposition (the specification the theorems are about;
`TCV.Conc.step_iff` shows it is exactly `step`) -/
inductive Step (m : Mode) : St → Nat → St → Prop
  | acquire1 (s t) (h : (s.th t).pc = .start) (hl : s.lock = none) :
      Step m s t { s with lock := some t, th := upd s t { (s.th t) with pc := .inL1, late := s.returned } }
  | check (s t) (h : (s.th t).pc = .inL1) :
      Step m s t { s with th := upd s t { (s.th t) with pc := .checked s.file.present, saw := s.file.present } }
  | release1 (s t ex) (h : (s.th t).pc = .checked ex) :
      Step m s t { s with lock := none, th := upd s t { (s.th t) with pc := afterCheck (s.th t).kind ex } }
  | load (s t v) (h : (s.th t).pc = .loading) (hf : s.file = .entry v) :
      Step m s t { s with returned := true, th := upd s t { (s.th t) with pc := .done (.val v) } }
  | loadFail (s t) (h : (s.th t).pc = .loading) (hf : ∀ v, s.file ≠ .entry v) :
      Step m s t { s with th := upd s t { (s.th t) with pc := afterLoadFail (s.th t).kind, failed := true } }
  | acquire2 (s t) (h : (s.th t).pc = .wantL2) (hl : s.lock = none) :
      Step m s t { s with lock := some t, th := upd s t { (s.th t) with pc := .inL2 } }
  | compute (s t) (h : (s.th t).pc = .inL2) (hr : raises (s.th t).kind = false) :
      Step m s t { s with fresh := s.fresh + 1,
                          th := upd s t { (s.th t) with pc := .computed s.fresh, ncomp := (s.th t).ncomp + 1 } }
  | computeRaise (s t) (h : (s.th t).pc = .inL2) (hr : raises (s.th t).kind = true) :
      Step m s t { s with th := upd s t { (s.th t) with pc := .raisedIn, ncomp := (s.th t).ncomp + 1 } }
  | openTmp (s t v) (hm : m = .atomic) (h : (s.th t).pc = .computed v) :
      Step m s t { s with tmp := .torn, th := upd s t { (s.th t) with pc := .tmpOpen v } }
  | writeTmp (s t v) (h : (s.th t).pc = .tmpOpen v) :
      Step m s t { s with tmp := .entry v, th := upd s t { (s.th t) with pc := .tmpWritten v } }
  | replace (s t v) (h : (s.th t).pc = .tmpWritten v) :
      Step m s t { s with file := s.tmp, tmp := .absent, th := upd s t { (s.th t) with pc := .saved v } }
  | truncate (s t v) (hm : m = .inplace) (h : (s.th t).pc = .computed v) :
      Step m s t { s with file := .torn, th := upd s t { (s.th t) with pc := .truncated v } }
  | writeInPlace (s t v) (h : (s.th t).pc = .truncated v) :
      Step m s t { s with file := .entry v, th := upd s t { (s.th t) with pc := .saved v } }
  | release2 (s t v) (h : (s.th t).pc = .saved v) :
      Step m s t { s with lock := none, returned := true, th := upd s t { (s.th t) with pc := .done (.val v) } }
  | releaseRaise (s t) (h : (s.th t).pc = .raisedIn) :
      Step m s t { s with lock := none, th := upd s t { (s.th t) with pc := .done .raised } }

/-- reachability: any number of callers, any interleaving, any length -/
inductive Reach (m : Mode) (s0 : St) : St → Prop
  | refl : Reach m s0 s0
  | step {s s' t} : Reach m s0 s → Step m s t s' → Reach m s0 s'

/-- scheduler-driven run: the callers named by `sched` step in that order; `none` as soon as a
named caller is not enabled (so a successful run is a genuine execution) -/
def run (m : Mode) (s : St) : List Nat → Option St
  | [] => some s
  | t :: rest => match step m s t with
    | none => none
    | some s' => run m s' rest

/-- the action a caller would perform next, under the name the harness gives to the corresponding
scheduling point of the real code -/
inductive Label
  | acquire | exists_ | release | openr | compute | openwTmp | writeTmp | replace
  | openwFinal | writeFinal | none_
deriving DecidableEq, Repr

def label (m : Mode) (p : PC) : Label :=
  match p with
  | .start | .wantL2 => .acquire
  | .inL1 => .exists_
  | .checked _ | .saved _ | .raisedIn => .release
  | .loading => .openr
  | .inL2 => .compute
  | .computed _ => match m with | .atomic => .openwTmp | .inplace => .openwFinal
  | .tmpOpen _ => .writeTmp
  | .tmpWritten _ => .replace
  | .truncated _ => .writeFinal
  | .done _ => .none_

/-- initial states: nobody has started; the cache file is absent or holds a complete entry produced
earlier (`v < fresh`); a stale temp file of any content may be lying around -/
structure Init (s : St) : Prop where
  pcs : ∀ t, (s.th t).pc = .start
  ghosts : ∀ t, (s.th t).late = false ∧ (s.th t).failed = false ∧ (s.th t).ncomp = 0 ∧ (s.th t).saw = false
  lock : s.lock = none
  file : s.file = .absent ∨ ∃ v, s.file = .entry v ∧ v < s.fresh
  ret : s.returned = true → s.file.present = true

/-- the two initial states the harness uses: empty cache, or an entry (value 0) stored earlier -/
def init (kinds : Nat → Kind) (pre : Bool) : St :=
  { file := if pre then .entry 0 else .absent, tmp := .absent, lock := none,
    fresh := if pre then 1 else 0, returned := false,
    th := fun t => { pc := .start, kind := kinds t, late := false, failed := false, ncomp := 0, saw := false } }

end TCV.Conc
