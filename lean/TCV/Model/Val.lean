import TCV.Model.Basic
import TCV.Model.Sort
/-!
# M-Val — parameter values and their representation for persistence

Mirrors `utils/clazz.py: repr_from_instantiation`, `parameter.py: AbstractParameter.value_repr`,
CPython's `repr` of `str` (`unicode_repr`), and Python `==` on JSON-like values as far as
`dont_persist_default_value` needs it.

The text is built *as the code builds it*: plain strings are wrapped in quotes **without escaping**
(finding K1), substituted strings (`ReprStr`) use Python's escaping `repr` of their source text.
-/
namespace TCV

inductive PVal where
  /-- `None`, `True`, `False`, an `int` or a `float`, as the token Python's `repr` prints -/
  | atom (tok : Str)
  /-- a plain `str` -/
  | str (s : Str)
  /-- `ReprStr(val, orig)`: a substituted string; behaves as `val`, represented by `repr(orig)` -/
  | rstr (val orig : Str)
  | list (xs : List PVal)
  /-- a mapping with (plain) string keys, in insertion order -/
  | dict (kvs : List (Str × PVal))
  /-- an object that brings its own representation (`ParameterObject.repr()`, `_taskchain_instantiate_repr`) -/
  | obj (r : Str)

namespace PVal

def q : Char := '\''

/-! ## Python `repr(str)` -/

def hexDigit (n : Nat) : Char := if n < 10 then Char.ofNat (48 + n) else Char.ofNat (87 + n)

/-- `n` as `w` lower-case hex digits (most significant first) -/
def hexN : Nat → Nat → Str
  | 0, _ => []
  | w + 1, n => hexN w (n / 16) ++ [hexDigit (n % 16)]

/-- escape of one character inside quotes `qc`; `printable` is Python's `str.isprintable` table for
non-ASCII characters (a parameter of the model) -/
def escChar (printable : Char → Bool) (qc : Char) (c : Char) : Str :=
  let o := c.toNat
  if c == qc || c == '\\' then ['\\', c]
  else if c == '\t' then ['\\', 't']
  else if c == '\n' then ['\\', 'n']
  else if c == '\r' then ['\\', 'r']
  else if o < 0x20 || o == 0x7f then '\\' :: 'x' :: hexN 2 o
  else if o < 0x7f then [c]
  else if !printable c then
    if o ≤ 0xff then '\\' :: 'x' :: hexN 2 o
    else if o ≤ 0xffff then '\\' :: 'u' :: hexN 4 o
    else '\\' :: 'U' :: hexN 8 o
  else [c]

def escAll (printable : Char → Bool) (qc : Char) : Str → Str
  | [] => []
  | c :: r => escChar printable qc c ++ escAll printable qc r

/-- CPython `unicode_repr`: single quotes unless the text has a `'` and no `"` -/
def pyRepr (printable : Char → Bool) (s : Str) : Str :=
  let qc : Char := if s.contains '\'' && !s.contains '"' then '"' else '\''
  qc :: (escAll printable qc s ++ [qc])

/-! ## `repr_from_instantiation` -/

/-- code-point lexicographic `≤` on strings (Python's `<=` on `str`) -/
def strLe : Str → Str → Bool
  | [], _ => true
  | _ :: _, [] => false
  | a :: as, b :: bs => if a.toNat < b.toNat then true else if b.toNat < a.toNat then false else strLe as bs

def sortItems {β} (kvs : List (Str × β)) : List (Str × β) := isort (fun a b => strLe a.1 b.1) kvs

mutual
/-- the representation of a value *once its mappings are in the order given* -/
def reprRaw (printable : Char → Bool) : PVal → Str
  | .atom t => t
  | .str s => q :: (s ++ [q])
  | .rstr _ o => pyRepr printable o
  | .list xs => '[' :: (reprL printable xs ++ [']'])
  | .dict kvs => '{' :: (reprD printable kvs ++ ['}'])
  | .obj r => r
def reprL (printable : Char → Bool) : List PVal → Str
  | [] => []
  | x :: r => reprRaw printable x ++ reprLT printable r
def reprLT (printable : Char → Bool) : List PVal → Str
  | [] => []
  | x :: r => ',' :: ' ' :: (reprRaw printable x ++ reprLT printable r)
def reprD (printable : Char → Bool) : List (Str × PVal) → Str
  | [] => []
  | (k, v) :: r => q :: (k ++ (q :: ':' :: ' ' :: (reprRaw printable v ++ reprDT printable r)))
def reprDT (printable : Char → Bool) : List (Str × PVal) → Str
  | [] => []
  | (k, v) :: r => ',' :: ' ' :: q :: (k ++ (q :: ':' :: ' ' :: (reprRaw printable v ++ reprDT printable r)))
end

mutual
/-- sort every mapping by key, at every depth (`sorted(obj.items())`) -/
def canon : PVal → PVal
  | .list xs => .list (canonL xs)
  | .dict kvs => .dict (sortItems (canonD kvs))
  | v => v
def canonL : List PVal → List PVal
  | [] => []
  | x :: r => canon x :: canonL r
def canonD : List (Str × PVal) → List (Str × PVal)
  | [] => []
  | (k, v) :: r => (k, canon v) :: canonD r
end

/-- `repr_from_instantiation(obj)` -/
def reprInst (printable : Char → Bool) (v : PVal) : Str := reprRaw printable (canon v)

/-! ## Python `==` (as far as the default test needs it) -/

def isDigit (c : Char) : Bool := '0' ≤ c && c ≤ '9'

def digitsVal : Str → Nat → Option Nat
  | [], acc => some acc
  | c :: r, acc => if isDigit c then digitsVal r (acc * 10 + (c.toNat - 48)) else none

def natTok (s : Str) : Option Nat := if s.isEmpty then none else digitsVal s 0

def intTok : Str → Option Int
  | '-' :: r => (natTok r).map (fun n => - (n : Int))
  | s => (natTok s).map (fun n => (n : Int))

/-- strip a trailing `.0` -/
def stripDot0 (s : Str) : Option Str :=
  match s.reverse with
  | '0' :: '.' :: r => some r.reverse
  | _ => none

/-- the integer a numeric token denotes, for `True/False`, ints and integral floats printed without
exponent (`12.0`, `-0.0`); other floats are compared by token -/
def atomNum (t : Str) : Option Int :=
  if t == "True".toList then some 1
  else if t == "False".toList then some 0
  else match intTok t with
    | some n => some n
    | none => match stripDot0 t with
      | some r => intTok r
      | none => none

def atomEq (a b : Str) : Bool :=
  if a == b then a != "nan".toList
  else match atomNum a, atomNum b with
    | some x, some y => x == y
    | _, _ => false

def lookup {β} (k : Str) : List (Str × β) → Option β
  | [] => none
  | (k', v) :: r => if k' == k then some v else lookup k r

mutual
/-- Python `a == b` on model values -/
def pyEq : PVal → PVal → Bool
  | .atom a, .atom b => atomEq a b
  | .str a, .str b => a == b
  | .str a, .rstr b _ => a == b
  | .rstr a _, .str b => a == b
  | .rstr a _, .rstr b _ => a == b
  | .list xs, .list ys => pyEqL xs ys
  | .dict xs, .dict ys => xs.length == ys.length && pyEqD xs ys
  | .obj a, .obj b => a == b
  | _, _ => false
def pyEqL : List PVal → List PVal → Bool
  | [], [] => true
  | x :: xs, y :: ys => pyEq x y && pyEqL xs ys
  | _, _ => false
/-- every item of the first mapping has an equal item in the second -/
def pyEqD : List (Str × PVal) → List (Str × PVal) → Bool
  | [], _ => true
  | (k, v) :: r, ys => (match lookup k ys with
      | some w => pyEq v w
      | none => false) && pyEqD r ys
end

end PVal
end TCV
