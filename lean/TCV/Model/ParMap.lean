import TCV.Model.Sort
/-!
# M-ParMap — `utils/iter.chunked`, `utils/threading.parallel_map`, `utils/iter.parallel_map`

The thread pool is replaced by a parameter: for every chunk the *completion order* of its workers
(a list of in-chunk indices).  `f` may raise (`Except`).
-/
namespace TCV.ParMap

/-- `chunked(iterable, chunksize)`: the loop of the code, `acc` is `result` (reversed), `n` is
`result_size`.  With `c = 0` the size test never fires and everything ends in one chunk — as in the
code. -/
def chunkedAux {α} (c : Nat) : List α → List α → Nat → List (List α)
  | [], acc, n => if n > 0 then [acc.reverse] else []
  | x :: xs, acc, n =>
    if n + 1 = c then (x :: acc).reverse :: chunkedAux c xs [] 0
    else chunkedAux c xs (x :: acc) (n + 1)

def chunked {α} (xs : List α) (c : Nat) : List (List α) := chunkedAux c xs [] 0

/-- what `_fun(i, arg)` returns from a worker, or the exception it raised -/
abbrev Tagged (ε β : Type) := Except ε (Nat × β)

/-- the loop `for output_value in as_completed(futures): result.append(await output_value)`:
results are appended in completion order; the first failed future seen raises. -/
def collect {ε β} : List (Tagged ε β) → Except ε (List (Nat × β))
  | [] => .ok []
  | .error e :: _ => .error e
  | .ok r :: rest => match collect rest with
    | .error e => .error e
    | .ok rs => .ok (r :: rs)

/-- `sorted(chunk_result, key=lambda ires: ires[0])` (a stable sort on the index) -/
def sortByIndex {β} (rs : List (Nat × β)) : List (Nat × β) :=
  isort (fun a b => decide (a.1 ≤ b.1)) rs

/-- one chunk: every element is submitted with its in-chunk index; `order` is the completion order -/
def runChunk {α ε β} (f : α → Except ε β) (chunk : List α) (order : List Nat) (sort : Bool) :
    Except ε (List β) :=
  let futures : List (Tagged ε β) :=
    order.filterMap (fun i => (chunk[i]?).map (fun x => (f x).map (fun y => (i, y))))
  match collect futures with
  | .error e => .error e
  | .ok rs => .ok ((if sort then sortByIndex rs else rs).map (·.2))

/-- sequential `[fun(v) for v in iterable]` -/
def mapE {α ε β} (f : α → Except ε β) : List α → Except ε (List β)
  | [] => .ok []
  | x :: xs => match f x with
    | .error e => .error e
    | .ok y => match mapE f xs with
      | .error e => .error e
      | .ok ys => .ok (y :: ys)

def runChunks {α ε β} (f : α → Except ε β) (sort : Bool) (orders : Nat → List Nat) :
    Nat → List (List α) → Except ε (List β)
  | _, [] => .ok []
  | k, ch :: rest => match runChunk f ch (orders k) sort with
    | .error e => .error e
    | .ok ys => match runChunks f sort orders (k + 1) rest with
      | .error e => .error e
      | .ok zs => .ok (ys ++ zs)

/-- `utils/threading.parallel_map(fun, iterable, threads, sort, chunksize)` -/
def parallelMap {α ε β} (f : α → Except ε β) (xs : List α) (threads c : Nat) (sort : Bool)
    (orders : Nat → List Nat) : Except ε (List β) :=
  if threads = 1 then mapE f xs else runChunks f sort orders 0 (chunked xs c)

/-- the older `utils/iter.parallel_map`: one chunk, always sorted -/
def parallelMapOld {α ε β} (f : α → Except ε β) (xs : List α) (threads : Nat)
    (order : List Nat) : Except ε (List β) :=
  if threads = 1 then mapE f xs else runChunk f xs order true

end TCV.ParMap
