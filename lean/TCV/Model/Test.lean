import TCV.Model.Basic
/-!
# M-Test — `utils/testing.py: TestChain, create_test_task, MockTask`

Two parts.

**Construction** (`build`): `TestChain(tasks, mock_tasks, parameters)` instantiates the given classes
with the config `Config(base_dir, name='test', data=parameters)`, adds one `MockTask(value)` per
entry of `mock_tasks` (overriding a task of the same name), then resolves inputs
(`_process_dependencies`, first pass only: the helper never switches to parameter mode).  A required
parameter without value raises while the tasks are created, a required input that is neither a task
nor a mock raises while dependencies are processed; optional inputs that are absent get their
default — modelled as a value-only node, like a mock.

**Evaluation** (`value`): the lazy pull machine of `Task.data` over the constructed universe.
A mock is a value-only object: asking for its value returns it and touches nothing (`MockTask.value`
overrides the property; its data class is `InMemoryData`).  A real task is served from memory, else —
when persisting — from the store under its location, else its inputs are pulled in use order, `run`
is invoked and the result is stored.  In the helper the location of a task is
`<base_dir>/<slug>/test.<ext>` (name mode, config name `test`), so it does **not** depend on mocks
or parameters (finding K4); in a real (parameter-mode) chain it is the key-derived location.

The task function `f i args` (node `i` applied to the values of its inputs in use order — class,
received parameters with defaults and defaults of absent inputs are part of `i`) is universally
quantified in the theorems.
-/
namespace TCV
namespace TestM

/-! ## evaluation -/

inductive Node (V : Type) where
  /-- `MockTask(value)` or the default of an absent optional input -/
  | mock (v : V)
  /-- a real task object: storage location, whether its data class persists, inputs in use order -/
  | task (loc : Nat) (persist : Bool) (used : List Nat)

structure St (V : Type) where
  store : Nat → Option V
  mem : Nat → Option V
  runs : List Nat

def upd {α} (g : Nat → α) (k : Nat) (v : α) : Nat → α := fun x => if x = k then v else g x

variable {V : Type}

/-- pull a list of inputs in order with a given single-node evaluator; stops at the first failure -/
def listWith (val : St V → Nat → St V × Option V) : St V → List Nat → St V × Option (List V)
  | s, [] => (s, some [])
  | s, j :: js =>
    match val s j with
    | (s', none) => (s', none)
    | (s', some v) =>
      match listWith val s' js with
      | (s'', none) => (s'', none)
      | (s'', some vs) => (s'', some (v :: vs))

/-- `task.value` with fuel (out of fuel = Python's recursion limit) -/
def value (U : Nat → Node V) (f : Nat → List V → V) : Nat → St V → Nat → St V × Option V
  | 0, s, _ => (s, none)
  | fuel + 1, s, i =>
    match U i with
    | .mock v => (s, some v)
    | .task loc persist used =>
      match s.mem i with
      | some v => (s, some v)
      | none =>
        match (if persist then s.store loc else none) with
        | some v => ({ s with mem := upd s.mem i (some v) }, some v)
        | none =>
          match listWith (value U f fuel) s used with
          | (s', none) => (s', none)
          | (s', some as) =>
            let v := f i as
            ({ store := if persist then upd s'.store loc (some v) else s'.store,
               mem := upd s'.mem i (some v), runs := s'.runs ++ [i] }, some v)

def isMock (U : Nat → Node V) (i : Nat) : Bool :=
  match U i with
  | .mock _ => true
  | .task _ _ _ => false

def usedOf (U : Nat → Node V) (i : Nat) : List Nat :=
  match U i with
  | .mock _ => []
  | .task _ _ used => used

/-- the storage location a persisting real task writes to -/
def locOf (U : Nat → Node V) (i : Nat) : Option Nat :=
  match U i with
  | .task loc true _ => some loc
  | _ => none

/-- the real chain that corresponds to a helper chain: every mock becomes a task without inputs
(a constant), locations are the key-derived ones `rloc` -/
def realOf (U : Nat → Node V) (rloc : Nat → Nat) : Nat → Node V := fun i =>
  match U i with
  | .mock _ => .task (rloc i) true []
  | .task _ persist used => .task (rloc i) persist used

/-- the task functions of the real chain: constants for the former mocks -/
def realF (U : Nat → Node V) (f : Nat → List V → V) : Nat → List V → V := fun i as =>
  match U i with
  | .mock v => v
  | .task _ _ _ => f i as

def emptySt : St V := { store := fun _ => none, mem := fun _ => none, runs := [] }

/-! ## construction -/

/-- a declared parameter or input: name, optional default and — for a parameter — the key under
which its value is looked up in the config (`Parameter.name_in_config`, the name unless declared
otherwise; unused for inputs) -/
structure Decl (V : Type) where
  name : Str
  default : Option V
  key : Str := name

structure Cls (V : Type) where
  slug : Str
  params : List (Decl V)
  /-- inputs in use order, by the full name they resolve to -/
  inputs : List (Decl V)
  persist : Bool

inductive Err where
  | missingParam (task param : Str)
  | missingInput (task input : Str)
deriving DecidableEq, Repr

def lookupS {β} (k : Str) : List (Str × β) → Option β
  | [] => none
  | (k', v) :: r => if k' = k then some v else lookupS k r

/-- how an input is bound -/
inductive Bind (V : Type) where
  | node (name : Str)      -- a task or mock of the chain
  | const (v : V)          -- absent optional input: its default

/-- all-or-first-error traversal -/
def collect {α β} (h : α → Except Err β) : List α → Except Err (List β)
  | [] => .ok []
  | a :: r => match h a with
    | .error e => .error e
    | .ok b => match collect h r with
      | .ok l => .ok (b :: l)
      | .error e => .error e

/-- the value a parameter receives: from `parameters` (under its `name_in_config`), else its default -/
def paramValue (given : List (Str × V)) (d : Decl V) : Option V :=
  match lookupS d.key given with
  | some v => some v
  | none => d.default

/-- what an input is bound to: a task or mock of that name, else its default -/
def inputBind (names : List Str) (d : Decl V) : Option (Bind V) :=
  if names.contains d.name then some (.node d.name) else d.default.map .const

/-- `ParameterRegistry.set_values` -/
def resolveParams (task : Str) (given : List (Str × V)) (ds : List (Decl V)) : Except Err (List (Str × V)) :=
  collect (fun d => match paramValue given d with
    | some v => .ok (d.name, v)
    | none => .error (.missingParam task d.name)) ds

/-- `_process_dependencies` for one task: `names` = names of all tasks and mocks of the chain -/
def resolveInputs (task : Str) (names : List Str) (ds : List (Decl V)) : Except Err (List (Bind V)) :=
  collect (fun d => match inputBind names d with
    | some b => .ok b
    | none => .error (.missingInput task d.name)) ds

def allParams (given : List (Str × V)) (cs : List (Cls V)) : Except Err (List (List (Str × V))) :=
  collect (fun c => resolveParams c.slug given c.params) cs

def allInputs (names : List Str) (cs : List (Cls V)) : Except Err (List (List (Bind V))) :=
  collect (fun c => resolveInputs c.slug names c.inputs) cs

/-- tasks whose name is also mocked are replaced by the mock (`tasks[name] = MockTask(value)`) -/
def effective (tasks : List (Cls V)) (mocks : List (Str × V)) : List (Cls V) :=
  tasks.filter (fun c => (lookupS c.slug mocks).isNone)

/-- the constructed helper chain: received parameters and input bindings of every real task -/
structure Built (V : Type) where
  tasks : List (Cls V)
  params : List (List (Str × V))
  binds : List (List (Bind V))
  mocks : List (Str × V)

/-- `TestChain.__init__`: all tasks are instantiated first (parameter errors), mocks are added, then
dependencies are processed for the tasks that are not overridden by a mock -/
def build (tasks : List (Cls V)) (mocks : List (Str × V)) (given : List (Str × V)) : Except Err (Built V) :=
  match allParams given tasks with
  | .error e => .error e
  | .ok _ =>
    let eff := effective tasks mocks
    let names := tasks.map (·.slug) ++ mocks.map (·.1)
    match allInputs names eff with
    | .error e => .error e
    | .ok bs =>
      match allParams given eff with
      | .error e => .error e
      | .ok ps' => .ok { tasks := eff, params := ps', binds := bs, mocks := mocks }

end TestM
end TCV
