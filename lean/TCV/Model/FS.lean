import TCV.Model.Basic
/-!
# M-FS / M-Crash — file protocols of the data classes (`data.py`, the `try/except` of `Task.data`)

A storage location has a fixed set of *path roles*; every role holds a *node*.  The code acts on
the nodes through a handful of primitives; what one request of a value does to the location is a
*protocol*: a list of guarded primitives (the guards are the `if path.exists()` tests of the code).
A crash may happen before any primitive and in the middle of the non-atomic ones.

Values are abstract (`V`): what bytes a serializer writes is a parameter, not modelled here.
-/
namespace TCV.FS

/-- `<key>.<ext>` or `<key>/` · `<key>_tmp[.<ext>]` · `<key>_old` · `<key>_error` · `<key>.log` ·
`<key>.run_info.yaml` -/
inductive Role | final | tmp | old | error | log | runinfo
  deriving DecidableEq, Repr

inductive FileC (V : Type) | complete (v : V) | torn | empty
  deriving DecidableEq, Repr
inductive DirC (V : Type) | complete (v : V) | part
  deriving DecidableEq, Repr
inductive Node (V : Type) | absent | file (c : FileC V) | dir (d : DirC V)
  deriving DecidableEq, Repr

variable {V : Type}

def Node.present : Node V → Bool
  | .absent => false
  | _ => true
def Node.isFile : Node V → Bool
  | .file _ => true
  | _ => false
def Node.isDir : Node V → Bool
  | .dir _ => true
  | _ => false

abbrev State (V : Type) := Role → Node V

def State.set (s : State V) (r : Role) (n : Node V) : State V := fun r' => if r' = r then n else s r'

/-- the file-system calls the data classes make -/
inductive Prim (V : Type)
  | openTrunc (r : Role)            -- `open(path, 'w')`: creates or truncates, atomic
  | writeAll (r : Role) (v : V)     -- all bytes of a file / all entries of a directory, NOT atomic
  | writePart (r : Role)            -- a write that raises in the middle (exception exit, not a crash)
  | rename (a b : Role)             -- `os.rename` / `Path.rename`, atomic
  | move (a b : Role)               -- `shutil.move` on one file system: `os.rename`, into `b` if `b` is a directory
  | rmtree (r : Role)               -- `shutil.rmtree`, NOT atomic
  | mkdir (r : Role)
  | unlink (r : Role)
  deriving DecidableEq, Repr

inductive Err | oserror
  deriving DecidableEq, Repr

/-- complete execution of one primitive; `.error` = the call raises `OSError` -/
def step : Prim V → State V → Except Err (State V)
  | .openTrunc r, s =>
    match s r with
    | .dir _ => .error .oserror
    | _ => .ok (s.set r (.file .empty))
  | .writeAll r v, s =>
    match s r with
    | .file _ => .ok (s.set r (.file (.complete v)))
    | .dir _ => .ok (s.set r (.dir (.complete v)))
    | .absent => .error .oserror
  | .writePart r, s =>
    match s r with
    | .file _ => .ok (s.set r (.file .torn))
    | .dir _ => .ok (s.set r (.dir .part))
    | .absent => .error .oserror
  | .rename a b, s =>
    if a = b then .ok s else
    match s a, s b with
    | .absent, _ => .error .oserror
    | _, .dir _ => .error .oserror            -- non-empty directory / is a directory
    | .dir _, .file _ => .error .oserror      -- not a directory
    | n, _ => .ok ((s.set b n).set a .absent)
  | .move a b, s =>
    if a = b then .ok s else
    match s a, s b with
    | .absent, _ => .error .oserror
    | _, .dir _ => .ok ((s.set b (.dir .part)).set a .absent)   -- moved *into* the existing directory
    | .dir _, .file _ => .error .oserror
    | n, _ => .ok ((s.set b n).set a .absent)
  | .rmtree r, s =>
    match s r with
    | .dir _ => .ok (s.set r .absent)
    | _ => .error .oserror
  | .mkdir r, s =>
    match s r with
    | .absent => .ok (s.set r (.dir .part))   -- an empty directory is not yet a result
    | _ => .error .oserror
  | .unlink r, s =>
    match s r with
    | .file _ => .ok (s.set r .absent)
    | _ => .error .oserror

/-- the states a crash *inside* the primitive can leave (none for the atomic ones) -/
def half : Prim V → State V → List (State V)
  | .writeAll r _, s | .writePart r, s =>
    match s r with
    | .file _ => [s.set r (.file .torn)]
    | .dir _ => [s.set r (.dir .part)]
    | .absent => []
  | .rmtree r, s =>
    match s r with
    | .dir _ => [s.set r (.dir .part)]
    | _ => []
  | _, _ => []

/-- `if path.exists():` / `if not path.exists():` in front of a call -/
inductive Guard | always | ifExists (r : Role) | ifAbsent (r : Role)
  deriving DecidableEq, Repr

def Guard.holds : Guard → State V → Bool
  | .always, _ => true
  | .ifExists r, s => (s r).present
  | .ifAbsent r, s => !(s r).present

structure GPrim (V : Type) where
  guard : Guard
  prim : Prim V
  deriving DecidableEq, Repr

abbrev Proto (V : Type) := List (GPrim V)

def gstep (g : GPrim V) (s : State V) : Except Err (State V) :=
  if g.guard.holds s then step g.prim s else .ok s

def ghalf (g : GPrim V) (s : State V) : List (State V) :=
  if g.guard.holds s then half g.prim s else []

/-- uninterrupted execution -/
def run : Proto V → State V → Except Err (State V)
  | [], s => .ok s
  | g :: gs, s =>
    match gstep g s with
    | .ok s' => run gs s'
    | .error e => .error e

/-- the primitives that actually execute (what an observer of system calls sees) -/
def trace : Proto V → State V → List (Prim V)
  | [], _ => []
  | g :: gs, s =>
    match gstep g s with
    | .ok s' => if g.guard.holds s then g.prim :: trace gs s' else trace gs s'
    | .error _ => [g.prim]

/-- the states the location can be left in if the process dies while the `k`-th element of the
protocol is being executed: not started, or half-done.  `k ≥ length`: it ran to the end. -/
def crashAt : Nat → Proto V → State V → List (State V)
  | _, [], s => [s]
  | 0, g :: _, s => s :: ghalf g s
  | k + 1, g :: gs, s =>
    match gstep g s with
    | .ok s' => crashAt k gs s'
    | .error _ => []

/-- all of them, for every crash point -/
def crashStates : Proto V → State V → List (State V)
  | [], s => [s]
  | g :: gs, s =>
    s :: ghalf g s ++
      (match gstep g s with
       | .ok s' => crashStates gs s'
       | .error _ => [])

/-! ## the data classes -/

inductive Kind | json | numpy | pandas | figure | generated | generatedLazy | listNumpy | dirData | continues
  deriving DecidableEq, Repr

/-- the result is a directory -/
def Kind.isDir : Kind → Bool
  | .listNumpy | .dirData | .continues => true
  | _ => false

def always (p : Prim V) : GPrim V := ⟨.always, p⟩

/-- `_remove_dir(path)`.  The second `rmtree` stands inside `if path.exists():`; as `<key>_old` is
absent after the first call, "`old` exists" after the guarded rename is the same test. -/
def removeDir : Proto V :=
  [⟨.ifExists .old, .rmtree .old⟩, ⟨.ifExists .final, .rename .final .old⟩, ⟨.ifExists .old, .rmtree .old⟩]

/-- `_replace_dir(tmp_path, path)` -/
def replaceDir : Proto V := removeDir ++ [always (.move .tmp .final)]

/-- `init_persistence` (the `mkdir` of the task directory itself is not modelled) -/
def initP : Kind → Proto V
  | .dirData => [⟨.ifExists .tmp, .rmtree .tmp⟩, always (.mkdir .tmp)]
  | .continues => [⟨.ifAbsent .tmp, .mkdir .tmp⟩]
  | _ => []

/-- `get_log_handler`: `FileHandler(log_path, mode='w')` -/
def logP : Proto V := [always (.openTrunc .log)]

/-- `_finish_run_info` → `save_run_info`: `run_info_path.open('w')` -/
def infoP : Proto V := [always (.openTrunc .runinfo)]

/-- what `run` itself does to the location: directory tasks fill their work directory; a resumable
task may call `finished()` -/
def runP : Kind → V → Bool → Proto V
  | .dirData, v, _ => [always (.writeAll .tmp v)]
  | .continues, v, fin => always (.writeAll .tmp v) :: (if fin then replaceDir else [])
  | _, _, _ => []

/-- `save()` -/
def saveP : Kind → V → Proto V
  | .listNumpy, v =>
    [⟨.ifExists .tmp, .rmtree .tmp⟩, always (.mkdir .tmp), always (.writeAll .tmp v)] ++ replaceDir
  | .dirData, _ => replaceDir
  | .continues, _ => []
  | _, v => [always (.openTrunc .tmp), always (.writeAll .tmp v), always (.move .tmp .final)]

/-- `on_run_error()` -/
def errP : Kind → Proto V
  | .dirData => [⟨.ifExists .error, .rmtree .error⟩, always (.move .tmp .error)]
  | _ => []

/-- `delete()` -/
def deleteP : Kind → Proto V
  | .listNumpy | .dirData => removeDir
  | .continues => removeDir ++ [⟨.ifExists .tmp, .rmtree .tmp⟩]   -- guarded since repo commit 5f773a7
  | _ => [always (.unlink .final)]

/-- where a request can leave through the `except` branch of `Task.data` -/
inductive Fault
  | none
  | run                      -- `run` raises before it touched the location
  | runMid                   -- `run` of a directory task raises after writing part of its files
  | genBody                  -- the body of the returned generator raises
  | typeCheck                -- `run` returns a value of the wrong type
  | serialise (wrote : Bool) -- the serializer raises (after writing part of the file or not)
  deriving DecidableEq, Repr

/-- what the request does up to the raise point (after `init_persistence` and the log handler) -/
def faultBody : Kind → V → Bool → Fault → Proto V
  | K, v, fin, .none => runP K v fin ++ saveP K v ++ infoP
  | _, _, _, .run => []
  | .dirData, _, _, .runMid | .continues, _, _, .runMid => [always (.writePart .tmp)]
  | _, _, _, .runMid => []
  | .generatedLazy, _, _, .genBody => [always (.openTrunc .tmp), always (.writePart .tmp)]
  | _, _, _, .genBody => []          -- `GeneratedData.set_value` consumes the generator before `save`
  | K, v, fin, .typeCheck => runP K v fin
  | .listNumpy, _, _, .serialise _ =>
    [⟨.ifExists .tmp, .rmtree .tmp⟩, always (.mkdir .tmp), always (.writePart .tmp)]
  | .dirData, v, fin, .serialise _ => runP .dirData v fin       -- nothing is serialised: as `typeCheck`
  | .continues, v, fin, .serialise _ => runP .continues v fin
  | _, _, _, .serialise w => always (.openTrunc .tmp) :: (if w then [always (.writePart .tmp)] else [])

/-- the `else` branch of `Task.data`: compute, store; on an exception `on_run_error` -/
def computeP (K : Kind) (v : V) (fin : Bool) (f : Fault) : Proto V :=
  logP ++ faultBody K v fin f ++ (match f with | .none => [] | _ => errP K)

/-- is the stored result used?  (`self._data.exists() and not self._forced`) -/
def loads (forced : Bool) (s : State V) : Bool := (s .final).present && !forced

/-- one request of `Task.data` on a task object without data: the data object is created and
`init_persistence` runs in every case; then load, or compute. -/
def requestP (K : Kind) (v : V) (fin : Bool) (f : Fault) (forced : Bool) (s : State V) : Proto V :=
  initP K ++ (if loads forced s then [] else computeP K v fin f)

/-- what a (complete) result of kind `K` looks like -/
def completeNode (K : Kind) (v : V) : Node V :=
  if K.isDir then .dir (.complete v) else .file (.complete v)

/-- content of a node as `load` returns it; `none`: absent, or the reader fails / yields garbage -/
def Node.value? : Node V → Option V
  | .file (.complete v) => some v
  | .dir (.complete v) => some v
  | _ => none

structure Outcome (V : Type) where
  state : State V
  /-- `some v`: the request returned `v`; `none`: it raised and `_data` was reset to `None` -/
  ret : Option V
  /-- `run` was invoked -/
  ran : Bool

/-- the value the computing branch hands back: the value `run` produced; for a resumable task that
did not call `finished()` it is its work directory -/
def request (K : Kind) (v : V) (fin : Bool) (f : Fault) (forced : Bool) (s : State V) :
    Except Err (Outcome V) :=
  match run (requestP K v fin f forced s) s with
  | .error e => .error e
  | .ok t =>
    if loads forced s then .ok ⟨t, (t .final).value?, false⟩
    else if f = .none then .ok ⟨t, some v, true⟩
    else .ok ⟨t, none, true⟩

/-- `Task.has_data` on a fresh task object: `_data_without_value` creates the data object and runs
`init_persistence`, then `exists()` -/
def hasData (K : Kind) (s : State V) : Except Err (State V × Bool) :=
  match run (initP K) s with
  | .error e => .error e
  | .ok t => .ok (t, (t .final).present)

end TCV.FS
