import TCV.Model.Basic
/-!
# M-Names — task full names and their resolution

Mirrors `task.py: _find_task_full_name` (after repair F4), used by `Chain.get/__contains__`,
`InputTasks.get/__contains__` and `Chain._process_dependencies`.  Strings are `List Char`.
-/
namespace TCV

namespace Names

/-- Python `s.split('::')`: leftmost, non-overlapping.  `cur` is the current piece, reversed. -/
def splitNsAux : Str → Str → List Str
  | [], cur => [cur.reverse]
  | ':' :: ':' :: r, cur => cur.reverse :: splitNsAux r []
  | c :: r, cur => splitNsAux r (c :: cur)

def splitNs (s : Str) : List Str := splitNsAux s []

/-- Python `s.split(':')` -/
def splitColonAux : Str → Str → List Str
  | [], cur => [cur.reverse]
  | ':' :: r, cur => cur.reverse :: splitColonAux r []
  | c :: r, cur => splitColonAux r (c :: cur)

def splitColon (s : Str) : List Str := splitColonAux s []

/-- Python `'::'.join(parts)` -/
def joinNs : List Str → Str
  | [] => []
  | [p] => p
  | p :: q :: r => p ++ ':' :: ':' :: joinNs (q :: r)

/-- `'::'.join(s.split('::')[:-1])` -/
def nsOf (s : Str) : Str := joinNs (splitNs s).dropLast
/-- `s.split('::')[-1]` -/
def localOf (s : Str) : Str := (splitNs s).getLast?.getD []
/-- `s.split(':')[-1]` -/
def lastColon (s : Str) : Str := (splitColon s).getLast?.getD []

/-- `_task_name_match(name, fullname)` -/
def nameMatch (determineNs : Bool) (name full : Str) : Bool :=
  let ns := nsOf name
  let fns := nsOf full
  if (!ns.isEmpty || !determineNs) && fns != ns then false
  else
    let n := localOf name
    let f := localOf full
    if f == n then true
    else if f.contains ':' && !n.contains ':' then lastColon f == n
    else false

/-- `t == cand or t.endswith(':' + cand)` -/
def lessNestedOf (cand t : Str) : Bool := t == cand || (':' :: cand).isSuffixOf t

inductive Err | notFound | ambiguous
deriving DecidableEq, Repr

/-- `_find_task_full_name(task_name, tasks, determine_namespace)` -/
def findFull (q : Str) (names : List Str) (determineNs : Bool := true) : Except Err Str :=
  let ms := names.filter (nameMatch determineNs q)
  match ms with
  | [] => .error .notFound
  | [m] => .ok m
  | _ =>
    if ms.contains q then .ok q
    else match ms.find? (fun cand => ms.all (lessNestedOf cand)) with
      | some cand => .ok cand
      | none => .error .ambiguous

end Names
end TCV
