import TCV.Model.Basic
/-!
# M-Names — task full names and their resolution

Mirrors `task.py: _find_task_full_name` (after repair F4), used by `Chain.get/__contains__`,
`InputTasks.get/__contains__` and `Chain._process_dependencies`.  Strings are `List Char`.
-/
namespace TCV

namespace Names

/-- Python `s.split('::')`: leftmost, non-overlapping.  `cur` is the current piece, reversed. -/
def splitNsAux : Str → Str → List Str
  | [], cur => [cur.reverse]
  | ':' :: ':' :: r, cur => cur.reverse :: splitNsAux r []
  | c :: r, cur => splitNsAux r (c :: cur)

def splitNs (s : Str) : List Str := splitNsAux s []

/-- Python `s.split(':')` -/
def splitColonAux : Str → Str → List Str
  | [], cur => [cur.reverse]
  | ':' :: r, cur => cur.reverse :: splitColonAux r []
  | c :: r, cur => splitColonAux r (c :: cur)

def splitColon (s : Str) : List Str := splitColonAux s []

/-- Python `'::'.join(parts)` -/
def joinNs : List Str → Str
  | [] => []
  | [p] => p
  | p :: q :: r => p ++ ':' :: ':' :: joinNs (q :: r)

/-- `'::'.join(s.split('::')[:-1])` -/
def nsOf (s : Str) : Str := joinNs (splitNs s).dropLast
/-- `s.split('::')[-1]` -/
def localOf (s : Str) : Str := (splitNs s).getLast?.getD []
/-- `s.split(':')[-1]` -/
def lastColon (s : Str) : Str := (splitColon s).getLast?.getD []

/-- `_task_name_match(name, fullname)` -/
def nameMatch (determineNs : Bool) (name full : Str) : Bool :=
  let ns := nsOf name
  let fns := nsOf full
  if (!ns.isEmpty || !determineNs) && fns != ns then false
  else
    let n := localOf name
    let f := localOf full
    if f == n then true
    else if f.contains ':' && !n.contains ':' then lastColon f == n
    else false

/-- `t == cand or t.endswith(':' + cand)` -/
def lessNestedOf (cand t : Str) : Bool := t == cand || (':' :: cand).isSuffixOf t

inductive Err | notFound | ambiguous
deriving DecidableEq, Repr

/-- `_find_task_full_name(task_name, tasks, determine_namespace)` -/
def findFull (q : Str) (names : List Str) (determineNs : Bool := true) : Except Err Str :=
  let ms := names.filter (nameMatch determineNs q)
  match ms with
  | [] => .error .notFound
  | [m] => .ok m
  | _ =>
    if ms.contains q then .ok q
    else match ms.find? (fun cand => ms.all (lessNestedOf cand)) with
      | some cand => .ok cand
      | none => .error .ambiguous

/-! ## the task name derived from a class name (`MetaTask.slugname` without `Meta.name`)

`re.sub(r'(?<!^)(?=[A-Z])', '_', cls.__name__).lower()`, then a trailing `_task` is removed.  (`[A-Z]` is ASCII; class
names in the model's domain are ASCII identifiers, so `lower()` is ASCII lower-casing.) -/

def isUpperA (c : Char) : Bool := 'A'.toNat ≤ c.toNat && c.toNat ≤ 'Z'.toNat
def lowerA (c : Char) : Char := if isUpperA c then Char.ofNat (c.toNat + 32) else c

/-- an underscore before every upper-case letter that is not the first character, everything lower-cased -/
def snakeTail : Str → Str
  | [] => []
  | c :: r => if isUpperA c then '_' :: lowerA c :: snakeTail r else c :: snakeTail r

def snake : Str → Str
  | [] => []
  | c :: r => lowerA c :: snakeTail r

/-- `name[:-5] if name.endswith('_task') else name` -/
def stripTaskSuffix (s : Str) : Str :=
  if "_task".toList.isSuffixOf s then s.take (s.length - 5) else s

/-- the task name of a class without `Meta.name` -/
def classTaskName (cls : Str) : Str := stripTaskSuffix (snake cls)

/-! ## wildcard import strings (`tasks: module.Prefix*`) -/

/-- `utils/clazz.py: import_by_string` with a wildcard in the last part: the part becomes a regular expression — every `*` that is not
preceded by a `.` becomes `.*` — and a member is taken when `pattern.match(name)`, i.e. when the pattern matches a PREFIX of its name.
For parts made of name characters and `*` (no other regex metacharacter): -/
def starAny (f : Str → Bool) : Str → Bool
  | [] => f []
  | c :: n => f (c :: n) || starAny f n

def globPrefix : Str → Str → Bool
  | [], _ => true
  | c :: p, n =>
    if c = '*' then starAny (globPrefix p) n
    else match n with
      | [] => false
      | d :: n' => c == d && globPrefix p n'

/-- the members a wildcard import string stands for, in definition order -/
def globSelect (pat : Str) (names : List Str) : List Str := names.filter (globPrefix pat)

end Names
end TCV
