import TCV.Model.Basic
/-!
# M-Migrate — `utils/migration.py: migrate_to_parameter_mode`

Two directory trees (source = name mode, target = parameter mode).  A tree is the map from result
locations to result contents plus the list of directories that exist without being a result.
The chain pair is given as the list of tasks (in the order of the name-mode chain) with, for each
task, its location in either tree — these come from chain construction (M-Build / M-Key) and are
inputs here.  Both chains are built from the *same* configuration: same file, same part of a
multi-part file, same namespace, same context and global_vars (the part and the namespace were
dropped before repair F14; then the pairing was with the main part's chain).

What the function does per task (as the code, including its side effects):
* non-persisting (`InMemoryData`): nothing;
* `old_task.has_data` — creates the task directory in the **source** (and `<name>_tmp` for the data
  classes that work in a temporary directory): finding K5;
* no source result: nothing more;
* `old_task.data_path`, `new_task.data_path`, `new_task.has_data` — same side effect in the target;
* target result present: sizes must agree (exactly, or `isclose` for `.pd`), else `AssertionError`;
* otherwise copy (file or tree) unless `dry`.
-/
namespace TCV
namespace Migrate

abbrev Loc := Str

/-- content of a result: the size the code compares (`st_size`) and a digest of everything else -/
structure Val where
  size : Nat
  sum : Str
deriving DecidableEq, Repr

structure Tree where
  files : Loc → Option Val
  dirs : List Str

def Tree.put (t : Tree) (l : Loc) (v : Val) : Tree :=
  { t with files := fun l' => if l' = l then some v else t.files l' }

def Tree.mkdir (t : Tree) (d : Str) : Tree :=
  if t.dirs.contains d then t else { t with dirs := t.dirs ++ [d] }

structure MTask where
  name : Str
  /-- data class is not `InMemoryData` -/
  persist : Bool
  /-- data class creates `<name>_tmp` in `init_persistence` (DirData, ContinuesData) -/
  hasTmp : Bool
  /-- result file name ends with `.pd` (size compared with tolerance) -/
  isPd : Bool
  /-- task directory relative to the data directory (the same in both trees) -/
  dir : Str
  oldLoc : Loc
  newLoc : Loc

inductive Err where
  | sizeMismatch
deriving DecidableEq, Repr

/-- `init_persistence` as triggered by `has_data` / `data_path` -/
def inspect (t : MTask) (loc : Loc) (tr : Tree) : Tree :=
  let tr := tr.mkdir t.dir
  if t.hasTmp then tr.mkdir (loc ++ "_tmp".toList) else tr

def dist (a b : Nat) : Nat := if a ≤ b then b - a else a - b

/-- `math.isclose(a, b, rel_tol=2e-7, abs_tol=10)` on sizes (2e-7 = 1/5 000 000) -/
def pdClose (a b : Nat) : Bool := dist a b ≤ 10 || dist a b * 5000000 ≤ max a b

def sizeOk (isPd : Bool) (v w : Val) : Bool := if isPd then pdClose w.size v.size else w.size == v.size

/-- one iteration of the loop; state = (source, target) -/
def step (dry : Bool) (st : Tree × Tree) (t : MTask) : Except Err (Tree × Tree) :=
  if !t.persist then .ok st
  else
    let src := inspect t t.oldLoc st.1
    match src.files t.oldLoc with
    | none => .ok (src, st.2)
    | some v =>
      let tgt := inspect t t.newLoc st.2
      match tgt.files t.newLoc with
      | some w => if sizeOk t.isPd v w then .ok (src, tgt) else .error .sizeMismatch
      | none => if dry then .ok (src, tgt) else .ok (src, tgt.put t.newLoc v)

def migrate (dry : Bool) : Tree × Tree → List MTask → Except Err (Tree × Tree)
  | st, [] => .ok st
  | st, t :: r => match step dry st t with
    | .ok st' => migrate dry st' r
    | .error e => .error e

end Migrate
end TCV
