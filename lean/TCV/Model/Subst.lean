import TCV.Model.Val
/-!
# M-Subst — placeholders (`{NAME}`) in config data

Mirrors `utils/data.py: search_and_apply, search_and_replace_placeholders, ReprStr` and, for object
definitions in config data, `utils/clazz.py: find_and_instantiate_clazz` (only the text it records in
`_taskchain_instantiate_repr`).

## The scanner and `re.subn(r'{(.*?)}', repl, s)`

`scanAux` is a one-pass scanner with one piece of state: `none` (outside a brace) or `some acc`
(inside an open brace, `acc` = the characters read since the `{`).  It reproduces the regex
semantics for this one pattern:

* the regex engine tries start positions from left to right; at a start position `i` the pattern
  needs `s[i] = '{'`, then the lazy `.*?` takes the *fewest* characters such that a `}` follows, and
  `.` does not match `'\n'`.  So the attempt at `i` succeeds iff the first character of
  `{'}', '\n'}` after `i` exists and is `}`; the match then ends at that first `}` and the name is
  everything in between (it may contain `{`).  This is the `c = '}'` branch: emit `ph acc`.
* if the attempt at `i` fails, there is no `}` between `i` and the next `'\n'` (or the end).  Every
  `{` at a position `k` in that stretch sees the same stretch, hence no `}` before the same `'\n'`
  (or the end) either, so the attempt at `k` fails too: *the inner `{` of a failed attempt cannot
  start a successful one*.  Therefore the whole pending text up to and including the `'\n'` (or up
  to the end) is literal and scanning resumes after it in state `none`.  These are the
  `c = '\n'` branch and the `[]` branch.
* after a successful match `re.subn` resumes right after the `}` (non-overlapping) and the text
  returned by `repl` is appended to the output without being scanned.  `{}` matches with the empty
  name.  The pattern cannot match the empty string, so there are no empty-match subtleties.

The five equations `scan_lit_cons`, `scan_match`, `scan_fail_nl`, `scan_fail_end`, `scan_nil`
(file `TCV/Lemmas/Subst.lean`) restate exactly these cases declaratively; together they determine
`scan`.  The correspondence check compares against the real `re.subn`.
-/
namespace TCV
namespace Subst
open PVal

/-- a piece of the source text: one literal character, or a matched placeholder `{name}` -/
inductive Seg where
  | lit (c : Char)
  | ph (name : Str)
deriving DecidableEq, Repr

def lits (s : Str) : List Seg := s.map Seg.lit

def scanAux : Option Str → Str → List Seg
  | none, [] => []
  | none, c :: r => if c = '{' then scanAux (some []) r else Seg.lit c :: scanAux none r
  | some acc, [] => lits ('{' :: acc)
  | some acc, c :: r =>
    if c = '}' then Seg.ph acc :: scanAux none r
    else if c = '\n' then lits ('{' :: (acc ++ ['\n'])) ++ scanAux none r
    else scanAux (some (acc ++ [c])) r

/-- the segmentation of `s` induced by `re.subn(r'{(.*?)}', …, s)` -/
def scan (s : Str) : List Seg := scanAux none s

/-- the source text of a segment -/
def Seg.src : Seg → Str
  | .lit c => [c]
  | .ph n => '{' :: (n ++ ['}'])

/-- the source text of a segmentation -/
def render : List Seg → Str
  | [] => []
  | g :: r => g.src ++ render r

/-- the lookup of a placeholder name in `global_vars`: `none` = not a key / not an attribute,
`some t` = `str(value)` -/
abbrev Env := Str → Option Str

/-- what `_replace` returns for a match, resp. the literal character -/
def Seg.out (env : Env) : Seg → Str
  | .lit c => [c]
  | .ph n => match env n with
    | some t => t
    | none => '{' :: (n ++ ['}'])

/-- the text `re.subn` assembles: outputs of the segments, concatenated, nothing rescanned -/
def applySegs (env : Env) : List Seg → Str
  | [] => []
  | g :: r => g.out env ++ applySegs env r

/-- `replacement_count > 0` -/
def hasPh : List Seg → Bool
  | [] => false
  | .ph _ :: _ => true
  | .lit _ :: r => hasPh r

/-- placeholder names that were matched, in order -/
def names : List Seg → List Str
  | [] => []
  | .ph n :: r => n :: names r
  | .lit _ :: r => names r

/-- the new text of a plain string -/
def substText (env : Env) (s : Str) : Str := applySegs env (scan s)

/-- `_apply` on a plain `str`: a `ReprStr` as soon as the pattern matched at least once — also when
every match was undefined and the text did not change (as the code does) -/
def substStr (env : Env) (s : Str) : PVal :=
  if hasPh (scan s) then .rstr (substText env s) s else .str s

/-- `_apply` on a string leaf (`str` or `ReprStr`); other values are never passed to it -/
def substLeaf (env : Env) : PVal → PVal
  | .str s => substStr env s
  | v => v          -- `isinstance(string, ReprStr)`: returned as it is

mutual
/-- `search_and_replace_placeholders(obj, replacements)`: list elements and mapping *values* at
every depth; keys, atoms and objects are left alone -/
def substTree (env : Env) : PVal → PVal
  | .str s => substStr env s
  | .list xs => .list (substL env xs)
  | .dict kvs => .dict (substD env kvs)
  | v => v
def substL (env : Env) : List PVal → List PVal
  | [] => []
  | x :: r => substTree env x :: substL env r
def substD (env : Env) : List (Str × PVal) → List (Str × PVal)
  | [] => []
  | (k, v) :: r => (k, substTree env v) :: substD env r
end

/-! ## generic vocabulary for "everything else is unchanged" -/

def isStrLeaf : PVal → Bool
  | .str _ => true
  | .rstr _ _ => true
  | _ => false

mutual
/-- apply `f` to every string leaf (plain or substituted) at every depth -/
def mapStr (f : PVal → PVal) : PVal → PVal
  | .str s => f (.str s)
  | .rstr v o => f (.rstr v o)
  | .list xs => .list (mapStrL f xs)
  | .dict kvs => .dict (mapStrD f kvs)
  | v => v
def mapStrL (f : PVal → PVal) : List PVal → List PVal
  | [] => []
  | x :: r => mapStr f x :: mapStrL f r
def mapStrD (f : PVal → PVal) : List (Str × PVal) → List (Str × PVal)
  | [] => []
  | (k, v) :: r => (k, mapStr f v) :: mapStrD f r
end

mutual
/-- the value with every string leaf blanked: what is left is nesting, lengths, keys, atoms, objects -/
def shape : PVal → PVal
  | .str _ => .str []
  | .rstr _ _ => .str []
  | .list xs => .list (shapeL xs)
  | .dict kvs => .dict (shapeD kvs)
  | v => v
def shapeL : List PVal → List PVal
  | [] => []
  | x :: r => shape x :: shapeL r
def shapeD : List (Str × PVal) → List (Str × PVal)
  | [] => []
  | (k, v) :: r => (k, shape v) :: shapeD r
end

mutual
/-- the string leaves in traversal order, at every depth -/
def leaves : PVal → List PVal
  | .str s => [.str s]
  | .rstr v o => [.rstr v o]
  | .list xs => leavesL xs
  | .dict kvs => leavesD kvs
  | _ => []
def leavesL : List PVal → List PVal
  | [] => []
  | x :: r => leaves x ++ leavesL r
def leavesD : List (Str × PVal) → List PVal
  | [] => []
  | (_, v) :: r => leaves v ++ leavesD r
end

/-- the text a task (or any `str` operation) sees -/
def textOf : PVal → Option Str
  | .str s => some s
  | .rstr v _ => some v
  | _ => none

/-! ## `ReprStr` objects and their copies -/

/-- the three pieces of state of a `ReprStr` instance: the `str` value, `.repr`, `._repr_source` -/
structure ReprStrObj where
  val : Str
  repr : Str
  src : Str
deriving DecidableEq

/-- `ReprStr.__new__(cls, value, repr_)` -/
def ReprStrObj.new (pr : Char → Bool) (value repr_ : Str) : ReprStrObj :=
  { val := value, repr := pyRepr pr repr_, src := repr_ }

/-- `ReprStr.__copy__` and `ReprStr.__deepcopy__` (they are the same function) -/
def ReprStrObj.copy (pr : Char → Bool) (x : ReprStrObj) : ReprStrObj := ReprStrObj.new pr x.val x.src

/-- the copy before repair F6: built from the already quoted representation -/
def ReprStrObj.copyPreF6 (pr : Char → Bool) (x : ReprStrObj) : ReprStrObj := ReprStrObj.new pr x.val x.repr

mutual
/-- `copy.deepcopy` of config data: containers rebuilt, `ReprStr` leaves through `__deepcopy__`,
immutable atoms and plain strings shared; objects are opaque (their text is kept) -/
def deepcopy (pr : Char → Bool) : PVal → PVal
  | .rstr v o => let y := (ReprStrObj.new pr v o).copy pr; .rstr y.val y.src
  | .list xs => .list (deepcopyL pr xs)
  | .dict kvs => .dict (deepcopyD pr kvs)
  | v => v
def deepcopyL (pr : Char → Bool) : List PVal → List PVal
  | [] => []
  | x :: r => deepcopy pr x :: deepcopyL pr r
def deepcopyD (pr : Char → Bool) : List (Str × PVal) → List (Str × PVal)
  | [] => []
  | (k, v) :: r => (k, deepcopy pr v) :: deepcopyD pr r
end

/-! ## object definitions: the text recorded by `find_and_instantiate_clazz` -/

def joinComma : List Str → Str
  | [] => []
  | [p] => p
  | p :: r => p ++ ',' :: ' ' :: joinComma r

def elemsOf : PVal → List PVal
  | .list xs => xs
  | _ => []

def itemsOf : PVal → List (Str × PVal)
  | .dict kvs => kvs
  | _ => []

/-- `_taskchain_instantiate_repr` of the instance built from a definition whose values are already
processed: `f'{cls}({args_repr}{kwargs_repr})'`; keyword arguments in insertion order (K2) -/
def instRepr (pr : Char → Bool) (kvs : List (Str × PVal)) : Str :=
  let cls := ((lookup "class".toList kvs).bind textOf).getD []
  let args := (elemsOf ((lookup "args".toList kvs).getD (.list []))).map (reprInst pr)
  let kwargs := (itemsOf ((lookup "kwargs".toList kvs).getD (.dict []))).map (fun (k, v) => k ++ '=' :: reprInst pr v)
  let a := joinComma args
  let k := joinComma kwargs
  cls ++ '(' :: ((if !a.isEmpty && !k.isEmpty then a ++ [',', ' '] else a) ++ k ++ [')'])

def hasKey (k : Str) (kvs : List (Str × PVal)) : Bool := (lookup k kvs).isSome

mutual
/-- `Config.prepare_objects` / `find_and_instantiate_clazz` on substituted data: a mapping with a
`class` key becomes an opaque object carrying the recorded text; nested definitions inside `args` /
`kwargs` first -/
def prepObjects (pr : Char → Bool) : PVal → PVal
  | .list xs => .list (prepL pr xs)
  | .dict kvs => let kvs' := prepD pr kvs
    if hasKey "class".toList kvs then .obj (instRepr pr kvs') else .dict kvs'
  | v => v
def prepL (pr : Char → Bool) : List PVal → List PVal
  | [] => []
  | x :: r => prepObjects pr x :: prepL pr r
def prepD (pr : Char → Bool) : List (Str × PVal) → List (Str × PVal)
  | [] => []
  | (k, v) :: r => (k, prepObjects pr v) :: prepD pr r
end

end Subst
end TCV
