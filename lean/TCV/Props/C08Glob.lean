import TCV.Model.Names
/-!
# C08 — wildcard import strings in `tasks` / `excluded_tasks`

`utils/clazz.py: import_by_string('pkg.mod.Part')` turns the last part into a regular expression (every `*` not preceded by `.` becomes
`.*`) and takes the members whose name the pattern matches FROM ITS START (`re.match`); `Names.globPrefix` is that matcher for parts made
of name characters and `*`, `Names.globSelect` the selection in definition order.  Tied to the code by the C08 correspondence
(`glob_correspondence`: generated modules × patterns through `get_classes_by_import_string`).
-/
namespace TCV.Names

theorem starAny_true (f : Str → Bool) (hf : ∀ n, f n = true) : ∀ n, starAny f n = true
  | [] => by simp [starAny, hf]
  | c :: n => by simp [starAny, hf]

theorem globPrefix_star (n : Str) : globPrefix ['*'] n = true := by
  simp only [globPrefix, if_true]
  exact starAny_true _ (fun _ => rfl) n

/-- a pattern without `*` selects exactly the names it is a prefix of (the prefix match of `import_by_string`) -/
theorem globPrefix_literal : ∀ (p n : Str), '*' ∉ p → globPrefix p n = p.isPrefixOf n
  | [], n, _ => by simp [globPrefix]
  | c :: p, [], h => by
    have hc : c ≠ '*' := fun e => h (e ▸ List.mem_cons_self ..)
    simp [globPrefix, hc, List.isPrefixOf]
  | c :: p, d :: n, h => by
    have hc : c ≠ '*' := fun e => h (e ▸ List.mem_cons_self ..)
    have hp : '*' ∉ p := fun e => h (List.mem_cons_of_mem _ e)
    simp only [globPrefix, if_neg hc, globPrefix_literal p n hp, List.isPrefixOf]

/-- `lit*`: the names that start with `lit` -/
theorem globPrefix_lit_star : ∀ (p n : Str), '*' ∉ p → globPrefix (p ++ ['*']) n = p.isPrefixOf n
  | [], n, _ => by simpa using globPrefix_star n
  | c :: p, [], h => by
    have hc : c ≠ '*' := fun e => h (e ▸ List.mem_cons_self ..)
    simp [globPrefix, hc, List.isPrefixOf]
  | c :: p, d :: n, h => by
    have hc : c ≠ '*' := fun e => h (e ▸ List.mem_cons_self ..)
    have hp : '*' ∉ p := fun e => h (List.mem_cons_of_mem _ e)
    simp only [List.cons_append, globPrefix, if_neg hc, globPrefix_lit_star p n hp, List.isPrefixOf]

/-- `*` stands for any text: the rest of the pattern may start at any position of the name -/
theorem starAny_iff (f : Str → Bool) : ∀ n : Str, starAny f n = true ↔ ∃ k, k ≤ n.length ∧ f (n.drop k) = true
  | [] => by
    simp only [starAny, List.length_nil, Nat.le_zero_eq, List.drop_nil]
    exact ⟨fun h => ⟨0, rfl, h⟩, fun ⟨_, _, h⟩ => h⟩
  | c :: n => by
    simp only [starAny, Bool.or_eq_true, starAny_iff f n, List.length_cons]
    constructor
    · rintro (h | ⟨k, hk, h⟩)
      · exact ⟨0, by omega, h⟩
      · exact ⟨k + 1, by omega, by simpa using h⟩
    · rintro ⟨k, hk, h⟩
      cases k with
      | zero => exact Or.inl (by simpa using h)
      | succ k => exact Or.inr ⟨k, by omega, by simpa using h⟩

theorem globPrefix_star_cons (p n : Str) :
    globPrefix ('*' :: p) n = true ↔ ∃ k, k ≤ n.length ∧ globPrefix p (n.drop k) = true := by
  simp only [globPrefix, if_true]
  exact starAny_iff _ n

/-- a selection never invents or reorders members -/
theorem globSelect_sublist (pat : Str) (names : List Str) : (globSelect pat names).Sublist names :=
  List.filter_sublist

example : globSelect "T*".toList ["TK0_".toList, "_TK1_".toList, "TK2_".toList, "Other".toList] = ["TK0_".toList, "TK2_".toList] := by decide
example : globSelect "*T*".toList ["TK0_".toList, "_TK1_".toList, "xyz".toList] = ["TK0_".toList, "_TK1_".toList] := by decide
example : globSelect "TK*2_".toList ["TK2_".toList, "TK12_".toList, "TK21".toList] = ["TK2_".toList, "TK12_".toList] := by decide

end TCV.Names
