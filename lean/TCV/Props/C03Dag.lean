import TCV.Props.C03
import TCV.Props.C02
/-!
# C02 / C03 over whole dependency DAGs (Merkle argument)

A computation is a tree: a task with its declared parameters (and the values it received) and, for every
input it has, the input's name *relative to the task's own namespace* and the input's computation.  The key
of a computation hashes its persisted parameters and the keys of its inputs.

* `key_mount_invariant_dag` (C02): mounting a whole pipeline under any namespace leaves every key unchanged.
* `merkle` (C03): with a hash that is collision-free on the occurring texts, equal keys imply the same
  computation — the same persisted parameters at this task and, recursively, at every task upstream, with the
  same wiring.  Contrapositive: a difference at any distance upstream gives a different key downstream.
-/
namespace TCV.C03
open TCV TCV.PVal TCV.Key

inductive Comp where
  | node (params : List Param) (inputs : List (Str × Comp))

mutual
/-- the key of a computation, unmounted (input names relative) -/
def keyC (H : Str → Str) (pr : Char → Bool) : Comp → Str
  | .node ps ins => keyOf H pr ps none (keysL H pr ins)
def keysL (H : Str → Str) (pr : Char → Bool) : List (Str × Comp) → List (Str × Str)
  | [] => []
  | (n, c) :: r => (n, keyC H pr c) :: keysL H pr r
end

mutual
/-- the key of the same computation mounted under namespace `ns`: every task's namespace is `ns`, input names are full -/
def keyM (H : Str → Str) (pr : Char → Bool) (ns : Str) : Comp → Str
  | .node ps ins => keyOf H pr ps (some ns) (keysLM H pr ns ins)
def keysLM (H : Str → Str) (pr : Char → Bool) (ns : Str) : List (Str × Comp) → List (Str × Str)
  | [] => []
  | (n, c) :: r => (ns ++ ':' :: ':' :: n, keyM H pr ns c) :: keysLM H pr ns r
end

mutual
theorem keyM_eq (H : Str → Str) (pr : Char → Bool) (ns : Str) (hn : ns ≠ []) : ∀ c : Comp, keyM H pr ns c = keyC H pr c
  | .node ps ins => by
    simp only [keyM, keyC]
    have h := keysLM_eq H pr ns hn ins
    rw [h]
    exact C02.keyOf_mount_invariant H pr ps ns hn (keysL H pr ins)
theorem keysLM_eq (H : Str → Str) (pr : Char → Bool) (ns : Str) (hn : ns ≠ []) : ∀ l : List (Str × Comp),
    keysLM H pr ns l = (keysL H pr l).map (fun nk => (ns ++ ':' :: ':' :: nk.1, nk.2))
  | [] => rfl
  | (n, c) :: r => by
    simp only [keysLM, keysL, List.map_cons]
    rw [keyM_eq H pr ns hn c, keysLM_eq H pr ns hn r]
end

/-- **C02 over DAGs**: the key of every task of a pipeline is the same under every namespace it is mounted in -/
theorem key_mount_invariant_dag (H : Str → Str) (pr : Char → Bool) (ns ns' : Str) (hn : ns ≠ []) (hn' : ns' ≠ []) (c : Comp) :
    keyM H pr ns c = keyM H pr ns' c ∧ keyM H pr ns c = keyC H pr c :=
  ⟨by rw [keyM_eq H pr ns hn, keyM_eq H pr ns' hn'], keyM_eq H pr ns hn c⟩

/-! ## Merkle -/

mutual
/-- the same computation: same persisted parameters here and, input by input, the same name and the same computation upstream -/
def sameC (pr : Char → Bool) : Comp → Comp → Prop
  | .node p1 i1, .node p2 i2 => persistedView pr p1 = persistedView pr p2 ∧ sameL pr i1 i2
def sameL (pr : Char → Bool) : List (Str × Comp) → List (Str × Comp) → Prop
  | [], [] => True
  | (n1, c1) :: r1, (n2, c2) :: r2 => n1 = n2 ∧ sameC pr c1 c2 ∧ sameL pr r1 r2
  | _, _ => False
end

def names (l : List (Str × Comp)) : List Str := l.map (·.1)

mutual
/-- well-formed computation: identifier-like parameter names, well-formed quote-free persisted values, no Path-typed
parameters, inputs listed in strictly increasing name order with `=`-free names — at every node -/
def OKC (pr : Char → Bool) : Comp → Prop
  | .node ps ins => (∀ p ∈ ps, p.isPath = false) ∧ ParamsOK (persistedView pr ps) ∧
      (names ins).Pairwise (fun a b => strLe a b = true ∧ a ≠ b) ∧ (∀ n ∈ names ins, ∀ c ∈ n, c ≠ '=') ∧ OKL pr ins
def OKL (pr : Char → Bool) : List (Str × Comp) → Prop
  | [] => True
  | (_, c) :: r => OKC pr c ∧ OKL pr r
end

theorem keysL_names (H : Str → Str) (pr : Char → Bool) : ∀ l : List (Str × Comp), (keysL H pr l).map (·.1) = names l
  | [] => rfl
  | (n, c) :: r => by simp [keysL, names, keysL_names H pr r]

theorem inj_of_nodup_map {α β} (f : α → β) : ∀ (l : List α), (l.map f).Nodup → ∀ a b, a ∈ l → b ∈ l → f a = f b → a = b
  | [], _, a, _, ha, _, _ => by cases ha
  | x :: r, hnd, a, b, ha, hb, hab => by
    simp only [List.map_cons, List.nodup_cons] at hnd
    rcases List.mem_cons.mp ha with rfl | ha' <;> rcases List.mem_cons.mp hb with rfl | hb'
    · rfl
    · exact absurd (List.mem_map.mpr ⟨b, hb', hab.symm⟩) hnd.1
    · exact absurd (List.mem_map.mpr ⟨a, ha', hab⟩) hnd.1
    · exact inj_of_nodup_map f r hnd.2 a b ha' hb' hab

/-- inputs that are already sorted by (distinct) names are their own view -/
theorem inputsView_sorted (l : List (Str × Str))
    (hs : (l.map (·.1)).Pairwise (fun a b => strLe a b = true ∧ a ≠ b)) : inputsView none l = l := by
  unfold inputsView
  have hp : l.Pairwise (fun a b : Str × Str => strLe a.1 b.1 = true) := by
    have := List.pairwise_map.mp hs
    exact this.imp (fun h => h.1)
  have hanti : ∀ a b : Str × Str, a ∈ l → b ∈ l → strLe a.1 b.1 = true → strLe b.1 a.1 = true → a = b := by
    intro a b ha hb h1 h2
    have hab := strLe_antisymm _ _ h1 h2
    -- distinct positions have distinct names
    have hnd : (l.map (·.1)).Nodup := hs.imp (fun h => h.2)
    exact inj_of_nodup_map (·.1) l hnd a b ha hb hab
  rw [isort_of_pairwise (fun a b : Str × Str => strLe a.1 b.1) (fun a b => strLe_total _ _) (fun a b c => strLe_trans _ _ _) l hp hanti]
  simp [stripNs]

theorem inputsOK_keys (H : Str → Str) (pr : Char → Bool) (hHex : ∀ s, ∀ c ∈ (H s).take 32, c ≠ '#') :
    ∀ l : List (Str × Comp), (∀ n ∈ names l, ∀ c ∈ n, c ≠ '=') → InputsOK (keysL H pr l)
  | [], _ => trivial
  | (n, c) :: r, h => by
    simp only [keysL, InputsOK]
    refine ⟨h n (by simp [names]), ?_, inputsOK_keys H pr hHex r (fun m hm => h m (by simp [names] at hm ⊢; exact Or.inr hm))⟩
    cases c with
    | node ps ins => simp only [keyC, keyOf]; exact hHex _

mutual
/-- **C03 over DAGs (Merkle).**  For a hash that is collision-free on the occurring texts and yields `#`-free keys (hex):
equal keys ⇒ the same computation, at every depth. -/
theorem merkle (H : Str → Str) (pr : Char → Bool)
    (hH : ∀ a b, (H a).take 32 = (H b).take 32 → a = b) (hHex : ∀ s, ∀ c ∈ (H s).take 32, c ≠ '#') :
    ∀ (c1 c2 : Comp), OKC pr c1 → OKC pr c2 → keyC H pr c1 = keyC H pr c2 → sameC pr c1 c2
  | .node p1 i1, .node p2 i2, h1, h2, hk => by
    simp only [keyC] at hk
    simp only [OKC] at h1 h2
    have hs1 : ((keysL H pr i1).map (·.1)).Pairwise (fun a b => strLe a b = true ∧ a ≠ b) := by rw [keysL_names]; exact h1.2.2.1
    have hs2 : ((keysL H pr i2).map (·.1)).Pairwise (fun a b => strLe a b = true ∧ a ≠ b) := by rw [keysL_names]; exact h2.2.2.1
    have hin1 : InputsOK (inputsView none (keysL H pr i1)) := by
      rw [inputsView_sorted _ hs1]; exact inputsOK_keys H pr hHex i1 h1.2.2.2.1
    have hin2 : InputsOK (inputsView none (keysL H pr i2)) := by
      rw [inputsView_sorted _ hs2]; exact inputsOK_keys H pr hHex i2 h2.2.2.2.1
    have := keyOf_injective_partial H pr hH p1 p2 none none _ _ h1.1 h2.1 h1.2.1 h2.2.1 hin1 hin2 hk
    rw [inputsView_sorted _ hs1, inputsView_sorted _ hs2] at this
    exact ⟨this.1, merkleL H pr hH hHex i1 i2 h1.2.2.2.2 h2.2.2.2.2 this.2⟩
theorem merkleL (H : Str → Str) (pr : Char → Bool)
    (hH : ∀ a b, (H a).take 32 = (H b).take 32 → a = b) (hHex : ∀ s, ∀ c ∈ (H s).take 32, c ≠ '#') :
    ∀ (l1 l2 : List (Str × Comp)), OKL pr l1 → OKL pr l2 → keysL H pr l1 = keysL H pr l2 → sameL pr l1 l2
  | [], [], _, _, _ => trivial
  | [], (n, c) :: r, _, _, h => by simp [keysL] at h
  | (n, c) :: r, [], _, _, h => by simp [keysL] at h
  | (n1, c1) :: r1, (n2, c2) :: r2, h1, h2, h => by
    simp only [keysL, List.cons.injEq, Prod.mk.injEq] at h
    simp only [OKL] at h1 h2
    exact ⟨h.1.1, merkle H pr hH hHex c1 c2 h1.1 h2.1 h.1.2, merkleL H pr hH hHex r1 r2 h1.2 h2.2 h.2⟩
end

/-- contrapositive, the form the property is stated in: computations that differ anywhere — a persisted parameter value at any
depth of a nested value, at this task or at any task upstream, or the wiring — have different keys -/
theorem different_computation_different_key (H : Str → Str) (pr : Char → Bool)
    (hH : ∀ a b, (H a).take 32 = (H b).take 32 → a = b) (hHex : ∀ s, ∀ c ∈ (H s).take 32, c ≠ '#')
    (c1 c2 : Comp) (h1 : OKC pr c1) (h2 : OKC pr c2) (hd : ¬ sameC pr c1 c2) : keyC H pr c1 ≠ keyC H pr c2 :=
  fun hk => hd (merkle H pr hH hHex c1 c2 h1 h2 hk)

end TCV.C03

namespace TCV.C03
open TCV TCV.PVal TCV.Key

theorem okc_leaf (pr : Char → Bool) : OKC pr (.node [] []) := by
  simp only [OKC, OKL, names, List.map_nil, List.Pairwise.nil]
  refine ⟨?_, ?_, trivial, ?_, trivial⟩
  · intro p hp; simp at hp
  · show ParamsOK (persistedView pr [])
    simp [persistedView, isort, ParamsOK]
  · intro n hn; simp at hn

/-- non-vacuity: a two-level computation (a parameterised task with one input) meets `OKC` -/
example : OKC (fun _ => true)
    (.node [{ name := "lr".toList, value := .list [.atom "1".toList, .str "x".toList], default := none, ignore := false, dpd := false }]
      [("g:up".toList, .node [] [])]) := by
  simp only [OKC, OKL, names, List.map_cons, List.map_nil]
  refine ⟨?_, ?_, ?_, ?_, okc_leaf _, trivial⟩
  · intro p hp
    simp only [List.mem_singleton] at hp
    subst hp; rfl
  · have : persistedView (fun _ => true)
        [{ name := "lr".toList, value := .list [.atom "1".toList, .str "x".toList], default := none, ignore := false, dpd := false }]
        = [("lr".toList, .list [.atom "1".toList, .str "x".toList])] := rfl
    rw [this]
    simp [ParamsOK, NameOK, WF, WFL, isDelim, q]
  · simp
  · intro n hn c hc
    simp only [List.mem_singleton] at hn
    subst hn
    simp at hc
    rcases hc with rfl | rfl | rfl | rfl <;> decide

end TCV.C03
