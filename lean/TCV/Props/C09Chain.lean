import TCV.Props.C08Chain
import TCV.Props.C09
/-!
# C09 — whole-chain theorems (no silent override, no leaking between configs)

Corollaries of `TCV.C08` (`C08Chain.lean`), restated here so that the C09 proof obligations (and the independent
re-check of the thorough tier) cover them.  `S : Stages …` is what every successful `Build.build` provides
(`C08.build_stages`).
-/
namespace TCV.C09
open TCV TCV.Config TCV.Build TCV.C08

variable {H : Str → Str} {pr : Char → Bool} {fs : FS} {classes : Classes} {main : Str} {mainNs : Option Str}
  {reg : Registry} {next fuel : Nat} {c : Chain}

/-- every successful construction went through the stages the theorems below speak about -/
theorem every_build_has_stages (cfs : CtxFS) (ctxSrc : Option CtxSrc)
    (h : build H pr fs cfs classes main mainNs ctxSrc reg next fuel = .ok c) :
    Nonempty (Stages H pr fs classes main mainNs reg next fuel c) :=
  build_stages H pr fs cfs classes main mainNs ctxSrc reg next fuel c h

/-- **two configs declaring the same task in one namespace are a conflict, not resolved by order**: in every chain that
construction returns, a task name is declared by exactly one of the chain's configs — the one the task belongs to -/
theorem conflict_never_resolved_by_order (S : Stages H pr fs classes main mainNs reg next fuel c) :
    ∀ t ∈ c.tasks, Declares classes S.cfgs t.cfgIx t.full ∧ ∀ j, Declares classes S.cfgs j t.full → j = t.cfgIx :=
  chain_no_silent_override S

/-- **each task sees exactly the values of the config that declares it**: its parameter table is `set_values` against the
data of that config (file data overridden by the context entries for the config's exact namespace — `context_precedence`),
and against no other config's data -/
theorem values_of_declaring_config_only (S : Stages H pr fs classes main mainNs reg next fuel c) :
    ∀ t ∈ c.tasks, ∃ cfg cid cls, S.cfgs[t.cfgIx]? = some cfg ∧ cid ∈ cfg.tasks ∧ get? cid classes = some cls ∧
      cls.cid = t.cid ∧ cls.slug = t.slug ∧ t.ns = cfg.ns ∧ setParams cls.params cfg.data = .ok t.params :=
  chain_params_from_declaring_config S

/-- `set_values` gives every declared parameter, in declaration order, the value `setParam` gives it -/
theorem setParams_spec : ∀ (ps : List ParamDecl) (data : Data) (r : List (Str × PVal)), setParams ps data = .ok r →
    r.map (·.1) = ps.map (·.name) ∧ ∀ p ∈ ps, ∃ v, setParam p data = .ok v ∧ (p.name, v) ∈ r
  | [], data, r, h => by simp only [setParams] at h; cases h; simp
  | p :: ps, data, r, h => by
    simp only [setParams] at h
    cases hp : setParam p data with
    | error e => rw [hp] at h; cases h
    | ok v =>
      rw [hp] at h
      simp only at h
      cases hr : setParams ps data with
      | error e => rw [hr] at h; cases h
      | ok r' =>
        rw [hr] at h
        simp only at h
        cases h
        obtain ⟨i1, i2⟩ := setParams_spec ps data r' hr
        refine ⟨by simp [i1], ?_⟩
        intro q hq
        rcases List.mem_cons.mp hq with rfl | hq
        · exact ⟨v, hp, List.mem_cons_self ..⟩
        · obtain ⟨w, hw, hm⟩ := i2 q hq
          exact ⟨w, hw, List.mem_cons_of_mem _ hm⟩

/-- a required value that is missing, or a value of the wrong type, fails the construction of the whole chain: a chain
that is returned has a value for every declared parameter of every task -/
theorem every_parameter_has_its_value (S : Stages H pr fs classes main mainNs reg next fuel c) :
    ∀ t ∈ c.tasks, ∃ (cfg : Cfg) (cls : ClassDecl), S.cfgs[t.cfgIx]? = some cfg ∧ cls.cid = t.cid ∧
      t.params.map (·.1) = cls.params.map (·.name) ∧
      ∀ p ∈ cls.params, ∃ v, setParam p cfg.data = .ok v ∧ (p.name, v) ∈ t.params := by
  intro t ht
  obtain ⟨cfg, cid, cls, h1, _, _, h4, _, _, h7⟩ := chain_params_from_declaring_config S t ht
  obtain ⟨i1, i2⟩ := setParams_spec cls.params cfg.data t.params h7
  exact ⟨cfg, cls, h1, h4, i1, i2⟩

end TCV.C09
