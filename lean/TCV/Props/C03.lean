import TCV.Lemmas.Inj
import TCV.Lemmas.Sort
import TCV.Model.Key
/-!
# C03 — different computations get different storage locations

Value level: `repr_from_instantiation` is injective on well-formed **quote-free** JSON-like values
up to the order of mapping items (`canon`), at any nesting depth.  Without the quote-free hypothesis
it is *not* injective: the negation is proved on the witness of finding K1
(`['a', 'b']` vs `["a', 'b"]`).
-/
namespace TCV.C03
open TCV TCV.PVal TCV.Key

/-- full statement (false for the current code, see `reprInst_not_injective`): -/
def C03_value_full (pr : Char → Bool) : Prop :=
  ∀ v w : PVal, reprInst pr v = reprInst pr w → canon v = canon w

/-- **partial (K1 class excluded)**: on values whose canonical form is `WF` (JSON-like, atoms are
delimiter-free tokens, no `'` in strings and keys), equal text ⇒ equal value (up to item order) -/
theorem reprInst_injective_partial (pr : Char → Bool) (v w : PVal)
    (hv : WF (canon v)) (hw : WF (canon w)) (h : reprInst pr v = reprInst pr w) : canon v = canon w :=
  reprRaw_injective pr _ _ hv hw h

/-- the K1 witness: two different parameter values with the same text, hence the same location -/
theorem reprInst_not_injective :
    ∃ v w : PVal, canon v ≠ canon w ∧ ∀ pr, reprInst pr v = reprInst pr w :=
  ⟨.list [.str ['a'], .str ['b']], .list [.str ("a', 'b".toList)], by simp [canon, canonL], fun _ => by simp [reprInst, canon, canonL, reprRaw, reprL, reprLT, q]⟩

theorem C03_value_full_false (pr : Char → Bool) : ¬ C03_value_full pr := by
  intro h
  obtain ⟨v, w, hne, heq⟩ := reprInst_not_injective
  exact hne (h v w (heq pr))

/-- a second K1-family witness: a plain string containing a backslash and a substituted string
(whose representation is escaped) -/
theorem plain_vs_substituted_collide :
    ∀ pr, reprInst pr (.str "a\\\\b".toList) = reprInst pr (.rstr "x".toList "a\\b".toList) := by
  intro pr; simp [reprInst, canon, reprRaw, pyRepr, escAll, escChar, q]

/-- the key is a function of the key text only; with a hash that is collision-free on the texts
that occur, equal keys force equal key texts -/
theorem keyOf_eq_imp_text_eq (H : Str → Str) (pr : Char → Bool)
    (hH : ∀ a b, (H a).take 32 = (H b).take 32 → a = b)
    (ps ps' : List Param) (ns ns' : Option Str) (ins ins' : List (Str × Str))
    (h : keyOf H pr ps ns ins = keyOf H pr ps' ns' ins') : keyText pr ps ns ins = keyText pr ps' ns' ins' :=
  hH _ _ h

/-! non-vacuity of the partial theorem's hypotheses on a nested, non-trivial value -/
example : WF (canon (.dict [("b".toList, .list [.atom "1".toList, .str "x y".toList]), ("a".toList, .atom "None".toList)])) := by
  simp [canon, canonD, canonL, sortItems, isort, insertBy, strLe, WF, WFD, WFL, isDelim, q]

end TCV.C03
