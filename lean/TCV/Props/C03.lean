import TCV.Lemmas.Inj
import TCV.Lemmas.PyReprInj
import TCV.Model.AutoObj
import TCV.Lemmas.Sort
import TCV.Model.Key
import TCV.Lemmas.KeyInj
/-!
# C03 — different computations get different storage locations

Value level: `repr_from_instantiation` is injective on well-formed **quote-free** JSON-like values
up to the order of mapping items (`canon`), at any nesting depth.  Without the quote-free hypothesis
it is *not* injective: the negation is proved on the witness of finding K1
(`['a', 'b']` vs `["a', 'b"]`).
-/
namespace TCV.C03
open TCV TCV.PVal TCV.Key

/-- full statement (false for the current code, see `reprInst_not_injective`): -/
def C03_value_full (pr : Char → Bool) : Prop :=
  ∀ v w : PVal, reprInst pr v = reprInst pr w → canon v = canon w

/-- **partial (K1 class excluded)**: on values whose canonical form is `WF` (JSON-like, atoms are
delimiter-free tokens, no `'` in strings and keys), equal text ⇒ equal value (up to item order) -/
theorem reprInst_injective_partial (pr : Char → Bool) (v w : PVal)
    (hv : WF (canon v)) (hw : WF (canon w)) (h : reprInst pr v = reprInst pr w) : canon v = canon w :=
  reprRaw_injective pr _ _ hv hw h

/-- the K1 witness: two different parameter values with the same text, hence the same location -/
theorem reprInst_not_injective :
    ∃ v w : PVal, canon v ≠ canon w ∧ ∀ pr, reprInst pr v = reprInst pr w :=
  ⟨.list [.str ['a'], .str ['b']], .list [.str ("a', 'b".toList)], by simp [canon, canonL], fun _ => by simp [reprInst, canon, canonL, reprRaw, reprL, reprLT, q]⟩

theorem C03_value_full_false (pr : Char → Bool) : ¬ C03_value_full pr := by
  intro h
  obtain ⟨v, w, hne, heq⟩ := reprInst_not_injective
  exact hne (h v w (heq pr))

/-- a second K1-family witness: a plain string containing a backslash and a substituted string
(whose representation is escaped) -/
theorem plain_vs_substituted_collide :
    ∀ pr, reprInst pr (.str "a\\\\b".toList) = reprInst pr (.rstr "x".toList "a\\b".toList) := by
  intro pr; simp [reprInst, canon, reprRaw, pyRepr, escAll, escChar, q]

/-- the key is a function of the key text only; with a hash that is collision-free on the texts
that occur, equal keys force equal key texts -/
theorem keyOf_eq_imp_text_eq (H : Str → Str) (pr : Char → Bool)
    (hH : ∀ a b, (H a).take 32 = (H b).take 32 → a = b)
    (ps ps' : List Param) (ns ns' : Option Str) (ins ins' : List (Str × Str))
    (h : keyOf H pr ps ns ins = keyOf H pr ps' ns' ins') : keyText pr ps ns ins = keyText pr ps' ns' ins' :=
  hH _ _ h

/-! ## the whole key text -/

/-- what a task persists of its parameters: (name, value up to mapping order) of every parameter that takes part, sorted by name -/
def persistedView (pr : Char → Bool) (ps : List Param) : List (Str × PVal) :=
  (isort (fun a b : Param => strLe a.name b.name) ps).filterMap
    (fun p => if (paramRepr pr p).isSome then some (p.name, canon p.value) else none)

/-- what a task persists of its inputs: (name relative to the task's namespace, key) sorted by full name -/
def inputsView (ns : Option Str) (ins : List (Str × Str)) : List (Str × Str) :=
  (isort (fun a b : Str × Str => strLe a.1 b.1) ins).map (fun nk => (stripNs ns nk.1, nk.2))

theorem paramRepr_some_eq (pr : Char → Bool) (p : Param) (t : Str) (hp : p.isPath = false)
    (hr : paramRepr pr p = some t) : t = seg pr (p.name, canon p.value) := by
  unfold paramRepr at hr
  cases hi : p.ignore
  · cases hc : (p.dpd && isDefaultVal pr p)
    · simp only [hi, hc, Bool.false_eq_true, if_false, Option.some.injEq] at hr
      rw [← hr]
      simp [seg, valueRepr, hp, reprInst]
    · simp only [hi, hc, Bool.false_eq_true, if_false, if_true] at hr
      cases hr
  · simp only [hi, if_true] at hr
    cases hr

theorem filterMap_seg (pr : Char → Bool) : ∀ (l : List Param), (∀ p ∈ l, p.isPath = false) →
    l.filterMap (paramRepr pr) =
      (l.filterMap (fun p => if (paramRepr pr p).isSome then some (p.name, canon p.value) else none)).map (seg pr)
  | [], _ => rfl
  | p :: r, h => by
    have hp := h p (by simp)
    have ih := filterMap_seg pr r (fun q hq => h q (by simp [hq]))
    simp only [List.filterMap_cons]
    cases hr : paramRepr pr p with
    | none => simp [ih]
    | some t =>
      have ht := paramRepr_some_eq pr p t hp hr
      simp [ih, ht]

theorem registryRepr_eq_regText (pr : Char → Bool) (ps : List Param) (h : ∀ p ∈ ps, p.isPath = false) :
    registryRepr pr ps = regText pr (persistedView pr ps) := by
  have hs : ∀ p ∈ isort (fun a b : Param => strLe a.name b.name) ps, p.isPath = false :=
    fun p hp => h p ((isort_perm _ ps).subset hp)
  simp only [registryRepr, regText, persistedView]
  rw [filterMap_seg pr _ hs]
  rfl

theorem inputsRepr_eq (ns : Option Str) (ins : List (Str × Str)) :
    inputsRepr ns ins = joinHash ((inputsView ns ins).map iseg) := by
  unfold inputsRepr inputsView
  simp only [List.map_map]
  congr 1

/-- **C03, key-text level (partial, K1 class excluded).**  Two tasks with the same key text persist the same
parameter names and values (up to mapping order, at any depth) and the same input names and input keys: every
parameter value, every parameter name, the `None` marker, every input name and every input key can be read back from the
text.  Hypotheses: parameter names are identifier-like, persisted values are well-formed and quote-free (`ParamsOK`),
input names contain no `=`, keys no `#` (hex); `Path`-typed parameters (escaped with Python's `repr`) are excluded. -/
theorem keyText_injective_partial (pr : Char → Bool) (ps ps' : List Param) (ns ns' : Option Str) (ins ins' : List (Str × Str))
    (hp : ∀ p ∈ ps, p.isPath = false) (hp' : ∀ p ∈ ps', p.isPath = false)
    (hok : ParamsOK (persistedView pr ps)) (hok' : ParamsOK (persistedView pr ps'))
    (hin : InputsOK (inputsView ns ins)) (hin' : InputsOK (inputsView ns' ins'))
    (h : keyText pr ps ns ins = keyText pr ps' ns' ins') :
    persistedView pr ps = persistedView pr ps' ∧ inputsView ns ins = inputsView ns' ins' := by
  unfold keyText at h
  rw [registryRepr_eq_regText pr ps hp, registryRepr_eq_regText pr ps' hp', inputsRepr_eq, inputsRepr_eq] at h
  have h1 := regText_inj pr _ _ _ _ hok hok' (by simpa [dollars] using h)
  exact ⟨h1.1, isegs_inj _ _ hin hin' h1.2⟩

/-- with a hash that is collision-free on the occurring texts: **equal keys ⇒ equal persisted content**; contrapositive:
a difference in any persisted parameter value (at any depth), parameter name, input name or input key gives a different key.
Since input keys are themselves keys, a change anywhere upstream moves every key downstream (Merkle). -/
theorem keyOf_injective_partial (H : Str → Str) (pr : Char → Bool)
    (hH : ∀ a b, (H a).take 32 = (H b).take 32 → a = b)
    (ps ps' : List Param) (ns ns' : Option Str) (ins ins' : List (Str × Str))
    (hp : ∀ p ∈ ps, p.isPath = false) (hp' : ∀ p ∈ ps', p.isPath = false)
    (hok : ParamsOK (persistedView pr ps)) (hok' : ParamsOK (persistedView pr ps'))
    (hin : InputsOK (inputsView ns ins)) (hin' : InputsOK (inputsView ns' ins'))
    (h : keyOf H pr ps ns ins = keyOf H pr ps' ns' ins') :
    persistedView pr ps = persistedView pr ps' ∧ inputsView ns ins = inputsView ns' ins' :=
  keyText_injective_partial pr ps ps' ns ns' ins ins' hp hp' hok hok' hin hin' (hH _ _ h)

/-- the Merkle step, contrapositive form: a task whose inputs (names or keys — the keys of the upstream computations)
differ from another's gets a different key; so does one whose persisted parameters differ.  By induction over the DAG a
change anywhere upstream moves every key downstream. -/
theorem downstream_moves (H : Str → Str) (pr : Char → Bool)
    (hH : ∀ a b, (H a).take 32 = (H b).take 32 → a = b)
    (ps ps' : List Param) (ns ns' : Option Str) (ins ins' : List (Str × Str))
    (hp : ∀ p ∈ ps, p.isPath = false) (hp' : ∀ p ∈ ps', p.isPath = false)
    (hok : ParamsOK (persistedView pr ps)) (hok' : ParamsOK (persistedView pr ps'))
    (hin : InputsOK (inputsView ns ins)) (hin' : InputsOK (inputsView ns' ins'))
    (hdiff : persistedView pr ps ≠ persistedView pr ps' ∨ inputsView ns ins ≠ inputsView ns' ins') :
    keyOf H pr ps ns ins ≠ keyOf H pr ps' ns' ins' := by
  intro h
  have := keyOf_injective_partial H pr hH ps ps' ns ns' ins ins' hp hp' hok hok' hin hin' h
  rcases hdiff with hd | hd
  · exact hd this.1
  · exact hd this.2

/-- concrete instance: the hypotheses are met and the views are what one expects -/
example : persistedView (fun _ => true)
    [{ name := "b".toList, value := .atom "1".toList, default := some (.atom "1".toList), ignore := false, dpd := true },
     { name := "c".toList, value := .dict [("y".toList, .atom "2".toList), ("x".toList, .str "s".toList)], default := none, ignore := false, dpd := false },
     { name := "a".toList, value := .str "x".toList, default := none, ignore := true, dpd := false }]
    = [("c".toList, .dict [("x".toList, .str "s".toList), ("y".toList, .atom "2".toList)])] := by rfl

example : ParamsOK [("c".toList, PVal.dict [("x".toList, .str "s".toList), ("y".toList, .atom "2".toList)])] := by
  simp [ParamsOK, NameOK, WF, WFD, isDelim, q]

example : InputsOK (inputsView (some "n".toList) [("n::g:up".toList, "0af3".toList)]) := by
  simp [inputsView, isort, insertBy, stripNs, InputsOK]

/-! non-vacuity of the partial theorem's hypotheses on a nested, non-trivial value -/
example : WF (canon (.dict [("b".toList, .list [.atom "1".toList, .str "x y".toList]), ("a".toList, .atom "None".toList)])) := by
  simp [canon, canonD, canonL, sortItems, isort, insertBy, strLe, WF, WFD, WFL, isDelim, q]

/-! ## values written with Python's escaping `repr`: `Path`-typed parameters, substituted strings, string arguments of parameter objects -/

/-- a `Path`-typed parameter: the text determines the configured string (no quote-splicing possible here, unlike K1) -/
theorem path_value_injective (pr : Char → Bool) (p p' : Param) (hp : p.isPath = true) (hp' : p'.isPath = true)
    (s s' : Str) (hv : p.value = .str s) (hv' : p'.value = .str s') (h : valueRepr pr p = valueRepr pr p') : s = s' := by
  simp only [valueRepr, hp, hp', hv, hv', if_true] at h
  exact PVal.pyRepr_injective pr s s' h

/-- a substituted string (`ReprStr`) is represented by its source text, and the representation determines that source text -/
theorem substituted_source_injective (pr : Char → Bool) (v v' o o' : Str)
    (h : reprInst pr (.rstr v o) = reprInst pr (.rstr v' o')) : o = o' := by
  simp only [reprInst, canon, reprRaw] at h
  exact PVal.pyRepr_injective pr o o' h

/-- string arguments of an `AutoParameterObject`: different strings, different texts -/
theorem auto_string_arg_injective (pr : Char → Bool) (s s' : Str)
    (h : AutoObj.pyReprV pr (.str s) = AutoObj.pyReprV pr (.str s')) : s = s' := by
  simp only [AutoObj.pyReprV] at h
  exact PVal.pyRepr_injective pr s s' h

end TCV.C03
