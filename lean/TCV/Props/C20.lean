import TCV.Lemmas.Migrate
/-!
# C20 — migration to parameter mode carries every result over unchanged

Model: `TCV/Model/Migrate.lean` (`migrate dry (source, target) tasks`).  The statements hold for every
list of tasks (any pipeline, any order), every source tree (any subset computed, any contents) and
every target tree satisfying the stated compatibility.

Finding K5: the function inspects the source with `has_data`, which creates directories there.  The
full statement "the source tree is unchanged" is therefore false (`source_untouched_full_false`);
what holds is that no result of the source is changed, nothing is removed and only empty task /
temporary directories appear (`source_untouched`), and that the tree is literally unchanged when
those directories exist already (`source_untouched_partial`).
-/
namespace TCV.C20
open TCV TCV.Migrate

/-- **exact** (general form): if results that share a target location agree in the source and
whatever the target already holds at a task's location is that task's source result (e.g. the
target is fresh, or was produced by an earlier migration), a real migration succeeds and the target
holds, at every location `l`, the source result of the first persisting task with a source result
that lives at `l` — and is unchanged everywhere else. -/
theorem migrate_exact (tasks : List MTask) (src tgt : Tree)
    (hA : Agree src.files tasks) (hC : Compat src.files tgt.files tasks) :
    ∃ src' tgt', migrate false (src, tgt) tasks = .ok (src', tgt') ∧
      ∀ l, tgt'.files l = closed src.files tgt.files tasks l := by
  obtain ⟨s', t', h1, _, h3⟩ := migrate_closed tasks src tgt hA hC
  exact ⟨s', t', h1, h3⟩

/-- the target holds no result at any task's location -/
def Fresh (tgt : Tree) (tasks : List MTask) : Prop := ∀ t ∈ tasks, tgt.files t.newLoc = none

/-- tasks that share a parameter-mode location share the name-mode location (true for one pipeline
file mounted once or several times: location = task directory + key resp. + config name) -/
def SameSource (tasks : List MTask) : Prop :=
  ∀ t ∈ tasks, ∀ t' ∈ tasks, t.persist = true → t'.persist = true → t.newLoc = t'.newLoc → t.oldLoc = t'.oldLoc

/-- **exact** (per task, fresh target): afterwards the target has a result for *exactly* the
persisting tasks that had one in the source, the value is the source value, and no other location of
the target is touched -/
theorem migrate_exact_per_task (tasks : List MTask) (src tgt : Tree)
    (hS : SameSource tasks) (hF : Fresh tgt tasks) :
    ∃ src' tgt', migrate false (src, tgt) tasks = .ok (src', tgt') ∧
      (∀ t ∈ tasks, t.persist = true → tgt'.files t.newLoc = src.files t.oldLoc) ∧
      (∀ l, (∀ t ∈ tasks, t.persist = true → t.newLoc ≠ l) → tgt'.files l = tgt.files l) := by
  have hA : Agree src.files tasks := by
    intro t ht t' ht' hp hp' hl v v' hv hv'
    rw [hS t ht t' ht' hp hp' hl] at hv
    rw [hv] at hv'; cases hv'; rfl
  have hC : Compat src.files tgt.files tasks := by
    intro t ht _ v w _ hw
    rw [hF t ht] at hw; cases hw
  obtain ⟨s', t', h1, h3⟩ := migrate_exact tasks src tgt hA hC
  refine ⟨s', t', h1, fun t ht hp => ?_, fun l hl => ?_⟩
  · rw [h3]; unfold closed
    cases hw : writer src.files t.newLoc tasks with
    | some t0 =>
      have ⟨hm, hp0, hl0, _⟩ := writer_spec hw
      simp only []
      rw [hS t0 hm t ht hp0 hp hl0]
    | none =>
      simp only []
      unfold writer at hw
      have := List.find?_eq_none.mp hw t ht
      simp [hp] at this
      rw [hF t ht, this]
  · rw [h3]; unfold closed
    cases hw : writer src.files l tasks with
    | some t0 =>
      have ⟨hm, hp0, hl0, _⟩ := writer_spec hw
      exact (hl t0 hm hp0 hl0).elim
    | none => rfl

/-- **idempotent**: a second migration succeeds and changes no result of the target (and none of the source) -/
theorem migrate_idempotent (tasks : List MTask) (src tgt src' tgt' : Tree)
    (hA : Agree src.files tasks) (hC : Compat src.files tgt.files tasks)
    (h : migrate false (src, tgt) tasks = .ok (src', tgt')) :
    ∃ src'' tgt'', migrate false (src', tgt') tasks = .ok (src'', tgt'') ∧
      (∀ l, tgt''.files l = tgt'.files l) ∧ src''.files = src.files := by
  obtain ⟨s1, t1, h1, h2, h3⟩ := migrate_closed tasks src tgt hA hC
  rw [h] at h1; cases h1
  have hf : tgt'.files = closed src.files tgt.files tasks := funext h3
  have hA' : Agree src'.files tasks := by rw [h2]; exact hA
  have hC' : Compat src'.files tgt'.files tasks := by rw [h2, hf]; exact compat_closed hA
  obtain ⟨s2, t2, g1, g2, g3⟩ := migrate_closed tasks src' tgt' hA' hC'
  refine ⟨s2, t2, g1, fun l => ?_, by rw [g2, h2]⟩
  rw [g3 l, h2, hf, closed_closed]

/-- **dry writes nothing**: whatever the trees hold, a dry run leaves every result location of the
target (and of the source) as it was; it can only succeed or stop with the size assertion -/
theorem dry_writes_nothing (tasks : List MTask) (src tgt src' tgt' : Tree)
    (h : migrate true (src, tgt) tasks = .ok (src', tgt')) :
    tgt'.files = tgt.files ∧ src'.files = src.files :=
  ⟨migrate_dry_tgt_files h, migrate_src_files h⟩

/-- every directory of the tree after inspection was there before or is the task directory / the
temporary directory of the inspected task -/
theorem inspect_dirs (t : MTask) (loc : Loc) (tr : Tree) :
    (∀ d ∈ tr.dirs, d ∈ (inspect t loc tr).dirs) ∧
    (∀ d ∈ (inspect t loc tr).dirs, d ∈ tr.dirs ∨ d = t.dir ∨ (t.hasTmp = true ∧ d = loc ++ "_tmp".toList)) := by
  unfold inspect; simp only []
  split
  · rename_i h
    refine ⟨fun d hd => mkdir_dirs_sub _ _ d (mkdir_dirs_sub _ _ d hd), fun d hd => ?_⟩
    rcases mkdir_dirs_new _ _ d hd with h1 | h1
    · rcases mkdir_dirs_new _ _ d h1 with h2 | h2
      · exact Or.inl h2
      · exact Or.inr (Or.inl h2)
    · exact Or.inr (Or.inr ⟨h, h1⟩)
  · refine ⟨fun d hd => mkdir_dirs_sub _ _ d hd, fun d hd => ?_⟩
    rcases mkdir_dirs_new _ _ d hd with h1 | h1
    · exact Or.inl h1
    · exact Or.inr (Or.inl h1)

theorem step_src_dirs {dry st t st'} (h : step dry st t = .ok st') :
    (∀ d ∈ st.1.dirs, d ∈ st'.1.dirs) ∧
    (∀ d ∈ st'.1.dirs, d ∈ st.1.dirs ∨ (t.persist = true ∧ (d = t.dir ∨ (t.hasTmp = true ∧ d = t.oldLoc ++ "_tmp".toList)))) := by
  have hi := inspect_dirs t t.oldLoc st.1
  have key : t.persist = true → st'.1 = inspect t t.oldLoc st.1 := by
    intro hp
    unfold step at h
    simp only [hp, Bool.not_true, Bool.false_eq_true, if_false] at h
    split at h
    · cases h; rfl
    · split at h
      · split at h
        · cases h; rfl
        · cases h
      · split at h <;> (cases h; rfl)
  by_cases hp : t.persist = true
  · rw [key hp]
    exact ⟨hi.1, fun d hd => (hi.2 d hd).imp id (fun x => ⟨hp, x⟩)⟩
  · have : st' = st := by
      unfold step at h
      simp at hp; simp [hp] at h; exact h.symm
    rw [this]; exact ⟨fun _ h => h, fun _ h => Or.inl h⟩

/-- **the source is not modified** (what holds, K5 aside): for dry and real runs alike, no result of
the source changes, no directory disappears, and every directory that appears is the task directory or
the `<name>_tmp` directory of a persisting task of the chain -/
theorem source_untouched (dry : Bool) : ∀ (tasks : List MTask) (src tgt src' tgt' : Tree),
    migrate dry (src, tgt) tasks = .ok (src', tgt') →
    src'.files = src.files ∧ (∀ d ∈ src.dirs, d ∈ src'.dirs) ∧
    (∀ d ∈ src'.dirs, d ∈ src.dirs ∨ ∃ t ∈ tasks, t.persist = true ∧
        (d = t.dir ∨ (t.hasTmp = true ∧ d = t.oldLoc ++ "_tmp".toList)))
  | [], src, tgt, src', tgt', h => by
    simp only [migrate, Except.ok.injEq, Prod.mk.injEq] at h
    obtain ⟨h1, _⟩ := h; subst h1
    exact ⟨rfl, fun _ h => h, fun _ h => Or.inl h⟩
  | t :: r, src, tgt, src', tgt', h => by
    have hf := migrate_src_files h
    simp only [migrate] at h
    split at h
    · rename_i st1 hs
      have hd := step_src_dirs hs
      have ih := source_untouched dry r st1.1 st1.2 src' tgt' h
      refine ⟨hf, fun d hd0 => ih.2.1 d (hd.1 d hd0), fun d hd' => ?_⟩
      rcases ih.2.2 d hd' with h1 | ⟨t', ht', hx⟩
      · rcases hd.2 d h1 with h2 | h2
        · exact Or.inl h2
        · exact Or.inr ⟨t, by simp, h2⟩
      · exact Or.inr ⟨t', List.mem_cons_of_mem _ ht', hx⟩
    · cases h

/-- the directories `has_data` would create exist already -/
def DirsPresent (src : Tree) (tasks : List MTask) : Prop :=
  ∀ t ∈ tasks, t.persist = true →
    src.dirs.contains t.dir = true ∧ (t.hasTmp = true → src.dirs.contains (t.oldLoc ++ "_tmp".toList) = true)

theorem mkdir_present (t : Tree) (d : Str) (h : t.dirs.contains d = true) : t.mkdir d = t := by
  unfold Tree.mkdir; rw [if_pos h]

theorem step_src_same {dry st t st'} (h : step dry st t = .ok st')
    (hd : t.persist = true → st.1.dirs.contains t.dir = true ∧ (t.hasTmp = true → st.1.dirs.contains (t.oldLoc ++ "_tmp".toList) = true)) :
    st'.1 = st.1 := by
  by_cases hp : t.persist = true
  · have hi : inspect t t.oldLoc st.1 = st.1 := by
      unfold inspect; simp only []
      rw [mkdir_present _ _ (hd hp).1]
      split
      · rename_i ht; exact mkdir_present _ _ ((hd hp).2 ht)
      · rfl
    unfold step at h
    simp only [hp, Bool.not_true, Bool.false_eq_true, if_false] at h
    split at h
    · cases h; exact hi
    · split at h
      · split at h
        · cases h; exact hi
        · cases h
      · split at h <;> (cases h; exact hi)
  · unfold step at h
    simp at hp; simp [hp] at h; rw [← h]

/-- full statement "the source tree is unchanged" — false for the current code (K5) -/
def source_untouched_full : Prop :=
  ∀ (dry : Bool) (tasks : List MTask) (src tgt src' tgt' : Tree),
    migrate dry (src, tgt) tasks = .ok (src', tgt') → src'.dirs = src.dirs ∧ src'.files = src.files

/-- **partial (K5 class excluded)**: when the task directories (and temporary directories) of all
persisting tasks exist in the source, the source tree after migration *is* the source tree before -/
theorem source_untouched_partial (dry : Bool) : ∀ (tasks : List MTask) (src tgt src' tgt' : Tree),
    DirsPresent src tasks → migrate dry (src, tgt) tasks = .ok (src', tgt') → src' = src
  | [], src, tgt, src', tgt', _, h => by
    simp only [migrate, Except.ok.injEq, Prod.mk.injEq] at h
    exact h.1.symm
  | t :: r, src, tgt, src', tgt', hd, h => by
    simp only [migrate] at h
    split at h
    · rename_i st1 hs
      have h1 : st1.1 = src := step_src_same hs (hd t (by simp))
      have : DirsPresent st1.1 r := by rw [h1]; exact fun a ha => hd a (List.mem_cons_of_mem _ ha)
      rw [source_untouched_partial dry r st1.1 st1.2 src' tgt' this h, h1]
    · cases h

/-- the K5 witness: a directory-type task that was never computed, empty trees, dry run -/
def k5Task : MTask :=
  { name := "t".toList, persist := true, hasTmp := true, isPd := false, dir := "t".toList,
    oldLoc := "t/cfg".toList, newLoc := "t/0a1b".toList }
def emptyTree : Tree := { files := fun _ => none, dirs := [] }

theorem k5_witness : ∃ src' tgt', migrate true (emptyTree, emptyTree) [k5Task] = .ok (src', tgt') ∧
    src'.dirs = ["t".toList, "t/cfg_tmp".toList] :=
  ⟨_, _, rfl, rfl⟩

theorem source_untouched_full_false : ¬ source_untouched_full := by
  intro h
  obtain ⟨s', t', hm, hd⟩ := k5_witness
  have := (h true [k5Task] emptyTree emptyTree s' t' hm).1
  rw [hd] at this
  cases this

/-! ## non-vacuity: a concrete pipeline satisfying the hypotheses -/

def tA : MTask := { name := "a".toList, persist := true, hasTmp := false, isPd := false, dir := "a".toList, oldLoc := "a/cfg.json".toList, newLoc := "a/k1.json".toList }
def tB : MTask := { name := "n::b".toList, persist := true, hasTmp := true, isPd := false, dir := "b".toList, oldLoc := "b/cfg".toList, newLoc := "b/k2".toList }
def tM : MTask := { name := "m".toList, persist := false, hasTmp := false, isPd := false, dir := "m".toList, oldLoc := [], newLoc := [] }
def srcEx : Tree := { files := fun l => if l = "a/cfg.json".toList then some ⟨12, "s1".toList⟩ else none, dirs := ["a".toList] }

example : SameSource [tA, tM, tB] := by
  intro t ht t' ht' hp hp' hl
  simp only [List.mem_cons, List.mem_nil_iff, or_false] at ht ht'
  rcases ht with rfl | rfl | rfl <;> rcases ht' with rfl | rfl | rfl <;> first | rfl | (simp [tA, tB, tM] at hp hp' hl)
example : Fresh emptyTree [tA, tM, tB] := fun _ _ => rfl
/-- … and on it the migration copies exactly the one computed result -/
example : ∃ s t, migrate false (srcEx, emptyTree) [tA, tM, tB] = .ok (s, t) ∧
    t.files "a/k1.json".toList = some ⟨12, "s1".toList⟩ ∧ t.files "b/k2".toList = none :=
  ⟨_, _, rfl, rfl, rfl⟩
example : DirsPresent { srcEx with dirs := ["a".toList, "b".toList, "b/cfg_tmp".toList] } [tA, tM, tB] := by
  intro t ht hp
  simp only [List.mem_cons, List.mem_nil_iff, or_false] at ht
  rcases ht with rfl | rfl | rfl
  · exact ⟨by decide, by intro h; cases h⟩
  · cases hp
  · exact ⟨by decide, fun _ => by decide⟩

/-! ## existing results of the target are never overwritten -/

theorem step_keeps_existing {dry st t st'} (h : step dry st t = .ok st') (l : Loc) (w : Val) (hl : st.2.files l = some w) :
    st'.2.files l = some w := by
  unfold step at h
  split at h
  · cases h; exact hl
  · simp only at h
    split at h
    · cases h; exact hl
    · split at h
      · split at h
        · cases h; simp only; rw [inspect_files]; exact hl
        · cases h
      · next hnone =>
        split at h
        · cases h; simp only; rw [inspect_files]; exact hl
        · cases h
          simp only
          rw [put_files]
          split
          · next heq =>
            subst heq
            rw [inspect_files] at hnone
            rw [hnone] at hl; cases hl
          · rw [inspect_files]; exact hl

/-- **a migration never overwrites what the target already holds** — first or repeated, dry or not, whatever the trees contain: every
result file of the target is still there, unchanged, after a migration that returns; a migration that cannot keep this refuses (the
size assertion) and writes nothing over an existing result either (each step that ends in the error has written nothing) -/
theorem migrate_keeps_existing (dry : Bool) : ∀ (tasks : List MTask) (st st' : Tree × Tree),
    migrate dry st tasks = .ok st' → ∀ l w, st.2.files l = some w → st'.2.files l = some w
  | [], st, st', h, l, w, hl => by simp only [migrate] at h; cases h; exact hl
  | t :: r, st, st', h, l, w, hl => by
    simp only [migrate] at h
    cases hs : step dry st t with
    | error e => rw [hs] at h; cases h
    | ok st1 =>
      rw [hs] at h
      exact migrate_keeps_existing dry r st1 st' h l w (step_keeps_existing hs l w hl)

/-- the prefix of a migration that ends in the size assertion has kept every existing result as well: what was processed before the
refusal is a migration of a prefix of the task list -/
theorem migrate_error_prefix (dry : Bool) : ∀ (tasks : List MTask) (st : Tree × Tree) (e : Err),
    migrate dry st tasks = .error e → ∃ (done : List MTask) (t : MTask) (rest : List MTask) (st1 : Tree × Tree),
      tasks = done ++ t :: rest ∧ migrate dry st done = .ok st1 ∧ step dry st1 t = .error e
  | [], st, e, h => by simp [migrate] at h
  | t :: r, st, e, h => by
    simp only [migrate] at h
    cases hs : step dry st t with
    | error e' =>
      rw [hs] at h; cases h
      exact ⟨[], t, r, st, rfl, rfl, hs⟩
    | ok st1 =>
      rw [hs] at h
      obtain ⟨done, t', rest, st2, h1, h2, h3⟩ := migrate_error_prefix dry r st1 e h
      refine ⟨t :: done, t', rest, st2, by rw [h1]; rfl, ?_, h3⟩
      simp only [migrate, hs]; exact h2

end TCV.C20
