import TCV.Model.RunRec
/-!
# C18 — run records describe the run that produced the stored result

For every sequence of runs in one process (successful, failing, retried, forced; any tasks, also task
objects of different chains sharing a logger name and a location), starting with no handler attached:

* `no_handler_between_runs` — after every run no file handler is attached to any task logger;
* `log_is_latest_run` — the log at a location holds exactly the lines of the LAST run at that
  location, nothing from earlier runs and nothing from other tasks;
* `runinfo_describes_latest` — the run info at a location is that of the last SUCCESSFUL run there,
  with its records in order.

The pre-repair protocol (a failed run leaves its handler attached, F5) violates the second statement:
`leaky_duplicates` proves it on the fail-then-retry witness.
-/
namespace TCV.C18
open TCV TCV.RunRec

variable {I R : Type}

theorem removeFirst_append_self (h : Str × Nat) : ∀ hs : List (Str × Nat),
    (∀ x ∈ hs, ¬ (x.1 = h.1 ∧ x.2 = h.2)) → removeFirst h (hs ++ [h]) = hs
  | [], _ => by simp [removeFirst]
  | x :: r, hx => by
    have h1 : ¬ (x.1 = h.1 ∧ x.2 = h.2) := hx x (by simp)
    have hb : (x.1 == h.1 && x.2 == h.2) = false := by
      cases hb : (x.1 == h.1 && x.2 == h.2)
      · rfl
      · simp only [Bool.and_eq_true, beq_iff_eq] at hb; exact absurd hb h1
    simp only [List.cons_append, removeFirst, hb, Bool.false_eq_true, if_false]
    rw [removeFirst_append_self h r (fun y hy => hx y (by simp [hy]))]

/-- with the repaired protocol, from a state without handlers, every run ends without handlers -/
theorem step_no_handlers (s : St I R) (e : RunEv I R) (h : s.handlers = []) :
    (runStep false s e).handlers = [] := by
  unfold runStep
  simp only [h, List.nil_append, Bool.false_eq_true, if_false]
  split <;> simp [removeFirst]

theorem no_handler_between_runs : ∀ (es : List (RunEv I R)) (s : St I R), s.handlers = [] →
    (runAll false s es).handlers = []
  | [], _, h => h
  | e :: r, s, h => no_handler_between_runs r _ (step_no_handlers s e h)

/-- with exactly one handler `(name, loc)` attached, lines logged through `name` go to `loc` and nowhere else -/
theorem emitAll_single (name : Str) (loc : Nat) : ∀ (lines : List Str) (logs : Nat → List Str) (l : Nat),
    emitAll [(name, loc)] name lines logs l = if l = loc then logs l ++ lines else logs l
  | [], logs, l => by simp [emitAll]
  | ln :: r, logs, l => by
    rw [emitAll, emitAll_single name loc r]
    by_cases hl : l = loc
    · subst hl; simp [emit, List.countP_cons]
    · have : (loc == l) = false := by simpa using (Ne.symm hl)
      simp [emit, hl, this, List.countP_cons]

/-- one run from a handler-free state: its location's log is exactly its lines; other logs are untouched;
run info is replaced exactly on success -/
theorem step_effect (s : St I R) (e : RunEv I R) (h : s.handlers = []) :
    (runStep false s e).logs e.loc = e.lines ∧
    (∀ l, l ≠ e.loc → (runStep false s e).logs l = s.logs l) ∧
    (e.ok = true → (runStep false s e).runinfo e.loc = some (e.info, e.records)) ∧
    (e.ok = false → (runStep false s e).runinfo = s.runinfo) ∧
    (∀ l, l ≠ e.loc → (runStep false s e).runinfo l = s.runinfo l) := by
  unfold runStep
  simp only [h, List.nil_append, Bool.false_eq_true, if_false]
  cases hok : e.ok
  · simp only [Bool.false_eq_true, if_false]
    refine ⟨?_, ?_, by simp, by simp, by simp⟩
    · rw [emitAll_single]; simp
    · intro l hl; rw [emitAll_single]; simp [hl]
  · simp only [if_true]
    refine ⟨?_, ?_, fun _ => by simp, by simp, ?_⟩
    · rw [emitAll_single]; simp
    · intro l hl; rw [emitAll_single]; simp [hl]
    · intro l hl; simp [hl]

/-- the last run at location `l` in a list of runs -/
def lastAt (l : Nat) : List (RunEv I R) → Option (RunEv I R)
  | [] => none
  | e :: r => match lastAt l r with
    | some x => some x
    | none => if e.loc = l then some e else none

def lastOkAt (l : Nat) : List (RunEv I R) → Option (RunEv I R)
  | [] => none
  | e :: r => match lastOkAt l r with
    | some x => some x
    | none => if e.loc = l ∧ e.ok = true then some e else none

/-- **the log is the latest run's**: after any sequence of runs, the log at `l` is the lines of the last run
at `l` (or what it was before, if no run touched `l`) — lines of other runs and other tasks never appear -/
theorem log_is_latest_run : ∀ (es : List (RunEv I R)) (s : St I R) (l : Nat), s.handlers = [] →
    (runAll false s es).logs l = match lastAt l es with
      | some e => e.lines
      | none => s.logs l
  | [], s, l, _ => rfl
  | e :: r, s, l, h => by
    have hs := step_no_handlers s e h
    rw [runAll, log_is_latest_run r _ l hs]
    simp only [lastAt]
    cases hr : lastAt l r with
    | some x => rfl
    | none =>
      simp only
      by_cases hl : e.loc = l
      · subst hl; simp [(step_effect s e h).1]
      · simp [hl, (step_effect s e h).2.1 l (Ne.symm hl)]

/-- **run info describes the latest successful run** -/
theorem runinfo_describes_latest : ∀ (es : List (RunEv I R)) (s : St I R) (l : Nat), s.handlers = [] →
    (runAll false s es).runinfo l = match lastOkAt l es with
      | some e => some (e.info, e.records)
      | none => s.runinfo l
  | [], s, l, _ => rfl
  | e :: r, s, l, h => by
    have hs := step_no_handlers s e h
    rw [runAll, runinfo_describes_latest r _ l hs]
    simp only [lastOkAt]
    cases hr : lastOkAt l r with
    | some x => rfl
    | none =>
      simp only
      have eff := step_effect s e h
      by_cases hl : e.loc = l
      · subst hl
        cases hok : e.ok
        · simp [hok, eff.2.2.2.1 hok]
        · simp [hok, eff.2.2.1 hok]
      · simp [hl, eff.2.2.2.2 l (Ne.symm hl)]

/-! ### the pre-repair protocol violates the property (what F5 repaired) -/

/-- fail, then retry in the same process: with the leaky protocol every line of the retry is written twice -/
theorem leaky_duplicates :
    (runAll true (St.init : St Unit Unit)
      [{ logger := "t".toList, loc := 0, lines := ["a".toList], records := [], ok := false, info := () },
       { logger := "t".toList, loc := 0, lines := ["b".toList], records := [], ok := true, info := () }]).logs 0
      = ["b".toList, "b".toList] := by rfl

/-- … and the repaired one does not -/
example :
    (runAll false (St.init : St Unit Unit)
      [{ logger := "t".toList, loc := 0, lines := ["a".toList], records := [], ok := false, info := () },
       { logger := "t".toList, loc := 0, lines := ["b".toList], records := [], ok := true, info := () }]).logs 0
      = ["b".toList] := by rfl

end TCV.C18
