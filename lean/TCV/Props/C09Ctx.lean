import TCV.Props.C09Chain
/-!
# C09 — every config of a built chain is a file part overridden by THE chain's context, for its own namespace

`processConfig_loaded`: every config `Chain._process_config` collects is the main config or was loaded (`loadCfg`) from a file
named in some `uses` entry, with the one context of the chain.  `loadCfg_data`: a loaded config's data is the data of the
selected file part after `apply_context` for exactly the config's namespace.  Together with `values_of_declaring_config_only`
and `context_precedence`: `chain_param_precedence` — every parameter of every task of a built chain is the context's entry for
exactly the declaring config's namespace, else the context's global entry, else the entry of the declaring config's file
part, else the default.
-/
namespace TCV.C09
open TCV TCV.Config TCV.Build TCV.C08

/-- the config was loaded from a file part with context `ctx` -/
def Loaded (fs : FS) (ctx : Option Ctx) (cfg : Cfg) : Prop := ∃ spec, loadCfg fs ctx spec cfg.ns = .ok cfg

theorem loadCfg_ns (fs : FS) (ctx : Option Ctx) (spec : Str) (ns : Option Str) (cfg : Cfg)
    (h : loadCfg fs ctx spec ns = .ok cfg) : cfg.ns = ns := by
  unfold loadCfg at h
  simp only at h
  split at h
  · cases h
  · cases h; rfl
  · split at h
    · cases h
    · cases h; rfl

/-- the data of a loaded config: the data of one part of one file, after `apply_context` for the config's namespace -/
theorem loadCfg_data (fs : FS) (ctx : Option Ctx) (spec : Str) (ns : Option Str) (cfg : Cfg)
    (h : loadCfg fs ctx spec ns = .ok cfg) :
    ∃ (file : File) (p : Part), get? cfg.path fs = some file ∧
      (file = .single p ∨ ∃ parts pn, file = .multi parts ∧ get? pn parts = some p ∨ file = .multi parts ∧ (pn, p) ∈ parts) ∧
      cfg.data = applyContext p.data ctx ns ∧ cfg.tasks = p.tasks ∧ cfg.excluded = p.excluded := by
  unfold loadCfg at h
  simp only at h
  split at h
  · cases h
  next p hf =>
    cases h
    exact ⟨.single p, p, hf, Or.inl rfl, rfl, rfl, rfl⟩
  next parts hf =>
    split at h
    · cases h
    next pn p hpick =>
      cases h
      refine ⟨.multi parts, p, hf, Or.inr ⟨parts, pn, ?_⟩, rfl, rfl, rfl⟩
      -- the part was picked by name or as the main part
      split at hpick
      · split at hpick
        · cases hpick; exact Or.inl ⟨rfl, by assumption⟩
        · cases hpick
      · split at hpick
        next kv hfind =>
          cases hpick
          exact Or.inr ⟨rfl, List.mem_of_find?_eq_some hfind⟩
        · cases hpick

theorem foldlM_loaded (fs : FS) (ctx : Option Ctx) (fuel : Nat) (cfgNs : Option Str)
    (ih : ∀ (cfg : Cfg) (acc acc' : List Cfg), processConfig fs ctx fuel cfg acc = .ok acc' → Loaded fs ctx cfg →
      (∀ c ∈ acc, Loaded fs ctx c) → ∀ c ∈ acc', Loaded fs ctx c) :
    ∀ (uses : List Str) (acc acc' : List Cfg),
      uses.foldlM (fun (acc' : List Cfg) (u : Str) =>
        let (path, ns) := match splitAs u with
          | some (p, alias) => (p, some (joinNsOpt cfgNs alias))
          | none => (u, match cfgNs with | some n => if n.isEmpty then none else some n | none => none)
        match loadCfg fs ctx path ns with
        | Except.error e => (Except.error e : Except Err (List Cfg))
        | Except.ok used => processConfig fs ctx fuel used acc') acc = Except.ok acc' →
      (∀ c ∈ acc, Loaded fs ctx c) → ∀ c ∈ acc', Loaded fs ctx c
  | [], acc, acc', h, hl => by
    simp only [List.foldlM_nil, pure, Except.pure] at h; cases h; exact hl
  | u :: rest, acc, acc', h, hl => by
    simp only [List.foldlM_cons, bind, Except.bind] at h
    split at h
    · cases h
    next acc1 hstep =>
      refine foldlM_loaded fs ctx fuel cfgNs ih rest acc1 acc' h ?_
      -- one `uses` entry
      split at hstep
      · cases hstep
      next used hload =>
        have hns := loadCfg_ns fs ctx _ _ used hload
        exact ih used acc acc1 hstep ⟨_, by rw [hns]; exact hload⟩ hl

/-- every config the chain collects was loaded with the chain's context (given that the main config was) -/
theorem processConfig_loaded (fs : FS) (ctx : Option Ctx) : ∀ (fuel : Nat) (cfg : Cfg) (acc acc' : List Cfg),
    processConfig fs ctx fuel cfg acc = .ok acc' → Loaded fs ctx cfg → (∀ c ∈ acc, Loaded fs ctx c) → ∀ c ∈ acc', Loaded fs ctx c
  | 0, cfg, acc, acc', h, _, _ => by simp [processConfig] at h
  | fuel + 1, cfg, acc, acc', h, hc, hl => by
    simp only [processConfig] at h
    split at h
    · cases h; exact hl
    · refine foldlM_loaded fs ctx fuel cfg.ns (processConfig_loaded fs ctx fuel) cfg.uses (acc ++ [cfg]) acc' h ?_
      intro c hcm
      rcases List.mem_append.mp hcm with h1 | h1
      · exact hl c h1
      · simp only [List.mem_singleton] at h1; subst h1; exact hc

section
variable {H : Str → Str} {pr : Char → Bool} {fs : FS} {classes : Classes} {main : Str} {mainNs : Option Str}
  {reg : Registry} {next fuel : Nat} {c : Chain}

/-- **C09, whole chain: where every parameter value comes from.**  For every task of a built chain: its declaring config is
one part of one config file, overridden by the chain's context for exactly the config's namespace; the task's parameter table is
`set_values` against that data — so (`context_precedence`) a value is, in this order, the context's entry for exactly that
namespace, the context's global entry, the file part's entry, the declared default. -/
theorem chain_param_precedence (S : Stages H pr fs classes main mainNs reg next fuel c) :
    ∀ t ∈ c.tasks, ∃ (cfg : Cfg) (cls : ClassDecl) (file : File) (p : Part),
      S.cfgs[t.cfgIx]? = some cfg ∧ t.ns = cfg.ns ∧ cls.cid = t.cid ∧ get? cfg.path fs = some file ∧
      cfg.data = applyContext p.data S.ctx cfg.ns ∧ setParams cls.params (applyContext p.data S.ctx cfg.ns) = .ok t.params := by
  intro t ht
  obtain ⟨cfg, cid, cls, h1, _, _, h4, _, h6, h7⟩ := chain_params_from_declaring_config S t ht
  have hmain : Loaded fs S.ctx S.cfg := ⟨main, by rw [loadCfg_ns fs S.ctx main mainNs S.cfg S.hcfg]; exact S.hcfg⟩
  have hall := processConfig_loaded fs S.ctx fuel S.cfg [] S.cfgs S.hcfgs hmain (by simp)
  obtain ⟨spec, hspec⟩ := hall cfg (List.mem_of_getElem? h1)
  obtain ⟨file, p, hf, _, hd, _, _⟩ := loadCfg_data fs S.ctx spec cfg.ns cfg hspec
  exact ⟨cfg, cls, file, p, h1, h6, h4, hf, hd, by rw [← hd]; exact h7⟩

end

end TCV.C09
