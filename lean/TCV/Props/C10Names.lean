import TCV.Model.Names
/-!
# C10 / C12 — the task name derived from a class name

`MetaTask.slugname` for a class without `Meta.name`: CamelCase to snake_case, one trailing `_task` removed.  The name is
what a task is addressed by (C10) and a component of its storage path (C12).
-/
namespace TCV.C10
open TCV TCV.Names

/-- ASCII letters and digits -/
def isAlnumA (c : Char) : Bool :=
  isUpperA c || ('a'.toNat ≤ c.toNat && c.toNat ≤ 'z'.toNat) || ('0'.toNat ≤ c.toNat && c.toNat ≤ '9'.toNat)

/-- a CamelCase class name: starts with an upper-case letter, letters and digits only -/
def Camel (s : Str) : Prop := ∃ c r, s = c :: r ∧ isUpperA c = true ∧ ∀ x ∈ r, isAlnumA x = true

def upperA (c : Char) : Char := if 'a'.toNat ≤ c.toNat && c.toNat ≤ 'z'.toNat then Char.ofNat (c.toNat - 32) else c

theorem toNat_ofNat_small (n : Nat) (h : n < 128) : (Char.ofNat n).toNat = n := by
  have hv : n.isValidChar := Or.inl (by omega)
  simp [Char.ofNat, hv, Char.toNat, Char.ofNatAux]

theorem upper_lower (c : Char) (hU : isUpperA c = true) : upperA (lowerA c) = c := by
  have h := hU
  simp only [isUpperA, Bool.and_eq_true, decide_eq_true_eq] at h
  have h1 : 'A'.toNat = 65 := rfl
  have h2 : 'Z'.toNat = 90 := rfl
  have hl : lowerA c = Char.ofNat (c.toNat + 32) := by simp [lowerA, hU]
  have hn : (Char.ofNat (c.toNat + 32)).toNat = c.toNat + 32 := toNat_ofNat_small _ (by omega)
  have h3 : 'a'.toNat = 97 := rfl
  have h4 : 'z'.toNat = 122 := rfl
  rw [hl]
  simp only [upperA, hn]
  rw [if_pos (by simp only [Bool.and_eq_true, decide_eq_true_eq]; omega)]
  have : c.toNat + 32 - 32 = c.toNat := by omega
  rw [this]
  exact Char.ofNat_toNat c

theorem lower_not_upper (c : Char) (hU : isUpperA c = true) : isUpperA (lowerA c) = false ∧ lowerA c ≠ '_' := by
  have h := hU
  simp only [isUpperA, Bool.and_eq_true, decide_eq_true_eq] at h
  have h1 : 'A'.toNat = 65 := rfl
  have h2 : 'Z'.toNat = 90 := rfl
  have hl : lowerA c = Char.ofNat (c.toNat + 32) := by simp [lowerA, hU]
  have hn : (Char.ofNat (c.toNat + 32)).toNat = c.toNat + 32 := toNat_ofNat_small _ (by omega)
  rw [hl]
  constructor
  · simp only [isUpperA, hn, Bool.and_eq_false_iff, decide_eq_false_iff_not]
    right; omega
  · intro he
    have := congrArg Char.toNat he
    rw [hn] at this
    have h5 : '_'.toNat = 95 := rfl
    omega

/-- the result contains no upper-case letter -/
theorem snakeTail_no_upper : ∀ (s : Str), ∀ c ∈ snakeTail s, isUpperA c = false
  | [], c, h => by simp [snakeTail] at h
  | x :: r, c, h => by
    simp only [snakeTail] at h
    split at h
    next hx =>
      simp only [List.mem_cons] at h
      rcases h with rfl | rfl | h
      · decide
      · exact (lower_not_upper x hx).1
      · exact snakeTail_no_upper r c h
    next hx =>
      simp only [List.mem_cons] at h
      rcases h with rfl | h
      · simpa using hx
      · exact snakeTail_no_upper r c h

theorem snakeTail_append : ∀ (a b : Str), snakeTail (a ++ b) = snakeTail a ++ snakeTail b
  | [], b => rfl
  | x :: a, b => by
    simp only [List.cons_append, snakeTail]
    split <;> simp [snakeTail_append a b]

/-- decoder for the tail -/
def unsnakeTail : Str → Str
  | [] => []
  | [c] => [c]
  | c :: d :: r => if c = '_' then upperA d :: unsnakeTail r else c :: unsnakeTail (d :: r)

theorem unsnakeTail_cons_ne (x : Char) (r : Str) (hne : x ≠ '_') : unsnakeTail (x :: r) = x :: unsnakeTail r := by
  cases r with
  | nil => simp [unsnakeTail]
  | cons d r => simp [unsnakeTail, hne]

theorem alnum_not_underscore (x : Char) (h : isAlnumA x = true) : x ≠ '_' := by
  intro he
  subst he
  revert h
  decide

theorem unsnakeTail_snakeTail : ∀ (r : Str), (∀ x ∈ r, isAlnumA x = true) → unsnakeTail (snakeTail r) = r
  | [], _ => rfl
  | x :: r, h => by
    have ih := unsnakeTail_snakeTail r (fun y hy => h y (List.mem_cons_of_mem _ hy))
    simp only [snakeTail]
    split
    next hx =>
      simp only [unsnakeTail, if_true, ih, upper_lower x hx]
    next hx =>
      have hne : x ≠ '_' := alnum_not_underscore x (h x (List.mem_cons_self ..))
      rw [unsnakeTail_cons_ne x _ hne, ih]

/-- **different CamelCase class names have different snake_case names** -/
theorem snake_injective (a b : Str) (ha : Camel a) (hb : Camel b) (h : snake a = snake b) : a = b := by
  obtain ⟨c, r, rfl, hc, hr⟩ := ha
  obtain ⟨d, q, rfl, hd, hq⟩ := hb
  simp only [snake, List.cons.injEq] at h
  have h1 : c = d := by rw [← upper_lower c hc, ← upper_lower d hd, h.1]
  have h2 : r = q := by rw [← unsnakeTail_snakeTail r hr, ← unsnakeTail_snakeTail q hq, h.2]
  rw [h1, h2]

theorem isSuffixOf_append_self (x s : Str) : s.isSuffixOf (x ++ s) = true := by
  rw [List.isSuffixOf_iff_suffix]
  exact List.suffix_append x s

theorem strip_append (x : Str) : stripTaskSuffix (x ++ "_task".toList) = x := by
  unfold stripTaskSuffix
  rw [if_pos (isSuffixOf_append_self x _)]
  simp

/-- a class named `<Something>Task` is addressed as `<something>`: exactly one trailing `_task` goes, at the end only -/
theorem class_suffix_task (s : Str) (hs : s ≠ []) : classTaskName (s ++ "Task".toList) = snake s := by
  obtain ⟨c, r, rfl⟩ := List.exists_cons_of_ne_nil hs
  have : snake (c :: r ++ "Task".toList) = snake (c :: r) ++ "_task".toList := by
    simp only [snake, List.cons_append, snakeTail_append]
    rfl
  unfold classTaskName
  rw [this, strip_append]

theorem camel_append_task (b : Str) (hb : Camel b) : Camel (b ++ "Task".toList) := by
  obtain ⟨d, q, rfl, hd, hq⟩ := hb
  refine ⟨d, q ++ "Task".toList, rfl, hd, ?_⟩
  intro x hx
  rcases List.mem_append.mp hx with h | h
  · exact hq x h
  · have e : "Task".toList = ['T', 'a', 's', 'k'] := by decide
    rw [e] at h
    simp only [List.mem_cons, List.not_mem_nil, or_false] at h
    rcases h with rfl | rfl | rfl | rfl <;> decide

theorem strip_cases (s : Str) : (stripTaskSuffix s = s ∧ ("_task".toList.isSuffixOf s) = false) ∨
    (∃ x, s = x ++ "_task".toList ∧ stripTaskSuffix s = x) := by
  unfold stripTaskSuffix
  by_cases h : "_task".toList.isSuffixOf s = true
  · right
    rw [if_pos h]
    rw [List.isSuffixOf_iff_suffix] at h
    obtain ⟨x, hx⟩ := h
    refine ⟨x, hx.symm, ?_⟩
    rw [← hx]; simp
  · left
    rw [if_neg h]
    exact ⟨rfl, Bool.eq_false_iff.mpr h⟩

/-- **two CamelCase classes get the same task name only if one is the other with `Task` appended** (the documented
convention `FooTask` ↦ `foo`); in particular a `Task` in the middle of a class name never makes two classes collide -/
theorem classTaskName_injective (a b : Str) (ha : Camel a) (hb : Camel b) (h : classTaskName a = classTaskName b) :
    a = b ∨ a = b ++ "Task".toList ∨ b = a ++ "Task".toList := by
  unfold classTaskName at h
  have hbne : b ≠ [] := by obtain ⟨d, q, rfl, _⟩ := hb; simp
  have hane : a ≠ [] := by obtain ⟨d, q, rfl, _⟩ := ha; simp
  rcases strip_cases (snake a) with ⟨ea, _⟩ | ⟨x, hxa, ea⟩ <;> rcases strip_cases (snake b) with ⟨eb, _⟩ | ⟨y, hyb, eb⟩
  · rw [ea, eb] at h
    exact Or.inl (snake_injective a b ha hb h)
  · -- `b` ends in `_task`, `a` is `b` without it
    rw [ea, eb] at h
    right; right
    have : snake b = snake (a ++ "Task".toList) := by
      rw [hyb, ← h]
      have := class_suffix_task a hane
      unfold classTaskName at this
      obtain ⟨c, r, rfl⟩ := List.exists_cons_of_ne_nil hane
      simp only [snake, List.cons_append, snakeTail_append]
      rfl
    exact snake_injective b _ hb (camel_append_task a ha) this
  · rw [ea, eb] at h
    right; left
    have : snake a = snake (b ++ "Task".toList) := by
      rw [hxa, h]
      obtain ⟨c, r, rfl⟩ := List.exists_cons_of_ne_nil hbne
      simp only [snake, List.cons_append, snakeTail_append]
      rfl
    exact snake_injective a _ ha (camel_append_task b hb) this
  · rw [ea, eb] at h
    left
    exact snake_injective a b ha hb (by rw [hxa, hyb, h])

/-- the witness of a seeded defect: `ExportTaskList` and `ExportList` are different tasks -/
example : classTaskName "ExportTaskList".toList = "export_task_list".toList ∧
    classTaskName "ExportList".toList = "export_list".toList ∧ classTaskName "ExportTask".toList = "export".toList := by decide

example : Camel "ExportTaskList".toList := ⟨'E', "xportTaskList".toList, rfl, by decide, by decide⟩

end TCV.C10
