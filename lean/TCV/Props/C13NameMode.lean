import TCV.Props.C12NameMode
/-!
# C13 in name mode — what the member chains of a `MultiChain(…, parameter_mode=False)` share

In name mode the member chains share one registry `(task name, config.repr_name_without_namespace) ↦ task object`
(`BuildNM.buildMulti`).  The theorems characterise sharing exactly:

* `nm_multichain_objects`: every task of every member chain is declared by a config `cfg` of THAT member (class `c`, name
  `fullName cfg.ns c.slug`), and its object — own or taken from the registry — was made for a class with the same task name by a
  config `cfg'` of this or an EARLIER member with the same `repr_name_without_namespace` as `cfg`; its storage key is `cfg'.name` and
  its parameters are `cfg'`'s.
* `nm_multichain_member_keys`: when the configs of the members with equal `repr_name_without_namespace` have equal names (file paths
  and part names determine names — true of files on disk), every member task has the storage key `cfg.name` of its OWN declaring
  config: membership in a MultiChain changes no location.
-/
namespace TCV.C13NM
open TCV TCV.Config TCV.Build TCV.BuildNM TCV.C08

/-- object `o` was made by a config of `pool` whose `repr_name_without_namespace` is `rn`, for a class whose task name is `o.slug` -/
def Made (pool : List Cfg) (o : Obj) (rn : Str) : Prop :=
  ∃ cfg' ∈ pool, reprNameNoNs cfg' = rn ∧ o.cfgName = cfg'.name ∧
    ∃ c' : ClassDecl, c'.slug = o.slug ∧ setParams c'.params cfg'.data = .ok o.params

def RegInv (pool : List Cfg) (reg : BuildNM.Registry) : Prop :=
  ∀ e ∈ reg, e.1.1 = e.2.slug ∧ Made pool e.2 e.1.2

/-- the chain's entry `p` is declared by a config of `cfgs`, and its object was made for that declaration's registry key -/
def TaskInv (classes : Classes) (pool cfgs : List Cfg) (p : Str × Obj) : Prop :=
  ∃ cfg ∈ cfgs, ∃ cid ∈ cfg.tasks, ∃ c, get? cid classes = some c ∧ p.1 = fullName cfg.ns c.slug ∧ p.2.slug = c.slug ∧
    Made pool p.2 (reprNameNoNs cfg)

def StInv (classes : Classes) (pool cfgs : List Cfg) (st : St) : Prop :=
  (∀ p ∈ st.tasks, TaskInv classes pool cfgs p) ∧ RegInv pool st.reg

theorem made_mono {pool pool' : List Cfg} (h : ∀ x ∈ pool, x ∈ pool') {o : Obj} {rn : Str} (hm : Made pool o rn) : Made pool' o rn := by
  obtain ⟨cfg', hc, rest⟩ := hm
  exact ⟨cfg', h _ hc, rest⟩

theorem regInv_mono {pool pool' : List Cfg} (h : ∀ x ∈ pool, x ∈ pool') {reg : BuildNM.Registry} (hr : RegInv pool reg) : RegInv pool' reg :=
  fun e he => ⟨(hr e he).1, made_mono h (hr e he).2⟩

theorem regGet_key (k : Str × Str) : ∀ (reg : BuildNM.Registry) (o : Obj), BuildNM.regGet k reg = some o →
    ∃ e, e ∈ reg ∧ e.2 = o ∧ e.1.1 = k.1 ∧ e.1.2 = k.2
  | [], o, h => by simp [BuildNM.regGet] at h
  | (k', v) :: r, o, h => by
    simp only [BuildNM.regGet] at h
    split at h
    next hk =>
      cases h
      simp only [Bool.and_eq_true, beq_iff_eq] at hk
      exact ⟨(k', v), List.mem_cons_self .., rfl, hk.1, hk.2⟩
    · obtain ⟨e, he, h2⟩ := regGet_key k r o h
      exact ⟨e, List.mem_cons_of_mem _ he, h2⟩

theorem register_new (name : Str) (o : Obj) : ∀ (ts ts' : List (Str × Obj)), BuildNM.register name o ts = .ok ts' →
    ∀ p ∈ ts', p ∈ ts ∨ p = (name, o)
  | [], ts', h, p, hp => by
    simp only [BuildNM.register] at h; cases h
    simp at hp; exact Or.inr hp
  | (n, u) :: r, ts', h, p, hp => by
    simp only [BuildNM.register] at h
    split at h
    · split at h
      · cases h
        rcases List.mem_cons.mp hp with rfl | hp
        · exact Or.inr rfl
        · exact Or.inl (List.mem_cons_of_mem _ hp)
      · cases h
    · cases hr : BuildNM.register name o r with
      | error e => rw [hr] at h; cases h
      | ok r' =>
        rw [hr] at h; cases h
        rcases List.mem_cons.mp hp with rfl | hp
        · exact Or.inl (List.mem_cons_self ..)
        · rcases register_new name o r r' hr p hp with h1 | h1
          · exact Or.inl (List.mem_cons_of_mem _ h1)
          · exact Or.inr h1

theorem addTasks_inv (classes : Classes) (pool cfgs : List Cfg) (cfg : Cfg) (cfgId : Nat) (hc : cfg ∈ cfgs) (hp : cfg ∈ pool) :
    ∀ (todo : List Str) (st st' : St), (∀ x ∈ todo, x ∈ cfg.tasks) → BuildNM.addTasks classes cfg cfgId todo st = .ok st' →
      StInv classes pool cfgs st → StInv classes pool cfgs st'
  | [], st, st', _, h, hs => by simp only [BuildNM.addTasks] at h; cases h; exact hs
  | cid :: rest, st, st', hsub, h, hs => by
    have hsub' : ∀ x ∈ rest, x ∈ cfg.tasks := fun x hx => hsub x (List.mem_cons_of_mem _ hx)
    simp only [BuildNM.addTasks] at h
    cases hcl : get? cid classes with
    | none => rw [hcl] at h; cases h
    | some c =>
      rw [hcl] at h
      simp only at h
      split at h
      · exact addTasks_inv classes pool cfgs cfg cfgId hc hp rest st st' hsub' h hs
      · cases hps : setParams c.params cfg.data with
        | error e => rw [hps] at h; cases h
        | ok ps =>
          rw [hps] at h
          simp only at h
          split at h
          · cases h
          next ts hreg =>
            refine addTasks_inv classes pool cfgs cfg cfgId hc hp rest _ st' hsub' h ?_
            cases hg : BuildNM.regGet (c.slug, reprNameNoNs cfg) st.reg with
            | some o =>
              simp only [hg] at hreg ⊢
              obtain ⟨e, he, heo, hk1, hk2⟩ := regGet_key _ st.reg o hg
              have hinv := hs.2 e he
              have hslug : o.slug = c.slug := by rw [← heo, ← hinv.1]; exact hk1
              have hmade : Made pool o (reprNameNoNs cfg) := by
                have := hinv.2; rw [heo, hk2] at this; exact this
              constructor
              · intro p hpm
                rcases register_new _ _ st.tasks ts hreg p hpm with h1 | h1
                · exact hs.1 p h1
                · subst h1
                  exact ⟨cfg, hc, cid, hsub cid (List.mem_cons_self ..), c, hcl, rfl, hslug, hmade⟩
              · exact hs.2
            | none =>
              simp only [hg] at hreg ⊢
              have hmade : Made pool { id := st.next, cfgId := cfgId, cid := cid, slug := c.slug, ns := cfg.ns, params := ps, cfgName := cfg.name : Obj }
                  (reprNameNoNs cfg) := ⟨cfg, hp, rfl, rfl, c, rfl, hps⟩
              constructor
              · intro p hpm
                rcases register_new _ _ st.tasks ts hreg p hpm with h1 | h1
                · exact hs.1 p h1
                · subst h1
                  exact ⟨cfg, hc, cid, hsub cid (List.mem_cons_self ..), c, hcl, rfl, rfl, hmade⟩
              · intro e he
                rcases List.mem_append.mp he with h1 | h1
                · exact hs.2 e h1
                · simp only [List.mem_singleton] at h1; subst h1; exact ⟨rfl, hmade⟩

theorem createTasksFrom_inv (classes : Classes) (pool cfgs : List Cfg) : ∀ (rest : List Cfg) (cfgId : Nat) (st st' : St),
    (∀ x ∈ rest, x ∈ cfgs ∧ x ∈ pool) → BuildNM.createTasksFrom classes rest cfgId st = .ok st' →
      StInv classes pool cfgs st → StInv classes pool cfgs st'
  | [], _, st, st', _, h, hs => by simp only [BuildNM.createTasksFrom] at h; cases h; exact hs
  | cfg :: rest, cfgId, st, st', hsub, h, hs => by
    simp only [BuildNM.createTasksFrom] at h
    cases ha : BuildNM.addTasks classes cfg cfgId cfg.tasks st with
    | error e => rw [ha] at h; cases h
    | ok st1 =>
      rw [ha] at h
      simp only at h
      have hc := hsub cfg (List.mem_cons_self ..)
      exact createTasksFrom_inv classes pool cfgs rest (cfgId + 1) st1 st' (fun x hx => hsub x (List.mem_cons_of_mem _ hx)) h
        (addTasks_inv classes pool cfgs cfg cfgId hc.1 hc.2 cfg.tasks st st1 (fun _ hx => hx) ha hs)

/-- `cfgs` is the list of configs the chain of `main` (with its context) is built from -/
def IsCfgsOf (fs : FS) (cfs : CtxFS) (fuel : Nat) (main : Str) (mainNs : Option Str) (ctxSrc : Option CtxSrc) (cfgs : List Cfg) : Prop :=
  ∃ ctx cfg, ctxStage cfs fuel ctxSrc = .ok ctx ∧ loadCfg fs ctx main mainNs = .ok cfg ∧ processConfig fs ctx fuel cfg [] = .ok cfgs

/-- one name-mode chain built against a registry that satisfies the invariant for `pool0` -/
theorem build_inv (fs : FS) (cfs : CtxFS) (classes : Classes) (main : Str) (mainNs : Option Str) (ctxSrc : Option CtxSrc)
    (reg : BuildNM.Registry) (next cfgBase fuel : Nat) (c : BuildNM.Chain) (pool0 : List Cfg) (hreg : RegInv pool0 reg)
    (h : BuildNM.build fs cfs classes main mainNs ctxSrc reg next cfgBase fuel = .ok c) :
    ∃ cfgs, IsCfgsOf fs cfs fuel main mainNs ctxSrc cfgs ∧
      (∀ t ∈ c.tasks, TaskInv classes (pool0 ++ cfgs) cfgs (t.full, t.obj)) ∧ RegInv (pool0 ++ cfgs) c.reg := by
  unfold BuildNM.build at h
  simp only [bind, Except.bind, pure, Except.pure] at h
  repeat' split at h
  all_goals first | cases h | skip
  all_goals
    rename_i hst _ _ _ _
    have hinv := createTasksFrom_inv classes (pool0 ++ _) _ _ _ _ _
      (fun x hx => ⟨hx, List.mem_append_right _ hx⟩) hst
      ⟨by simp, regInv_mono (fun x hx => List.mem_append_left _ hx) hreg⟩
    refine ⟨_, ⟨_, _, ?_, by assumption, by assumption⟩, ?_, hinv.2⟩
    · first
        | rfl
        | (simp only [ctxStage]; assumption)
    · intro t ht
      obtain ⟨p, hp, rfl⟩ := List.mem_map.mp ht
      exact hinv.1 p hp

section
variable (fs : FS) (cfs : CtxFS) (classes : Classes) (fuel : Nat)

/-- `x` is a config of one of the member chains of `mains` (or of the initial pool) -/
def InMembers (mains : List (Str × Option CtxSrc)) (pool0 : List Cfg) (x : Cfg) : Prop :=
  x ∈ pool0 ∨ ∃ m ∈ mains, ∃ cfgs, IsCfgsOf fs cfs fuel m.1 none m.2 cfgs ∧ x ∈ cfgs

theorem buildMultiAux_inv : ∀ (mains : List (Str × Option CtxSrc)) (seen : List Str) (reg : BuildNM.Registry) (next cfgBase : Nat)
    (cs : List BuildNM.Chain) (pool0 : List Cfg), RegInv pool0 reg →
    BuildNM.buildMultiAux fs cfs classes fuel mains seen reg next cfgBase = .ok cs →
    ∀ c ∈ cs, ∃ m ∈ mains, ∃ cfgs, IsCfgsOf fs cfs fuel m.1 none m.2 cfgs ∧
      ∃ pool, (∀ x ∈ pool, InMembers fs cfs fuel mains pool0 x) ∧ ∀ t ∈ c.tasks, TaskInv classes pool cfgs (t.full, t.obj)
  | [], _, _, _, _, cs, _, _, h, c, hc => by
    simp only [BuildNM.buildMultiAux] at h; cases h; cases hc
  | m :: rest, seen, reg, next, cfgBase, cs, pool0, hreg, h, c, hc => by
    simp only [BuildNM.buildMultiAux] at h
    cases hn : mainName fs m.1 with
    | error e => rw [hn] at h; cases h
    | ok nm =>
    rw [hn] at h
    simp only at h
    split at h
    · cases h
    cases hb : BuildNM.build fs cfs classes m.1 none m.2 reg next cfgBase fuel with
    | error e => rw [hb] at h; cases h
    | ok c0 =>
      rw [hb] at h
      simp only at h
      cases hr : BuildNM.buildMultiAux fs cfs classes fuel rest (nm :: seen) c0.reg c0.next c0.nextCfg with
      | error e => rw [hr] at h; cases h
      | ok cs' =>
        rw [hr] at h
        cases h
        obtain ⟨cfgs, hcf, htasks, hreg'⟩ := build_inv fs cfs classes m.1 none m.2 reg next cfgBase fuel c0 pool0 hreg hb
        rcases List.mem_cons.mp hc with rfl | hc'
        · refine ⟨m, List.mem_cons_self .., cfgs, hcf, pool0 ++ cfgs, ?_, htasks⟩
          intro x hx
          rcases List.mem_append.mp hx with h1 | h1
          · exact Or.inl h1
          · exact Or.inr ⟨m, List.mem_cons_self .., cfgs, hcf, h1⟩
        · obtain ⟨m', hm', cfgs', hcf', pool, hpool, ht⟩ :=
            buildMultiAux_inv rest (nm :: seen) c0.reg c0.next c0.nextCfg cs' (pool0 ++ cfgs) hreg' hr c hc'
          refine ⟨m', List.mem_cons_of_mem _ hm', cfgs', hcf', pool, ?_, ht⟩
          intro x hx
          rcases hpool x hx with h1 | ⟨m2, hm2, cf2, hcf2, hx2⟩
          · rcases List.mem_append.mp h1 with h2 | h2
            · exact Or.inl h2
            · exact Or.inr ⟨m, List.mem_cons_self .., cfgs, hcf, h2⟩
          · exact Or.inr ⟨m2, List.mem_cons_of_mem _ hm2, cf2, hcf2, hx2⟩

/-- `x` is a config of one of the member chains -/
def MemberCfg (mains : List (Str × Option CtxSrc)) (x : Cfg) : Prop :=
  ∃ m ∈ mains, ∃ cfgs, IsCfgsOf fs cfs fuel m.1 none m.2 cfgs ∧ x ∈ cfgs

/-- **what the members of a name-mode MultiChain share.**  Every task of every member chain is declared by a config `cfg` of that
member (class `cl`, full name `fullName cfg.ns cl.slug`); its object — created for this member or taken from the shared registry —
was created for a class with the same task name by a config `cfg'` of a member chain with the SAME `repr_name_without_namespace` as
`cfg`; its storage key is `cfg'.name` and its parameters are those `cfg'` gives to that class. -/
theorem nm_multichain_objects (mains : List (Str × Option CtxSrc)) (cs : List BuildNM.Chain)
    (h : BuildNM.buildMulti fs cfs classes mains fuel = .ok cs) :
    ∀ c ∈ cs, ∃ m ∈ mains, ∃ cfgs, IsCfgsOf fs cfs fuel m.1 none m.2 cfgs ∧
      ∀ t ∈ c.tasks, ∃ cfg ∈ cfgs, ∃ cid ∈ cfg.tasks, ∃ cl, get? cid classes = some cl ∧ t.full = fullName cfg.ns cl.slug ∧
        t.obj.slug = cl.slug ∧
        ∃ cfg', MemberCfg fs cfs fuel mains cfg' ∧ reprNameNoNs cfg' = reprNameNoNs cfg ∧ t.obj.cfgName = cfg'.name ∧
          ∃ c' : ClassDecl, c'.slug = t.obj.slug ∧ setParams c'.params cfg'.data = .ok t.obj.params := by
  unfold BuildNM.buildMulti at h
  cases ha : BuildNM.buildMultiAux fs cfs classes fuel mains [] [] 0 0 with
  | error e => rw [ha] at h; cases h
  | ok cs0 =>
    rw [ha] at h
    simp only at h
    cases h
    intro c hc
    obtain ⟨c0, hc0, rfl⟩ := List.mem_map.mp hc
    obtain ⟨m, hm, cfgs, hcf, pool, hpool, ht⟩ :=
      buildMultiAux_inv fs cfs classes fuel mains [] [] 0 0 cs0 [] (by intro e he; cases he) ha c0 hc0
    refine ⟨m, hm, cfgs, hcf, ?_⟩
    intro t htm
    simp only [List.mem_map] at htm
    obtain ⟨t0, ht0, rfl⟩ := htm
    obtain ⟨cfg, hcfg, cid, hcid, cl, hcl, hfull, hslug, cfg', hp', hrn, hname, c', hc's, hc'p⟩ := ht t0 ht0
    have hmem : MemberCfg fs cfs fuel mains cfg' := by
      rcases hpool cfg' hp' with h1 | h1
      · cases h1
      · exact h1
    split
    · exact ⟨cfg, hcfg, cid, hcid, cl, hcl, hfull, hslug, cfg', hmem, hrn, hname, c', hc's, hc'p⟩
    · exact ⟨cfg, hcfg, cid, hcid, cl, hcl, hfull, hslug, cfg', hmem, hrn, hname, c', hc's, hc'p⟩

/-- **membership in a name-mode MultiChain changes no storage key**: when configs of the member chains that have equal
`repr_name_without_namespace` (namespace-free file path and part) have equal names — names are derived from path and part — every
task of every member has the key of its OWN declaring config, which is what it has in the member chain built alone
(`C12.nm_key_is_config_name`). -/
theorem nm_multichain_member_keys (mains : List (Str × Option CtxSrc)) (cs : List BuildNM.Chain)
    (h : BuildNM.buildMulti fs cfs classes mains fuel = .ok cs)
    (hND : ∀ a b, MemberCfg fs cfs fuel mains a → MemberCfg fs cfs fuel mains b → reprNameNoNs a = reprNameNoNs b → a.name = b.name) :
    ∀ c ∈ cs, ∃ m ∈ mains, ∃ cfgs, IsCfgsOf fs cfs fuel m.1 none m.2 cfgs ∧
      ∀ t ∈ c.tasks, ∃ cfg ∈ cfgs, ∃ cid ∈ cfg.tasks, ∃ cl, get? cid classes = some cl ∧ t.full = fullName cfg.ns cl.slug ∧
        t.obj.slug = cl.slug ∧ t.obj.cfgName = cfg.name := by
  intro c hc
  obtain ⟨m, hm, cfgs, hcf, ht⟩ := nm_multichain_objects fs cfs classes fuel mains cs h c hc
  refine ⟨m, hm, cfgs, hcf, ?_⟩
  intro t htm
  obtain ⟨cfg, hcfg, cid, hcid, cl, hcl, hfull, hslug, cfg', hmem, hrn, hname, _⟩ := ht t htm
  exact ⟨cfg, hcfg, cid, hcid, cl, hcl, hfull, hslug, by rw [hname]; exact hND cfg' cfg hmem ⟨m, hm, cfgs, hcf, hcfg⟩ hrn⟩

end

/-- non-vacuity: the second member declares the pipeline of the first through `uses` and shares its objects (ids 0, 1; key `p`) -/
example : (BuildNM.buildMulti
      [("p.json".toList, .single { data := [], tasks := ["K0".toList, "K1".toList], excluded := [], uses := [] }),
       ("c1.json".toList, .single { data := [], tasks := [], excluded := [], uses := ["p.json".toList] })]
      [] [("K0".toList, { cid := "K0".toList, slug := "p1".toList, params := [], inputs := [] }),
          ("K1".toList, { cid := "K1".toList, slug := "p2".toList, params := [], inputs := [{ ref := .byClass "K0".toList }] })]
      [("p.json".toList, none), ("c1.json".toList, none)] 8).toOption.map
        (fun cs => cs.map (fun c => c.tasks.map (fun t => (t.full, t.obj.id, t.obj.cfgName)))) =
    some [[("p1".toList, 0, "p".toList), ("p2".toList, 1, "p".toList)], [("p1".toList, 0, "p".toList), ("p2".toList, 1, "p".toList)]] := by
  decide

end TCV.C13NM

namespace TCV.C13NM
open TCV TCV.Config TCV.Build TCV.BuildNM

/-- two member configs with one name are refused (`assert config.name not in self.chains`), in either mode -/
example : BuildNM.buildMulti
      [("p.json".toList, .single { data := [], tasks := [], excluded := [], uses := [] })] [] []
      [("p.json".toList, none), ("p.json".toList, none)] 8 = .error .dupChain := by
  rfl

example : (Build.buildMulti id (fun _ => true)
      [("p.json".toList, .single { data := [], tasks := [], excluded := [], uses := [] })] [] []
      [("p.json".toList, none), ("p.json".toList, none)] 8).toOption.isNone = true := by
  rfl

end TCV.C13NM

/-! ## names are determined by `repr_name_without_namespace` for clean configs -/

namespace TCV.C13NM
open TCV TCV.Config TCV.Build TCV.BuildNM TCV.Names

theorem splitNsAux_colonfree : ∀ (t cur : Str), ':' ∉ t → splitNsAux t cur = [cur.reverse ++ t]
  | [], cur, _ => by simp [splitNsAux]
  | c :: r, cur, h => by
    have hc : c ≠ ':' := fun e => h (e ▸ List.mem_cons_self ..)
    have hr : ':' ∉ r := fun e => h (List.mem_cons_of_mem _ e)
    rw [splitNsAux.eq_3 cur c r (fun _ e _ => hc e), splitNsAux_colonfree r (c :: cur) hr]
    simp

/-- the text after the last `::` of `a ++ "::" ++ t` is `t`, when `t` has no colon and `a` does not end in one -/
theorem last_split (t : Str) (ht : ':' ∉ t) : ∀ (a cur : Str), (∀ c, a.getLast? = some c → c ≠ ':') →
    (splitNsAux (a ++ ':' :: ':' :: t) cur).getLast? = some t
  | [], cur, _ => by
    rw [List.nil_append, splitNsAux.eq_2, splitNsAux_colonfree t [] ht]; simp
  | [c], cur, h => by
    have hc : c ≠ ':' := h c rfl
    rw [List.singleton_append, splitNsAux.eq_3 cur c _ (fun _ e _ => hc e)]
    exact last_split t ht [] (c :: cur) (by simp)
  | c :: d :: r, cur, h => by
    have hlast : ∀ x, (d :: r).getLast? = some x → x ≠ ':' := by
      intro x hx; apply h x; simpa [List.getLast?_cons_cons] using hx
    by_cases hcd : c = ':' ∧ d = ':'
    · obtain ⟨rfl, rfl⟩ := hcd
      have hr : ∀ x, r.getLast? = some x → x ≠ ':' := by
        intro x hx
        cases r with
        | nil => simp at hx
        | cons e r' => apply hlast x; simpa [List.getLast?_cons_cons] using hx
      have ih := last_split t ht r [] hr
      rw [List.cons_append, List.cons_append, splitNsAux.eq_2]
      cases hs : splitNsAux (r ++ ':' :: ':' :: t) [] with
      | nil => rw [hs] at ih; simp at ih
      | cons y ys => rw [hs] at ih; simpa [List.getLast?_cons_cons] using ih
    · rw [List.cons_append, splitNsAux.eq_3 cur c _ (fun r' e1 e2 => hcd ⟨e1, by
        simp only [List.cons_append, List.cons.injEq] at e2; exact e2.1⟩)]
      exact last_split t ht (d :: r) (c :: cur) hlast
termination_by a => a.length

end TCV.C13NM

namespace TCV.C13NM
open TCV TCV.Config TCV.Build TCV.BuildNM TCV.Names

/-- path and part name carry no `:`, the path no `#`, the namespace does not end in `:` — true of config files on disk mounted under
identifier-like namespaces -/
def Clean (c : Cfg) : Prop :=
  ':' ∉ c.path ∧ '#' ∉ c.path ∧ (∀ p, c.part = some p → ':' ∉ p) ∧ (∀ n, c.ns = some n → ∀ x, n.getLast? = some x → x ≠ ':')

/-- path, and `#part` when there is one -/
def body (c : Cfg) : Str :=
  match c.part with
  | some p => c.path ++ '#' :: p
  | none => c.path

theorem body_colonfree (c : Cfg) (h : Clean c) : ':' ∉ body c := by
  unfold body
  cases hp : c.part with
  | none => exact h.1
  | some p =>
    intro hm
    rcases List.mem_append.mp hm with h1 | h1
    · exact h.1 h1
    · rcases List.mem_cons.mp h1 with h2 | h2
      · cases h2
      · exact h.2.2.1 p hp h2

/-- for a clean config `repr_name_without_namespace` is the path with its `#part` -/
theorem reprNameNoNs_clean (c : Cfg) (h : Clean c) : reprNameNoNs c = body c := by
  have hb := body_colonfree c h
  unfold reprNameNoNs localOf splitNs
  cases hn : c.ns with
  | none =>
    have : c.reprName = body c := by
      unfold Cfg.reprName body; rw [hn]; cases c.part <;> rfl
    rw [this, splitNsAux_colonfree _ [] hb]; simp
  | some n =>
    have : c.reprName = n ++ ':' :: ':' :: body c := by
      unfold Cfg.reprName body; rw [hn]; cases c.part <;> simp
    rw [this, last_split (body c) hb n [] (h.2.2.2 n hn)]; simp

theorem append_sep_inj (s : Char) (a b v w : Str) (ha : s ∉ a) (hb : s ∉ b) (h : a ++ s :: v = b ++ s :: w) : a = b ∧ v = w := by
  induction a generalizing b with
  | nil =>
    cases b with
    | nil => simp at h; exact ⟨rfl, h⟩
    | cons y b' =>
      simp only [List.nil_append, List.cons_append, List.cons.injEq] at h
      exact absurd (h.1 ▸ List.mem_cons_self ..) hb
  | cons x a' ih =>
    cases b with
    | nil =>
      simp only [List.nil_append, List.cons_append, List.cons.injEq] at h
      exact absurd (h.1 ▸ List.mem_cons_self ..) ha
    | cons y b' =>
      simp only [List.cons_append, List.cons.injEq] at h
      obtain ⟨h1, h2⟩ := ih b' (fun e => ha (List.mem_cons_of_mem _ e)) (fun e => hb (List.mem_cons_of_mem _ e)) h.2
      exact ⟨by rw [h.1, h1], h2⟩

/-- **names are a function of `repr_name_without_namespace`** for clean configs: equal path-and-part texts give equal names -/
theorem clean_name_determined (a b : Cfg) (ha : Clean a) (hb : Clean b) (h : reprNameNoNs a = reprNameNoNs b) : a.name = b.name := by
  rw [reprNameNoNs_clean a ha, reprNameNoNs_clean b hb] at h
  unfold body at h
  unfold Cfg.name
  cases hpa : a.part with
  | none =>
    cases hpb : b.part with
    | none => rw [hpa, hpb] at h; simp only at h ⊢; rw [h]
    | some q =>
      rw [hpa, hpb] at h; simp only at h
      exact absurd (h ▸ List.mem_append_right _ (List.mem_cons_self ..)) ha.2.1
  | some p =>
    cases hpb : b.part with
    | none =>
      rw [hpa, hpb] at h; simp only at h
      exact absurd (h ▸ List.mem_append_right _ (List.mem_cons_self ..)) hb.2.1
    | some q =>
      rw [hpa, hpb] at h; simp only at h ⊢
      obtain ⟨h1, h2⟩ := append_sep_inj '#' _ _ _ _ ha.2.1 hb.2.1 h
      rw [h1, h2]

section
variable (fs : FS) (cfs : CtxFS) (classes : Classes) (fuel : Nat)

/-- **membership in a name-mode MultiChain changes no storage key** (no hypothesis on names left): when the configs of the member
chains are clean — paths and part names without `:`, paths without `#`, namespaces not ending in `:` — every task of every member has
the key of its own declaring config -/
theorem nm_multichain_member_keys_clean (mains : List (Str × Option CtxSrc)) (cs : List BuildNM.Chain)
    (h : BuildNM.buildMulti fs cfs classes mains fuel = .ok cs)
    (hclean : ∀ c, MemberCfg fs cfs fuel mains c → Clean c) :
    ∀ c ∈ cs, ∃ m ∈ mains, ∃ cfgs, IsCfgsOf fs cfs fuel m.1 none m.2 cfgs ∧
      ∀ t ∈ c.tasks, ∃ cfg ∈ cfgs, ∃ cid ∈ cfg.tasks, ∃ cl, get? cid classes = some cl ∧ t.full = fullName cfg.ns cl.slug ∧
        t.obj.slug = cl.slug ∧ t.obj.cfgName = cfg.name :=
  nm_multichain_member_keys fs cfs classes fuel mains cs h
    (fun a b ha hb hab => clean_name_determined a b (hclean a ha) (hclean b hb) hab)

end

/-- non-vacuity: a clean config (`dir/p.json`, part `a`, namespace `m::k`) and what its `repr_name_without_namespace` is -/
example : Clean { path := "dir/p.json".toList, part := some "a".toList, ns := some "m::k".toList, data := [], tasks := [], excluded := [], uses := [] } ∧
    reprNameNoNs { path := "dir/p.json".toList, part := some "a".toList, ns := some "m::k".toList, data := [], tasks := [], excluded := [], uses := [] }
      = "dir/p.json#a".toList := by
  refine ⟨⟨by decide, by decide, ?_, ?_⟩, by decide⟩
  · intro p hp; cases hp; decide
  · intro n hn; cases hn; intro x hx; cases hx; decide

end TCV.C13NM

/-! ## member chains are filed under pairwise different names -/

namespace TCV.C13NM
open TCV TCV.Config TCV.Build TCV.BuildNM

/-- the names under which the members of `mains` are filed -/
def MemberNames (fs : FS) : List (Str × Option CtxSrc) → List Str → Prop
  | [], ns => ns = []
  | m :: rest, ns => ∃ n ns', ns = n :: ns' ∧ mainName fs m.1 = .ok n ∧ MemberNames fs rest ns'

/-- **a MultiChain that is built files its members under pairwise different names** (parameter mode): `buildMultiAux` succeeds only if no
member's config name is among the names seen before — so `mc[name]` is never a chain that silently replaced another -/
theorem multi_names_distinct (H : Str → Str) (pr : Char → Bool) (fs : FS) (cfs : CtxFS) (classes : Classes) (fuel : Nat) :
    ∀ (mains : List (Str × Option CtxSrc)) (seen : List Str) (reg : Build.Registry) (next : Nat) (cs : List Build.Chain),
      Build.buildMultiAux H pr fs cfs classes fuel mains seen reg next = .ok cs →
      ∃ names, MemberNames fs mains names ∧ names.Nodup ∧ ∀ n ∈ names, n ∉ seen
  | [], seen, reg, next, cs, h => ⟨[], rfl, List.nodup_nil, by simp⟩
  | m :: rest, seen, reg, next, cs, h => by
    simp only [Build.buildMultiAux] at h
    cases hn : mainName fs m.1 with
    | error e => rw [hn] at h; cases h
    | ok nm =>
    rw [hn] at h
    simp only at h
    split at h
    · cases h
    next hseen =>
    cases hb : Build.build H pr fs cfs classes m.1 none m.2 reg next fuel with
    | error e => rw [hb] at h; cases h
    | ok c =>
      rw [hb] at h
      simp only at h
      cases hr : Build.buildMultiAux H pr fs cfs classes fuel rest (nm :: seen) c.reg c.next with
      | error e => rw [hr] at h; cases h
      | ok cs' =>
        obtain ⟨names, hmn, hnd, hns⟩ := multi_names_distinct H pr fs cfs classes fuel rest (nm :: seen) c.reg c.next cs' hr
        have hnm : nm ∉ seen := by
          intro hin; exact hseen (List.contains_iff_mem.mpr hin)
        refine ⟨nm :: names, ⟨nm, names, rfl, hn, hmn⟩, ?_, ?_⟩
        · refine List.nodup_cons.mpr ⟨?_, hnd⟩
          intro hin; exact hns nm hin (List.mem_cons_self ..)
        · intro n hn'
          rcases List.mem_cons.mp hn' with rfl | h1
          · exact hnm
          · intro hin; exact hns n h1 (List.mem_cons_of_mem _ hin)

/-- the same in name mode -/
theorem nm_multi_names_distinct (fs : FS) (cfs : CtxFS) (classes : Classes) (fuel : Nat) :
    ∀ (mains : List (Str × Option CtxSrc)) (seen : List Str) (reg : BuildNM.Registry) (next cfgBase : Nat) (cs : List BuildNM.Chain),
      BuildNM.buildMultiAux fs cfs classes fuel mains seen reg next cfgBase = .ok cs →
      ∃ names, MemberNames fs mains names ∧ names.Nodup ∧ ∀ n ∈ names, n ∉ seen
  | [], seen, reg, next, cfgBase, cs, h => ⟨[], rfl, List.nodup_nil, by simp⟩
  | m :: rest, seen, reg, next, cfgBase, cs, h => by
    simp only [BuildNM.buildMultiAux] at h
    cases hn : mainName fs m.1 with
    | error e => rw [hn] at h; cases h
    | ok nm =>
    rw [hn] at h
    simp only at h
    split at h
    · cases h
    next hseen =>
    cases hb : BuildNM.build fs cfs classes m.1 none m.2 reg next cfgBase fuel with
    | error e => rw [hb] at h; cases h
    | ok c =>
      rw [hb] at h
      simp only at h
      cases hr : BuildNM.buildMultiAux fs cfs classes fuel rest (nm :: seen) c.reg c.next c.nextCfg with
      | error e => rw [hr] at h; cases h
      | ok cs' =>
        obtain ⟨names, hmn, hnd, hns⟩ := nm_multi_names_distinct fs cfs classes fuel rest (nm :: seen) c.reg c.next c.nextCfg cs' hr
        have hnm : nm ∉ seen := by
          intro hin; exact hseen (List.contains_iff_mem.mpr hin)
        refine ⟨nm :: names, ⟨nm, names, rfl, hn, hmn⟩, ?_, ?_⟩
        · refine List.nodup_cons.mpr ⟨?_, hnd⟩
          intro hin; exact hns nm hin (List.mem_cons_self ..)
        · intro n hn'
          rcases List.mem_cons.mp hn' with rfl | h1
          · exact hnm
          · intro hin; exact hns n h1 (List.mem_cons_of_mem _ hin)

end TCV.C13NM
