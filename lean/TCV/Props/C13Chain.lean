import TCV.Props.C08Chain
import TCV.Props.C13
/-!
# C13 — a member chain of a MultiChain has the tasks, parameters and storage locations of the standalone chain

`Build.build … reg next` is `Chain(config, shared_tasks=registry)`; a MultiChain builds its member chains one after the
other over one growing registry, a standalone chain starts from the empty one.  The registry decides only which task
OBJECT stands behind a name (`objId`, and the creator's namespace / parameters / class the object carries).  Everything
else — which tasks exist, in which order they are created, their parameter values, their first-pass input tables and their
keys (= storage locations) — is independent of the registry: `recreate_sim`, by induction on the recursion fuel, and
`created_tasks_registry_independent` for whole constructions.
-/
namespace TCV.C13
open TCV TCV.Config TCV.Build TCV.PVal TCV.C08

/-- what a created task is, apart from the identity of the object behind it -/
def core (t : Task2) : Str × Str × Str × Option Str × Nat × List (Str × PVal) × List (Str × InVal) × Str :=
  (t.full, t.cid, t.slug, t.ns, t.cfgIx, t.params, t.inputs, t.key)

/-- two builder states that created the same tasks (possibly as different objects, over different registries) -/
def Sim (a b : B2) : Prop := a.done.map core = b.done.map core

variable (H : Str → Str) (pr : Char → Bool) (t1s : List (Task1 × List (Str × InVal)))

theorem sim_any (a b : List Task2) (h : a.map core = b.map core) (name : Str) :
    a.any (fun t => t.full == name) = b.any (fun t => t.full == name) := by
  have : ∀ l : List Task2, l.any (fun t => t.full == name) = (l.map core).any (fun c => c.1 == name) := by
    intro l; simp [List.any_map, core, Function.comp_def]
  rw [this a, this b, h]

theorem sim_findKey (a b : List Task2) (h : a.map core = b.map core) (f : Str) :
    (a.find? (fun t => t.full == f)).map (·.key) = (b.find? (fun t => t.full == f)).map (·.key) := by
  induction a generalizing b with
  | nil =>
    cases b with
    | nil => rfl
    | cons y b => simp at h
  | cons x a ih =>
    cases b with
    | nil => simp at h
    | cons y b =>
      simp only [List.map_cons, List.cons.injEq] at h
      have hx : x.full = y.full := by have := congrArg (·.1) h.1; simpa [core] using this
      have hk : x.key = y.key := by have := congrArg (·.2.2.2.2.2.2.2) h.1; simpa [core] using this
      simp only [List.find?_cons, hx]
      cases hb : y.full == f
      · exact ih b h.2
      · simp [hk]

theorem filterMap_congr_mem {α β} (f g : α → Option β) : ∀ (l : List α), (∀ a ∈ l, f a = g a) → l.filterMap f = l.filterMap g
  | [], _ => rfl
  | a :: l, h => by
    simp only [List.filterMap_cons, h a (List.mem_cons_self ..)]
    rw [filterMap_congr_mem f g l (fun b hb => h b (List.mem_cons_of_mem _ hb))]

theorem sim_inKeys (a b : List Task2) (h : a.map core = b.map core) (ins : List (Str × InVal)) :
    inKeysOf a ins = inKeysOf b ins := by
  unfold inKeysOf
  apply filterMap_congr_mem
  intro kv _
  cases kv.2 with
  | dflt d => rfl
  | task f =>
    have := sim_findKey a b h f
    simp only at this ⊢
    cases ha : a.find? (fun t => t.full == f) <;> cases hb : b.find? (fun t => t.full == f) <;> simp_all

theorem finish_inKeys (t : Task1) (ins : List (Str × InVal)) (st1 : B2) :
    ∃ r : Task2, (finish H pr t ins st1).done = st1.done ++ [r] ∧
      core r = (t.full, t.cls.cid, t.cls.slug, t.ns, t.cfgIx, t.params, ins,
        Key.keyOf H pr (toKeyParams t.cls.params t.params) t.ns (inKeysOf st1.done ins)) :=
  ⟨_, rfl, rfl⟩

theorem sim_finish (t : Task1) (ins : List (Str × InVal)) (a b : B2) (h : Sim a b) :
    Sim (finish H pr t ins a) (finish H pr t ins b) := by
  obtain ⟨ra, ha, ca⟩ := finish_inKeys H pr t ins a
  obtain ⟨rb, hb, cb⟩ := finish_inKeys H pr t ins b
  unfold Sim at h ⊢
  rw [ha, hb, List.map_append, List.map_append, h, List.map_cons, List.map_cons, ca, cb, sim_inKeys a.done b.done h ins]

/-- the outcome of a (nested) construction step, up to object identity -/
def SameOutcome (ra rb : Except Err B2) : Prop :=
  match ra, rb with
  | .ok a, .ok b => Sim a b
  | .error e, .error e' => e = e'
  | _, _ => False

theorem recreate_sim : ∀ (fuel : Nat) (a b : B2) (name : Str), Sim a b →
    SameOutcome (recreate H pr t1s fuel a name) (recreate H pr t1s fuel b name)
  | 0, a, b, name, _ => by simp [recreate, SameOutcome]
  | fuel + 1, a, b, name, h => by
    rw [recreate_succ, recreate_succ, sim_any a.done b.done h name]
    by_cases hd : b.done.any (fun t => t.full == name) = true
    · rw [if_pos hd, if_pos hd]; exact h
    · rw [if_neg hd, if_neg hd]
      cases hf : t1s.find? (fun p => p.1.full == name) with
      | none => simp [SameOutcome]
      | some p =>
        obtain ⟨t, ins⟩ := p
        simp only
        -- the loop over the inputs
        have hfold : ∀ (l : List (Str × InVal)) (a b : B2), Sim a b →
            SameOutcome (l.foldlM (stepIn H pr t1s fuel) a) (l.foldlM (stepIn H pr t1s fuel) b) := by
          intro l
          induction l with
          | nil => intro a b h; rw [foldlM_nil_ok, foldlM_nil_ok]; exact h
          | cons kv l ih =>
            intro a b h
            rw [foldlM_cons_eq, foldlM_cons_eq]
            have hs : SameOutcome (stepIn H pr t1s fuel a kv) (stepIn H pr t1s fuel b kv) := by
              obtain ⟨k, v⟩ := kv
              cases v with
              | dflt d => simp only [stepIn]; exact h
              | task f => simp only [stepIn]; exact recreate_sim fuel a b f h
            cases ha : stepIn H pr t1s fuel a kv <;> cases hb : stepIn H pr t1s fuel b kv <;> rw [ha, hb] at hs
            · simpa [SameOutcome] using hs
            · simp [SameOutcome] at hs
            · simp [SameOutcome] at hs
            · exact ih _ _ hs
        have := hfold ins a b h
        cases ha : ins.foldlM (stepIn H pr t1s fuel) a <;> cases hb : ins.foldlM (stepIn H pr t1s fuel) b <;> rw [ha, hb] at this
        · simpa [SameOutcome] using this
        · simp [SameOutcome] at this
        · simp [SameOutcome] at this
        · exact sim_finish H pr t ins _ _ this

theorem names_fold_sim (fuel : Nat) : ∀ (l : List Str) (a b : B2), Sim a b →
    SameOutcome (l.foldlM (fun s n => recreate H pr t1s fuel s n) a) (l.foldlM (fun s n => recreate H pr t1s fuel s n) b)
  | [], a, b, h => by
    simp only [List.foldlM_nil, pure, Except.pure, SameOutcome]
    exact h
  | n :: l, a, b, h => by
    simp only [List.foldlM_cons, bind, Except.bind]
    have hs := recreate_sim H pr t1s fuel a b n h
    cases ha : recreate H pr t1s fuel a n <;> cases hb : recreate H pr t1s fuel b n <;> rw [ha, hb] at hs
    · simpa [SameOutcome] using hs
    · simp [SameOutcome] at hs
    · simp [SameOutcome] at hs
    · exact names_fold_sim fuel l _ _ hs

section
variable {H : Str → Str} {pr : Char → Bool} {fs : FS} {classes : Classes} {main : Str} {mainNs : Option Str}
  {fuel : Nat}

/-- **C13: a member chain is the standalone chain, up to which objects stand behind the names.**  Take two successful
constructions of the same config (same files, classes, context, fuel) over ANY two registries — e.g. the registry a MultiChain
has accumulated from its earlier members, and the empty registry of a standalone chain.  They create the same tasks in the
same order, with the same namespaces, declaring configs, parameter values, first-pass input tables and keys — hence the same
storage locations. -/
theorem created_tasks_registry_independent {reg₁ reg₂ : Registry} {next₁ next₂ : Nat} {c₁ c₂ : Chain}
    (S₁ : Stages H pr fs classes main mainNs reg₁ next₁ fuel c₁) (S₂ : Stages H pr fs classes main mainNs reg₂ next₂ fuel c₂)
    (hctx : S₁.ctx = S₂.ctx) :
    S₁.st.done.map core = S₂.st.done.map core := by
  have h1 : S₁.cfg = S₂.cfg := by
    have a := S₁.hcfg; have b := S₂.hcfg
    rw [hctx] at a; rw [a] at b; exact Except.ok.inj b
  have h2 : S₁.cfgs = S₂.cfgs := by
    have a := S₁.hcfgs; have b := S₂.hcfgs
    rw [hctx, h1] at a; rw [a] at b; exact Except.ok.inj b
  have h3 : S₁.t1 = S₂.t1 := by
    have a := S₁.ht1; have b := S₂.ht1
    rw [h2] at a; rw [a] at b; exact Except.ok.inj b
  have h4 : S₁.withIns = S₂.withIns := by
    have a := S₁.hwith; have b := S₂.hwith
    rw [h3] at a; rw [a] at b; exact Except.ok.inj b
  have a := S₁.hst; have b := S₂.hst
  rw [h3, h4] at a
  have := names_fold_sim H pr S₂.withIns fuel (S₂.t1.map (·.full))
    { done := [], reg := reg₁, next := next₁ } { done := [], reg := reg₂, next := next₂ } (by simp [Sim])
  rw [a, b] at this
  exact this

/-- … in particular the names, keys and parameter values of the returned chains agree -/
theorem member_chain_locations_eq_standalone {reg₁ reg₂ : Registry} {next₁ next₂ : Nat} {c₁ c₂ : Chain}
    (S₁ : Stages H pr fs classes main mainNs reg₁ next₁ fuel c₁) (S₂ : Stages H pr fs classes main mainNs reg₂ next₂ fuel c₂)
    (hctx : S₁.ctx = S₂.ctx) :
    c₁.tasks.map (fun t => (t.full, t.slug, t.key, t.params)) = c₂.tasks.map (fun t => (t.full, t.slug, t.key, t.params)) := by
  have h := created_tasks_registry_independent S₁ S₂ hctx
  rw [final_map S₁ (fun t => (t.full, t.slug, t.key, t.params)) (fun _ _ => rfl),
      final_map S₂ (fun t => (t.full, t.slug, t.key, t.params)) (fun _ _ => rfl)]
  have := congrArg (List.map (fun c : Str × Str × Str × Option Str × Nat × List (Str × PVal) × List (Str × InVal) × Str =>
    (c.1, c.2.2.1, c.2.2.2.2.2.2.2, c.2.2.2.2.2.1))) h
  simpa [List.map_map, core, Function.comp_def] using this

end

/-! ## from `buildMulti` to the member constructions -/

/-- every member chain of a MultiChain is a `build` of its config over the registry accumulated so far -/
theorem multi_members (H : Str → Str) (pr : Char → Bool) (fs : FS) (cfs : CtxFS) (classes : Classes) (fuel : Nat) :
    ∀ (mains : List (Str × Option CtxSrc)) (seen : List Str) (reg : Registry) (next : Nat) (cs : List Chain),
      buildMultiAux H pr fs cfs classes fuel mains seen reg next = .ok cs →
      cs.length = mains.length ∧ ∀ i (hi : i < cs.length) (hm : i < mains.length), ∃ regᵢ nextᵢ,
        build H pr fs cfs classes mains[i].1 none mains[i].2 regᵢ nextᵢ fuel = .ok cs[i]
  | [], seen, reg, next, cs, h => by
    simp only [buildMultiAux] at h; cases h
    exact ⟨rfl, fun i hi => by simp at hi⟩
  | m :: rest, seen, reg, next, cs, h => by
    simp only [buildMultiAux] at h
    cases hn : mainName fs m.1 with
    | error e => rw [hn] at h; cases h
    | ok nm =>
    rw [hn] at h
    simp only at h
    split at h
    · cases h
    cases hb : build H pr fs cfs classes m.1 none m.2 reg next fuel with
    | error e => rw [hb] at h; cases h
    | ok c =>
      rw [hb] at h
      simp only at h
      cases hr : buildMultiAux H pr fs cfs classes fuel rest (nm :: seen) c.reg c.next with
      | error e => rw [hr] at h; cases h
      | ok cs' =>
        rw [hr] at h
        simp only at h
        cases h
        obtain ⟨hl, hrest⟩ := multi_members H pr fs cfs classes fuel rest (nm :: seen) c.reg c.next cs' hr
        refine ⟨by simp [hl], ?_⟩
        intro i hi hm
        cases i with
        | zero => exact ⟨reg, next, hb⟩
        | succ j =>
          simp only [List.getElem_cons_succ]
          exact hrest j (by simpa using hi) (by simpa using hm)

/-- **C13 (tasks, parameters, storage locations).**  If a MultiChain over `mains` is built and the `i`-th config also builds
standalone, then the member chain created for it and the standalone chain created the same tasks in the same order, with the
same parameter values, first-pass input tables and keys. -/
theorem multichain_member_eq_standalone (H : Str → Str) (pr : Char → Bool) (fs : FS) (cfs : CtxFS) (classes : Classes) (fuel : Nat)
    (mains : List (Str × Option CtxSrc)) (cs : List Chain)
    (hm : buildMultiAux H pr fs cfs classes fuel mains [] [] 0 = .ok cs)
    (i : Nat) (hi : i < cs.length) (hi' : i < mains.length) (c : Chain)
    (hs : build H pr fs cfs classes mains[i].1 none mains[i].2 [] 0 fuel = .ok c) :
    ∃ (regᵢ : Registry) (nextᵢ : Nat) (S₁ : Stages H pr fs classes mains[i].1 none regᵢ nextᵢ fuel cs[i])
      (S₂ : Stages H pr fs classes mains[i].1 none [] 0 fuel c),
      S₁.st.done.map core = S₂.st.done.map core ∧
      cs[i].tasks.map (fun t => (t.full, t.slug, t.key, t.params)) = c.tasks.map (fun t => (t.full, t.slug, t.key, t.params)) := by
  obtain ⟨_, hmem⟩ := multi_members H pr fs cfs classes fuel mains [] [] 0 cs hm
  obtain ⟨regᵢ, nextᵢ, hb⟩ := hmem i hi hi'
  obtain ⟨S₁, hc₁⟩ := build_stages_ctx H pr fs cfs classes mains[i].1 none mains[i].2 regᵢ nextᵢ fuel cs[i] hb
  obtain ⟨S₂, hc₂⟩ := build_stages_ctx H pr fs cfs classes mains[i].1 none mains[i].2 [] 0 fuel c hs
  have hctx : S₁.ctx = S₂.ctx := by rw [hc₁] at hc₂; exact Except.ok.inj hc₂
  exact ⟨regᵢ, nextᵢ, S₁, S₂, created_tasks_registry_independent S₁ S₂ hctx, member_chain_locations_eq_standalone S₁ S₂ hctx⟩

/-- non-vacuity: the two-member MultiChain over one pipeline (equal namespace) and the standalone chain of its second member -/
example : (buildMultiAux id (fun _ => true)
      [("p".toList, .single { data := [], tasks := ["K0".toList, "K1".toList], excluded := [], uses := [] }),
       ("c1.json".toList, .single { data := [], tasks := [], excluded := [], uses := ["p as a".toList] }),
       ("c2.json".toList, .single { data := [], tasks := [], excluded := [], uses := ["p as a".toList] })]
      [] k6Classes 8 [("c1.json".toList, none), ("c2.json".toList, none)] [] [] 0).toOption.isSome = true ∧
    (build id (fun _ => true)
      [("p".toList, .single { data := [], tasks := ["K0".toList, "K1".toList], excluded := [], uses := [] }),
       ("c1.json".toList, .single { data := [], tasks := [], excluded := [], uses := ["p as a".toList] }),
       ("c2.json".toList, .single { data := [], tasks := [], excluded := [], uses := ["p as a".toList] })]
      [] k6Classes "c2.json".toList none none [] 0 8).toOption.isSome = true := by
  constructor <;> rfl

end TCV.C13
