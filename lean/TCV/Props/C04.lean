import TCV.Lemmas.StoreFrame
import TCV.Lemmas.StoreOnce
/-!
# C04 — each computation runs at most once, and only on demand (machine level)
-/
namespace TCV.C04
open TCV.Store

variable {V : Type}

/-- a value held in memory is returned without running anything, reading anything or touching upstream -/
theorem served_from_memory (U : Universe) (f : Nat → List V → V) (fails : Nat → Bool) (fuel : Nat)
    (s : St V) (i : Nat) (v : V) (h : s.mem i = some v) :
    value U f fails (fuel + 1) s i = (s, some v) := by
  simp [value, h]

/-- a stored result of an unforced persisting task is loaded: nothing runs, no input is requested,
the store is untouched — whatever the state of its upstream tasks -/
theorem served_from_store (U : Universe) (f : Nat → List V → V) (fails : Nat → Bool) (fuel : Nat)
    (s : St V) (i : Nat) (v : V) (hm : s.mem i = none) (hp : (obj U i).persist = true)
    (hf : s.forced i = false) (hs : s.store (obj U i).loc = some v) :
    value U f fails (fuel + 1) s i = ({ s with mem := upd s.mem i (some v) }, some v) := by
  simp [value, hm, hp, hf, hs]

/-- inspection (`has_data`, paths, run info, logs, task tables) and chain construction change nothing -/
theorem inspect_runs_nothing (U : Universe) (f : Nat → List V → V) (fuel : Nat) (s : St V) (i : Nat) :
    (step U f fuel s (.inspect i)).1 = s := rfl

/-- a request never forgets a result, never un-forces, never removes a stored result and only appends
to the run log -/
theorem request_frame (U : Universe) (f : Nat → List V → V) (fails : Nat → Bool) (fuel : Nat)
    (s s' : St V) (i : Nat) (r : Option V) (h : value U f fails fuel s i = (s', r)) : Frame s s' :=
  frame_all U f fails fuel s i s' r h

/-- the run log of a request that is served from memory or from the store is unchanged, so in
particular a second request for the same object right after a successful one runs nothing -/
theorem second_request_runs_nothing (U : Universe) (f : Nat → List V → V) (fails fails' : Nat → Bool) (fuel fuel' : Nat)
    (s s1 : St V) (i : Nat) (v : V) (h : value U f fails fuel s i = (s1, some v)) :
    ∃ w, value U f fails' (fuel' + 1) s1 i = (s1, some w) := by
  -- after a successful request the object's value is in memory
  have hmem : (s1.mem i).isSome := by
    cases fuel with
    | zero => simp [value] at h
    | succ n =>
      simp only [value] at h
      split at h
      · rename_i w hm; cases h; simp [hm]
      · split at h
        · cases h; simp [upd]
        · split at h
          · cases h
          · split at h
            · cases h
            · split at h
              · cases h
              · cases h; simp [upd]
  obtain ⟨w, hw⟩ := Option.isSome_iff_exists.mp hmem
  exact ⟨w, served_from_memory U f fails' fuel' s1 i w hw⟩

/-! ### at most once per storage location, over whole histories -/

/-- operations of a history without forcing, failure and deletion: value requests (nothing fails) and inspections -/
def Plain (fuel : Nat) : Op → Prop
  | .value i failing => failing = [] ∧ i < fuel
  | .inspect _ => True
  | _ => False

theorem step_plain (U : Universe) (f : Nat → List V → V) (lrk : Nat → Nat) (hst : Strat U lrk) (fuel : Nat)
    (s : St V) (op : Op) (hp : Plain fuel op) (h : OnceInv U s) : OnceInv U (step U f fuel s op).1 := by
  cases op with
  | value i failing =>
    obtain ⟨hf, hi⟩ := hp
    subst hf
    have : (fun j => ([] : List Nat).contains j) = nofail := by funext j; simp [nofail]
    simp only [step, this]
    exact onceInv_value U f lrk hst fuel s i hi h
  | inspect i => exact h
  | force i del => exact absurd hp (by simp [Plain])
  | chainForce n S d r o => exact absurd hp (by simp [Plain])
  | chainForceF n S d o fl => exact absurd hp (by simp [Plain])
  | reset i => exact absurd hp (by simp [Plain])

/-- **C04, history level.** Over ANY sequence of value requests (on arbitrary objects of arbitrarily many chains, in any
order) and inspections on one data directory, starting from an empty store, no storage location of a persisting task is
computed twice and no in-memory task object runs twice; everything that ran is available to all later requests.
`Strat`: inputs precede dependants and locations are layered likewise (true for keys derived from input keys). -/
theorem run_at_most_once (U : Universe) (f : Nat → List V → V) (lrk : Nat → Nat) (hst : Strat U lrk) (fuel : Nat) :
    ∀ (ops : List Op) (s : St V), (∀ op ∈ ops, Plain fuel op) → OnceInv U s → OnceInv U (runOps U f fuel s ops).1
  | [], s, _, h => h
  | op :: ops, s, hp, h => by
    simp only [runOps]
    exact run_at_most_once U f lrk hst fuel ops _ (fun o ho => hp o (by simp [ho]))
      (step_plain U f lrk hst fuel s op (hp op (by simp)) h)

theorem run_at_most_once_from_empty (U : Universe) (f : Nat → List V → V) (lrk : Nat → Nat) (hst : Strat U lrk) (fuel : Nat)
    (ops : List Op) (hp : ∀ op ∈ ops, Plain fuel op) :
    (((runOps U f fuel (St.init : St V) ops).1).runs.map (tag U)).Nodup :=
  (run_at_most_once U f lrk hst fuel ops St.init hp (onceInv_init U)).nodup

/-- a request in such a history always succeeds and runs only what was unavailable when it started -/
theorem runs_only_unavailable (U : Universe) (f : Nat → List V → V) (lrk : Nat → Nat) (hst : Strat U lrk) (fuel : Nat)
    (s : St V) (i : Nat) (hi : i < fuel) (hnf : ∀ j, s.forced j = false) :
    ∃ s' v new, value U f nofail fuel s i = (s', some v) ∧ s'.runs = s.runs ++ new ∧
      (∀ j ∈ new, Unavail U s j) ∧ (∀ j ∈ new, j ≤ i) :=
  let ⟨s', v, new, hv, a⟩ := acct_all U f lrk hst fuel s i hi hnf
  ⟨s', v, new, hv, a.runs, a.unavail, fun j hj => (a.below j hj).1⟩

/-! non-vacuity: the diamond universe with two chains sharing locations is stratified -/
def exU : Universe :=
  [{ loc := 1, persist := true, args := [], pulls := [], deps := [] },
   { loc := 2, persist := true, args := [0], pulls := [], deps := [0] },
   { loc := 3, persist := false, args := [], pulls := [0], deps := [0] },
   { loc := 4, persist := true, args := [1], pulls := [2], deps := [1, 2] },
   { loc := 1, persist := true, args := [], pulls := [], deps := [] },
   { loc := 2, persist := true, args := [4], pulls := [], deps := [4] }]

theorem ex_used (i : Nat) (h : 6 ≤ i) : (obj exU i).used = [] := by
  unfold obj exU
  rw [List.getD_eq_getElem?_getD, List.getElem?_eq_none (by simpa using h)]
  rfl

example : Strat exU (fun l => l) := by
  have key : ∀ a : Fin 6, ∀ d ∈ (obj exU a.1).used, d < a.1 ∧ (obj exU d).loc < (obj exU a.1).loc := by decide
  constructor
  · intro i d hd
    by_cases hi : i < 6
    · exact (key ⟨i, hi⟩ d hd).1
    · rw [ex_used i (by omega)] at hd; cases hd
  · intro i d hd
    by_cases hi : i < 6
    · exact (key ⟨i, hi⟩ d hd).2
    · rw [ex_used i (by omega)] at hd; cases hd

/-- on it: object 5 (second chain) is served from what object 1 stored; nothing runs twice -/
example : ((runOps exU (fun i xs => i + xs.length) 10 (St.init : St Nat)
    [.value 3 [], .value 5 [], .value 3 [], .inspect 1]).1).runs = [0, 1, 3, 2] := by rfl

end TCV.C04
