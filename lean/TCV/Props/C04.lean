import TCV.Lemmas.StoreFrame
/-!
# C04 — each computation runs at most once, and only on demand (machine level)
-/
namespace TCV.C04
open TCV.Store

variable {V : Type}

/-- a value held in memory is returned without running anything, reading anything or touching upstream -/
theorem served_from_memory (U : Universe) (f : Nat → List V → V) (fails : Nat → Bool) (fuel : Nat)
    (s : St V) (i : Nat) (v : V) (h : s.mem i = some v) :
    value U f fails (fuel + 1) s i = (s, some v) := by
  simp [value, h]

/-- a stored result of an unforced persisting task is loaded: nothing runs, no input is requested,
the store is untouched — whatever the state of its upstream tasks -/
theorem served_from_store (U : Universe) (f : Nat → List V → V) (fails : Nat → Bool) (fuel : Nat)
    (s : St V) (i : Nat) (v : V) (hm : s.mem i = none) (hp : (obj U i).persist = true)
    (hf : s.forced i = false) (hs : s.store (obj U i).loc = some v) :
    value U f fails (fuel + 1) s i = ({ s with mem := upd s.mem i (some v) }, some v) := by
  simp [value, hm, hp, hf, hs]

/-- inspection (`has_data`, paths, run info, logs, task tables) and chain construction change nothing -/
theorem inspect_runs_nothing (U : Universe) (f : Nat → List V → V) (fuel : Nat) (s : St V) (i : Nat) :
    (step U f fuel s (.inspect i)).1 = s := rfl

/-- a request never forgets a result, never un-forces, never removes a stored result and only appends
to the run log -/
theorem request_frame (U : Universe) (f : Nat → List V → V) (fails : Nat → Bool) (fuel : Nat)
    (s s' : St V) (i : Nat) (r : Option V) (h : value U f fails fuel s i = (s', r)) : Frame s s' :=
  frame_all U f fails fuel s i s' r h

/-- the run log of a request that is served from memory or from the store is unchanged, so in
particular a second request for the same object right after a successful one runs nothing -/
theorem second_request_runs_nothing (U : Universe) (f : Nat → List V → V) (fails fails' : Nat → Bool) (fuel fuel' : Nat)
    (s s1 : St V) (i : Nat) (v : V) (h : value U f fails fuel s i = (s1, some v)) :
    ∃ w, value U f fails' (fuel' + 1) s1 i = (s1, some w) := by
  -- after a successful request the object's value is in memory
  have hmem : (s1.mem i).isSome := by
    cases fuel with
    | zero => simp [value] at h
    | succ n =>
      simp only [value] at h
      split at h
      · rename_i w hm; cases h; simp [hm]
      · split at h
        · cases h; simp [upd]
        · split at h
          · cases h
          · split at h
            · cases h
            · split at h
              · cases h
              · cases h; simp [upd]
  obtain ⟨w, hw⟩ := Option.isSome_iff_exists.mp hmem
  exact ⟨w, served_from_memory U f fails' fuel' s1 i w hw⟩

end TCV.C04
