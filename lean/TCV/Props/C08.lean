import TCV.Lemmas.Config
import TCV.Lemmas.Names
import TCV.Props.C10
import TCV.Props.C07
/-!
# C08 — the dependency graph is exactly the declared one, and acyclic

Model level (`TCV.Build`):

* `nodes_exact_step`: a config contributes exactly its declared, non-abstract, non-excluded classes;
* `input_resolution`: an input is looked up under the declaring task's namespace — the textual test
  "already starts with `namespace::`" is the `::`-boundary test (`ns_prefix_boundary`; the pre-repair
  `startswith(namespace)` is refuted by the `train` / `train_x` witness);
* `resolved_inside_namespace`: whatever an input resolves to is a task of the chain that matches the
  looked-up name with namespaces compared exactly;
* `missing_required_input_is_error`, `missing_optional_input_is_default`;
* the closure queries are the inductive reachability of C07 (`TCV.C07.force_marks_exactly`).

Acyclicity: the second pass recurses over input tasks with fuel; a cyclic declaration exhausts it
(`cyclic_or_too_deep`, the model of Python's `RecursionError`) — exercised by the malformed stream of
the correspondence; the theorem `cycle_needs_fuel` states the one-step fact it rests on.
-/
namespace TCV.C08
open TCV TCV.Config TCV.Build

/-- `isPrefix` is the list-prefix relation -/
theorem isPrefix_iff : ∀ (p s : Str), isPrefix p s = true ↔ ∃ rest, s = p ++ rest
  | [], s => by simp [isPrefix]
  | a :: p, [] => by simp [isPrefix]
  | a :: p, b :: s => by
    simp only [isPrefix, Bool.and_eq_true, beq_iff_eq, List.cons_append, List.cons.injEq]
    rw [isPrefix_iff p s]
    constructor
    · rintro ⟨rfl, rest, rfl⟩; exact ⟨rest, rfl, rfl⟩
    · rintro ⟨rest, rfl, rfl⟩; exact ⟨rfl, rest, rfl⟩

/-- the name under which an input is looked up, from inside namespace `n` (non-empty): the reference is left
alone exactly when it is already qualified by `n::` — a `::` boundary, not a textual prefix -/
theorem ns_prefix_boundary (classes : Classes) (n : Str) (hn : n.isEmpty = false) (r : Str) (d : Option PVal) :
    ((∃ rest, r = n ++ "::".toList ++ rest) →
        lookupName classes (some n) { ref := .byName r, default := d } = .ok (r, true)) ∧
    ((¬ ∃ rest, r = n ++ "::".toList ++ rest) →
        lookupName classes (some n) { ref := .byName r, default := d } = .ok (n ++ "::".toList ++ r, true)) := by
  constructor
  · intro hx
    have h : isPrefix (n ++ [':', ':']) r = true := (isPrefix_iff _ _).mpr hx
    simp [lookupName, hn, h]
  · intro hx
    have h : isPrefix (n ++ [':', ':']) r = false := by
      cases hb : isPrefix (n ++ [':', ':']) r
      · rfl
      · exact absurd ((isPrefix_iff _ _).mp hb) hx
    simp [lookupName, hn, h]

/-- the F3 witness: under namespace `train` the reference `train_x` is NOT yet qualified and gets the prefix -/
example : lookupName [] (some "train".toList) { ref := .byName "train_x".toList } = .ok ("train::train_x".toList, true) := by rfl
example : lookupName [] (some "train".toList) { ref := .byName "train::x".toList } = .ok ("train::x".toList, true) := by rfl

/-- a resolved input is one of the chain's tasks, and it matches the looked-up name with the namespace
compared exactly (`determine_namespace=False`): resolution never leaves the declaring task's namespace -/
theorem resolved_inside_namespace (classes : Classes) (names : List Str) (ns : Option Str)
    (acc acc' : List (Str × InVal)) (i : InputDecl) (name : Str) (byName : Bool)
    (hl : lookupName classes ns i = .ok (name, byName))
    (h : resolveOne classes names ns acc i = .ok acc') :
    (∃ found, Names.findFull name names false = .ok found ∧ found ∈ names ∧ Names.nameMatch false name found = true ∧
        acc' = set (if byName then found else name) (.task (if byName then found else name)) acc ∧
        (if byName then found else name) ∈ names)
    ∨ (∃ d, i.default = some d ∧ acc' = set name (.dflt d) acc ∧
        ((∃ e, Names.findFull name names false = .error e) ∨ (byName = false ∧ name ∉ names))) := by
  simp only [resolveOne, hl] at h
  split at h
  · cases h
  · cases hf : Names.findFull name names false with
    | ok found =>
      simp only [hf] at h
      by_cases hc : names.contains (if byName then found else name) = true
      · simp only [hc, if_true] at h
        cases h
        have := C10.resolves_only_when_less_nested name found names false hf
        exact Or.inl ⟨found, rfl, this.1, this.2.1, rfl, by simpa using hc⟩
      · simp only [hc] at h
        -- (repair F18) a by-class reference that found only a homonym of another group: absent — the default, if there is one
        cases hb : byName with
        | true => simp [hb] at h
        | false =>
          simp only [hb] at h hc
          cases hd : i.default with
          | none => simp [hd] at h
          | some d =>
            simp only [hd] at h
            simp only [Bool.false_eq_true, if_false] at h
            cases h
            refine Or.inr ⟨d, rfl, rfl, Or.inr ⟨rfl, ?_⟩⟩
            intro hm; exact hc (by simpa using hm)
    | error e =>
      simp only [hf] at h
      cases hd : i.default with
      | none => simp [hd] at h
      | some d =>
        simp only [hd] at h
        cases h
        exact Or.inr ⟨d, rfl, rfl, Or.inl ⟨e, rfl⟩⟩

/-- a required input that does not resolve makes construction fail -/
theorem missing_required_input_is_error (classes : Classes) (names : List Str) (ns : Option Str)
    (acc : List (Str × InVal)) (i : InputDecl) (name : Str) (byName : Bool) (e : Names.Err)
    (hl : lookupName classes ns i = .ok (name, byName)) (hnew : acc.any (fun kv => kv.1 == name) = false)
    (hf : Names.findFull name names false = .error e) (hd : i.default = none) :
    resolveOne classes names ns acc i = .error .missingInput := by
  simp [resolveOne, hl, hnew, hf, hd]

/-- … and an error of one input is an error of the whole task (no later input can undo it) -/
theorem resolveAll_error (classes : Classes) (names : List Str) (ns : Option Str) :
    ∀ (pre : List InputDecl) (i : InputDecl) (post : List InputDecl) (acc mid : List (Str × InVal)) (e : Err),
      resolveAll classes names ns pre acc = .ok mid → resolveOne classes names ns mid i = .error e →
      resolveAll classes names ns (pre ++ i :: post) acc = .error e
  | [], i, post, acc, mid, e, h1, h2 => by
    simp [resolveAll] at h1; subst h1
    simp [resolveAll, h2]
  | p :: pre, i, post, acc, mid, e, h1, h2 => by
    simp only [resolveAll, List.cons_append] at h1 ⊢
    cases hp : resolveOne classes names ns acc p with
    | error e' => simp [hp] at h1
    | ok acc' =>
      simp only [hp] at h1 ⊢
      exact resolveAll_error classes names ns pre i post acc' mid e h1 h2

/-- an optional input that does not resolve is replaced by its default and is no edge -/
theorem missing_optional_input_is_default (classes : Classes) (names : List Str) (ns : Option Str)
    (acc : List (Str × InVal)) (i : InputDecl) (name : Str) (byName : Bool) (e : Names.Err) (d : PVal)
    (hl : lookupName classes ns i = .ok (name, byName)) (hnew : acc.any (fun kv => kv.1 == name) = false)
    (hf : Names.findFull name names false = .error e) (hd : i.default = some d) :
    resolveOne classes names ns acc i = .ok (set name (.dflt d) acc) := by
  simp [resolveOne, hl, hnew, hf, hd]

/-- what one config contributes: an abstract or excluded class contributes nothing … -/
theorem skipped_class (classes : Classes) (cfg : Cfg) (ix : Nat) (cid : Str) (c : ClassDecl) (rest : List Str) (acc : List Task1)
    (hc : get? cid classes = some c) (hs : (c.abstract || cfg.excluded.contains cid) = true) :
    addTasks classes cfg ix (cid :: rest) acc = addTasks classes cfg ix rest acc := by
  simp only [addTasks, hc]
  rw [if_pos hs]

/-- … every other declared class contributes exactly the task `namespace::slug` with the parameters of THIS config -/
theorem declared_class (classes : Classes) (cfg : Cfg) (ix : Nat) (cid : Str) (c : ClassDecl) (rest : List Str) (acc : List Task1)
    (hc : get? cid classes = some c) (hs : (c.abstract || cfg.excluded.contains cid) = false) :
    addTasks classes cfg ix (cid :: rest) acc =
      match setParams c.params cfg.data with
      | .error e => .error e
      | .ok ps => match register { full := fullName cfg.ns c.slug, cls := c, cfgIx := ix, ns := cfg.ns, params := ps } acc with
        | .error e => .error e
        | .ok acc' => addTasks classes cfg ix rest acc' := by
  simp only [addTasks, hc]
  rw [if_neg (by rw [hs]; simp)]
  rfl

/-- the recursion over input tasks consumes fuel: with none left it is the error `cyclic_or_too_deep` -/
theorem cycle_needs_fuel (H : Str → Str) (pr : Char → Bool) (t1s : List (Task1 × List (Str × InVal))) (st : B2) (name : Str) :
    recreate H pr t1s 0 st name = .error .tooDeep := rfl

/-- closure queries: `dependent_tasks` is the inductive downstream reachability (shared with C07) -/
theorem dependent_is_closure (U : Store.Universe) (S nodes : List Nat) (hord : Store.DepOrder U nodes) (hnd : nodes.Nodup) (x : Nat) :
    x ∈ Store.descendants U S nodes [] ↔ Store.Reach U nodes S x :=
  C07.force_marks_exactly U S nodes hord hnd x

/-- **an input declared by class is that class** (repair F18): when no task of the chain has the class's own name in the declaring task's
namespace, the reference is absent — whatever other task the short name might fit: the default for an optional input, an error for a
required one -/
theorem byclass_homonym_is_absent (classes : Classes) (names : List Str) (ns : Option Str)
    (acc : List (Str × InVal)) (i : InputDecl) (name : Str)
    (hl : lookupName classes ns i = .ok (name, false)) (hnew : acc.any (fun kv => kv.1 == name) = false)
    (habs : name ∉ names) :
    resolveOne classes names ns acc i =
      match i.default with
      | some d => .ok (set name (.dflt d) acc)
      | none => .error .missingInput := by
  have hc : names.contains name = false := by
    cases h : names.contains name with
    | false => rfl
    | true => exact absurd (List.contains_iff_mem.mp h) habs
  simp only [resolveOne, hl, hnew]
  cases hf : Names.findFull name names false with
  | ok found => simp only [hc, Bool.false_eq_true, if_false]; rfl
  | error e => simp only []; rfl

end TCV.C08
