import TCV.Props.C08Chain
import TCV.Props.C08NameMode
/-!
# C20 / C12 — name mode and parameter mode build the same tasks; in name mode the storage key is a config name

`migrate_to_parameter_mode` pairs the tasks of the name-mode chain of a config with the tasks of its parameter-mode chain by
name.  `same_tasks_in_both_modes`: for every config tree, class table and context, if both constructions succeed they have
exactly the same task names (both are the declared, non-abstract, non-excluded classes under `namespace::group:name`), so the
pairing is total in both directions.  `nm_key_is_config_name`: the name for persistence of a name-mode task is the name of one
of the chain's configs (or of the config of an object handed in through the registry).
-/
namespace TCV.C20
open TCV TCV.Config TCV.Build TCV.C08

namespace NM
open TCV.BuildNM

theorem register_names (name : Str) (o : Obj) : ∀ (ts ts' : List (Str × Obj)), BuildNM.register name o ts = .ok ts' →
    ∀ x, x ∈ ts'.map (·.1) ↔ x = name ∨ x ∈ ts.map (·.1)
  | [], ts', h, x => by
    simp only [BuildNM.register] at h; cases h; simp
  | (n, u) :: r, ts', h, x => by
    simp only [BuildNM.register] at h
    split at h
    next hn =>
      have hn' : n = name := by simpa using hn
      split at h
      · cases h
        simp only [List.map_cons, List.mem_cons, hn']
        constructor
        · rintro (h | h); exact Or.inl h; exact Or.inr (Or.inr h)
        · rintro (h | h | h); exact Or.inl h; exact Or.inl h; exact Or.inr h
      · cases h
    next hn =>
      cases hr : BuildNM.register name o r with
      | error e => rw [hr] at h; cases h
      | ok r' =>
        rw [hr] at h; cases h
        have ih := register_names name o r r' hr x
        simp only [List.map_cons, List.mem_cons, ih]
        constructor
        · rintro (h | h | h); exact Or.inr (Or.inl h); exact Or.inl h; exact Or.inr (Or.inr h)
        · rintro (h | h | h); exact Or.inr (Or.inl h); exact Or.inl h; exact Or.inr (Or.inr h)

/-- what one config adds to the task table, whatever the registry holds -/
theorem addTasks_names (classes : Classes) (cfg : Cfg) (cfgId : Nat) : ∀ (todo : List Str) (st st' : St),
    BuildNM.addTasks classes cfg cfgId todo st = .ok st' →
    ∀ x, x ∈ st'.tasks.map (·.1) ↔ x ∈ st.tasks.map (·.1) ∨
      ∃ cid ∈ todo, ∃ c, get? cid classes = some c ∧ (c.abstract || cfg.excluded.contains cid) = false ∧ x = fullName cfg.ns c.slug
  | [], st, st', h, x => by
    simp only [BuildNM.addTasks] at h; cases h; simp
  | cid :: rest, st, st', h, x => by
    simp only [BuildNM.addTasks] at h
    cases hc : get? cid classes with
    | none => rw [hc] at h; cases h
    | some c =>
      rw [hc] at h
      simp only at h
      split at h
      next hskip =>
        rw [addTasks_names classes cfg cfgId rest st st' h x]
        constructor
        · rintro (h1 | ⟨cid', hm, c', h2, h3, h4⟩)
          · exact Or.inl h1
          · exact Or.inr ⟨cid', List.mem_cons_of_mem _ hm, c', h2, h3, h4⟩
        · rintro (h1 | ⟨cid', hm, c', h2, h3, h4⟩)
          · exact Or.inl h1
          · rcases List.mem_cons.mp hm with rfl | hm
            · rw [hc] at h2; cases h2; rw [h3] at hskip; cases hskip
            · exact Or.inr ⟨cid', hm, c', h2, h3, h4⟩
      next hskip =>
        cases hp : setParams c.params cfg.data with
        | error e => rw [hp] at h; cases h
        | ok ps =>
          rw [hp] at h
          simp only at h
          split at h
          · cases h
          next ts hreg =>
            have hs : (c.abstract || cfg.excluded.contains cid) = false := by simpa using hskip
            rw [addTasks_names classes cfg cfgId rest _ st' h x]
            simp only
            rw [register_names _ _ st.tasks ts hreg x]
            constructor
            · rintro ((h1 | h1) | ⟨cid', hm, c', h2, h3, h4⟩)
              · exact Or.inr ⟨cid, List.mem_cons_self .., c, hc, hs, h1⟩
              · exact Or.inl h1
              · exact Or.inr ⟨cid', List.mem_cons_of_mem _ hm, c', h2, h3, h4⟩
            · rintro (h1 | ⟨cid', hm, c', h2, h3, h4⟩)
              · exact Or.inl (Or.inr h1)
              · rcases List.mem_cons.mp hm with rfl | hm
                · rw [hc] at h2; cases h2; exact Or.inl (Or.inl h4)
                · exact Or.inr ⟨cid', hm, c', h2, h3, h4⟩

theorem createTasksFrom_names (classes : Classes) : ∀ (cfgs : List Cfg) (cfgId : Nat) (st st' : St),
    BuildNM.createTasksFrom classes cfgs cfgId st = .ok st' →
    ∀ x, x ∈ st'.tasks.map (·.1) ↔ x ∈ st.tasks.map (·.1) ∨ ∃ j, Declares classes cfgs j x
  | [], _, st, st', h, x => by
    simp only [BuildNM.createTasksFrom] at h; cases h
    simp [Declares]
  | cfg :: rest, cfgId, st, st', h, x => by
    simp only [BuildNM.createTasksFrom] at h
    cases ha : BuildNM.addTasks classes cfg cfgId cfg.tasks st with
    | error e => rw [ha] at h; cases h
    | ok st1 =>
      rw [ha] at h
      simp only at h
      rw [createTasksFrom_names classes rest (cfgId + 1) st1 st' h x, addTasks_names classes cfg cfgId cfg.tasks st st1 ha x]
      constructor
      · rintro ((h1 | ⟨cid, hm, c, h2, h3, h4⟩) | ⟨j, cfg', cid, c, g1, g2, g3, g4, g5⟩)
        · exact Or.inl h1
        · exact Or.inr ⟨0, cfg, cid, c, rfl, hm, h2, h3, h4⟩
        · exact Or.inr ⟨j + 1, cfg', cid, c, by simpa using g1, g2, g3, g4, g5⟩
      · rintro (h1 | ⟨j, cfg', cid, c, g1, g2, g3, g4, g5⟩)
        · exact Or.inl (Or.inl h1)
        · cases j with
          | zero =>
            simp only [List.getElem?_cons_zero, Option.some.injEq] at g1
            subst g1
            exact Or.inl (Or.inr ⟨cid, g2, c, g3, g4, g5⟩)
          | succ j => exact Or.inr ⟨j, cfg', cid, c, by simpa using g1, g2, g3, g4, g5⟩

end NM

/-- what a successful name-mode construction went through -/
theorem nm_build_names (fs : FS) (cfs : CtxFS) (classes : Classes) (main : Str) (mainNs : Option Str) (ctxSrc : Option CtxSrc)
    (next cfgBase fuel : Nat) (c : BuildNM.Chain)
    (h : BuildNM.build fs cfs classes main mainNs ctxSrc [] next cfgBase fuel = .ok c) :
    ∃ ctx cfg cfgs, ctxStage cfs fuel ctxSrc = .ok ctx ∧ loadCfg fs ctx main mainNs = .ok cfg ∧
      processConfig fs ctx fuel cfg [] = .ok cfgs ∧ ∀ x, x ∈ c.tasks.map (·.full) ↔ ∃ j, Declares classes cfgs j x := by
  unfold BuildNM.build at h
  simp only [bind, Except.bind, pure, Except.pure] at h
  repeat' split at h
  all_goals first | cases h | skip
  all_goals
    rename_i hst _ _ _ _
    refine ⟨_, _, _, ?_, by assumption, by assumption, ?_⟩
    · first
        | rfl
        | (simp only [ctxStage]; assumption)
    · intro x
      have := NM.createTasksFrom_names classes _ cfgBase _ _ hst x
      simp only [List.map_nil, List.not_mem_nil, false_or] at this
      rw [← this]
      simp [List.map_map, Function.comp_def]

section
variable {H : Str → Str} {pr : Char → Bool} {fs : FS} {classes : Classes} {main : Str} {mainNs : Option Str} {fuel : Nat} {c : Build.Chain}

/-- **C20: the name-mode chain and the parameter-mode chain of one config have exactly the same task names** — so pairing
them by name (as the migration does) loses no task and invents none -/
theorem same_tasks_in_both_modes (cfs : CtxFS) (ctxSrc : Option CtxSrc) (reg : Build.Registry) (next nextN cfgBase : Nat)
    (hp : Build.build H pr fs cfs classes main mainNs ctxSrc reg next fuel = .ok c) (cn : BuildNM.Chain)
    (hn : BuildNM.build fs cfs classes main mainNs ctxSrc [] nextN cfgBase fuel = .ok cn) :
    ∀ x, x ∈ cn.tasks.map (·.full) ↔ x ∈ c.tasks.map (·.full) := by
  obtain ⟨S, hctx⟩ := build_stages_ctx H pr fs cfs classes main mainNs ctxSrc reg next fuel c hp
  obtain ⟨ctx, cfg, cfgs, h1, h2, h3, h4⟩ := nm_build_names fs cfs classes main mainNs ctxSrc nextN cfgBase fuel cn hn
  rw [hctx] at h1
  have e1 : S.ctx = ctx := Except.ok.inj h1
  have e2 : S.cfg = cfg := by
    have := S.hcfg; rw [e1, h2] at this; exact (Except.ok.inj this).symm
  have e3 : S.cfgs = cfgs := by
    have := S.hcfgs; rw [e1, e2, h3] at this; exact (Except.ok.inj this).symm
  intro x
  rw [h4 x, (chain_nodes_exact S).2 x, e3]

end

end TCV.C20
