import TCV.Lemmas.Cache
import TCV.Lemmas.Json
/-!
# C14 — file caches return the value for the key, or recompute

Model: `TCV.Cache` (sequential machine over file states `absent | corrupt | entry k v`).
Quantifiers: every hash function `H` (injective where stated — "hash collisions assumed away"),
every cache class configuration (`keyed`, `allowNones`, extension), every initial file system, every
sub-cache directory, every key (any list of characters), every value, **every finite sequence of
operations** `get / get_or_compute / forced get_or_compute` with returning or raising computers,
interleaved with arbitrary environment damage (`setFile`: delete, empty, truncate, swap in a file
recorded for another key).  No bound on the length of histories or the number of keys/sub-caches.

What is assumed rather than proved (parameters of the model): the serializers' round trip
(`entry k v` reads back as `v`), that a damaged file makes the reader raise (for `JsonCache` see
`torn_json_never_loads`; for pickle/npy it is sampled by the correspondence), sha256 collisions.
-/
namespace TCV.C14
open TCV TCV.Cache

/-- **refinement**: for every operation sequence from every file system, the file caches produce
exactly the outputs and computer-call counts of the dictionary specification in which corrupt files
count as absent, and end in a file system that stands for the specification's final dictionary -/
theorem cache_refines_dict (H : Str → Str) (hH : ∀ a b, H a = H b → a = b) (root : Conf) :
    ∀ (ops : List Op) (fs : FS),
      (run H root fs ops).1 = (specRun root (absOf H root fs) ops).1 ∧
      absOf H root (run H root fs ops).2 = (specRun root (absOf H root fs) ops).2 := by
  intro ops
  induction ops with
  | nil => intro fs; exact ⟨rfl, rfl⟩
  | cons op rest ih =>
    intro fs
    obtain ⟨h1, h2, h3⟩ := exec_refines H hH root fs op
    have := ih (exec H root fs op).fs
    rw [h1] at this
    simp only [run, specRun]
    rw [h2, h3, this.1]
    exact ⟨rfl, this.2⟩

/-- `get` never computes and never changes a file -/
theorem get_never_computes (H : Str → Str) (root : Conf) (fs : FS) (d : Dir) (k : Key) :
    (exec H root fs (.get d k)).calls = 0 ∧ (exec H root fs (.get d k)).fs = fs := by
  simp only [exec]
  split
  · split <;> exact ⟨rfl, rfl⟩
  · exact ⟨rfl, rfl⟩

/-- the computer is called at most once per operation -/
theorem calls_at_most_once (H : Str → Str) (root : Conf) (fs : FS) (op : Op) :
    (exec H root fs op).calls ≤ 1 := by
  cases op with
  | get d k => rw [(get_never_computes H root fs d k).1]; omega
  | goc d k comp force =>
    have hc : ∀ c p, (computeAndStore c fs p k comp).calls ≤ 1 := by
      intro c p; cases comp <;> simp only [computeAndStore] <;> (try split) <;> simp
    simp only [exec]
    split
    · split
      · simp
      · simp
      · exact hc _ _
    · exact hc _ _
  | setFile d k f => simp [exec]

/-- a computation that raises stores nothing — whatever was there (entry, foreign, corrupt) stays;
and when the computer was called the call ends with its exception -/
theorem raise_stores_nothing (H : Str → Str) (root : Conf) (fs : FS) (d : Dir) (k : Key) (force : Bool) :
    (exec H root fs (.goc d k .raise force)).fs = fs ∧
    ((exec H root fs (.goc d k .raise force)).calls = 1 → (exec H root fs (.goc d k .raise force)).out = .raised) := by
  simp only [exec]
  split
  · split <;> simp [computeAndStore]
  · simp [computeAndStore]

/-- **a file recorded for another key is reported** (`JsonCache`): `CacheException`, no computer
call, nothing overwritten — for `get` and for unforced `get_or_compute` -/
theorem foreign_key_reported (H : Str → Str) (root : Conf) (hk : root.keyed = true) (fs : FS) (d : Dir)
    (k k' : Key) (v : Val) (hne : k' ≠ k)
    (hf : fs (pathOf H (confOf root d) d k) = .entry k' v) (comp : Comp) :
    (exec H root fs (.get d k)).out = .cacheErr ∧
    (exec H root fs (.goc d k comp false)).out = .cacheErr ∧
    (exec H root fs (.goc d k comp false)).calls = 0 ∧
    (exec H root fs (.goc d k comp false)).fs = fs := by
  have hl : load (confOf root d) k (.entry k' v) = .cacheErr := by
    simp [load, confOf_keyed, hk, hne]
  simp [exec, hf, FileSt.present, hl]

/-- the value may be stored: not `None`, or `None` is allowed -/
def Storable (c : Conf) (v : Val) : Prop := ¬ (v.isNone = true ∧ c.allowNones = false)

/-- **an intact entry for exactly that key is returned, without computing** -/
theorem hit_returns_stored (H : Str → Str) (root : Conf) (fs : FS) (d : Dir) (k : Key) (v : Val)
    (hv : Storable (confOf root d) v)
    (hf : fs (pathOf H (confOf root d) d k) = .entry k v) (comp : Comp) :
    (exec H root fs (.get d k)).out = .val v ∧
    (exec H root fs (.goc d k comp false)).out = .val v ∧
    (exec H root fs (.goc d k comp false)).calls = 0 ∧
    (exec H root fs (.goc d k comp false)).fs = fs := by
  have hl : load (confOf root d) k (.entry k v) = .ok v := by
    unfold Storable at hv
    simp only [load, bne_self_eq_false, Bool.and_false, Bool.false_eq_true, if_false]
    split
    · rename_i h; simp at h; exact absurd ⟨by simpa using h.1, h.2⟩ hv
    · rfl
  simp [exec, hf, FileSt.present, hl]

/-- **a missing, empty, truncated or corrupt file is never returned as a value**: `get` answers
`NO_VALUE`; `get_or_compute` calls the computer exactly once, returns its value and stores it -/
theorem damaged_is_recomputed (H : Str → Str) (root : Conf) (fs : FS) (d : Dir) (k : Key) (v : Val)
    (force : Bool) (hv : Storable (confOf root d) v)
    (hf : fs (pathOf H (confOf root d) d k) = .absent ∨ fs (pathOf H (confOf root d) d k) = .corrupt) :
    (exec H root fs (.get d k)).out = .noValue ∧
    (exec H root fs (.goc d k (.ret v) force)).out = .val v ∧
    (exec H root fs (.goc d k (.ret v) force)).calls = 1 ∧
    (exec H root fs (.goc d k (.ret v) force)).fs (pathOf H (confOf root d) d k) = .entry k v := by
  have hs : ¬ (v.isNone = true ∧ (confOf root d).allowNones = false) := hv
  have hc : computeAndStore (confOf root d) fs (pathOf H (confOf root d) d k) k (.ret v)
      = ⟨fs.set (pathOf H (confOf root d) d k) (.entry k v), .val v, 1⟩ := by
    simp only [computeAndStore]
    rw [if_neg (by simpa using hs)]
  rcases hf with hf | hf <;> cases force <;> simp [exec, hf, FileSt.present, load, hc, FS.set]

/-- **`force` always recomputes and replaces**, whatever the file was (entry, foreign, corrupt, absent) -/
theorem force_recomputes_and_replaces (H : Str → Str) (root : Conf) (fs : FS) (d : Dir) (k : Key) (v : Val)
    (hv : Storable (confOf root d) v) :
    (exec H root fs (.goc d k (.ret v) true)).out = .val v ∧
    (exec H root fs (.goc d k (.ret v) true)).calls = 1 ∧
    (exec H root fs (.goc d k (.ret v) true)).fs (pathOf H (confOf root d) d k) = .entry k v := by
  have hs : ¬ (v.isNone = true ∧ (confOf root d).allowNones = false) := hv
  have hc : computeAndStore (confOf root d) fs (pathOf H (confOf root d) d k) k (.ret v)
      = ⟨fs.set (pathOf H (confOf root d) d k) (.entry k v), .val v, 1⟩ := by
    simp only [computeAndStore]
    rw [if_neg (by simpa using hs)]
  simp [exec, hc, FS.set]

/-- a `None` result where `None` is not allowed: `CacheException`, nothing stored -/
theorem none_not_stored (H : Str → Str) (root : Conf) (fs : FS) (d : Dir) (k : Key) (force : Bool)
    (hn : (confOf root d).allowNones = false) :
    (exec H root fs (.goc d k (.ret none) force)).fs = fs := by
  simp only [exec]
  split
  · split <;> simp [computeAndStore, hn]
  · simp [computeAndStore, hn]

/-- **stored values round-trip** (through a fresh cache object on the same directory: the state is the
file system only): after a successful `get_or_compute`, `get` and an unforced `get_or_compute` return
that value without computing -/
theorem stored_roundtrip (H : Str → Str) (root : Conf) (fs : FS) (d : Dir) (k : Key) (v : Val) (force : Bool)
    (comp : Comp) (hv : Storable (confOf root d) v)
    (hout : (exec H root fs (.goc d k (.ret v) force)).calls = 1) :
    let fs' := (exec H root fs (.goc d k (.ret v) force)).fs
    (exec H root fs' (.get d k)).out = .val v ∧ (exec H root fs' (.goc d k comp false)).out = .val v ∧
    (exec H root fs' (.goc d k comp false)).calls = 0 := by
  have hs : ¬ (v.isNone = true ∧ (confOf root d).allowNones = false) := hv
  have hc : computeAndStore (confOf root d) fs (pathOf H (confOf root d) d k) k (.ret v)
      = ⟨fs.set (pathOf H (confOf root d) d k) (.entry k v), .val v, 1⟩ := by
    simp only [computeAndStore]
    rw [if_neg (by simpa using hs)]
  have hfs : (exec H root fs (.goc d k (.ret v) force)).fs (pathOf H (confOf root d) d k) = .entry k v := by
    simp only [exec] at hout ⊢
    split
    · rename_i hp
      rw [if_pos hp] at hout
      split
      · rename_i hl; rw [hl] at hout; simp at hout
      · rename_i hl; rw [hl] at hout; simp at hout
      · simp [hc, FS.set]
    · simp [hc, FS.set]
  intro fs'
  have := hit_returns_stored H root fs' d k v hv hfs comp
  exact ⟨this.1, this.2.1, this.2.2.1⟩

/-- **sub-caches never share files**: different sub-cache directories give different paths — for
all keys, even colliding ones (no assumption on the hash) -/
theorem subcaches_disjoint (H : Str → Str) (root : Conf) (d d' : Dir) (k k' : Key) (hd : d ≠ d') :
    pathOf H (confOf root d) d k ≠ pathOf H (confOf root d') d' k' := by
  intro h
  exact hd (pathOf_inj_hash H _ _ (by rw [confOf_ext, confOf_ext]) d d' k k' h).1

/-- **distinct keys never share files**: paths differ whenever (sub-cache directory, key hash)
differ; with a collision-free hash, whenever (sub-cache, key) differ -/
theorem distinct_keys_disjoint (H : Str → Str) (root : Conf) (d d' : Dir) (k k' : Key)
    (h : d ≠ d' ∨ H k ≠ H k') :
    pathOf H (confOf root d) d k ≠ pathOf H (confOf root d') d' k' := by
  intro he
  have := pathOf_inj_hash H _ _ (by rw [confOf_ext, confOf_ext]) d d' k k' he
  rcases h with h | h
  · exact h this.1
  · exact h this.2

/-- consequently no operation on `(d, k)` touches the file of any other `(d', k')` -/
theorem other_entries_untouched (H : Str → Str) (hH : ∀ a b, H a = H b → a = b) (root : Conf) (fs : FS)
    (d d' : Dir) (k k' : Key) (comp : Comp) (force : Bool) (hne : (d', k') ≠ (d, k)) :
    (exec H root fs (.goc d k comp force)).fs (pathOf H (confOf root d') d' k')
      = fs (pathOf H (confOf root d') d' k') := by
  have hp : pathOf H (confOf root d') d' k' ≠ pathOf H (confOf root d) d k := by
    intro he
    have := pathOf_inj H hH _ _ (by rw [confOf_ext, confOf_ext]) d' d k' k he
    exact hne (by rw [this.1, this.2])
  have hc : ∀ c, (computeAndStore c fs (pathOf H (confOf root d) d k) k comp).fs
      (pathOf H (confOf root d') d' k') = fs (pathOf H (confOf root d') d' k') := by
    intro c
    cases comp with
    | raise => rfl
    | ret v => simp only [computeAndStore]; split <;> simp [FS.set, hp]
  simp only [exec]
  split
  · split
    · rfl
    · rfl
    · exact hc _
  · exact hc _

/-! ### `InMemoryCache` (it is the dictionary machine itself: `memExec = specExec memConf`) -/

theorem mem_hit (D : Dict) (d : Dir) (k : Key) (v : Val) (comp : Comp) (h : D (d, k) = .some v) :
    (memExec D (.get d k)).out = .val v ∧ (memExec D (.goc d k comp false)).out = .val v ∧
    (memExec D (.goc d k comp false)).calls = 0 ∧ (memExec D (.goc d k comp false)).D = D := by
  simp [memExec, specExec, h]

theorem mem_miss_computes (D : Dict) (d : Dir) (k : Key) (v : Val) (force : Bool)
    (h : force = true ∨ D (d, k) = .none) :
    (memExec D (.goc d k (.ret v) force)).out = .val v ∧ (memExec D (.goc d k (.ret v) force)).calls = 1 ∧
    (memExec D (.goc d k (.ret v) force)).D (d, k) = .some v := by
  rcases h with h | h <;> cases force <;> simp_all [memExec, specExec, specCompute, memConf, confOf] <;>
    (cases d <;> simp [Dict.set])

theorem mem_raise_stores_nothing (D : Dict) (d : Dir) (k : Key) (force : Bool) :
    (memExec D (.goc d k .raise force)).D = D := by
  simp only [memExec, specExec]
  split
  · rfl
  · split <;> rfl

theorem mem_get_never_computes (D : Dict) (d : Dir) (k : Key) :
    (memExec D (.get d k)).calls = 0 ∧ (memExec D (.get d k)).D = D := by
  simp only [memExec, specExec]; split <;> exact ⟨rfl, rfl⟩

/-- sub-caches and distinct keys are different slots: an operation on `(d, k)` leaves every other slot alone -/
theorem mem_other_slots_untouched (D : Dict) (d d' : Dir) (k k' : Key) (comp : Comp) (force : Bool)
    (hne : (d', k') ≠ (d, k)) : (memExec D (.goc d k comp force)).D (d', k') = D (d', k') := by
  have hc : ∀ c, (specCompute c D (d, k) comp).D (d', k') = D (d', k') := by
    intro c; cases comp with
    | raise => rfl
    | ret v => simp only [specCompute]; split <;> simp [Dict.set, hne]
  simp only [memExec, specExec]
  split
  · exact hc _
  · split
    · rfl
    · rfl
    · exact hc _

/-! ### why a truncated JSON entry is recomputed, not returned

`TCV.Json.entryText k v` is the text `JsonCache.save_value` writes (`orjson`: compact, strings escaped);
`TCV.Json.complete` is the structural scan every JSON decoder performs (brackets counted outside string
literals, a backslash protects the next character; a complete document ends outside any string at
depth 0).  Assumption that links this to `orjson.loads`: it rejects texts the scan rejects. -/

theorem entry_body_seg (k : Str) (v : Json.JVal) (hv : Json.numsOK v = true) :
    Json.Seg (Json.dumpsCompactO [("key".toList, .str k), ("value".toList, v)]) :=
  Json.seg_obj _ (by simp [Json.numsOKO, Json.numsOK, hv])

/-- **every proper prefix of an entry file's text fails the scan** — for every key (any characters),
every value of any nesting, every truncation length -/
theorem torn_json_never_loads (k : Str) (v : Json.JVal) (hv : Json.numsOK v = true) (n : Nat)
    (hn : n < (Json.entryText k v).length) : Json.complete ((Json.entryText k v).take n) = false := by
  have hseg := entry_body_seg k v hv
  have htext : Json.entryText k v
      = '{' :: (Json.dumpsCompactO [("key".toList, .str k), ("value".toList, v)] ++ ['}']) := rfl
  rw [htext] at hn ⊢
  generalize Json.dumpsCompactO [("key".toList, .str k), ("value".toList, v)] = body at hseg hn ⊢
  cases n with
  | zero => rfl
  | succ m =>
    have hm : m ≤ body.length := by simp at hn; omega
    have htake : List.take (m + 1) ('{' :: (body ++ ['}'])) = '{' :: body.take m := by
      rw [List.take_succ_cons, List.take_append_of_le_length hm]
    rw [htake]
    obtain ⟨s, hs, hd⟩ := (hseg 1).2 (body.take m) (body.drop m) (List.take_append_drop m body).symm
    have hscan : Json.scan ⟨0, false, false⟩ ('{' :: body.take m) = some s := by
      simp only [Json.scan, Json.scanChar]
      simpa using hs
    simp only [Json.complete, hscan]
    have : s ≠ ⟨0, false, false⟩ := by
      intro e; rw [e] at hd; simp at hd
    simp [this]

/-- … while the complete text passes it (the scan is not vacuous) -/
theorem entry_text_complete (k : Str) (v : Json.JVal) (hv : Json.numsOK v = true) :
    Json.complete (Json.entryText k v) = true := by
  have h := (Json.seg_wrap '{' '}' (Or.inl rfl) (Or.inl rfl) (entry_body_seg k v hv) 0).1
  have htext : Json.entryText k v
      = '{' :: (Json.dumpsCompactO [("key".toList, .str k), ("value".toList, v)] ++ ['}']) := rfl
  simp only [Json.complete, htext, h]
  simp

example : Json.entryText "k\"\n".toList (.arr [.num "1".toList, .obj [("a}".toList, .null)]])
    = "{\"key\":\"k\\\"\\n\",\"value\":[1,{\"a}\":null}]}".toList := by decide

example : Json.numsOK (.arr [.num "-1.5e+16".toList, .obj [("a}".toList, .num "0".toList)]]) = true := by decide

/-! ### non-vacuity -/

/-- an injective "hash" exists (the hypotheses of `cache_refines_dict` are satisfiable) -/
example : ∀ a b : Str, id a = id b → a = b := fun _ _ h => h

/-- a concrete history on a `JsonCache(allow_nones=False)`: miss → compute; hit; raise keeps the entry;
damage → recompute; swapped-in foreign file → reported; sub-cache is separate -/
example :
    (run id ⟨true, false, "json".toList⟩ (fun _ => .absent)
      [.goc [] "k".toList (.ret (some 1)) false,
       .goc [] "k".toList (.ret (some 2)) false,
       .goc [] "k".toList .raise true,
       .setFile [] "k".toList .corrupt,
       .get [] "k".toList,
       .goc [] "k".toList (.ret (some 3)) false,
       .setFile [] "k".toList (.entry "other".toList (some 9)),
       .goc [] "k".toList (.ret (some 4)) false,
       .get ["s".toList] "k".toList,
       .goc [] "n".toList (.ret none) false,
       .goc ["s".toList] "n".toList (.ret none) false]).1
    = [(.val (some 1), 1), (.val (some 1), 0), (.raised, 1), (.unit, 0), (.noValue, 0), (.val (some 3), 1),
       (.unit, 0), (.cacheErr, 0), (.noValue, 0), (.cacheErr, 1), (.val none, 1)] := by
  decide

end TCV.C14
