import TCV.Lemmas.Recreate
import TCV.Lemmas.CreateTasks
/-!
# C08 / C09 / C13 — theorems about a WHOLE built chain

`Build.build` is the model of `Chain(config, shared_tasks, parameter_mode=True)`.  The theorems of `C08.lean` / `C09.lean` are
per-step laws; here they are lifted to every chain the builder returns, for every class table, config tree, context,
registry, and recursion limit (`fuel`):

* `chain_nodes_exact` — the chain's tasks are exactly the tasks its configs declare (non-abstract, non-excluded), each once;
* `chain_no_silent_override` — every task belongs to the ONE config that declares its name: two configs declaring the same
  name cannot both survive construction (C09: a conflict is an error, never resolved by order);
* `chain_params_from_declaring_config` — every task's parameter values are `set_values` of the data of its declaring
  config and of no other (C09: no leaking between configs);
* `chain_dependency_order` — the tasks can be ranked so that every declared input edge goes from a lower to a higher
  rank: a chain that is returned is acyclic, and inputs are created before their dependants;
* `cyclic_declaration_fails` — conversely a dependency cycle among the first-pass tasks makes `build` fail, whatever the fuel;
* `chain_inputs_declared` — every edge is the resolution (`resolveInputs`, C08/C10 per-step laws) of a declared input of that
  task, inside the task's own namespace; for a chain whose tasks own their objects (no object shared from elsewhere) the
  second dependency pass leaves exactly these edges;
* `chain_keys` — every key is the key function of the task's persisted parameters and of the keys of its input tasks
  (the structural half of `C01.WFChain`, now proved of the builder instead of evaluated per run).
-/
namespace TCV.C08
open TCV TCV.Config TCV.Build TCV.PVal

/-! ## generic facts about `mapM` in `Except` -/

/-- the first dependency pass pairs every first-pass task with its resolved inputs, in order -/
theorem withIns_spec (g : Task1 → Except Err (List (Str × InVal))) : ∀ (t1 : List Task1) (w : List (Task1 × List (Str × InVal))),
    t1.mapM (fun t => (g t).map (fun ins => (t, ins))) = .ok w →
    w.map (·.1) = t1 ∧ ∀ p ∈ w, g p.1 = .ok p.2
  | [], w, h => by
    simp only [List.mapM_nil, pure, Except.pure] at h; cases h; simp
  | a :: l, w, h => by
    simp only [List.mapM_cons, bind, Except.bind, pure, Except.pure] at h
    generalize hl : List.mapM (fun t => (g t).map (fun ins => (t, ins))) l = L at h
    cases ha : g a with
    | error e => rw [ha] at h; simp [Except.map] at h
    | ok b =>
      rw [ha] at h
      simp only [Except.map] at h
      cases L with
      | error e => cases h
      | ok r' =>
        simp only at h
        cases h
        obtain ⟨i1, i2⟩ := withIns_spec g l r' hl
        refine ⟨by simp [i1], ?_⟩
        intro p hp
        rcases List.mem_cons.mp hp with rfl | hp
        · exact ha
        · exact i2 p hp

theorem find_of_nodup (w : List (Task1 × List (Str × InVal))) (hn : (w.map (·.1.full)).Nodup) :
    ∀ p ∈ w, w.find? (fun q => q.1.full == p.1.full) = some p := by
  induction w with
  | nil => intro p hp; simp at hp
  | cons a w ih =>
    intro p hp
    simp only [List.map_cons, List.nodup_cons] at hn
    rcases List.mem_cons.mp hp with rfl | hp
    · simp
    · have hne : (a.1.full == p.1.full) = false := by
        simp only [beq_eq_false_iff_ne, ne_eq]
        intro he
        exact hn.1 (List.mem_map.mpr ⟨p, hp, he.symm⟩)
      simp only [List.find?_cons, hne]
      exact ih hn.2 p hp

theorem eq_of_nodup_map {α β} (f : α → β) : ∀ (l : List α), (l.map f).Nodup → ∀ a ∈ l, ∀ b ∈ l, f a = f b → a = b
  | [], _, a, ha, _, _, _ => by simp at ha
  | x :: l, hn, a, ha, b, hb, he => by
    simp only [List.map_cons, List.nodup_cons] at hn
    rcases List.mem_cons.mp ha with ha1 | ha1 <;> rcases List.mem_cons.mp hb with hb1 | hb1
    · rw [ha1, hb1]
    · subst ha1; exact (hn.1 (List.mem_map.mpr ⟨b, hb1, he.symm⟩)).elim
    · subst hb1; exact (hn.1 (List.mem_map.mpr ⟨a, ha1, he⟩)).elim
    · exact eq_of_nodup_map f l hn.2 a ha1 b hb1 he

/-! ## the stages of `build` -/

/-- the first dependency pass -/
def firstPass (classes : Classes) (t1 : List Task1) : Except Err (List (Task1 × List (Str × InVal))) :=
  t1.mapM (fun t => (resolveInputs classes (t1.map (·.full)) t.full t.cls t.ns).map (fun ins => (t, ins)))

/-- the second dependency pass: every task object resolves its inputs again -/
def secondPass (classes : Classes) (names : List Str) (done : List Task2) : Except Err (List (Nat × List (Str × InVal))) :=
  done.mapM (fun t => match get? t.objCid classes with
    | some c => (resolveInputs classes names t.full c t.objNs).map (fun i => (t.objId, i))
    | none => .error .notFound)

def finalize (ins2 : List (Nat × List (Str × InVal))) (done : List Task2) : List Task2 :=
  done.map (fun t => match ins2.reverse.find? (fun p => p.1 == t.objId) with
    | some p => { t with inputs := p.2 }
    | none => t)

/-- what a successful `build` went through -/
structure Stages (H : Str → Str) (pr : Char → Bool) (fs : FS) (classes : Classes) (main : Str) (mainNs : Option Str)
    (reg : Registry) (next fuel : Nat) (c : Chain) where
  ctx : Option Ctx
  cfg : Cfg
  cfgs : List Cfg
  t1 : List Task1
  withIns : List (Task1 × List (Str × InVal))
  st : B2
  ins2 : List (Nat × List (Str × InVal))
  hcfg : loadCfg fs ctx main mainNs = .ok cfg
  hcfgs : processConfig fs ctx fuel cfg [] = .ok cfgs
  ht1 : createTasks classes cfgs = .ok t1
  hwith : firstPass classes t1 = .ok withIns
  hst : (t1.map (·.full)).foldlM (fun s n => recreate H pr withIns fuel s n) { done := [], reg := reg, next := next } = .ok st
  hins2 : secondPass classes (t1.map (·.full)) st.done = .ok ins2
  hc : c = { tasks := finalize ins2 st.done, reg := st.reg, next := st.next }

theorem build_stages (H : Str → Str) (pr : Char → Bool) (fs : FS) (cfs : CtxFS) (classes : Classes)
    (main : Str) (mainNs : Option Str) (ctxSrc : Option CtxSrc) (reg : Registry) (next : Nat) (fuel : Nat) (c : Chain)
    (h : build H pr fs cfs classes main mainNs ctxSrc reg next fuel = .ok c) :
    Nonempty (Stages H pr fs classes main mainNs reg next fuel c) := by
  unfold build at h
  simp only [bind, Except.bind, pure, Except.pure] at h
  repeat' split at h
  all_goals first | cases h | skip
  all_goals
    exact ⟨⟨_, _, _, _, _, _, _, by assumption, by assumption, by assumption, by assumption, by assumption, by assumption, rfl⟩⟩

/-- the context stage of `build` -/
def ctxStage (cfs : CtxFS) (fuel : Nat) (ctxSrc : Option CtxSrc) : Except Err (Option Ctx) :=
  match ctxSrc with
  | none => pure none
  | some s => (prepareCtx cfs fuel s none).map some

/-- `build_stages`, together with where the context of the stages comes from -/
theorem build_stages_ctx (H : Str → Str) (pr : Char → Bool) (fs : FS) (cfs : CtxFS) (classes : Classes)
    (main : Str) (mainNs : Option Str) (ctxSrc : Option CtxSrc) (reg : Registry) (next : Nat) (fuel : Nat) (c : Chain)
    (h : build H pr fs cfs classes main mainNs ctxSrc reg next fuel = .ok c) :
    ∃ S : Stages H pr fs classes main mainNs reg next fuel c, ctxStage cfs fuel ctxSrc = .ok S.ctx := by
  unfold build at h
  simp only [bind, Except.bind, pure, Except.pure] at h
  repeat' split at h
  all_goals first | cases h | skip
  all_goals
    refine ⟨⟨_, _, _, _, _, _, _, by assumption, by assumption, by assumption, by assumption, by assumption, by assumption, rfl⟩, ?_⟩
    first
      | rfl
      | (simp only [ctxStage]; assumption)

/-! ## consequences for every chain that `build` returns -/

section
variable {H : Str → Str} {pr : Char → Bool} {fs : FS} {classes : Classes} {main : Str} {mainNs : Option Str}
  {reg : Registry} {next fuel : Nat} {c : Chain}

/-- config number `j` of the chain declares a task named `name`: one of its `tasks` entries is a class that is neither
abstract nor excluded by this config, and `name` is `namespace::group:task` -/
def Declares (classes : Classes) (cfgs : List Cfg) (j : Nat) (name : Str) : Prop :=
  ∃ cfg cid cls, cfgs[j]? = some cfg ∧ cid ∈ cfg.tasks ∧ get? cid classes = some cls ∧
    (cls.abstract || cfg.excluded.contains cid) = false ∧ name = fullName cfg.ns cls.slug

theorem finalize_map {β} (f : Task2 → β) (ins2 : List (Nat × List (Str × InVal))) (done : List Task2)
    (hf : ∀ (t : Task2) (i : List (Str × InVal)), f { t with inputs := i } = f t) :
    (finalize ins2 done).map f = done.map f := by
  unfold finalize
  rw [List.map_map]
  apply List.map_congr_left
  intro t _
  simp only [Function.comp]
  split
  · exact hf t _
  · rfl

theorem noRepeat_nodup : ∀ (done : List Task2),
    (∀ pre t post, done = pre ++ t :: post → t.full ∉ pre.map (·.full)) → (done.map (·.full)).Nodup
  | [], _ => by simp
  | a :: l, h => by
    simp only [List.map_cons, List.nodup_cons]
    constructor
    · intro hm
      obtain ⟨t, ht, he⟩ := List.mem_map.mp hm
      obtain ⟨pre, post, hl⟩ := List.append_of_mem ht
      have := h (a :: pre) t post (by rw [hl]; simp)
      exact this (by simp [he])
    · apply noRepeat_nodup l
      intro pre t post hl
      have := h (a :: pre) t post (by rw [hl]; simp)
      intro hm
      exact this (by simp only [List.map_cons, List.mem_cons]; exact Or.inr hm)

theorem depOrdered_nodup (done : List Task2) (h : DepOrdered done) : (done.map (·.full)).Nodup :=
  noRepeat_nodup done (fun pre t post he => (h pre t post he).1)

/-- facts that every theorem below starts from -/
theorem core (S : Stages H pr fs classes main mainNs reg next fuel c) :
    (∀ t ∈ S.t1, FromCfg classes S.cfgs t) ∧ (S.t1.map (·.full)).Nodup ∧
    (∀ j cfg, S.cfgs[j]? = some cfg → ∀ cid ∈ cfg.tasks, ∀ cls, get? cid classes = some cls →
        (cls.abstract || cfg.excluded.contains cid) = false → ∃ t ∈ S.t1, t.full = fullName cfg.ns cls.slug ∧ t.cfgIx = j) ∧
    S.withIns.map (·.1) = S.t1 ∧
    (∀ p ∈ S.withIns, resolveInputs classes (S.t1.map (·.full)) p.1.full p.1.cls p.1.ns = .ok p.2) ∧
    DepOrdered S.st.done ∧ AllDeclared H pr S.withIns S.st.done ∧ (∀ n ∈ S.t1.map (·.full), n ∈ S.st.names) := by
  obtain ⟨a1, a2, _, a4⟩ := createTasksFrom_spec classes S.cfgs S.cfgs 0 [] S.t1 (by simp) S.ht1 (by simp) (by simp)
  obtain ⟨b1, b2⟩ := withIns_spec _ S.t1 S.withIns S.hwith
  obtain ⟨c1, c2, _, c4⟩ := names_fold H pr S.withIns fuel _ _ _ S.hst depOrdered_nil (allDeclared_nil H pr S.withIns)
  exact ⟨a1, a2, fun j cfg h => a4 j cfg (Nat.zero_le j) h, b1, b2, c1, c2, c4⟩

/-- a created task and its first-pass original -/
theorem origin (S : Stages H pr fs classes main mainNs reg next fuel c) :
    ∀ pre t post, S.st.done = pre ++ t :: post → ∃ t1 ∈ S.t1, (t1, t.inputs) ∈ S.withIns ∧ t1.full = t.full ∧
      t.params = t1.params ∧ t.cid = t1.cls.cid ∧ t.slug = t1.cls.slug ∧ t.ns = t1.ns ∧ t.cfgIx = t1.cfgIx ∧
      t.key = Key.keyOf H pr (toKeyParams t1.cls.params t1.params) t1.ns (inKeysOf pre t.inputs) := by
  intro pre t post he
  obtain ⟨_, _, _, b1, _, _, c2, _⟩ := core S
  obtain ⟨t1, hf, h1, h2, h3, h4, h5, h6⟩ := c2 pre t post he
  have hm := List.mem_of_find?_eq_some hf
  refine ⟨t1, ?_, hm, find_full S.withIns hf, h1, h2, h3, h4, h5, h6⟩
  rw [← b1]
  exact List.mem_map.mpr ⟨_, hm, rfl⟩

theorem names_final (S : Stages H pr fs classes main mainNs reg next fuel c) :
    c.tasks.map (·.full) = S.st.names := by
  conv => lhs; rw [S.hc]
  exact finalize_map (·.full) S.ins2 S.st.done (fun _ _ => rfl)

theorem tasks_eq (S : Stages H pr fs classes main mainNs reg next fuel c) : c.tasks = finalize S.ins2 S.st.done :=
  congrArg Chain.tasks S.hc

theorem final_map {β} (S : Stages H pr fs classes main mainNs reg next fuel c) (f : Task2 → β)
    (hf : ∀ (t : Task2) (i : List (Str × InVal)), f { t with inputs := i } = f t) : c.tasks.map f = S.st.done.map f := by
  rw [tasks_eq S]
  exact finalize_map f S.ins2 S.st.done hf

/-- **C08, node set.**  The tasks of a built chain are exactly the tasks its configs declare — every non-abstract,
non-excluded class listed by one of the chain's configs, under the name `namespace::group:task`, and nothing else —
and no name occurs twice. -/
theorem chain_nodes_exact (S : Stages H pr fs classes main mainNs reg next fuel c) :
    (c.tasks.map (·.full)).Nodup ∧ ∀ x, x ∈ c.tasks.map (·.full) ↔ ∃ j, Declares classes S.cfgs j x := by
  obtain ⟨a1, _, a4, b1, _, c1, _, c4⟩ := core S
  rw [names_final S]
  refine ⟨depOrdered_nodup _ c1, ?_⟩
  intro x
  constructor
  · intro hx
    obtain ⟨t, ht, rfl⟩ := List.mem_map.mp hx
    obtain ⟨pre, post, he⟩ := List.append_of_mem ht
    obtain ⟨t1, ht1, _, hfull, _⟩ := origin S pre t post he
    obtain ⟨cfg, cid, g1, g2, g3, g4, g5, _, g7, _⟩ := a1 t1 ht1
    exact ⟨t1.cfgIx, cfg, cid, t1.cls, g1, g2, g3, by rw [g4, g5]; rfl, by rw [← hfull, g7]⟩
  · rintro ⟨j, cfg, cid, cls, g1, g2, g3, g4, rfl⟩
    obtain ⟨t, ht, hfull, _⟩ := a4 j cfg g1 cid g2 cls g3 g4
    exact c4 _ (List.mem_map.mpr ⟨t, ht, hfull⟩)

/-- **C09, no silent override.**  Every task of a built chain belongs to the config that declares its name, and no OTHER
config of the chain declares that name: had two configs declared it, construction would have failed (`conflict`) instead of
letting declaration order decide. -/
theorem chain_no_silent_override (S : Stages H pr fs classes main mainNs reg next fuel c) :
    ∀ t ∈ c.tasks, Declares classes S.cfgs t.cfgIx t.full ∧ ∀ j, Declares classes S.cfgs j t.full → j = t.cfgIx := by
  obtain ⟨a1, a2, a4, _, _, _, _, _⟩ := core S
  intro t ht
  rw [S.hc] at ht
  obtain ⟨t0, ht0, rfl⟩ := List.mem_map.mp ht
  obtain ⟨pre, post, he⟩ := List.append_of_mem ht0
  obtain ⟨t1, ht1, _, hfull, _, _, _, _, hix, _⟩ := origin S pre t0 post he
  have hfull' : ∀ (t0 : Task2) (x : Task2), (x = match S.ins2.reverse.find? (fun p => p.1 == t0.objId) with
      | some p => { t0 with inputs := p.2 } | none => t0) → x.full = t0.full ∧ x.cfgIx = t0.cfgIx := by
    intro t0 x hx; subst hx; split <;> exact ⟨rfl, rfl⟩
  obtain ⟨e1, e2⟩ := hfull' t0 _ rfl
  rw [e1, e2]
  obtain ⟨cfg, cid, g1, g2, g3, g4, g5, _, g7, _⟩ := a1 t1 ht1
  refine ⟨⟨cfg, cid, t1.cls, by rw [hix]; exact g1, g2, g3, by rw [g4, g5]; rfl, by rw [← hfull, g7]⟩, ?_⟩
  rintro j ⟨cfg', cid', cls', k1, k2, k3, k4, k5⟩
  obtain ⟨t', ht', hf', hj⟩ := a4 j cfg' k1 cid' k2 cls' k3 k4
  -- names are unique among the first-pass tasks
  have : t' = t1 := by
    exact eq_of_nodup_map (·.full) S.t1 a2 t' ht' t1 ht1 (by rw [hf', ← k5, hfull])
  rw [hix, ← this, hj]

/-- **C09, no leaking.**  The parameter values of every task are `set_values` of its class's declared parameters against
the data of the config that declares the task — the config's value under `name_in_config`, else the default, else an
error — and the task lives in that config's namespace. -/
theorem chain_params_from_declaring_config (S : Stages H pr fs classes main mainNs reg next fuel c) :
    ∀ t ∈ c.tasks, ∃ cfg cid cls, S.cfgs[t.cfgIx]? = some cfg ∧ cid ∈ cfg.tasks ∧ get? cid classes = some cls ∧
      cls.cid = t.cid ∧ cls.slug = t.slug ∧ t.ns = cfg.ns ∧ setParams cls.params cfg.data = .ok t.params := by
  obtain ⟨a1, _, _, _, _, _, _, _⟩ := core S
  intro t ht
  rw [S.hc] at ht
  obtain ⟨t0, ht0, rfl⟩ := List.mem_map.mp ht
  obtain ⟨pre, post, he⟩ := List.append_of_mem ht0
  obtain ⟨t1, ht1, _, _, hp, hcid, hslug, hns, hix, _⟩ := origin S pre t0 post he
  obtain ⟨cfg, cid, g1, g2, g3, _, _, g6, _, g8⟩ := a1 t1 ht1
  have : ∀ x : Task2, (x = match S.ins2.reverse.find? (fun p => p.1 == t0.objId) with
      | some p => { t0 with inputs := p.2 } | none => t0) →
      x.cfgIx = t0.cfgIx ∧ x.cid = t0.cid ∧ x.slug = t0.slug ∧ x.ns = t0.ns ∧ x.params = t0.params := by
    intro x hx; subst hx; split <;> exact ⟨rfl, rfl, rfl, rfl, rfl⟩
  obtain ⟨e1, e2, e3, e4, e5⟩ := this _ rfl
  rw [e1, e2, e3, e4, e5]
  exact ⟨cfg, cid, t1.cls, by rw [hix]; exact g1, g2, g3, hcid.symm, hslug.symm, by rw [hns, g6], by rw [hp]; exact g8⟩

/-- **C08, edges.**  Every input edge of a created task is the resolution of the inputs its class declares, looked up
among the chain's task names from inside the task's own namespace (`resolveInputs`: expansion of patterns, namespace
prefixing at the `::` boundary, C10 name resolution, optional inputs replaced by their default). -/
theorem chain_inputs_declared (S : Stages H pr fs classes main mainNs reg next fuel c) :
    ∀ t ∈ S.st.done, ∃ t1 ∈ S.t1, t1.full = t.full ∧ t1.ns = t.ns ∧ t1.cls.cid = t.cid ∧
      resolveInputs classes (S.t1.map (·.full)) t.full t1.cls t.ns = .ok t.inputs := by
  obtain ⟨_, _, _, _, b2, _, _, _⟩ := core S
  intro t ht
  obtain ⟨pre, post, he⟩ := List.append_of_mem ht
  obtain ⟨t1, ht1, hw, hfull, _, hcid, _, hns, _, _⟩ := origin S pre t post he
  refine ⟨t1, ht1, hfull, hns.symm, hcid.symm, ?_⟩
  have := b2 _ hw
  simp only at this
  rw [← hfull, hns]
  exact this

/-- **C08, acyclic.**  The tasks of a built chain are ranked by creation order, and every input edge goes from a strictly
lower to a strictly higher rank: whatever `build` returns is acyclic, and inputs are created (and keyed) before their
dependants. -/
theorem chain_dependency_order (S : Stages H pr fs classes main mainNs reg next fuel c) :
    DepOrdered S.st.done ∧
    ∀ t ∈ S.st.done, ∀ k f, (k, InVal.task f) ∈ t.inputs → rankIn S.st.done f < rankIn S.st.done t.full := by
  obtain ⟨_, _, _, _, _, c1, _, _⟩ := core S
  exact ⟨c1, depOrdered_rank _ c1⟩

/-- rank increases along first-pass input edges -/
theorem inputOf_rank (S : Stages H pr fs classes main mainNs reg next fuel c) (f x : Str)
    (h : InputOf S.withIns f x) : rankIn S.st.done f < rankIn S.st.done x := by
  obtain ⟨_, _, _, b1, _, c1, c2, c4⟩ := core S
  obtain ⟨t', ins, k, hf, hk⟩ := h
  have hx : x ∈ S.st.names := by
    apply c4
    rw [← b1, List.map_map]
    exact List.mem_map.mpr ⟨_, List.mem_of_find?_eq_some hf, find_full S.withIns hf⟩
  obtain ⟨t, ht, rfl⟩ := List.mem_map.mp hx
  obtain ⟨pre, post, he⟩ := List.append_of_mem ht
  obtain ⟨t1, hf', _⟩ := c2 pre t post he
  rw [hf] at hf'
  cases hf'
  exact depOrdered_rank _ c1 t ht k f hk

theorem pathUp_rank (S : Stages H pr fs classes main mainNs reg next fuel c) :
    ∀ (l : List Str) (a : Str), PathUp S.withIns (a :: l) → ∀ y ∈ l, rankIn S.st.done a < rankIn S.st.done y
  | [], _, _, y, hy => by simp at hy
  | b :: l, a, h, y, hy => by
    have h1 := inputOf_rank S a b h.1
    rcases List.mem_cons.mp hy with rfl | hy
    · exact h1
    · exact Nat.lt_trans h1 (pathUp_rank S l b h.2 y hy)

/-- **C08, cycles are errors.**  If the declared inputs of the first-pass tasks contain a dependency cycle
`x ← … ← x`, chain construction does not return a chain — for every recursion limit: the hypothesis that `build`
succeeded (`S`) is contradictory. -/
theorem cyclic_declaration_fails (S : Stages H pr fs classes main mainNs reg next fuel c) (x : Str) (l : List Str)
    (hcycle : PathUp S.withIns (x :: l ++ [x])) : False := by
  have := pathUp_rank S (l ++ [x]) x (by simpa using hcycle) x (by simp)
  exact Nat.lt_irrefl _ this

/-- **C01 / C03 link.**  The key of every task of a built chain is the key function applied to the task's declared
parameters with the values of its declaring config, its namespace, and the keys of its input tasks — which were created,
and keyed, before it. -/
theorem chain_keys (S : Stages H pr fs classes main mainNs reg next fuel c) :
    ∀ pre t post, S.st.done = pre ++ t :: post → ∃ t1 ∈ S.t1, t1.full = t.full ∧
      t.key = Key.keyOf H pr (toKeyParams t1.cls.params t.params) t.ns (inKeysOf pre t.inputs) ∧
      ∀ k f, (k, InVal.task f) ∈ t.inputs → ∃ u ∈ pre, u.full = f ∧ (k, u.key) ∈ inKeysOf pre t.inputs := by
  obtain ⟨_, _, _, _, _, c1, _, _⟩ := core S
  intro pre t post he
  obtain ⟨t1, ht1, _, hfull, hp, _, _, hns, _, hkey⟩ := origin S pre t post he
  refine ⟨t1, ht1, hfull, by rw [hp, hns]; exact hkey, ?_⟩
  intro k f hk
  have hfpre := (c1 pre t post he).2 k f hk
  obtain ⟨u0, hu0, hfu0⟩ := List.mem_map.mp hfpre
  cases hfind : pre.find? (fun t => t.full == f) with
  | none =>
    have := List.find?_eq_none.mp hfind u0 hu0
    simp [hfu0] at this
  | some u =>
    refine ⟨u, List.mem_of_find?_eq_some hfind, by simpa using List.find?_some hfind, ?_⟩
    unfold inKeysOf
    rw [List.mem_filterMap]
    exact ⟨(k, .task f), hk, by simp [hfind]⟩

/-- the tasks of the returned chain are the created tasks; only the input tables are rewritten by the second pass -/
theorem final_fields (S : Stages H pr fs classes main mainNs reg next fuel c) :
    c.tasks.map (fun t => (t.full, t.cid, t.slug, t.ns, t.cfgIx, t.params, t.key, t.objId, t.objNs, t.objCid)) =
      S.st.done.map (fun t => (t.full, t.cid, t.slug, t.ns, t.cfgIx, t.params, t.key, t.objId, t.objNs, t.objCid)) := by
  conv => lhs; rw [S.hc]
  exact finalize_map _ S.ins2 S.st.done (fun _ _ => rfl)

theorem mapM_mem {α β ε} (f : α → Except ε β) : ∀ (l : List α) (r : List β), l.mapM f = .ok r →
    (∀ p ∈ r, ∃ u ∈ l, f u = .ok p) ∧ (∀ u ∈ l, ∃ p ∈ r, f u = .ok p)
  | [], r, h => by
    simp only [List.mapM_nil, pure, Except.pure] at h; cases h; simp
  | a :: l, r, h => by
    simp only [List.mapM_cons, bind, Except.bind, pure, Except.pure] at h
    cases ha : f a with
    | error e => rw [ha] at h; cases h
    | ok b =>
      rw [ha] at h
      simp only at h
      cases hl : l.mapM f with
      | error e => rw [hl] at h; cases h
      | ok r' =>
        rw [hl] at h
        simp only at h
        cases h
        obtain ⟨i1, i2⟩ := mapM_mem f l r' hl
        constructor
        · intro p hp
          rcases List.mem_cons.mp hp with rfl | hp
          · exact ⟨a, List.mem_cons_self .., ha⟩
          · obtain ⟨u, hu, hfu⟩ := i1 p hp
            exact ⟨u, List.mem_cons_of_mem _ hu, hfu⟩
        · intro u hu
          rcases List.mem_cons.mp hu with rfl | hu
          · exact ⟨b, List.mem_cons_self .., ha⟩
          · obtain ⟨p, hp, hfu⟩ := i2 u hu
            exact ⟨p, List.mem_cons_of_mem _ hp, hfu⟩

/-- **C08, edges of the returned chain.**  After the second dependency pass the input table of every task is the
resolution of the declared inputs of the class of its task OBJECT, inside the namespace of the config the object was
created with, computed for one of the names (`u`) under which the chain lists that object. -/
theorem chain_final_inputs (S : Stages H pr fs classes main mainNs reg next fuel c) :
    ∀ t ∈ c.tasks, ∃ u ∈ S.st.done, u.objId = t.objId ∧ ∃ cls, get? u.objCid classes = some cls ∧
      resolveInputs classes (S.t1.map (·.full)) u.full cls u.objNs = .ok t.inputs := by
  intro t ht
  rw [S.hc] at ht
  obtain ⟨t0, ht0, rfl⟩ := List.mem_map.mp ht
  obtain ⟨i1, i2⟩ := mapM_mem _ S.st.done S.ins2 S.hins2
  obtain ⟨p0, hp0, hfp0⟩ := i2 t0 ht0
  have hp0id : p0.1 = t0.objId := by
    cases hg : get? t0.objCid classes with
    | none => rw [hg] at hfp0; cases hfp0
    | some cls =>
      rw [hg] at hfp0
      simp only at hfp0
      cases hr : resolveInputs classes (S.t1.map (·.full)) t0.full cls t0.objNs with
      | error e => rw [hr] at hfp0; simp [Except.map] at hfp0
      | ok ins => rw [hr] at hfp0; simp only [Except.map] at hfp0; cases hfp0; rfl
  cases hfind : S.ins2.reverse.find? (fun p => p.1 == t0.objId) with
  | none =>
    have := List.find?_eq_none.mp hfind p0 (List.mem_reverse.mpr hp0)
    simp [hp0id] at this
  | some p =>
    have hpm : p ∈ S.ins2 := List.mem_reverse.mp (List.mem_of_find?_eq_some hfind)
    have hpid : p.1 = t0.objId := by simpa using List.find?_some hfind
    obtain ⟨u, hu, hfu⟩ := i1 p hpm
    refine ⟨u, hu, ?_⟩
    cases hg : get? u.objCid classes with
    | none => rw [hg] at hfu; cases hfu
    | some cls =>
      rw [hg] at hfu
      simp only at hfu
      cases hr : resolveInputs classes (S.t1.map (·.full)) u.full cls u.objNs with
      | error e => rw [hr] at hfu; simp [Except.map] at hfu
      | ok ins =>
        rw [hr] at hfu
        simp only [Except.map] at hfu
        cases hfu
        exact ⟨hpid, cls, rfl, hr⟩

/-- **C08, exactly the declared graph.**  In a chain whose tasks own their objects — no two names share one object and no
object comes from an earlier chain (decidable on the returned chain: distinct object ids, `objNs = ns`, `objCid = cid`) —
the second pass changes nothing: the returned tasks are the created tasks, so their edges are exactly the declared,
in-namespace resolutions of `chain_inputs_declared`, in dependency order. -/
theorem chain_own_objects_exact (S : Stages H pr fs classes main mainNs reg next fuel c)
    (hcls : ∀ cid cls, get? cid classes = some cls → cls.cid = cid)
    (hown : (c.tasks.map (·.objId)).Nodup ∧ ∀ t ∈ c.tasks, t.objNs = t.ns ∧ t.objCid = t.cid) :
    c.tasks = S.st.done ∧ DepOrdered c.tasks := by
  have hfields := final_fields S
  have hids : c.tasks.map (·.objId) = S.st.done.map (·.objId) := final_map S (·.objId) (fun _ _ => rfl)
  have hown' : ∀ t ∈ S.st.done, t.objNs = t.ns ∧ t.objCid = t.cid := by
    intro t ht
    have hm : (t.full, t.cid, t.slug, t.ns, t.cfgIx, t.params, t.key, t.objId, t.objNs, t.objCid) ∈
        c.tasks.map (fun t => (t.full, t.cid, t.slug, t.ns, t.cfgIx, t.params, t.key, t.objId, t.objNs, t.objCid)) := by
      rw [hfields]; exact List.mem_map.mpr ⟨t, ht, rfl⟩
    obtain ⟨t', ht', he⟩ := List.mem_map.mp hm
    obtain ⟨g1, g2⟩ := hown.2 t' ht'
    simp only [Prod.mk.injEq] at he
    obtain ⟨_, e2, _, e4, _, _, _, _, e9, e10⟩ := he
    exact ⟨by rw [← e9, ← e4]; exact g1, by rw [← e10, ← e2]; exact g2⟩
  have hnd : (S.st.done.map (·.objId)).Nodup := hids ▸ hown.1
  have heq : c.tasks = S.st.done := by
    rw [tasks_eq S]
    unfold finalize
    conv => rhs; rw [← List.map_id S.st.done]
    apply List.map_congr_left
    intro t0 ht0
    -- the second-pass inputs of `t0` are its first-pass inputs
    obtain ⟨t, ht, hte⟩ : ∃ t ∈ c.tasks, t = (match S.ins2.reverse.find? (fun p => p.1 == t0.objId) with
        | some p => { t0 with inputs := p.2 } | none => t0) := by
      refine ⟨_, ?_, rfl⟩
      rw [tasks_eq S]; exact List.mem_map.mpr ⟨t0, ht0, rfl⟩
    obtain ⟨u, hu, huid, cls, hg, hr⟩ := chain_final_inputs S t ht
    have htid : t.objId = t0.objId := by rw [hte]; split <;> rfl
    have hut : u = t0 := eq_of_nodup_map (·.objId) S.st.done hnd u hu t0 ht0 (by rw [huid, htid])
    subst hut
    obtain ⟨t1, ht1, hfull, hns, hcid, hres⟩ := chain_inputs_declared S u hu
    obtain ⟨a1, _⟩ := core S
    obtain ⟨cfg, cid, _, _, g3, _⟩ := a1 t1 ht1
    have hc1 : get? t1.cls.cid classes = some t1.cls := by rw [hcls cid t1.cls g3]; exact g3
    obtain ⟨o1, o2⟩ := hown' u hu
    rw [o2, ← hcid, hc1] at hg
    cases hg
    rw [o1, hres] at hr
    have hin : u.inputs = t.inputs := Except.ok.inj hr
    simp only [id]
    -- same inputs, all other fields untouched
    split
    · next p hp =>
      have : t.inputs = p.2 := by rw [hte, hp]
      rw [← this, ← hin]
    · rfl
  refine ⟨heq, ?_⟩
  rw [heq]
  exact (chain_dependency_order S).1

end

/-! ## the hypotheses are satisfiable, and cycles do fail -/

/-- a pipeline of two tasks mounted under a namespace builds (so `Stages` is inhabited for a non-trivial chain) … -/
example : ∃ c, build id (fun _ => true)
      [("p".toList, .single { data := [], tasks := ["K0".toList, "K1".toList], excluded := [], uses := [] }),
       ("c1".toList, .single { data := [], tasks := [], excluded := [], uses := ["p as a".toList] })]
      [] [("K0".toList, { cid := "K0".toList, slug := "p1".toList, params := [], inputs := [] }),
          ("K1".toList, { cid := "K1".toList, slug := "p2".toList, params := [], inputs := [{ ref := .byClass "K0".toList }] })]
      "c1".toList none none [] 0 8 = .ok c ∧ c.tasks.map (·.full) = ["a::p1".toList, "a::p2".toList] ∧
      (c.tasks.map (·.objId)).Nodup ∧ (∀ t ∈ c.tasks, t.objNs = t.ns ∧ t.objCid = t.cid) := by
  refine ⟨_, rfl, by decide, by decide, by decide⟩

/-- … and two tasks that need each other do not, however large the recursion limit given here -/
example : build id (fun _ => true)
      [("p".toList, .single { data := [], tasks := ["K0".toList, "K1".toList], excluded := [], uses := [] })]
      [] [("K0".toList, { cid := "K0".toList, slug := "p1".toList, params := [], inputs := [{ ref := .byClass "K1".toList }] }),
          ("K1".toList, { cid := "K1".toList, slug := "p2".toList, params := [], inputs := [{ ref := .byClass "K0".toList }] })]
      "p".toList none none [] 0 50 = .error .tooDeep := by
  rfl

/-! ## finding K8: a by-name input that starts with the declaring task's own namespace is taken as already qualified -/

def k8Classes : Classes :=
  [("K0".toList, { cid := "K0".toList, slug := "up".toList, params := [], inputs := [] }),
   ("K1".toList, { cid := "K1".toList, slug := "down".toList, params := [], inputs := [{ ref := .byName "raw::up".toList }] })]

/-- `p.json` uses `q.json as raw` and its task `down` takes `raw::up`; `main` mounts `p.json` under `outer` -/
def k8FS (outer : String) : FS :=
  [("q.json".toList, .single { data := [], tasks := ["K0".toList], excluded := [], uses := [] }),
   ("p.json".toList, .single { data := [], tasks := ["K1".toList], excluded := [], uses := ["q.json as raw".toList] }),
   ("main.json".toList, .single { data := [], tasks := [], excluded := [], uses := [("p.json as " ++ outer).toList] })]

/-- mounted under any other namespace the pipeline builds, and `down` takes the `up` inside its own namespace … -/
theorem k8_other_namespace_builds :
    (build id (fun _ => true) (k8FS "zz") [] k8Classes "main.json".toList none none [] 0 8).toOption.map
      (fun c => c.tasks.map (fun t => (t.full, t.inputs.map (·.1)))) =
    some [("zz::raw::up".toList, []), ("zz::down".toList, ["zz::raw::up".toList])] := by
  decide

/-- … mounted under a namespace with the NAME OF ITS INNER NAMESPACE the reference `raw::up`, declared inside `raw`, is read as already
qualified and looked up as `raw::up`, which does not exist: construction fails although `raw::raw::up` is there (finding K8) -/
theorem k8_same_namespace_fails :
    build id (fun _ => true) (k8FS "raw") [] k8Classes "main.json".toList none none [] 0 8 = .error .missingInput := by
  rfl

end TCV.C08
