import TCV.Lemmas.Key
/-!
# C02 — the storage location depends only on what goes into the computation

Invariance of the key text (hence of the key, for every hash `H`) under the computation-preserving
rewritings, for JSON-like / `ReprStr` values:

* any permutation of parameter declarations, of input tasks, of mapping items (at the level where
  it happens; congruence lemmas lift it to any depth);
* adding parameters excluded from persistence (ignored, or equal to their default when so declared);
* the values substituted for placeholders;
* the namespace under which the task is mounted (its own namespace is stripped from input names).

Object arguments (`AutoParameterObject`, `_taskchain_instantiate_repr`) are `obj r` with an opaque
text `r` in the model: their order-dependence is finding K2, replayed by the harness.
-/
namespace TCV.C02
open TCV TCV.PVal TCV.Key

/-- the order in which a task declares its parameters is irrelevant (names are unique) -/
theorem registryRepr_perm (pr : Char → Bool) (ps ps' : List Param) (hp : ps.Perm ps')
    (huniq : ∀ a b, a ∈ ps → b ∈ ps → a.name = b.name → a = b) :
    registryRepr pr ps = registryRepr pr ps' := by
  unfold registryRepr
  rw [isort_key_perm Param.name ps ps' hp huniq]

/-- the order of input tasks is irrelevant (full names are unique) -/
theorem inputsRepr_perm (ns : Option Str) (ins ins' : List (Str × Str)) (hp : ins.Perm ins')
    (huniq : ∀ a b, a ∈ ins → b ∈ ins → a.1 = b.1 → a = b) :
    inputsRepr ns ins = inputsRepr ns ins' := by
  unfold inputsRepr
  rw [isort_key_perm Prod.fst ins ins' hp huniq]

/-- hence the key itself, for every hash function -/
theorem keyOf_perm (H : Str → Str) (pr : Char → Bool) (ps ps' : List Param) (ns : Option Str)
    (ins ins' : List (Str × Str)) (hp : ps.Perm ps') (hi : ins.Perm ins')
    (hu : ∀ a b, a ∈ ps → b ∈ ps → a.name = b.name → a = b)
    (hiu : ∀ a b, a ∈ ins → b ∈ ins → a.1 = b.1 → a = b) :
    keyOf H pr ps ns ins = keyOf H pr ps' ns ins' := by
  unfold keyOf keyText
  rw [registryRepr_perm pr ps ps' hp hu, inputsRepr_perm ns ins ins' hi hiu]

/-- the order of the items of a mapping is irrelevant (keys are unique) -/
theorem reprInst_dict_perm (pr : Char → Bool) (kvs kvs' : List (Str × PVal)) (hp : kvs.Perm kvs')
    (huniq : ∀ a b, a ∈ kvs → b ∈ kvs → a.1 = b.1 → a = b) :
    reprInst pr (.dict kvs) = reprInst pr (.dict kvs') := by
  unfold reprInst
  simp only [canon, canonD_eq_map, sortItems]
  have hp' : (kvs.map (fun kv => (kv.1, canon kv.2))).Perm (kvs'.map (fun kv => (kv.1, canon kv.2))) := hp.map _
  rw [isort_key_perm Prod.fst _ _ hp']
  intro a b ha hb hab
  simp only [List.mem_map] at ha hb
  obtain ⟨a', ha', rfl⟩ := ha
  obtain ⟨b', hb', rfl⟩ := hb
  have := huniq a' b' ha' hb' hab
  rw [this]

/-- congruence: lists whose elements have equal representations have equal representations
(lifts the previous theorem to mappings nested at any depth inside lists) -/
theorem reprInst_list_congr (pr : Char → Bool) (xs ys : List PVal)
    (h : xs.map canon = ys.map canon) : reprInst pr (.list xs) = reprInst pr (.list ys) := by
  unfold reprInst
  simp only [canon, canonL_eq_map, h]

/-- congruence for mapping values (same keys in the same order, values equal up to item order) -/
theorem reprInst_dict_congr (pr : Char → Bool) (kvs kvs' : List (Str × PVal))
    (h : kvs.map (fun kv => (kv.1, canon kv.2)) = kvs'.map (fun kv => (kv.1, canon kv.2))) :
    reprInst pr (.dict kvs) = reprInst pr (.dict kvs') := by
  unfold reprInst
  simp only [canon, canonD_eq_map, h]

/-- an ignored parameter takes no part -/
theorem paramRepr_ignored (pr : Char → Bool) (p : Param) (h : p.ignore = true) : paramRepr pr p = none := by
  simp [paramRepr, h]

/-- a parameter equal to its default, declared `dont_persist_default_value`, takes no part -/
theorem paramRepr_default (pr : Char → Bool) (p : Param) (d : PVal) (hd : p.default = some d) (hp : p.isPath = false)
    (hdpd : p.dpd = true) (heq : pyEq p.value d = true) : paramRepr pr p = none := by
  unfold paramRepr
  split
  · rfl
  · simp [hdpd, isDefaultVal, hd, heq, hp]

/-- the same for a `Path`-typed parameter whose default is a `Path` object: the string that spells the default out, in the
config or in a context, takes no part either (`Path(value) == default`) — while it would against a `str` default -/
theorem paramRepr_default_path (pr : Char → Bool) (p : Param) (s : Str) (hp : p.isPath = true)
    (hv : p.value = .str s) (hd : p.default = some (.obj (pathRepr pr s))) (hdpd : p.dpd = true) : paramRepr pr p = none := by
  unfold paramRepr
  split
  · rfl
  · simp [hdpd, isDefaultVal, hd, hp, hv]

theorem paramRepr_str_default_of_path_persisted (pr : Char → Bool) (p : Param) (s d : Str) (hp : p.isPath = true)
    (hv : p.value = .str s) (hd : p.default = some (.str d)) (hi : p.ignore = false) : (paramRepr pr p).isSome = true := by
  simp [paramRepr, isDefaultVal, hd, hp, hv, hi]

/-- adding a parameter that takes no part leaves the registry text unchanged, wherever it is declared -/
theorem registryRepr_add_unpersisted (pr : Char → Bool) (p : Param) (ps : List Param)
    (h : paramRepr pr p = none) : registryRepr pr (p :: ps) = registryRepr pr ps := by
  unfold registryRepr
  simp only [isort]
  rw [filterMap_insertBy_none _ _ p h]

/-- the value substituted for a placeholder does not enter the representation -/
theorem rstr_repr_ignores_subst (pr : Char → Bool) (v v' o : Str) :
    reprInst pr (.rstr v o) = reprInst pr (.rstr v' o) := by
  simp [reprInst, canon, reprRaw]

/-- an absent optional input contributes nothing: the inputs text is built from present inputs only
(definitional in the model: `ins` lists the input *tasks*) -/
theorem absent_optional_input (ns : Option Str) (ins : List (Str × Str)) :
    inputsRepr ns (ins ++ []) = inputsRepr ns ins := by simp

/-! ### mounting: the task's own namespace is stripped from the names of its inputs -/

theorem strLe_prefix (p : Str) : ∀ a b : Str, strLe (p ++ a) (p ++ b) = strLe a b := by
  induction p with
  | nil => intro a b; rfl
  | cons c p ih =>
    intro a b
    simp only [List.cons_append, strLe, Nat.lt_irrefl, if_false]
    exact ih a b

theorem insertBy_map {α β} (f : α → β) (le : β → β → Bool) (x : α) :
    ∀ l : List α, (insertBy (fun a b => le (f a) (f b)) x l).map f = insertBy le (f x) (l.map f)
  | [] => rfl
  | y :: ys => by
    simp only [insertBy, List.map_cons]
    split
    · rfl
    · simp [insertBy_map f le x ys]

theorem isort_map {α β} (f : α → β) (le : β → β → Bool) :
    ∀ l : List α, (isort (fun a b => le (f a) (f b)) l).map f = isort le (l.map f)
  | [] => rfl
  | x :: xs => by
    simp only [isort, List.map_cons]
    rw [insertBy_map, isort_map f le xs]

/-- mounting a pipeline under a non-empty namespace `n` (all input names get the prefix `n::`, the
task's namespace is `n`) leaves the inputs text unchanged -/
theorem inputsRepr_mount (n : Str) (hn : n ≠ []) (ins : List (Str × Str)) :
    inputsRepr (some n) (ins.map (fun nk => (n ++ ':' :: ':' :: nk.1, nk.2))) = inputsRepr none ins := by
  unfold inputsRepr
  have hle : (fun a b : Str × Str => strLe a.1 b.1) =
      (fun a b : Str × Str => (fun x y : Str × Str => strLe x.1 y.1) (a) (b)) := rfl
  -- sort commutes with the order-preserving renaming
  have hcomm : isort (fun a b : Str × Str => strLe a.1 b.1) (ins.map (fun nk => (n ++ ':' :: ':' :: nk.1, nk.2)))
      = (isort (fun a b : Str × Str => strLe a.1 b.1) ins).map (fun nk => (n ++ ':' :: ':' :: nk.1, nk.2)) := by
    have h := isort_map (fun nk : Str × Str => (n ++ ':' :: ':' :: nk.1, nk.2)) (fun a b : Str × Str => strLe a.1 b.1) ins
    rw [← h]
    congr 1
    have : (fun a b : Str × Str => strLe (n ++ ':' :: ':' :: a.1) (n ++ ':' :: ':' :: b.1)) = (fun a b : Str × Str => strLe a.1 b.1) := by
      funext a b
      have := strLe_prefix (n ++ [':', ':']) a.1 b.1
      simpa using this
    simp only [this]
  rw [hcomm]
  simp only [List.map_map]
  congr 1
  apply List.map_congr_left
  intro nk _
  have hne : n.isEmpty = false := by cases n <;> simp_all
  obtain ⟨a, k⟩ := nk
  simp [stripNs, hne, List.drop_append]

/-- so the key of a task whose parameters are equal and whose inputs have equal keys is the same
under every namespace -/
theorem keyOf_mount_invariant (H : Str → Str) (pr : Char → Bool) (ps : List Param) (n : Str) (hn : n ≠ [])
    (ins : List (Str × Str)) :
    keyOf H pr ps (some n) (ins.map (fun nk => (n ++ ':' :: ':' :: nk.1, nk.2))) = keyOf H pr ps none ins := by
  unfold keyOf keyText
  rw [inputsRepr_mount n hn ins]

/-! ### non-vacuity -/
example : registryRepr (fun _ => true)
    [{ name := "b".toList, value := .atom "1".toList, default := none, ignore := false, dpd := false },
     { name := "a".toList, value := .str "x".toList, default := none, ignore := false, dpd := false }]
    = "a='x'###b=1".toList := by decide

example : inputsRepr (some "n".toList) [("n::g:up".toList, "k1".toList), ("n::a".toList, "k2".toList)]
    = "a=k2###g:up=k1".toList := by decide

end TCV.C02
