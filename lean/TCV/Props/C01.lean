import TCV.Lemmas.StoreSound
/-!
# C01 — a chain never returns a stale or foreign result (machine level)

For every universe of task objects `U` (all objects of all chains, configs, namespaces and
processes that ever work on one data directory), every task semantics `f`, every choice of failing
runs and every history of operations (value requests in any order, task- and chain-level forcing
with all flags, inspections), of any length:

if equal storage location implies equal computation (`LocDeterminesComp`; this is what C03 /
the key scheme provides, modulo findings K1/K3) and the store initially holds only correct results
(e.g. is empty), then **every value ever returned equals the semantic value of the requested task's
computation**, and the store/memory invariant survives — whether the value was just computed, was
in memory or was loaded from storage written by any earlier object.

The builder-level half (the computation descriptor of every task of a built chain is the reference
one) is carried by C08/C09 and the key-level half by C02/C03.
-/
namespace TCV.C01
open TCV.Store

variable {V : Type}

/-- `sem` is the semantic value: each task's function applied to the semantic values of the inputs it uses -/
def IsSem (U : Universe) (f : Nat → List V → V) (sem : Nat → V) : Prop :=
  ∀ i, sem i = f i ((obj U i).used.map sem)

/-- equal location ⇒ equal computation (hence equal semantic value) -/
def LocDeterminesComp (U : Universe) (sem : Nat → V) : Prop :=
  ∀ i j, (obj U i).loc = (obj U j).loc → (obj U i).persist = true → (obj U j).persist = true → sem i = sem j

/-- one request: sound result and invariant preserved, from any good state, with any failing runs -/
theorem value_sound (U : Universe) (f : Nat → List V → V) (sem : Nat → V) (fails : Nat → Bool)
    (hsem : IsSem U f sem) (hloc : LocDeterminesComp U sem)
    (fuel : Nat) (s : St V) (i : Nat) (s' : St V) (r : Option V)
    (hg : Good U sem s) (h : value U f fails fuel s i = (s', r)) :
    Good U sem s' ∧ ∀ v, r = some v → v = sem i :=
  sound_all U f sem fails hsem hloc fuel s i s' r hg h

/-- outputs of a history are correct: every returned value is the semantic value of the task asked for -/
def OutOK (sem : Nat → V) : Op → Out V → Prop
  | .value i _, .val r => ∀ v, r = some v → v = sem i
  | .chainForce _ _ _ _ order, .vals _ rs => ∀ (k : Nat) t v, order[k]? = some t → rs[k]? = some (some v) → v = sem t
  | .chainForceF _ _ _ order _, .vals _ rs => ∀ (k : Nat) t v, order[k]? = some t → rs[k]? = some (some v) → v = sem t
  | _, _ => True

def AllOK (sem : Nat → V) : List Op → List (Out V) → Prop
  | [], [] => True
  | op :: ops, o :: os => OutOK sem op o ∧ AllOK sem ops os
  | _, _ => False

theorem valueAll_sound (U : Universe) (f : Nat → List V → V) (sem : Nat → V) (fails : Nat → Bool)
    (hsem : IsSem U f sem) (hloc : LocDeterminesComp U sem) (fuel : Nat) :
    ∀ (ts : List Nat) (s s' : St V) (rs : List (Option V)), Good U sem s → valueAll U f fails fuel s ts = (s', rs) →
      Good U sem s' ∧ ∀ (k : Nat) t v, ts[k]? = some t → rs[k]? = some (some v) → v = sem t := by
  intro ts
  induction ts with
  | nil =>
    intro s s' rs hg h
    simp [valueAll] at h
    obtain ⟨rfl, rfl⟩ := h
    exact ⟨hg, fun k t v ht => by simp at ht⟩
  | cons t ts ih =>
    intro s s' rs hg h
    simp only [valueAll] at h
    cases hv : value U f fails fuel s t with
    | mk s1 r =>
      cases hva : valueAll U f fails fuel s1 ts with
      | mk s2 rs' =>
        simp only [hv, hva] at h
        cases h
        obtain ⟨hg1, hr⟩ := value_sound U f sem fails hsem hloc fuel s t s1 r hg hv
        obtain ⟨hg2, hrs⟩ := ih s1 _ _ hg1 hva
        refine ⟨hg2, ?_⟩
        intro k t' v ht hrk
        cases k with
        | zero => simp at ht hrk; subst ht; exact hr v hrk
        | succ k => simp at ht hrk; exact hrs k t' v ht hrk

theorem valueAllStop_sound (U : Universe) (f : Nat → List V → V) (sem : Nat → V) (fails : Nat → Bool)
    (hsem : IsSem U f sem) (hloc : LocDeterminesComp U sem) (fuel : Nat) :
    ∀ (ts : List Nat) (s s' : St V) (rs : List (Option V)), Good U sem s → valueAllStop U f fails fuel s ts = (s', rs) →
      Good U sem s' ∧ ∀ (k : Nat) t v, ts[k]? = some t → rs[k]? = some (some v) → v = sem t := by
  intro ts
  induction ts with
  | nil =>
    intro s s' rs hg h
    simp [valueAllStop] at h
    obtain ⟨rfl, rfl⟩ := h
    exact ⟨hg, fun k t v ht => by simp at ht⟩
  | cons t ts ih =>
    intro s s' rs hg h
    simp only [valueAllStop] at h
    cases hv : value U f fails fuel s t with
    | mk s1 r =>
      obtain ⟨hg1, hr⟩ := value_sound U f sem fails hsem hloc fuel s t s1 r hg hv
      cases r with
      | none =>
        simp only [hv] at h
        cases h
        refine ⟨hg1, ?_⟩
        intro k t' v ht hrk
        cases k with
        | zero => simp at hrk
        | succ k => simp at hrk
      | some w =>
        cases hva : valueAllStop U f fails fuel s1 ts with
        | mk s2 rs' =>
          simp only [hv, hva] at h
          cases h
          obtain ⟨hg2, hrs⟩ := ih s1 _ _ hg1 hva
          refine ⟨hg2, ?_⟩
          intro k t' v ht hrk
          cases k with
          | zero => simp at ht hrk; subst ht; exact hr v (by rw [hrk])
          | succ k => simp at ht hrk; exact hrs k t' v ht hrk

/-- **C01, machine level**: over any history, from any good store (e.g. the empty one), every
returned value is the semantic value and the invariant is preserved -/
theorem history_sound (U : Universe) (f : Nat → List V → V) (sem : Nat → V)
    (hsem : IsSem U f sem) (hloc : LocDeterminesComp U sem) (fuel : Nat) :
    ∀ (ops : List Op) (s s' : St V) (outs : List (Out V)), Good U sem s → runOps U f fuel s ops = (s', outs) →
      Good U sem s' ∧ AllOK sem ops outs := by
  intro ops
  induction ops with
  | nil =>
    intro s s' outs hg h
    simp [runOps] at h
    obtain ⟨rfl, rfl⟩ := h
    exact ⟨hg, trivial⟩
  | cons op ops ih =>
    intro s s' outs hg h
    simp only [runOps] at h
    cases hst : step U f fuel s op with
    | mk s1 o =>
      cases hro : runOps U f fuel s1 ops with
      | mk s2 os =>
        simp only [hst, hro] at h
        cases h
        have hstep : Good U sem s1 ∧ OutOK sem op o := by
          cases op with
          | value i failing =>
            simp only [step] at hst
            cases hv : value U f (fun j => failing.contains j) fuel s i with
            | mk sv r =>
              simp only [hv] at hst
              cases hst
              exact value_sound U f sem _ hsem hloc fuel s i s1 r hg hv
          | force i del =>
            simp only [step] at hst
            cases hst
            exact ⟨good_forceTask U sem s i del hg, by simp [OutOK]⟩
          | chainForce nodes S del recompute order =>
            simp only [step] at hst
            have hgF := good_forceAll U sem del (descendants U S nodes []) s hg
            split at hst
            · cases hva : valueAll U f (fun _ => false) fuel (forceAll U del s (descendants U S nodes [])) order with
              | mk sv rs =>
                simp only [hva] at hst
                cases hst
                exact valueAll_sound U f sem _ hsem hloc fuel order _ _ rs hgF hva
            · cases hst
              exact ⟨hgF, by simp [OutOK]⟩
          | chainForceF nodes S del order failing =>
            simp only [step] at hst
            have hgF := good_forceAll U sem del (descendants U S nodes []) s hg
            cases hva : valueAllStop U f (fun j => failing.contains j) fuel (forceAll U del s (descendants U S nodes [])) order with
            | mk sv rs =>
              simp only [hva] at hst
              cases hst
              exact valueAllStop_sound U f sem _ hsem hloc fuel order _ _ rs hgF hva
          | inspect i =>
            simp only [step] at hst
            cases hst
            exact ⟨hg, by simp [OutOK]⟩
          | reset i =>
            simp only [step] at hst
            cases hst
            exact ⟨good_reset U sem s i hg, by simp [OutOK]⟩
        obtain ⟨hg2, hall⟩ := ih s1 _ _ hstep.1 hro
        exact ⟨hg2, hstep.2, hall⟩

/-- corollary for the usual start: an empty data directory -/
theorem history_sound_from_empty (U : Universe) (f : Nat → List V → V) (sem : Nat → V)
    (hsem : IsSem U f sem) (hloc : LocDeterminesComp U sem) (fuel : Nat) (ops : List Op) :
    AllOK sem ops (runOps U f fuel (St.init : St V) ops).2 :=
  (history_sound U f sem hsem hloc fuel ops St.init _ _ (good_init U sem) rfl).2

/-! ### the hypothesis `LocDeterminesComp` is what makes it true: a foreign result is served without it -/

/-- two objects share a location but compute different things (what K1/K3 produce): the second
request returns the first one's value -/
theorem foreign_result_without_hypothesis :
    ∃ (U : Universe) (f : Nat → List Nat → Nat) (ops : List Op),
      (runOps U f 5 (St.init : St Nat) ops).2 = [.val (some 10), .val (some 10)] ∧ f 1 [] = 11 := by
  refine ⟨[{ loc := 7, persist := true, args := [], pulls := [], deps := [] },
           { loc := 7, persist := true, args := [], pulls := [], deps := [] }],
          fun i _ => 10 + i, [.value 0 [], .value 1 []], ?_, rfl⟩
  rfl

/-! ### non-vacuity: a concrete diamond DAG with shared locations meets the hypotheses -/
def exU : Universe :=
  [{ loc := 1, persist := true, args := [], pulls := [], deps := [] },
   { loc := 2, persist := true, args := [0], pulls := [], deps := [0] },
   { loc := 3, persist := false, args := [], pulls := [0], deps := [0] },
   { loc := 4, persist := true, args := [1], pulls := [2], deps := [1, 2] },
   -- a second chain's objects for the same computations as 0 and 1 (same locations)
   { loc := 1, persist := true, args := [], pulls := [], deps := [] },
   { loc := 2, persist := true, args := [4], pulls := [], deps := [4] }]
def exF : Nat → List Nat → Nat := fun i xs =>
  if i < 6 then (if i = 4 then 0 else if i = 5 then 1 else i) * 100 + xs.foldl (· + ·) 0 else 0
def exSem : Nat → Nat
  | 0 => 0 | 1 => 100 | 2 => 200 | 3 => 600 | 4 => 0 | 5 => 100 | _ => 0

theorem ex_obj_default (i : Nat) (h : 6 ≤ i) : obj exU i = { loc := 0, persist := false, args := [], pulls := [], deps := [] } := by
  unfold obj exU
  rw [List.getD_eq_getElem?_getD, List.getElem?_eq_none (by simpa using h)]
  rfl

example : IsSem exU exF exSem := by
  intro i
  match i with
  | 0 => rfl | 1 => rfl | 2 => rfl | 3 => rfl | 4 => rfl | 5 => rfl
  | n + 6 =>
    rw [ex_obj_default (n + 6) (by omega)]
    simp [exSem, exF, Obj.used]

example : LocDeterminesComp exU exSem := by
  intro i j hl hpi hpj
  have hi : i < 6 := by
    apply Classical.byContradiction; intro h
    rw [ex_obj_default i (by omega)] at hpi; cases hpi
  have hj : j < 6 := by
    apply Classical.byContradiction; intro h
    rw [ex_obj_default j (by omega)] at hpj; cases hpj
  have key : ∀ a b : Fin 6, (obj exU a.1).loc = (obj exU b.1).loc → (obj exU a.1).persist = true →
      (obj exU b.1).persist = true → exSem a.1 = exSem b.1 := by decide
  exact key ⟨i, hi⟩ ⟨j, hj⟩ hl hpi hpj

/-- and on it the machine returns the semantic values, also for the second chain's objects that are
served from the first chain's stored results -/
example : (runOps exU exF 10 (St.init : St Nat) [.value 3 [], .value 5 [], .inspect 4]).2 =
    [.val (some 600), .val (some 100), .hasData true] := by rfl

end TCV.C01
