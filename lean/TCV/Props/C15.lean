import TCV.Lemmas.Conc
/-!
# C15 — file caches stay consistent under concurrent use

Model: `TCV.Conc` — `FileCache.get` / `get_or_compute` on one key as an interleaving semantics.
Quantifiers of every theorem below: **any number of callers** (`Nat`-indexed, each a `get`, a
`get_or_compute` or a forced `get_or_compute`, with a computer that returns or raises), **every
interleaving of any length** (`Reach`, induction over the step relation), from every initial state
`Init` (file absent or a complete earlier entry; any stale temp file).  Nothing is bounded.

Assumed (parameters of the model, see the module doc of `TCV.Conc`): the lock is a mutex,
`replace` is atomic, a reader that has opened the file reads the content it had at that moment.

The last section proves that the protocol *before* repair F8 (write in place) does **not** have
these properties, on the concrete witness schedules found at design time.
-/
namespace TCV.C15
open TCV.Conc

/-- **mutual exclusion**: whoever is inside a `with lock:` block is the lock's owner, so two callers
are never inside critical sections at once -/
theorem lock_mutex {s0 s : St} (h0 : Init s0) (hr : Reach .atomic s0 s) (t u : Nat)
    (ht : holds (s.th t).pc = true) (hu : holds (s.th u).pc = true) : t = u ∧ s.lock = some t := by
  have hI := (inv12_reach h0 hr).1
  have a := hI.lockOwner t ht
  have b := hI.lockOwner u hu
  rw [a] at b
  exact ⟨by cases b; rfl, a⟩

/-- **the cache file is always absent or a complete entry** whose value was produced by a computation
that has finished (never empty, never partial) — in every reachable state, hence also at quiescence -/
theorem file_complete {s0 s : St} (h0 : Init s0) (hr : Reach .atomic s0 s) :
    s.file = .absent ∨ ∃ v, s.file = .entry v ∧ v < s.fresh := by
  have hI := (inv12_reach h0 hr).1
  cases hf : s.file with
  | absent => exact Or.inl rfl
  | torn => exact absurd hf hI.noTorn
  | entry v => exact Or.inr ⟨v, rfl, hI.fileComplete v hf⟩

/-- **every returned value was produced by a complete computation**; `NO_VALUE` comes only from a
`get` whose own existence check found no file -/
theorem returns_complete {s0 s : St} (h0 : Init s0) (hr : Reach .atomic s0 s) (t : Nat) (r : Res)
    (hd : (s.th t).pc = .done r) :
    match r with
    | .val v => v < s.fresh
    | .miss => (s.th t).kind = .get ∧ (s.th t).saw = false
    | .raised => raises (s.th t).kind = true := by
  have ⟨hI, hJ⟩ := inv12_reach h0 hr
  cases r with
  | val v => exact hI.pending t v (Or.inr (Or.inr (Or.inr (Or.inr hd))))
  | miss => exact hJ.missAbsent t hd
  | raised => exact hJ.raisedOwn t (Or.inr hd)

/-- **no caller fails because of another's write**: no load that was attempted because the file
existed ever fails, and the only exception a call can end with is its own computer's -/
theorem no_failure_from_writer {s0 s : St} (h0 : Init s0) (hr : Reach .atomic s0 s) (t : Nat) :
    (s.th t).failed = false ∧ ((s.th t).pc = .done .raised → raises (s.th t).kind = true) := by
  have ⟨hI, hJ⟩ := inv12_reach h0 hr
  exact ⟨hI.notFailed t, fun h => hJ.raisedOwn t (Or.inr h)⟩

/-- a caller about to load (it saw the file under the lock) will find a complete entry, whatever the
other callers do in between -/
theorem load_succeeds {s0 s : St} (h0 : Init s0) (hr : Reach .atomic s0 s) (t : Nat)
    (hl : (s.th t).pc = .loading) : ∃ v, s.file = .entry v ∧ v < s.fresh := by
  have hI := (inv12_reach h0 hr).1
  have hp := hI.sawPresent t (Or.inr hl)
  rcases file_complete h0 hr with hf | hf
  · simp [hf, FileSt.present] at hp
  · exact hf

/-- **once present, always present** (and complete, by `file_complete`) -/
theorem monotone_presence {s0 s s' : St} (h0 : Init s0) (hr : Reach .atomic s0 s)
    (hr' : Reach .atomic s s') (hp : s.file.present = true) : s'.file.present = true :=
  (present_reach (inv12_reach h0 hr).1 hr' hp).1

/-- as soon as some call has returned a value the entry is stored -/
theorem stored_after_return {s0 s : St} (h0 : Init s0) (hr : Reach .atomic s0 s)
    (hret : s.returned = true) : ∃ v, s.file = .entry v ∧ v < s.fresh := by
  have hp := (inv12_reach h0 hr).1.retPresent hret
  rcases file_complete h0 hr with hf | hf
  · simp [hf, FileSt.present] at hp
  · exact hf

/-- **a call that starts after another call has returned a value does not recompute unless forced**:
such a caller (`late`: its first step came after a return) never enters the compute-and-store path
and never invokes its computer -/
theorem no_recompute_after_return {s0 s : St} (h0 : Init s0) (hr : Reach .atomic s0 s) (t : Nat)
    (r : Bool) (hl : (s.th t).late = true) (hk : (s.th t).kind = .goc false r) :
    (s.th t).ncomp = 0 ∧ onWritePath (s.th t).pc = false :=
  let h := (inv12_reach h0 hr).1.lateNoCompute t r hl hk
  ⟨h.2, h.1⟩

/-- a `get` that has not started while the entry is stored returns a value, never `NO_VALUE`
(the second symptom repaired by F8) -/
theorem get_after_store_hits {s0 s s' : St} (h0 : Init s0) (hr : Reach .atomic s0 s)
    (hr' : Reach .atomic s s') (t : Nat) (hp : s.file.present = true) (hs : (s.th t).pc = .start) :
    (s'.th t).pc ≠ .done .miss :=
  (noMiss_reach (inv12_reach h0 hr).1 ⟨hp, by simp [hs], by simp [hs]⟩ hr').1.notMiss

/-- nobody calls its computer twice (in particular `get` never computes: it is never on the write path) -/
theorem computes_at_most_once {s0 s : St} (h0 : Init s0) (hr : Reach .atomic s0 s) (t : Nat) :
    (s.th t).ncomp ≤ 1 ∧ ((s.th t).kind = .get → (s.th t).ncomp = 0) := by
  have ⟨hI, hJ⟩ := inv12_reach h0 hr
  exact ⟨hI.ncompLe t, hJ.getNoComp t⟩

/-- the statements above speak about `Reach`; a scheduler-driven run of the executable model (what the
driver replays against the real code) is such an execution, and every execution is such a run -/
theorem run_is_reach (m : Mode) (s0 s : St) : (∃ sched, run m s0 sched = some s) ↔ Reach m s0 s :=
  ⟨fun ⟨sched, h⟩ => run_reach sched h, reach_run⟩

/-! ### non-vacuity -/

/-- the harness' initial states satisfy `Init` -/
theorem init_ok (kinds : Nat → Kind) (pre : Bool) : Init (init kinds pre) := by
  cases pre <;> refine ⟨?_, ?_, ?_, ?_, ?_⟩ <;> simp [init, FileSt.present]

/-- three callers (two `get_or_compute`, one late `get`), both writers past the existence check before
either computes: a genuine execution in which two computations happen and everybody ends with a
complete value -/
example : (run .atomic (init (fun t => if t = 2 then .get else .goc false false) false)
    [0, 0, 0, 1, 1, 1, 0, 0, 0, 0, 0, 0, 2, 2, 2, 1, 1, 1, 2, 1, 1, 1]).any
    (fun s => s.fresh == 2 && s.file == .entry 1 && (s.th 0).pc == .done (.val 0) &&
      (s.th 1).pc == .done (.val 1) && ((s.th 2).pc == .done (.val 0) || (s.th 2).pc == .done (.val 1))
      && (s.th 2).late) = true := by decide

/-- the hypotheses of `no_recompute_after_return` are met in a genuine execution: caller 0 computes and
returns, then caller 1 (an unforced `get_or_compute`) starts — it is `late`, loads, and never computes -/
example : (run .atomic (init (fun _ => .goc false false) false)
    [0, 0, 0, 0, 0, 0, 0, 0, 0, 1, 1, 1, 1]).any
    (fun s => (s.th 1).late && decide ((s.th 1).kind = .goc false false) && decide ((s.th 1).ncomp = 0) &&
      decide ((s.th 1).pc = .done (.val 0)) && s.returned) = true := by decide

/-! ### what repair F8 bought: the in-place protocol violates the property -/

/-- the full statement for a protocol `m` (true for `atomic` by the theorems above) -/
def C15_full (m : Mode) : Prop :=
  ∀ (kinds : Nat → Kind) (pre : Bool) (s : St), Reach m (init kinds pre) s → ∀ t,
    (s.th t).failed = false ∧
    (∀ r, (s.th t).late = true → (s.th t).kind = .goc false r → (s.th t).ncomp = 0) ∧
    ((s.th t).pc = .done .miss → (s.th t).saw = false)

theorem C15_full_atomic : C15_full .atomic := by
  intro kinds pre s hr t
  have h0 := init_ok kinds pre
  refine ⟨(no_failure_from_writer h0 hr t).1, fun r hl hk => (no_recompute_after_return h0 hr t r hl hk).1, ?_⟩
  intro hd
  exact (returns_complete h0 hr t .miss hd).2

theorem reach_of_check {m : Mode} {s0 : St} (sched : List Nat) (P : St → Bool)
    (h : (run m s0 sched).any P = true) : ∃ s, Reach m s0 s ∧ P s = true := by
  cases hr : run m s0 sched with
  | none => simp [hr] at h
  | some s => exact ⟨s, run_reach sched hr, by simpa [hr] using h⟩

/-- witness 1 (three unforced `get_or_compute`): A and B both see "absent"; A computes, stores and
returns; C starts afterwards and sees the file; B (a late double computer) truncates it; C's load
fails and C **recomputes although it started after A had returned** -/
theorem inplace_recomputes_after_return :
    ∃ s, Reach .inplace (init (fun _ => .goc false false) false) s ∧
      (s.th 2).late = true ∧ (s.th 2).kind = .goc false false ∧ (s.th 2).ncomp = 1 ∧ (s.th 2).failed = true := by
  obtain ⟨s, hr, hp⟩ := reach_of_check (m := .inplace) (s0 := init (fun _ => .goc false false) false)
    [0, 0, 0, 1, 1, 1, 0, 0, 0, 0, 0, 2, 2, 2, 1, 1, 1, 2, 1, 1, 2, 2]
    (fun s => (s.th 2).late && decide ((s.th 2).kind = .goc false false) && decide ((s.th 2).ncomp = 1) && (s.th 2).failed)
    (by decide)
  simp only [Bool.and_eq_true, decide_eq_true_eq] at hp
  exact ⟨s, hr, hp.1.1.1, hp.1.1.2, hp.1.2, hp.2⟩

/-- witness 2: an entry is stored; a `get` sees it; a forced writer truncates it; the `get` returns
`NO_VALUE` **for a stored key** -/
theorem inplace_get_misses_stored :
    ∃ s, Reach .inplace (init (fun t => if t = 0 then .get else .goc true false) true) s ∧
      (s.th 0).pc = .done .miss ∧ (s.th 0).saw = true := by
  obtain ⟨s, hr, hp⟩ := reach_of_check (m := .inplace)
    (s0 := init (fun t => if t = 0 then .get else .goc true false) true)
    [0, 0, 0, 1, 1, 1, 1, 1, 1, 0]
    (fun s => decide ((s.th 0).pc = .done .miss) && (s.th 0).saw) (by decide)
  simp only [Bool.and_eq_true, decide_eq_true_eq] at hp
  exact ⟨s, hr, hp.1, hp.2⟩

theorem C15_full_inplace_false : ¬ C15_full .inplace := by
  intro h
  obtain ⟨s, hr, hl, hk, hn, _⟩ := inplace_recomputes_after_return
  have := (h _ _ s hr 2).2.1 false hl hk
  omega

end TCV.C15
