import TCV.Model.Subst
import TCV.Props.C02
/-!
# C02 and parameter objects: finding K2 in the model

Objects defined in config data (`{"class": …, "args": …, "kwargs": …}`) are represented for persistence by the text
`find_and_instantiate_clazz` records (`_taskchain_instantiate_repr`, model: `Subst.instRepr`): the class string, the positional
arguments and the keyword arguments **in the order in which they are written**.  So the full C02 statement — the location does
not depend on the order of mapping keys — is false for keyword arguments of such objects (finding K2); it holds for everything
*inside* an argument (JSON-like values are canonicalised by `reprInst`).
-/
namespace TCV.C02
open TCV TCV.PVal TCV.Subst

/-- the full statement for object definitions -/
def C02_objects_full (pr : Char → Bool) : Prop :=
  ∀ kvs kvs' : List (Str × PVal), kvs.Perm kvs' → instRepr pr [("class".toList, .str "m.C".toList), ("kwargs".toList, .dict kvs)]
    = instRepr pr [("class".toList, .str "m.C".toList), ("kwargs".toList, .dict kvs')]

/-- K2 witness: `C(a=1, b=2)` written with the keyword arguments in the other order gets another text, hence another key -/
theorem k2_kwargs_order_changes_repr (pr : Char → Bool) :
    instRepr pr [("class".toList, .str "m.C".toList), ("kwargs".toList, .dict [("a".toList, .atom "1".toList), ("b".toList, .atom "2".toList)])]
      ≠ instRepr pr [("class".toList, .str "m.C".toList), ("kwargs".toList, .dict [("b".toList, .atom "2".toList), ("a".toList, .atom "1".toList)])] := by
  simp [instRepr, lookup, textOf, elemsOf, itemsOf, joinComma, reprInst, canon, reprRaw]

theorem C02_objects_full_false (pr : Char → Bool) : ¬ C02_objects_full pr := by
  intro h
  exact k2_kwargs_order_changes_repr pr (h _ _ (List.Perm.swap _ _ []))

/-- partial: mapping order *inside* an argument value never matters (arguments are canonicalised by `reprInst`) -/
theorem objects_inner_order_irrelevant (pr : Char → Bool) (cls k : Str) (kvs kvs' : List (Str × PVal)) (hp : kvs.Perm kvs')
    (huniq : ∀ a b, a ∈ kvs → b ∈ kvs → a.1 = b.1 → a = b) :
    instRepr pr [("class".toList, .str cls), ("kwargs".toList, .dict [(k, .dict kvs)])]
      = instRepr pr [("class".toList, .str cls), ("kwargs".toList, .dict [(k, .dict kvs')])] := by
  simp only [instRepr, lookup, itemsOf, elemsOf, List.map_cons, List.map_nil]
  have h := reprInst_dict_perm pr kvs kvs' hp huniq
  simp [h]

end TCV.C02
