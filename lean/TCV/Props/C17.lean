import TCV.Lemmas.ParMap
/-!
# C17 — `parallel_map` equals `map`, whatever the scheduling

Quantifiers: every function, every input list, every chunk size `c > 0`, every thread count and
every family of per-chunk completion orders (`ValidOrders`: each is a permutation of the chunk's
indices).  No bound on lengths.
-/
namespace TCV.C17
open TCV.ParMap

/-- chunk `k` completes in the order `orders k`, which is a permutation of its indices -/
def ValidOrders {α} (chunks : List (List α)) (orders : Nat → List Nat) (k0 : Nat := 0) : Prop :=
  ∀ j (h : j < chunks.length), (orders (k0 + j)).Perm (List.range chunks[j].length)

/-- `chunked` loses, duplicates and reorders nothing (any chunk size) -/
theorem chunked_concat {α} (xs : List α) (c : Nat) : (chunked xs c).flatten = xs := by
  simpa [chunked] using chunkedAux_flatten c xs [] 0 rfl

/-- all chunks have exactly `c` elements except a shorter, non-empty last one -/
theorem chunked_sizes {α} (xs : List α) (c : Nat) (hc : 0 < c) : ChunksOK c (chunked xs c) :=
  chunkedAux_ok c hc xs [] 0 rfl hc

theorem chunked_nonempty_le {α} (xs : List α) (c : Nat) (hc : 0 < c) :
    ∀ ch ∈ chunked xs c, 0 < ch.length ∧ ch.length ≤ c := by
  have h := chunked_sizes xs c hc
  generalize chunked xs c = chs at h
  induction chs with
  | nil => intro ch hch; cases hch
  | cons a r ih =>
    intro ch hch
    cases r with
    | nil =>
      simp at hch; subst hch; exact h
    | cons b r' =>
      rcases List.mem_cons.mp hch with rfl | hmem
      · exact ⟨by rw [h.1]; exact hc, by rw [h.1]; exact Nat.le_refl _⟩
      · exact ih h.2 ch hmem

theorem runChunk_sorted {α ε β} (g : α → β) (chunk : List α) (order : List Nat)
    (hperm : order.Perm (List.range chunk.length)) :
    runChunk (ε := ε) (fun x => .ok (g x)) chunk order true = .ok (chunk.map g) := by
  unfold runChunk
  simp only [futures_ok, collect_ok, if_true]
  rw [sort_restores g chunk order hperm]

theorem runChunk_unsorted {α ε β} (g : α → β) (chunk : List α) (order : List Nat)
    (hperm : order.Perm (List.range chunk.length)) :
    ∃ ys, runChunk (ε := ε) (fun x => .ok (g x)) chunk order false = .ok ys ∧ ys.Perm (chunk.map g) := by
  unfold runChunk
  simp only [futures_ok, collect_ok]
  refine ⟨_, rfl, ?_⟩
  have hp1 : (order.filterMap (fun i => (chunk[i]?).map (fun x => (i, g x)))).Perm
      ((chunk.map g).zipIdx.map (fun p => (p.2, p.1))) := by
    rw [← tagged_range]; exact hperm.filterMap _
  have := hp1.map (·.2)
  simpa [List.map_map, Function.comp_def] using this

theorem runChunks_sorted {α ε β} (g : α → β) (orders : Nat → List Nat) :
    ∀ (chunks : List (List α)) (k : Nat), ValidOrders chunks orders k →
      runChunks (ε := ε) (fun x => .ok (g x)) true orders k chunks = .ok (chunks.flatten.map g) := by
  intro chunks
  induction chunks with
  | nil => intro k _; rfl
  | cons ch rest ih =>
    intro k hv
    have h0 := hv 0 (by simp)
    simp only [Nat.add_zero, List.getElem_cons_zero] at h0
    have hrest : ValidOrders rest orders (k + 1) := by
      intro j hj
      have := hv (j + 1) (by simp; omega)
      simpa [Nat.add_assoc, Nat.add_comm 1 j] using this
    simp [runChunks, runChunk_sorted g ch (orders k) h0, ih (k + 1) hrest]

/-- **C17, main clause.** For every function, list, chunk size, thread count and completion order:
`parallel_map(f, xs)` (sorted) returns `[f(x) for x in xs]`. -/
theorem parallelMap_eq_map {α ε β} (g : α → β) (xs : List α) (threads c : Nat)
    (orders : Nat → List Nat) (hv : ValidOrders (chunked xs c) orders) :
    parallelMap (ε := ε) (fun x => .ok (g x)) xs threads c true orders = .ok (xs.map g) := by
  unfold parallelMap
  split
  · exact mapE_ok g xs
  · rw [runChunks_sorted g orders _ 0 hv, chunked_concat]

/-- the older single-chunk variant -/
theorem parallelMapOld_eq_map {α ε β} (g : α → β) (xs : List α) (threads : Nat) (order : List Nat)
    (hperm : order.Perm (List.range xs.length)) :
    parallelMapOld (ε := ε) (fun x => .ok (g x)) xs threads order = .ok (xs.map g) := by
  unfold parallelMapOld
  split
  · exact mapE_ok g xs
  · exact runChunk_sorted g xs order hperm

/-- `yss` is, chunk by chunk, a permutation of `zss` -/
def ChunkwisePerm {β} : List (List β) → List (List β) → Prop
  | [], [] => True
  | ys :: yss, zs :: zss => ys.Perm zs ∧ ChunkwisePerm yss zss
  | _, _ => False

/-- with `sort=False` the result is, chunk by chunk, a permutation of the outputs -/
theorem unsorted_is_chunkwise_perm {α ε β} (g : α → β) (orders : Nat → List Nat) :
    ∀ (chunks : List (List α)) (k : Nat), ValidOrders chunks orders k →
      ∃ yss : List (List β), runChunks (ε := ε) (fun x => .ok (g x)) false orders k chunks = .ok yss.flatten ∧
        ChunkwisePerm yss (chunks.map (List.map g)) := by
  intro chunks
  induction chunks with
  | nil => intro k _; exact ⟨[], rfl, trivial⟩
  | cons ch rest ih =>
    intro k hv
    have h0 := hv 0 (by simp)
    simp only [Nat.add_zero, List.getElem_cons_zero] at h0
    have hrest : ValidOrders rest orders (k + 1) := by
      intro j hj
      have := hv (j + 1) (by simp; omega)
      simpa [Nat.add_assoc, Nat.add_comm 1 j] using this
    obtain ⟨ys, hys, hperm⟩ := runChunk_unsorted (ε := ε) g ch (orders k) h0
    obtain ⟨yss, hyss, hall⟩ := ih (k + 1) hrest
    refine ⟨ys :: yss, ?_, ?_⟩
    · simp [runChunks, hys, hyss]
    · exact ⟨hperm, hall⟩

/-- every element of a chunk is submitted exactly once (as a multiset), whatever the order -/
theorem submitted_once {α} (chunk : List α) (order : List Nat)
    (hperm : order.Perm (List.range chunk.length)) :
    (order.filterMap (fun i => chunk[i]?)).Perm chunk := by
  have h1 := (hperm.filterMap (fun i => (chunk[i]?).map (fun x => (i, id x)))).map (·.2)
  rw [tagged_range id chunk] at h1
  simp only [List.map_filterMap, List.map_map, Function.comp_def] at h1
  have h2 : (fun i : Nat => Option.map (fun x : Nat × α => x.2) (Option.map (fun x => (i, id x)) chunk[i]?))
      = fun i => chunk[i]? := by
    funext i; cases chunk[i]? <;> simp
  rw [h2] at h1
  have h3 : (List.map (fun x : α × Nat => x.1) chunk.zipIdx) = chunk := by simp
  simpa [h3] using h1

/-! ### exceptions -/

theorem collect_error_mem {ε β} : ∀ (fs : List (Tagged ε β)) (e : ε), collect fs = .error e → .error e ∈ fs := by
  intro fs
  induction fs with
  | nil => intro e h; simp [collect] at h
  | cons a r ih =>
    intro e h
    cases a with
    | error e' => simp [collect] at h; simp [h]
    | ok v =>
      simp only [collect] at h
      split at h
      · rename_i e' he; cases h; exact List.mem_cons_of_mem _ (ih _ he)
      · cases h

theorem collect_of_error_mem {ε β} : ∀ (fs : List (Tagged ε β)), (∃ e, .error e ∈ fs) → ∃ e, collect fs = .error e := by
  intro fs
  induction fs with
  | nil => intro ⟨e, h⟩; cases h
  | cons a r ih =>
    intro ⟨e, h⟩
    cases a with
    | error e' => exact ⟨e', by simp [collect]⟩
    | ok v =>
      have : .error e ∈ r := by simpa using h
      obtain ⟨e', he'⟩ := ih ⟨e, this⟩
      exact ⟨e', by simp [collect, he']⟩

theorem runChunk_of_collect_error {α ε β} (f : α → Except ε β) (chunk : List α) (order : List Nat) (sort : Bool) (e : ε)
    (h : collect (order.filterMap (fun i => (chunk[i]?).map (fun x => (f x).map (fun y => (i, y))))) = .error e) :
    runChunk f chunk order sort = .error e := by
  unfold runChunk; simp only [h]

theorem runChunk_of_collect_ok {α ε β} (f : α → Except ε β) (chunk : List α) (order : List Nat) (sort : Bool) (rs)
    (h : collect (order.filterMap (fun i => (chunk[i]?).map (fun x => (f x).map (fun y => (i, y))))) = .ok rs) :
    runChunk f chunk order sort = .ok ((if sort then sortByIndex rs else rs).map (·.2)) := by
  unfold runChunk; simp only [h]

/-- an error reported by a chunk is the exception of one of its elements -/
theorem runChunk_error_sound {α ε β} (f : α → Except ε β) (chunk : List α) (order : List Nat) (sort : Bool)
    (e : ε) (h : runChunk f chunk order sort = .error e) : ∃ x ∈ chunk, f x = .error e := by
  cases hc : collect (order.filterMap (fun i => (chunk[i]?).map (fun x => (f x).map (fun y => (i, y))))) with
  | ok rs => rw [runChunk_of_collect_ok f chunk order sort rs hc] at h; cases h
  | error e' =>
    rw [runChunk_of_collect_error f chunk order sort e' hc] at h
    cases h
    have := collect_error_mem _ _ hc
    simp only [List.mem_filterMap] at this
    obtain ⟨i, _, hi⟩ := this
    cases hci : chunk[i]? with
    | none => simp [hci] at hi
    | some x =>
      simp only [hci, Option.map_some, Option.some.injEq] at hi
      refine ⟨x, List.mem_of_getElem? hci, ?_⟩
      cases hf : f x with
      | error e'' => simp [hf, Except.map] at hi; rw [hi]
      | ok y => simp [hf, Except.map] at hi

/-- if some element of the chunk raises, the chunk raises -/
theorem runChunk_error_complete {α ε β} (f : α → Except ε β) (chunk : List α) (order : List Nat) (sort : Bool)
    (hperm : order.Perm (List.range chunk.length)) (x : α) (hx : x ∈ chunk) (e : ε) (hf : f x = .error e) :
    ∃ e', runChunk f chunk order sort = .error e' := by
  obtain ⟨i, hi, hxi⟩ := List.getElem_of_mem hx
  have hio : i ∈ order := hperm.symm.subset (by simp [hi])
  have hmem : (Except.error e : Tagged ε β) ∈
      order.filterMap (fun i => (chunk[i]?).map (fun x => (f x).map (fun y => (i, y)))) := by
    simp only [List.mem_filterMap]
    exact ⟨i, hio, by simp [List.getElem?_eq_getElem hi, hxi, hf, Except.map]⟩
  obtain ⟨e', he'⟩ := collect_of_error_mem _ ⟨e, hmem⟩
  exact ⟨e', runChunk_of_collect_error f chunk order sort e' he'⟩

theorem runChunks_error {α ε β} (f : α → Except ε β) (sort : Bool) (orders : Nat → List Nat) :
    ∀ (chunks : List (List α)) (k : Nat), ValidOrders chunks orders k →
      (∃ x ∈ chunks.flatten, ∃ e, f x = .error e) →
      ∃ e, runChunks f sort orders k chunks = .error e ∧ ∃ x ∈ chunks.flatten, f x = .error e := by
  intro chunks
  induction chunks with
  | nil => intro k _ ⟨x, hx, _⟩; simp at hx
  | cons ch rest ih =>
    intro k hv ⟨x, hx, e, hf⟩
    have h0 := hv 0 (by simp)
    simp only [Nat.add_zero, List.getElem_cons_zero] at h0
    have hrest : ValidOrders rest orders (k + 1) := by
      intro j hj
      have := hv (j + 1) (by simp; omega)
      simpa [Nat.add_assoc, Nat.add_comm 1 j] using this
    simp only [runChunks]
    cases hrc : runChunk f ch (orders k) sort with
    | error e' =>
      obtain ⟨y, hy, hfy⟩ := runChunk_error_sound f ch (orders k) sort e' hrc
      exact ⟨e', rfl, y, by simp [hy], hfy⟩
    | ok ys =>
      have hxr : x ∈ rest.flatten := by
        simp only [List.flatten_cons, List.mem_append] at hx
        rcases hx with hx | hx
        · obtain ⟨e', he'⟩ := runChunk_error_complete f ch (orders k) sort h0 x hx e hf
          rw [hrc] at he'; cases he'
        · exact hx
      obtain ⟨e', he', y, hy, hfy⟩ := ih (k + 1) hrest ⟨x, hxr, e, hf⟩
      exact ⟨e', by simp [he'], y, by simp [hy], hfy⟩

theorem mapE_error {α ε β} (f : α → Except ε β) : ∀ (xs : List α), (∃ x ∈ xs, ∃ e, f x = .error e) →
    ∃ e, mapE f xs = .error e ∧ ∃ x ∈ xs, f x = .error e := by
  intro xs
  induction xs with
  | nil => intro ⟨x, hx, _⟩; cases hx
  | cons a r ih =>
    intro ⟨x, hx, e, hf⟩
    simp only [mapE]
    cases hfa : f a with
    | error e' => exact ⟨e', rfl, a, by simp, hfa⟩
    | ok y =>
      have hxr : x ∈ r := by
        rcases List.mem_cons.mp hx with rfl | h
        · rw [hf] at hfa; cases hfa
        · exact h
      obtain ⟨e', he', z, hz, hfz⟩ := ih ⟨x, hxr, e, hf⟩
      exact ⟨e', by simp [he'], z, by simp [hz], hfz⟩

/-- **C17, exception clause.** If `f` raises on some element, `parallel_map` raises, and what it
raises is the exception of one of the elements (never a list). -/
theorem exception_propagates {α ε β} (f : α → Except ε β) (xs : List α) (threads c : Nat) (sort : Bool)
    (orders : Nat → List Nat) (hv : ValidOrders (chunked xs c) orders)
    (h : ∃ x ∈ xs, ∃ e, f x = .error e) :
    ∃ e, parallelMap f xs threads c sort orders = .error e ∧ ∃ x ∈ xs, f x = .error e := by
  unfold parallelMap
  split
  · exact mapE_error f xs h
  · have := runChunks_error f sort orders (chunked xs c) 0 hv (by rw [chunked_concat]; exact h)
    rw [chunked_concat] at this
    exact this

/-! ### non-vacuity: the hypotheses are met by concrete, non-trivial data -/

example : ValidOrders (chunked [10, 11, 12, 13, 14] 2) (fun k => if k = 0 then [1, 0] else if k = 1 then [0, 1] else [0]) := by
  intro j hj
  have : j < 3 := by simpa [chunked, chunkedAux] using hj
  match j, this with
  | 0, _ => simp [chunked, chunkedAux]; decide
  | 1, _ => simp [chunked, chunkedAux]; decide
  | 2, _ => simp [chunked, chunkedAux]

example : parallelMap (ε := Unit) (fun x => .ok (x * x)) [10, 11, 12, 13, 14] 3 2 true
    (fun k => if k = 0 then [1, 0] else if k = 1 then [0, 1] else [0]) = .ok [100, 121, 144, 169, 196] := by
  rfl

/-- without the sort the completion order is visible: the sort is what the property rests on -/
example : parallelMap (ε := Unit) (fun x => .ok (x * x)) [10, 11, 12, 13, 14] 3 2 false
    (fun k => if k = 0 then [1, 0] else if k = 1 then [0, 1] else [0]) = .ok [121, 100, 144, 169, 196] := by
  rfl

end TCV.C17
