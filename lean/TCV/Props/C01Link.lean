import TCV.Props.C03Dag
/-!
# C01: equal location ⇒ equal computation, for built chains (the link from the key scheme to the store machine)

A built chain is a list of tasks in creation order (inputs are created before their dependants).  What matters of a task
for persistence: its full name, the namespace of its config, its declared parameters with received values, the full names of
its input tasks, and its key.  `WFChain` collects the facts the builder establishes for every chain it returns (each is decidable
and is *evaluated by the driver on every chain built during a run*):

* every input refers to an earlier task of the list and is named `namespace::relative`;
* the key is the key function applied to the parameters and the keys of those inputs;
* names and persisted values are well-formed (the complement of finding K1), no `Path`-typed persisted parameter.

Theorem `same_key_same_computation`: for two tasks of two such chains (built from any configs, in any processes, for the same
data directory), equal keys imply the same computation — the same persisted parameters at the task and at everything upstream,
with the same wiring.  With `semC_congr` — any semantics that is a function of the persisted parameters and the input values
gives equal results on the same computation — this is the hypothesis `LocDeterminesComp` of `C01.history_sound`, outside K1/K3.
-/
namespace TCV.C01
open TCV TCV.PVal TCV.Key TCV.C03

structure KTask where
  full : Str
  ns : Option Str
  kparams : List Param
  /-- input tasks: (name relative to `ns`, full name of the input task) -/
  inputs : List (Str × Str)
  key : Str

def qualify (ns : Option Str) (rel : Str) : Str :=
  match ns with
  | some n => if n.isEmpty then rel else n ++ ':' :: ':' :: rel
  | none => rel

def lookupA {β} (k : Str) : List (Str × β) → Option β
  | [] => none
  | (k', v) :: r => if k' == k then some v else lookupA k r

/-- computations of the tasks of a chain, in list order: an input's computation is looked up among the earlier tasks -/
def compsOf : List KTask → List (Str × Comp) → List (Str × Comp)
  | [], acc => acc
  | t :: r, acc =>
    let ins := t.inputs.filterMap (fun (rel, full) => (lookupA full acc).map (fun c => (rel, c)))
    compsOf r (acc ++ [(t.full, .node t.kparams (isort (fun a b : Str × Comp => strLe a.1 b.1) ins))])

/-- the facts about one task, given the (name ↦ key, name ↦ computation) of the earlier tasks -/
structure WFTask (H : Str → Str) (pr : Char → Bool) (keys : List (Str × Str)) (t : KTask) : Prop where
  inputsFound : ∀ p ∈ t.inputs, (lookupA p.2 keys).isSome
  relDistinct : (t.inputs.map (·.1)).Nodup
  relNoEq : ∀ p ∈ t.inputs, ∀ c ∈ p.1, c ≠ '='
  keyOK : t.key = keyOf H pr t.kparams t.ns (t.inputs.filterMap (fun p => (lookupA p.2 keys).map (fun k => (qualify t.ns p.1, k))))
  noPath : ∀ p ∈ t.kparams, p.isPath = false
  paramsOK : ParamsOK (persistedView pr t.kparams)

def WFChain (H : Str → Str) (pr : Char → Bool) : List KTask → List (Str × Str) → Prop
  | [], _ => True
  | t :: r, keys => WFTask H pr keys t ∧ WFChain H pr r (keys ++ [(t.full, t.key)])

/-! ### semantics factors through the computation -/

mutual
/-- any task semantics that is a function of the persisted parameters and of the (named) input values -/
def semC {V} (pr : Char → Bool) (g : List (Str × PVal) → List (Str × V) → V) : Comp → V
  | .node ps ins => g (persistedView pr ps) (semL pr g ins)
def semL {V} (pr : Char → Bool) (g : List (Str × PVal) → List (Str × V) → V) : List (Str × Comp) → List (Str × V)
  | [] => []
  | (n, c) :: r => (n, semC pr g c) :: semL pr g r
end

mutual
theorem semC_congr {V} (pr : Char → Bool) (g : List (Str × PVal) → List (Str × V) → V) :
    ∀ c1 c2 : Comp, sameC pr c1 c2 → semC pr g c1 = semC pr g c2
  | .node p1 i1, .node p2 i2, h => by
    simp only [sameC] at h
    simp only [semC, h.1, semL_congr pr g i1 i2 h.2]
theorem semL_congr {V} (pr : Char → Bool) (g : List (Str × PVal) → List (Str × V) → V) :
    ∀ l1 l2 : List (Str × Comp), sameL pr l1 l2 → semL pr g l1 = semL pr g l2
  | [], [], _ => rfl
  | [], _ :: _, h => by simp [sameL] at h
  | _ :: _, [], h => by simp [sameL] at h
  | (n1, c1) :: r1, (n2, c2) :: r2, h => by
    simp only [sameL] at h
    simp only [semL, h.1, semC_congr pr g c1 c2 h.2.1, semL_congr pr g r1 r2 h.2.2]
end

/-! ### the invariant: recorded keys are the keys of the recorded computations -/

theorem lookupA_append {β} (k : Str) (v : β) (n : Str) : ∀ l : List (Str × β),
    lookupA n (l ++ [(k, v)]) = match lookupA n l with
      | some w => some w
      | none => if k == n then some v else none
  | [] => by simp [lookupA]
  | (k', w) :: r => by
    simp only [List.cons_append, lookupA]
    split
    · rfl
    · exact lookupA_append k v n r

/-- keys and computations recorded in lock-step -/
def Inv (H : Str → Str) (pr : Char → Bool) (keys : List (Str × Str)) (comps : List (Str × Comp)) : Prop :=
  (∀ n k, lookupA n keys = some k → ∃ c, lookupA n comps = some c ∧ keyC H pr c = k ∧ OKC pr c) ∧
  (∀ n, lookupA n keys = none → lookupA n comps = none)

theorem keysL_eq_map (H : Str → Str) (pr : Char → Bool) : ∀ l : List (Str × Comp),
    keysL H pr l = l.map (fun nc => (nc.1, keyC H pr nc.2))
  | [] => rfl
  | (n, c) :: r => by simp [keysL, keysL_eq_map H pr r]

theorem okl_iff (pr : Char → Bool) : ∀ l : List (Str × Comp), OKL pr l ↔ ∀ nc ∈ l, OKC pr nc.2
  | [] => by simp [OKL]
  | (n, c) :: r => by simp [OKL, okl_iff pr r]

theorem pairwise_strict {α} (le : α → α → Bool) (key : α → Str) (hle : ∀ a b, le a b = strLe (key a) (key b)) :
    ∀ l : List α, l.Pairwise (fun a b => le a b = true) → (l.map key).Nodup →
      (l.map key).Pairwise (fun a b => strLe a b = true ∧ a ≠ b)
  | [], _, _ => List.Pairwise.nil
  | x :: r, hp, hn => by
    simp only [List.map_cons, List.pairwise_cons, List.nodup_cons] at hp hn ⊢
    refine ⟨?_, pairwise_strict le key hle r hp.2 hn.2⟩
    intro b hb
    obtain ⟨y, hy, rfl⟩ := List.mem_map.mp hb
    exact ⟨by rw [← hle]; exact hp.1 y hy, fun h => hn.1 (by rw [h]; exact List.mem_map.mpr ⟨y, hy, rfl⟩)⟩

/-- all inputs found: the filterMap is a map -/
theorem filterMap_all_some {α β} (f : α → Option β) (g : α → β) : ∀ l : List α, (∀ a ∈ l, f a = some (g a)) → l.filterMap f = l.map g
  | [], _ => rfl
  | a :: r, h => by
    simp only [List.filterMap_cons, h a (by simp), List.map_cons]
    rw [filterMap_all_some f g r (fun b hb => h b (by simp [hb]))]

theorem keyOf_qualify (H : Str → Str) (pr : Char → Bool) (ps : List Param) (ns : Option Str) (R : List (Str × Str)) :
    keyOf H pr ps ns (R.map (fun p => (qualify ns p.1, p.2))) = keyOf H pr ps none R := by
  cases ns with
  | none => simp [qualify]
  | some n =>
    by_cases hn : n = []
    · subst hn
      have : (R.map (fun p : Str × Str => (qualify (some []) p.1, p.2))) = R := by simp [qualify]
      rw [this]
      simp [keyOf, keyText, inputsRepr, stripNs]
    · have hne : n.isEmpty = false := by cases n <;> simp_all
      have : (R.map (fun p : Str × Str => (qualify (some n) p.1, p.2))) = R.map (fun nk => (n ++ ':' :: ':' :: nk.1, nk.2)) := by
        simp [qualify, hne]
      rw [this]
      exact C02.keyOf_mount_invariant H pr ps n hn R

/-- one step: the computation assembled for `t` has `t`'s key and is well-formed -/
theorem step_ok (H : Str → Str) (pr : Char → Bool) (keys : List (Str × Str)) (comps : List (Str × Comp))
    (hI : Inv H pr keys comps) (t : KTask) (hw : WFTask H pr keys t) :
    let ins := t.inputs.filterMap (fun (rel, full) => (lookupA full comps).map (fun c => (rel, c)))
    let c := Comp.node t.kparams (isort (fun a b : Str × Comp => strLe a.1 b.1) ins)
    keyC H pr c = t.key ∧ OKC pr c := by
  intro ins c
  -- choose key and computation of every input
  have hfound : ∀ p ∈ t.inputs, ∃ k cc, lookupA p.2 keys = some k ∧ lookupA p.2 comps = some cc ∧ keyC H pr cc = k ∧ OKC pr cc := by
    intro p hp
    obtain ⟨k, hk⟩ := Option.isSome_iff_exists.mp (hw.inputsFound p hp)
    obtain ⟨cc, hc, hkc, hok⟩ := hI.1 p.2 k hk
    exact ⟨k, cc, hk, hc, hkc, hok⟩
  -- the (rel, computation) list as a map over the inputs
  have hins : ins = t.inputs.map (fun p => (p.1, (lookupA p.2 comps).getD (.node [] []))) := by
    show t.inputs.filterMap (fun (rel, full) => (lookupA full comps).map (fun c => (rel, c))) = _
    apply filterMap_all_some
    intro p hp
    obtain ⟨k, cc, _, hc, _, _⟩ := hfound p hp
    obtain ⟨rel, full⟩ := p
    simp only at hc
    simp [hc]
  have hR : t.inputs.filterMap (fun p => (lookupA p.2 keys).map (fun k => (qualify t.ns p.1, k)))
      = (keysL H pr ins).map (fun p => (qualify t.ns p.1, p.2)) := by
    rw [keysL_eq_map, hins, List.map_map, List.map_map]
    apply filterMap_all_some
    intro p hp
    obtain ⟨k, cc, hk, hc, hkc, _⟩ := hfound p hp
    simp [hk, hc, hkc]
  have hnames : (keysL H pr ins).map (·.1) = t.inputs.map (·.1) := by
    rw [keysL_eq_map, hins, List.map_map, List.map_map]
    rfl
  have huniqK : ∀ a b, a ∈ keysL H pr ins → b ∈ keysL H pr ins → a.1 = b.1 → a = b := by
    intro a b ha hb hab
    exact inj_of_nodup_map (·.1) (keysL H pr ins) (by rw [hnames]; exact hw.relDistinct) a b ha hb hab
  constructor
  · -- the key
    show keyOf H pr t.kparams none (keysL H pr (isort (fun a b : Str × Comp => strLe a.1 b.1) ins)) = t.key
    rw [hw.keyOK, hR, keyOf_qualify]
    have hsort : keysL H pr (isort (fun a b : Str × Comp => strLe a.1 b.1) ins)
        = isort (fun a b : Str × Str => strLe a.1 b.1) (keysL H pr ins) := by
      rw [keysL_eq_map, keysL_eq_map]
      exact C02.isort_map (fun nc : Str × Comp => (nc.1, keyC H pr nc.2)) (fun a b : Str × Str => strLe a.1 b.1) ins
    rw [hsort]
    simp only [keyOf, keyText]
    rw [C02.inputsRepr_perm none _ _ (isort_perm _ _) (by
      intro a b ha hb hab
      exact huniqK a b ((isort_perm _ _).subset ha) ((isort_perm _ _).subset hb) hab)]
  · -- well-formedness
    have hperm := isort_perm (fun a b : Str × Comp => strLe a.1 b.1) ins
    have hinsnames : ins.map (·.1) = t.inputs.map (·.1) := by rw [hins, List.map_map]; rfl
    show OKC pr (Comp.node t.kparams (isort (fun a b : Str × Comp => strLe a.1 b.1) ins))
    simp only [OKC, names]
    refine ⟨hw.noPath, hw.paramsOK, ?_, ?_, ?_⟩
    · apply pairwise_strict (fun a b : Str × Comp => strLe a.1 b.1) (·.1) (fun _ _ => rfl)
      · exact isort_pairwise (fun a b : Str × Comp => strLe a.1 b.1) (fun a b => strLe_total a.1 b.1) (fun a b c => strLe_trans a.1 b.1 c.1) ins
      · have : ((isort (fun a b : Str × Comp => strLe a.1 b.1) ins).map (·.1)).Perm (ins.map (·.1)) := hperm.map _
        exact (List.Perm.nodup_iff this).mpr (by rw [hinsnames]; exact hw.relDistinct)
    · intro n hn ch hch
      obtain ⟨nc, hnc, rfl⟩ := List.mem_map.mp hn
      have hmem : nc ∈ ins := hperm.subset hnc
      rw [hins] at hmem
      obtain ⟨p, hp, rfl⟩ := List.mem_map.mp hmem
      exact hw.relNoEq p hp ch hch
    · rw [okl_iff]
      intro nc hnc
      have hmem : nc ∈ ins := hperm.subset hnc
      rw [hins] at hmem
      obtain ⟨p, hp, rfl⟩ := List.mem_map.mp hmem
      obtain ⟨k, cc, _, hc, _, hok⟩ := hfound p hp
      simp [hc, hok]

/-- processing a whole chain keeps the invariant -/
theorem inv_chain (H : Str → Str) (pr : Char → Bool) : ∀ (ts : List KTask) (keys : List (Str × Str)) (comps : List (Str × Comp)),
    Inv H pr keys comps → WFChain H pr ts keys →
    Inv H pr (keys ++ ts.map (fun t => (t.full, t.key))) (compsOf ts comps)
  | [], keys, comps, hI, _ => by simpa [compsOf] using hI
  | t :: r, keys, comps, hI, hw => by
    simp only [WFChain] at hw
    have hs := step_ok H pr keys comps hI t hw.1
    simp only at hs
    have hI' : Inv H pr (keys ++ [(t.full, t.key)])
        (comps ++ [(t.full, Comp.node t.kparams (isort (fun a b : Str × Comp => strLe a.1 b.1)
          (t.inputs.filterMap (fun (rel, full) => (lookupA full comps).map (fun c => (rel, c))))))]) := by
      constructor
      · intro n k hk
        rw [lookupA_append] at hk
        rw [lookupA_append]
        cases hkk : lookupA n keys with
        | some w =>
          simp only [hkk] at hk
          cases hk
          obtain ⟨c, hc, h1, h2⟩ := hI.1 n _ hkk
          exact ⟨c, by simp [hc], h1, h2⟩
        | none =>
          simp only [hkk] at hk
          split at hk
          · rename_i hb
            cases hk
            exact ⟨_, by simp [hI.2 n hkk, hb], hs.1, hs.2⟩
          · cases hk
      · intro n hn
        rw [lookupA_append] at hn
        rw [lookupA_append]
        cases hkk : lookupA n keys with
        | some w => simp [hkk] at hn
        | none =>
          simp only [hkk] at hn
          split at hn
          · cases hn
          · rename_i hb
            simp [hI.2 n hkk, hb]
    have := inv_chain H pr r _ _ hI' hw.2
    simpa [compsOf, List.append_assoc] using this

end TCV.C01

namespace TCV.C01
open TCV TCV.PVal TCV.Key TCV.C03

theorem inv_empty (H : Str → Str) (pr : Char → Bool) : Inv H pr [] [] :=
  ⟨fun n k h => by simp [lookupA] at h, fun n _ => rfl⟩

/-- every recorded key of a well-formed chain is the key of the recorded computation, which is well-formed -/
theorem chain_keys_are_comp_keys (H : Str → Str) (pr : Char → Bool) (ts : List KTask) (hw : WFChain H pr ts []) :
    Inv H pr (ts.map (fun t => (t.full, t.key))) (compsOf ts []) := by
  have := inv_chain H pr ts [] [] (inv_empty H pr) hw
  simpa using this

/-- **C01 link (equal location ⇒ equal computation).**  Two tasks of two well-formed chains — built from any configs, by any
processes, for one data directory — that have the same key are the same computation at every depth; hence any semantics that is
a function of persisted parameters and input values gives them the same value: a stored result found under that key is never
stale or foreign (outside findings K1/K3, which `WFChain` excludes, and given a hash without collisions on the occurring texts). -/
theorem same_key_same_computation (H : Str → Str) (pr : Char → Bool)
    (hH : ∀ a b, (H a).take 32 = (H b).take 32 → a = b) (hHex : ∀ s, ∀ c ∈ (H s).take 32, c ≠ '#')
    (ts1 ts2 : List KTask) (hw1 : WFChain H pr ts1 []) (hw2 : WFChain H pr ts2 [])
    (n1 n2 k : Str)
    (h1 : lookupA n1 (ts1.map (fun t => (t.full, t.key))) = some k)
    (h2 : lookupA n2 (ts2.map (fun t => (t.full, t.key))) = some k) :
    ∃ c1 c2, lookupA n1 (compsOf ts1 []) = some c1 ∧ lookupA n2 (compsOf ts2 []) = some c2 ∧ sameC pr c1 c2 ∧
      ∀ {V : Type} (g : List (Str × PVal) → List (Str × V) → V), semC pr g c1 = semC pr g c2 := by
  obtain ⟨c1, hc1, hk1, ho1⟩ := (chain_keys_are_comp_keys H pr ts1 hw1).1 n1 k h1
  obtain ⟨c2, hc2, hk2, ho2⟩ := (chain_keys_are_comp_keys H pr ts2 hw2).1 n2 k h2
  have hs := merkle H pr hH hHex c1 c2 ho1 ho2 (by rw [hk1, hk2])
  exact ⟨c1, c2, hc1, hc2, hs, fun g => semC_congr pr g c1 c2 hs⟩

/-! ### executable form of `WFChain`, evaluated by the driver on the chains built in every run -/

mutual
def wfB : PVal → Bool
  | .atom t => !t.isEmpty && t.all (fun c => !isDelim c)
  | .str s => s.all (fun c => c != q)
  | .rstr _ _ => false
  | .list xs => wfLB xs
  | .dict kvs => wfDB kvs
  | .obj _ => false
def wfLB : List PVal → Bool
  | [] => true
  | x :: r => wfB x && wfLB r
def wfDB : List (Str × PVal) → Bool
  | [] => true
  | (k, v) :: r => k.all (fun c => c != q) && wfB v && wfDB r
end

mutual
theorem wfB_sound : ∀ v, wfB v = true → WF v
  | .atom t, h => by
    simp only [wfB, Bool.and_eq_true, Bool.not_eq_true', List.isEmpty_eq_false_iff, List.all_eq_true] at h
    exact ⟨h.1, fun c hc => by simpa using h.2 c hc⟩
  | .str s, h => by
    simp only [wfB, List.all_eq_true] at h
    exact fun c hc => by simpa using h c hc
  | .rstr _ _, h => by simp [wfB] at h
  | .obj _, h => by simp [wfB] at h
  | .list xs, h => by simp only [wfB] at h; exact wfLB_sound xs h
  | .dict kvs, h => by simp only [wfB] at h; exact wfDB_sound kvs h
theorem wfLB_sound : ∀ xs, wfLB xs = true → WFL xs
  | [], _ => trivial
  | x :: r, h => by
    simp only [wfLB, Bool.and_eq_true] at h
    exact ⟨wfB_sound x h.1, wfLB_sound r h.2⟩
theorem wfDB_sound : ∀ kvs, wfDB kvs = true → WFD kvs
  | [], _ => trivial
  | (k, v) :: r, h => by
    simp only [wfDB, Bool.and_eq_true, List.all_eq_true] at h
    exact ⟨fun c hc => by simpa using h.1.1 c hc, wfB_sound v h.1.2, wfDB_sound r h.2⟩
end

def paramsOKB : List (Str × PVal) → Bool
  | [] => true
  | (n, v) :: r => (!n.isEmpty && n.all (fun c => !isDelim c)) && wfB v && paramsOKB r

theorem paramsOKB_sound : ∀ l, paramsOKB l = true → ParamsOK l
  | [], _ => trivial
  | (n, v) :: r, h => by
    simp only [paramsOKB, Bool.and_eq_true, Bool.not_eq_true', List.isEmpty_eq_false_iff, List.all_eq_true] at h
    exact ⟨⟨h.1.1.1, fun c hc => by simpa using h.1.1.2 c hc⟩, wfB_sound v h.1.2, paramsOKB_sound r h.2⟩

def wfTaskB (H : Str → Str) (pr : Char → Bool) (keys : List (Str × Str)) (t : KTask) : Bool :=
  t.inputs.all (fun p => (lookupA p.2 keys).isSome) &&
  decide ((t.inputs.map (·.1)).Nodup) &&
  t.inputs.all (fun p => p.1.all (fun c => c != '=')) &&
  (t.key == keyOf H pr t.kparams t.ns (t.inputs.filterMap (fun p => (lookupA p.2 keys).map (fun k => (qualify t.ns p.1, k))))) &&
  t.kparams.all (fun p => !p.isPath) &&
  paramsOKB (persistedView pr t.kparams)

theorem wfTaskB_sound (H : Str → Str) (pr : Char → Bool) (keys : List (Str × Str)) (t : KTask)
    (h : wfTaskB H pr keys t = true) : WFTask H pr keys t := by
  simp only [wfTaskB, Bool.and_eq_true, List.all_eq_true, decide_eq_true_eq, beq_iff_eq, Bool.not_eq_true'] at h
  obtain ⟨⟨⟨⟨⟨h1, h2⟩, h3⟩, h4⟩, h5⟩, h6⟩ := h
  exact ⟨h1, h2, fun p hp c hc => by simpa using h3 p hp c hc, h4, h5, paramsOKB_sound _ h6⟩

def wfChainB (H : Str → Str) (pr : Char → Bool) : List KTask → List (Str × Str) → Bool
  | [], _ => true
  | t :: r, keys => wfTaskB H pr keys t && wfChainB H pr r (keys ++ [(t.full, t.key)])

theorem wfChainB_sound (H : Str → Str) (pr : Char → Bool) : ∀ (ts : List KTask) (keys : List (Str × Str)),
    wfChainB H pr ts keys = true → WFChain H pr ts keys
  | [], _, _ => trivial
  | t :: r, keys, h => by
    simp only [wfChainB, Bool.and_eq_true] at h
    exact ⟨wfTaskB_sound H pr keys t h.1, wfChainB_sound H pr r _ h.2⟩

/-- non-vacuity: a two-task chain under a namespace, with the identity as "hash", passes the executable check -/
example : wfChainB id (fun _ => true)
    [{ full := "n::up".toList, ns := some "n".toList, kparams := [{ name := "x".toList, value := .atom "1".toList, default := none, ignore := false, dpd := false }],
       inputs := [], key := "x=1$$$".toList },
     { full := "n::down".toList, ns := some "n".toList, kparams := [], inputs := [("up".toList, "n::up".toList)], key := "None$$$up=x=1$$$".toList }] [] = true := by
  rfl

end TCV.C01
