import TCV.Lemmas.Test
/-!
# C19 — test helpers compute what the real chain computes

Model: `TCV/Model/Test.lean`.  `U` is the universe a `TestChain` constructs (real task objects and
value-only nodes for mocks / defaults of absent inputs), `realOf U rloc` the real chain "whose
upstream values equal the mocks" (every mock replaced by a constant task, locations key-derived),
`f` the task functions — all universally quantified, as are the request, the fuel and the
initial states.

Finding K4: the helper stores under `<base_dir>/<slug>/test.<ext>` whatever the mocks and parameters
are.  With a base_dir that already holds a result of another assignment the helper returns that
result.  Hence the hypothesis "fresh base_dir" (`Good` initial store: empty, or holding only right
values) in `test_value_eq_real_partial`; the negation of the unrestricted statement is proved on
the witness.
-/
namespace TCV.C19
open TCV TCV.TestM
variable {V : Type}

/-- **partial (K4 class excluded)**: for every task class/function, parameter and mock assignment
(all inside `U`, `f`), every request `i`: if the helper's base_dir holds no foreign result (`Good`;
in particular if it is fresh) and so does the real chain's data directory, then whatever value the
helper yields is the value the real chain yields — namely the reference semantics
`f i (values of the inputs in use order)` with mocks standing for themselves. -/
theorem test_value_eq_real_partial (U : Nat → Node V) (f : Nat → List V → V) (sem : Nat → V) (rloc : Nat → Nat)
    (hsem : IsSem U f sem) (hlocH : LocOk U sem) (hlocR : LocOk (realOf U rloc) sem)
    (sh sr sh' sr' : St V) (hgH : Good U sem sh) (hgR : Good (realOf U rloc) sem sr)
    (fuel fuel' i : Nat) (v w : V)
    (hh : value U f fuel sh i = (sh', some v))
    (hr : value (realOf U rloc) (realF U f) fuel' sr i = (sr', some w)) :
    v = w ∧ v = sem i := by
  have h1 := (value_sound U f sem hsem hlocH fuel sh i sh' v hgH hh).1
  have h2 := (value_sound (realOf U rloc) (realF U f) sem (isSem_real U f sem rloc hsem) hlocR fuel' sr i sr' w hgR hr).1
  exact ⟨h1.trans h2.symm, h1⟩

/-- the same for the default use (a new temporary directory per helper, a new data directory for the real chain) -/
theorem test_value_eq_real_fresh (U : Nat → Node V) (f : Nat → List V → V) (sem : Nat → V) (rloc : Nat → Nat)
    (hsem : IsSem U f sem) (hlocH : LocOk U sem) (hlocR : LocOk (realOf U rloc) sem)
    (sh' sr' : St V) (fuel fuel' i : Nat) (v w : V)
    (hh : value U f fuel emptySt i = (sh', some v))
    (hr : value (realOf U rloc) (realF U f) fuel' emptySt i = (sr', some w)) : v = w :=
  (test_value_eq_real_partial U f sem rloc hsem hlocH hlocR _ _ _ _ (good_empty _ _) (good_empty _ _) fuel fuel' i v w hh hr).1

/-- the invariant survives, so any sequence of requests on one helper (and one real chain) keeps agreeing -/
theorem good_preserved (U : Nat → Node V) (f : Nat → List V → V) (sem : Nat → V)
    (hsem : IsSem U f sem) (hloc : LocOk U sem) (s s' : St V) (hg : Good U sem s) (fuel i : Nat) (r : Option V)
    (h : value U f fuel s i = (s', r)) : Good U sem s' :=
  (sound_all U f sem hsem hloc fuel s i s' r hg h).1

/-- the unrestricted statement: any content of the helper's base_dir (memory empty, as after construction) -/
def test_value_eq_real_full : Prop :=
  ∀ (U : Nat → Node Nat) (f : Nat → List Nat → Nat) (sem : Nat → Nat), IsSem U f sem → LocOk U sem →
    ∀ (store : Nat → Option Nat) (fuel i : Nat) (s' : St Nat) (v : Nat),
      value U f fuel { store := store, mem := fun _ => none, runs := [] } i = (s', some v) → v = sem i

/-! ### the K4 witness: one task (node 1, persisting, location 0) with one mocked input (node 0) -/

def k4U (m : Nat) : Nat → Node Nat := fun i => if i = 0 then .mock m else .task 0 true [0]
def k4f : Nat → List Nat → Nat := fun _ as => as.sum + 100
def k4sem (m : Nat) : Nat → Nat := fun i => if i = 0 then m else m + 100

theorem k4_isSem (m : Nat) : IsSem (k4U m) k4f (k4sem m) := by
  intro i; by_cases h : i = 0 <;> simp [k4U, k4sem, k4f, h]

theorem k4_locOk (m : Nat) : LocOk (k4U m) (k4sem m) := by
  intro i j l hi hj
  by_cases h1 : i = 0
  · simp [locOf, k4U, h1] at hi
  · by_cases h2 : j = 0
    · simp [locOf, k4U, h2] at hj
    · simp [k4sem, h1, h2]

/-- first helper on a base_dir: mock 1, value 101, stored at location 0 -/
theorem k4_first : (value (k4U 1) k4f 3 emptySt 1).2 = some 101 ∧ (value (k4U 1) k4f 3 emptySt 1).1.store 0 = some 101 := by
  constructor <;> rfl

/-- second helper on the *same* base_dir with another mock value (2): it yields the first result 101,
the real chain yields 102 -/
theorem k4_second_returns_first :
    (value (k4U 2) k4f 3 { store := (value (k4U 1) k4f 3 emptySt 1).1.store, mem := fun _ => none, runs := [] } 1).2 = some 101 ∧
    k4sem 2 1 = 102 := by
  constructor <;> rfl

theorem test_value_eq_real_full_false : ¬ test_value_eq_real_full := by
  intro h
  have := h (k4U 2) k4f (k4sem 2) (k4_isSem 2) (k4_locOk 2) (value (k4U 1) k4f 3 emptySt 1).1.store 3 1 _ 101 rfl
  simp [k4sem] at this

/-- **mocks are never run and never stored**: whatever is requested, in whatever state, the run log
gains only real tasks, memory changes only at real tasks and the store changes only at locations of
persisting real tasks; asking a mock itself returns its value and changes nothing -/
theorem mocks_never_run_never_stored (U : Nat → Node V) (f : Nat → List V → V) (fuel : Nat) (s s' : St V) (i : Nat)
    (r : Option V) (h : value U f fuel s i = (s', r)) :
    (∀ j ∈ s'.runs, j ∈ s.runs ∨ isMock U j = false) ∧
    (∀ j, isMock U j = true → s'.mem j = s.mem j) ∧
    (∀ l, (∀ j, locOf U j ≠ some l) → s'.store l = s.store l) :=
  frame_all U f fuel s i s' r h

theorem mock_value (U : Nat → Node V) (f : Nat → List V → V) (fuel : Nat) (s : St V) (i : Nat) (v : V)
    (h : U i = .mock v) : value U f (fuel + 1) s i = (s, some v) := by
  simp [value, h]

/-! ## construction -/

/-- the declared parameter has a value in `parameters` or a default -/
def hasParam (given : List (Str × V)) (d : Decl V) : Prop := (paramValue given d).isSome = true
/-- the declared input is a task or mock of the chain or has a default -/
def hasInput (names : List Str) (d : Decl V) : Prop := (inputBind names d).isSome = true

theorem hasParam_iff (given : List (Str × V)) (d : Decl V) :
    hasParam given d ↔ (lookupS d.key given).isSome = true ∨ d.default.isSome = true := by
  unfold hasParam paramValue; cases lookupS d.key given <;> simp

theorem hasInput_iff (names : List Str) (d : Decl V) :
    hasInput names d ↔ d.name ∈ names ∨ d.default.isSome = true := by
  unfold hasInput inputBind
  by_cases h : names.contains d.name = true
  · simp [List.contains_iff_mem.mp h]
  · have : d.name ∉ names := fun hm => h (List.contains_iff_mem.mpr hm)
    cases hd : d.default <;> simp [this]

theorem resolveParams_ok (task : Str) (given : List (Str × V)) (ds : List (Decl V)) :
    (∃ l, resolveParams task given ds = .ok l) ↔ ∀ d ∈ ds, hasParam given d := by
  unfold resolveParams
  rw [collect_ok]
  apply forall_congr'; intro d; apply forall_congr'; intro _
  unfold hasParam
  cases paramValue given d <;> simp

theorem resolveInputs_ok (task : Str) (names : List Str) (ds : List (Decl V)) :
    (∃ l, resolveInputs task names ds = .ok l) ↔ ∀ d ∈ ds, hasInput names d := by
  unfold resolveInputs
  rw [collect_ok]
  apply forall_congr'; intro d; apply forall_congr'; intro _
  unfold hasInput
  cases inputBind names d <;> simp

theorem allParams_ok (given : List (Str × V)) (cs : List (Cls V)) :
    (∃ l, allParams given cs = .ok l) ↔ ∀ c ∈ cs, ∀ d ∈ c.params, hasParam given d := by
  unfold allParams
  rw [collect_ok]
  apply forall_congr'; intro c; apply forall_congr'; intro _
  exact resolveParams_ok c.slug given c.params

theorem allInputs_ok (names : List Str) (cs : List (Cls V)) :
    (∃ l, allInputs names cs = .ok l) ↔ ∀ c ∈ cs, ∀ d ∈ c.inputs, hasInput names d := by
  unfold allInputs
  rw [collect_ok]
  apply forall_congr'; intro c; apply forall_congr'; intro _
  exact resolveInputs_ok c.slug names c.inputs

theorem allParams_err (given : List (Str × V)) (cs : List (Cls V)) (e : Err) (h : allParams given cs = .error e) :
    ∃ c ∈ cs, ∃ d ∈ c.params, e = .missingParam c.slug d.name ∧ ¬ hasParam given d := by
  obtain ⟨c, hc, hce⟩ := collect_err _ cs e h
  obtain ⟨d, hd, hde⟩ := collect_err _ c.params e hce
  refine ⟨c, hc, d, hd, ?_⟩
  unfold hasParam
  cases hp : paramValue given d with
  | none => simp [hp] at hde; exact ⟨hde.symm, by simp⟩
  | some v => simp [hp] at hde

theorem allInputs_err (names : List Str) (cs : List (Cls V)) (e : Err) (h : allInputs names cs = .error e) :
    ∃ c ∈ cs, ∃ d ∈ c.inputs, e = .missingInput c.slug d.name ∧ ¬ hasInput names d := by
  obtain ⟨c, hc, hce⟩ := collect_err _ cs e h
  obtain ⟨d, hd, hde⟩ := collect_err _ c.inputs e hce
  refine ⟨c, hc, d, hd, ?_⟩
  unfold hasInput
  cases hp : inputBind names d with
  | none => simp [hp] at hde; exact ⟨hde.symm, by simp⟩
  | some v => simp [hp] at hde

def chainNames (tasks : List (Cls V)) (mocks : List (Str × V)) : List Str := tasks.map (·.slug) ++ mocks.map (·.1)

/-- **missing things are reported when the helper is constructed**: construction succeeds exactly
when every declared parameter of every given class has a value or a default and every declared
input of every (not overridden) class is a task or mock of the chain or has a default; otherwise it
fails naming a parameter that has neither (parameters are checked first, for all given classes)
resp. an input that has neither -/
theorem missing_reported_at_construction (tasks : List (Cls V)) (mocks : List (Str × V)) (given : List (Str × V)) :
    ((∃ b, build tasks mocks given = .ok b) ↔
      (∀ c ∈ tasks, ∀ d ∈ c.params, hasParam given d) ∧
      (∀ c ∈ effective tasks mocks, ∀ d ∈ c.inputs, hasInput (chainNames tasks mocks) d)) ∧
    (∀ e, build tasks mocks given = .error e →
      (∃ c ∈ tasks, ∃ d ∈ c.params, e = .missingParam c.slug d.name ∧ ¬ hasParam given d) ∨
      ((∀ c ∈ tasks, ∀ d ∈ c.params, hasParam given d) ∧
        ∃ c ∈ effective tasks mocks, ∃ d ∈ c.inputs, e = .missingInput c.slug d.name ∧ ¬ hasInput (chainNames tasks mocks) d)) := by
  have hP := allParams_ok given tasks
  have hI := allInputs_ok (chainNames tasks mocks) (effective tasks mocks)
  have hsub : (∀ c ∈ tasks, ∀ d ∈ c.params, hasParam given d) → ∃ l, allParams given (effective tasks mocks) = .ok l := by
    intro h
    exact (allParams_ok given _).mpr (fun c hc => h c (List.mem_filter.mp hc).1)
  unfold build
  cases h1 : allParams given tasks with
  | error e =>
    have hn : ¬ ∀ c ∈ tasks, ∀ d ∈ c.params, hasParam given d := by
      intro h; obtain ⟨l, hl⟩ := hP.mpr h; rw [h1] at hl; cases hl
    refine ⟨⟨fun ⟨b, hb⟩ => (by cases hb), fun h => (hn h.1).elim⟩, fun e' he' => ?_⟩
    cases he'
    exact Or.inl (allParams_err _ _ _ h1)
  | ok ps =>
    have hp : ∀ c ∈ tasks, ∀ d ∈ c.params, hasParam given d := hP.mp ⟨ps, h1⟩
    simp only []
    cases h2 : allInputs (tasks.map (·.slug) ++ mocks.map (·.1)) (effective tasks mocks) with
    | error e =>
      have hn : ¬ ∀ c ∈ effective tasks mocks, ∀ d ∈ c.inputs, hasInput (chainNames tasks mocks) d := by
        intro h; obtain ⟨l, hl⟩ := hI.mpr h; unfold chainNames at hl; rw [h2] at hl; cases hl
      refine ⟨⟨fun ⟨b, hb⟩ => (by cases hb), fun h => (hn h.2).elim⟩, fun e' he' => ?_⟩
      cases he'
      exact Or.inr ⟨hp, allInputs_err _ _ _ h2⟩
    | ok bs =>
      have hi : ∀ c ∈ effective tasks mocks, ∀ d ∈ c.inputs, hasInput (chainNames tasks mocks) d :=
        hI.mp ⟨bs, by unfold chainNames; exact h2⟩
      obtain ⟨l, hl⟩ := hsub hp
      simp only [hl]
      exact ⟨⟨fun _ => ⟨hp, hi⟩, fun _ => ⟨_, rfl⟩⟩, fun e he => by cases he⟩

/-! non-vacuity: a concrete helper universe satisfying `IsSem`/`LocOk`, evaluated from a fresh base_dir -/
example : IsSem (k4U 7) k4f (k4sem 7) ∧ LocOk (k4U 7) (k4sem 7) ∧ LocOk (realOf (k4U 7) (fun i => i + 10)) (k4sem 7) := by
  refine ⟨k4_isSem 7, k4_locOk 7, ?_⟩
  intro i j l hi hj
  by_cases h1 : i = 0 <;> by_cases h2 : j = 0 <;> simp [locOf, realOf, k4U, h1, h2] at hi hj <;> simp [k4sem, h1, h2] <;> omega
example : (value (k4U 7) k4f 3 emptySt 1).2 = some 107 ∧
    (value (realOf (k4U 7) (fun i => i + 10)) (realF (k4U 7) k4f) 3 emptySt 1).2 = some 107 := ⟨rfl, rfl⟩

/-- a parameter declared with `name_in_config` is looked up under that key only: a value supplied under the parameter's NAME is not its
value (the helper behaves as the real chain does) — with nothing under the key, the default (or "missing") decides -/
theorem renamed_param_reads_key (given : List (Str × V)) (d : Decl V) (h : lookupS d.key given = none) :
    paramValue given d = d.default := by
  unfold paramValue; rw [h]

theorem renamed_param_value (given : List (Str × V)) (d : Decl V) (v : V) (h : lookupS d.key given = some v) :
    paramValue given d = some v := by
  unfold paramValue; rw [h]

example : paramValue [("lr".toList, 5)] ({ name := "lr".toList, default := some 1, key := "learning_rate".toList } : Decl Nat) = some 1 ∧
    paramValue [("learning_rate".toList, 5)] ({ name := "lr".toList, default := some 1, key := "learning_rate".toList } : Decl Nat) = some 5 := by
  decide

end TCV.C19
