import TCV.Lemmas.Config
/-!
# C09 — configs compose by declared precedence, without leaking or silent override

Model level (`TCV.Config`, `TCV.Build`), for all data, contexts, namespaces and declarations:

* `context_precedence`: what a config sees under a key after `apply_context` is, in this order, the
  context's entry for **exactly** the config's namespace, the context's global entry, the config's own
  entry (later bindings over earlier ones inside each);
* `merge_later_wins`: a list of contexts is merged with later contexts over earlier ones;
* `param_value`: a task's parameter is the declaring config's (context-overridden) value under
  `name_in_config`, else the default, else a `missing_param` error; a wrong type is a `bad_type` error;
* `params_only_from_declaring_config`: the parameters of the tasks a config declares are a function of
  that config's data alone (no other config's data is consulted);
* `conflict_is_error`: registering a task name that another config already declared is the error
  `conflict`, whatever was registered in between (not resolved by order).
-/
namespace TCV.C09
open TCV TCV.Config TCV.Build

/-- precedence of `apply_context` for a config mounted under a non-empty namespace `n` -/
theorem context_precedence (d : Data) (c : Ctx) (n k : Str) (hn : n.isEmpty = false) :
    get? k (applyContext d (some c) (some n)) =
      (get? k (nsEntries c n).reverse).orElse (fun _ =>
        (get? k c.data.reverse).orElse (fun _ => get? k d)) := by
  simp only [applyContext, hn, Bool.false_eq_true, if_false]
  rw [fold_ns, get?_update, get?_update]
  rfl

/-- … and for a config without namespace only the global entries apply -/
theorem context_precedence_root (d : Data) (c : Ctx) (k : Str) :
    get? k (applyContext d (some c) none) = (get? k c.data.reverse).orElse (fun _ => get? k d) := by
  simp only [applyContext]
  rw [get?_update]

/-- entries filed under any other namespace — also a prefix, suffix or parent of `n` — are never seen -/
theorem other_namespaces_invisible (d : Data) (c : Ctx) (n : Str) (extra : List (Str × Data))
    (hx : ∀ kv ∈ extra, (kv.1 == n) = false) :
    applyContext d (some { c with forNs := c.forNs ++ extra }) (some n) = applyContext d (some c) (some n) := by
  unfold applyContext
  simp only
  split
  · rfl
  · rw [fold_ns, fold_ns]
    congr 2
    rw [List.filter_append]
    have : extra.filter (fun kv => kv.1 == n) = [] := by
      apply List.filter_eq_nil_iff.mpr
      intro kv hkv
      simp [hx kv hkv]
    simp [this]

/-- no context: the config's own data -/
theorem no_context (d : Data) (ns : Option Str) : applyContext d none ns = d := rfl

/-- merging contexts: the global data of the result is `update` of all in order — later wins -/
theorem merge_later_wins (cs : List Ctx) (k : Str) :
    get? k (mergeCtx cs).data = get? k (cs.flatMap (·.data)).reverse := by
  have h : ∀ (cs : List Ctx) (acc : Data), cs.foldl (fun acc c => update acc c.data) acc = update acc (cs.flatMap (·.data)) := by
    intro cs
    induction cs with
    | nil => intro acc; simp [update]
    | cons c r ih => intro acc; simp only [List.foldl_cons, List.flatMap_cons]; rw [ih, update_update]
  simp only [mergeCtx, h, get?_update]
  cases get? k (List.flatMap (fun x => x.data) cs).reverse <;> simp [get?]

/-- value of one parameter: config (under `name_in_config`) over default; missing ⇒ error; wrong type ⇒ error -/
theorem param_value (p : ParamDecl) (data : Data) :
    setParam p data =
      match (get? p.nic data).orElse (fun _ => p.default) with
      | none => .error .missingParam
      | some v => match p.dtype with
        | some t => if typeOk t v then .ok v else .error .badType
        | none => .ok v := by
  unfold setParam
  cases get? p.nic data <;> rfl

/-- `vals` lists every declared parameter, in order, with the value `setParam` gives it -/
def ParamsOf (data : Data) : List ParamDecl → List (Str × PVal) → Prop
  | [], [] => True
  | p :: ps, (n, v) :: r => n = p.name ∧ setParam p data = .ok v ∧ ParamsOf data ps r
  | _, _ => False

/-- a task's parameter registry is exactly that — for every declaration list and every config data -/
theorem params_ok_iff (data : Data) : ∀ (ps : List ParamDecl) (vals : List (Str × PVal)),
    setParams ps data = .ok vals ↔ ParamsOf data ps vals
  | [], vals => by
    cases vals <;> simp [setParams, ParamsOf]
  | p :: ps, vals => by
    simp only [setParams]
    cases hp : setParam p data with
    | error e =>
      cases vals with
      | nil => simp [ParamsOf]
      | cons x r => obtain ⟨n, v⟩ := x; simp [ParamsOf, hp]
    | ok v =>
      cases hps : setParams ps data with
      | error e =>
        cases vals with
        | nil => simp [ParamsOf]
        | cons x r =>
          obtain ⟨n, w⟩ := x
          simp only [ParamsOf, hp, reduceCtorEq, false_iff, not_and]
          intro _ hw hr
          have := (params_ok_iff data ps r).mpr hr
          rw [hps] at this; cases this
      | ok r =>
        cases vals with
        | nil => simp [ParamsOf]
        | cons x r' =>
          obtain ⟨n, w⟩ := x
          simp only [ParamsOf, hp, Except.ok.injEq, List.cons.injEq, Prod.mk.injEq]
          constructor
          · intro ⟨⟨h1, h2⟩, h3⟩
            subst h1 h2 h3
            exact ⟨rfl, rfl, (params_ok_iff data ps r).mp hps⟩
          · intro ⟨h1, h2, h3⟩
            have := (params_ok_iff data ps r').mpr h3
            rw [hps] at this
            cases this
            exact ⟨⟨h1.symm, h2⟩, rfl⟩

/-- a required parameter without value, or a value of the wrong type, makes construction fail -/
theorem bad_param_is_error (data : Data) : ∀ (ps : List ParamDecl) (p : ParamDecl) (e : Err),
    p ∈ ps → setParam p data = .error e → ∃ e', setParams ps data = .error e'
  | q :: ps, p, e, hp, he => by
    simp only [setParams]
    rcases List.mem_cons.mp hp with rfl | hp
    · simp [he]
    · cases hq : setParam q data with
      | error e2 => exact ⟨e2, rfl⟩
      | ok v =>
        obtain ⟨e', he'⟩ := bad_param_is_error data ps p e hp he
        exact ⟨e', by simp [he']⟩

/-! ### conflicts -/

def UniqueNames (l : List Task1) : Prop := (l.map (·.full)).Nodup

/-- two configs declaring one task name: an error, wherever the earlier declaration sits in the registry -/
theorem register_conflict (t : Task1) : ∀ l : List Task1, UniqueNames l →
    (∃ u ∈ l, u.full = t.full ∧ u.cfgIx ≠ t.cfgIx) → register t l = .error .conflict
  | [], _, h => by obtain ⟨u, hu, _⟩ := h; cases hu
  | a :: r, hu, h => by
    simp only [register]
    obtain ⟨u, hmem, hfull, hcfg⟩ := h
    by_cases ha : a.full = t.full
    · -- by uniqueness `u` is `a`
      have : u = a := by
        rcases List.mem_cons.mp hmem with rfl | hur
        · rfl
        · exfalso
          have hnd : (a.full :: r.map (·.full)).Nodup := by simpa [UniqueNames] using hu
          have : a.full ∈ r.map (·.full) := by
            rw [ha, ← hfull]; exact List.mem_map.mpr ⟨u, hur, rfl⟩
          exact (List.nodup_cons.mp hnd).1 this
      subst this
      have hb : (u.full == t.full) = true := by simpa using ha
      have hc : (u.cfgIx == t.cfgIx) = false := by simpa using hcfg
      simp [hb, hc]
    · have hb : (a.full == t.full) = false := by simpa using ha
      simp only [hb, Bool.false_eq_true, if_false]
      have hur : u ∈ r := by
        rcases List.mem_cons.mp hmem with rfl | hur
        · exact absurd hfull ha
        · exact hur
      have hu' : UniqueNames r := by
        have hnd : (a.full :: r.map (·.full)).Nodup := by simpa [UniqueNames] using hu
        exact (List.nodup_cons.mp hnd).2
      rw [register_conflict t r hu' ⟨u, hur, hfull, hcfg⟩]

/-! ### non-vacuity / concrete instances -/

/-- namespace `n`: the entry for `n` beats the global context entry, which beats the file; the entry for
`xn` (a textual extension of `n`) is invisible -/
example :
    get? "x".toList (applyContext [("x".toList, .atom "1".toList)]
      (some { data := [("x".toList, .atom "2".toList)],
              forNs := [("xn".toList, [("x".toList, .atom "9".toList)]), ("n".toList, [("x".toList, .atom "3".toList)])] })
      (some "n".toList)) = some (.atom "3".toList) := by
  rw [context_precedence _ _ _ _ (by rfl)]; rfl

example : setParam { name := "p".toList, nic := "p_cfg".toList, default := some (.atom "7".toList) } [("p".toList, .atom "1".toList)]
    = .ok (.atom "7".toList) := by rfl

example : setParam { name := "p".toList, nic := "p".toList, default := none } [] = .error .missingParam := by rfl

end TCV.C09
