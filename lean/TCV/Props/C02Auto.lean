import TCV.Model.AutoObj
import TCV.Lemmas.Sort
import TCV.Lemmas.Key
/-!
# C02 for `AutoParameterObject` parameter values

The location of a task depends on a parameter object only through `repr()`.  For objects derived from
`AutoParameterObject` the text is a function of the `_arg`-first attribute lookup of the persisted `__init__` arguments:
it does not depend on the order of the arguments, on anything else the instance exposes (in particular on a public
attribute or property `arg` when the raw argument is kept in `_arg`), on the arguments excluded from persistence, or on
the values substituted for placeholders inside the arguments.
-/
namespace TCV.C02Auto
open TCV TCV.PVal TCV.AutoObj

/-! ## the text depends on the instance only through `argValue` of the persisted arguments -/

theorem collect_congr (d : Decl) (ats ats' : Attrs) :
    ∀ args : List Arg, (∀ a ∈ args, d.ignore.contains a.name = false → argValue ats a.name = argValue ats' a.name) →
      collect d ats args = collect d ats' args
  | [], _ => rfl
  | a :: r, h => by
    have ih := collect_congr d ats ats' r (fun b hb => h b (List.mem_cons_of_mem _ hb))
    simp only [collect]
    cases hi : d.ignore.contains a.name with
    | true => simpa using ih
    | false =>
      simp only [Bool.false_eq_true, if_false]
      rw [h a (List.mem_cons_self ..) hi, ih]

theorem autoRepr_congr (pr : Char → Bool) (d : Decl) (ats ats' : Attrs)
    (h : ∀ a ∈ d.args, d.ignore.contains a.name = false → argValue ats a.name = argValue ats' a.name) :
    autoRepr pr d ats = autoRepr pr d ats' := by
  simp only [autoRepr, collect_congr d ats ats' d.args h]

/-- **a public attribute or property `x` does not matter when the raw argument is kept in `_x`**: exposing (or changing)
an attribute `x` (a name not starting with `_`) leaves the text unchanged, provided every `__init__` argument called `x`
has its `_x` -/
theorem autoRepr_public_attribute_irrelevant (pr : Char → Bool) (d : Decl) (ats : Attrs) (x : Str) (w : AVal)
    (hu : ∀ r, x ≠ '_' :: r)
    (hpriv : ∀ a ∈ d.args, a.name = x → (lookup ('_' :: x) ats).isSome = true) :
    autoRepr pr d ((x, w) :: ats) = autoRepr pr d ats := by
  apply autoRepr_congr
  intro a ha _
  have h1 : lookup ('_' :: a.name) ((x, w) :: ats) = lookup ('_' :: a.name) ats := by
    simp only [lookup]
    have : (x == '_' :: a.name) = false := by simpa using hu a.name
    simp [this]
  simp only [argValue, h1]
  cases hl : lookup ('_' :: a.name) ats with
  | some v => rfl
  | none =>
    simp only [lookup]
    by_cases hxa : x = a.name
    · have := hpriv a ha hxa.symm
      rw [hxa, hl] at this
      simp at this
    · have : (x == a.name) = false := by simpa using hxa
      simp [this]

/-! ## order of the `__init__` arguments -/

def ok (d : Decl) (ats : Attrs) (a : Arg) : Bool := d.ignore.contains a.name || (argValue ats a.name).isSome

def item (d : Decl) (ats : Attrs) (a : Arg) : Option (Str × PVal) :=
  if d.ignore.contains a.name then none
  else match argValue ats a.name with
    | some (.plain v) => if isDefault d a v then none else some (a.name, v)
    | _ => none

theorem collect_eq (d : Decl) (ats : Attrs) :
    ∀ args : List Arg, collect d ats args = if args.all (ok d ats) then some (args.filterMap (item d ats)) else none
  | [] => by simp [collect]
  | a :: r => by
    simp only [collect]
    rw [collect_eq d ats r]
    simp only [List.all_cons, List.filterMap_cons]
    by_cases hi : d.ignore.contains a.name = true
    · have h1 : ok d ats a = true := by simp only [ok, hi, Bool.true_or]
      have h2 : item d ats a = none := by simp only [item, hi, if_true]
      simp only [hi, if_true, h1, h2, Bool.true_and]
    · have hi' : d.ignore.contains a.name = false := by simpa using hi
      cases hv : argValue ats a.name with
      | none =>
        have h1 : ok d ats a = false := by simp only [ok, hi', hv, Option.isSome_none, Bool.or_self]
        simp only [hi', Bool.false_eq_true, if_false, h1, Bool.false_and]
      | some v =>
        have h1 : ok d ats a = true := by simp only [ok, hv, Option.isSome_some, Bool.or_true]
        cases v with
        | ignored =>
          have h2 : item d ats a = none := by simp only [item, hi', Bool.false_eq_true, if_false, hv]
          simp only [hi', Bool.false_eq_true, if_false, h1, h2, Bool.true_and]
        | plain v =>
          by_cases hd : isDefault d a v = true
          · have h2 : item d ats a = none := by simp only [item, hi', Bool.false_eq_true, if_false, hv, hd, if_true]
            simp only [hi', Bool.false_eq_true, if_false, h1, h2, hd, if_true, Bool.true_and]
          · have hd' : isDefault d a v = false := by simpa using hd
            have h2 : item d ats a = some (a.name, v) := by simp only [item, hi', Bool.false_eq_true, if_false, hv, hd']
            simp only [hi', h1, h2, hd', Bool.false_eq_true, if_false, Bool.true_and]
            split <;> simp

theorem item_name (d : Decl) (ats : Attrs) (a : Arg) (p : Str × PVal) (h : item d ats a = some p) : p.1 = a.name := by
  unfold item at h
  split at h
  · simp at h
  · split at h
    · split at h
      · simp at h
      · simp at h; rw [← h]
    · simp at h

theorem nodup_map_inj {α β} (f : α → β) : ∀ l : List α, (l.map f).Nodup → ∀ a ∈ l, ∀ b ∈ l, f a = f b → a = b
  | [], _, a, ha, _, _, _ => by cases ha
  | x :: r, hn, a, ha, b, hb, h => by
    simp only [List.map_cons, List.nodup_cons, List.mem_map, not_exists, not_and] at hn
    rcases List.mem_cons.mp ha with rfl | ha' <;> rcases List.mem_cons.mp hb with rfl | hb'
    · rfl
    · exact absurd h.symm (hn.1 b hb')
    · exact absurd h (hn.1 a ha')
    · exact nodup_map_inj f r hn.2 a ha' b hb' h

/-- **the order in which `__init__` declares its arguments does not matter** -/
theorem autoRepr_arg_order (pr : Char → Bool) (cls : Str) (ignore dpd : List Str) (args args' : List Arg)
    (hp : args.Perm args') (hn : (args.map Arg.name).Nodup) (ats : Attrs) :
    autoRepr pr ⟨cls, args, ignore, dpd⟩ ats = autoRepr pr ⟨cls, args', ignore, dpd⟩ ats := by
  simp only [autoRepr, collect_eq]
  have hall : args.all (ok ⟨cls, args, ignore, dpd⟩ ats) = args'.all (ok ⟨cls, args', ignore, dpd⟩ ats) := by
    have : ok ⟨cls, args, ignore, dpd⟩ ats = ok ⟨cls, args', ignore, dpd⟩ ats := by funext a; simp [ok]
    rw [this]; exact hp.all_eq
  have hitem : item ⟨cls, args, ignore, dpd⟩ ats = item ⟨cls, args', ignore, dpd⟩ ats := by
    funext a; simp [item, isDefault]
  rw [hall, ← hitem]
  split
  · simp only [Option.map_some, textOf, sortItems]
    have hpf := hp.filterMap (item ⟨cls, args, ignore, dpd⟩ ats)
    rw [isort_key_perm (fun kv : Str × PVal => kv.1) _ _ hpf]
    intro p q hp' hq' hk
    obtain ⟨a, ha, hia⟩ := List.mem_filterMap.mp hp'
    obtain ⟨b, hb, hib⟩ := List.mem_filterMap.mp hq'
    have hab : a.name = b.name := by rw [← item_name _ _ a p hia, ← item_name _ _ b q hib]; exact hk
    have : a = b := nodup_map_inj Arg.name args hn a ha b hb hab
    subst this
    rw [hia] at hib
    exact Option.some.inj hib
  · rfl

/-! ## values substituted for placeholders -/

mutual
theorem pyReprV_erase (pr : Char → Bool) : ∀ v : PVal, pyReprV pr (erase v) = pyReprV pr v
  | .atom _ => rfl
  | .str _ => rfl
  | .rstr _ _ => rfl
  | .obj _ => rfl
  | .list xs => by simp only [erase, pyReprV, pyReprL_erase pr xs]
  | .dict kvs => by simp only [erase, pyReprV, pyReprD_erase pr kvs]
theorem pyReprL_erase (pr : Char → Bool) : ∀ xs : List PVal, pyReprL pr (eraseL xs) = pyReprL pr xs
  | [] => rfl
  | x :: r => by simp only [eraseL, pyReprL, pyReprV_erase pr x, pyReprLT_erase pr r]
theorem pyReprLT_erase (pr : Char → Bool) : ∀ xs : List PVal, pyReprLT pr (eraseL xs) = pyReprLT pr xs
  | [] => rfl
  | x :: r => by simp only [eraseL, pyReprLT, pyReprV_erase pr x, pyReprLT_erase pr r]
theorem pyReprD_erase (pr : Char → Bool) : ∀ kvs : List (Str × PVal), pyReprD pr (eraseD kvs) = pyReprD pr kvs
  | [] => rfl
  | (k, v) :: r => by simp only [eraseD, pyReprD, pyReprV_erase pr v, pyReprDT_erase pr r]
theorem pyReprDT_erase (pr : Char → Bool) : ∀ kvs : List (Str × PVal), pyReprDT pr (eraseD kvs) = pyReprDT pr kvs
  | [] => rfl
  | (k, v) :: r => by simp only [eraseD, pyReprDT, pyReprV_erase pr v, pyReprDT_erase pr r]
end

def eraseA : AVal → AVal
  | .plain v => .plain (erase v)
  | .ignored => .ignored

def eraseAts (ats : Attrs) : Attrs := ats.map (fun kv => (kv.1, eraseA kv.2))

theorem lookup_eraseAts (k : Str) : ∀ ats : Attrs, lookup k (eraseAts ats) = (lookup k ats).map eraseA
  | [] => rfl
  | (k', v) :: r => by
    simp only [eraseAts, List.map_cons, lookup]
    split
    · rfl
    · exact lookup_eraseAts k r

theorem argValue_eraseAts (ats : Attrs) (a : Str) : argValue (eraseAts ats) a = (argValue ats a).map eraseA := by
  simp only [argValue, lookup_eraseAts]
  cases lookup ('_' :: a) ats <;> simp

def eraseKvs (kvs : List (Str × PVal)) : List (Str × PVal) := kvs.map (fun kv => (kv.1, erase kv.2))

theorem collect_eraseAts (d : Decl) (hd : d.dpd = []) (ats : Attrs) :
    ∀ args : List Arg, collect d (eraseAts ats) args = (collect d ats args).map eraseKvs
  | [] => rfl
  | a :: r => by
    have hdef : ∀ v, isDefault d a v = false := by intro v; simp [isDefault, hd]
    simp only [collect, argValue_eraseAts, collect_eraseAts d hd ats r]
    cases d.ignore.contains a.name with
    | true => simp
    | false =>
      simp only [Bool.false_eq_true, if_false]
      cases argValue ats a.name with
      | none => rfl
      | some v =>
        cases v with
        | ignored => rfl
        | plain v =>
          simp only [Option.map_some, eraseA, hdef, Bool.false_eq_true, if_false]
          cases collect d ats r <;> simp [eraseKvs]

theorem insertBy_map_val (x : Str × PVal) : ∀ l : List (Str × PVal),
    insertBy (fun a b => strLe a.1 b.1) (x.1, erase x.2) (eraseKvs l) = eraseKvs (insertBy (fun a b => strLe a.1 b.1) x l)
  | [] => rfl
  | y :: ys => by
    simp only [eraseKvs, List.map_cons, insertBy]
    split
    · rfl
    · simp only [List.map_cons]
      congr 1
      exact insertBy_map_val x ys

theorem sortItems_eraseKvs : ∀ kvs : List (Str × PVal), sortItems (eraseKvs kvs) = eraseKvs (sortItems kvs)
  | [] => rfl
  | x :: r => by
    simp only [sortItems, eraseKvs, List.map_cons, isort] at *
    have := sortItems_eraseKvs r
    simp only [sortItems, eraseKvs] at this
    rw [this]
    exact insertBy_map_val x _

theorem textOf_eraseKvs (pr : Char → Bool) (cls : Str) (kvs : List (Str × PVal)) :
    textOf pr cls (eraseKvs kvs) = textOf pr cls kvs := by
  simp only [textOf, sortItems_eraseKvs]
  have : (eraseKvs (sortItems kvs)).map (argText pr) = (sortItems kvs).map (argText pr) := by
    simp only [eraseKvs, List.map_map]
    apply List.map_congr_left
    intro kv _
    simp [argText, pyReprV_erase]
  rw [this]

/-- **what is substituted for placeholders inside the arguments does not matter** (objects without
default-dependent arguments: the comparison `value == default` of `dont_persist_default_value_args` looks at the
substituted text — that corner is excluded by `hd` and stays unproved) -/
theorem autoRepr_subst_irrelevant_partial (pr : Char → Bool) (d : Decl) (hd : d.dpd = []) (ats ats' : Attrs)
    (h : eraseAts ats = eraseAts ats') : autoRepr pr d ats = autoRepr pr d ats' := by
  have e : ∀ a : Attrs, autoRepr pr d (eraseAts a) = autoRepr pr d a := by
    intro a
    simp only [autoRepr, collect_eraseAts d hd a d.args, Option.map_map]
    cases collect d a d.args with
    | none => rfl
    | some kvs => simp [textOf_eraseKvs]
  rw [← e ats, ← e ats', h]

/-! ## non-vacuity -/

def exDecl : Decl := ⟨"Store".toList, [⟨"root".toList, none⟩, ⟨"shards".toList, some (.atom "4".toList)⟩, ⟨"verbose".toList, none⟩],
  ["verbose".toList, "debug".toList], []⟩
def exAts (mount : String) : Attrs :=
  [("_root".toList, .plain (.rstr (mount ++ "/corpus").toList "{MOUNT}/corpus".toList)), ("shards".toList, .plain (.atom "8".toList)),
   ("root".toList, .plain (.obj ("PosixPath('" ++ mount ++ "/corpus')").toList))]

example : autoRepr (fun _ => true) exDecl (exAts "/srv") = some "Store(root='{MOUNT}/corpus', shards=8)".toList := by decide
example : autoRepr (fun _ => true) exDecl (exAts "/srv") = autoRepr (fun _ => true) exDecl (exAts "/home/me") := by decide
/-- the lookup order matters: preferring the public attribute would print the derived, mount-dependent value -/
example : autoRepr (fun _ => true) exDecl [("shards".toList, .plain (.atom "8".toList))] = none := by decide

end TCV.C02Auto
