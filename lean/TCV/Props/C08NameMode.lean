import TCV.Model.BuildNM
/-!
# C08 in name mode — the explicit acyclicity test

`Chain._build_graph` refuses a chain whose task objects do not form a DAG (`nx.is_directed_acyclic_graph`).  The model's
test peels source nodes: `isDAG_iff_rank` shows it accepts exactly the graphs that have a rank function strictly increasing
along every edge — i.e. exactly the acyclic ones — and `nm_chain_acyclic` lifts that to every chain `BuildNM.build` returns.
-/
namespace TCV.C08
open TCV TCV.Config TCV.Build TCV.BuildNM

theorem stuck_sub (edges : List (Nat × Nat)) (alive : List Nat) : ∀ n ∈ stuck edges alive, n ∈ alive := by
  intro n hn
  exact (List.mem_filter.mp hn).1

theorem edge_target_stuck (edges : List (Nat × Nat)) (alive : List Nat) (e : Nat × Nat) (he : e ∈ edges)
    (h1 : e.1 ∈ alive) (h2 : e.2 ∈ alive) : e.2 ∈ stuck edges alive := by
  refine List.mem_filter.mpr ⟨h2, ?_⟩
  simp only [List.any_eq_true, Bool.and_eq_true, beq_iff_eq, List.contains_iff_mem]
  exact ⟨e, he, rfl, h1⟩

/-- soundness of peeling: if everything can be peeled away there is a rank function increasing along every edge -/
theorem peel_rank (edges : List (Nat × Nat)) : ∀ (k : Nat) (alive : List Nat), peel edges k alive = [] →
    ∃ rank : Nat → Nat, ∀ e ∈ edges, e.1 ∈ alive → e.2 ∈ alive → rank e.1 < rank e.2
  | 0, alive, h => by
    simp only [peel] at h
    subst h
    exact ⟨fun _ => 0, fun e _ h1 => by simp at h1⟩
  | k + 1, alive, h => by
    simp only [peel] at h
    obtain ⟨rank', hr⟩ := peel_rank edges k (stuck edges alive) h
    refine ⟨fun n => if n ∈ stuck edges alive then rank' n + 1 else 0, ?_⟩
    intro e he h1 h2
    have hb := edge_target_stuck edges alive e he h1 h2
    simp only [hb, if_true]
    by_cases ha : e.1 ∈ stuck edges alive
    · simp only [ha, if_true]
      exact Nat.succ_lt_succ (hr e he ha hb)
    · simp only [ha, if_false]
      exact Nat.succ_pos _

theorem peel_nil (edges : List (Nat × Nat)) : ∀ k, peel edges k [] = []
  | 0 => rfl
  | k + 1 => by simp [peel, stuck, peel_nil edges k]

/-- completeness: with a rank function increasing along the edges, as many rounds as there are nodes peel everything -/
theorem rank_peel (edges : List (Nat × Nat)) (rank : Nat → Nat) : ∀ (k : Nat) (alive : List Nat), alive.length ≤ k →
    (∀ e ∈ edges, e.1 ∈ alive → e.2 ∈ alive → rank e.1 < rank e.2) → peel edges k alive = []
  | 0, alive, hk, _ => by
    have : alive = [] := List.eq_nil_of_length_eq_zero (Nat.le_zero.mp hk)
    simp [peel, this]
  | k + 1, alive, hk, hr => by
    simp only [peel]
    by_cases hne : alive = []
    · subst hne; simp [stuck, peel_nil]
    · -- some alive node is not stuck: otherwise ranks would descend for ever
      have hex : ∃ x ∈ alive, x ∉ stuck edges alive := by
        apply Classical.byContradiction
        intro hall
        have hall' : ∀ x ∈ alive, x ∈ stuck edges alive := by
          intro x hx
          apply Classical.byContradiction
          intro hn
          exact hall ⟨x, hx, hn⟩
        have hdesc : ∀ r, ∀ n ∈ alive, rank n = r → False := by
          intro r
          induction r using Nat.strongRecOn with
          | _ r ih =>
            intro n hn hrn
            have hs := hall' n hn
            have := (List.mem_filter.mp hs).2
            simp only [List.any_eq_true, Bool.and_eq_true, beq_iff_eq, List.contains_iff_mem] at this
            obtain ⟨e, he, he2, he1⟩ := this
            have hlt := hr e he he1 (he2 ▸ hn)
            rw [he2, hrn] at hlt
            exact ih (rank e.1) hlt e.1 he1 rfl
        obtain ⟨x, hx⟩ := List.exists_mem_of_ne_nil alive hne
        exact hdesc (rank x) x hx rfl
      have hlt : (stuck edges alive).length < alive.length := by
        unfold stuck
        apply List.length_filter_lt_length_iff_exists.mpr
        obtain ⟨x, hx, hns⟩ := hex
        refine ⟨x, hx, ?_⟩
        intro hp
        exact hns (List.mem_filter.mpr ⟨hx, hp⟩)
      apply rank_peel edges rank k (stuck edges alive) (by omega)
      intro e he h1 h2
      exact hr e he (stuck_sub edges alive _ h1) (stuck_sub edges alive _ h2)

/-- **the acyclicity test accepts exactly the graphs with a topological rank** -/
theorem isDAG_iff_rank (nodes : List Nat) (edges : List (Nat × Nat)) :
    isDAG nodes edges = true ↔ ∃ rank : Nat → Nat, ∀ e ∈ edges, e.1 ∈ nodes → e.2 ∈ nodes → rank e.1 < rank e.2 := by
  unfold isDAG
  rw [List.isEmpty_iff]
  constructor
  · exact peel_rank edges nodes.length nodes
  · rintro ⟨rank, hr⟩
    exact rank_peel edges rank nodes.length nodes (Nat.le_refl _) hr

/-- a graph with a cycle is refused: a self-loop, or any closed walk -/
theorem isDAG_no_self_loop (nodes : List Nat) (edges : List (Nat × Nat)) (n : Nat) (hn : n ∈ nodes) (he : (n, n) ∈ edges) :
    isDAG nodes edges = false := by
  cases h : isDAG nodes edges with
  | false => rfl
  | true =>
    obtain ⟨rank, hr⟩ := (isDAG_iff_rank nodes edges).mp h
    exact absurd (hr (n, n) he hn hn) (Nat.lt_irrefl _)

/-- a walk along edges inside the node set -/
def Walk (nodes : List Nat) (edges : List (Nat × Nat)) : List Nat → Prop
  | [] => True
  | [a] => a ∈ nodes
  | a :: b :: r => a ∈ nodes ∧ (a, b) ∈ edges ∧ Walk nodes edges (b :: r)

theorem walk_rank (nodes : List Nat) (edges : List (Nat × Nat)) (rank : Nat → Nat)
    (hr : ∀ e ∈ edges, e.1 ∈ nodes → e.2 ∈ nodes → rank e.1 < rank e.2) :
    ∀ (l : List Nat) (a : Nat), Walk nodes edges (a :: l) → ∀ y ∈ l, rank a < rank y
  | [], _, _, y, hy => by simp at hy
  | b :: l, a, h, y, hy => by
    obtain ⟨ha, hab, hw⟩ := h
    have hb : b ∈ nodes := by
      cases l with
      | nil => exact hw
      | cons c l => exact hw.1
    have h1 := hr (a, b) hab ha hb
    rcases List.mem_cons.mp hy with rfl | hy
    · exact h1
    · exact Nat.lt_trans h1 (walk_rank nodes edges rank hr l b hw y hy)

theorem isDAG_no_closed_walk (nodes : List Nat) (edges : List (Nat × Nat)) (x : Nat) (l : List Nat)
    (hw : Walk nodes edges (x :: l ++ [x])) : isDAG nodes edges = false := by
  cases h : isDAG nodes edges with
  | false => rfl
  | true =>
    obtain ⟨rank, hr⟩ := (isDAG_iff_rank nodes edges).mp h
    have := walk_rank nodes edges rank hr (l ++ [x]) x (by simpa using hw) x (by simp)
    exact absurd this (Nat.lt_irrefl _)

/-- **every chain returned in name mode is acyclic**: its task objects can be ranked so that every input edge goes
from a lower to a higher rank — otherwise construction fails (`Chain is not acyclic`) -/
theorem nm_chain_acyclic (fs : FS) (cfs : CtxFS) (classes : Classes) (main : Str) (mainNs : Option Str) (ctxSrc : Option CtxSrc)
    (reg : BuildNM.Registry) (next cfgBase fuel : Nat) (c : BuildNM.Chain)
    (h : BuildNM.build fs cfs classes main mainNs ctxSrc reg next cfgBase fuel = .ok c) :
    ∃ rank : Nat → Nat, ∀ e ∈ edgesOf c.tasks, e.1 ∈ c.tasks.map (·.obj.id) → e.2 ∈ c.tasks.map (·.obj.id) → rank e.1 < rank e.2 := by
  unfold BuildNM.build at h
  simp only [bind, Except.bind, pure, Except.pure] at h
  repeat' split at h
  all_goals first | cases h | skip
  all_goals
    rename_i hdag
    obtain ⟨rank, hr⟩ := (isDAG_iff_rank _ _).mp hdag
    refine ⟨rank, ?_⟩
    intro e he h1 h2
    exact hr e he (List.mem_eraseDups.mpr h1) (List.mem_eraseDups.mpr h2)

/-- non-vacuity and the failing side: two tasks that need each other are refused in name mode as well -/
example : BuildNM.build
      [("p".toList, .single { data := [], tasks := ["K0".toList, "K1".toList], excluded := [], uses := [] })]
      [] [("K0".toList, { cid := "K0".toList, slug := "p1".toList, params := [], inputs := [{ ref := .byClass "K1".toList }] }),
          ("K1".toList, { cid := "K1".toList, slug := "p2".toList, params := [], inputs := [{ ref := .byClass "K0".toList }] })]
      "p".toList none none [] 0 0 8 = .error .tooDeep := by
  rfl

example : (BuildNM.build
      [("p.json".toList, .single { data := [], tasks := ["K0".toList, "K1".toList], excluded := [], uses := [] }),
       ("c1.json".toList, .single { data := [], tasks := [], excluded := [], uses := ["p.json as a".toList, "p.json as b".toList] })]
      [] [("K0".toList, { cid := "K0".toList, slug := "p1".toList, params := [], inputs := [] }),
          ("K1".toList, { cid := "K1".toList, slug := "p2".toList, params := [], inputs := [{ ref := .byClass "K0".toList }] })]
      "c1.json".toList none none [] 0 0 8).toOption.map (fun c => c.tasks.map (fun t => (t.full, t.obj.id, t.obj.cfgName))) =
    some [("a::p1".toList, 0, "p".toList), ("a::p2".toList, 1, "p".toList), ("b::p1".toList, 0, "p".toList), ("b::p2".toList, 1, "p".toList)] := by
  decide

end TCV.C08
