import TCV.Props.C20Modes
/-!
# C12 in name mode — the storage key is the name of a config of the chain

`Config.get_name_for_persistence` returns the config's name; in name mode (`BuildNM`) every task object of a standalone
chain was created with one of the chain's configs, so its key is that config's name (`file stem`, or `stem#part`) and its
namespace is that config's namespace.
-/
namespace TCV.C12
open TCV TCV.Config TCV.Build TCV.BuildNM

/-- the object was created with config number `o.cfgId - base` of `cfgs` -/
def FromCfgN (cfgs : List Cfg) (base : Nat) (o : Obj) : Prop :=
  ∃ j cfg, cfgs[j]? = some cfg ∧ o.cfgId = base + j ∧ o.cfgName = cfg.name ∧ o.ns = cfg.ns

def StOK (cfgs : List Cfg) (base : Nat) (st : St) : Prop :=
  (∀ p ∈ st.tasks, FromCfgN cfgs base p.2) ∧ (∀ e ∈ st.reg, FromCfgN cfgs base e.2)

theorem regGet_mem (k : Str × Str) : ∀ (reg : BuildNM.Registry) (o : Obj), BuildNM.regGet k reg = some o → ∃ e, e ∈ reg ∧ e.2 = o
  | [], o, h => by simp [BuildNM.regGet] at h
  | (k', v) :: r, o, h => by
    simp only [BuildNM.regGet] at h
    split at h
    · cases h; exact ⟨(k', v), List.mem_cons_self .., rfl⟩
    · obtain ⟨e, he, h2⟩ := regGet_mem k r o h
      exact ⟨e, List.mem_cons_of_mem _ he, h2⟩

theorem register_mem (name : Str) (o : Obj) : ∀ (ts ts' : List (Str × Obj)), BuildNM.register name o ts = .ok ts' →
    ∀ p ∈ ts', p.2 = o ∨ p ∈ ts
  | [], ts', h, p, hp => by
    simp only [BuildNM.register] at h; cases h
    simp at hp; subst hp; exact Or.inl rfl
  | (n, u) :: r, ts', h, p, hp => by
    simp only [BuildNM.register] at h
    split at h
    · split at h
      · cases h
        rcases List.mem_cons.mp hp with rfl | hp
        · exact Or.inl rfl
        · exact Or.inr (List.mem_cons_of_mem _ hp)
      · cases h
    · cases hr : BuildNM.register name o r with
      | error e => rw [hr] at h; cases h
      | ok r' =>
        rw [hr] at h; cases h
        rcases List.mem_cons.mp hp with rfl | hp
        · exact Or.inr (List.mem_cons_self ..)
        · rcases register_mem name o r r' hr p hp with h1 | h1
          · exact Or.inl h1
          · exact Or.inr (List.mem_cons_of_mem _ h1)

theorem addTasks_ok (classes : Classes) (cfgs : List Cfg) (base j : Nat) (cfg : Cfg) (hj : cfgs[j]? = some cfg) :
    ∀ (todo : List Str) (st st' : St), BuildNM.addTasks classes cfg (base + j) todo st = .ok st' → StOK cfgs base st → StOK cfgs base st'
  | [], st, st', h, hs => by simp only [BuildNM.addTasks] at h; cases h; exact hs
  | cid :: rest, st, st', h, hs => by
    simp only [BuildNM.addTasks] at h
    cases hc : get? cid classes with
    | none => rw [hc] at h; cases h
    | some c =>
      rw [hc] at h
      simp only at h
      split at h
      · exact addTasks_ok classes cfgs base j cfg hj rest st st' h hs
      · cases hp : setParams c.params cfg.data with
        | error e => rw [hp] at h; cases h
        | ok ps =>
          rw [hp] at h
          simp only at h
          split at h
          · cases h
          next ts hreg =>
            refine addTasks_ok classes cfgs base j cfg hj rest _ st' h ?_
            -- the object registered: from the registry, or a new one created with this config
            cases hg : BuildNM.regGet (c.slug, reprNameNoNs cfg) st.reg with
            | some o =>
              simp only [hg] at hreg ⊢
              obtain ⟨e, he, heo⟩ := regGet_mem _ st.reg o hg
              have ho : FromCfgN cfgs base o := heo ▸ hs.2 e he
              constructor
              · intro p hp
                rcases register_mem _ _ st.tasks ts hreg p hp with h1 | h1
                · rw [h1]; exact ho
                · exact hs.1 p h1
              · exact hs.2
            | none =>
              simp only [hg] at hreg ⊢
              have ho : FromCfgN cfgs base { id := st.next, cfgId := base + j, cid := cid, slug := c.slug, ns := cfg.ns, params := ps, cfgName := cfg.name } :=
                ⟨j, cfg, hj, rfl, rfl, rfl⟩
              constructor
              · intro p hp
                rcases register_mem _ _ st.tasks ts hreg p hp with h1 | h1
                · rw [h1]; exact ho
                · exact hs.1 p h1
              · intro e he
                rcases List.mem_append.mp he with h1 | h1
                · exact hs.2 e h1
                · simp only [List.mem_singleton] at h1; subst h1; exact ho

theorem createTasksFrom_ok (classes : Classes) (all : List Cfg) (base : Nat) : ∀ (rest : List Cfg) (j : Nat) (st st' : St),
    all.drop j = rest → BuildNM.createTasksFrom classes rest (base + j) st = .ok st' → StOK all base st → StOK all base st'
  | [], j, st, st', _, h, hs => by simp only [BuildNM.createTasksFrom] at h; cases h; exact hs
  | cfg :: rest, j, st, st', hd, h, hs => by
    simp only [BuildNM.createTasksFrom] at h
    have hj : all[j]? = some cfg := by
      have := congrArg (fun l => l[0]?) hd
      simpa using this
    have hd' : all.drop (j + 1) = rest := by
      have := congrArg List.tail hd
      simpa using this
    cases ha : BuildNM.addTasks classes cfg (base + j) cfg.tasks st with
    | error e => rw [ha] at h; cases h
    | ok st1 =>
      rw [ha] at h
      simp only at h
      exact createTasksFrom_ok classes all base rest (j + 1) st1 st' hd' (by simpa [Nat.add_assoc] using h)
        (addTasks_ok classes all base j cfg hj cfg.tasks st st1 ha hs)

theorem createTasksFrom_ok0 (classes : Classes) (cfgs : List Cfg) (base next : Nat) (st' : St)
    (h : BuildNM.createTasksFrom classes cfgs base { tasks := [], reg := [], next := next } = .ok st') : StOK cfgs base st' :=
  createTasksFrom_ok classes cfgs base cfgs 0 _ st' (by simp) (by simpa using h) ⟨by simp, by simp⟩

/-- **name mode: the storage key of every task of a standalone chain is the name of one of the chain's configs**, and the task
lives in that config's namespace -/
theorem nm_key_is_config_name (fs : FS) (cfs : CtxFS) (classes : Classes) (main : Str) (mainNs : Option Str) (ctxSrc : Option CtxSrc)
    (next cfgBase fuel : Nat) (c : BuildNM.Chain)
    (h : BuildNM.build fs cfs classes main mainNs ctxSrc [] next cfgBase fuel = .ok c) :
    ∃ ctx cfg cfgs, loadCfg fs ctx main mainNs = .ok cfg ∧ processConfig fs ctx fuel cfg [] = .ok cfgs ∧
      ∀ t ∈ c.tasks, ∃ cfg' ∈ cfgs, t.obj.cfgName = cfg'.name ∧ t.obj.ns = cfg'.ns := by
  unfold BuildNM.build at h
  simp only [bind, Except.bind, pure, Except.pure] at h
  repeat' split at h
  all_goals first | cases h | skip
  all_goals
    rename_i hst _ _ _ _
    refine ⟨_, _, _, by assumption, by assumption, ?_⟩
    intro t ht
    have hok := createTasksFrom_ok0 _ _ _ _ _ hst
    obtain ⟨p, hp, rfl⟩ := List.mem_map.mp ht
    obtain ⟨j, cfg', hj, _, h3, h4⟩ := hok.1 p hp
    exact ⟨cfg', List.mem_of_getElem? hj, h3, h4⟩

end TCV.C12
