import TCV.Model.Key
/-!
# C01 and the key scheme: finding K3 in the model

`dont_persist_default_value` drops a parameter from the key text when `value == default` in Python's sense, which
conflates `False`/`0`, `True`/`1`/`1.0`, `0`/`-0.0`.  Two configurations that differ only in such a value get the same
location although the task computes different things from them — the hypothesis `LocDeterminesComp` of `history_sound` fails
on this class (K3), and on K1 (C03).  Outside both classes it is discharged by `C03.merkle`.
-/
namespace TCV.C01
open TCV TCV.PVal TCV.Key

/-- K3 witness: a flag with default `0` declared `dont_persist_default_value`; the values `False` and `0` give the same
registry text (both are "the default"), so the same key and location, although the task receives different values -/
theorem k3_default_conflation (pr : Char → Bool) :
    registryRepr pr [{ name := "flag".toList, value := .atom "False".toList, default := some (.atom "0".toList), ignore := false, dpd := true }]
      = registryRepr pr [{ name := "flag".toList, value := .atom "0".toList, default := some (.atom "0".toList), ignore := false, dpd := true }]
    ∧ PVal.atom "False".toList ≠ PVal.atom "0".toList := by
  constructor
  · rfl
  · simp

/-- outside the class — the value equals the default only when it *is* the default — a persisted difference shows in the text:
with a strict default test the two parameters above differ in the registry text -/
theorem strict_values_differ (pr : Char → Bool) :
    registryRepr pr [{ name := "flag".toList, value := .atom "False".toList, default := some (.atom "0".toList), ignore := false, dpd := false }]
      ≠ registryRepr pr [{ name := "flag".toList, value := .atom "0".toList, default := some (.atom "0".toList), ignore := false, dpd := false }] := by
  simp [registryRepr, isort, insertBy, paramRepr, valueRepr, reprInst, canon, reprRaw, joinHash]

end TCV.C01
