import TCV.Lemmas.Config
/-!
# C13 — a MultiChain is its chains, sharing identical tasks

The registry of a (Multi)Chain maps `(task name, key)` to task objects.  `assign` is
`Chain._create_task` with a registry.  For every sequence of assignments (any number of chains, any
tasks): two tasks are the same object **iff** they have the same `(slug, key)`, i.e. — with C03 — iff
they are the same computation.

Finding K6 (the full "same as standalone" statement is false): the second dependency pass resolves the
inputs of a shared object in the namespace of the chain that created it; the negation is proved on the
witness `p.json as a` / `p.json as b`.
-/
namespace TCV.C13
open TCV TCV.Config TCV.Build

/-- registry invariant: ids are below `next`, and different keys have different ids -/
def RegOK (reg : Registry) (next : Nat) : Prop :=
  (∀ k v, regGet k reg = some v → v.1 < next) ∧
  (∀ k1 k2 v1 v2, regGet k1 reg = some v1 → regGet k2 reg = some v2 → v1.1 = v2.1 → k1 = k2)

theorem regOK_empty : RegOK [] 0 := by
  constructor <;> intro k <;> simp [regGet]

theorem regGet_append_miss (k : Str × Str) (v) : ∀ (reg : Registry) (k' : Str × Str),
    regGet k' (reg ++ [(k, v)]) = match regGet k' reg with
      | some w => some w
      | none => if k.1 == k'.1 && k.2 == k'.2 then some v else none
  | [], k' => by simp [regGet]
  | (k0, v0) :: r, k' => by
    simp only [List.cons_append, regGet]
    split
    · rfl
    · exact regGet_append_miss k v r k'

theorem key_eq_of_beq (k k' : Str × Str) (h : (k.1 == k'.1 && k.2 == k'.2) = true) : k = k' := by
  simp only [Bool.and_eq_true, beq_iff_eq] at h
  exact Prod.ext h.1 h.2

/-- one assignment: the invariant is kept, earlier entries are kept, and the key now maps to the returned id -/
theorem assign_spec (reg : Registry) (next : Nat) (k : Str × Str) (ns : Option Str) (ps : List (Str × PVal))
    (h : RegOK reg next) :
    let r := assign reg next k ns ps
    RegOK r.2.2.2.1 r.2.2.2.2.1 ∧
    (∃ v, regGet k r.2.2.2.1 = some v ∧ v.1 = r.1) ∧
    (∀ k' v, regGet k' reg = some v → regGet k' r.2.2.2.1 = some v) ∧
    next ≤ r.2.2.2.2.1 := by
  unfold assign
  cases hg : regGet k reg with
  | some v =>
    obtain ⟨o, ons, ops, ocid⟩ := v
    exact ⟨h, ⟨_, hg, rfl⟩, fun _ _ hx => hx, Nat.le_refl _⟩
  | none =>
    refine ⟨⟨?_, ?_⟩, ?_, ?_, Nat.le_succ _⟩
    · intro k' v hv
      rw [regGet_append_miss] at hv
      cases hk : regGet k' reg with
      | some w => simp only [hk] at hv; cases hv; exact Nat.lt_succ_of_lt (h.1 k' _ hk)
      | none =>
        simp only [hk] at hv
        split at hv
        · cases hv; exact Nat.lt_succ_self _
        · cases hv
    · intro k1 k2 v1 v2 h1 h2 he
      rw [regGet_append_miss] at h1 h2
      cases hk1 : regGet k1 reg with
      | some w1 =>
        simp only [hk1] at h1; cases h1
        cases hk2 : regGet k2 reg with
        | some w2 => simp only [hk2] at h2; cases h2; exact h.2 k1 k2 _ _ hk1 hk2 he
        | none =>
          simp only [hk2] at h2
          split at h2
          · cases h2
            have := h.1 k1 _ hk1
            simp only at he; omega
          · cases h2
      | none =>
        simp only [hk1] at h1
        split at h1
        · rename_i hb1
          cases h1
          cases hk2 : regGet k2 reg with
          | some w2 =>
            simp only [hk2] at h2; cases h2
            have := h.1 k2 _ hk2
            simp only at he; omega
          | none =>
            simp only [hk2] at h2
            split at h2
            · rename_i hb2
              rw [← key_eq_of_beq _ _ hb1, ← key_eq_of_beq _ _ hb2]
            · cases h2
        · cases h1
    · refine ⟨(next, ns, ps, []), ?_, rfl⟩
      rw [regGet_append_miss, hg]
      simp
    · intro k' v hv
      rw [regGet_append_miss, hv]

/-- **objects are shared iff same (task name, key)** — in any registry reachable by assignments -/
theorem shared_iff_same_loc (reg : Registry) (next : Nat) (h : RegOK reg next)
    (k1 k2 : Str × Str) (v1 v2) (h1 : regGet k1 reg = some v1) (h2 : regGet k2 reg = some v2) :
    v1.1 = v2.1 ↔ k1 = k2 := by
  constructor
  · exact h.2 k1 k2 v1 v2 h1 h2
  · intro he; subst he; rw [h1] at h2; cases h2; rfl

/-- the invariant holds after any sequence of assignments starting from the empty registry -/
theorem regOK_after (ks : List ((Str × Str) × Option Str × List (Str × PVal))) :
    ∀ (reg : Registry) (next : Nat), RegOK reg next →
      RegOK (ks.foldl (fun (s : Registry × Nat) k => let r := assign s.1 s.2 k.1 k.2.1 k.2.2; (r.2.2.2.1, r.2.2.2.2.1)) (reg, next)).1
            (ks.foldl (fun (s : Registry × Nat) k => let r := assign s.1 s.2 k.1 k.2.1 k.2.2; (r.2.2.2.1, r.2.2.2.2.1)) (reg, next)).2 := by
  induction ks with
  | nil => intro reg next h; exact h
  | cons k ks ih =>
    intro reg next h
    simp only [List.foldl_cons]
    exact ih _ _ (assign_spec reg next k.1 k.2.1 k.2.2 h).1

/-! ### K6: the full statement is false -/

def k6Classes : Classes :=
  [("K0".toList, { cid := "K0".toList, slug := "p1".toList, params := [], inputs := [] }),
   ("K1".toList, { cid := "K1".toList, slug := "p2".toList, params := [], inputs := [{ ref := .byClass "K0".toList }] })]
def k6FS : FS :=
  [("p".toList, .single { data := [], tasks := ["K0".toList, "K1".toList], excluded := [], uses := [] }),
   ("c1.json".toList, .single { data := [], tasks := [], excluded := [], uses := ["p as a".toList] }),
   ("c2.json".toList, .single { data := [], tasks := [], excluded := [], uses := ["p as b".toList] })]

/-- every member config builds standalone … -/
theorem k6_standalone_ok :
    (build id (fun _ => true) k6FS [] k6Classes "c1.json".toList none none [] 0 8).toOption.isSome = true ∧
    (build id (fun _ => true) k6FS [] k6Classes "c2.json".toList none none [] 0 8).toOption.isSome = true := by
  constructor <;> rfl

/-- … but the MultiChain of the two does not (finding K6) -/
theorem k6_multichain_fails :
    buildMulti id (fun _ => true) k6FS [] k6Classes [("c1.json".toList, none), ("c2.json".toList, none)] 8 = .error .missingInput := by
  rfl

/-- with the same namespace in both configs the MultiChain builds and shares both objects -/
example :
    (buildMulti id (fun _ => true)
      [("p".toList, .single { data := [], tasks := ["K0".toList, "K1".toList], excluded := [], uses := [] }),
       ("c1.json".toList, .single { data := [], tasks := [], excluded := [], uses := ["p as a".toList] }),
       ("c2.json".toList, .single { data := [], tasks := [], excluded := [], uses := ["p as a".toList] })]
      [] k6Classes [("c1.json".toList, none), ("c2.json".toList, none)] 8).toOption.map
        (fun cs => cs.map (fun c => c.tasks.map (·.objId))) = some [[0, 1], [0, 1]] := by
  rfl

end TCV.C13
