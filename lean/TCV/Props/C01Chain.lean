import TCV.Props.C08Chain
import TCV.Props.C01Link
/-!
# C01 — the chains the builder returns are well-formed chains of `C01Link`

`C01Link.same_key_same_computation` speaks about `WFChain`s: lists of tasks in which every input refers to an earlier task
and every key is the key function of the task's persisted parameters and of its inputs' keys.  Until now `WFChain` was
*evaluated* by the driver on every chain extracted from the real code.  Here the structural half is *proved* of the builder
model: for every chain `Build.build` returns — from any class table, config tree, context and registry —

* every input task was created, and keyed, earlier (`inputsFound`),
* the key is the key function of the declared parameters, with the values of the declaring config, and of those keys (`keyOK`),
* the input names of a task are pairwise different (`relDistinct`),

so that only the *value-level* side conditions remain as hypothesis `TaskOK` (decidable on the chain: no `'` in persisted
strings — the complement of finding K1 —, no `Path`-typed persisted parameter, no `=` in a task name, input names carrying the
namespace prefix).  `built_chains_same_key_same_computation` then is `same_key_same_computation` for any two built chains.
-/
namespace TCV.C01
open TCV TCV.Config TCV.Build TCV.Key TCV.PVal TCV.C08 TCV.C03

/-- the declared parameters of the class a task was created from -/
def declsOf (classes : Classes) (t : Task2) : List ParamDecl := ((get? t.cid classes).map (·.params)).getD []

/-- what matters of a created task for persistence -/
def toK (classes : Classes) (t : Task2) : KTask :=
  { full := t.full, ns := t.ns, kparams := toKeyParams (declsOf classes t) t.params,
    inputs := t.inputs.filterMap (fun kv => match kv.2 with
      | .task f => some (stripNs t.ns kv.1, f)
      | .dflt _ => none),
    key := t.key }

def kk (t : Task2) : Str × Str := (t.full, t.key)

/-- value-level side conditions on one task of a built chain (all decidable) -/
structure TaskOK (pr : Char → Bool) (classes : Classes) (t : Task2) : Prop where
  /-- the names under which inputs are filed carry the task's namespace prefix (what `lookupName` establishes) -/
  qualified : ∀ kv ∈ t.inputs, qualify t.ns (stripNs t.ns kv.1) = kv.1
  noEq : ∀ kv ∈ t.inputs, ∀ ch ∈ stripNs t.ns kv.1, ch ≠ '='
  noPath : ∀ p ∈ toKeyParams (declsOf classes t) t.params, p.isPath = false
  paramsOK : ParamsOK (persistedView pr (toKeyParams (declsOf classes t) t.params))

theorem lookupA_kk (f : Str) : ∀ (pre : List Task2),
    lookupA f (pre.map kk) = (pre.find? (fun t => t.full == f)).map (·.key)
  | [] => rfl
  | a :: pre => by
    simp only [List.map_cons, kk, lookupA, List.find?_cons]
    cases h : a.full == f
    · simp only [Bool.false_eq_true, if_false]; exact lookupA_kk f pre
    · simp

theorem filterMap_congr' {α β} (f g : α → Option β) : ∀ (l : List α), (∀ a ∈ l, f a = g a) → l.filterMap f = l.filterMap g
  | [], _ => rfl
  | a :: l, h => by
    simp only [List.filterMap_cons, h a (List.mem_cons_self ..)]
    rw [filterMap_congr' f g l (fun b hb => h b (List.mem_cons_of_mem _ hb))]

/-! ### the keys of an input table are pairwise different -/

theorem set_keys_nodup {β} (k : Str) (v : β) : ∀ (l : List (Str × β)), (l.map (·.1)).Nodup → ((Config.set k v l).map (·.1)).Nodup
  | [], _ => by simp [Config.set]
  | (k', v') :: r, h => by
    simp only [List.map_cons, List.nodup_cons] at h
    simp only [Config.set]
    split
    next hb =>
      have : k' = k := by simpa using hb
      subst this
      simpa using h
    next hb =>
      have hne : k' ≠ k := by simpa using hb
      simp only [List.map_cons, List.nodup_cons]
      refine ⟨?_, set_keys_nodup k v r h.2⟩
      intro hm
      obtain ⟨p, hp, hpe⟩ := List.mem_map.mp hm
      -- members of `set k v r` are `(k, v)` or members of `r`
      have hsub : ∀ (l : List (Str × β)) (p : Str × β), p ∈ Config.set k v l → p = (k, v) ∨ p ∈ l := by
        intro l
        induction l with
        | nil => intro p hp; simp [Config.set] at hp; exact Or.inl hp
        | cons a l ih =>
          intro p hp
          obtain ⟨ka, va⟩ := a
          simp only [Config.set] at hp
          split at hp
          · rcases List.mem_cons.mp hp with rfl | hp
            · exact Or.inl rfl
            · exact Or.inr (List.mem_cons_of_mem _ hp)
          · rcases List.mem_cons.mp hp with rfl | hp
            · exact Or.inr (List.mem_cons_self ..)
            · rcases ih p hp with h1 | h1
              · exact Or.inl h1
              · exact Or.inr (List.mem_cons_of_mem _ h1)
      rcases hsub r p hp with rfl | hp'
      · exact hne hpe.symm
      · exact h.1 (List.mem_map.mpr ⟨p, hp', hpe⟩)

theorem resolveOne_nodup (classes : Classes) (names : List Str) (ns : Option Str) (acc acc' : List (Str × InVal)) (i : InputDecl)
    (h : resolveOne classes names ns acc i = .ok acc') (hn : (acc.map (·.1)).Nodup) : (acc'.map (·.1)).Nodup := by
  unfold resolveOne at h
  cases hl : lookupName classes ns i with
  | error e => rw [hl] at h; cases h
  | ok nb =>
    obtain ⟨name, byName⟩ := nb
    rw [hl] at h
    simp only at h
    split at h
    · cases h
    · cases hf : Names.findFull name names false with
      | ok found =>
        rw [hf] at h
        simp only at h
        by_cases hc : names.contains (if byName then found else name) = true
        · rw [if_pos hc] at h
          cases h
          exact set_keys_nodup _ _ acc hn
        · rw [if_neg hc] at h
          split at h
          · cases h
          · cases hd : i.default with
            | none => rw [hd] at h; cases h
            | some d =>
              rw [hd] at h
              cases h
              exact set_keys_nodup _ _ acc hn
      | error e =>
        rw [hf] at h
        simp only at h
        cases hd : i.default with
        | none => rw [hd] at h; cases h
        | some d =>
          rw [hd] at h
          cases h
          exact set_keys_nodup _ _ acc hn

theorem resolveAll_nodup (classes : Classes) (names : List Str) (ns : Option Str) :
    ∀ (l : List InputDecl) (acc acc' : List (Str × InVal)), resolveAll classes names ns l acc = .ok acc' →
      (acc.map (·.1)).Nodup → (acc'.map (·.1)).Nodup
  | [], acc, acc', h, hn => by simp only [resolveAll] at h; cases h; exact hn
  | i :: l, acc, acc', h, hn => by
    simp only [resolveAll] at h
    cases hr : resolveOne classes names ns acc i with
    | error e => rw [hr] at h; cases h
    | ok a1 =>
      rw [hr] at h
      exact resolveAll_nodup classes names ns l a1 acc' h (resolveOne_nodup classes names ns acc a1 i hr hn)

section
variable {H : Str → Str} {pr : Char → Bool} {fs : FS} {classes : Classes} {main : Str} {mainNs : Option Str}
  {reg : Registry} {next fuel : Nat} {c : Chain}

/-- the input names of every created task are pairwise different -/
theorem input_names_distinct (S : Stages H pr fs classes main mainNs reg next fuel c) :
    ∀ t ∈ S.st.done, (t.inputs.map (·.1)).Nodup := by
  intro t ht
  obtain ⟨t1, _, _, _, _, hres⟩ := chain_inputs_declared S t ht
  unfold resolveInputs at hres
  exact resolveAll_nodup classes _ t.ns _ [] t.inputs hres (by simp)

theorem wfChain_of_splits (classes : Classes) : ∀ (rest pre : List Task2),
    (∀ p t q, rest = p ++ t :: q → WFTask H pr ((pre ++ p).map kk) (toK classes t)) →
    WFChain H pr (rest.map (toK classes)) (pre.map kk)
  | [], _, _ => trivial
  | t :: r, pre, h => by
    simp only [List.map_cons, WFChain]
    refine ⟨by simpa using h [] t r rfl, ?_⟩
    have : pre.map kk ++ [((toK classes t).full, (toK classes t).key)] = (pre ++ [t]).map kk := by simp [kk, toK]
    rw [this]
    apply wfChain_of_splits classes r (pre ++ [t])
    intro p t' q he
    have := h (t :: p) t' q (by rw [he]; simp)
    simpa [List.append_assoc] using this

/-- **the chains the builder returns are well-formed chains** (given the value-level side conditions `TaskOK`) -/
theorem built_chain_wf (S : Stages H pr fs classes main mainNs reg next fuel c)
    (hcls : ∀ cid cls, get? cid classes = some cls → cls.cid = cid)
    (hok : ∀ t ∈ S.st.done, TaskOK pr classes t) :
    WFChain H pr (S.st.done.map (toK classes)) [] := by
  have hD := (chain_dependency_order S).1
  apply wfChain_of_splits classes S.st.done []
  intro pre t post he
  simp only [List.nil_append]
  have ht : t ∈ S.st.done := by rw [he]; simp
  obtain ⟨t1, ht1, hfull, hkey, hfound⟩ := chain_keys S pre t post he
  have ok := hok t ht
  -- the declared parameters looked up through the class table are those of the first-pass task
  have hdecl : declsOf classes t = t1.cls.params := by
    obtain ⟨t1', ht1', hfull', _, hcid', _⟩ := chain_inputs_declared S t ht
    obtain ⟨a1, a2, _⟩ := core S
    have : t1' = t1 := eq_of_nodup_map (·.full) S.t1 a2 t1' ht1' t1 ht1 (by show t1'.full = t1.full; rw [hfull', hfull])
    subst this
    obtain ⟨cfg, cid, _, _, g3, _⟩ := a1 t1' ht1'
    have hc1 : get? t1'.cls.cid classes = some t1'.cls := by rw [hcls cid t1'.cls g3]; exact g3
    simp only [declsOf, ← hcid', hc1, Option.map_some, Option.getD_some]
  refine ⟨?_, ?_, ?_, ?_, ok.noPath, ok.paramsOK⟩
  · -- inputsFound
    intro p hp
    simp only [toK, List.mem_filterMap] at hp
    obtain ⟨kv, hkv, hm⟩ := hp
    obtain ⟨k, v⟩ := kv
    cases v with
    | dflt d => simp at hm
    | task f =>
      simp only [Option.some.injEq] at hm
      subst hm
      obtain ⟨u, hu, hfu, _⟩ := hfound k f hkv
      rw [lookupA_kk]
      cases hfd : pre.find? (fun t => t.full == f) with
      | none =>
        have := List.find?_eq_none.mp hfd u hu
        simp [hfu] at this
      | some w => simp
  · -- relDistinct
    have hnd := input_names_distinct S t ht
    have hinj : ∀ a ∈ t.inputs, ∀ b ∈ t.inputs, stripNs t.ns a.1 = stripNs t.ns b.1 → a.1 = b.1 := by
      intro a ha b hb he
      rw [← ok.qualified a ha, ← ok.qualified b hb, he]
    simp only [toK]
    -- a sub-list of an injectively renamed duplicate-free list
    have : ∀ (l : List (Str × InVal)), (l.map (·.1)).Nodup → (∀ a ∈ l, ∀ b ∈ l, stripNs t.ns a.1 = stripNs t.ns b.1 → a.1 = b.1) →
        ((l.filterMap (fun kv => match kv.2 with
          | .task f => some (stripNs t.ns kv.1, f)
          | .dflt _ => none)).map (·.1)).Nodup := by
      intro l
      induction l with
      | nil => intro _ _; simp
      | cons a l ih =>
        intro hn hi
        simp only [List.map_cons, List.nodup_cons] at hn
        have ih' := ih hn.2 (fun x hx y hy => hi x (List.mem_cons_of_mem _ hx) y (List.mem_cons_of_mem _ hy))
        obtain ⟨k, v⟩ := a
        cases v with
        | dflt d => simpa [List.filterMap_cons] using ih'
        | task f =>
          simp only [List.filterMap_cons, List.map_cons, List.nodup_cons]
          refine ⟨?_, ih'⟩
          intro hm
          obtain ⟨p, hp, hpe⟩ := List.mem_map.mp hm
          obtain ⟨kv, hkv, hkve⟩ := List.mem_filterMap.mp hp
          obtain ⟨k2, v2⟩ := kv
          cases v2 with
          | dflt d => simp at hkve
          | task f2 =>
            simp only [Option.some.injEq] at hkve
            subst hkve
            simp only at hpe
            have := hi (k2, .task f2) (List.mem_cons_of_mem _ hkv) (k, .task f) (List.mem_cons_self ..) hpe
            simp only at this
            exact hn.1 (List.mem_map.mpr ⟨(k2, .task f2), hkv, this⟩)
    exact this t.inputs hnd hinj
  · -- relNoEq
    intro p hp ch hch
    simp only [toK, List.mem_filterMap] at hp
    obtain ⟨kv, hkv, hm⟩ := hp
    obtain ⟨k, v⟩ := kv
    cases v with
    | dflt d => simp at hm
    | task f =>
      simp only [Option.some.injEq] at hm
      subst hm
      exact ok.noEq (k, .task f) hkv ch hch
  · -- keyOK
    simp only [toK]
    rw [hdecl, hkey]
    congr 1
    unfold inKeysOf
    rw [List.filterMap_filterMap]
    apply filterMap_congr'
    intro kv hkv
    obtain ⟨k, v⟩ := kv
    cases v with
    | dflt d => simp
    | task f =>
      have hq := ok.qualified (k, .task f) hkv
      simp only at hq
      simp only [Option.bind_some, lookupA_kk, hq, Option.map_map]
      rfl

/-- **C01, end to end on the model.**  Take two chains the builder returns — from any class tables, config trees,
contexts and registries, i.e. any two constructions over one data directory — whose tasks meet the value-level side
conditions.  Two of their tasks with the same key are the same computation at every depth, so every semantics that is a
function of persisted parameters and input values gives them the same value: by `C01.history_sound` the store can only
hand a task the result of its own computation. -/
theorem built_chains_same_key_same_computation
    {fs₂ : FS} {classes₂ : Classes} {main₂ : Str} {mainNs₂ : Option Str} {reg₂ : Registry} {next₂ fuel₂ : Nat} {c₂ : Chain}
    (hH : ∀ a b, (H a).take 32 = (H b).take 32 → a = b) (hHex : ∀ s, ∀ ch ∈ (H s).take 32, ch ≠ '#')
    (S₁ : Stages H pr fs classes main mainNs reg next fuel c)
    (S₂ : Stages H pr fs₂ classes₂ main₂ mainNs₂ reg₂ next₂ fuel₂ c₂)
    (hcls₁ : ∀ cid cls, get? cid classes = some cls → cls.cid = cid)
    (hcls₂ : ∀ cid cls, get? cid classes₂ = some cls → cls.cid = cid)
    (hok₁ : ∀ t ∈ S₁.st.done, TaskOK pr classes t) (hok₂ : ∀ t ∈ S₂.st.done, TaskOK pr classes₂ t)
    (n₁ n₂ k : Str)
    (h₁ : lookupA n₁ ((S₁.st.done.map (toK classes)).map (fun t => (t.full, t.key))) = some k)
    (h₂ : lookupA n₂ ((S₂.st.done.map (toK classes₂)).map (fun t => (t.full, t.key))) = some k) :
    ∃ c1 c2, lookupA n₁ (compsOf (S₁.st.done.map (toK classes)) []) = some c1 ∧
      lookupA n₂ (compsOf (S₂.st.done.map (toK classes₂)) []) = some c2 ∧ C03.sameC pr c1 c2 ∧
      ∀ {V : Type} (g : List (Str × PVal) → List (Str × V) → V), semC pr g c1 = semC pr g c2 :=
  same_key_same_computation H pr hH hHex _ _ (built_chain_wf S₁ hcls₁ hok₁) (built_chain_wf S₂ hcls₂ hok₂) n₁ n₂ k h₁ h₂

end

/-! ### the side conditions are decidable, and a concrete built chain meets them -/

def taskOKB (pr : Char → Bool) (classes : Classes) (t : Task2) : Bool :=
  t.inputs.all (fun kv => qualify t.ns (stripNs t.ns kv.1) == kv.1) &&
  t.inputs.all (fun kv => (stripNs t.ns kv.1).all (fun ch => ch != '=')) &&
  (toKeyParams (declsOf classes t) t.params).all (fun p => !p.isPath) &&
  paramsOKB (persistedView pr (toKeyParams (declsOf classes t) t.params))

theorem taskOKB_sound (pr : Char → Bool) (classes : Classes) (t : Task2) (h : taskOKB pr classes t = true) :
    TaskOK pr classes t := by
  simp only [taskOKB, Bool.and_eq_true, List.all_eq_true, beq_iff_eq, Bool.not_eq_true'] at h
  obtain ⟨⟨⟨h1, h2⟩, h3⟩, h4⟩ := h
  exact ⟨h1, fun kv hkv ch hch => by simpa using h2 kv hkv ch hch, h3, paramsOKB_sound _ h4⟩

/-- non-vacuity: the two-task pipeline mounted under `a` (with a parameter) builds, and every task of the chain passes the
executable side conditions -/
example : ∃ c, build id (fun _ => true)
      [("p".toList, .single { data := [("x".toList, .atom "1".toList)], tasks := ["K0".toList, "K1".toList], excluded := [], uses := [] }),
       ("c1".toList, .single { data := [], tasks := [], excluded := [], uses := ["p as a".toList] })]
      [] [("K0".toList, { cid := "K0".toList, slug := "p1".toList, params := [{ name := "x".toList, nic := "x".toList, default := none }], inputs := [] }),
          ("K1".toList, { cid := "K1".toList, slug := "p2".toList, params := [], inputs := [{ ref := .byClass "K0".toList }] })]
      "c1".toList none none [] 0 8 = .ok c ∧
      c.tasks.all (taskOKB (fun _ => true)
        [("K0".toList, { cid := "K0".toList, slug := "p1".toList, params := [{ name := "x".toList, nic := "x".toList, default := none }], inputs := [] }),
         ("K1".toList, { cid := "K1".toList, slug := "p2".toList, params := [], inputs := [{ ref := .byClass "K0".toList }] })]) = true ∧
      c.tasks.map (·.key) = ["x=1$$$".toList, "None$$$p1=x=1$$$".toList] := by
  exact ⟨_, rfl, by rfl, by rfl⟩

end TCV.C01
