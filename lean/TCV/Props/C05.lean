import TCV.Lemmas.FSProto
/-!
# C05 — a result is visible only when complete (failure and crash atomicity)

Model: `TCV.FS` (`Model/FS.lean`).  One request of a task's value is the protocol
`requestP K v fin f forced s` (data class `K`, value `v`, raise point `f`, first or forced
computation, initial location state `s` with arbitrary leftovers).  Quantifiers: every data class,
every value, every raise point, every initial state that is well-typed (`WF`), every crash point
`k` including the half-done states of the non-atomic primitives.  No bound on anything.

The class-independent core is `TCV.FS.safe_keeps` / `safe_publish` / `safe_append`
(`Lemmas/FS.lean`): a protocol that touches `final` only through atomic renames of a staged node
shows nothing but the previous result, nothing, or the staged node — proved by induction over the
protocol, not by enumerating crash points.
-/
namespace TCV.C05
open TCV.FS
variable {V : Type}

/-- the published result is absent or complete -/
def Inv (K : Kind) (s : State V) : Prop := s .final = .absent ∨ ∃ w, s .final = completeNode K w

/-- what may be visible under the final name while value `v` is being computed and stored over a
location whose previous result was `old` -/
def Vis (K : Kind) (old : Node V) (v : V) : Node V → Prop :=
  fun n => n = .absent ∨ n = old ∨ n = completeNode K v

theorem completeNode_dir {K : Kind} (h : K.isDir = true) (v : V) : completeNode K v = .dir (.complete v) := by
  simp [completeNode, h]

theorem completeNode_file {K : Kind} (h : K.isDir = false) (v : V) : completeNode K v = .file (.complete v) := by
  simp [completeNode, h]

/-- what `run`/`save` do after the log handler is opened, for every class and every raise point -/
theorem safe_body (K : Kind) (v : V) (fin : Bool) (f : Fault) (old : Node V) (s : State V)
    (hwf : WF K s) (hs : Vis K old v (s .final)) :
    Safe (Vis K old v) (faultBody K v fin f ++ (match f with | .none => [] | _ => errP K)) s := by
  have hA : Vis K old v .absent := Or.inl rfl
  obtain ⟨-, -, hd, hfl⟩ := wf_facts hwf
  -- the four publishing shapes; everything else never touches `final`
  have file_case : K.isDir = false →
      Safe (Vis K old v) ([always (.openTrunc .tmp), always (.writeAll .tmp v), always (.move .tmp .final)] ++ infoP) s := by
    intro hk
    apply safe_append (safe_fileSave hA v (Or.inr (Or.inr (completeNode_file hk v).symm)) s (hfl hk).1 hs)
    intro s₁ h₁
    refine safe_keeps hA _ rfl s₁ ?_
    have := run_mem_crashStates _ _ _ h₁
    exact safe_fileSave hA v (Or.inr (Or.inr (completeNode_file hk v).symm)) s (hfl hk).1 hs _ this
  have fill_case : K.isDir = true → ∀ post : Proto V, allKeeps post = true →
      Safe (Vis K old v) ((always (.writeAll .tmp v) :: replaceDir) ++ post) s := by
    intro hk post hpost
    obtain ⟨h1, h2, h3, -⟩ := hd hk
    have hsafe := safe_fill_replaceDir hA v (Or.inr (Or.inr (completeNode_dir hk v).symm)) s h3 h1 h2 hs
    apply safe_append hsafe
    intro s₁ h₁
    exact safe_keeps hA _ hpost s₁ (hsafe _ (run_mem_crashStates _ _ _ h₁))
  have list_case : K.isDir = true →
      Safe (Vis K old v) (([⟨.ifExists .tmp, .rmtree .tmp⟩, always (.mkdir .tmp), always (.writeAll .tmp v)] ++ replaceDir) ++ infoP) s := by
    intro hk
    obtain ⟨h1, h2, h3, -⟩ := hd hk
    have hsafe : Safe (Vis K old v)
        ([⟨.ifExists .tmp, .rmtree .tmp⟩, always (.mkdir .tmp), always (.writeAll .tmp v)] ++ replaceDir) s := by
      apply safe_append (safe_keeps hA _ rfl s hs)
      intro s₁ h₁
      have hwf₁ := run_wf K _ (by cases K <;> first | rfl | cases hk) s s₁ hwf h₁
      obtain ⟨-, -, hd₁, -⟩ := wf_facts hwf₁
      obtain ⟨g1, g2, g3, -⟩ := hd₁ hk
      have hfin := run_keeps _ (by rfl) s s₁ h₁
      have htmp : s₁ .tmp = .dir (.complete v) := by
        cases e : s .tmp <;>
          simp_all [run, gstep, Guard.holds, Node.present, step, Node.isFile, State.set, always]
        all_goals (subst h₁; simp)
      apply safe_replaceDir hA s₁ g3 g1
      · rcases hfin with e | e
        · rw [e]; exact hs
        · rw [e]; exact hA
      · rw [htmp]; exact Or.inr (Or.inr (completeNode_dir hk v).symm)
    apply safe_append hsafe
    intro s₁ h₁
    exact safe_keeps hA _ rfl s₁ (hsafe _ (run_mem_crashStates _ _ _ h₁))
  cases K <;> cases fin <;> cases f <;>
    first
    | exact safe_keeps hA _ rfl s hs
    | exact file_case rfl
    | exact list_case rfl
    | exact fill_case rfl _ rfl
    | (rename_i w; cases w <;> first
        | exact safe_keeps hA _ rfl s hs
        | exact fill_case rfl _ rfl)

/-- **general form**: at every crash point of every request the final name shows nothing, the
previous result, or the complete new one; and the leftovers stay well-typed -/
theorem request_safe (K : Kind) (v : V) (fin : Bool) (f : Fault) (forced : Bool) (s : State V)
    (hwf : WF K s) :
    ∀ t ∈ crashStates (requestP K v fin f forced s) s, Vis K (s .final) v (t .final) ∧ WF K t := by
  intro t ht
  refine ⟨?_, crashStates_wf K _ (allTyped_requestP K v fin f forced s) s t hwf ht⟩
  have hA : Vis K (s .final) v .absent := Or.inl rfl
  have hs : Vis K (s .final) v (s .final) := Or.inr (Or.inl rfl)
  revert t
  show Safe (Vis K (s .final) v) (requestP K v fin f forced s) s
  unfold requestP
  apply safe_append (safe_keeps hA _ (allKeeps_initP K) s hs)
  intro s₁ h₁
  have hs₁ : Vis K (s .final) v (s₁ .final) := by
    rcases run_keeps _ (allKeeps_initP K) s s₁ h₁ with e | e
    · rw [e]; exact hs
    · rw [e]; exact hA
  have hwf₁ := run_wf K _ (allTyped_initP K) s s₁ hwf h₁
  split
  · intro t ht; simp at ht; subst ht; exact hs₁
  · unfold computeP
    rw [List.append_assoc]
    apply safe_append (safe_keeps hA _ rfl s₁ hs₁)
    intro s₂ h₂
    have hs₂ : Vis K (s .final) v (s₂ .final) := by
      rcases run_keeps (logP : Proto V) rfl s₁ s₂ h₂ with e | e
      · rw [e]; exact hs₁
      · rw [e]; exact hA
    exact safe_body K v fin f (s .final) s₂ (run_wf K _ (by cases K <;> rfl) s₁ s₂ hwf₁ h₂) hs₂

/-- **crash_safe_K** for every data class `K`: for every value, every initial state with `Inv`
(first computation: nothing stored, or forced/normal over a complete result `w`) and arbitrary
well-typed leftovers, every raise point and every crash point `k` — before the `k`-th file
operation or in the middle of it — what is visible under the final name is nothing, or a
*complete* result holding the old or the new value.  The state is again one `recovers` applies to. -/
theorem crash_safe (K : Kind) (v : V) (fin : Bool) (f : Fault) (forced : Bool) (s : State V)
    (hwf : WF K s) (hinv : Inv K s) (k : Nat) :
    ∀ t ∈ crashAt k (requestP K v fin f forced s) s,
      (t .final = .absent ∨ ∃ w, t .final = completeNode K w ∧ (w = v ∨ s .final = completeNode K w)) ∧
      WF K t := by
  intro t ht
  obtain ⟨hv, hw⟩ := request_safe K v fin f forced s hwf t (crashAt_subset k _ s t ht)
  refine ⟨?_, hw⟩
  rcases hv with e | e | e
  · exact Or.inl e
  · rcases hinv with h | ⟨w, h⟩
    · exact Or.inl (e.trans h)
    · exact Or.inr ⟨w, e.trans h, Or.inr h⟩
  · exact Or.inr ⟨v, e, Or.inl rfl⟩

/-- the statement of `crash_safe` for one data class -/
def CrashSafe (K : Kind) : Prop :=
  ∀ (V : Type) (v : V) (fin : Bool) (f : Fault) (forced : Bool) (s : State V), WF K s → Inv K s → ∀ k,
    ∀ t ∈ crashAt k (requestP K v fin f forced s) s,
      (t .final = .absent ∨ ∃ w, t .final = completeNode K w ∧ (w = v ∨ s .final = completeNode K w)) ∧
      WF K t

theorem crash_safe_json : CrashSafe .json := fun _ v fin f forced s => crash_safe .json v fin f forced s
theorem crash_safe_numpy : CrashSafe .numpy := fun _ v fin f forced s => crash_safe .numpy v fin f forced s
theorem crash_safe_pandas : CrashSafe .pandas := fun _ v fin f forced s => crash_safe .pandas v fin f forced s
theorem crash_safe_figure : CrashSafe .figure := fun _ v fin f forced s => crash_safe .figure v fin f forced s
theorem crash_safe_generated : CrashSafe .generated := fun _ v fin f forced s => crash_safe .generated v fin f forced s
theorem crash_safe_generatedLazy : CrashSafe .generatedLazy := fun _ v fin f forced s => crash_safe .generatedLazy v fin f forced s
theorem crash_safe_listNumpy : CrashSafe .listNumpy := fun _ v fin f forced s => crash_safe .listNumpy v fin f forced s
theorem crash_safe_dirData : CrashSafe .dirData := fun _ v fin f forced s => crash_safe .dirData v fin f forced s
theorem crash_safe_continues : CrashSafe .continues := fun _ v fin f forced s => crash_safe .continues v fin f forced s

/-- deleting a result (`force(delete_data=True)`) never shows it half-deleted either -/
theorem delete_atomic (K : Kind) (s : State V) (hwf : WF K s) (k : Nat) :
    ∀ t ∈ crashAt k (deleteP K) s, (t .final = s .final ∨ t .final = .absent) ∧ WF K t := by
  intro t ht
  have := crashAt_subset k _ s t ht
  exact ⟨crashStates_keeps _ (allKeeps_deleteP K) s t this, crashStates_wf K _ (allTyped_deleteP K) s t hwf this⟩

/-! ## uninterrupted requests: recovery, exceptions, work directories

These are statements about complete executions; they are proved by symbolic execution of the
protocol over all shapes of the (well-typed) initial state. -/

/-- unfold a request and execute it on a symbolic state -/
macro "fs_exec" : tactic =>
  `(tactic| simp_all [request, hasData, requestP, computeP, faultBody, initP, logP, infoP, runP, saveP, errP, replaceDir,
      removeDir, run, gstep, Guard.holds, Node.present, step, Node.isFile, Node.isDir, Node.value?, State.set,
      always, loads, completeNode, Kind.isDir])

/-- `has_data` is exactly "something exists under the final name", and asking does not change it -/
theorem visible_iff_final (K : Kind) (s : State V) (hwf : WF K s) :
    ∃ t, hasData K s = .ok (t, (s .final).present) ∧ t .final = s .final := by
  obtain ⟨-, -, hd, -⟩ := wf_facts hwf
  cases K <;> first
    | exact ⟨s, rfl, rfl⟩
    | (obtain ⟨-, h2, -, -⟩ := hd rfl
       cases e : s .tmp <;> fs_exec)

/-- a stored complete result is loaded, not recomputed, and nothing under the final name changes -/
theorem recovers_load (K : Kind) (v w : V) (fin : Bool) (f : Fault) (s : State V) (hwf : WF K s)
    (hfin : s .final = completeNode K w) :
    ∃ o, request K v fin f false s = .ok o ∧ o.ret = some w ∧ o.ran = false ∧ o.state .final = s .final := by
  obtain ⟨-, -, hd, -⟩ := wf_facts hwf
  cases K <;> first
    | (refine ⟨⟨s, some w, false⟩, ?_, rfl, rfl, rfl⟩; fs_exec; done)
    | (obtain ⟨-, h2, -, -⟩ := hd rfl
       cases e : s .tmp <;> fs_exec)

/-- the six file classes run literally the same protocols (they differ in the serializer only) -/
theorem request_file_kind (K : Kind) (hk : K.isDir = false) (v : V) (fin : Bool) (f : Fault) (hf : f ≠ .genBody)
    (forced : Bool) (s : State V) : request K v fin f forced s = request .json v fin f forced s := by
  cases K <;> first
    | rfl
    | (simp [Kind.isDir] at hk; done)
    | (cases f <;> first | rfl | exact absurd rfl hf)

theorem completeNode_file_kind (K : Kind) (hk : K.isDir = false) (v : V) : completeNode K v = completeNode .json v := by
  simp only [completeNode, hk]; rfl

theorem rc_json (v : V) (forced : Bool) (s : State V) (hwf : WF .json s) (hl : loads forced s = false) :
    ∃ o, request .json v true .none forced s = .ok o ∧ o.ret = some v ∧ o.ran = true ∧
      o.state .final = completeNode .json v ∧ o.state .tmp = .absent := by
  obtain ⟨h1, h2, -, hfl⟩ := wf_facts hwf
  obtain ⟨g1, g2⟩ := hfl rfl
  cases e1 : s .tmp <;> cases e2 : s .log <;> cases e4 : s .final <;> cases e5 : s .runinfo <;> fs_exec

theorem rc_listNumpy (v : V) (forced : Bool) (s : State V) (hwf : WF .listNumpy s) (hl : loads forced s = false) :
    ∃ o, request .listNumpy v true .none forced s = .ok o ∧ o.ret = some v ∧ o.ran = true ∧
      o.state .final = completeNode .listNumpy v ∧ o.state .tmp = .absent ∧ o.state .old = .absent := by
  obtain ⟨h1, h2, hd, -⟩ := wf_facts hwf
  obtain ⟨g1, g2, g3, -⟩ := hd rfl
  cases e1 : s .tmp <;> cases e2 : s .log <;> cases e3 : s .old <;> cases e4 : s .final <;>
    cases e5 : s .runinfo <;> fs_exec

theorem rc_dirData (v : V) (forced : Bool) (s : State V) (hwf : WF .dirData s) (hl : loads forced s = false) :
    ∃ o, request .dirData v true .none forced s = .ok o ∧ o.ret = some v ∧ o.ran = true ∧
      o.state .final = completeNode .dirData v ∧ o.state .tmp = .absent ∧ o.state .old = .absent := by
  obtain ⟨h1, h2, hd, -⟩ := wf_facts hwf
  obtain ⟨g1, g2, g3, -⟩ := hd rfl
  cases e1 : s .tmp <;> cases e2 : s .log <;> cases e3 : s .old <;> cases e4 : s .final <;>
    cases e5 : s .runinfo <;> fs_exec

theorem rc_continues (v : V) (forced : Bool) (s : State V) (hwf : WF .continues s) (hl : loads forced s = false) :
    ∃ o, request .continues v true .none forced s = .ok o ∧ o.ret = some v ∧ o.ran = true ∧
      o.state .final = completeNode .continues v ∧ o.state .tmp = .absent ∧ o.state .old = .absent := by
  obtain ⟨h1, h2, hd, -⟩ := wf_facts hwf
  obtain ⟨g1, g2, g3, -⟩ := hd rfl
  cases e1 : s .tmp <;> cases e2 : s .log <;> cases e3 : s .old <;> cases e4 : s .final <;>
    cases e5 : s .runinfo <;> fs_exec

theorem wf_file_kind (K : Kind) (hk : K.isDir = false) (s : State V) (hwf : WF K s) : WF .json s := by
  intro r
  have := hwf r
  cases r <;> simp only [nodeOK, roleIsDir, hk] at this ⊢ <;> exact this

/-- nothing usable stored (or recomputation forced): the value is computed, stored completely and
returned (for a resumable task: it called `finished()`); no temporary or set-aside result remains -/
theorem recovers_compute (K : Kind) (v : V) (forced : Bool) (s : State V) (hwf : WF K s)
    (hl : loads forced s = false) :
    ∃ o, request K v true .none forced s = .ok o ∧ o.ret = some v ∧ o.ran = true ∧
      o.state .final = completeNode K v ∧ o.state .tmp = .absent ∧
      (K.isDir = true → o.state .old = .absent) := by
  cases hk : K.isDir
  · rw [request_file_kind K hk v true .none (by simp) forced s, completeNode_file_kind K hk]
    obtain ⟨o, h⟩ := rc_json v forced s (wf_file_kind K hk s hwf) hl
    exact ⟨o, h.1, h.2.1, h.2.2.1, h.2.2.2.1, h.2.2.2.2, by simp⟩
  · cases K <;> first
      | (simp [Kind.isDir] at hk; done)
      | (obtain ⟨o, h⟩ := rc_listNumpy v forced s hwf hl; exact ⟨o, h.1, h.2.1, h.2.2.1, h.2.2.2.1, h.2.2.2.2.1, fun _ => h.2.2.2.2.2⟩)
      | (obtain ⟨o, h⟩ := rc_dirData v forced s hwf hl; exact ⟨o, h.1, h.2.1, h.2.2.1, h.2.2.2.1, h.2.2.2.2.1, fun _ => h.2.2.2.2.2⟩)
      | (obtain ⟨o, h⟩ := rc_continues v forced s hwf hl; exact ⟨o, h.1, h.2.1, h.2.2.1, h.2.2.2.1, h.2.2.2.2.1, fun _ => h.2.2.2.2.2⟩)

/-- **recovers_K** for every data class: from any state a crash or a failure can leave — final
name absent or a complete result `w`, arbitrary well-typed leftovers under the temporary, old and
error names — an uninterrupted request succeeds (no file-system error), returns the stored value if
there is one and the computed one otherwise, and afterwards a complete result holding exactly the
returned value is visible. -/
theorem recovers (K : Kind) (v : V) (s : State V) (hwf : WF K s) (hinv : Inv K s) :
    ∃ o x, request K v true .none false s = .ok o ∧ o.ret = some x ∧ o.state .final = completeNode K x ∧
      ((s .final = .absent ∧ x = v ∧ o.ran = true) ∨ (s .final = completeNode K x ∧ o.ran = false)) := by
  rcases hinv with h | ⟨w, h⟩
  · have hl : loads false s = false := by simp [loads, h, Node.present]
    obtain ⟨o, h1, h2, h3, h4, -⟩ := recovers_compute K v false s hwf hl
    exact ⟨o, v, h1, h2, h4, Or.inl ⟨h, rfl, h3⟩⟩
  · obtain ⟨o, h1, h2, h3, h4⟩ := recovers_load K v w true .none s hwf h
    exact ⟨o, w, h1, h2, h4.trans h, Or.inr ⟨h, h3⟩⟩

/-- a forced recomputation over a complete result replaces it by the new value -/
theorem recovers_forced (K : Kind) (v : V) (s : State V) (hwf : WF K s) :
    ∃ o, request K v true .none true s = .ok o ∧ o.ret = some v ∧ o.ran = true ∧
      o.state .final = completeNode K v := by
  have hl : loads true s = false := by simp [loads]
  obtain ⟨o, h1, h2, h3, h4, -⟩ := recovers_compute K v true s hwf hl
  exact ⟨o, h1, h2, h3, h4⟩

/-! ### exceptions (`except` branch of `Task.data`) -/

theorem request_state (K : Kind) (v : V) (fin : Bool) (f : Fault) (forced : Bool) (s : State V) (o : Outcome V)
    (h : request K v fin f forced s = .ok o) : run (requestP K v fin f forced s) s = .ok o.state := by
  unfold request at h
  split at h
  · cases h
  · split at h
    · cases h; assumption
    · split at h <;> (cases h; assumption)

theorem request_file_kind' (K : Kind) (hk : K.isDir = false) (hK : K ≠ .generatedLazy) (v : V) (fin : Bool)
    (f : Fault) (forced : Bool) (s : State V) : request K v fin f forced s = request .json v fin f forced s := by
  cases f <;> cases K <;> first
    | rfl
    | (simp [Kind.isDir] at hk; done)
    | exact absurd rfl hK

/-- the statement of `exception_safe` for one class, raise point and state -/
def ExcSafe (K : Kind) (v : V) (fin : Bool) (f : Fault) (forced : Bool) (s : State V) : Prop :=
  ∃ o, request K v fin f forced s = .ok o ∧ o.ret = none ∧ o.ran = true ∧
    (o.state .final = s .final ∨ (K = .continues ∧ fin = true ∧ o.state .final = completeNode K v))

theorem es_json (v : V) (fin : Bool) (f : Fault) (hf : f ≠ .none) (forced : Bool) (s : State V)
    (hwf : WF .json s) (hl : loads forced s = false) : ExcSafe .json v fin f forced s := by
  obtain ⟨h1, h2, -, hfl⟩ := wf_facts hwf
  obtain ⟨g1, g2⟩ := hfl rfl
  unfold ExcSafe
  cases f <;> first
    | exact absurd rfl hf
    | (cases e1 : s .tmp <;> cases e2 : s .log <;> cases e4 : s .final <;> fs_exec; done)
    | (rename_i w; cases w <;> cases e1 : s .tmp <;> cases e2 : s .log <;> cases e4 : s .final <;> fs_exec)

theorem es_lazy (v : V) (fin : Bool) (f : Fault) (hf : f ≠ .none) (forced : Bool) (s : State V)
    (hwf : WF .generatedLazy s) (hl : loads forced s = false) : ExcSafe .generatedLazy v fin f forced s := by
  obtain ⟨h1, h2, -, hfl⟩ := wf_facts hwf
  obtain ⟨g1, g2⟩ := hfl rfl
  unfold ExcSafe
  cases f <;> first
    | exact absurd rfl hf
    | (cases e1 : s .tmp <;> cases e2 : s .log <;> cases e4 : s .final <;> fs_exec; done)
    | (rename_i w; cases w <;> cases e1 : s .tmp <;> cases e2 : s .log <;> cases e4 : s .final <;> fs_exec)

theorem es_listNumpy (v : V) (fin : Bool) (f : Fault) (hf : f ≠ .none) (forced : Bool) (s : State V)
    (hwf : WF .listNumpy s) (hl : loads forced s = false) : ExcSafe .listNumpy v fin f forced s := by
  obtain ⟨h1, h2, hd, -⟩ := wf_facts hwf
  obtain ⟨g1, g2, g3, g4⟩ := hd rfl
  unfold ExcSafe
  cases f <;> first
    | exact absurd rfl hf
    | (cases e1 : s .tmp <;> cases e2 : s .log <;> cases e4 : s .final <;> fs_exec; done)
    | (rename_i w; cases w <;> cases e1 : s .tmp <;> cases e2 : s .log <;> cases e4 : s .final <;> fs_exec)

/-- a failed directory task: the work directory — with whatever `run` had written — is set aside
under `<key>_error` (an older one is replaced), the temporary name is free, the result untouched -/
def SetAside (v : V) (f : Fault) (s : State V) (o : Outcome V) : Prop :=
  o.state .tmp = .absent ∧ o.state .final = s .final ∧
    o.state .error = (match f with
      | .typeCheck | .serialise _ => .dir (.complete v)
      | _ => .dir .part)

theorem es_dirData (v : V) (fin : Bool) (f : Fault) (hf : f ≠ .none) (forced : Bool) (s : State V)
    (hwf : WF .dirData s) (hl : loads forced s = false) :
    ∃ o, request .dirData v fin f forced s = .ok o ∧ o.ret = none ∧ o.ran = true ∧ SetAside v f s o := by
  obtain ⟨h1, h2, hd, -⟩ := wf_facts hwf
  obtain ⟨g1, g2, g3, g4⟩ := hd rfl
  unfold SetAside
  cases f <;> first
    | exact absurd rfl hf
    | (cases e1 : s .tmp <;> cases e2 : s .log <;> cases e3 : s .error <;> cases e4 : s .final <;> fs_exec; done)
    | (rename_i w; cases w <;> cases e1 : s .tmp <;> cases e2 : s .log <;> cases e3 : s .error <;>
        cases e4 : s .final <;> fs_exec)

/-- a failed resumable task: the work directory stays where it is, with what was written so far -/
def Kept (fin : Bool) (f : Fault) (s : State V) (o : Outcome V) : Prop :=
  (fin = false ∨ f = .run ∨ f = .runMid ∨ f = .genBody) →
    o.state .final = s .final ∧ (o.state .tmp).present = true ∧
    (f = .runMid → o.state .tmp = .dir .part) ∧
    (f = .run → (s .tmp).present = true → o.state .tmp = s .tmp)

set_option maxHeartbeats 1000000 in
theorem es_continues_aux (v : V) (fin : Bool) (f : Fault) (hf : f ≠ .none) (forced : Bool) (s : State V)
    (h1 : (s .log).isDir = false) (g1 : (s .final).isFile = false) (g2 : (s .tmp).isFile = false)
    (g3 : (s .old).isFile = false) (hl : loads forced s = false) :
    ∃ o, request .continues v fin f forced s = .ok o ∧ o.ret = none ∧ o.ran = true ∧
      (o.state .final = s .final ∨ (fin = true ∧ o.state .final = .dir (.complete v))) ∧ Kept fin f s o := by
  unfold Kept
  cases f <;> first
    | exact absurd rfl hf
    | (cases fin <;> cases e1 : s .tmp <;> cases e2 : s .log <;> cases e3 : s .old <;> cases e4 : s .final <;> fs_exec; done)
    | (rename_i w; cases w <;> cases fin <;> cases e1 : s .tmp <;> cases e2 : s .log <;> cases e3 : s .old <;>
        cases e4 : s .final <;> fs_exec)

theorem es_continues (v : V) (fin : Bool) (f : Fault) (hf : f ≠ .none) (forced : Bool) (s : State V)
    (hwf : WF .continues s) (hl : loads forced s = false) :
    ExcSafe .continues v fin f forced s ∧
    ∃ o, request .continues v fin f forced s = .ok o ∧ Kept fin f s o := by
  obtain ⟨h1, h2, hd, -⟩ := wf_facts hwf
  obtain ⟨g1, g2, g3, g4⟩ := hd rfl
  have key : ∃ o, request .continues v fin f forced s = .ok o ∧ o.ret = none ∧ o.ran = true ∧
      (o.state .final = s .final ∨ (fin = true ∧ o.state .final = .dir (.complete v))) ∧ Kept fin f s o := by
    exact es_continues_aux v fin f hf forced s h1 g1 g2 g3 hl
  obtain ⟨o, k1, k2, k3, k4, k5⟩ := key
  refine ⟨⟨o, k1, k2, k3, ?_⟩, o, k1, k5⟩
  rcases k4 with k4 | ⟨k4, k4'⟩
  · exact Or.inl k4
  · exact Or.inr ⟨rfl, k4, k4'⟩

/-- **exception_safe_K** for every data class: if `run`, the generator body, the type check or the
serializer raises (at any of the modelled raise points), the `except` branch completes without a
file-system error, the request raises with `_data` reset, and the final name still shows exactly
what it showed before — except for a resumable task that had already called `finished()`, whose
complete new result stays published.  The state is again well-typed, so `recovers` applies. -/
theorem exception_safe (K : Kind) (v : V) (fin : Bool) (f : Fault) (hf : f ≠ .none) (forced : Bool)
    (s : State V) (hwf : WF K s) (hl : loads forced s = false) :
    ∃ o, request K v fin f forced s = .ok o ∧ o.ret = none ∧ o.ran = true ∧
      (o.state .final = s .final ∨ (K = .continues ∧ fin = true ∧ o.state .final = completeNode K v)) ∧
      WF K o.state := by
  have key : ExcSafe K v fin f forced s := by
    cases hk : K.isDir
    · by_cases hK : K = .generatedLazy
      · subst hK; exact es_lazy v fin f hf forced s hwf hl
      · obtain ⟨o, h1, h2, h3, h4⟩ := es_json v fin f hf forced s (wf_file_kind K hk s hwf) hl
        refine ⟨o, by rw [request_file_kind' K hk hK]; exact h1, h2, h3, ?_⟩
        rcases h4 with h4 | ⟨h4, -⟩
        · exact Or.inl h4
        · cases h4
    · cases K <;> first
        | (simp [Kind.isDir] at hk; done)
        | exact es_listNumpy v fin f hf forced s hwf hl
        | (obtain ⟨o, h1, h2, h3, h4⟩ := es_dirData v fin f hf forced s hwf hl
           exact ⟨o, h1, h2, h3, Or.inl h4.2.1⟩)
        | exact (es_continues v fin f hf forced s hwf hl).1
  obtain ⟨o, h1, h2, h3, h4⟩ := key
  exact ⟨o, h1, h2, h3, h4, run_wf K _ (allTyped_requestP K v fin f forced s) s _ hwf (request_state K v fin f forced s o h1)⟩

/-- **dir_failed_set_aside** (DirData) -/
theorem dir_failed_set_aside (v : V) (fin : Bool) (f : Fault) (hf : f ≠ .none) (forced : Bool) (s : State V)
    (hwf : WF .dirData s) (hl : loads forced s = false) :
    ∃ o, request .dirData v fin f forced s = .ok o ∧ o.ret = none ∧ SetAside v f s o := by
  obtain ⟨o, h1, h2, -, h4⟩ := es_dirData v fin f hf forced s hwf hl
  exact ⟨o, h1, h2, h4⟩

/-- **continues_kept**, failure part (ContinuesData): after a failed or unfinished run the work
directory is still there -/
theorem continues_kept (v : V) (fin : Bool) (f : Fault) (hf : f ≠ .none) (forced : Bool) (s : State V)
    (hwf : WF .continues s) (hl : loads forced s = false) :
    ∃ o, request .continues v fin f forced s = .ok o ∧ Kept fin f s o :=
  (es_continues v fin f hf forced s hwf hl).2

/-- **continues_kept**, crash part: as long as the run does not reach `finished()`, an existing
work directory exists at *every* crash point (a crash inside a write leaves it partial, but there) -/
theorem continues_kept_crash (v : V) (fin : Bool) (f : Fault) (forced : Bool) (s : State V)
    (hnf : fin = false ∨ f = .run ∨ f = .runMid ∨ f = .genBody) (hs : (s .tmp).present = true) (k : Nat) :
    ∀ t ∈ crashAt k (requestP .continues v fin f forced s) s, (t .tmp).present = true := by
  intro t ht
  refine crashStates_keepPresent .tmp _ ?_ s t hs (crashAt_subset k _ s t ht)
  unfold requestP
  split
  · rfl
  · rcases hnf with h | h | h | h <;> subst h
    · cases f <;> first | rfl | (rename_i w; cases w <;> rfl)
    all_goals (cases fin <;> rfl)

/-- **continues_kept**, restart part: a later process that inspects or re-requests the task does
not clear the work directory (`init_persistence` only creates it when missing); an unfinished run
hands the work directory back as its value and publishes nothing -/
theorem continues_kept_restart (v : V) (s : State V) (hwf : WF .continues s) (hs : (s .tmp).present = true) :
    hasData .continues s = .ok (s, (s .final).present) ∧
    (loads false s = false →
      ∃ o, request .continues v false .none false s = .ok o ∧ o.ret = some v ∧
        o.state .final = s .final ∧ o.state .tmp = .dir (.complete v)) := by
  obtain ⟨h1, h2, hd, -⟩ := wf_facts hwf
  obtain ⟨g1, g2, g3, g4⟩ := hd rfl
  constructor
  · cases e1 : s .tmp <;> fs_exec
  · intro hl
    cases e1 : s .tmp <;> cases e2 : s .log <;> cases e4 : s .final <;> cases e5 : s .runinfo <;> fs_exec

/-! ### non-vacuity and what the repairs bought -/

/-- a location with a complete old result `1`, a torn temporary file and an old log -/
def s₁ : State Nat
  | .final => .file (.complete 1)
  | .tmp => .file .torn
  | .log => .file .empty
  | _ => .absent

/-- a directory location: complete old result, a partial work directory, a partial `_old` and an
`_error` directory left by earlier failures -/
def s₂ : State Nat
  | .final => .dir (.complete 1)
  | .tmp => .dir .part
  | .old => .dir .part
  | .error => .dir (.complete 7)
  | _ => .absent

example : WF .json s₁ ∧ Inv .json s₁ := ⟨fun r => by cases r <;> rfl, Or.inr ⟨1, rfl⟩⟩
example : WF .dirData s₂ ∧ Inv .dirData s₂ := ⟨fun r => by cases r <;> rfl, Or.inr ⟨1, rfl⟩⟩
example : loads true s₁ = false ∧ loads false s₁ = true := ⟨rfl, rfl⟩

/-- the forced recomputation of a directory result over `s₂` passes through these views of the
final name: old result, nothing (between the two renames), new result -/
example : (crashStates (requestP .dirData 2 true .none true s₂) s₂).map (· .final) =
    [.dir (.complete 1), .dir (.complete 1), .dir (.complete 1), .dir (.complete 1), .dir (.complete 1),
     .dir (.complete 1), .dir (.complete 1), .dir (.complete 1), .dir (.complete 1), .absent, .absent, .absent,
     .dir (.complete 2), .dir (.complete 2)] := by decide

/-- the protocol before repair F7a (write under the final name): a crash shows an empty and a torn
file under the final name — `Safe` fails, so the theorem is about the protocol, not a tautology -/
example : (crashStates ([always (.openTrunc .final), always (.writeAll .final 2)] : Proto Nat) s₁).map (· .final) =
    [.file (.complete 1), .file .empty, .file .torn, .file (.complete 2)] := by decide

/-- the protocol before repair F7b (`rmtree` of the published directory): partial result visible -/
example : (crashStates ([always (.rmtree .final), always (.move .tmp .final)] : Proto Nat) s₂).map (· .final) =
    [.dir (.complete 1), .dir .part, .absent, .dir .part] := by decide

end TCV.C05
