import TCV.Props.C16
/-!
# C16 — methods with a `**kwargs` catch-all

The decorator's loop only touches the names of the signature: whatever else the call passes by keyword stays in `kwargs` and is
serialised into the key.  So for a method that accepts extra keyword arguments (`**kw`):

* `extra_keyword_reaches_key`: an extra keyword argument (a name that is not a parameter) is in the serialised dictionary with the
  value the call gave it;
* `different_extra_different_key`: calls that differ in a non-ignored extra keyword argument use different keys;
* `keyword_order_never_matters`: calls with the same positional arguments and the same keyword arguments in another order use one key
  — also with extras, also when the call is not a valid binding of the named parameters.

(The catch-all parameter itself is not a named parameter of `Sig`; `valid` — which rejects unknown names — is NOT assumed here.)
-/
namespace TCV.C16
open TCV TCV.Cached

variable {V : Type}

/-- what the loop leaves under a name that is not a parameter: what the call passed -/
theorem extra_keyword_reaches_key (sig : Sig V) (ign : List Str) (c : Call V) (hn : (sig.map (·.name)).Nodup)
    (m : Str) (hs : m ∉ sig.map (·.name)) (hm : m ∉ ign) :
    dget (dropIgnored ign (normalise sig c)) m = dget c.kwargs m := by
  rw [dget_dropIgnored ign _ m hm]
  unfold normalise
  rw [dget_normLoop _ _ _ _ _ hn, loopVal_not_mem _ _ _ _ _ hs]

/-- **calls that differ in a non-ignored extra keyword argument (`**kwargs`) use different keys** -/
theorem different_extra_different_key (enc : List (Str × V) → Str)
    (hinj : ∀ a b : List (Str × V), (keys a).Nodup → (keys b).Nodup →
      enc (PVal.sortItems a) = enc (PVal.sortItems b) → PVal.sortItems a = PVal.sortItems b)
    (sig : Sig V) (ign : List Str) (c₁ c₂ : Call V) (hn : (sig.map (·.name)).Nodup)
    (h₁ : (keys c₁.kwargs).Nodup) (h₂ : (keys c₂.kwargs).Nodup)
    (m : Str) (hs : m ∉ sig.map (·.name)) (hm : m ∉ ign) (hd : dget c₁.kwargs m ≠ dget c₂.kwargs m) :
    cacheKey enc sig ign c₁ ≠ cacheKey enc sig ign c₂ := by
  intro he
  unfold cacheKey keyDict at he
  have n1 : (keys (dropIgnored ign (normalise sig c₁))).Nodup :=
    keys_filter_nodup ign _ (keys_normLoop_nodup c₁.args sig 0 c₁.kwargs h₁)
  have n2 : (keys (dropIgnored ign (normalise sig c₂))).Nodup :=
    keys_filter_nodup ign _ (keys_normLoop_nodup c₂.args sig 0 c₂.kwargs h₂)
  have hs' := hinj _ _ n1 n2 he
  have p1 := isort_perm (fun a b : Str × V => PVal.strLe a.1 b.1) (dropIgnored ign (normalise sig c₁))
  have p2 := isort_perm (fun a b : Str × V => PVal.strLe a.1 b.1) (dropIgnored ign (normalise sig c₂))
  have hperm : (dropIgnored ign (normalise sig c₁)).Perm (dropIgnored ign (normalise sig c₂)) := by
    unfold PVal.sortItems at hs'
    exact p1.symm.trans (hs' ▸ p2)
  have := dget_perm _ _ n1 hperm m
  rw [extra_keyword_reaches_key sig ign c₁ hn m hs hm, extra_keyword_reaches_key sig ign c₂ hn m hs hm] at this
  exact hd this

/-- **the order in which keyword arguments are written never matters** — named or extra -/
theorem keyword_order_never_matters (enc : List (Str × V) → Str) (sig : Sig V) (ign : List Str) (c₁ c₂ : Call V)
    (hn : (sig.map (·.name)).Nodup) (ha : c₁.args = c₂.args) (h₁ : (keys c₁.kwargs).Nodup) (hp : c₁.kwargs.Perm c₂.kwargs) :
    cacheKey enc sig ign c₁ = cacheKey enc sig ign c₂ := by
  have h₂ : (keys c₂.kwargs).Nodup := by
    unfold keys at h₁ ⊢
    exact (hp.map (·.1)).nodup_iff.mp h₁
  unfold cacheKey keyDict
  congr 1
  have k1 : (keys (normalise sig c₁)).Nodup := keys_normLoop_nodup c₁.args sig 0 c₁.kwargs h₁
  have k2 : (keys (normalise sig c₂)).Nodup := keys_normLoop_nodup c₂.args sig 0 c₂.kwargs h₂
  apply sortItems_perm _ _ (keys_filter_nodup ign _ k1)
  apply List.Perm.filter
  apply perm_of_dget_eq _ _ k1 k2
  intro m
  unfold normalise
  rw [dget_normLoop _ _ _ _ _ hn, dget_normLoop _ _ _ _ _ hn, ha]
  exact loopVal_congr _ _ _ _ _ _ (dget_perm _ _ h₁ hp m)

/-- non-vacuity: `def m(self, a, **kw)`; `m(1, x=2)` and `m(1, x=3)` have different dictionaries, `m(1, x=2, y=0)` and
`m(a=1, y=0, x=2)` the same -/
example :
    let sig : Sig Nat := [{ name := "a".toList, kwOnly := false, default := none }]
    keyDict sig [] { args := [1], kwargs := [("x".toList, 2)] } ≠ keyDict sig [] { args := [1], kwargs := [("x".toList, 3)] } ∧
    keyDict sig [] { args := [1], kwargs := [("x".toList, 2), ("y".toList, 0)] } =
      keyDict sig [] { args := [], kwargs := [("a".toList, 1), ("y".toList, 0), ("x".toList, 2)] } := by
  decide

end TCV.C16

namespace TCV.C16
open TCV TCV.Cached
variable {V : Type}

theorem dget_filter (kw : List (Str × V)) (q : Str → Bool) (m : Str) :
    dget (kw.filter (fun kv => q kv.1)) m = if q m then dget kw m else none := by
  induction kw with
  | nil => simp [dget]
  | cons kv r ih =>
    obtain ⟨k, v⟩ := kv
    by_cases hq : q k = true
    · simp only [List.filter_cons, hq, if_true, dget]
      by_cases hk : k = m
      · subst hk; simp [hq]
      · simp only [if_neg hk]; exact ih
    · simp only [List.filter_cons, hq, dget]
      by_cases hk : k = m
      · subst hk; simp only [if_true] at ih ⊢; simp [hq] at ih ⊢; exact ih
      · simp only [if_neg hk]; exact ih

theorem dget_append (a b : List (Str × V)) (m : Str) : dget (a ++ b) m = (dget a m).or (dget b m) := by
  induction a with
  | nil => simp [dget]
  | cons kv r ih =>
    obtain ⟨k, v⟩ := kv
    simp only [List.cons_append, dget]
    split
    · simp
    · exact ih

theorem keys_filter_sub (kw : List (Str × V)) (q : Str × V → Bool) (h : (keys kw).Nodup) : (keys (kw.filter q)).Nodup := by
  unfold keys at *
  exact List.Nodup.sublist (List.Sublist.map _ List.filter_sublist) h

theorem keys_bindingKw_nodup (sig : Sig V) (c : Call V) (h : validKw sig c = true) : (keys (bindingKw sig c)).Nodup := by
  simp only [validKw, Bool.and_eq_true, decide_eq_true_eq] at h
  obtain ⟨hk, hv⟩ := h
  have hwf : (sig.map (·.name)).Nodup := by
    simp only [valid, wfSig, Bool.and_eq_true, decide_eq_true_eq] at hv
    exact hv.1.1.1.1.1.1
  have hbnames : keys (binding sig (named sig c)) = sig.map (·.name) := binding_names sig _ hv
  have hbn : (keys (binding sig (named sig c))).Nodup := by rw [hbnames]; exact hwf
  have hen : (keys (extras sig c)).Nodup := keys_filter_sub _ _ hk
  have hdisj : ∀ m, m ∈ keys (binding sig (named sig c)) → m ∉ keys (extras sig c) := by
    intro m hm he
    rw [hbnames] at hm
    unfold extras keys at he
    obtain ⟨kv, hkv, rfl⟩ := List.mem_map.mp he
    have := (List.mem_filter.mp hkv).2
    rw [List.contains_iff_mem.mpr hm] at this
    cases this
  unfold bindingKw keys
  rw [List.map_append]
  exact List.nodup_append.mpr ⟨hbn, hen, fun a ha b hb hab => hdisj a ha (hab ▸ hb)⟩

/-- **with a `**kwargs` catch-all the serialised dictionary is Python's binding — named parameters with defaults filled, and the
extra keyword arguments — minus the ignored names**, for every call Python accepts -/
theorem key_is_binding_kw (sig : Sig V) (ign : List Str) (c : Call V) (h : validKw sig c = true) :
    keyDict sig ign c = PVal.sortItems (dropIgnored ign (bindingKw sig c)) := by
  have h0 := h
  simp only [validKw, Bool.and_eq_true, decide_eq_true_eq] at h
  obtain ⟨hk, hv⟩ := h
  have hwf : (sig.map (·.name)).Nodup := by
    simp only [valid, wfSig, Bool.and_eq_true, decide_eq_true_eq] at hv
    exact hv.1.1.1.1.1.1
  have hkn : (keys (normalise sig c)).Nodup := keys_normLoop_nodup _ _ _ _ hk
  have hbn : (keys (binding sig (named sig c))).Nodup := by
    rw [binding_names sig _ hv]; exact hwf
  have hbnames : keys (binding sig (named sig c)) = sig.map (·.name) := binding_names sig _ hv
  have hall : (keys (bindingKw sig c)).Nodup := keys_bindingKw_nodup sig c h0
  unfold keyDict
  apply sortItems_perm _ _ (keys_filter_nodup ign _ hkn)
  apply List.Perm.filter
  apply perm_of_dget_eq _ _ hkn hall
  intro m
  unfold bindingKw
  rw [dget_append]
  by_cases hm : m ∈ sig.map (·.name)
  · -- a parameter: the loop sees the same keyword value with or without the extras
    have hnb := method_gets_binding sig (named sig c) hv
    have h1 : dget (normalise sig c) m = dget (normalise sig (named sig c)) m := by
      unfold normalise
      rw [dget_normLoop _ _ _ _ _ hwf, dget_normLoop _ _ _ _ _ hwf]
      apply loopVal_congr
      show dget c.kwargs m = dget (c.kwargs.filter (fun kv => (sig.map (·.name)).contains kv.1)) m
      rw [dget_filter c.kwargs (fun n => (sig.map (·.name)).contains n) m]
      simp only [List.contains_iff_mem.mpr hm, if_true]
    have hp := normalise_perm_binding sig (named sig c) hv
    have hkn' : (keys (normalise sig (named sig c))).Nodup :=
      keys_normLoop_nodup _ _ _ _ (keys_filter_sub _ _ hk)
    rw [h1, dget_perm _ _ hkn' hp m]
    have hsome : (dget (binding sig (named sig c)) m).isSome = true := by
      rw [dget_isSome_iff, hbnames]; exact hm
    cases hd : dget (binding sig (named sig c)) m with
    | none => rw [hd] at hsome; cases hsome
    | some v => simp
  · have h1 : dget (normalise sig c) m = dget c.kwargs m := by
      unfold normalise
      rw [dget_normLoop _ _ _ _ _ hwf, loopVal_not_mem _ _ _ _ _ hm]
    have h2 : dget (binding sig (named sig c)) m = none := by
      apply dget_none_of_not_mem
      rw [hbnames]; exact hm
    have h3 : dget (extras sig c) m = dget c.kwargs m := by
      unfold extras
      rw [dget_filter c.kwargs (fun n => !(sig.map (·.name)).contains n) m]
      have : (sig.map (·.name)).contains m = false := by
        cases hc : (sig.map (·.name)).contains m with
        | false => rfl
        | true => exact absurd (List.contains_iff_mem.mp hc) hm
      simp only [this, Bool.not_false, if_true]
    rw [h1, h2, h3]; simp

/-- every spelling of one binding (named parameters and extras) gives one key -/
theorem same_binding_same_key_kw (enc : List (Str × V) → Str) (sig : Sig V) (ign : List Str) (c₁ c₂ : Call V)
    (h₁ : validKw sig c₁ = true) (h₂ : validKw sig c₂ = true)
    (hb : (bindingKw sig c₁).Perm (bindingKw sig c₂)) :
    cacheKey enc sig ign c₁ = cacheKey enc sig ign c₂ := by
  unfold cacheKey
  rw [key_is_binding_kw sig ign c₁ h₁, key_is_binding_kw sig ign c₂ h₂]
  congr 1
  have hn : (keys (dropIgnored ign (bindingKw sig c₁))).Nodup :=
    keys_filter_nodup ign _ (keys_bindingKw_nodup sig c₁ h₁)
  exact sortItems_perm _ _ hn (hb.filter _)

end TCV.C16

namespace TCV.C16
open TCV TCV.Cached
variable {V : Type}

theorem normLoop_append (args : List V) (ps qs : Sig V) (i : Nat) (kw : List (Str × V)) :
    normLoop args (ps ++ qs) i kw = normLoop args qs (i + ps.length) (normLoop args ps i kw) := by
  induction ps generalizing i kw with
  | nil => simp [normLoop]
  | cons p ps ih =>
    simp only [List.cons_append, normLoop, List.length_cons]
    rw [ih]
    congr 1
    omega

/-- `inspect.signature` lists the catch-all `**r` as a last parameter and the decorator's loop visits it too — without effect on any
call that does not pass more positional arguments than there are named parameters (in particular on every call Python accepts):
the model may leave it out of `Sig`. -/
theorem catchall_param_inert (sig : Sig V) (r : Str) (c : Call V) (h : c.args.length ≤ sig.length) :
    normalise (sig ++ [{ name := r, kwOnly := true, default := none }]) c = normalise sig c := by
  unfold normalise
  rw [normLoop_append]
  simp only [normLoop, normStep, Nat.zero_add]
  have : c.args[sig.length]? = none := List.getElem?_eq_none (by omega)
  rw [this]

theorem validKw_args_le (sig : Sig V) (c : Call V) (h : validKw sig c = true) : c.args.length ≤ sig.length := by
  simp only [validKw, valid, Bool.and_eq_true, decide_eq_true_eq] at h
  have h1 : (named sig c).args.length ≤ npos sig := h.2.1.1.1.1.2
  have h2 : npos sig ≤ sig.length := by unfold npos; exact List.length_filter_le _ _
  exact Nat.le_trans h1 h2

end TCV.C16
