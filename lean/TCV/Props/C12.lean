import TCV.Model.Key
import TCV.Lemmas.Sort
/-!
# C12 — the storage scheme is stable

The model *is* the frozen scheme of release 1.4.0; these statements pin its shape down (they are
close to definitional — the assurance of C12 is the correspondence with the golden corpus captured
from the pinned commit, which model and implementation must both reproduce).
-/
namespace TCV.C12
open TCV TCV.Key TCV.PVal

/-- the key is the first 32 characters of the hash of `<registry repr>$$$<inputs repr>` -/
theorem key_def (H : Str → Str) (pr : Char → Bool) (ps : List Param) (ns : Option Str) (ins : List (Str × Str)) :
    keyOf H pr ps ns ins = (H (registryRepr pr ps ++ "$$$".toList ++ inputsRepr ns ins)).take 32 := by
  simp [keyOf, keyText]

/-- for a hash that yields at least 32 characters (SHA-256 hex: 64) the key has exactly 32 -/
theorem key_format (H : Str → Str) (pr : Char → Bool) (ps : List Param) (ns : Option Str) (ins : List (Str × Str))
    (hH : ∀ s, 32 ≤ (H s).length) : (keyOf H pr ps ns ins).length = 32 := by
  simp [keyOf, List.length_take, Nat.min_eq_left (hH _)]

/-- result path = group levels (split at `:`), task name, then `<key>.<ext>` (or `<key>` for directories) -/
theorem path_shape (slug key : Str) (ext : Option Str) :
    dataPath slug key ext = splitOnColon slug [] ++ [match ext with | none => key | some e => key ++ '.' :: e] := by
  cases ext <;> simp [dataPath, taskDir, dataName]

/-- run info and log sit beside the result, named after the stem of the result's file or directory name -/
theorem side_files (slug key : Str) (ext : Option Str) :
    (runInfoPath slug key ext).dropLast = (dataPath slug key ext).dropLast ∧
    (logPath slug key ext).dropLast = (dataPath slug key ext).dropLast ∧
    (runInfoPath slug key ext).getLast? = some (pyStem (dataName key ext) ++ ".run_info.yaml".toList) ∧
    (logPath slug key ext).getLast? = some (pyStem (dataName key ext) ++ ".log".toList) := by
  simp [runInfoPath, logPath, dataPath]

theorem takeWhile_all {α} (p : α → Bool) : ∀ (l : List α), (∀ x ∈ l, p x = true) → l.takeWhile p = l
  | [], _ => rfl
  | a :: l, h => by
    simp only [List.takeWhile_cons, h a (List.mem_cons_self ..), if_true]
    rw [takeWhile_all p l (fun x hx => h x (List.mem_cons_of_mem _ hx))]

theorem takeWhile_append_stop {α} (p : α → Bool) (l : List α) (a : α) (r : List α)
    (hl : ∀ x ∈ l, p x = true) (ha : p a = false) : (l ++ a :: r).takeWhile p = l := by
  induction l with
  | nil => simp [ha]
  | cons x l ih =>
    simp only [List.cons_append, List.takeWhile_cons, hl x (List.mem_cons_self ..), if_true]
    rw [ih (fun y hy => hl y (List.mem_cons_of_mem _ hy))]

/-- a name without a dot is its own stem -/
theorem pyStem_dotfree (name : Str) (h : ∀ c ∈ name, c ≠ '.') : pyStem name = name := by
  have : name.reverse.takeWhile (· != '.') = name.reverse :=
    takeWhile_all _ _ (fun x hx => by simpa using h x (List.mem_reverse.mp hx))
  simp [pyStem, lastDot, this]

/-- `<key>.<ext>` with a non-empty key and a non-empty dot-free extension has the stem `<key>` -/
theorem pyStem_key_ext (key e : Str) (hk : key ≠ []) (he : e ≠ []) (hd : ∀ c ∈ e, c ≠ '.') :
    pyStem (key ++ '.' :: e) = key := by
  have htw : (key ++ '.' :: e).reverse.takeWhile (· != '.') = e.reverse := by
    rw [List.reverse_append, List.reverse_cons, List.append_assoc]
    exact takeWhile_append_stop _ e.reverse '.' key.reverse
      (fun x hx => by simpa using hd x (List.mem_reverse.mp hx)) (by simp)
  have hkl : 0 < key.length := List.length_pos_iff.mpr hk
  have hel : 0 < e.length := List.length_pos_iff.mpr he
  have hlen : (key ++ '.' :: e).length = key.length + 1 + e.length := by simp; omega
  have hld : lastDot (key ++ '.' :: e) = some key.length := by
    simp only [lastDot, htw, List.length_reverse, hlen]
    rw [if_pos (by omega)]
    congr 1; omega
  simp only [pyStem, hld, hlen]
  have : (0 < key.length && key.length < key.length + 1 + e.length - 1) = true := by
    simp only [Bool.and_eq_true, decide_eq_true_eq]; omega
  rw [if_pos this]
  simp

/-- **named after the key.**  For every file result (`<key>.<ext>`; the extensions of the data classes are non-empty and
dot-free) and for every directory result whose key has no dot — all parameter-mode keys: 32 hex digits — run info and log
are `<key>.run_info.yaml` and `<key>.log` -/
theorem side_files_named_after_key (slug key : Str) (ext : Option Str) (hk : key ≠ [])
    (h : match ext with
      | some e => e ≠ [] ∧ ∀ c ∈ e, c ≠ '.'
      | none => ∀ c ∈ key, c ≠ '.') :
    (runInfoPath slug key ext).getLast? = some (key ++ ".run_info.yaml".toList) ∧
    (logPath slug key ext).getLast? = some (key ++ ".log".toList) := by
  have hs : pyStem (dataName key ext) = key := by
    cases ext with
    | none => exact pyStem_dotfree key h
    | some e => exact pyStem_key_ext key e hk h.1 h.2
  simp [runInfoPath, logPath, hs]

/-- consequently different keys have different run-info and log files, under the same conditions -/
theorem side_files_injective_partial (slug k1 k2 : Str) (ext : Option Str) (h1 : k1 ≠ []) (h2 : k2 ≠ [])
    (h : match ext with
      | some e => e ≠ [] ∧ ∀ c ∈ e, c ≠ '.'
      | none => (∀ c ∈ k1, c ≠ '.') ∧ ∀ c ∈ k2, c ≠ '.')
    (he : runInfoPath slug k1 ext = runInfoPath slug k2 ext ∨ logPath slug k1 ext = logPath slug k2 ext) : k1 = k2 := by
  have a1 := side_files_named_after_key slug k1 ext h1 (by cases ext with | none => exact h.1 | some e => exact h)
  have a2 := side_files_named_after_key slug k2 ext h2 (by cases ext with | none => exact h.2 | some e => exact h)
  rcases he with he | he
  · rw [he, a2.1] at a1
    have := Option.some.inj a1.1
    exact (List.append_cancel_right this).symm
  · rw [he, a2.2] at a1
    have := Option.some.inj a1.2
    exact (List.append_cancel_right this).symm

/-- **finding K7** (full statement false): in name mode the key is the config name; for a DIRECTORY result whose key
contains a dot the side files are named after the key up to its last dot, so `main.v1` and `main.v2` keep their results
apart but share one run-info file and one log -/
theorem k7_dir_side_files_collide :
    dataPath "t".toList "main.v1".toList none ≠ dataPath "t".toList "main.v2".toList none ∧
    runInfoPath "t".toList "main.v1".toList none = runInfoPath "t".toList "main.v2".toList none ∧
    logPath "t".toList "main.v1".toList none = logPath "t".toList "main.v2".toList none := by
  decide

/-- a task without persisted parameters contributes the text `None` (as release 1.4.0 does) -/
theorem registry_none_when_empty (pr : Char → Bool) (ps : List Param)
    (h : ∀ p ∈ ps, paramRepr pr p = none) : registryRepr pr ps = "None".toList := by
  unfold registryRepr
  have : (isort (fun a b : Param => strLe a.name b.name) ps).filterMap (paramRepr pr) = [] := by
    apply List.filterMap_eq_nil_iff.mpr
    intro p hp
    exact h p ((isort_perm _ ps).subset hp)
  simp [this]

example : dataPath "g:h:up".toList "abc".toList (some "json".toList) = ["g".toList, "h".toList, "up".toList, "abc.json".toList] := by decide
example : runInfoPath "g:up".toList "base.v2".toList (some "json".toList) = ["g".toList, "up".toList, "base.v2.run_info.yaml".toList] := by decide

end TCV.C12
