import TCV.Model.Key
import TCV.Lemmas.Sort
/-!
# C12 — the storage scheme is stable

The model *is* the frozen scheme of release 1.4.0; these statements pin its shape down (they are
close to definitional — the assurance of C12 is the correspondence with the golden corpus captured
from the pinned commit, which model and implementation must both reproduce).
-/
namespace TCV.C12
open TCV TCV.Key TCV.PVal

/-- the key is the first 32 characters of the hash of `<registry repr>$$$<inputs repr>` -/
theorem key_def (H : Str → Str) (pr : Char → Bool) (ps : List Param) (ns : Option Str) (ins : List (Str × Str)) :
    keyOf H pr ps ns ins = (H (registryRepr pr ps ++ "$$$".toList ++ inputsRepr ns ins)).take 32 := by
  simp [keyOf, keyText]

/-- for a hash that yields at least 32 characters (SHA-256 hex: 64) the key has exactly 32 -/
theorem key_format (H : Str → Str) (pr : Char → Bool) (ps : List Param) (ns : Option Str) (ins : List (Str × Str))
    (hH : ∀ s, 32 ≤ (H s).length) : (keyOf H pr ps ns ins).length = 32 := by
  simp [keyOf, List.length_take, Nat.min_eq_left (hH _)]

/-- result path = group levels (split at `:`), task name, then `<key>.<ext>` (or `<key>` for directories) -/
theorem path_shape (slug key : Str) (ext : Option Str) :
    dataPath slug key ext = splitOnColon slug [] ++ [match ext with | none => key | some e => key ++ '.' :: e] := by
  cases ext <;> simp [dataPath, taskDir, dataName]

/-- run info and log sit beside the result, named after the key -/
theorem side_files (slug key : Str) (ext : Option Str) :
    (runInfoPath slug key).dropLast = (dataPath slug key ext).dropLast ∧
    (logPath slug key).dropLast = (dataPath slug key ext).dropLast ∧
    (runInfoPath slug key).getLast? = some (key ++ ".run_info.yaml".toList) ∧
    (logPath slug key).getLast? = some (key ++ ".log".toList) := by
  simp [runInfoPath, logPath, dataPath]

/-- a task without persisted parameters contributes the text `None` (as release 1.4.0 does) -/
theorem registry_none_when_empty (pr : Char → Bool) (ps : List Param)
    (h : ∀ p ∈ ps, paramRepr pr p = none) : registryRepr pr ps = "None".toList := by
  unfold registryRepr
  have : (isort (fun a b : Param => strLe a.name b.name) ps).filterMap (paramRepr pr) = [] := by
    apply List.filterMap_eq_nil_iff.mpr
    intro p hp
    exact h p ((isort_perm _ ps).subset hp)
  simp [this]

example : dataPath "g:h:up".toList "abc".toList (some "json".toList) = ["g".toList, "h".toList, "up".toList, "abc.json".toList] := by decide

end TCV.C12
