import TCV.Lemmas.Glue
import TCV.Lemmas.JsonTextRT
import TCV.Props.C05
/-!
# C06 — stored values round-trip exactly

What is proved is taskchain's own part: the glue between `run` and the serializers (type check,
`is None` guards, `set_value`/`value`, save, fresh object, `exists`, `load`), the json-lines
framing, and the naming/ordering of `ListOfNumpyData`.  orjson, numpy, pandas and pickle are
*parameters* (`Codec`) with the assumption `load (save v) = v` on the class's domain
(`Codec.Faithful`) — validated by the correspondence sample, not proved.

Quantifiers: every value of the domain, every list length, every directory enumeration order.
-/
namespace TCV.C06
open TCV TCV.Glue

variable {V S : Type}

/-- the assumed library round trip on the domain `dom` -/
def Faithful (c : Codec V S) (dom : V → Prop) : Prop := ∀ v, dom v → ∃ s, c.save v = .ok s ∧ c.load s = .ok v

/-- **glue_roundtrip_K** (every data class is an instance of `TaskCls`): if the class's serializer
pair is faithful on `dom`, `run` returns a value `v` of the domain that passes the type test, and
the reader never yields `None` for a stored domain value, then the computing chain stores some `s`
and hands out exactly `v`, and a later chain (new object, `exists`, `load`, `.value`) on `s` hands
out exactly `v` too.  Holds for classes that re-read the file after saving (GeneratedDataLazy) and
for those that keep the in-memory value. -/
theorem glue_roundtrip (T : TaskCls V S) (dom : V → Prop) (hf : Faithful T.codec dom) (v : V) (hv : dom v)
    (ht : T.typeOk v = true) :
    ∃ s, compute T (some v) = .ok (s, v) ∧ reload T some (some s) = .ok v := by
  obtain ⟨s, hs, hl⟩ := hf v hv
  refine ⟨s, ?_, ?_⟩
  · unfold compute
    simp only [ht, if_true, dataValue, hs, hl]
    cases T.rereads <;> rfl
  · simp [reload, hl, dataValue]

/-- `None` (and a mistyped result) is rejected before anything is stored; nothing else is -/
theorem none_rejected (T : TaskCls V S) : compute T none = .error .typeMismatch := rfl

theorem mistyped_rejected (T : TaskCls V S) (v : V) (h : T.typeOk v = false) :
    compute T (some v) = .error .typeMismatch := by
  simp [compute, h]

/-- a stored `null` is the one thing a later chain cannot get back: the reader yields `None` and
`Data.value` raises — which is why `None` must not (and cannot) be stored -/
theorem stored_none_unreadable (T : TaskCls V S) (s : S) (v : V) (h : T.codec.load s = .ok v) :
    reload T (fun _ => none) (some s) = .error .valueNotSet := by
  simp [reload, h, dataValue]

/-! ### falsy values -/

/-- the guard as it would be with `if not value` instead of `is None` -/
def dataValueFalsy (truthy : V → Bool) : Option V → Except Err V
  | none => .error .valueNotSet
  | some v => if truthy v then .ok v else .error .valueNotSet

/-- **falsy_values_pass**: the guard of `Data.value` rejects `None` only — whatever Python's truth
value of the object is -/
theorem falsy_values_pass (truthy : V → Bool) (v : V) : dataValue (some v) = .ok v ∧
    (truthy v = false → dataValueFalsy truthy (some v) = .error .valueNotSet) := by
  refine ⟨rfl, fun h => ?_⟩
  simp [dataValueFalsy, h]

/-- a small universe of Python values with their truth value -/
inductive PyV | int (i : Int) | float0 | str (s : Str) | list (n : Nat) | dict (n : Nat) | bool (b : Bool)
  deriving DecidableEq

def PyV.truthy : PyV → Bool
  | .int i => i != 0
  | .float0 => false
  | .str s => !s.isEmpty
  | .list n | .dict n => n != 0
  | .bool b => b

/-- `0`, `0.0`, `""`, `[]`, `{}`, `False` pass through compute and reload although they are falsy -/
example (T : TaskCls PyV S) (hf : Faithful T.codec (fun _ => True)) (hT : ∀ v, T.typeOk v = true) :
    ∀ v ∈ [PyV.int 0, .float0, .str [], .list 0, .dict 0, .bool false],
      v.truthy = false ∧ ∃ s, compute T (some v) = .ok (s, v) ∧ reload T some (some s) = .ok v := by
  intro v hv
  refine ⟨?_, glue_roundtrip T _ hf v trivial (hT v)⟩
  simp at hv
  rcases hv with rfl | rfl | rfl | rfl | rfl | rfl <;> rfl

/-! ### json lines -/

/-- an encoded item that can be framed by newlines: no raw line break inside, not empty, not
bordered by white space (every JSON text has this form) -/
structure Framed (isSpace : Char → Bool) (s : Str) : Prop where
  noLF : '\n' ∉ s
  noCR : '\r' ∉ s
  nonempty : s ≠ []
  first : ∀ c, s.head? = some c → isSpace c = false
  last : ∀ c, s.getLast? = some c → isSpace c = false

/-- **jsonl_framing**: for items whose encodings are `Framed`, reading the written file line by line
(universal newlines, `for row in f`) and stripping gives back exactly the encodings, in order — for
every number of items, the empty file included -/
theorem jsonl_framing {α} (isSpace : Char → Bool) (hnl : isSpace '\n' = true) (enc : α → Str) (xs : List α)
    (h : ∀ x ∈ xs, Framed isSpace (enc x)) :
    (iterLines (writeJsons enc xs)).map (strip isSpace) = xs.map enc := by
  unfold iterLines
  rw [universalNewlines_id _ (writeJsons_noCR enc xs (fun x hx => (h x hx).noCR)),
    splitLines_writeJsons enc xs (fun x hx => (h x hx).noLF), List.map_map]
  apply List.map_congr_left
  intro x hx
  exact strip_line isSpace hnl (enc x) (h x hx).nonempty (h x hx).first (h x hx).last

/-- hence the json-lines codec of GeneratedData / GeneratedDataLazy is faithful whenever the item
codec is and produces framed texts -/
theorem jsonl_codec_faithful {α} (isSpace : Char → Bool) (hnl : isSpace '\n' = true) (enc : α → Str)
    (dec : Str → Except Err α) (dom : α → Prop) (hrt : ∀ x, dom x → dec (enc x) = .ok x)
    (hfr : ∀ x, dom x → Framed isSpace (enc x)) :
    Faithful (jsonlCodec isSpace enc dec) (fun xs => ∀ x ∈ xs, dom x) := by
  intro xs hxs
  refine ⟨writeJsons enc xs, rfl, ?_⟩
  show readJsons isSpace dec (writeJsons enc xs) = .ok xs
  unfold readJsons
  have h1 := jsonl_framing isSpace hnl enc xs (fun x hx => hfr x (hxs x hx))
  rw [← mapM_map' (strip isSpace) dec, h1, mapM_map' enc dec]
  have := mapM_except_all (fun x => dec (enc x)) id xs (fun x hx => hrt x (hxs x hx))
  simpa using this

/-- without the hypothesis the framing does break: an item whose encoding contains a raw newline
comes back as two rows -/
example : (iterLines (writeJsons (fun s : Str => s) ["a\nb".toList])).map (strip (· == '\n')) =
    ["a".toList, "b".toList] := by decide

/-! ### ListOfNumpyData -/

/-- **listOfNumpy_order**: whatever order the OS enumerates the directory in (`d` is any permutation
of what `save` wrote), `load` returns the arrays in the order of the list — for every length.
The key is the *number* in the file name. -/
theorem listOfNumpy_order {A B} (ser : A → B) (de : B → Except Err A) (vs : List A)
    (hde : ∀ v ∈ vs, de (ser v) = .ok v) (d : Dir B) (hd : d.Perm (saveList ser vs)) :
    loadList de d = .ok vs := by
  have hall : ∀ e ∈ saveList ser vs, ∃ i, e.1 = fileName i := by
    intro e he
    simp only [saveList, List.mem_map] at he
    obtain ⟨p, _, rfl⟩ := he
    exact ⟨p.2, rfl⟩
  -- glob('*.npy') keeps every file
  have hfilter : d.filter (fun e => endsWithNpy e.1) = d := by
    apply List.filter_eq_self.mpr
    intro e he
    obtain ⟨i, hi⟩ := hall e (hd.subset he)
    rw [hi]; exact endsWithNpy_fileName i
  -- every key parses
  let g : Str × B → Nat × B := fun e => ((fileKey e.1).getD 0, e.2)
  have hkeys : d.mapM (fun e => (fileKey e.1).map (fun k => (k, e.2))) = some (d.map g) := by
    apply mapM_option_all
    intro e he
    obtain ⟨i, hi⟩ := hall e (hd.subset he)
    simp [g, hi, fileKey_fileName]
  have hperm : (d.map g).Perm (((vs.map ser).zipIdx).map (fun p => (p.2, p.1))) := by
    have h1 := hd.map g
    have h2 : (saveList ser vs).map g = ((vs.map ser).zipIdx).map (fun p => (p.2, p.1)) := by
      simp only [saveList, List.map_map, List.zipIdx_map]
      apply List.map_congr_left
      intro p _
      simp [g, fileKey_fileName]
    rw [h2] at h1; exact h1
  unfold loadList
  simp only [hfilter, hkeys]
  rw [isort_index_restores (vs.map ser) (d.map g) hperm, mapM_map', List.zipIdx_map, mapM_map']
  have h4 := mapM_except_all (fun p : A × Nat => de (ser p.1)) (fun p => p.1) vs.zipIdx (by
    intro p hp
    have := (List.mem_zipIdx hp).2.2
    exact hde p.1 (by rw [this]; exact List.getElem_mem _))
  simp only [Prod.map_fst] at h4 ⊢
  rw [h4]
  simp

/-- so the directory codec is faithful for every enumeration order (here: the order of writing) -/
theorem listNp_codec_faithful {A B} (ser : A → B) (de : B → Except Err A) (dom : A → Prop)
    (hrt : ∀ v, dom v → de (ser v) = .ok v) :
    Faithful (listNpCodec ser de) (fun vs => ∀ v ∈ vs, dom v) := by
  intro vs hvs
  exact ⟨saveList ser vs, rfl, listOfNumpy_order ser de vs (fun v hv => hrt v (hvs v hv)) _ (List.Perm.refl _)⟩

/-- sorting the names as text — what `sorted(path.glob('*.npy'))` without the key would do — puts
`10.npy` before `2.npy`: with 11 arrays the list comes back in another order -/
theorem listOfNumpy_lex_wrong :
    loadListLex (fun b : Nat => (.ok b : Except Err Nat)) (saveList id (List.range 11)) =
      .ok [0, 1, 10, 2, 3, 4, 5, 6, 7, 8, 9] ∧
    loadList (fun b : Nat => (.ok b : Except Err Nat)) (saveList id (List.range 11)).reverse =
      .ok (List.range 11) := by
  constructor <;> decide

/-- `save` builds a fresh directory and replaces the old result as a whole (C05 `recovers_compute`:
afterwards `final` holds exactly the new files, `tmp` and `old` are gone).  If stale files of a
longer earlier list were left in place they would be loaded: -/
example : loadList (fun b : Nat => (.ok b : Except Err Nat))
    (saveList id [7, 8] ++ (saveList id [1, 2, 3, 4]).drop 2) = .ok [7, 8, 3, 4] := by decide

/-! ### loading never writes -/

/-- **load_pure**: a request that finds a result executes nothing but `init_persistence`'s handling
of the *work* directory — no primitive of `load` exists in the protocol, and for the file classes
the location is literally unchanged; the stored result is untouched in every class -/
theorem load_pure (K : FS.Kind) {W : Type} (v : W) (fin : Bool) (f : FS.Fault) (s : FS.State W)
    (hl : FS.loads false s = true) :
    FS.requestP K v fin f false s = FS.initP K ∧
    (K.isDir = false → FS.run (FS.requestP K v fin f false s) s = .ok s) ∧
    ∀ t, FS.run (FS.requestP K v fin f false s) s = .ok t → t .final = s .final ∨ t .final = .absent := by
  have h1 : FS.requestP K v fin f false s = FS.initP K := by
    unfold FS.requestP; simp [hl]
  refine ⟨h1, ?_, ?_⟩
  · intro hk
    rw [h1]
    cases K <;> first | rfl | (simp [FS.Kind.isDir] at hk)
  · intro t ht
    rw [h1] at ht
    exact FS.run_keeps _ (FS.allKeeps_initP K) s t ht

/-- …and `init_persistence` never removes the result -/
theorem load_keeps_result (K : FS.Kind) {W : Type} (v : W) (fin : Bool) (f : FS.Fault) (s : FS.State W)
    (hwf : FS.WF K s) (w : W) (hfin : s .final = FS.completeNode K w) :
    ∃ o, FS.request K v fin f false s = .ok o ∧ o.ret = some w ∧ o.state .final = s .final :=
  let ⟨o, h1, h2, _, h4⟩ := TCV.C05.recovers_load K v w fin f s hwf hfin
  ⟨o, h1, h2, h4⟩

/-! ### JSON text (second priority: the compact form that `write_jsons` uses) -/

open TCV.JsonText in
/-- **json_roundtrip**: for every JSON value — any nesting, any strings (all of Unicode, controls,
quotes), any integer, float tokens as the serializer prints them, string keys in any order, also
duplicate keys — the model's decoder reads back exactly the value the compact encoder wrote -/
theorem json_roundtrip (v : JVal) (h : JsonText.WF v) : decode (enc v) = some v := by
  unfold decode
  have h1 := parseVal_enc v ((enc v).length + 1) [] h (by have := (need_le v h).1; omega) delim_nil
  simp only [List.append_nil] at h1
  simp [h1, skipWs]

open TCV.JsonText in
/-- **encode_no_raw_control**: an encoded value contains no raw line break and is bordered by
printable ASCII — so it is `Framed` for every white-space test that, like `str.isspace`, is false on
printable ASCII -/
theorem encode_framed (isSpace : Char → Bool) (hsp : ∀ c, Printable c → isSpace c = false) (v : JVal)
    (h : JsonText.WF v) : Framed isSpace (enc v) := by
  obtain ⟨⟨c, r, e1, p1⟩, ⟨init, d, e2, p2⟩⟩ := enc_border v h
  refine ⟨fun hm => (enc_clean v h _ hm).1 rfl, fun hm => (enc_clean v h _ hm).2 rfl, by rw [e1]; simp, ?_, ?_⟩
  · intro c' hc'
    rw [e1] at hc'
    simp only [List.head?_cons, Option.some.injEq] at hc'
    subst hc'; exact hsp _ p1
  · intro c' hc'
    rw [e2] at hc'
    simp only [List.getLast?_append, List.getLast?_singleton, Option.some_or, Option.some.injEq] at hc'
    subst hc'; exact hsp _ p2

open TCV.JsonText in
/-- together: a generated sequence of JSON values written by `write_jsons` and read by
`iter_json_file` comes back item by item — for every number of items and every content -/
theorem jsonl_json_roundtrip (isSpace : Char → Bool) (hnl : isSpace '\n' = true)
    (hsp : ∀ c, Printable c → isSpace c = false) (xs : List JVal) (h : ∀ x ∈ xs, JsonText.WF x) :
    readJsons isSpace (fun s => match decode s with | some v => .ok v | none => .error .loadError)
      (writeJsons enc xs) = .ok xs := by
  have := jsonl_codec_faithful isSpace hnl enc
    (fun s => match decode s with | some v => .ok v | none => .error .loadError) JsonText.WF
    (fun x hx => by simp [json_roundtrip x hx]) (fun x hx => encode_framed isSpace hsp x hx) xs h
  obtain ⟨s, hs, hl⟩ := this
  cases hs
  exact hl

/-- non-vacuity: a nested value with escapes, a negative integer, a float token and an empty mapping -/
example : JsonText.WF (.obj [("a\n\"".toList, .arr [.int (-12), .float "5e-324".toList, .null, .obj []]), ([], .str ['\x01', 'é'])]) := by
  simp [JsonText.WF, JsonText.WFL, JsonText.WFM, JsonText.isFloatTok, JsonText.isNumChar]

example : JsonText.enc (.obj [("a\n\"".toList, .arr [.int (-12), .float "5e-324".toList, .null, .obj []]), ([], .str ['\x01', 'é'])])
    = "{\"a\\n\\\"\":[-12,5e-324,null,{}],\"\":\"\\u0001é\"}".toList := by decide

end TCV.C06
