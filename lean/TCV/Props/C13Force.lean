import TCV.Props.C07
/-!
# C13 — `MultiChain.force` is `Chain.force` on every member chain

`MultiChain.force(tasks, delete_data)` calls `chain.force(tasks, …)` on its chains one after the other.  Objects may be shared
between the chains (one object for one computation).  The theorem: afterwards exactly the tasks that are, in *some* member
chain, the named ones or downstream of them are forced and dropped from memory; nothing runs; nothing else changes; without
`delete_data` the store is untouched.
-/
namespace TCV.C13
open TCV.Store TCV.C07

variable {V : Type}

/-- `MultiChain.force(S, delete_data=del)` (no recompute) over member chains given by their object lists -/
def multiForce (U : Universe) (f : Nat → List V → V) (fuel : Nat) (S : List Nat) (del : Bool) : St V → List (List Nat) → St V
  | s, [] => s
  | s, nodes :: rest => multiForce U f fuel S del (step U f fuel s (.chainForce nodes S del false [])).1 rest

theorem multichain_force_fans_out (U : Universe) (f : Nat → List V → V) (fuel : Nat) (S : List Nat) (del : Bool) :
    ∀ (chains : List (List Nat)) (s : St V), (∀ c ∈ chains, DepOrder U c ∧ c.Nodup) →
    let s' := multiForce U f fuel S del s chains
    (∀ j, s'.forced j = true ↔ (s.forced j = true ∨ ∃ c ∈ chains, Reach U c S j)) ∧
    (∀ j, (∀ c ∈ chains, ¬ Reach U c S j) → s'.mem j = s.mem j) ∧
    (∀ j, (∃ c ∈ chains, Reach U c S j) → s'.mem j = none) ∧
    s'.runs = s.runs ∧
    (del = false → s'.store = s.store)
  | [], s, _ => by simp [multiForce]
  | c :: rest, s, h => by
    have hc := h c (List.mem_cons_self ..)
    have e := chainForce_effect U f fuel s c S [] del hc.1 hc.2
    have ih := multichain_force_fans_out U f fuel S del rest (step U f fuel s (.chainForce c S del false [])).1
      (fun c' hc' => h c' (List.mem_cons_of_mem _ hc'))
    simp only [multiForce]
    obtain ⟨e1, e2, e3, e4, e5⟩ := e
    obtain ⟨i1, i2, i3, i4, i5⟩ := ih
    refine ⟨?_, ?_, ?_, ?_, ?_⟩
    · intro j
      rw [i1 j, e1 j]
      constructor
      · rintro ((h1 | h2) | ⟨c', hc', hr⟩)
        · exact Or.inl h1
        · exact Or.inr ⟨c, List.mem_cons_self .., h2⟩
        · exact Or.inr ⟨c', List.mem_cons_of_mem _ hc', hr⟩
      · rintro (h1 | ⟨c', hc', hr⟩)
        · exact Or.inl (Or.inl h1)
        · rcases List.mem_cons.mp hc' with rfl | hc''
          · exact Or.inl (Or.inr hr)
          · exact Or.inr ⟨c', hc'', hr⟩
    · intro j hj
      rw [i2 j (fun c' hc' => hj c' (List.mem_cons_of_mem _ hc')), e2 j (hj c (List.mem_cons_self ..))]
    · intro j ⟨c', hc', hr⟩
      by_cases hrest : ∃ c'' ∈ rest, Reach U c'' S j
      · exact i3 j hrest
      · have hnot : ∀ c'' ∈ rest, ¬ Reach U c'' S j := fun c'' h1 h2 => hrest ⟨c'', h1, h2⟩
        rw [i2 j hnot]
        rcases List.mem_cons.mp hc' with rfl | hc''
        · exact e3 j hr
        · exact absurd hr (hnot c' hc'')
    · rw [i4, e4]
    · intro hd
      rw [i5 hd, e5 hd]

/-- non-vacuity: two member chains sharing object 0, each with its own dependant -/
example : ∃ (U : Universe), DepOrder U [0, 1] ∧ DepOrder U [0, 2] :=
  ⟨[⟨0, true, [], [], []⟩, ⟨1, true, [0], [], [0]⟩, ⟨2, true, [0], [], [0]⟩], by simp [DepOrder, obj], by simp [DepOrder, obj]⟩

end TCV.C13
