import TCV.Lemmas.Subst
/-!
# C11 — placeholders are substituted everywhere, once, and nothing else changes

Model: `TCV/Model/Subst.lean` (`scan` = the segmentation `re.subn(r'{(.*?)}', …)` induces,
`substStr` = `_apply`, `substTree` = `search_and_replace_placeholders`, `ReprStrObj` = the state of a
`ReprStr` instance).  All statements are for every environment (`global_vars` as a lookup), every
string over all characters and every JSON-like value of any depth and width.
-/
namespace TCV.C11
open TCV TCV.PVal TCV.Subst

theorem substLeaf_isStrLeaf (env : Env) (v : PVal) (h : isStrLeaf v = true) : isStrLeaf (substLeaf env v) = true := by
  cases v <;> simp [isStrLeaf] at h
  · simp only [substLeaf, substStr]; split <;> rfl
  · rfl

/-- **everywhere, and nothing else**: `search_and_replace_placeholders` is `_apply` on every string
leaf at every depth of lists and mapping values; the shape (nesting, lengths, keys, atoms, objects)
is unchanged and the string leaves of the result are exactly the `_apply`-images of the original
string leaves, in order. -/
theorem subst_all_leaves (env : Env) (v : PVal) :
    substTree env v = mapStr (substLeaf env) v ∧
    shape (substTree env v) = shape v ∧
    leaves (substTree env v) = (leaves v).map (substLeaf env) := by
  rw [substTree_eq_mapStr]
  exact ⟨rfl, shape_mapStr _ (substLeaf_isStrLeaf env) v, leaves_mapStr _ (substLeaf_isStrLeaf env) v⟩

/-- shape and string leaves determine a value, so the previous theorem characterises the result
completely: any value with the old shape and the substituted leaves *is* the result -/
theorem subst_all_leaves_unique (env : Env) (v w : PVal) (hs : shape w = shape v)
    (hl : leaves w = (leaves v).map (substLeaf env)) : w = substTree env v := by
  have h := subst_all_leaves env v
  exact eq_of_shape_leaves w _ (by rw [hs, h.2.1]) (by rw [hl, h.2.2])

/-- mapping keys are never touched, even if they look like placeholders -/
theorem keys_untouched (env : Env) (kvs : List (Str × PVal)) :
    (substD env kvs).map Prod.fst = kvs.map Prod.fst := by
  induction kvs with
  | nil => rfl
  | cons kv r ih => cases kv; simp [substD, ih]

/-- **losslessness of the segmentation**: the segments are a partition of the source text -/
theorem render_scan (s : Str) : render (scan s) = s := by
  simpa [scan, pending] using render_scanAux s none

/-- **undefined placeholders (and braces that are not placeholders) are left untouched**: if no
matched name is defined, the text is unchanged — whatever else the string contains (`{}`, nested or
unbalanced braces, newlines inside braces, …) -/
theorem undefined_untouched (env : Env) (s : Str) (h : ∀ n ∈ names (scan s), env n = none) :
    substText env s = s ∧ textOf (substStr env s) = some s := by
  have h1 : substText env s = s := by
    unfold substText; rw [applySegs_undefined env _ h, render_scan]
  refine ⟨h1, ?_⟩
  unfold substStr; split
  · simp [textOf, h1]
  · rfl

/-- a matched name never contains `}` or a newline: braces spanning a line break are never
placeholders, whatever `global_vars` defines -/
theorem matched_names_clean (s : Str) : ∀ n ∈ names (scan s), ∀ c ∈ n, c ≠ '}' ∧ c ≠ '\n' :=
  names_scanAux_clean s none (by simp)

/-- tree form: if no name matched in any string leaf is defined, every leaf keeps its text -/
theorem undefined_untouched_tree (env : Env) (v : PVal)
    (h : ∀ l ∈ leaves v, ∀ s, l = .str s → ∀ n ∈ names (scan s), env n = none) :
    (leaves (substTree env v)).map textOf = (leaves v).map textOf := by
  rw [(subst_all_leaves env v).2.2, List.map_map]
  apply List.map_congr_left
  intro l hl
  cases l with
  | str s => simpa [substLeaf, textOf] using (undefined_untouched env s (h _ hl s rfl)).2
  | _ => rfl

/-- **once**: the text around the first placeholder is literal, the placeholder is replaced by the
looked-up text *as it is* (not rescanned, whatever braces it contains) or kept when undefined, and
the rest of the string is processed independently -/
theorem subst_once (env : Env) (pre name post : Str)
    (hpre : ∀ c ∈ pre, c ≠ '{') (hname : ∀ c ∈ name, c ≠ '}' ∧ c ≠ '\n') :
    substText env (pre ++ '{' :: (name ++ '}' :: post)) =
      pre ++ (match env name with | some t => t | none => '{' :: (name ++ ['}'])) ++ substText env post := by
  unfold substText
  rw [scan_lit_prefix pre _ hpre, scan_match name post hname, applySegs_append, applySegs_lits]
  cases h : env name <;> simp [applySegs, Seg.out, h]

/-- … and a string without `{` is not changed at all and stays a plain `str` -/
theorem brace_free_untouched (env : Env) (s : Str) (h : ∀ c ∈ s, c ≠ '{') : substStr env s = .str s := by
  have : scan s = lits s := by simpa [scan_nil] using scan_lit_prefix s [] h
  simp [substStr, this, hasPh_lits]

/-- **idempotent**: applying the substitution again — with the same or any other `global_vars` —
changes neither text nor representation nor type of any leaf -/
theorem subst_idempotent (env env' : Env) (v : PVal) :
    substTree env' (substTree env v) = substTree env v := substTree_idem env env' v

/-- in particular the whole value — every text, every representation source, every type tag — is
a fixed point, so a third, fourth, … application changes nothing either -/
theorem subst_fixed_point (env : Env) (envs : List Env) (v : PVal) :
    envs.foldl (fun w e => substTree e w) (substTree env v) = substTree env v := by
  induction envs with
  | nil => rfl
  | cons e r ih => simp only [List.foldl_cons, substTree_idem]; exact ih

/-- **the task sees plain text**: the value of a substituted string is exactly the substituted
text and compares equal (`==`) to the ordinary string with that text -/
theorem value_is_plain_text (env : Env) (s : Str) :
    textOf (substStr env s) = some (substText env s) ∧
    pyEq (substStr env s) (.str (substText env s)) = true := by
  unfold substStr
  split
  · simp [textOf, pyEq]
  · rename_i h
    have h' : hasPh (scan s) = false := by simpa using h
    have : substText env s = s := by unfold substText; rw [applySegs_noPh env _ h', render_scan]
    simp [textOf, pyEq, this]

/-- **the representation keeps the placeholder form**: as soon as the pattern matched, the text
used for persistence is Python's `repr` of the *source* string -/
theorem repr_keeps_placeholder (pr : Char → Bool) (env : Env) (s : Str) (h : hasPh (scan s) = true) :
    reprInst pr (substStr env s) = pyRepr pr s := by
  simp [substStr, h, reprInst, canon, reprRaw]

/-- hence the representation of a whole substituted structure does not depend on the values in
`global_vars` (only on which strings contain matches, which is a property of the source) -/
theorem repr_ignores_values (pr : Char → Bool) (env env' : Env) (v : PVal) :
    reprInst pr (substTree env v) = reprInst pr (substTree env' v) := by
  unfold reprInst
  rw [canon_substTree, canon_substTree, reprRaw_substTree pr env env']

/-- the text recorded for an object definition (`{'class': …, 'args': […], 'kwargs': {…}}`) whose
class string is a given text: it does not depend on the values in `global_vars` either — the
arguments enter through `repr_from_instantiation`, i.e. in placeholder form -/
theorem objdef_repr_ignores_values (pr : Char → Bool) (env env' : Env) (cls : Str) (args : List PVal)
    (kwargs : List (Str × PVal)) :
    instRepr pr [("class".toList, .str cls), ("args".toList, substTree env (.list args)),
                 ("kwargs".toList, substTree env (.dict kwargs))] =
    instRepr pr [("class".toList, .str cls), ("args".toList, substTree env' (.list args)),
                 ("kwargs".toList, substTree env' (.dict kwargs))] := by
  have ha : (substL env args).map (reprInst pr) = (substL env' args).map (reprInst pr) := by
    rw [substL_eq_map, substL_eq_map, List.map_map, List.map_map]
    apply List.map_congr_left
    intro a _
    exact repr_ignores_values pr env env' a
  have hk : (substD env kwargs).map (fun kv : Str × PVal => kv.1 ++ '=' :: reprInst pr kv.2)
      = (substD env' kwargs).map (fun kv : Str × PVal => kv.1 ++ '=' :: reprInst pr kv.2) := by
    rw [substD_eq_map, substD_eq_map, List.map_map, List.map_map]
    apply List.map_congr_left
    intro a _
    simp only [Function.comp]
    rw [repr_ignores_values pr env env' a.2]
  have l1 : ∀ a k : PVal, lookup "class".toList [("class".toList, PVal.str cls), ("args".toList, a), ("kwargs".toList, k)]
      = some (.str cls) := fun _ _ => rfl
  have l2 : ∀ a k : PVal, lookup "args".toList [("class".toList, PVal.str cls), ("args".toList, a), ("kwargs".toList, k)]
      = some a := fun _ _ => rfl
  have l3 : ∀ a k : PVal, lookup "kwargs".toList [("class".toList, PVal.str cls), ("args".toList, a), ("kwargs".toList, k)]
      = some k := fun _ _ => rfl
  simp only [instRepr, l1, l2, l3, substTree, elemsOf, itemsOf, Option.getD_some, ha, hk]

/-- **copies keep value and representation** (repair F6): `__copy__`/`__deepcopy__` of a `ReprStr`
yield an instance with the same three pieces of state, so any number of copies is the original -/
theorem copy_keeps_repr (pr : Char → Bool) (value src : Str) :
    (ReprStrObj.new pr value src).copy pr = ReprStrObj.new pr value src := rfl

/-- deep copies of whole structures (config data, contexts) are the same value, hence have the same
representation and the same storage keys -/
theorem deepcopy_keeps_repr (pr : Char → Bool) (v : PVal) :
    deepcopy pr v = v ∧ reprInst pr (deepcopy pr v) = reprInst pr v := by
  have := deepcopy_id pr v
  exact ⟨this, by rw [this]⟩

/-- the behaviour before repair F6, for contrast: the copy's representation is the repr *of the
repr* — a different text for every string, hence other keys -/
theorem copy_preF6_changes_repr (pr : Char → Bool) (value src : Str) :
    ((ReprStrObj.new pr value src).copyPreF6 pr).repr ≠ (ReprStrObj.new pr value src).repr := by
  simp only [ReprStrObj.copyPreF6, ReprStrObj.new]
  intro h
  have := congrArg List.length h
  have hl := pyRepr_length_gt pr (pyRepr pr src)
  omega

/-! ## concrete instances: braces that are not placeholders -/

def envA : Env := fun n => if n = ['A'] then some "x{B}".toList else if n = ['B'] then some "y".toList else none

/-- `{}` is a match with the empty name: undefined, text unchanged, but the string becomes a `ReprStr` -/
example : substStr envA "a{}b".toList = .rstr "a{}b".toList "a{}b".toList := by rfl
/-- `{{A}}`: the match is `{{A}` with the name `{A` — not `A` — so nothing is replaced -/
example : substStr envA "{{A}}".toList = .rstr "{{A}}".toList "{{A}}".toList := by rfl
/-- unbalanced braces: no match, plain `str` -/
example : substStr envA "{A".toList = .str "{A".toList := by rfl
example : substStr envA "A}".toList = .str "A}".toList := by rfl
/-- a newline inside braces: no match although `A` is defined; the later `{A}` on the next line matches -/
example : substStr envA "{A\n}{A}".toList = .rstr "{A\n}x{B}".toList "{A\n}{A}".toList := by rfl
/-- adjacent and repeated placeholders; the replacement `x{B}` is not rescanned although `B` is defined -/
example : substStr envA "{A}{B}{A}".toList = .rstr "x{B}yx{B}".toList "{A}{B}{A}".toList := by rfl
/-- `{a{A}`: lazy match from the *first* `{`, name `a{A`, undefined -/
example : substStr envA "{a{A}".toList = .rstr "{a{A}".toList "{a{A}".toList := by rfl
/-- non-vacuity of `subst_once`'s hypotheses and of `undefined_untouched`'s -/
example : substText envA ("p/".toList ++ '{' :: ("A".toList ++ '}' :: "/{B}".toList)) = "p/x{B}/y".toList := by decide
example : ∀ n ∈ names (scan "{U} {{A}} {}".toList), envA n = none := by decide

end TCV.C11
