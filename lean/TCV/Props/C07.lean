import TCV.Lemmas.StoreFrame
import TCV.Lemmas.StoreForce
import TCV.Lemmas.StoreWrote
/-!
# C07 — forcing recomputes exactly what was asked (machine level)
-/
namespace TCV.C07
open TCV.Store

variable {V : Type}

/-- **the forced set is exactly the named tasks and everything downstream of them** — defined by
inductive reachability over the declared edges, for any DAG (objects listed in dependency order) -/
theorem force_marks_exactly (U : Universe) (S nodes : List Nat) (hord : DepOrder U nodes) (hnd : nodes.Nodup) (x : Nat) :
    x ∈ descendants U S nodes [] ↔ Reach U nodes S x :=
  descendants_spec U S nodes hord hnd x

/-! effect of forcing a set of tasks on the state -/

theorem forceAll_forced (U : Universe) (del : Bool) : ∀ (ts : List Nat) (s : St V) (j : Nat),
    (forceAll U del s ts).forced j = (s.forced j || ts.contains j)
  | [], s, j => by simp [forceAll]
  | t :: ts, s, j => by
    rw [forceAll, forceAll_forced U del ts]
    simp only [forceTask, upd]
    by_cases h : j = t
    · subst h; simp
    · have h' : (t == j) = false := by simp [Ne.symm h]
      simp [h, Bool.or_comm]

theorem forceAll_mem (U : Universe) (del : Bool) : ∀ (ts : List Nat) (s : St V) (j : Nat),
    (forceAll U del s ts).mem j = if ts.contains j then none else s.mem j
  | [], s, j => by simp [forceAll]
  | t :: ts, s, j => by
    rw [forceAll, forceAll_mem U del ts]
    simp only [forceTask, upd]
    by_cases h : j = t
    · subst h; simp
    · have h' : (t == j) = false := by simp [Ne.symm h]
      simp [h]

theorem forceAll_runs (U : Universe) (del : Bool) : ∀ (ts : List Nat) (s : St V),
    (forceAll U del s ts).runs = s.runs
  | [], s => rfl
  | t :: ts, s => by rw [forceAll, forceAll_runs U del ts]; rfl

/-- without `delete_data` the store is untouched -/
theorem forceAll_store_keep (U : Universe) : ∀ (ts : List Nat) (s : St V),
    (forceAll U false s ts).store = s.store
  | [], s => rfl
  | t :: ts, s => by rw [forceAll, forceAll_store_keep U ts]; simp [forceTask]

/-- with `delete_data` exactly the stored results of the forced persisting tasks are removed -/
theorem forceAll_store_delete (U : Universe) : ∀ (ts : List Nat) (s : St V) (l : Nat),
    (forceAll U true s ts).store l =
      if ts.any (fun t => (obj U t).persist && (obj U t).loc == l) then none else s.store l
  | [], s, l => by simp [forceAll]
  | t :: ts, s, l => by
    rw [forceAll, forceAll_store_delete U ts]
    simp only [forceTask, List.any_cons, Bool.true_and]
    by_cases hp : (obj U t).persist = true
    · by_cases hl : (obj U t).loc = l
      · subst hl; simp [hp, upd]
      · have : ((obj U t).loc == l) = false := by simp [hl]
        simp [hp, this, upd, Ne.symm hl]
    · have hp' : (obj U t).persist = false := by simpa using hp
      simp [hp']

/-- `chain.force(S)`: marks exactly the downstream closure, clears exactly their memory, runs nothing,
leaves everything else (upstream, unrelated tasks, the store unless `delete_data`) as it was -/
theorem chainForce_effect (U : Universe) (f : Nat → List V → V) (fuel : Nat) (s : St V)
    (nodes S order : List Nat) (del : Bool) (hord : DepOrder U nodes) (hnd : nodes.Nodup) :
    let s' := (step U f fuel s (.chainForce nodes S del false order)).1
    (∀ j, s'.forced j = true ↔ (s.forced j = true ∨ Reach U nodes S j)) ∧
    (∀ j, ¬ Reach U nodes S j → s'.mem j = s.mem j) ∧
    (∀ j, Reach U nodes S j → s'.mem j = none) ∧
    s'.runs = s.runs ∧
    (del = false → s'.store = s.store) := by
  simp only [step, Bool.false_eq_true, if_false]
  refine ⟨?_, ?_, ?_, forceAll_runs U del _ s, ?_⟩
  · intro j
    rw [forceAll_forced]
    simp only [Bool.or_eq_true, List.contains_iff_mem]
    rw [descendants_spec U S nodes hord hnd j]
  · intro j hj
    rw [forceAll_mem]
    have : ¬ j ∈ descendants U S nodes [] := fun hc => hj ((descendants_spec U S nodes hord hnd j).mp hc)
    simp [this]
  · intro j hj
    rw [forceAll_mem]
    have : j ∈ descendants U S nodes [] := (descendants_spec U S nodes hord hnd j).mpr hj
    simp [this]
  · intro hd
    subst hd
    exact forceAll_store_keep U _ s

/-- a forced task's next request does not load the stored result: it goes through `run`, and when it
succeeds the stored result is replaced by the new value and the run is logged -/
theorem forced_runs_again (U : Universe) (f : Nat → List V → V) (fails : Nat → Bool) (fuel : Nat)
    (s s' : St V) (i : Nat) (v : V) (hm : s.mem i = none) (hf : s.forced i = true)
    (h : value U f fails (fuel + 1) s i = (s', some v)) :
    i ∈ s'.runs ∧ s'.mem i = some v ∧ ((obj U i).persist = true → s'.store (obj U i).loc = some v) := by
  simp only [value, hm, hf, Bool.not_true, Bool.and_false, Bool.false_eq_true, if_false] at h
  split at h
  · cases h
  · rename_i s1 as hl
    split at h
    · cases h
    · rename_i s3 ps hl3
      split at h
      · cases h
      · cases h
        have fr := frame_list_step _ (frame_all U f fails fuel) _ _ _ _ hl3
        obtain ⟨new, hnew⟩ := fr.runs_ext
        refine ⟨?_, by simp [upd], fun hp => by simp [hp, upd]⟩
        simp only [hnew]
        simp

/-- **a forced task runs exactly once on its next request** (no failures): it is appended to the run log exactly
once, ends in memory, and its stored result is (re)written; nothing that had a result in memory runs -/
theorem forced_runs_once (U : Universe) (f : Nat → List V → V) (htopo : Topo U) (fuel : Nat)
    (s : St V) (i : Nat) (hi : i < fuel) (hf : s.forced i = true) (hm : s.mem i = none) :
    ∃ s' v new, value U f nofailF fuel s i = (s', some v) ∧ s'.runs = s.runs ++ new ∧ new.count i = 1 ∧
      s'.mem i = some v ∧ ((obj U i).persist = true → (s'.store (obj U i).loc).isSome) ∧
      (∀ j ∈ new, s.mem j = none) := by
  obtain ⟨s', v, new, hv, a, hmi⟩ := facct_all U f htopo fuel s i hi
  have hin : i ∈ new := by
    rcases a.forcedMem i hf hmi with h | h
    · rw [hm] at h; cases h
    · exact h
  refine ⟨s', v, new, hv, a.runs, (by rw [List.Nodup.count a.nodup]; simp [hin]), ?_, a.stored i hin, a.wasNone⟩
  -- the value returned is the one now in memory: a second request returns it from memory
  cases fuel with
  | zero => omega
  | succ n =>
    simp only [value, hm, hf, Bool.not_true, Bool.and_false, Bool.false_eq_true, if_false] at hv
    split at hv
    · cases hv
    · split at hv
      · cases hv
      · split at hv
        · cases hv
        · cases hv; simp [upd]

/-- **`recompute` leaves every forced task recomputed exactly once — for every iteration order.**
After `chain.force(S, recompute=True)` on any state: every task of the downstream closure appears exactly once in the
runs appended by the recomputation, whatever order `order` the forced set is iterated in (any list containing the
forced set), is in memory afterwards and (if persisting) stored; and every request returned a value. -/
theorem recompute_all_once (U : Universe) (f : Nat → List V → V) (htopo : Topo U) (fuel : Nat) (s : St V)
    (F order : List Nat) (del : Bool) (hord : ∀ x ∈ F, x ∈ order) (hlt : ∀ t ∈ order, t < fuel) :
    let s1 := forceAll U del s F
    let s2 := (valueAll U f nofailF fuel s1 order).1
    ∃ app, s2.runs = s.runs ++ app ∧ app.Nodup ∧
      (∀ x ∈ F, app.count x = 1 ∧ (s2.mem x).isSome ∧ ((obj U x).persist = true → (s2.store (obj U x).loc).isSome)) ∧
      (∀ r ∈ (valueAll U f nofailF fuel s1 order).2, r.isSome) := by
  intro s1 s2
  obtain ⟨app, a, hmem, hres⟩ := facct_valueAll U f htopo fuel order s1 hlt
  refine ⟨app, by rw [a.runs, forceAll_runs], a.nodup, ?_, hres⟩
  intro x hx
  have hf1 : s1.forced x = true := by
    show (forceAll U del s F).forced x = true
    rw [forceAll_forced]; simp [hx]
  have hm1 : s1.mem x = none := by
    show (forceAll U del s F).mem x = none
    rw [forceAll_mem]; simp [hx]
  have hsome := hmem x (hord x hx)
  have hin : x ∈ app := by
    rcases a.forcedMem x hf1 hsome with h | h
    · rw [hm1] at h; cases h
    · exact h
  exact ⟨(by rw [List.Nodup.count a.nodup]; simp [hin]), hsome, a.stored x hin⟩

/-- **a recomputation with `delete_data` that is cut short by a failing run leaves no stale result**: whatever is stored
afterwards at the location of a forced persisting task was written by a run of this very operation (for ANY set of failing
bodies, any requested order); and nothing outside the locations of tasks run in this operation or deleted by it changes -/
theorem failed_recompute_leaves_no_stale (U : Universe) (f : Nat → List V → V) (fuel : Nat) (s : St V)
    (nodes S order failing : List Nat) :
    let s' := (step U f fuel s (.chainForceF nodes S true order failing)).1
    ∃ new, s'.runs = s.runs ++ new ∧
      ∀ j, j ∈ descendants U S nodes [] → (obj U j).persist = true → (s'.store (obj U j).loc).isSome = true →
        ∃ k ∈ new, (obj U k).persist = true ∧ (obj U k).loc = (obj U j).loc := by
  simp only [step]
  cases hva : valueAllStop U f (fun j => failing.contains j) fuel (forceAll U true s (descendants U S nodes [])) order with
  | mk s2 rs =>
    obtain ⟨new, hr, hw⟩ := wrote_valueAllStop U f _ fuel order _ _ _ hva
    refine ⟨new, by rw [hr, forceAll_runs], ?_⟩
    intro j hj hp hsome
    have hnone : (forceAll U true s (descendants U S nodes [])).store (obj U j).loc = none := by
      rw [forceAll_store_delete]
      have : (descendants U S nodes []).any (fun t => (obj U t).persist && (obj U t).loc == (obj U j).loc) = true := by
        rw [List.any_eq_true]
        exact ⟨j, hj, by simp [hp]⟩
      simp [this]
    apply hw
    intro heq
    simp only at hsome
    rw [heq, hnone] at hsome
    simp at hsome

/-- `task.reset_data()` forgets the value held in memory and nothing else: the task stays forced (so a forced task still runs again
on its next request, `forced_runs_again`), stored results and the run log are untouched -/
theorem reset_keeps_forced {V : Type} (U : Store.Universe) (f : Nat → List V → V) (fuel : Nat) (s : Store.St V) (i : Nat) :
    (Store.step U f fuel s (.reset i)).1.forced = s.forced ∧ (Store.step U f fuel s (.reset i)).1.store = s.store ∧
    (Store.step U f fuel s (.reset i)).1.runs = s.runs ∧ (Store.step U f fuel s (.reset i)).1.mem i = none := by
  simp [Store.step, Store.upd_same]

end TCV.C07
