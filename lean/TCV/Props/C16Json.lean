import TCV.Props.C16
import TCV.Props.C02
import TCV.Props.C03Dag
import TCV.Lemmas.JsonInj
/-!
# C16 — the injectivity hypothesis of `different_binding_different_key`, discharged for `json.dumps`

`cached` serialises the keyword dictionary with `json.dumps(…, sort_keys=True)` (`Json.dumpsStd`).  With `dumpsRaw_injective`
(`Lemmas/JsonInj.lean`) the encoder is injective on sorted dictionaries of JSON values in canonical form (nested mappings in
key order — what `sort_keys` produces for every value, so two Python-equal arguments have one canonical form) whose number
tokens are well-formed.  `different_binding_different_key_json` is the C16 theorem without an injectivity assumption.
-/
namespace TCV.C16
open TCV TCV.Cached TCV.Json TCV.PVal

/-- an argument value as `cached` sees it through `json.dumps(sort_keys=True)`: a JSON value in canonical form -/
structure KeyVal where
  val : JVal
  canon : sortKeys val = val
  wf : Json.WF val

theorem KeyVal.ext' : ∀ (a b : KeyVal), a.val = b.val → a = b
  | ⟨v, _, _⟩, ⟨w, _, _⟩, h => by cases h; rfl

def plain (kvs : List (Str × KeyVal)) : List (Str × JVal) := kvs.map (fun kv => (kv.1, kv.2.val))

/-- the text `cached` uses as cache key for a keyword dictionary -/
def encJ (kvs : List (Str × KeyVal)) : Str := dumpsStd (.obj (plain kvs))

theorem sortKeysO_canon : ∀ (kvs : List (Str × KeyVal)), sortKeysO (plain kvs) = plain kvs
  | [] => rfl
  | (k, v) :: r => by
    simp only [plain, List.map_cons, sortKeysO, v.canon]
    have := sortKeysO_canon r
    simp only [plain] at this
    rw [this]

theorem wfo_plain : ∀ (kvs : List (Str × KeyVal)), Json.WFO (plain kvs)
  | [] => trivial
  | (_, v) :: r => ⟨v.wf, wfo_plain r⟩

theorem wfo_perm {a b : List (Str × JVal)} (h : a.Perm b) (hw : Json.WFO a) : Json.WFO b := by
  have key : ∀ l : List (Str × JVal), Json.WFO l ↔ ∀ kv ∈ l, Json.WF kv.2 := by
    intro l
    induction l with
    | nil => simp [Json.WFO]
    | cons x l ih => obtain ⟨k, v⟩ := x; simp [Json.WFO, ih]
  rw [key] at hw ⊢
  intro kv hkv
  exact hw kv (h.symm.subset hkv)

theorem sortItems_plain (kvs : List (Str × KeyVal)) : sortItems (plain kvs) = plain (sortItems kvs) := by
  unfold sortItems plain
  exact (C02.isort_map (fun kv : Str × KeyVal => (kv.1, kv.2.val)) (fun a b : Str × JVal => strLe a.1 b.1) kvs).symm

theorem sortItems_idem {β} (l : List (Str × β)) (hn : (l.map (·.1)).Nodup) : sortItems (sortItems l) = sortItems l := by
  unfold sortItems
  apply isort_of_pairwise _ (fun a b => strLe_total a.1 b.1) (fun a b c => strLe_trans a.1 b.1 c.1)
  · exact isort_pairwise _ (fun a b => strLe_total a.1 b.1) (fun a b c => strLe_trans a.1 b.1 c.1) l
  · intro a b ha hb h1 h2
    have hk := strLe_antisymm a.1 b.1 h1 h2
    have hperm := isort_perm (fun a b : Str × β => strLe a.1 b.1) l
    have hn' : ((isort (fun a b : Str × β => strLe a.1 b.1) l).map (·.1)).Nodup :=
      (List.Perm.nodup_iff (hperm.map _)).mpr hn
    exact C03.inj_of_nodup_map (·.1) _ hn' a b ha hb hk

theorem map_plain_inj : ∀ (a b : List (Str × KeyVal)), plain a = plain b → a = b
  | [], [], _ => rfl
  | [], _ :: _, h => by simp [plain] at h
  | _ :: _, [], h => by simp [plain] at h
  | (k, v) :: a, (k', v') :: b, h => by
    simp only [plain, List.map_cons, List.cons.injEq, Prod.mk.injEq] at h
    have := map_plain_inj a b (by simpa [plain] using h.2)
    rw [h.1.1, KeyVal.ext' v v' h.1.2, this]

/-- **`json.dumps(…, sort_keys=True)` is injective on sorted keyword dictionaries** -/
theorem encJ_injective (a b : List (Str × KeyVal)) (ha : (keys a).Nodup) (hb : (keys b).Nodup)
    (h : encJ (sortItems a) = encJ (sortItems b)) : sortItems a = sortItems b := by
  have norm : ∀ l : List (Str × KeyVal), (keys l).Nodup →
      encJ (sortItems l) = dumpsRaw (.obj (plain (sortItems l))) := by
    intro l hl
    unfold encJ dumpsStd
    simp only [sortKeys]
    rw [sortKeysO_canon, sortItems_plain, sortItems_idem l hl]
  rw [norm a ha, norm b hb] at h
  have := dumpsRaw_injective (.obj (plain (sortItems a))) (.obj (plain (sortItems b))) (by simp only [Json.WF]; exact wfo_plain _) (by simp only [Json.WF]; exact wfo_plain _) h
  exact map_plain_inj _ _ (by simpa using this)

/-- **calls that differ in a non-ignored argument use different cache keys** — for `json.dumps` itself, no assumption on the
encoder left: arguments are JSON values (canonical form, well-formed number tokens) -/
theorem different_binding_different_key_json (sig : Sig KeyVal) (ign : List Str) (c₁ c₂ : Call KeyVal)
    (h₁ : valid sig c₁ = true) (h₂ : valid sig c₂ = true)
    (m : Str) (hm : m ∉ ign) (hd : dget (binding sig c₁) m ≠ dget (binding sig c₂) m) :
    cacheKey encJ sig ign c₁ ≠ cacheKey encJ sig ign c₂ :=
  different_binding_different_key encJ encJ_injective sig ign c₁ c₂ h₁ h₂ m hm hd

/-- non-vacuity: a nested argument value in canonical form with a negative float token and an escaped string -/
example : ∃ v : KeyVal, v.val = .obj [("a".toList, .arr [.num "-1.5e-07".toList, .null]), ("b".toList, .str "é\n".toList)] :=
  ⟨⟨_, by simp [sortKeys, sortKeysO, sortKeysL, sortItems, isort, insertBy, strLe], by
    simp only [Json.WF, Json.WFO, Json.WFL, NumOK, and_true]
    refine ⟨by decide, by decide, by decide, by decide, by decide⟩⟩, rfl⟩

example : dumpsStd (.obj [("b".toList, .str "é\n".toList), ("a".toList, .arr [.num "-1.5e-07".toList, .null])]) =
    "{\"a\": [-1.5e-07, null], \"b\": \"\\u00e9\\n\"}".toList := by decide

end TCV.C16
