import TCV.Lemmas.Cached
import TCV.Props.C14
/-!
# C16 — `cached` keys identify the call, not how it was written

Model: `TCV.Cached` (the decorator's normalisation loop, transcribed) against Python's own binding
(`binding`, `valid`), and `TCV.Cache` for what is done with the key.
Quantifiers: every signature (any number of positional-or-keyword and keyword-only parameters, any
defaults), every *valid* call (Python's binding succeeds), every value type, every list of ignored
names, every encoder `enc` of the sorted dictionary (for `different_binding_different_key`:
injective on sorted dictionaries — `json.dumps(…, sort_keys=True)` on JSON-distinguishable values,
an assumption here), every cache state.  No bound on arities or sequence lengths.
-/
namespace TCV.C16
open TCV TCV.Cached

variable {V : Type}

/-- **the dictionary that is serialised is Python's binding with defaults filled, minus ignored
names** (sorted by name), for every valid call -/
theorem key_is_binding (sig : Sig V) (ign : List Str) (c : Call V) (h : valid sig c = true) :
    keyDict sig ign c = PVal.sortItems (dropIgnored ign (binding sig c)) := by
  have hp := normalise_perm_binding sig c h
  have hkn : (keys (normalise sig c)).Nodup := by
    simp only [valid, Bool.and_eq_true, decide_eq_true_eq] at h
    exact keys_normLoop_nodup _ _ _ _ h.1.1.1.2
  unfold keyDict
  apply sortItems_perm _ _ (keys_filter_nodup ign _ hkn)
  exact hp.filter _

/-- the method itself is called with exactly the bound values (all as keywords) -/
theorem method_gets_binding (sig : Sig V) (c : Call V) (h : valid sig c = true) :
    PVal.sortItems (normalise sig c) = PVal.sortItems (binding sig c) := by
  have := key_is_binding sig [] c h
  have hnil : ∀ l : List (Str × V), dropIgnored [] l = l := by
    intro l; simp [dropIgnored]
  rw [keyDict, hnil, hnil] at this
  exact this

/-- **every spelling of one binding gives one key**: positional or keyword, any keyword order,
defaults spelled or omitted -/
theorem same_binding_same_key (enc : List (Str × V) → Str) (sig : Sig V) (ign : List Str) (c₁ c₂ : Call V)
    (h₁ : valid sig c₁ = true) (h₂ : valid sig c₂ = true) (hb : binding sig c₁ = binding sig c₂) :
    cacheKey enc sig ign c₁ = cacheKey enc sig ign c₂ := by
  unfold cacheKey
  rw [key_is_binding sig ign c₁ h₁, key_is_binding sig ign c₂ h₂, hb]

theorem dropIgnored_congr (ign : List Str) : ∀ (a b : List (Str × V)), keys a = keys b →
    (∀ m, m ∉ ign → dget a m = dget b m) → (keys a).Nodup → dropIgnored ign a = dropIgnored ign b
  | [], [], _, _, _ => rfl
  | [], _ :: _, hk, _, _ => by simp [keys] at hk
  | _ :: _, [], hk, _, _ => by simp [keys] at hk
  | (k, v) :: ra, (k', v') :: rb, hk, hd, hn => by
    simp only [keys, List.map_cons, List.cons.injEq] at hk
    obtain ⟨hkk, hrest⟩ := hk
    subst hkk
    have hn' : k ∉ keys ra ∧ (keys ra).Nodup := by simpa [keys] using hn
    have ih := dropIgnored_congr ign ra rb hrest (by
      intro m hm
      have := hd m hm
      simp only [dget] at this
      by_cases hkm : k = m
      · subst hkm
        rw [dget_none_of_not_mem ra k hn'.1, dget_none_of_not_mem rb k (by rw [show keys rb = keys ra from hrest.symm]; exact hn'.1)]
      · simpa [hkm] using this) hn'.2
    simp only [dropIgnored, List.filter_cons] at ih ⊢
    cases hi : ign.contains k with
    | true => simpa using ih
    | false =>
      have hv : v = v' := by
        have := hd k (by simpa using hi)
        simpa [dget] using this
      subst hv
      simp only [Bool.not_false, if_true]
      rw [ih]

/-- **ignored arguments never matter**: two valid calls whose bindings agree on every non-ignored
parameter use the same key -/
theorem ignored_never_matter (enc : List (Str × V) → Str) (sig : Sig V) (ign : List Str) (c₁ c₂ : Call V)
    (h₁ : valid sig c₁ = true) (h₂ : valid sig c₂ = true)
    (hb : ∀ m, m ∉ ign → dget (binding sig c₁) m = dget (binding sig c₂) m) :
    cacheKey enc sig ign c₁ = cacheKey enc sig ign c₂ := by
  unfold cacheKey
  rw [key_is_binding sig ign c₁ h₁, key_is_binding sig ign c₂ h₂]
  have hk : keys (binding sig c₁) = keys (binding sig c₂) := by
    rw [binding_names sig c₁ h₁, binding_names sig c₂ h₂]
  have hn : (keys (binding sig c₁)).Nodup := by
    rw [binding_names sig c₁ h₁]
    simp only [valid, wfSig, Bool.and_eq_true, decide_eq_true_eq] at h₁
    exact h₁.1.1.1.1.1.1
  rw [dropIgnored_congr ign _ _ hk hb hn]

theorem dget_perm (a b : List (Str × V)) (ha : (keys a).Nodup) (hp : a.Perm b) (m : Str) :
    dget a m = dget b m := by
  have hb : (keys b).Nodup := by
    unfold keys at ha ⊢
    exact (hp.map _).nodup_iff.mp ha
  cases h : dget a m with
  | some v =>
    have := (mem_iff_dget a ha m v).mpr h
    exact ((mem_iff_dget b hb m v).mp (hp.subset this)).symm
  | none =>
    cases h' : dget b m with
    | none => rfl
    | some v =>
      have := (mem_iff_dget b hb m v).mpr h'
      have := (mem_iff_dget a ha m v).mp (hp.symm.subset this)
      rw [h] at this; cases this

theorem dget_dropIgnored (ign : List Str) (a : List (Str × V)) (m : Str) (hm : m ∉ ign) :
    dget (dropIgnored ign a) m = dget a m := by
  induction a with
  | nil => rfl
  | cons x r ih =>
    obtain ⟨k, v⟩ := x
    simp only [dropIgnored, List.filter_cons]
    by_cases hi : ign.contains k = true
    · have hkm : k ≠ m := by
        intro e; subst e; exact hm (by simpa using hi)
      simp only [hi, Bool.not_true, Bool.false_eq_true, if_false, dget, if_neg hkm]
      exact ih
    · simp only [Bool.not_eq_true] at hi
      simp only [hi, Bool.not_false, if_true, dget]
      by_cases hkm : k = m
      · simp [hkm]
      · simp only [if_neg hkm]; exact ih

/-- **calls that differ in a non-ignored argument use different keys** — for an encoder that is
injective on sorted dictionaries (`json.dumps` on values with different JSON text) -/
theorem different_binding_different_key (enc : List (Str × V) → Str)
    (hinj : ∀ a b : List (Str × V), (keys a).Nodup → (keys b).Nodup →
      enc (PVal.sortItems a) = enc (PVal.sortItems b) → PVal.sortItems a = PVal.sortItems b)
    (sig : Sig V) (ign : List Str) (c₁ c₂ : Call V)
    (h₁ : valid sig c₁ = true) (h₂ : valid sig c₂ = true)
    (m : Str) (hm : m ∉ ign) (hd : dget (binding sig c₁) m ≠ dget (binding sig c₂) m) :
    cacheKey enc sig ign c₁ ≠ cacheKey enc sig ign c₂ := by
  intro he
  unfold cacheKey at he
  rw [key_is_binding sig ign c₁ h₁, key_is_binding sig ign c₂ h₂] at he
  have hn : ∀ c, valid sig c = true → (keys (binding sig c)).Nodup := by
    intro c hc
    rw [binding_names sig c hc]
    simp only [valid, wfSig, Bool.and_eq_true, decide_eq_true_eq] at hc
    exact hc.1.1.1.1.1.1
  have n1 := keys_filter_nodup ign _ (hn c₁ h₁)
  have n2 := keys_filter_nodup ign _ (hn c₂ h₂)
  have hs := hinj _ _ n1 n2 he
  have p1 := isort_perm (fun a b : Str × V => PVal.strLe a.1 b.1) (dropIgnored ign (binding sig c₁))
  have p2 := isort_perm (fun a b : Str × V => PVal.strLe a.1 b.1) (dropIgnored ign (binding sig c₂))
  have hperm : (dropIgnored ign (binding sig c₁)).Perm (dropIgnored ign (binding sig c₂)) := by
    unfold PVal.sortItems at hs
    exact p1.symm.trans (hs ▸ p2)
  have := dget_perm _ _ n1 hperm m
  rw [dget_dropIgnored ign _ m hm, dget_dropIgnored ign _ m hm] at this
  exact hd this

/-! ### methods and versions -/

theorem append_dot_inj (a b v w : Str) (ha : '.' ∉ a) (hb : '.' ∉ b)
    (h : a ++ '.' :: v = b ++ '.' :: w) : a = b ∧ v = w := by
  induction a generalizing b with
  | nil =>
    cases b with
    | nil => simpa using h
    | cons y r =>
      simp only [List.nil_append, List.cons_append, List.cons.injEq] at h
      exact absurd (by rw [← h.1]; simp) hb
  | cons x r ih =>
    cases b with
    | nil =>
      simp only [List.nil_append, List.cons_append, List.cons.injEq] at h
      exact absurd (by rw [h.1]; simp) ha
    | cons y s =>
      simp only [List.cons_append, List.cons.injEq] at h
      have := ih s (fun hm => ha (List.mem_cons_of_mem _ hm)) (fun hm => hb (List.mem_cons_of_mem _ hm)) h.2
      exact ⟨by rw [h.1, this.1], this.2⟩

/-- **different methods and versions get different sub-caches**: the sub-cache name determines the
method name and the version (method names are Python identifiers: no `.`) -/
theorem methods_and_versions_disjoint (m₁ m₂ : Str) (v₁ v₂ : Option Str)
    (h₁ : '.' ∉ m₁) (h₂ : '.' ∉ m₂) (h : subcacheName m₁ v₁ = subcacheName m₂ v₂) : m₁ = m₂ ∧ v₁ = v₂ := by
  cases v₁ with
  | none =>
    cases v₂ with
    | none => exact ⟨h, rfl⟩
    | some w =>
      simp only [subcacheName] at h
      exact absurd (by rw [h]; simp) h₁
  | some v =>
    cases v₂ with
    | none =>
      simp only [subcacheName] at h
      exact absurd (by rw [← h]; simp) h₂
    | some w =>
      simp only [subcacheName] at h
      have := append_dot_inj m₁ m₂ v w h₁ h₂ h
      exact ⟨this.1, by rw [this.2]⟩

/-- … and with a file cache those sub-caches never share a file, whatever the keys (M-Cache) -/
theorem methods_and_versions_no_shared_file (H : Str → Str) (root : Cache.Conf) (m₁ m₂ : Str) (v₁ v₂ : Option Str)
    (h₁ : '.' ∉ m₁) (h₂ : '.' ∉ m₂) (hne : (m₁, v₁) ≠ (m₂, v₂)) (k₁ k₂ : Str) :
    Cache.pathOf H (Cache.confOf root [subcacheName m₁ v₁]) [subcacheName m₁ v₁] k₁
      ≠ Cache.pathOf H (Cache.confOf root [subcacheName m₂ v₂]) [subcacheName m₂ v₂] k₂ := by
  apply C14.subcaches_disjoint
  intro h
  simp only [List.cons.injEq, and_true] at h
  have := methods_and_versions_disjoint m₁ m₂ v₁ v₂ h₁ h₂ h
  exact hne (by rw [this.1, this.2])

/-! ### the control keywords, against M-Cache -/

/-- `only_cache=True` only looks up: the operation is `get`, which never computes and changes nothing -/
theorem only_cache_never_calls (H : Str → Str) (root : Cache.Conf) (fs : Cache.FS) (d : Cache.Dir) (key : Str)
    (result : Cache.Comp) (force : Bool) :
    toOp d key result ⟨force, true, none⟩ = some (.get d key) ∧
    (Cache.exec H root fs (.get d key)).calls = 0 ∧ (Cache.exec H root fs (.get d key)).fs = fs :=
  ⟨rfl, C14.get_never_computes H root fs d key⟩

/-- `force_cache=True` recomputes (the method runs exactly once) and replaces whatever was stored -/
theorem force_cache_recomputes (H : Str → Str) (root : Cache.Conf) (fs : Cache.FS) (d : Cache.Dir) (key : Str)
    (v : Cache.Val) (hv : C14.Storable (Cache.confOf root d) v) :
    toOp d key (.ret v) ⟨true, false, none⟩ = some (.goc d key (.ret v) true) ∧
    methodCalls ⟨true, false, none⟩ (Cache.exec H root fs (.goc d key (.ret v) true)).calls = 1 ∧
    (Cache.exec H root fs (.goc d key (.ret v) true)).out = .val v ∧
    (Cache.exec H root fs (.goc d key (.ret v) true)).fs (Cache.pathOf H (Cache.confOf root d) d key) = .entry key v := by
  have := C14.force_recomputes_and_replaces H root fs d key v hv
  refine ⟨rfl, ?_, this.1, this.2.2⟩
  simp [methodCalls, this.2.1]

/-- `store_cache_value=x` never runs the method: the computer is the constant `x`; when nothing
usable is stored (or with `force_cache`) `x` is stored and returned, otherwise the stored value wins -/
theorem store_cache_value_never_calls (d : Cache.Dir) (key : Str) (result : Cache.Comp) (force : Bool)
    (x : Cache.Val) (n : Nat) :
    toOp d key result ⟨force, false, some x⟩ = some (.goc d key (.ret x) force) ∧
    methodCalls ⟨force, false, some x⟩ n = 0 :=
  ⟨rfl, rfl⟩

theorem store_cache_value_stores (H : Str → Str) (root : Cache.Conf) (fs : Cache.FS) (d : Cache.Dir) (key : Str)
    (x : Cache.Val) (hv : C14.Storable (Cache.confOf root d) x)
    (hf : fs (Cache.pathOf H (Cache.confOf root d) d key) = .absent ∨ fs (Cache.pathOf H (Cache.confOf root d) d key) = .corrupt) :
    (Cache.exec H root fs (.goc d key (.ret x) false)).out = .val x ∧
    (Cache.exec H root fs (.goc d key (.ret x) false)).fs (Cache.pathOf H (Cache.confOf root d) d key) = .entry key x :=
  let h := C14.damaged_is_recomputed H root fs d key x false hv hf
  ⟨h.2.1, h.2.2.2⟩

/-- without control keywords: a plain `get_or_compute` whose computer is the method -/
theorem plain_call (d : Cache.Dir) (key : Str) (result : Cache.Comp) :
    toOp d key result ⟨false, false, none⟩ = some (.goc d key result false) := rfl

/-- `store_cache_value` together with `only_cache` trips the assertion -/
theorem store_with_only_cache_rejected (d : Cache.Dir) (key : Str) (result : Cache.Comp) (force : Bool) (x : Cache.Val) :
    toOp d key result ⟨force, true, some x⟩ = none := rfl

/-! ### non-vacuity, and what the code does outside the domain -/

def sigEx : Sig Nat :=
  [⟨"a".toList, false, none⟩, ⟨"b".toList, false, some 7⟩, ⟨"k".toList, true, some 9⟩, ⟨"z".toList, true, none⟩]

/-- four spellings of one binding of `def m(self, a, b=7, *, k=9, z)` are valid calls with one key dictionary -/
example : valid sigEx ⟨[1, 7], [("z".toList, 3)]⟩ = true ∧ valid sigEx ⟨[1], [("z".toList, 3), ("k".toList, 9)]⟩ = true ∧
    valid sigEx ⟨[], [("z".toList, 3), ("b".toList, 7), ("a".toList, 1)]⟩ = true ∧
    keyDict sigEx ["k".toList] ⟨[1, 7], [("z".toList, 3)]⟩ = [("a".toList, 1), ("b".toList, 7), ("z".toList, 3)] ∧
    keyDict sigEx ["k".toList] ⟨[], [("z".toList, 3), ("b".toList, 7), ("a".toList, 1)]⟩ = [("a".toList, 1), ("b".toList, 7), ("z".toList, 3)] := by
  decide

/-- method names are identifiers: no dot (hypothesis of `methods_and_versions_disjoint`); the two
confusable pairs `m` + version `2` and `m2` without version get different sub-caches -/
example : '.' ∉ "m2".toList ∧ subcacheName "m".toList (some "2".toList) ≠ subcacheName "m2".toList none := by decide

/-- an injective encoder on sorted dictionaries exists (hypothesis of `different_binding_different_key`) -/
example : ∀ a b : List (Str × Nat), (keys a).Nodup → (keys b).Nodup →
    (fun l => l) (PVal.sortItems a) = (fun l => l) (PVal.sortItems b) → PVal.sortItems a = PVal.sortItems b :=
  fun _ _ _ _ h => h

/-- outside the domain (calls Python rejects) the code does **not** raise by itself: a surplus
positional argument is silently bound to a keyword-only parameter, and a keyword given twice is
overridden by the positional value -/
example : valid sigEx ⟨[1, 2, 5], [("z".toList, 3)]⟩ = false ∧
    keyDict sigEx [] ⟨[1, 2, 5], [("z".toList, 3)]⟩ = [("a".toList, 1), ("b".toList, 2), ("k".toList, 5), ("z".toList, 3)] ∧
    valid sigEx ⟨[1], [("a".toList, 4), ("z".toList, 3)]⟩ = false ∧
    keyDict sigEx [] ⟨[1], [("a".toList, 4), ("z".toList, 3)]⟩ = [("a".toList, 1), ("b".toList, 7), ("k".toList, 9), ("z".toList, 3)] := by
  decide

end TCV.C16
