import TCV.Lemmas.Names
/-!
# C10 — task names resolve uniquely or not at all

`findFull` is `_find_task_full_name` (used by `Chain[...]`, `in`, `task.input_tasks[...]` and input
resolution).  All statements hold for every list of names and every query string, without any
well-formedness assumption on the strings, and for both values of `determine_namespace`.
-/
namespace TCV.C10
open TCV.Names

/-- the matches of a query -/
def matchesOf (d : Bool) (q : Str) (names : List Str) : List Str := names.filter (nameMatch d q)

/-- a task is always addressable by its own full name, whatever else is in the chain -/
theorem full_name_resolves (n : Str) (names : List Str) (d : Bool) (h : n ∈ names) :
    findFull n names d = .ok n := by
  have hm : n ∈ names.filter (nameMatch d n) := List.mem_filter.mpr ⟨h, nameMatch_self d n⟩
  unfold findFull
  generalize names.filter (nameMatch d n) = ms at hm
  match ms, hm with
  | [m], hm => simp at hm; simp [hm]
  | a :: b :: r, hm =>
    have : (a :: b :: r).contains n = true := by simpa using hm
    simp only [this, if_true]

/-- a shorter form that matches exactly one task resolves to it -/
theorem unique_short_resolves (q m : Str) (names : List Str) (d : Bool) (h : matchesOf d q names = [m]) :
    findFull q names d = .ok m := by
  unfold matchesOf at h
  simp [findFull, h]

/-- whatever is returned is one of the tasks, matches the query, and — when there are several
matches — is the query itself or is a suffix of every other match starting right after a `:`
(the less-nested form of all the others) -/
theorem resolves_only_when_less_nested (q r : Str) (names : List Str) (d : Bool)
    (h : findFull q names d = .ok r) :
    r ∈ names ∧ nameMatch d q r = true ∧
      ∀ t ∈ names, nameMatch d q t = true → t = r ∨ r = q ∨ (':' :: r) <:+ t := by
  unfold findFull at h
  have hmem : ∀ x, x ∈ names.filter (nameMatch d q) ↔ x ∈ names ∧ nameMatch d q x = true :=
    fun x => List.mem_filter
  generalize names.filter (nameMatch d q) = ms at h hmem
  match ms, h with
  | [m], h =>
    simp at h; subst h
    have := (hmem m).mp (by simp)
    refine ⟨this.1, this.2, fun t ht hmt => Or.inl ?_⟩
    have := (hmem t).mpr ⟨ht, hmt⟩
    simpa using this
  | a :: b :: rest, h =>
    simp only at h
    split at h
    · rename_i hc
      cases h
      have hq : q ∈ a :: b :: rest := by simpa using hc
      have := (hmem q).mp hq
      exact ⟨this.1, this.2, fun t _ _ => Or.inr (Or.inl rfl)⟩
    · split at h
      · rename_i cand hf
        cases h
        have hc := List.mem_of_find?_eq_some hf
        have hall := List.find?_some hf
        have := (hmem r).mp hc
        refine ⟨this.1, this.2, fun t ht hmt => ?_⟩
        have htm := (hmem t).mpr ⟨ht, hmt⟩
        have := List.all_eq_true.mp hall t htm
        unfold lessNestedOf at this
        simp only [Bool.or_eq_true, beq_iff_eq] at this
        rcases this with h1 | h1
        · exact Or.inl h1
        · exact Or.inr (Or.inr (List.isSuffixOf_iff_suffix.mp h1))
      · cases h

/-- no match: an error, never a task -/
theorem not_found_iff (q : Str) (names : List Str) (d : Bool) :
    findFull q names d = .error .notFound ↔ ∀ t ∈ names, nameMatch d q t = false := by
  unfold findFull
  have hmem : ∀ x, x ∈ names.filter (nameMatch d q) ↔ x ∈ names ∧ nameMatch d q x = true :=
    fun x => List.mem_filter
  generalize names.filter (nameMatch d q) = ms at hmem
  match ms with
  | [] =>
    simp only [true_iff]
    intro t ht
    cases hb : nameMatch d q t
    · rfl
    · exact absurd ((hmem t).mpr ⟨ht, hb⟩) (by simp)
  | [m] =>
    simp only [reduceCtorEq, false_iff]
    intro hall
    have := (hmem m).mp (by simp)
    rw [hall m this.1] at this
    exact absurd this.2 (by simp)
  | a :: b :: rest =>
    have ha := (hmem a).mp (by simp)
    simp only
    constructor
    · intro h
      split at h
      · cases h
      · split at h <;> cases h
    · intro hall
      rw [hall a ha.1] at ha
      exact absurd ha.2 (by simp)

/-- several matches, none of which is the query or the less-nested form of all others: the
ambiguity error, never a silent pick — and only then -/
theorem ambiguous_iff (q : Str) (names : List Str) (d : Bool) :
    findFull q names d = .error .ambiguous ↔
      (2 ≤ (matchesOf d q names).length ∧ q ∉ matchesOf d q names ∧
        ∀ c ∈ matchesOf d q names, ∃ t ∈ matchesOf d q names, lessNestedOf c t = false) := by
  unfold findFull matchesOf
  generalize names.filter (nameMatch d q) = ms
  match ms with
  | [] => simp
  | [m] => simp
  | a :: b :: rest =>
    simp only
    constructor
    · intro h
      split at h
      · cases h
      · rename_i hc
        split at h
        · cases h
        · rename_i hf
          refine ⟨by simp, by simpa using hc, ?_⟩
          intro c hcm
          have hnot := List.find?_eq_none.mp hf c hcm
          have : ¬ ∀ t ∈ a :: b :: rest, lessNestedOf c t = true := by
            intro hall; exact hnot (List.all_eq_true.mpr hall)
          apply Classical.byContradiction
          intro hne
          apply this
          intro t ht
          cases hb : lessNestedOf c t
          · exact absurd ⟨t, ht, hb⟩ hne
          · rfl
    · intro ⟨_, hq, hno⟩
      have hc : (a :: b :: rest).contains q = false := by simpa using hq
      simp only [hc, Bool.false_eq_true, if_false]
      have hf : (a :: b :: rest).find? (fun cand => (a :: b :: rest).all (lessNestedOf cand)) = none := by
        apply List.find?_eq_none.mpr
        intro c hcm
        obtain ⟨t, ht, hlt⟩ := hno c hcm
        simp only [List.all_eq_true]
        intro hall
        rw [hall t ht] at hlt
        cases hlt
      rw [hf]

/-- resolution never depends on the order in which the tasks were declared -/
theorem order_independent (q : Str) (names names' : List Str) (d : Bool) (hp : names.Perm names') :
    findFull q names d = findFull q names' d := by
  unfold findFull
  have hms : (names.filter (nameMatch d q)).Perm (names'.filter (nameMatch d q)) := hp.filter _
  generalize names.filter (nameMatch d q) = ms at hms
  generalize names'.filter (nameMatch d q) = ms' at hms
  match ms, ms', hms with
  | [], ms', hms => rw [List.nil_perm.mp hms]
  | [m], ms', hms => rw [List.singleton_perm.mp hms]
  | a :: b :: r, [], hms => exact absurd hms.length_eq (by simp)
  | a :: b :: r, [m], hms => exact absurd hms.length_eq (by simp)
  | a :: b :: r, a' :: b' :: r', hms =>
    simp only
    rw [contains_perm q hms]
    split
    · rfl
    · have hfun : (fun cand => (a :: b :: r).all (lessNestedOf cand)) = (fun cand => (a' :: b' :: r').all (lessNestedOf cand)) := by
        funext cand; exact all_perm _ hms
      rw [hfun]
      rw [find?_perm _ hms]
      intro c1 c2 h1 h2 hp1 hp2
      have hc2 := hms.subset h2
      have hc1 := hms.subset h1
      exact lessNestedOf_antisymm (List.all_eq_true.mp hp1 c2 hc2) (List.all_eq_true.mp hp2 c1 hc1)

/-! ### concrete, non-trivial instances -/

/-- the F4 witness: `a` among `n::a`, `xn::a` must be ambiguous (it used to resolve to `n::a`) -/
example : findFull "a".toList ["n::a".toList, "xn::a".toList] = .error .ambiguous := by decide
/-- a full name resolves to itself beside a grouped sibling (used to be ambiguous) -/
example : findFull "ns::a".toList ["ns::a".toList, "ns::g:a".toList] = .ok "ns::a".toList := by decide
/-- the less-nested form wins -/
example : findFull "a".toList ["n::g:a".toList, "g:a".toList] = .ok "g:a".toList := by decide
example : findFull "b".toList ["n::g:a".toList, "g:a".toList] = .error .notFound := by decide

end TCV.C10
