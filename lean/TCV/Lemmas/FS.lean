import TCV.Model.FS
/-!
# Lemmas about file protocols: what a crash can leave behind

The central, class-independent facts:

* `crashStates_keeps` — a protocol none of whose primitives writes `final` in place or moves
  something onto it leaves `final` untouched or absent at every crash point;
* `safe_publish` / `safe_append` — hence a protocol that touches `final` only through atomic renames
  keeps `final ∈ A` at every crash point, provided what it renames in is in `A`;
* `crashStates_wf` — the file/directory typing of the roles survives every crash point.
-/
namespace TCV.FS
variable {V : Type}

@[simp] theorem set_same (s : State V) (r : Role) (n : Node V) : (s.set r n) r = n := by
  simp [State.set]

theorem set_other (s : State V) {r r' : Role} (n : Node V) (h : r' ≠ r) : (s.set r n) r' = s r' := by
  simp [State.set, h]

/-! ### primitives that leave `final` alone -/

/-- the primitive does not write `final` in place, does not delete it piecemeal and does not move
anything onto it (it may rename it away or unlink it: both atomic) -/
def Prim.keepsFinal : Prim V → Bool
  | .openTrunc r | .writeAll r _ | .writePart r | .rmtree r | .mkdir r => r != .final
  | .rename _ b | .move _ b => b != .final
  | .unlink _ => true

def allKeeps (l : Proto V) : Bool := l.all (fun g => g.prim.keepsFinal)

theorem step_keeps (p : Prim V) (s t : State V) (hk : p.keepsFinal = true) (h : step p s = .ok t) :
    t .final = s .final ∨ t .final = .absent := by
  cases p with
  | openTrunc r =>
    have hr : Role.final ≠ r := by intro e; subst e; simp [Prim.keepsFinal] at hk
    simp only [step] at h
    split at h
    · cases h
    · cases h; exact Or.inl (set_other _ _ hr)
  | writeAll r v =>
    have hr : Role.final ≠ r := by intro e; subst e; simp [Prim.keepsFinal] at hk
    simp only [step] at h
    split at h <;> first | cases h; exact Or.inl (set_other _ _ hr) | cases h
  | writePart r =>
    have hr : Role.final ≠ r := by intro e; subst e; simp [Prim.keepsFinal] at hk
    simp only [step] at h
    split at h <;> first | cases h; exact Or.inl (set_other _ _ hr) | cases h
  | rename a b =>
    have hb : Role.final ≠ b := by intro e; subst e; simp [Prim.keepsFinal] at hk
    simp only [step] at h
    split at h
    · cases h; exact Or.inl rfl
    · split at h <;> first | cases h | skip
      by_cases ha : Role.final = a
      · subst ha; exact Or.inr (set_same _ _ _)
      · left; rw [set_other _ _ ha, set_other _ _ hb]
  | move a b =>
    have hb : Role.final ≠ b := by intro e; subst e; simp [Prim.keepsFinal] at hk
    simp only [step] at h
    split at h
    · cases h; exact Or.inl rfl
    · split at h <;> first | cases h | skip
      all_goals
        by_cases ha : Role.final = a
        · subst ha; exact Or.inr (set_same _ _ _)
        · left; rw [set_other _ _ ha, set_other _ _ hb]
  | rmtree r =>
    have hr : Role.final ≠ r := by intro e; subst e; simp [Prim.keepsFinal] at hk
    simp only [step] at h
    split at h <;> first | cases h; exact Or.inl (set_other _ _ hr) | cases h
  | mkdir r =>
    have hr : Role.final ≠ r := by intro e; subst e; simp [Prim.keepsFinal] at hk
    simp only [step] at h
    split at h <;> first | cases h; exact Or.inl (set_other _ _ hr) | cases h
  | unlink r =>
    simp only [step] at h
    split at h <;> first | cases h | skip
    by_cases hr : Role.final = r
    · subst hr; exact Or.inr (set_same _ _ _)
    · exact Or.inl (set_other _ _ hr)

theorem half_keeps (p : Prim V) (s t : State V) (hk : p.keepsFinal = true) (h : t ∈ half p s) :
    t .final = s .final := by
  cases p with
  | writeAll r v =>
    have hr : Role.final ≠ r := by intro e; subst e; simp [Prim.keepsFinal] at hk
    simp only [half] at h
    split at h <;> simp at h <;> subst h <;> exact set_other _ _ hr
  | writePart r =>
    have hr : Role.final ≠ r := by intro e; subst e; simp [Prim.keepsFinal] at hk
    simp only [half] at h
    split at h <;> simp at h <;> subst h <;> exact set_other _ _ hr
  | rmtree r =>
    have hr : Role.final ≠ r := by intro e; subst e; simp [Prim.keepsFinal] at hk
    simp only [half] at h
    split at h <;> simp at h <;> subst h <;> exact set_other _ _ hr
  | openTrunc r => simp [half] at h
  | rename a b => simp [half] at h
  | move a b => simp [half] at h
  | mkdir r => simp [half] at h
  | unlink r => simp [half] at h

theorem gstep_keeps (g : GPrim V) (s t : State V) (hk : g.prim.keepsFinal = true) (h : gstep g s = .ok t) :
    t .final = s .final ∨ t .final = .absent := by
  unfold gstep at h
  split at h
  · exact step_keeps _ _ _ hk h
  · cases h; exact Or.inl rfl

theorem ghalf_keeps (g : GPrim V) (s t : State V) (hk : g.prim.keepsFinal = true) (h : t ∈ ghalf g s) :
    t .final = s .final := by
  unfold ghalf at h
  split at h
  · exact half_keeps _ _ _ hk h
  · cases h

/-! ### execution and crash points of concatenated protocols -/

theorem run_append (l₁ l₂ : Proto V) (s : State V) :
    run (l₁ ++ l₂) s = match run l₁ s with | .ok s₁ => run l₂ s₁ | .error e => .error e := by
  induction l₁ generalizing s with
  | nil => rfl
  | cons g gs ih =>
    simp only [List.cons_append, run]
    cases gstep g s with
    | ok s' => exact ih s'
    | error e => rfl

theorem run_append_ok {l₁ l₂ : Proto V} {s s₁ s₂ : State V} (h₁ : run l₁ s = .ok s₁) (h₂ : run l₂ s₁ = .ok s₂) :
    run (l₁ ++ l₂) s = .ok s₂ := by
  rw [run_append, h₁]; exact h₂

theorem run_append_inv {l₁ l₂ : Proto V} {s s₂ : State V} (h : run (l₁ ++ l₂) s = .ok s₂) :
    ∃ s₁, run l₁ s = .ok s₁ ∧ run l₂ s₁ = .ok s₂ := by
  rw [run_append] at h
  cases h₁ : run l₁ s with
  | ok s₁ => rw [h₁] at h; exact ⟨s₁, rfl, h⟩
  | error e => rw [h₁] at h; cases h

@[simp] theorem mem_crashStates_nil (s t : State V) : t ∈ crashStates ([] : Proto V) s ↔ t = s := by
  simp [crashStates]

theorem mem_crashStates_cons (g : GPrim V) (gs : Proto V) (s t : State V) :
    t ∈ crashStates (g :: gs) s ↔
      t = s ∨ t ∈ ghalf g s ∨ ∃ s', gstep g s = .ok s' ∧ t ∈ crashStates gs s' := by
  simp only [crashStates, List.mem_append, List.mem_cons]
  cases hg : gstep g s with
  | ok s' =>
    constructor
    · rintro ((h | h) | h)
      · exact Or.inl h
      · exact Or.inr (Or.inl h)
      · exact Or.inr (Or.inr ⟨s', rfl, h⟩)
    · rintro (h | h | ⟨s'', e, h⟩)
      · exact Or.inl (Or.inl h)
      · exact Or.inl (Or.inr h)
      · cases e; exact Or.inr h
  | error e =>
    constructor
    · rintro ((h | h) | h)
      · exact Or.inl h
      · exact Or.inr (Or.inl h)
      · cases h
    · rintro (h | h | ⟨s'', e', _⟩)
      · exact Or.inl (Or.inl h)
      · exact Or.inl (Or.inr h)
      · cases e'

theorem mem_crashStates_append (l₁ l₂ : Proto V) (s t : State V) :
    t ∈ crashStates (l₁ ++ l₂) s ↔
      t ∈ crashStates l₁ s ∨ ∃ s₁, run l₁ s = .ok s₁ ∧ t ∈ crashStates l₂ s₁ := by
  induction l₁ generalizing s with
  | nil =>
    simp only [List.nil_append, mem_crashStates_nil, run]
    constructor
    · intro h; exact Or.inr ⟨s, rfl, h⟩
    · rintro (h | ⟨s₁, h₁, h⟩)
      · subst h
        cases l₂ with
        | nil => simp
        | cons g gs => exact (mem_crashStates_cons _ _ _ _).mpr (Or.inl rfl)
      · cases h₁; exact h
  | cons g gs ih =>
    simp only [List.cons_append, mem_crashStates_cons, run]
    constructor
    · rintro (h | h | ⟨s', hg, h⟩)
      · exact Or.inl (Or.inl h)
      · exact Or.inl (Or.inr (Or.inl h))
      · rcases (ih s').mp h with h | ⟨s₁, h₁, h⟩
        · exact Or.inl (Or.inr (Or.inr ⟨s', hg, h⟩))
        · exact Or.inr ⟨s₁, by rw [hg]; exact h₁, h⟩
    · rintro ((h | h | ⟨s', hg, h⟩) | ⟨s₁, h₁, h⟩)
      · exact Or.inl h
      · exact Or.inr (Or.inl h)
      · exact Or.inr (Or.inr ⟨s', hg, (ih s').mpr (Or.inl h)⟩)
      · cases hg : gstep g s with
        | ok s' =>
          rw [hg] at h₁
          exact Or.inr (Or.inr ⟨s', rfl, (ih s').mpr (Or.inr ⟨s₁, h₁, h⟩)⟩)
        | error e => rw [hg] at h₁; cases h₁

/-- the last state of an uninterrupted run is one of the crash states (crash after the end) -/
theorem run_mem_crashStates (l : Proto V) (s t : State V) (h : run l s = .ok t) : t ∈ crashStates l s := by
  induction l generalizing s with
  | nil => cases h; simp
  | cons g gs ih =>
    simp only [run] at h
    rw [mem_crashStates_cons]
    cases hg : gstep g s with
    | ok s' => rw [hg] at h; exact Or.inr (Or.inr ⟨s', rfl, ih s' h⟩)
    | error e => rw [hg] at h; cases h

theorem crashAt_subset (k : Nat) (l : Proto V) (s t : State V) (h : t ∈ crashAt k l s) : t ∈ crashStates l s := by
  induction l generalizing s k with
  | nil => simpa [crashAt] using h
  | cons g gs ih =>
    rw [mem_crashStates_cons]
    cases k with
    | zero =>
      simp only [crashAt, List.mem_cons] at h
      rcases h with h | h
      · exact Or.inl h
      · exact Or.inr (Or.inl h)
    | succ k =>
      simp only [crashAt] at h
      cases hg : gstep g s with
      | ok s' => rw [hg] at h; exact Or.inr (Or.inr ⟨s', rfl, ih k s' h⟩)
      | error e => rw [hg] at h; cases h

/-- conversely every crash state belongs to some crash point: `crashStates` is exactly `⋃ₖ crashAt k` -/
theorem crashStates_exists_k (l : Proto V) (s t : State V) (h : t ∈ crashStates l s) : ∃ k, t ∈ crashAt k l s := by
  induction l generalizing s with
  | nil => exact ⟨0, by simpa [crashAt] using h⟩
  | cons g gs ih =>
    rw [mem_crashStates_cons] at h
    rcases h with h | h | ⟨s', hg, h⟩
    · exact ⟨0, by simp [crashAt, h]⟩
    · exact ⟨0, by simp [crashAt, h]⟩
    · obtain ⟨k, hk⟩ := ih s' h
      exact ⟨k + 1, by simp [crashAt, hg, hk]⟩

/-! ### the general crash lemma -/

/-- `final ∈ A` at every crash point of `l` started in `s` -/
def Safe (A : Node V → Prop) (l : Proto V) (s : State V) : Prop := ∀ t ∈ crashStates l s, A (t .final)

theorem safe_append {A : Node V → Prop} {l₁ l₂ : Proto V} {s : State V}
    (h₁ : Safe A l₁ s) (h₂ : ∀ s₁, run l₁ s = .ok s₁ → Safe A l₂ s₁) : Safe A (l₁ ++ l₂) s := by
  intro t ht
  rcases (mem_crashStates_append l₁ l₂ s t).mp ht with h | ⟨s₁, hs₁, h⟩
  · exact h₁ t h
  · exact h₂ s₁ hs₁ t h

theorem crashStates_keeps (l : Proto V) (hk : allKeeps l = true) :
    ∀ (s t : State V), t ∈ crashStates l s → t .final = s .final ∨ t .final = .absent := by
  induction l with
  | nil => intro s t h; simp at h; subst h; exact Or.inl rfl
  | cons g gs ih =>
    intro s t h
    simp only [allKeeps, List.all_cons, Bool.and_eq_true] at hk
    rw [mem_crashStates_cons] at h
    rcases h with h | h | ⟨s', hg, h⟩
    · subst h; exact Or.inl rfl
    · exact Or.inl (ghalf_keeps g s t hk.1 h)
    · rcases ih hk.2 s' t h with h' | h'
      · rcases gstep_keeps g s s' hk.1 hg with h'' | h''
        · exact Or.inl (h'.trans h'')
        · exact Or.inr (h'.trans h'')
      · exact Or.inr h'

theorem run_keeps (l : Proto V) (hk : allKeeps l = true) (s t : State V) (h : run l s = .ok t) :
    t .final = s .final ∨ t .final = .absent :=
  crashStates_keeps l hk s t (run_mem_crashStates l s t h)

/-- a protocol that never writes `final` in place and moves nothing onto it -/
theorem safe_keeps {A : Node V → Prop} (hA : A .absent) (l : Proto V) (hk : allKeeps l = true)
    (s : State V) (hs : A (s .final)) : Safe A l s := by
  intro t ht
  rcases crashStates_keeps l hk s t ht with h | h
  · rw [h]; exact hs
  · rw [h]; exact hA

/-- the publishing step: one atomic move of the staged node onto `final` -/
theorem safe_publish {A : Node V → Prop} (s : State V) (hs : A (s .final)) (ht : A (s .tmp))
    (hd : (s .final).isDir = false) : Safe A [always (.move .tmp .final)] s := by
  intro t h
  rw [mem_crashStates_cons] at h
  rcases h with h | h | ⟨s', hg, h⟩
  · subst h; exact hs
  · simp [ghalf, always, half, Guard.holds] at h
  · simp only [mem_crashStates_nil] at h
    subst h
    simp only [gstep, always, Guard.holds, if_true, step] at hg
    have hne : ¬ (Role.tmp = Role.final) := by decide
    simp only [hne, if_false] at hg
    cases ha : s .tmp <;> cases hb : s .final <;> rw [ha, hb] at hg <;> simp at hg
    all_goals first
      | (rw [hb] at hd; simp [Node.isDir] at hd; done)
      | (subst hg; rw [set_other _ _ (by decide), set_same]; rw [← ha]; exact ht)

/-! ### typing of the roles -/

/-- the role holds a directory for results of kind `K` -/
def roleIsDir (K : Kind) : Role → Bool
  | .log | .runinfo => false
  | _ => K.isDir

def nodeOK (K : Kind) (r : Role) (n : Node V) : Bool :=
  if roleIsDir K r then !n.isFile else !n.isDir

/-- leftovers have the right type: the `<key>_tmp` of a file class is a file if anything, … -/
def WF (K : Kind) (s : State V) : Prop := ∀ r, nodeOK K r (s r) = true

def Prim.typed (K : Kind) : Prim V → Bool
  | .openTrunc r => !roleIsDir K r
  | .mkdir r => roleIsDir K r
  | .rename a b | .move a b => roleIsDir K a == roleIsDir K b
  | _ => true

def allTyped (K : Kind) (l : Proto V) : Bool := l.all (fun g => g.prim.typed K)

theorem wf_set {K : Kind} {s : State V} (h : WF K s) (r : Role) (n : Node V) (hn : nodeOK K r n = true) :
    WF K (s.set r n) := by
  intro r'
  by_cases e : r' = r
  · subst e; rw [set_same]; exact hn
  · rw [set_other _ _ e]; exact h r'

theorem nodeOK_absent (K : Kind) (r : Role) : nodeOK K r (.absent : Node V) = true := by
  simp [nodeOK, Node.isFile, Node.isDir]

theorem step_wf (K : Kind) (p : Prim V) (s t : State V) (hp : p.typed K = true) (hs : WF K s)
    (h : step p s = .ok t) : WF K t := by
  cases p with
  | openTrunc r =>
    simp only [step] at h
    split at h
    · cases h
    · cases h; exact wf_set hs _ _ (by simp [Prim.typed] at hp; simp [nodeOK, hp, Node.isDir])
  | writeAll r v =>
    simp only [step] at h
    split at h
    · rename_i c hc; cases h
      exact wf_set hs _ _ (by have := hs r; rw [hc] at this; simpa [nodeOK, Node.isFile, Node.isDir] using this)
    · rename_i c hc; cases h
      exact wf_set hs _ _ (by have := hs r; rw [hc] at this; simpa [nodeOK, Node.isFile, Node.isDir] using this)
    · cases h
  | writePart r =>
    simp only [step] at h
    split at h
    · rename_i c hc; cases h
      exact wf_set hs _ _ (by have := hs r; rw [hc] at this; simpa [nodeOK, Node.isFile, Node.isDir] using this)
    · rename_i c hc; cases h
      exact wf_set hs _ _ (by have := hs r; rw [hc] at this; simpa [nodeOK, Node.isFile, Node.isDir] using this)
    · cases h
  | rename a b =>
    simp only [step] at h
    by_cases e : a = b
    · simp only [e, if_true] at h; cases h; exact hs
    · simp only [e, if_false] at h
      simp only [Prim.typed, beq_iff_eq] at hp
      have hna := hs a
      cases ha : s a <;> cases hb : s b <;> rw [ha, hb] at h <;> simp at h
      all_goals
        subst h
        refine wf_set (wf_set hs _ _ ?_) _ _ (nodeOK_absent _ _)
        rw [ha] at hna
        simpa [nodeOK, hp] using hna
  | move a b =>
    simp only [step] at h
    by_cases e : a = b
    · simp only [e, if_true] at h; cases h; exact hs
    · simp only [e, if_false] at h
      simp only [Prim.typed, beq_iff_eq] at hp
      have hna := hs a
      have hnb := hs b
      cases ha : s a <;> cases hb : s b <;> rw [ha, hb] at h <;> simp at h
      all_goals
        subst h
        refine wf_set (wf_set hs _ _ ?_) _ _ (nodeOK_absent _ _)
        rw [ha] at hna; rw [hb] at hnb
        first
          | (simpa [nodeOK, hp] using hna)
          | (simpa [nodeOK, Node.isFile, Node.isDir] using hnb)
  | rmtree r =>
    simp only [step] at h
    split at h <;> first | cases h; exact wf_set hs _ _ (nodeOK_absent _ _) | cases h
  | mkdir r =>
    simp only [step] at h
    split at h
    · cases h; exact wf_set hs _ _ (by simp [Prim.typed] at hp; simp [nodeOK, hp, Node.isFile])
    · cases h
  | unlink r =>
    simp only [step] at h
    split at h <;> first | cases h; exact wf_set hs _ _ (nodeOK_absent _ _) | cases h

theorem half_wf (K : Kind) (p : Prim V) (s t : State V) (hs : WF K s) (h : t ∈ half p s) : WF K t := by
  have key : ∀ r, (t = s.set r (.file .torn) ∧ (∃ c, s r = .file c)) ∨ (t = s.set r (.dir .part) ∧ ∃ d, s r = .dir d) → WF K t := by
    intro r hh
    rcases hh with ⟨rfl, c, hc⟩ | ⟨rfl, d, hd⟩
    · exact wf_set hs _ _ (by have := hs r; rw [hc] at this; simpa [nodeOK, Node.isFile, Node.isDir] using this)
    · exact wf_set hs _ _ (by have := hs r; rw [hd] at this; simpa [nodeOK, Node.isFile, Node.isDir] using this)
  cases p with
  | writeAll r v =>
    simp only [half] at h
    split at h <;> simp at h
    · rename_i c hc; exact key r (Or.inl ⟨h, c, hc⟩)
    · rename_i d hd; exact key r (Or.inr ⟨h, d, hd⟩)
  | writePart r =>
    simp only [half] at h
    split at h <;> simp at h
    · rename_i c hc; exact key r (Or.inl ⟨h, c, hc⟩)
    · rename_i d hd; exact key r (Or.inr ⟨h, d, hd⟩)
  | rmtree r =>
    simp only [half] at h
    split at h <;> simp at h
    rename_i d hd; exact key r (Or.inr ⟨h, d, hd⟩)
  | openTrunc r => simp [half] at h
  | rename a b => simp [half] at h
  | move a b => simp [half] at h
  | mkdir r => simp [half] at h
  | unlink r => simp [half] at h

theorem gstep_wf (K : Kind) (g : GPrim V) (s t : State V) (hp : g.prim.typed K = true) (hs : WF K s)
    (h : gstep g s = .ok t) : WF K t := by
  unfold gstep at h
  split at h
  · exact step_wf K _ _ _ hp hs h
  · cases h; exact hs

/-- the typing of the roles holds at every crash point of a well-typed protocol -/
theorem crashStates_wf (K : Kind) (l : Proto V) (hl : allTyped K l = true) :
    ∀ (s t : State V), WF K s → t ∈ crashStates l s → WF K t := by
  induction l with
  | nil => intro s t hs h; simp at h; subst h; exact hs
  | cons g gs ih =>
    intro s t hs h
    simp only [allTyped, List.all_cons, Bool.and_eq_true] at hl
    rw [mem_crashStates_cons] at h
    rcases h with h | h | ⟨s', hg, h⟩
    · subst h; exact hs
    · unfold ghalf at h
      split at h
      · exact half_wf K _ _ _ hs h
      · cases h
    · exact ih hl.2 s' t (gstep_wf K g s s' hl.1 hs hg) h

theorem run_wf (K : Kind) (l : Proto V) (hl : allTyped K l = true) (s t : State V) (hs : WF K s)
    (h : run l s = .ok t) : WF K t :=
  crashStates_wf K l hl s t hs (run_mem_crashStates l s t h)

end TCV.FS
