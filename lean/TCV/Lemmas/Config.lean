import TCV.Model.Build
/-! lemmas about Python-dict association lists and context application (C09) -/
namespace TCV.Config

variable {β : Type}

theorem get?_set_same (k : Str) (v : β) : ∀ l : List (Str × β), get? k (set k v l) = some v
  | [] => by simp [set, get?]
  | (k', v') :: r => by
    by_cases h : k' = k
    · subst h; simp [set, get?]
    · have hb : (k' == k) = false := by simpa using h
      simp [set, get?, hb, get?_set_same k v r]

theorem get?_set_other (k k' : Str) (v : β) (h : k' ≠ k) : ∀ l : List (Str × β), get? k' (set k v l) = get? k' l
  | [] => by
    have hb : (k == k') = false := by simpa using (Ne.symm h)
    simp [set, get?, hb]
  | (k2, v2) :: r => by
    by_cases h2 : k2 = k
    · subst h2
      have hb : (k2 == k') = false := by simpa using (Ne.symm h)
      simp [set, get?, hb]
    · have hb : (k2 == k) = false := by simpa using h2
      simp only [set, hb, Bool.false_eq_true, if_false, get?]
      rw [get?_set_other k k' v h r]

theorem get?_set (k k' : Str) (v : β) (l : List (Str × β)) :
    get? k' (set k v l) = if k = k' then some v else get? k' l := by
  by_cases h : k = k'
  · subst h; simp [get?_set_same]
  · simp [h, get?_set_other k k' v (Ne.symm h)]

theorem get?_append (k : Str) : ∀ (a b : List (Str × β)), get? k (a ++ b) = (get? k a).orElse (fun _ => get? k b)
  | [], b => by simp [get?]
  | (k', v) :: a, b => by
    by_cases h : k' = k
    · subst h; simp [get?]
    · have hb : (k' == k) = false := by simpa using h
      simp [get?, hb, get?_append k a b]

/-- `d.update(e)`: the LAST binding of `k` in `e` wins, else `d`'s -/
theorem get?_update (k : Str) : ∀ (e d : List (Str × β)),
    get? k (update d e) = (get? k e.reverse).orElse (fun _ => get? k d) := by
  intro e
  induction e with
  | nil => intro d; simp [update, get?]
  | cons kv e ih =>
    intro d
    have : update d (kv :: e) = update (set kv.1 kv.2 d) e := by simp [update]
    rw [this, ih, List.reverse_cons, get?_append, get?_set]
    cases h1 : get? k e.reverse with
    | some v => simp
    | none =>
      by_cases h : kv.1 = k
      · simp [get?, h]
      · have hb : (kv.1 == k) = false := by simpa using h
        simp [get?, h, hb]

theorem update_update (d e1 e2 : List (Str × β)) : update (update d e1) e2 = update d (e1 ++ e2) := by
  simp [update, List.foldl_append]

/-- the entries of a context that apply to namespace `n`: those filed under exactly `n` -/
def nsEntries (c : Ctx) (n : Str) : Data := (c.forNs.filter (fun kv => kv.1 == n)).flatMap (·.2)

theorem fold_ns (n : Str) : ∀ (fns : List (Str × Data)) (d : Data),
    fns.foldl (fun acc kv => if kv.1 == n then update acc kv.2 else acc) d
      = update d ((fns.filter (fun kv => kv.1 == n)).flatMap (·.2)) := by
  intro fns
  induction fns with
  | nil => intro d; simp [update]
  | cons kv r ih =>
    intro d
    simp only [List.foldl_cons]
    by_cases h : (kv.1 == n) = true
    · simp only [h, if_true, List.filter_cons, List.flatMap_cons]
      rw [ih, update_update]
    · have h' : (kv.1 == n) = false := by simpa using h
      simp only [h', Bool.false_eq_true, if_false, List.filter_cons]
      exact ih d

end TCV.Config
