import TCV.Model.Cache
/-!
# Lemmas for M-Cache: paths are injective in (sub-cache, key); one operation of the file machine
is one operation of the dictionary specification under the abstraction `absOf`.
-/
namespace TCV.Cache

theorem confOf_ext (root : Conf) (d : Dir) : (confOf root d).ext = root.ext := by
  cases d <;> rfl

theorem confOf_keyed (root : Conf) (d : Dir) : (confOf root d).keyed = root.keyed := by
  cases d <;> rfl

/-- the two path components determine the hash -/
theorem split5_inj (a b : Str) (h1 : a.take 5 = b.take 5) (h2 : a.drop 5 = b.drop 5) : a = b := by
  rw [← List.take_append_drop 5 a, ← List.take_append_drop 5 b, h1, h2]

/-- **paths differ when (sub-cache directory, key hash) differ** — for caches of one class
(same extension); the hash is a parameter, only its value matters here -/
theorem pathOf_inj_hash (H : Str → Str) (c c' : Conf) (hext : c.ext = c'.ext) (d d' : Dir) (k k' : Key)
    (h : pathOf H c d k = pathOf H c' d' k') : d = d' ∧ H k = H k' := by
  unfold pathOf at h
  obtain ⟨hd, hl⟩ := List.append_inj' h (by simp)
  refine ⟨hd, ?_⟩
  simp only [List.cons.injEq, and_true] at hl
  obtain ⟨h1, h2⟩ := hl
  rw [hext] at h2
  exact split5_inj _ _ h1 (List.append_cancel_right h2)

theorem pathOf_inj (H : Str → Str) (hH : ∀ a b, H a = H b → a = b) (c c' : Conf) (hext : c.ext = c'.ext)
    (d d' : Dir) (k k' : Key) (h : pathOf H c d k = pathOf H c' d' k') : d = d' ∧ k = k' :=
  let ⟨hd, hk⟩ := pathOf_inj_hash H c c' hext d d' k k' h
  ⟨hd, hH _ _ hk⟩

theorem slotOf_eq_load (c : Conf) (k : Key) (f : FileSt) :
    slotOf c k f = match load c k f with | .ok v => .some v | .cacheErr => .bad | .fail => .none := by
  cases f with
  | absent => rfl
  | corrupt => rfl
  | entry k' v =>
    simp only [slotOf, load]
    split
    · rfl
    · split <;> rfl

theorem load_fail_of_not_present (c : Conf) (k : Key) (f : FileSt) (h : f.present = false) :
    load c k f = .fail := by
  cases f <;> simp [FileSt.present] at h ⊢ <;> rfl

theorem absOf_set (H : Str → Str) (hH : ∀ a b, H a = H b → a = b) (root : Conf) (fs : FS) (d : Dir) (k : Key)
    (f : FileSt) :
    absOf H root (fs.set (pathOf H (confOf root d) d k) f)
      = (absOf H root fs).set (d, k) (slotOf (confOf root d) k f) := by
  funext ⟨d', k'⟩
  by_cases h : (d', k') = (d, k)
  · cases h; simp [absOf, FS.set, Dict.set]
  · have hp : pathOf H (confOf root d') d' k' ≠ pathOf H (confOf root d) d k := by
      intro he
      have := pathOf_inj H hH _ _ (by rw [confOf_ext, confOf_ext]) d' d k' k he
      exact h (by rw [this.1, this.2])
    simp [absOf, FS.set, Dict.set, h, hp]

theorem computeAndStore_refines (H : Str → Str) (hH : ∀ a b, H a = H b → a = b) (root : Conf) (fs : FS)
    (d : Dir) (k : Key) (comp : Comp) :
    let r := computeAndStore (confOf root d) fs (pathOf H (confOf root d) d k) k comp
    let r' := specCompute (confOf root d) (absOf H root fs) (d, k) comp
    absOf H root r.fs = r'.D ∧ r.out = r'.out ∧ r.calls = r'.calls := by
  cases comp with
  | raise => exact ⟨rfl, rfl, rfl⟩
  | ret v =>
    simp only [computeAndStore, specCompute]
    split
    · exact ⟨rfl, rfl, rfl⟩
    · rename_i hv
      refine ⟨?_, rfl, rfl⟩
      rw [absOf_set H hH]
      have : slotOf (confOf root d) k (.entry k v) = .some v := by
        simp only [slotOf, bne_self_eq_false, Bool.and_false]
        simp only [Bool.false_eq_true, if_false]
        rw [if_neg hv]
      rw [this]

/-- one step of the file machine = one step of the dictionary specification -/
theorem exec_refines (H : Str → Str) (hH : ∀ a b, H a = H b → a = b) (root : Conf) (fs : FS) (op : Op) :
    absOf H root (exec H root fs op).fs = (specExec root (absOf H root fs) op).D ∧
    (exec H root fs op).out = (specExec root (absOf H root fs) op).out ∧
    (exec H root fs op).calls = (specExec root (absOf H root fs) op).calls := by
  cases op with
  | get d k =>
    simp only [exec, specExec]
    have hs : absOf H root fs (d, k) = slotOf (confOf root d) k (fs (pathOf H (confOf root d) d k)) := rfl
    rw [hs, slotOf_eq_load]
    cases hp : (fs (pathOf H (confOf root d) d k)).present with
    | false =>
      rw [load_fail_of_not_present _ _ _ hp]; simp
    | true =>
      simp only [if_true]
      cases load (confOf root d) k (fs (pathOf H (confOf root d) d k)) <;> simp
  | goc d k comp force =>
    simp only [exec, specExec]
    have hs : absOf H root fs (d, k) = slotOf (confOf root d) k (fs (pathOf H (confOf root d) d k)) := rfl
    have hc := computeAndStore_refines H hH root fs d k comp
    cases force with
    | true => simpa using hc
    | false =>
      rw [hs, slotOf_eq_load]
      cases hp : (fs (pathOf H (confOf root d) d k)).present with
      | false =>
        rw [load_fail_of_not_present _ _ _ hp]; simpa using hc
      | true =>
        simp only [Bool.not_false, Bool.and_self, if_true, Bool.false_eq_true, if_false]
        cases load (confOf root d) k (fs (pathOf H (confOf root d) d k)) with
        | ok v => exact ⟨rfl, rfl, rfl⟩
        | cacheErr => exact ⟨rfl, rfl, rfl⟩
        | fail => simpa using hc
  | setFile d k f =>
    simp only [exec, specExec]
    exact ⟨absOf_set H hH root fs d k f, by simp⟩

end TCV.Cache
