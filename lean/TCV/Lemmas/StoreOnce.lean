import TCV.Lemmas.StoreFrame
/-!
Run accounting of the pull machine without failures and forcing (C04 core):
what a request appends to the run log are objects whose result was **unavailable** when the request
started, each at most once *per storage location* (per object for in-memory tasks), all of them
**available** afterwards.  From this: over a whole history no location is ever computed twice.
-/
namespace TCV.Store

variable {V : Type}

/-- what identifies "one computation" in the run log: the location for persisting tasks, the object otherwise -/
def tag (U : Universe) (j : Nat) : Nat ⊕ Nat := if (obj U j).persist then .inl (obj U j).loc else .inr j

/-- the result of `j` is not available: not in memory and (if persisting) not stored -/
def Unavail (U : Universe) (s : St V) (j : Nat) : Prop :=
  s.mem j = none ∧ ((obj U j).persist = true → s.store (obj U j).loc = none)

/-- the result of `j` is available to every later request in this process (persisting: stored) -/
def Avail (U : Universe) (s : St V) (j : Nat) : Prop :=
  ((obj U j).persist = true → (s.store (obj U j).loc).isSome) ∧ ((obj U j).persist = false → (s.mem j).isSome)

theorem avail_unavail_tag (U : Universe) (s : St V) (a b : Nat) (ha : Avail U s a) (hb : Unavail U s b) :
    tag U a ≠ tag U b := by
  intro h
  unfold tag at h
  cases hpa : (obj U a).persist <;> cases hpb : (obj U b).persist <;> simp only [hpa, hpb, Bool.false_eq_true, if_false, if_true] at h
  · have h' : a = b := by simpa using h
    have h1 := ha.2 hpa
    rw [h', hb.1] at h1; cases h1
  · cases h
  · cases h
  · have h' : (obj U a).loc = (obj U b).loc := by simpa using h
    have h1 := ha.1 hpa
    have h2 := hb.2 hpb
    rw [h', h2] at h1; cases h1

theorem avail_mono (U : Universe) {s s' : St V} (fr : Frame s s') (j : Nat) (h : Avail U s j) : Avail U s' j :=
  ⟨fun hp => fr.store_mono _ (h.1 hp), fun hp => fr.mem_mono _ (h.2 hp)⟩

theorem unavail_anti (U : Universe) {s s' : St V} (fr : Frame s s') (j : Nat) (h : Unavail U s' j) : Unavail U s j := by
  constructor
  · cases hm : s.mem j with
    | none => rfl
    | some v =>
      have := fr.mem_mono j (by simp [hm])
      rw [h.1] at this; cases this
  · intro hp
    cases hs : s.store (obj U j).loc with
    | none => rfl
    | some v =>
      have := fr.store_mono (obj U j).loc (by simp [hs])
      rw [h.2 hp] at this; cases this

/-- stratification: inputs are numbered before their dependants, and locations are layered the same way
(the key of a task contains the keys of its inputs, so a location never recurs among its own ancestors) -/
structure Strat (U : Universe) (lrk : Nat → Nat) : Prop where
  topo : ∀ i, ∀ d ∈ (obj U i).used, d < i
  loc : ∀ i, ∀ d ∈ (obj U i).used, lrk (obj U d).loc < lrk (obj U i).loc

/-- post-condition of a successful request for `i` from `s` to `s'` with new run-log entries `new` -/
structure Acct (U : Universe) (B : Nat → Prop) (s s' : St V) (new : List Nat) : Prop where
  runs : s'.runs = s.runs ++ new
  below : ∀ j ∈ new, B j
  unavail : ∀ j ∈ new, Unavail U s j
  nodup : (new.map (tag U)).Nodup
  avail : ∀ j ∈ new, Avail U s' j
  frame : Frame s s'

section
variable (U : Universe) (f : Nat → List V → V) (lrk : Nat → Nat) (hst : Strat U lrk)

def nofail : Nat → Bool := fun _ => false

/-- statement for single requests at a given fuel -/
def AVal (fuel : Nat) : Prop :=
  ∀ (s : St V) (i : Nat), i < fuel → (∀ j, s.forced j = false) →
    ∃ s' v new, value U f nofail fuel s i = (s', some v) ∧
      Acct U (fun x => x ≤ i ∧ lrk (obj U x).loc ≤ lrk (obj U i).loc) s s' new

/-- statement for lists of requests made with a request function satisfying `AVal` below `bound` -/
def AList (val : St V → Nat → St V × Option V) (fuel : Nat) : Prop :=
  ∀ (js : List Nat) (s : St V) (bound lb : Nat), (∀ j ∈ js, j < fuel ∧ j < bound ∧ lrk (obj U j).loc < lb) →
    (∀ j, s.forced j = false) →
    ∃ s' vs new, valueListWith val s js = (s', some vs) ∧ Acct U (fun x => x < bound ∧ lrk (obj U x).loc < lb) s s' new

theorem acct_list (fuel : Nat) (hV : AVal U f lrk fuel) : AList U lrk (value U f nofail fuel) fuel := by
  intro js
  induction js with
  | nil =>
    intro s bound lb _ _
    exact ⟨s, [], [], rfl, ⟨by simp, by simp, by simp, by simp, by simp, Frame.refl s⟩⟩
  | cons j js ih =>
    intro s bound lb hjs hnf
    obtain ⟨hj1, hj2, hj3⟩ := hjs j (by simp)
    obtain ⟨s1, v, n1, hv, a1⟩ := hV s j hj1 hnf
    have hnf1 : ∀ x, s1.forced x = false := by intro x; rw [a1.frame.forced_eq]; exact hnf x
    obtain ⟨s2, vs, n2, hl, a2⟩ := ih s1 bound lb (fun x hx => hjs x (by simp [hx])) hnf1
    refine ⟨s2, v :: vs, n1 ++ n2, by simp [valueListWith, hv, hl], ?_⟩
    · refine ⟨by rw [a2.runs, a1.runs, List.append_assoc], ?_, ?_, ?_, ?_, a1.frame.trans a2.frame⟩
      · intro x hx
        rcases List.mem_append.mp hx with hx | hx
        · have := a1.below x hx
          exact ⟨Nat.lt_of_le_of_lt this.1 hj2, Nat.lt_of_le_of_lt this.2 hj3⟩
        · exact a2.below x hx
      · intro x hx
        rcases List.mem_append.mp hx with hx | hx
        · exact a1.unavail x hx
        · exact unavail_anti U a1.frame x (a2.unavail x hx)
      · rw [List.map_append]
        refine List.nodup_append.mpr ⟨a1.nodup, a2.nodup, ?_⟩
        intro ta hta tb htb
        obtain ⟨x, hx, rfl⟩ := List.mem_map.mp hta
        obtain ⟨y, hy, rfl⟩ := List.mem_map.mp htb
        exact avail_unavail_tag U s1 x y (a1.avail x hx) (a2.unavail y hy)
      · intro x hx
        rcases List.mem_append.mp hx with hx | hx
        · exact avail_mono U a2.frame x (a1.avail x hx)
        · exact a2.avail x hx

theorem tag_lt (i j : Nat) (hlt : j < i) (hl : lrk (obj U j).loc < lrk (obj U i).loc) : tag U j ≠ tag U i := by
  intro h
  unfold tag at h
  cases hpj : (obj U j).persist <;> cases hpi : (obj U i).persist <;> simp only [hpj, hpi, Bool.false_eq_true, if_false, if_true] at h
  · have : j = i := by simpa using h
    omega
  · cases h
  · cases h
  · have h' : (obj U j).loc = (obj U i).loc := by simpa using h
    rw [h'] at hl; omega

include hst in
theorem acct_step (fuel : Nat) (hV : AVal U f lrk fuel) : AVal U f lrk (fuel + 1) := by
  intro s i hi hnf
  have hL := acct_list U f lrk fuel hV
  simp only [value]
  cases hm : s.mem i with
  | some v =>
    exact ⟨s, v, [], rfl, ⟨by simp, by simp, by simp, by simp, by simp, Frame.refl s⟩⟩
  | none =>
    simp only [hnf i, Bool.not_false, Bool.and_true]
    cases hst0 : (if (obj U i).persist = true then s.store (obj U i).loc else none) with
    | some v =>
      refine ⟨_, v, [], rfl, ⟨by simp, by simp, by simp, by simp, by simp, ?_⟩⟩
      exact ⟨fun j hj => isSome_upd _ _ _ _ hj, fun _ hl => hl, rfl, ⟨[], by simp⟩⟩
    | none =>
      simp only
      -- the result of `i` is unavailable
      have hun : Unavail U s i := by
        refine ⟨hm, fun hp => ?_⟩
        simpa [hp] using hst0
      have hargs : ∀ j ∈ (obj U i).args, j < fuel ∧ j < i ∧ lrk (obj U j).loc < lrk (obj U i).loc := by
        intro j hj
        have hju : j ∈ (obj U i).used := List.mem_append.mpr (Or.inl hj)
        have h1 := hst.topo i j hju
        have h2 := hst.loc i j hju
        omega
      have hpulls : ∀ j ∈ (obj U i).pulls, j < fuel ∧ j < i ∧ lrk (obj U j).loc < lrk (obj U i).loc := by
        intro j hj
        have hju : j ∈ (obj U i).used := List.mem_append.mpr (Or.inr hj)
        have h1 := hst.topo i j hju
        have h2 := hst.loc i j hju
        omega
      obtain ⟨s1, avs, nA, hA, aA⟩ := hL (obj U i).args s i (lrk (obj U i).loc) hargs hnf
      have hnf1 : ∀ x, s1.forced x = false := by intro x; rw [aA.frame.forced_eq]; exact hnf x
      have fr2 : Frame s1 { s1 with runs := s1.runs ++ [i] } := ⟨fun _ h => h, fun _ h => h, rfl, ⟨[i], rfl⟩⟩
      obtain ⟨s3, ps, nP, hP, aP⟩ := hL (obj U i).pulls { s1 with runs := s1.runs ++ [i] } i (lrk (obj U i).loc) hpulls hnf1
      simp only [hA, hP, nofail, Bool.false_eq_true, if_false]
      -- the final state: store/memory updated at `i`
      have frF : Frame s3 { s3 with store := (if (obj U i).persist = true then upd s3.store (obj U i).loc (some (f i (avs ++ ps))) else s3.store)
                                    mem := upd s3.mem i (some (f i (avs ++ ps))) } := by
        refine ⟨fun j hj => isSome_upd _ _ _ _ hj, ?_, rfl, ⟨[], by simp⟩⟩
        intro l hl
        simp only
        split
        · exact isSome_upd _ _ _ _ hl
        · exact hl
      refine ⟨_, _, nA ++ [i] ++ nP, rfl, ?_⟩
      have tagA : ∀ j ∈ nA, tag U j ≠ tag U i := fun j hj => tag_lt U lrk i j (aA.below j hj).1 (aA.below j hj).2
      have tagP : ∀ j ∈ nP, tag U j ≠ tag U i := fun j hj => tag_lt U lrk i j (aP.below j hj).1 (aP.below j hj).2
      refine ⟨?_, ?_, ?_, ?_, ?_, ((aA.frame.trans fr2).trans aP.frame).trans frF⟩
      · simp only [aP.runs, aA.runs, List.append_assoc]
      · intro j hj
        simp only [List.mem_append, List.mem_singleton] at hj
        rcases hj with (hj | hj) | hj
        · have := aA.below j hj; exact ⟨by omega, by omega⟩
        · subst hj; exact ⟨Nat.le_refl _, Nat.le_refl _⟩
        · have := aP.below j hj; exact ⟨by omega, by omega⟩
      · intro j hj
        simp only [List.mem_append, List.mem_singleton] at hj
        rcases hj with (hj | hj) | hj
        · exact aA.unavail j hj
        · subst hj; exact hun
        · exact unavail_anti U (aA.frame.trans fr2) j (aP.unavail j hj)
      · simp only [List.map_append, List.map_cons, List.map_nil]
        refine List.nodup_append.mpr ⟨List.nodup_append.mpr ⟨aA.nodup, by simp, ?_⟩, aP.nodup, ?_⟩
        · intro ta hta tb htb
          obtain ⟨x, hx, rfl⟩ := List.mem_map.mp hta
          simp only [List.mem_singleton] at htb
          subst htb
          exact tagA x hx
        · intro ta hta tb htb
          obtain ⟨y, hy, rfl⟩ := List.mem_map.mp htb
          simp only [List.mem_append, List.mem_map, List.mem_singleton] at hta
          rcases hta with ⟨x, hx, rfl⟩ | rfl
          · exact avail_unavail_tag U _ x y (avail_mono U fr2 x (aA.avail x hx)) (aP.unavail y hy)
          · exact (tagP y hy).symm
      · intro j hj
        simp only [List.mem_append, List.mem_singleton] at hj
        rcases hj with (hj | hj) | hj
        · exact avail_mono U ((fr2.trans aP.frame).trans frF) j (aA.avail j hj)
        · subst hj
          constructor
          · intro hp; simp [hp, upd]
          · intro _; simp [upd]
        · exact avail_mono U frF j (aP.avail j hj)

include hst in
theorem acct_all : ∀ fuel, AVal U f lrk fuel := by
  intro fuel
  induction fuel with
  | zero => intro s i hi; omega
  | succ n ih => exact acct_step U f lrk hst n ih

end

/-- history invariant (no failures, no forcing, no deletion): nothing forced, no computation logged twice, everything
logged is available -/
structure OnceInv (U : Universe) (s : St V) : Prop where
  noforce : ∀ j, s.forced j = false
  nodup : (s.runs.map (tag U)).Nodup
  avail : ∀ j ∈ s.runs, Avail U s j

theorem onceInv_init (U : Universe) : OnceInv U (St.init : St V) :=
  ⟨fun _ => rfl, by simp [St.init], by simp [St.init]⟩

/-- one request keeps the invariant -/
theorem onceInv_value (U : Universe) (f : Nat → List V → V) (lrk : Nat → Nat) (hst : Strat U lrk)
    (fuel : Nat) (s : St V) (i : Nat) (hi : i < fuel) (h : OnceInv U s) :
    OnceInv U (value U f nofail fuel s i).1 := by
  obtain ⟨s', v, new, hv, a⟩ := acct_all U f lrk hst fuel s i hi h.noforce
  rw [hv]
  refine ⟨fun j => by rw [a.frame.forced_eq]; exact h.noforce j, ?_, ?_⟩
  · simp only [a.runs, List.map_append]
    refine List.nodup_append.mpr ⟨h.nodup, a.nodup, ?_⟩
    intro ta hta tb htb
    obtain ⟨x, hx, rfl⟩ := List.mem_map.mp hta
    obtain ⟨y, hy, rfl⟩ := List.mem_map.mp htb
    exact avail_unavail_tag U s x y (h.avail x hx) (a.unavail y hy)
  · intro j hj
    simp only [a.runs, List.mem_append] at hj
    rcases hj with hj | hj
    · exact avail_mono U a.frame j (h.avail j hj)
    · exact a.avail j hj

end TCV.Store
