import TCV.Model.Json
import TCV.Lemmas.PyReprInj
import TCV.Lemmas.Inj
/-!
# `json.dumps(v, sort_keys=True)` is injective (the hypothesis of `C16.different_binding_different_key`)

`dumpsRaw` — the standard library's text with `", "` / `": "` separators and `ensure_ascii` escapes — is a prefix code on
JSON values whose number tokens are well-formed (non-empty, free of the structural characters, different from the three
literals): equal text ⇒ equal value.  Strings are read back escape by escape (`unescStd`), surrogate pairs included.
-/
namespace TCV.Json
open TCV TCV.PVal

/-! ## strings -/

/-- read one (possibly escaped) character from the inside of a JSON string literal written with `ensure_ascii` -/
def unescStd : Str → Option (Char × Str)
  | [] => none
  | c :: r =>
    if c == '\\' then
      match r with
      | [] => none
      | d :: r' =>
        if d == '"' then some ('"', r')
        else if d == '\\' then some ('\\', r')
        else if d == 'n' then some ('\n', r')
        else if d == 'r' then some ('\r', r')
        else if d == 't' then some ('\t', r')
        else if d == 'b' then some (Char.ofNat 8, r')
        else if d == 'f' then some (Char.ofNat 12, r')
        else if d == 'u' then
          let v := hexVal (r'.take 4) 0
          let r2 := r'.drop 4
          if 0xd800 ≤ v && v ≤ 0xdbff then
            let lo := hexVal ((r2.drop 2).take 4) 0
            some (Char.ofNat (0x10000 + (v - 0xd800) * 0x400 + (lo - 0xdc00)), (r2.drop 2).drop 4)
          else some (Char.ofNat v, r2)
        else none
    else some (c, r)

theorem unescStd_uEsc (n : Nat) (rest : Str) (hn : n < 0x10000) (hs : ¬ (0xd800 ≤ n ∧ n ≤ 0xdbff)) :
    unescStd (uEsc n ++ rest) = some (Char.ofNat n, rest) := by
  have hv : hexVal (hexN 4 n) 0 = n := by rw [hexVal_hexN 4 n 0 (by simpa using hn)]; simp
  have hcond : (decide (0xd800 ≤ n) && decide (n ≤ 0xdbff)) = false := by
    simp only [Bool.and_eq_false_iff, decide_eq_false_iff_not]
    by_cases h : 0xd800 ≤ n
    · right; intro h2; exact hs ⟨h, h2⟩
    · left; exact h
  simp [unescStd, uEsc, hex4, take_hexN, drop_hexN, hv, hcond]

theorem char_lt (c : Char) : c.toNat < 0x110000 := by
  rcases c.valid with h | ⟨_, h⟩ <;> simp only [Char.toNat, UInt32.toNat] at * <;> omega

theorem char_not_surrogate (c : Char) : ¬ (0xd800 ≤ c.toNat ∧ c.toNat ≤ 0xdfff) := by
  rcases c.valid with h | ⟨h, _⟩ <;> simp only [Char.toNat, UInt32.toNat] at * <;> omega

theorem unescStd_pair (o : Nat) (rest : Str) (h1 : 0x10000 ≤ o) (h2 : o < 0x110000) :
    unescStd (uEsc (0xd800 + (o - 0x10000) / 0x400) ++ uEsc (0xdc00 + (o - 0x10000) % 0x400) ++ rest) = some (Char.ofNat o, rest) := by
  have hhi : 0xd800 + (o - 0x10000) / 0x400 < 16 ^ 4 := by
    have : (o - 0x10000) / 0x400 < 0x400 := by apply Nat.div_lt_of_lt_mul; omega
    omega
  have hlo : 0xdc00 + (o - 0x10000) % 0x400 < 16 ^ 4 := by
    have : (o - 0x10000) % 0x400 < 0x400 := Nat.mod_lt _ (by decide)
    omega
  have hv1 : hexVal (hexN 4 (0xd800 + (o - 0x10000) / 0x400)) 0 = 0xd800 + (o - 0x10000) / 0x400 := by
    rw [hexVal_hexN 4 _ 0 hhi]; simp
  have hv2 : hexVal (hexN 4 (0xdc00 + (o - 0x10000) % 0x400)) 0 = 0xdc00 + (o - 0x10000) % 0x400 := by
    rw [hexVal_hexN 4 _ 0 hlo]; simp
  have hr : 0xd800 ≤ 0xd800 + (o - 0x10000) / 0x400 ∧ 0xd800 + (o - 0x10000) / 0x400 ≤ 0xdbff := by
    have : (o - 0x10000) / 0x400 < 0x400 := by apply Nat.div_lt_of_lt_mul; omega
    omega
  have hcond : (decide (0xd800 ≤ 0xd800 + (o - 0x10000) / 0x400) && decide (0xd800 + (o - 0x10000) / 0x400 ≤ 0xdbff)) = true := by
    simp only [Bool.and_eq_true, decide_eq_true_eq]; exact hr
  have hsum : 0x10000 + (0xd800 + (o - 0x10000) / 0x400 - 0xd800) * 0x400 + (0xdc00 + (o - 0x10000) % 0x400 - 0xdc00) = o := by
    have := Nat.div_add_mod (o - 0x10000) 0x400
    omega
  simp only [uEsc, hex4, List.cons_append, List.append_assoc, unescStd, beq_self_eq_true, if_true]
  simp only [show ('u' == '"') = false by decide, show ('u' == '\\') = false by decide, show ('u' == 'n') = false by decide,
    show ('u' == 'r') = false by decide, show ('u' == 't') = false by decide, show ('u' == 'b') = false by decide,
    show ('u' == 'f') = false by decide, Bool.false_eq_true, if_false]
  rw [take_hexN, drop_hexN, hv1]
  simp only [hcond, if_true]
  have : List.drop 2 ('\\' :: 'u' :: (hexN 4 (0xdc00 + (o - 0x10000) % 0x400) ++ rest)) = hexN 4 (0xdc00 + (o - 0x10000) % 0x400) ++ rest := rfl
  rw [this, take_hexN, drop_hexN, hv2, hsum]

/-- every escape has its own shape -/
theorem unescStd_esc (c : Char) (rest : Str) : unescStd (escStdChar c ++ rest) = some (c, rest) := by
  unfold escStdChar shortEsc
  split
  · rename_i e he
    -- a short escape
    split at he
    · rename_i h; cases he; have : c = '"' := by simpa using h
      subst this; rfl
    split at he
    · rename_i h; cases he; have : c = '\\' := by simpa using h
      subst this; rfl
    split at he
    · rename_i h; cases he; have : c = '\n' := by simpa using h
      subst this; rfl
    split at he
    · rename_i h; cases he; have : c = '\r' := by simpa using h
      subst this; rfl
    split at he
    · rename_i h; cases he; have : c = '\t' := by simpa using h
      subst this; rfl
    split at he
    · rename_i h; cases he
      have hn : c.toNat = 8 := by simpa using h
      have : c = Char.ofNat 8 := by rw [← hn, Char.ofNat_toNat]
      subst this; rfl
    split at he
    · rename_i h; cases he
      have hn : c.toNat = 12 := by simpa using h
      have : c = Char.ofNat 12 := by rw [← hn, Char.ofNat_toNat]
      subst this; rfl
    · cases he
  · rename_i he
    -- no short escape: in particular neither a quote nor a backslash
    have hbs : (c == '\\') = false := by
      cases hb : c == '\\'
      · rfl
      · have : c = '\\' := by simpa using hb
        subst this; simp at he
    simp only
    split
    · simp [unescStd, hbs]
    · split
      · rename_i hlt
        have hlt' : c.toNat < 0x10000 := by simpa using hlt
        have := unescStd_uEsc c.toNat rest hlt' (fun h => char_not_surrogate c ⟨h.1, by omega⟩)
        rw [Char.ofNat_toNat] at this
        exact this
      · rename_i hge
        have hge' : 0x10000 ≤ c.toNat := by
          have : ¬ c.toNat < 0x10000 := by simpa using hge
          omega
        have := unescStd_pair c.toNat rest hge' (char_lt c)
        rw [Char.ofNat_toNat] at this
        exact this

/-- no escape begins with a raw quote -/
theorem esc_head (c : Char) : ∃ h t, escStdChar c = h :: t ∧ h ≠ '"' := by
  unfold escStdChar shortEsc
  split
  · rename_i e he
    split at he
    · cases he; exact ⟨_, _, rfl, by decide⟩
    split at he
    · cases he; exact ⟨_, _, rfl, by decide⟩
    split at he
    · cases he; exact ⟨_, _, rfl, by decide⟩
    split at he
    · cases he; exact ⟨_, _, rfl, by decide⟩
    split at he
    · cases he; exact ⟨_, _, rfl, by decide⟩
    split at he
    · cases he; exact ⟨_, _, rfl, by decide⟩
    split at he
    · cases he; exact ⟨_, _, rfl, by decide⟩
    · cases he
  · rename_i he
    have hq : c ≠ '"' := by
      intro h; subst h; simp at he
    simp only
    split
    · exact ⟨c, [], rfl, hq⟩
    · split
      · exact ⟨'\\', _, rfl, by decide⟩
      · exact ⟨'\\', _, rfl, by decide⟩

/-- the inside of a string literal, up to the closing quote, determines the string and what follows -/
theorem str_body_unique : ∀ (s s' r1 r2 : Str),
    s.flatMap escStdChar ++ '"' :: r1 = s'.flatMap escStdChar ++ '"' :: r2 → s = s' ∧ r1 = r2
  | [], [], r1, r2, h => by simpa using h
  | [], c :: s', r1, r2, h => by
    obtain ⟨hd, tl, he, hne⟩ := esc_head c
    simp only [List.flatMap_nil, List.nil_append, List.flatMap_cons, he, List.cons_append, List.cons.injEq] at h
    exact absurd h.1.symm hne
  | c :: s, [], r1, r2, h => by
    obtain ⟨hd, tl, he, hne⟩ := esc_head c
    simp only [List.flatMap_nil, List.nil_append, List.flatMap_cons, he, List.cons_append, List.cons.injEq] at h
    exact absurd h.1 hne
  | c :: s, c' :: s', r1, r2, h => by
    simp only [List.flatMap_cons, List.append_assoc] at h
    have := congrArg unescStd h
    rw [unescStd_esc, unescStd_esc] at this
    simp only [Option.some.injEq, Prod.mk.injEq] at this
    obtain ⟨ih1, ih2⟩ := str_body_unique s s' r1 r2 this.2
    exact ⟨by rw [this.1, ih1], ih2⟩

theorem strStd_unique (s s' r1 r2 : Str) (h : strStd s ++ r1 = strStd s' ++ r2) : s = s' ∧ r1 = r2 := by
  simp only [strStd, quote, List.cons_append, List.append_assoc, List.cons.injEq, true_and] at h
  exact str_body_unique s s' r1 r2 (by simpa using h)

/-! ## values -/

/-- structural characters: a number token contains none of them -/
def jDelim (c : Char) : Bool :=
  c == ',' || c == ' ' || c == ']' || c == '}' || c == ':' || c == '"' || c == '[' || c == '{'

/-- a number token as Python prints it: non-empty, no structural character, not one of the three literals -/
def NumOK (t : Str) : Prop :=
  t ≠ [] ∧ (∀ c ∈ t, jDelim c = false) ∧ t ≠ "null".toList ∧ t ≠ "true".toList ∧ t ≠ "false".toList

mutual
def WF : JVal → Prop
  | .num t => NumOK t
  | .arr xs => WFL xs
  | .obj kvs => WFO kvs
  | _ => True
def WFL : List JVal → Prop
  | [] => True
  | x :: r => WF x ∧ WFL r
def WFO : List (Str × JVal) → Prop
  | [] => True
  | (_, v) :: r => WF v ∧ WFO r
end

/-- the text of a value that is written as a bare token -/
def atomTok : JVal → Option Str
  | .null => some "null".toList
  | .bool true => some "true".toList
  | .bool false => some "false".toList
  | .num t => some t
  | _ => none

def Stop (r : Str) : Prop := r = [] ∨ ∃ c t, r = c :: t ∧ jDelim c = true

theorem dumps_atom (v : JVal) (t : Str) (h : atomTok v = some t) : dumpsRaw v = t := by
  cases v with
  | null => simp [atomTok] at h; simp [dumpsRaw, h]
  | bool b => cases b <;> simp [atomTok] at h <;> simp [dumpsRaw, h]
  | num t' => simp [atomTok] at h; simp [dumpsRaw, h]
  | str s => simp [atomTok] at h
  | arr xs => simp [atomTok] at h
  | obj kvs => simp [atomTok] at h

theorem atomTok_ok (v : JVal) (t : Str) (hw : WF v) (h : atomTok v = some t) : t ≠ [] ∧ ∀ c ∈ t, jDelim c = false := by
  cases v with
  | null => simp [atomTok] at h; subst h; exact ⟨by decide, by decide⟩
  | bool b => cases b <;> simp [atomTok] at h <;> subst h <;> exact ⟨by decide, by decide⟩
  | num t' => simp [atomTok] at h; subst h; exact ⟨hw.1, hw.2.1⟩
  | str s => simp [atomTok] at h
  | arr xs => simp [atomTok] at h
  | obj kvs => simp [atomTok] at h

theorem atomTok_inj (v w : JVal) (t : Str) (hv : WF v) (hw : WF w) (h1 : atomTok v = some t) (h2 : atomTok w = some t) : v = w := by
  have h : atomTok v = atomTok w := by rw [h1, h2]
  cases v with
  | null =>
    cases w with
    | null => rfl
    | bool b => cases b <;> simp [atomTok] at h
    | num t' => simp only [atomTok, Option.some.injEq] at h; exact absurd h.symm hw.2.2.1
    | str s => simp [atomTok] at h
    | arr xs => simp [atomTok] at h
    | obj kvs => simp [atomTok] at h
  | bool b =>
    cases w with
    | null => cases b <;> simp [atomTok] at h
    | bool b' => cases b <;> cases b' <;> simp [atomTok] at h <;> rfl
    | num t' =>
      cases b
      · simp only [atomTok, Option.some.injEq] at h; exact absurd h.symm hw.2.2.2.2
      · simp only [atomTok, Option.some.injEq] at h; exact absurd h.symm hw.2.2.2.1
    | str s => cases b <;> simp [atomTok] at h
    | arr xs => cases b <;> simp [atomTok] at h
    | obj kvs => cases b <;> simp [atomTok] at h
  | num t0 =>
    cases w with
    | null => simp only [atomTok, Option.some.injEq] at h; exact absurd h hv.2.2.1
    | bool b =>
      cases b
      · simp only [atomTok, Option.some.injEq] at h; exact absurd h hv.2.2.2.2
      · simp only [atomTok, Option.some.injEq] at h; exact absurd h hv.2.2.2.1
    | num t' => simp only [atomTok, Option.some.injEq] at h; rw [h]
    | str s => simp [atomTok] at h
    | arr xs => simp [atomTok] at h
    | obj kvs => simp [atomTok] at h
  | str s => simp [atomTok] at h1
  | arr xs => simp [atomTok] at h1
  | obj kvs => simp [atomTok] at h1

theorem not_atom_head (v : JVal) (h : atomTok v = none) : ∃ c t, dumpsRaw v = c :: t ∧ jDelim c = true ∧ (c = '"' ∨ c = '[' ∨ c = '{') := by
  cases v with
  | null => simp [atomTok] at h
  | bool b => cases b <;> simp [atomTok] at h
  | num t => simp [atomTok] at h
  | str s => exact ⟨'"', s.flatMap escStdChar ++ ['"'], by simp [dumpsRaw, strStd, quote], by decide, Or.inl rfl⟩
  | arr xs => exact ⟨'[', dumpsRawL xs ++ [']'], by simp [dumpsRaw], by decide, Or.inr (Or.inl rfl)⟩
  | obj kvs => exact ⟨'{', dumpsRawO kvs ++ ['}'], by simp [dumpsRaw], by decide, Or.inr (Or.inr rfl)⟩

/-- the first character of a value's text is never a closing or separating character -/
def closing (c : Char) : Bool := c == ']' || c == '}' || c == ',' || c == ' ' || c == ':'

theorem dumps_head (v : JVal) (hw : WF v) : ∃ c t, dumpsRaw v = c :: t ∧ closing c = false := by
  cases ha : atomTok v with
  | some t =>
    obtain ⟨hne, hd⟩ := atomTok_ok v t hw ha
    rw [dumps_atom v t ha]
    cases t with
    | nil => exact absurd rfl hne
    | cons c t' =>
      refine ⟨c, t', rfl, ?_⟩
      have := hd c (by simp)
      simp [jDelim] at this
      simp [closing, this]
  | none =>
    obtain ⟨c, t, he, _, hc⟩ := not_atom_head v ha
    refine ⟨c, t, he, ?_⟩
    rcases hc with rfl | rfl | rfl <;> decide

/-- an atom against anything -/
theorem injAtom (v w : JVal) (t : Str) (r1 r2 : Str) (hv : WF v) (hw : WF w) (ha : atomTok v = some t)
    (s1 : Stop r1) (s2 : Stop r2) (h : dumpsRaw v ++ r1 = dumpsRaw w ++ r2) : v = w ∧ r1 = r2 := by
  rw [dumps_atom v t ha] at h
  obtain ⟨hne, hd⟩ := atomTok_ok v t hv ha
  cases hb : atomTok w with
  | some t' =>
    rw [dumps_atom w t' hb] at h
    obtain ⟨_, hd'⟩ := atomTok_ok w t' hw hb
    have := PVal.span_unique (p := jDelim) t t' r1 r2 hd hd' s1 s2 h
    exact ⟨atomTok_inj v w t hv hw ha (by rw [hb, this.1]), this.2⟩
  | none =>
    exfalso
    obtain ⟨c, tl, he, hc, _⟩ := not_atom_head w hb
    rw [he] at h
    cases t with
    | nil => exact hne rfl
    | cons c' t' =>
      simp only [List.cons_append, List.cons.injEq] at h
      have := hd c' (by simp)
      rw [h.1] at this
      rw [this] at hc
      cases hc

/-- the elements after the first, each preceded by `", "` -/
def tailL : List JVal → Str
  | [] => []
  | y :: r => ',' :: ' ' :: (dumpsRaw y ++ tailL r)

def tailO : List (Str × JVal) → Str
  | [] => []
  | (k, v) :: r => ',' :: ' ' :: (strStd k ++ ':' :: ' ' :: (dumpsRaw v ++ tailO r))

theorem dumpsRawL_cons : ∀ (x : JVal) (xs : List JVal), dumpsRawL (x :: xs) = dumpsRaw x ++ tailL xs
  | x, [] => by simp [dumpsRawL, tailL]
  | x, y :: r => by
    simp only [dumpsRawL, tailL]
    rw [dumpsRawL_cons y r]

theorem dumpsRawO_cons : ∀ (k : Str) (v : JVal) (xs : List (Str × JVal)),
    dumpsRawO ((k, v) :: xs) = strStd k ++ ':' :: ' ' :: (dumpsRaw v ++ tailO xs)
  | k, v, [] => by simp [dumpsRawO, tailO]
  | k, v, (k', v') :: r => by
    simp only [dumpsRawO, tailO]
    rw [dumpsRawO_cons k' v' r]
    simp

theorem stop_tailL (xs : List JVal) (r : Str) : Stop (tailL xs ++ ']' :: r) := by
  cases xs with
  | nil => exact Or.inr ⟨']', r, rfl, by decide⟩
  | cons x xs => exact Or.inr ⟨',', ' ' :: (dumpsRaw x ++ (tailL xs ++ ']' :: r)), by simp [tailL], by decide⟩

theorem stop_tailO (xs : List (Str × JVal)) (r : Str) : Stop (tailO xs ++ '}' :: r) := by
  cases xs with
  | nil => exact Or.inr ⟨'}', r, rfl, by decide⟩
  | cons x xs => obtain ⟨k, v⟩ := x; exact Or.inr ⟨',', ' ' :: (strStd k ++ ':' :: ' ' :: (dumpsRaw v ++ (tailO xs ++ '}' :: r))), by simp [tailO], by decide⟩

theorem strStd_head (s : Str) : ∃ t, strStd s = '"' :: t := ⟨_, rfl⟩

mutual
theorem injV : ∀ (v w : JVal) (r1 r2 : Str), WF v → WF w → Stop r1 → Stop r2 →
    dumpsRaw v ++ r1 = dumpsRaw w ++ r2 → v = w ∧ r1 = r2
  | .null, w, r1, r2, hv, hw, s1, s2, h => injAtom .null w _ r1 r2 hv hw rfl s1 s2 h
  | .bool true, w, r1, r2, hv, hw, s1, s2, h => injAtom (.bool true) w _ r1 r2 hv hw rfl s1 s2 h
  | .bool false, w, r1, r2, hv, hw, s1, s2, h => injAtom (.bool false) w _ r1 r2 hv hw rfl s1 s2 h
  | .num t, w, r1, r2, hv, hw, s1, s2, h => injAtom (.num t) w _ r1 r2 hv hw rfl s1 s2 h
  | .str s, w, r1, r2, hv, hw, s1, s2, h => by
    cases hb : atomTok w with
    | some t =>
      have := injAtom w (.str s) t r2 r1 hw hv hb s2 s1 h.symm
      exact ⟨this.1.symm, this.2.symm⟩
    | none =>
      cases w with
      | str s' =>
        simp only [dumpsRaw] at h
        have := strStd_unique s s' r1 r2 h
        exact ⟨by rw [this.1], this.2⟩
      | arr ys => simp [dumpsRaw, strStd, quote] at h
      | obj kvs => simp [dumpsRaw, strStd, quote] at h
      | null => simp [atomTok] at hb
      | bool b => cases b <;> simp [atomTok] at hb
      | num t => simp [atomTok] at hb
  | .arr xs, w, r1, r2, hv, hw, s1, s2, h => by
    cases hb : atomTok w with
    | some t =>
      have := injAtom w (.arr xs) t r2 r1 hw hv hb s2 s1 h.symm
      exact ⟨this.1.symm, this.2.symm⟩
    | none =>
      cases w with
      | str s' => simp [dumpsRaw, strStd, quote] at h
      | arr ys =>
        simp only [dumpsRaw, List.cons_append, List.append_assoc, List.cons.injEq, true_and] at h
        have := injL xs ys r1 r2 hv hw (by simpa using h)
        exact ⟨by rw [this.1], this.2⟩
      | obj kvs => simp [dumpsRaw] at h
      | null => simp [atomTok] at hb
      | bool b => cases b <;> simp [atomTok] at hb
      | num t => simp [atomTok] at hb
  | .obj kvs, w, r1, r2, hv, hw, s1, s2, h => by
    cases hb : atomTok w with
    | some t =>
      have := injAtom w (.obj kvs) t r2 r1 hw hv hb s2 s1 h.symm
      exact ⟨this.1.symm, this.2.symm⟩
    | none =>
      cases w with
      | str s' => simp [dumpsRaw, strStd, quote] at h
      | arr ys => simp [dumpsRaw] at h
      | obj kvs' =>
        simp only [dumpsRaw, List.cons_append, List.append_assoc, List.cons.injEq, true_and] at h
        have := injO kvs kvs' r1 r2 hv hw (by simpa using h)
        exact ⟨by rw [this.1], this.2⟩
      | null => simp [atomTok] at hb
      | bool b => cases b <;> simp [atomTok] at hb
      | num t => simp [atomTok] at hb
theorem injL : ∀ (xs ys : List JVal) (r1 r2 : Str), WFL xs → WFL ys →
    dumpsRawL xs ++ ']' :: r1 = dumpsRawL ys ++ ']' :: r2 → xs = ys ∧ r1 = r2
  | [], ys, r1, r2, _, hy, h => by
    cases ys with
    | nil => simpa [dumpsRawL] using h
    | cons y ys' =>
      exfalso
      obtain ⟨c, t, hc, hcl⟩ := dumps_head y hy.1
      rw [dumpsRawL_cons, hc] at h
      simp [dumpsRawL] at h
      rw [← h.1] at hcl; simp [closing] at hcl
  | x :: xs', ys, r1, r2, hx, hy, h => by
    cases ys with
    | nil =>
      exfalso
      obtain ⟨c, t, hc, hcl⟩ := dumps_head x hx.1
      rw [dumpsRawL_cons, hc] at h
      simp [dumpsRawL] at h
      rw [h.1] at hcl; simp [closing] at hcl
    | cons y ys' =>
      rw [dumpsRawL_cons, dumpsRawL_cons] at h
      simp only [List.append_assoc] at h
      have hV := injV x y _ _ hx.1 hy.1 (stop_tailL xs' r1) (stop_tailL ys' r2) h
      have hT := injLT xs' ys' r1 r2 hx.2 hy.2 hV.2
      exact ⟨by rw [hV.1, hT.1], hT.2⟩
theorem injLT : ∀ (xs ys : List JVal) (r1 r2 : Str), WFL xs → WFL ys →
    tailL xs ++ ']' :: r1 = tailL ys ++ ']' :: r2 → xs = ys ∧ r1 = r2
  | [], ys, r1, r2, _, hy, h => by
    cases ys with
    | nil => simpa [tailL] using h
    | cons y ys' => simp [tailL] at h
  | x :: xs', ys, r1, r2, hx, hy, h => by
    cases ys with
    | nil => simp [tailL] at h
    | cons y ys' =>
      simp only [tailL, List.cons_append, List.append_assoc, List.cons.injEq, true_and] at h
      have hV := injV x y _ _ hx.1 hy.1 (stop_tailL xs' r1) (stop_tailL ys' r2) h
      have hT := injLT xs' ys' r1 r2 hx.2 hy.2 hV.2
      exact ⟨by rw [hV.1, hT.1], hT.2⟩
theorem injO : ∀ (xs ys : List (Str × JVal)) (r1 r2 : Str), WFO xs → WFO ys →
    dumpsRawO xs ++ '}' :: r1 = dumpsRawO ys ++ '}' :: r2 → xs = ys ∧ r1 = r2
  | [], ys, r1, r2, _, hy, h => by
    cases ys with
    | nil => simpa [dumpsRawO] using h
    | cons y ys' =>
      obtain ⟨k, v⟩ := y
      rw [dumpsRawO_cons] at h
      simp [dumpsRawO, strStd, quote] at h
  | (k, v) :: xs', ys, r1, r2, hx, hy, h => by
    cases ys with
    | nil =>
      rw [dumpsRawO_cons] at h
      simp [dumpsRawO, strStd, quote] at h
    | cons y ys' =>
      obtain ⟨k', v'⟩ := y
      rw [dumpsRawO_cons, dumpsRawO_cons] at h
      simp only [List.append_assoc] at h
      have hK := strStd_unique k k' _ _ h
      have h2 := hK.2
      simp only [List.cons_append, List.cons.injEq, true_and, List.append_assoc] at h2
      have hV := injV v v' _ _ hx.1 hy.1 (stop_tailO xs' r1) (stop_tailO ys' r2) h2
      have hT := injOT xs' ys' r1 r2 hx.2 hy.2 hV.2
      exact ⟨by rw [hK.1, hV.1, hT.1], hT.2⟩
theorem injOT : ∀ (xs ys : List (Str × JVal)) (r1 r2 : Str), WFO xs → WFO ys →
    tailO xs ++ '}' :: r1 = tailO ys ++ '}' :: r2 → xs = ys ∧ r1 = r2
  | [], ys, r1, r2, _, hy, h => by
    cases ys with
    | nil => simpa [tailO] using h
    | cons y ys' => obtain ⟨k, v⟩ := y; simp [tailO] at h
  | (k, v) :: xs', ys, r1, r2, hx, hy, h => by
    cases ys with
    | nil => simp [tailO] at h
    | cons y ys' =>
      obtain ⟨k', v'⟩ := y
      simp only [tailO, List.cons_append, List.append_assoc, List.cons.injEq, true_and] at h
      have hK := strStd_unique k k' _ _ h
      have h2 := hK.2
      simp only [List.cons_append, List.cons.injEq, true_and, List.append_assoc] at h2
      have hV := injV v v' _ _ hx.1 hy.1 (stop_tailO xs' r1) (stop_tailO ys' r2) h2
      have hT := injOT xs' ys' r1 r2 hx.2 hy.2 hV.2
      exact ⟨by rw [hK.1, hV.1, hT.1], hT.2⟩
end

/-- **the standard library's JSON text determines the value** (mapping items in the order written) -/
theorem dumpsRaw_injective (v w : JVal) (hv : WF v) (hw : WF w) (h : dumpsRaw v = dumpsRaw w) : v = w :=
  (injV v w [] [] hv hw (Or.inl rfl) (Or.inl rfl) (by simpa using h)).1

end TCV.Json
