import TCV.Model.Store
/-!
Soundness invariant of the pull machine (C01 core): whatever is in memory or in the store is the
semantic value of the computation it belongs to; every request preserves that and returns the
semantic value — whether it was computed, held in memory or loaded, and whichever runs fail.
-/
namespace TCV.Store

variable {V : Type}

theorem upd_same {α} (g : Nat → α) (k : Nat) (v : α) : upd g k v k = v := by simp [upd]
theorem upd_other {α} (g : Nat → α) (k x : Nat) (v : α) (h : x ≠ k) : upd g k v x = g x := by simp [upd, h]

/-- every value held in memory or in the store is the semantic value of its computation -/
def Good (U : Universe) (sem : Nat → V) (s : St V) : Prop :=
  (∀ i v, s.mem i = some v → v = sem i) ∧
  (∀ l v, s.store l = some v → ∀ i, (obj U i).loc = l → (obj U i).persist = true → v = sem i)

theorem good_init (U : Universe) (sem : Nat → V) : Good U sem (St.init : St V) := by
  constructor <;> intro _ _ h <;> simp [St.init] at h

section
variable (U : Universe) (f : Nat → List V → V) (sem : Nat → V) (fails : Nat → Bool)

def PVal (fuel : Nat) : Prop :=
  ∀ s i s' r, Good U sem s → value U f fails fuel s i = (s', r) →
    Good U sem s' ∧ (∀ v, r = some v → v = sem i)

/-- the same for a list of requests made with a request function `val` that is itself sound -/
def PList (val : St V → Nat → St V × Option V) : Prop :=
  ∀ js s s' r, Good U sem s → valueListWith val s js = (s', r) →
    Good U sem s' ∧ (∀ vs, r = some vs → vs = js.map sem)

theorem good_runs (s : St V) (l : List Nat) (h : Good U sem s) : Good U sem { s with runs := l } := h

variable (hsem : ∀ i, sem i = f i ((obj U i).used.map sem))
  (hloc : ∀ i j, (obj U i).loc = (obj U j).loc → (obj U i).persist = true → (obj U j).persist = true → sem i = sem j)

include hsem hloc in
theorem sound_step (fuel : Nat) (hL : PList U sem (value U f fails fuel)) : PVal U f sem fails (fuel + 1) := by
  intro s i s' r hg h
  simp only [value] at h
  split at h
  · rename_i v hm
    cases h
    exact ⟨hg, fun v' hv' => by cases hv'; exact hg.1 i v hm⟩
  · split at h
    · rename_i hm v hst
      cases h
      have hv : v = sem i := by
        split at hst
        · rename_i hc
          simp at hc
          exact hg.2 _ v hst i rfl hc.1
        · cases hst
      refine ⟨⟨?_, hg.2⟩, fun v' hv' => by cases hv'; exact hv⟩
      intro j w hj
      by_cases hji : j = i
      · subst hji; simp [upd_same] at hj; rw [← hj]; exact hv
      · simp only [upd_other _ _ _ _ hji] at hj; exact hg.1 j w hj
    · split at h
      · rename_i s1 hl
        cases h
        exact ⟨(hL _ _ _ _ hg hl).1, fun v hv => by cases hv⟩
      · rename_i s1 as hl
        obtain ⟨hg1, has⟩ := hL _ _ _ _ hg hl
        have hg2 : Good U sem { s1 with runs := s1.runs ++ [i] } := good_runs U sem s1 _ hg1
        split at h
        · rename_i s3 hl3
          cases h
          exact ⟨(hL _ _ _ _ hg2 hl3).1, fun v hv => by cases hv⟩
        · rename_i s3 ps hl3
          obtain ⟨hg3, hps⟩ := hL _ _ _ _ hg2 hl3
          split at h
          · cases h
            exact ⟨hg3, fun v hv => by cases hv⟩
          · cases h
            have hv : f i (as ++ ps) = sem i := by
              rw [has as rfl, hps ps rfl, hsem i, Obj.used, List.map_append]
            refine ⟨⟨?_, ?_⟩, fun v' hv' => by cases hv'; exact hv⟩
            · intro j w hj
              by_cases hji : j = i
              · subst hji; simp [upd_same] at hj; rw [← hj]; exact hv
              · simp only [upd_other _ _ _ _ hji] at hj; exact hg3.1 j w hj
            · intro l w hw j hjl hjp
              by_cases hp : (obj U i).persist = true
              · simp only [hp, if_true] at hw
                by_cases hll : l = (obj U i).loc
                · subst hll; simp [upd_same] at hw
                  rw [← hw, hv]; exact (hloc j i hjl hjp hp).symm
                · rw [upd_other _ _ _ _ hll] at hw; exact hg3.2 l w hw j hjl hjp
              · simp only [hp] at hw; exact hg3.2 l w hw j hjl hjp

theorem list_step (val : St V → Nat → St V × Option V)
    (hV : ∀ s i s' r, Good U sem s → val s i = (s', r) → Good U sem s' ∧ (∀ v, r = some v → v = sem i)) :
    PList U sem val := by
  intro js
  induction js with
  | nil =>
    intro s s' r hg h
    simp [valueListWith] at h
    obtain ⟨rfl, rfl⟩ := h
    exact ⟨hg, fun vs hvs => by cases hvs; rfl⟩
  | cons j js ih =>
    intro s s' r hg h
    simp only [valueListWith] at h
    split at h
    · rename_i s1 hv1
      cases h
      exact ⟨(hV _ _ _ _ hg hv1).1, fun vs hvs => by cases hvs⟩
    · rename_i s1 v hv1
      obtain ⟨hg1, hvv⟩ := hV _ _ _ _ hg hv1
      split at h
      · rename_i s2 hl2
        cases h
        exact ⟨(ih _ _ _ hg1 hl2).1, fun vs hvs => by cases hvs⟩
      · rename_i s2 vs hl2
        cases h
        obtain ⟨hg2, hvs⟩ := ih _ _ _ hg1 hl2
        refine ⟨hg2, fun ws hws => ?_⟩
        cases hws
        simp [hvv v rfl, hvs vs rfl]

include hsem hloc in
theorem sound_all : ∀ fuel, PVal U f sem fails fuel := by
  intro fuel
  induction fuel with
  | zero =>
    intro s i s' r hg h
    simp [value] at h
    obtain ⟨rfl, rfl⟩ := h
    exact ⟨hg, fun v hv => by cases hv⟩
  | succ n ih =>
    exact sound_step U f sem fails hsem hloc n (list_step U sem _ ih)

end

/-- forcing (with or without deleting) only forgets: the invariant survives -/
theorem good_forceTask (U : Universe) (sem : Nat → V) (s : St V) (i : Nat) (del : Bool)
    (hg : Good U sem s) : Good U sem (forceTask U s i del) := by
  unfold forceTask
  constructor
  · intro j v hj
    simp only at hj
    by_cases hji : j = i
    · subst hji; simp [upd_same] at hj
    · rw [upd_other _ _ _ _ hji] at hj; exact hg.1 j v hj
  · intro l v hl j hjl hjp
    simp only at hl
    split at hl
    · by_cases hll : l = (obj U i).loc
      · subst hll; simp [upd_same] at hl
      · rw [upd_other _ _ _ _ hll] at hl; exact hg.2 l v hl j hjl hjp
    · exact hg.2 l v hl j hjl hjp

/-- `reset_data` only forgets what one object holds in memory -/
theorem good_reset (U : Universe) (sem : Nat → V) (s : St V) (i : Nat) (hg : Good U sem s) :
    Good U sem { s with mem := upd s.mem i none } := by
  constructor
  · intro j v hj
    simp only at hj
    by_cases hji : j = i
    · subst hji; simp [upd_same] at hj
    · rw [upd_other _ _ _ _ hji] at hj; exact hg.1 j v hj
  · exact hg.2

theorem good_forceAll (U : Universe) (sem : Nat → V) (del : Bool) : ∀ (ts : List Nat) (s : St V),
    Good U sem s → Good U sem (forceAll U del s ts)
  | [], _, hg => hg
  | t :: ts, s, hg => good_forceAll U sem del ts _ (good_forceTask U sem s t del hg)

end TCV.Store
