import TCV.Model.ParMap
import TCV.Lemmas.Sort
/-! helper lemmas for C17 -/
namespace TCV.ParMap

theorem chunkedAux_flatten {α} (c : Nat) : ∀ (xs acc : List α) (n : Nat), n = acc.length →
    (chunkedAux c xs acc n).flatten = acc.reverse ++ xs := by
  intro xs
  induction xs with
  | nil =>
    intro acc n hn
    simp only [chunkedAux]
    split
    · simp
    · have : acc = [] := by
        cases acc with
        | nil => rfl
        | cons a t => simp at hn; omega
      simp [this]
  | cons x xs ih =>
    intro acc n hn
    simp only [chunkedAux]
    split
    · simp [ih [] 0 rfl]
    · rw [ih (x :: acc) (n + 1) (by simp [hn])]; simp

/-- shape of a chunk list: every chunk but the last has exactly `c` elements, the last one is
non-empty and has at most `c` -/
def ChunksOK {α} (c : Nat) : List (List α) → Prop
  | [] => True
  | [l] => 0 < l.length ∧ l.length ≤ c
  | ch :: r :: rs => ch.length = c ∧ ChunksOK c (r :: rs)

theorem chunksOK_cons {α} (c : Nat) (ch : List α) (r : List (List α)) (hc : 0 < c)
    (h1 : ch.length = c) (h2 : ChunksOK c r) : ChunksOK c (ch :: r) := by
  cases r with
  | nil => simp [ChunksOK, h1, hc]
  | cons a b => exact ⟨h1, h2⟩

theorem chunkedAux_ok {α} (c : Nat) (hc : 0 < c) : ∀ (xs acc : List α) (n : Nat), n = acc.length → n < c →
    ChunksOK c (chunkedAux c xs acc n) := by
  intro xs
  induction xs with
  | nil =>
    intro acc n hn hlt
    simp only [chunkedAux]
    split
    · simp [ChunksOK]; omega
    · trivial
  | cons x xs ih =>
    intro acc n hn hlt
    simp only [chunkedAux]
    split
    · rename_i h
      exact chunksOK_cons c _ _ hc (by simp; omega) (ih [] 0 rfl hc)
    · rename_i h
      exact ih (x :: acc) (n + 1) (by simp [hn]) (by omega)

/-! ### completion order -/

theorem collect_ok {ε β} (rs : List (Nat × β)) :
    collect (rs.map (fun r => (Except.ok r : Tagged ε β))) = .ok rs := by
  induction rs with
  | nil => rfl
  | cons r rs ih => simp [collect, ih]

/-- the futures of a chunk when nothing raises -/
theorem futures_ok {α ε β} (g : α → β) (chunk : List α) (order : List Nat) :
    order.filterMap (fun i => (chunk[i]?).map (fun x => ((Except.ok (g x) : Except ε β)).map (fun y => (i, y))))
      = (order.filterMap (fun i => (chunk[i]?).map (fun x => (i, g x)))).map (fun r => (Except.ok r : Tagged ε β)) := by
  rw [List.map_filterMap]
  congr 1
  funext i
  cases chunk[i]? <;> simp [Except.map]

theorem tagged_range' {α β} (g : α → β) : ∀ (chunk pre : List α),
    (List.range' pre.length chunk.length).filterMap (fun i => ((pre ++ chunk)[i]?).map (fun x => (i, g x)))
      = ((chunk.map g).zipIdx pre.length).map (fun p => (p.2, p.1)) := by
  intro chunk
  induction chunk with
  | nil => intro pre; simp
  | cons x xs ih =>
    intro pre
    have h := ih (pre ++ [x])
    simp only [List.length_append, List.length_cons, List.length_nil, List.append_assoc,
      List.singleton_append, Nat.zero_add] at h
    simp only [List.length_cons, List.range'_succ, List.filterMap_cons, List.map_cons, List.zipIdx_cons]
    have hx : (pre ++ x :: xs)[pre.length]? = some x := by simp
    rw [hx]
    simp only [Option.map_some]
    rw [h]

theorem tagged_range {α β} (g : α → β) (chunk : List α) :
    (List.range chunk.length).filterMap (fun i => (chunk[i]?).map (fun x => (i, g x)))
      = (chunk.map g).zipIdx.map (fun p => (p.2, p.1)) := by
  have := tagged_range' g chunk []
  simpa [List.range_eq_range'] using this

theorem zipIdx_swap_pairwise {β} (ys : List β) (k : Nat) :
    List.Pairwise (fun a b : Nat × β => (decide (a.1 ≤ b.1)) = true) ((ys.zipIdx k).map (fun p => (p.2, p.1))) := by
  induction ys generalizing k with
  | nil => simp
  | cons y ys ih =>
    simp only [List.zipIdx_cons, List.map_cons, List.pairwise_cons]
    refine ⟨?_, ih (k + 1)⟩
    intro a ha
    simp only [List.mem_map] at ha
    obtain ⟨p, hp, rfl⟩ := ha
    have := List.le_snd_of_mem_zipIdx hp
    simp; omega

theorem zipIdx_swap_fst_inj {β} (ys : List β) (k : Nat) :
    ∀ a b, a ∈ (ys.zipIdx k).map (fun p => (p.2, p.1)) → b ∈ (ys.zipIdx k).map (fun p => (p.2, p.1)) →
      a.1 = b.1 → a = b := by
  intro a b ha hb hab
  simp only [List.mem_map] at ha hb
  obtain ⟨p, hp, rfl⟩ := ha
  obtain ⟨q, hq, rfl⟩ := hb
  obtain ⟨p1, p2⟩ := p
  obtain ⟨q1, q2⟩ := q
  simp only at hab
  subst hab
  have h1 := List.mem_zipIdx hp
  have h2 := List.mem_zipIdx hq
  have : p1 = q1 := by
    rw [h1.2.2, h2.2.2]
  rw [this]

/-- the heart of C17: whatever the completion order, sorting by index restores input order -/
theorem sort_restores {α β} (g : α → β) (chunk : List α) (order : List Nat)
    (hperm : order.Perm (List.range chunk.length)) :
    (sortByIndex (order.filterMap (fun i => (chunk[i]?).map (fun x => (i, g x))))).map (·.2) = chunk.map g := by
  have hp1 : (order.filterMap (fun i => (chunk[i]?).map (fun x => (i, g x)))).Perm
      ((chunk.map g).zipIdx.map (fun p => (p.2, p.1))) := by
    rw [← tagged_range]
    exact hperm.filterMap _
  have htot : ∀ a b : Nat × β, (decide (a.1 ≤ b.1) || decide (b.1 ≤ a.1)) = true := by
    intro a b; simp; omega
  have htr : ∀ a b c : Nat × β, decide (a.1 ≤ b.1) = true → decide (b.1 ≤ c.1) = true → decide (a.1 ≤ c.1) = true := by
    intro a b c h1 h2; simp at *; omega
  have hp2 := (isort_perm (fun a b : Nat × β => decide (a.1 ≤ b.1))
      (order.filterMap (fun i => (chunk[i]?).map (fun x => (i, g x))))).trans hp1
  have hs := isort_pairwise (fun a b : Nat × β => decide (a.1 ≤ b.1)) htot htr
      (order.filterMap (fun i => (chunk[i]?).map (fun x => (i, g x))))
  have heq := List.Perm.eq_of_pairwise (le := fun a b : Nat × β => (decide (a.1 ≤ b.1)) = true)
    (by
      intro a b ha hb h1 h2
      have ha' := hp2.subset ha
      simp at h1 h2
      exact zipIdx_swap_fst_inj _ 0 a b ha' hb (by omega))
    hs (zipIdx_swap_pairwise (chunk.map g) 0) hp2
  unfold sortByIndex
  rw [heq]
  simp [List.map_map, Function.comp_def]

theorem mapE_ok {α ε β} (g : α → β) (xs : List α) :
    mapE (fun x => (Except.ok (g x) : Except ε β)) xs = .ok (xs.map g) := by
  induction xs with
  | nil => rfl
  | cons x xs ih => simp [mapE, ih]

end TCV.ParMap
