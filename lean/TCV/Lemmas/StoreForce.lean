import TCV.Lemmas.StoreFrame
/-!
Per-object run accounting with forcing (C07 core): without failures, a request runs only objects
that had no result in memory, each at most once, all of them in memory afterwards; a forced object
gets into memory only by running.
-/
namespace TCV.Store

variable {V : Type}

structure AcctF (U : Universe) (B : Nat → Prop) (s s' : St V) (new : List Nat) : Prop where
  runs : s'.runs = s.runs ++ new
  below : ∀ j ∈ new, B j
  wasNone : ∀ j ∈ new, s.mem j = none
  nodup : new.Nodup
  nowSome : ∀ j ∈ new, (s'.mem j).isSome
  frame : Frame s s'
  /-- a forced object is in memory afterwards only if it was before or it ran -/
  forcedMem : ∀ j, s.forced j = true → (s'.mem j).isSome → (s.mem j).isSome ∨ j ∈ new
  /-- a persisting object that ran is stored afterwards -/
  stored : ∀ j ∈ new, (obj U j).persist = true → (s'.store (obj U j).loc).isSome

def Topo (U : Universe) : Prop := ∀ i, ∀ d ∈ (obj U i).used, d < i

section
variable (U : Universe) (f : Nat → List V → V) (htopo : Topo U)

def nofailF : Nat → Bool := fun _ => false

def FAVal (fuel : Nat) : Prop :=
  ∀ (s : St V) (i : Nat), i < fuel →
    ∃ s' v new, value U f nofailF fuel s i = (s', some v) ∧ AcctF U (fun x => x ≤ i) s s' new ∧ (s'.mem i).isSome

def FAList (val : St V → Nat → St V × Option V) (fuel : Nat) : Prop :=
  ∀ (js : List Nat) (s : St V) (bound : Nat), (∀ j ∈ js, j < fuel ∧ j < bound) →
    ∃ s' vs new, valueListWith val s js = (s', some vs) ∧ AcctF U (fun x => x < bound) s s' new

theorem mem_none_of_mono {s s' : St V} (fr : Frame s s') (j : Nat) (h : s'.mem j = none) : s.mem j = none := by
  cases hm : s.mem j with
  | none => rfl
  | some v =>
    have := fr.mem_mono j (by simp [hm])
    rw [h] at this; cases this

theorem facct_list (fuel : Nat) (hV : FAVal U f fuel) : FAList U (value U f nofailF fuel) fuel := by
  intro js
  induction js with
  | nil =>
    intro s bound _
    exact ⟨s, [], [], rfl, ⟨by simp, by simp, by simp, by simp, by simp, Frame.refl s, fun j _ h => Or.inl h, by simp⟩⟩
  | cons j js ih =>
    intro s bound hjs
    obtain ⟨hj1, hj2⟩ := hjs j (by simp)
    obtain ⟨s1, v, n1, hv, a1, _⟩ := hV s j hj1
    obtain ⟨s2, vs, n2, hl, a2⟩ := ih s1 bound (fun x hx => hjs x (by simp [hx]))
    refine ⟨s2, v :: vs, n1 ++ n2, by simp [valueListWith, hv, hl], ?_⟩
    refine ⟨by rw [a2.runs, a1.runs, List.append_assoc], ?_, ?_, ?_, ?_, a1.frame.trans a2.frame, ?_, ?_⟩
    · intro x hx
      rcases List.mem_append.mp hx with hx | hx
      · exact Nat.lt_of_le_of_lt (a1.below x hx) hj2
      · exact a2.below x hx
    · intro x hx
      rcases List.mem_append.mp hx with hx | hx
      · exact a1.wasNone x hx
      · exact mem_none_of_mono a1.frame x (a2.wasNone x hx)
    · refine List.nodup_append.mpr ⟨a1.nodup, a2.nodup, ?_⟩
      intro x hx y hy hxy
      subst hxy
      have h1 := a1.nowSome x hx
      rw [a2.wasNone x hy] at h1; cases h1
    · intro x hx
      rcases List.mem_append.mp hx with hx | hx
      · exact a2.frame.mem_mono x (a1.nowSome x hx)
      · exact a2.nowSome x hx
    · intro x hf hs2
      have hf1 : s1.forced x = true := by rw [a1.frame.forced_eq]; exact hf
      rcases a2.forcedMem x hf1 hs2 with h | h
      · rcases a1.forcedMem x hf h with h' | h'
        · exact Or.inl h'
        · exact Or.inr (List.mem_append.mpr (Or.inl h'))
      · exact Or.inr (List.mem_append.mpr (Or.inr h))
    · intro x hx hp
      rcases List.mem_append.mp hx with hx | hx
      · exact a2.frame.store_mono _ (a1.stored x hx hp)
      · exact a2.stored x hx hp

include htopo in
theorem facct_step (fuel : Nat) (hV : FAVal U f fuel) : FAVal U f (fuel + 1) := by
  intro s i hi
  have hL := facct_list U f fuel hV
  simp only [value]
  cases hm : s.mem i with
  | some v =>
    exact ⟨s, v, [], rfl, ⟨by simp, by simp, by simp, by simp, by simp, Frame.refl s, fun j _ h => Or.inl h, by simp⟩, by simp [hm]⟩
  | none =>
    simp only
    cases hst0 : (if ((obj U i).persist && !s.forced i) = true then s.store (obj U i).loc else none) with
    | some v =>
      refine ⟨_, v, [], rfl, ⟨by simp, by simp, by simp, by simp, by simp, ?_, ?_, by simp⟩, by simp [upd]⟩
      · exact ⟨fun j hj => isSome_upd _ _ _ _ hj, fun _ hl => hl, rfl, ⟨[], by simp⟩⟩
      · intro j hf hs'
        -- `i` was loaded, so it is not forced; any other object's memory is unchanged
        by_cases hji : j = i
        · subst hji
          exfalso
          split at hst0
          · rename_i hc; simp [hf] at hc
          · cases hst0
        · left; simpa [upd, hji] using hs'
    | none =>
      simp only
      have hargs : ∀ j ∈ (obj U i).args, j < fuel ∧ j < i := by
        intro j hj
        have := htopo i j (List.mem_append.mpr (Or.inl hj))
        omega
      have hpulls : ∀ j ∈ (obj U i).pulls, j < fuel ∧ j < i := by
        intro j hj
        have := htopo i j (List.mem_append.mpr (Or.inr hj))
        omega
      obtain ⟨s1, avs, nA, hA, aA⟩ := hL (obj U i).args s i hargs
      have fr2 : Frame s1 { s1 with runs := s1.runs ++ [i] } := ⟨fun _ h => h, fun _ h => h, rfl, ⟨[i], rfl⟩⟩
      obtain ⟨s3, ps, nP, hP, aP⟩ := hL (obj U i).pulls { s1 with runs := s1.runs ++ [i] } i hpulls
      simp only [hA, hP, nofailF, Bool.false_eq_true, if_false]
      have frF : Frame s3 { s3 with store := (if (obj U i).persist = true then upd s3.store (obj U i).loc (some (f i (avs ++ ps))) else s3.store)
                                    mem := upd s3.mem i (some (f i (avs ++ ps))) } := by
        refine ⟨fun j hj => isSome_upd _ _ _ _ hj, ?_, rfl, ⟨[], by simp⟩⟩
        intro l hl
        simp only
        split
        · exact isSome_upd _ _ _ _ hl
        · exact hl
      have hiA : i ∉ nA := fun h => by have := aA.below i h; omega
      have hiP : i ∉ nP := fun h => by have := aP.below i h; omega
      refine ⟨_, _, nA ++ [i] ++ nP, rfl, ?_, by simp [upd]⟩
      refine ⟨by simp only [aP.runs, aA.runs, List.append_assoc], ?_, ?_, ?_, ?_, ((aA.frame.trans fr2).trans aP.frame).trans frF, ?_, ?_⟩
      · intro j hj
        simp only [List.mem_append, List.mem_singleton] at hj
        rcases hj with (hj | hj) | hj
        · have := aA.below j hj; omega
        · omega
        · have := aP.below j hj; omega
      · intro j hj
        simp only [List.mem_append, List.mem_singleton] at hj
        rcases hj with (hj | hj) | hj
        · exact aA.wasNone j hj
        · subst hj; exact hm
        · exact mem_none_of_mono (aA.frame.trans fr2) j (aP.wasNone j hj)
      · refine List.nodup_append.mpr ⟨List.nodup_append.mpr ⟨aA.nodup, by simp, ?_⟩, aP.nodup, ?_⟩
        · intro x hx y hy hxy
          simp only [List.mem_singleton] at hy
          subst hxy hy
          exact hiA hx
        · intro x hx y hy hxy
          subst hxy
          simp only [List.mem_append, List.mem_singleton] at hx
          rcases hx with hx | hx
          · have h1 := aA.nowSome x hx
            have h2 := aP.wasNone x hy
            simp only at h2
            rw [h2] at h1; cases h1
          · subst hx; exact hiP hy
      · intro j hj
        simp only [List.mem_append, List.mem_singleton] at hj
        rcases hj with (hj | hj) | hj
        · exact ((fr2.trans aP.frame).trans frF).mem_mono j (aA.nowSome j hj)
        · subst hj; simp [upd]
        · exact frF.mem_mono j (aP.nowSome j hj)
      · intro j hf hsF
        by_cases hji : j = i
        · subst hji; exact Or.inr (by simp)
        · have hs3 : (s3.mem j).isSome := by simpa [upd, hji] using hsF
          have hf1 : s1.forced j = true := by rw [aA.frame.forced_eq]; exact hf
          rcases aP.forcedMem j hf1 hs3 with h | h
          · rcases aA.forcedMem j hf h with h' | h'
            · exact Or.inl h'
            · exact Or.inr (by simp [h'])
          · exact Or.inr (by simp [h])
      · intro j hj hp
        simp only [List.mem_append, List.mem_singleton] at hj
        rcases hj with (hj | hj) | hj
        · exact ((fr2.trans aP.frame).trans frF).store_mono _ (aA.stored j hj hp)
        · subst hj; simp [hp, upd]
        · exact frF.store_mono _ (aP.stored j hj hp)

include htopo in
theorem facct_all : ∀ fuel, FAVal U f fuel := by
  intro fuel
  induction fuel with
  | zero => intro s i hi; omega
  | succ n ih => exact facct_step U f htopo n ih

end
end TCV.Store

namespace TCV.Store
variable {V : Type}

/-- the same accounting for a sequence of top-level requests (`recompute` iterating over the forced set) -/
theorem facct_valueAll (U : Universe) (f : Nat → List V → V) (htopo : Topo U) (fuel : Nat) :
    ∀ (ts : List Nat) (s : St V), (∀ t ∈ ts, t < fuel) →
      ∃ new, AcctF U (fun _ => True) s (valueAll U f nofailF fuel s ts).1 new ∧
        (∀ t ∈ ts, ((valueAll U f nofailF fuel s ts).1.mem t).isSome) ∧
        (∀ r ∈ (valueAll U f nofailF fuel s ts).2, r.isSome) := by
  intro ts
  induction ts with
  | nil =>
    intro s _
    exact ⟨[], ⟨by simp [valueAll], by simp, by simp, by simp, by simp, Frame.refl s, fun j _ h => Or.inl h, by simp⟩, by simp, by simp [valueAll]⟩
  | cons t ts ih =>
    intro s hts
    obtain ⟨s1, v, n1, hv, a1, hm1⟩ := facct_all U f htopo fuel s t (hts t (by simp))
    obtain ⟨n2, a2, hmem2, hres2⟩ := ih s1 (fun x hx => hts x (by simp [hx]))
    have hva : valueAll U f nofailF fuel s (t :: ts) =
        ((valueAll U f nofailF fuel s1 ts).1, some v :: (valueAll U f nofailF fuel s1 ts).2) := by
      simp [valueAll, hv]
    rw [hva]
    refine ⟨n1 ++ n2, ?_, ?_, ?_⟩
    · refine ⟨by rw [a2.runs, a1.runs, List.append_assoc], fun _ _ => trivial, ?_, ?_, ?_, a1.frame.trans a2.frame, ?_, ?_⟩
      · intro x hx
        rcases List.mem_append.mp hx with hx | hx
        · exact a1.wasNone x hx
        · exact mem_none_of_mono a1.frame x (a2.wasNone x hx)
      · refine List.nodup_append.mpr ⟨a1.nodup, a2.nodup, ?_⟩
        intro x hx y hy hxy
        subst hxy
        have h1 := a1.nowSome x hx
        rw [a2.wasNone x hy] at h1; cases h1
      · intro x hx
        rcases List.mem_append.mp hx with hx | hx
        · exact a2.frame.mem_mono x (a1.nowSome x hx)
        · exact a2.nowSome x hx
      · intro x hf hs2
        have hf1 : s1.forced x = true := by rw [a1.frame.forced_eq]; exact hf
        rcases a2.forcedMem x hf1 hs2 with h | h
        · rcases a1.forcedMem x hf h with h' | h'
          · exact Or.inl h'
          · exact Or.inr (List.mem_append.mpr (Or.inl h'))
        · exact Or.inr (List.mem_append.mpr (Or.inr h))
      · intro x hx hp
        rcases List.mem_append.mp hx with hx | hx
        · exact a2.frame.store_mono _ (a1.stored x hx hp)
        · exact a2.stored x hx hp
    · intro x hx
      rcases List.mem_cons.mp hx with rfl | hx
      · exact a2.frame.mem_mono _ hm1
      · exact hmem2 x hx
    · intro r hr
      rcases List.mem_cons.mp hr with rfl | hr
      · rfl
      · exact hres2 r hr

end TCV.Store
