import TCV.Model.Build
/-!
lemmas about the first pass of chain construction (`Build.createTasks`, the model of `Chain._create_tasks`):
which tasks exist afterwards, from which config each one has its parameters, and that a successful
construction never lets one config override the declaration of another.
-/
namespace TCV.Build
open TCV TCV.Config TCV.PVal

/-- `t` is the task that config number `t.cfgIx` declares through one of its `tasks` entries: the class is neither
abstract nor excluded there, the name is `namespace::slug` and the parameter values come from the data of THAT config -/
def FromCfg (classes : Classes) (all : List Cfg) (t : Task1) : Prop :=
  ∃ cfg cid, all[t.cfgIx]? = some cfg ∧ cid ∈ cfg.tasks ∧ get? cid classes = some t.cls ∧
    t.cls.abstract = false ∧ cfg.excluded.contains cid = false ∧ t.ns = cfg.ns ∧
    t.full = fullName cfg.ns t.cls.slug ∧ setParams t.cls.params cfg.data = .ok t.params

theorem register_mem (t : Task1) : ∀ (acc acc' : List Task1), register t acc = .ok acc' →
    ∀ u ∈ acc', u = t ∨ u ∈ acc
  | [], acc', h, u, hu => by
    simp only [register] at h; cases h
    simp at hu; exact Or.inl hu
  | a :: r, acc', h, u, hu => by
    simp only [register] at h
    split at h
    · split at h
      · cases h
        rcases List.mem_cons.mp hu with rfl | hu
        · exact Or.inl rfl
        · exact Or.inr (List.mem_cons_of_mem _ hu)
      · cases h
    · cases hr : register t r with
      | error e => rw [hr] at h; cases h
      | ok r' =>
        rw [hr] at h; cases h
        rcases List.mem_cons.mp hu with rfl | hu
        · exact Or.inr (List.mem_cons_self ..)
        · rcases register_mem t r r' hr u hu with h1 | h1
          · exact Or.inl h1
          · exact Or.inr (List.mem_cons_of_mem _ h1)

/-- after `tasks[name] = task`: the new task is there under its name … -/
theorem register_has (t : Task1) : ∀ (acc acc' : List Task1), register t acc = .ok acc' → t ∈ acc'
  | [], acc', h => by simp only [register] at h; cases h; simp
  | a :: r, acc', h => by
    simp only [register] at h
    split at h
    · split at h
      · cases h; simp
      · cases h
    · cases hr : register t r with
      | error e => rw [hr] at h; cases h
      | ok r' =>
        rw [hr] at h; cases h
        exact List.mem_cons_of_mem _ (register_has t r r' hr)

/-- … every other name keeps its task, and a task of the same name survives only by being replaced by a task
of the SAME config (else registration is the error `conflict`) -/
theorem register_keeps (t : Task1) : ∀ (acc acc' : List Task1), register t acc = .ok acc' →
    ∀ u ∈ acc, ∃ u' ∈ acc', u'.full = u.full ∧ u'.cfgIx = u.cfgIx
  | [], _, _, u, hu => by simp at hu
  | a :: r, acc', h, u, hu => by
    simp only [register] at h
    split at h
    next hfull =>
      split at h
      next hix =>
        cases h
        rcases List.mem_cons.mp hu with rfl | hu
        · exact ⟨t, List.mem_cons_self .., by simpa using (beq_iff_eq.mp hfull).symm, by simpa using (beq_iff_eq.mp hix).symm⟩
        · exact ⟨u, List.mem_cons_of_mem _ hu, rfl, rfl⟩
      · cases h
    · cases hr : register t r with
      | error e => rw [hr] at h; cases h
      | ok r' =>
        rw [hr] at h; cases h
        rcases List.mem_cons.mp hu with rfl | hu
        · exact ⟨u, List.mem_cons_self .., rfl, rfl⟩
        · obtain ⟨u', h1, h2⟩ := register_keeps t r r' hr u hu
          exact ⟨u', List.mem_cons_of_mem _ h1, h2⟩

theorem register_nodup (t : Task1) : ∀ (acc acc' : List Task1), register t acc = .ok acc' →
    (acc.map (·.full)).Nodup → (acc'.map (·.full)).Nodup
  | [], acc', h, _ => by simp only [register] at h; cases h; simp
  | a :: r, acc', h, hn => by
    simp only [register] at h
    split at h
    next hfull =>
      split at h
      · cases h
        have : t.full = a.full := (beq_iff_eq.mp hfull).symm
        simpa [this] using hn
      · cases h
    next hfull =>
      cases hr : register t r with
      | error e => rw [hr] at h; cases h
      | ok r' =>
        rw [hr] at h; cases h
        simp only [List.map_cons, List.nodup_cons] at hn ⊢
        refine ⟨?_, register_nodup t r r' hr hn.2⟩
        intro hm
        obtain ⟨u, hu, he⟩ := List.mem_map.mp hm
        rcases register_mem t r r' hr u hu with rfl | hu'
        · exact hfull (by simp [he])
        · exact hn.1 (List.mem_map.mpr ⟨u, hu', he⟩)

section addTasks
variable (classes : Classes) (all : List Cfg) (cfg : Cfg) (ix : Nat) (hix : all[ix]? = some cfg)
include hix

/-- invariant of the loop over one config's `tasks` entries -/
theorem addTasks_sound : ∀ (todo : List Str) (acc acc' : List Task1), (∀ c ∈ todo, c ∈ cfg.tasks) →
    addTasks classes cfg ix todo acc = .ok acc' → (∀ t ∈ acc, FromCfg classes all t) → ∀ t ∈ acc', FromCfg classes all t
  | [], acc, acc', _, h, hP => by simp only [addTasks] at h; cases h; exact hP
  | cid :: rest, acc, acc', hsub, h, hP => by
    simp only [addTasks] at h
    cases hc : get? cid classes with
    | none => rw [hc] at h; cases h
    | some c =>
      rw [hc] at h
      simp only at h
      split at h
      · exact addTasks_sound rest acc acc' (fun c hc => hsub c (List.mem_cons_of_mem _ hc)) h hP
      next hskip =>
        cases hp : setParams c.params cfg.data with
        | error e => rw [hp] at h; cases h
        | ok ps =>
          rw [hp] at h
          simp only at h
          cases hr : register { full := fullName cfg.ns c.slug, cls := c, cfgIx := ix, ns := cfg.ns, params := ps } acc with
          | error e => rw [hr] at h; cases h
          | ok acc1 =>
            rw [hr] at h
            simp only at h
            refine addTasks_sound rest acc1 acc' (fun c hc => hsub c (List.mem_cons_of_mem _ hc)) h ?_
            intro t ht
            rcases register_mem _ acc acc1 hr t ht with rfl | ht
            · simp only [Bool.or_eq_true, not_or, Bool.not_eq_true] at hskip
              exact ⟨cfg, cid, hix, hsub cid (List.mem_cons_self ..), hc, hskip.1, hskip.2, rfl, rfl, hp⟩
            · exact hP t ht

omit hix in
/-- tasks registered before stay (as a task of the same name and the same config) -/
theorem addTasks_keeps : ∀ (todo : List Str) (acc acc' : List Task1),
    addTasks classes cfg ix todo acc = .ok acc' → ∀ u ∈ acc, ∃ u' ∈ acc', u'.full = u.full ∧ u'.cfgIx = u.cfgIx
  | [], acc, acc', h, u, hu => by simp only [addTasks] at h; cases h; exact ⟨u, hu, rfl, rfl⟩
  | cid :: rest, acc, acc', h, u, hu => by
    simp only [addTasks] at h
    cases hc : get? cid classes with
    | none => rw [hc] at h; cases h
    | some c =>
      rw [hc] at h
      simp only at h
      split at h
      · exact addTasks_keeps rest acc acc' h u hu
      · cases hp : setParams c.params cfg.data with
        | error e => rw [hp] at h; cases h
        | ok ps =>
          rw [hp] at h
          simp only at h
          cases hr : register { full := fullName cfg.ns c.slug, cls := c, cfgIx := ix, ns := cfg.ns, params := ps } acc with
          | error e => rw [hr] at h; cases h
          | ok acc1 =>
            rw [hr] at h
            simp only at h
            obtain ⟨u1, h1, h2, h3⟩ := register_keeps _ acc acc1 hr u hu
            obtain ⟨u2, g1, g2, g3⟩ := addTasks_keeps rest acc1 acc' h u1 h1
            exact ⟨u2, g1, by rw [g2, h2], by rw [g3, h3]⟩

omit hix in
/-- every declared, non-abstract, non-excluded class of the config has its task afterwards, and that task belongs to
this config -/
theorem addTasks_complete : ∀ (todo : List Str) (acc acc' : List Task1),
    addTasks classes cfg ix todo acc = .ok acc' →
    ∀ cid ∈ todo, ∀ c, get? cid classes = some c → (c.abstract || cfg.excluded.contains cid) = false →
      ∃ t ∈ acc', t.full = fullName cfg.ns c.slug ∧ t.cfgIx = ix
  | [], _, _, _, cid, hm, _, _, _ => by simp at hm
  | cid0 :: rest, acc, acc', h, cid, hm, c, hc, hs => by
    simp only [addTasks] at h
    cases hc0 : get? cid0 classes with
    | none => rw [hc0] at h; cases h
    | some c0 =>
      rw [hc0] at h
      simp only at h
      split at h
      next hskip =>
        rcases List.mem_cons.mp hm with rfl | hm
        · rw [hc] at hc0; cases hc0; rw [hs] at hskip; cases hskip
        · exact addTasks_complete rest acc acc' h cid hm c hc hs
      · cases hp : setParams c0.params cfg.data with
        | error e => rw [hp] at h; cases h
        | ok ps =>
          rw [hp] at h
          simp only at h
          cases hr : register { full := fullName cfg.ns c0.slug, cls := c0, cfgIx := ix, ns := cfg.ns, params := ps } acc with
          | error e => rw [hr] at h; cases h
          | ok acc1 =>
            rw [hr] at h
            simp only at h
            rcases List.mem_cons.mp hm with rfl | hm
            · rw [hc] at hc0; cases hc0
              have h1 := register_has _ acc acc1 hr
              obtain ⟨u2, g1, g2, g3⟩ := addTasks_keeps classes cfg ix rest acc1 acc' h _ h1
              exact ⟨u2, g1, g2, g3⟩
            · exact addTasks_complete rest acc1 acc' h cid hm c hc hs

omit hix in
theorem addTasks_nodup : ∀ (todo : List Str) (acc acc' : List Task1),
    addTasks classes cfg ix todo acc = .ok acc' → (acc.map (·.full)).Nodup → (acc'.map (·.full)).Nodup
  | [], acc, acc', h, hn => by simp only [addTasks] at h; cases h; exact hn
  | cid :: rest, acc, acc', h, hn => by
    simp only [addTasks] at h
    cases hc : get? cid classes with
    | none => rw [hc] at h; cases h
    | some c =>
      rw [hc] at h
      simp only at h
      split at h
      · exact addTasks_nodup rest acc acc' h hn
      · cases hp : setParams c.params cfg.data with
        | error e => rw [hp] at h; cases h
        | ok ps =>
          rw [hp] at h
          simp only at h
          cases hr : register { full := fullName cfg.ns c.slug, cls := c, cfgIx := ix, ns := cfg.ns, params := ps } acc with
          | error e => rw [hr] at h; cases h
          | ok acc1 =>
            rw [hr] at h
            simp only at h
            exact addTasks_nodup rest acc1 acc' h (register_nodup _ acc acc1 hr hn)

end addTasks

/-- the loop over the configs of the chain -/
theorem createTasksFrom_spec (classes : Classes) (all : List Cfg) : ∀ (rest : List Cfg) (ix : Nat) (acc acc' : List Task1),
    all.drop ix = rest → createTasksFrom classes rest ix acc = .ok acc' →
    (∀ t ∈ acc, FromCfg classes all t) → (acc.map (·.full)).Nodup →
    (∀ t ∈ acc', FromCfg classes all t) ∧ (acc'.map (·.full)).Nodup ∧
    (∀ u ∈ acc, ∃ u' ∈ acc', u'.full = u.full ∧ u'.cfgIx = u.cfgIx) ∧
    (∀ j cfg, ix ≤ j → all[j]? = some cfg → ∀ cid ∈ cfg.tasks, ∀ c, get? cid classes = some c →
        (c.abstract || cfg.excluded.contains cid) = false → ∃ t ∈ acc', t.full = fullName cfg.ns c.slug ∧ t.cfgIx = j)
  | [], ix, acc, acc', hdrop, h, hP, hn => by
    simp only [createTasksFrom] at h; cases h
    refine ⟨hP, hn, fun u hu => ⟨u, hu, rfl, rfl⟩, ?_⟩
    intro j cfg hj hget
    have : all.length ≤ ix := by
      have := congrArg List.length hdrop
      simp at this; omega
    have : all[j]? = none := List.getElem?_eq_none (by omega)
    rw [this] at hget; cases hget
  | cfg :: rest, ix, acc, acc', hdrop, h, hP, hn => by
    simp only [createTasksFrom] at h
    have hix : all[ix]? = some cfg := by
      have := congrArg (fun l => l[0]?) hdrop
      simpa using this
    have hdrop' : all.drop (ix + 1) = rest := by
      have := congrArg List.tail hdrop
      simpa using this
    cases ha : addTasks classes cfg ix cfg.tasks acc with
    | error e => rw [ha] at h; cases h
    | ok acc1 =>
      rw [ha] at h
      simp only at h
      have s1 := addTasks_sound classes all cfg ix hix cfg.tasks acc acc1 (fun _ h => h) ha hP
      have s2 := addTasks_nodup classes cfg ix cfg.tasks acc acc1 ha hn
      obtain ⟨r1, r2, r3, r4⟩ := createTasksFrom_spec classes all rest (ix + 1) acc1 acc' hdrop' h s1 s2
      refine ⟨r1, r2, ?_, ?_⟩
      · intro u hu
        obtain ⟨u1, h1, h2, h3⟩ := addTasks_keeps classes cfg ix cfg.tasks acc acc1 ha u hu
        obtain ⟨u2, g1, g2, g3⟩ := r3 u1 h1
        exact ⟨u2, g1, by rw [g2, h2], by rw [g3, h3]⟩
      · intro j cfg' hj hget cid hcid c hc hs
        by_cases hji : j = ix
        · subst hji
          rw [hix] at hget; cases hget
          obtain ⟨t, ht, h2, h3⟩ := addTasks_complete classes cfg j cfg.tasks acc acc1 ha cid hcid c hc hs
          obtain ⟨u2, g1, g2, g3⟩ := r3 t ht
          exact ⟨u2, g1, by rw [g2, h2], by rw [g3, h3]⟩
        · exact r4 j cfg' (by omega) hget cid hcid c hc hs

end TCV.Build
