import TCV.Lemmas.JsonText
/-! the parser reads back what the compact encoder writes (mutual induction over values) -/
namespace TCV.JsonText
open TCV TCV.Glue

mutual
/-- float tokens are non-empty number tokens that contain `.`, `e` or `E` (what orjson prints for a
finite float); everything else is unconstrained -/
def WF : JVal → Prop
  | .float t => t ≠ [] ∧ (∀ c ∈ t, isNumChar c = true) ∧ isFloatTok t = true
  | .arr xs => WFL xs
  | .obj kvs => WFM kvs
  | _ => True
def WFL : List JVal → Prop
  | [] => True
  | x :: r => WF x ∧ WFL r
def WFM : List (Str × JVal) → Prop
  | [] => True
  | (_, x) :: r => WF x ∧ WFM r
end

mutual
/-- fuel the parser needs for a value -/
def need : JVal → Nat
  | .arr xs => 1 + needL xs
  | .obj kvs => 1 + needM kvs
  | _ => 1
def needL : List JVal → Nat
  | [] => 0
  | x :: r => 1 + max (need x) (needL r)
def needM : List (Str × JVal) → Nat
  | [] => 0
  | (_, x) :: r => 1 + max (need x) (needM r)
end

theorem delim_cons (c : Char) (r : Str) (h : isNumChar c = false) : Delim (c :: r) := by
  intro c' r' e; cases e; exact h

theorem delim_nil : Delim [] := by intro c r e; cases e

theorem delim_encTail (t : List JVal) (rest : Str) : Delim (encTail t ++ rest) := by
  cases t with
  | nil => exact delim_cons _ _ (by decide)
  | cons y t' => exact delim_cons _ _ (by decide)

theorem delim_encMTail (t : List (Str × JVal)) (rest : Str) : Delim (encMTail t ++ rest) := by
  cases t with
  | nil => exact delim_cons _ _ (by decide)
  | cons y t' => obtain ⟨k, y⟩ := y; exact delim_cons _ _ (by decide)

/-- the first character of an encoded value is neither white space nor a closing bracket -/
theorem enc_head (v : JVal) (h : WF v) : ∃ c r, enc v = c :: r ∧ isWs c = false ∧ c ≠ ']' ∧ c ≠ '}' := by
  cases v with
  | null => exact ⟨_, _, rfl, by decide, by decide, by decide⟩
  | bool b => cases b <;> exact ⟨_, _, rfl, by decide, by decide, by decide⟩
  | int i =>
    obtain ⟨h1, _, h3⟩ := encInt_chars i
    cases e : encInt i with
    | nil => exact absurd e h3
    | cons c r =>
      have hc := h1 c (by rw [e]; simp)
      refine ⟨c, r, by simp [enc, e], (numChar_facts c hc).1, ?_, ?_⟩ <;>
        (intro e'; subst e'; revert hc; decide)
  | float t =>
    obtain ⟨h1, h2, _⟩ := h
    cases e : t with
    | nil => exact absurd e h1
    | cons c r =>
      have hc := h2 c (by rw [e]; simp)
      refine ⟨c, r, by simp [enc], (numChar_facts c hc).1, ?_, ?_⟩ <;>
        (intro e'; subst e'; revert hc; decide)
  | str s => exact ⟨_, _, rfl, by decide, by decide, by decide⟩
  | arr xs => exact ⟨_, _, rfl, by decide, by decide, by decide⟩
  | obj kvs => exact ⟨_, _, rfl, by decide, by decide, by decide⟩

theorem parseVal_num (f : Nat) (t rest : Str) (c : Char) (r : Str) (e : t = c :: r) (hc : isNumChar c = true) :
    parseVal (f + 1) (t ++ rest) = parseNum (t ++ rest) := by
  obtain ⟨h0, h1, h2, h3, h4, h5, h6⟩ := numChar_facts c hc
  subst e
  simp only [List.cons_append, parseVal, skipWs_cons _ _ h0, h1, h2, h3, h4, h5, h6, if_false]

mutual
theorem parseVal_enc : ∀ (v : JVal) (f : Nat) (rest : Str), WF v → need v ≤ f → Delim rest →
    parseVal f (enc v ++ rest) = some (v, rest)
  | .null, f, rest, _, hf, _ => by
    cases f with
    | zero => simp [need] at hf
    | succ f => simp [parseVal, enc, skipWs, isWs, expect]
  | .bool b, f, rest, _, hf, _ => by
    cases f with
    | zero => simp [need] at hf
    | succ f => cases b <;> simp [parseVal, enc, skipWs, isWs, expect]
  | .int i, f, rest, _, hf, hd => by
    cases f with
    | zero => simp [need] at hf
    | succ f =>
      obtain ⟨h1, _, h3⟩ := encInt_chars i
      cases e : encInt i with
      | nil => exact absurd e h3
      | cons c r =>
        have hc := h1 c (by rw [e]; simp)
        simp only [enc]
        rw [parseVal_num f (encInt i) rest c r e hc, parseNum_int i rest hd]
  | .float t, f, rest, hw, hf, hd => by
    cases f with
    | zero => simp [need] at hf
    | succ f =>
      obtain ⟨h1, h2, h3⟩ := hw
      cases e : t with
      | nil => exact absurd e h1
      | cons c r =>
        have hc := h2 c (by rw [e]; simp)
        simp only [enc]
        rw [← e, parseVal_num f t rest c r e hc, parseNum_float t rest h2 h3 h1 hd]
  | .str s, f, rest, _, hf, _ => by
    cases f with
    | zero => simp [need] at hf
    | succ f =>
      have : enc (.str s) ++ rest = '"' :: (escStr s ++ '"' :: rest) := by simp [enc, encStr]
      rw [this]
      simp only [parseVal, skipWs_cons _ _ (by decide : isWs '"' = false)]
      simp [parseStr_encStr]
  | .arr xs, f, rest, hw, hf, hd => by
    cases f with
    | zero => simp [need] at hf
    | succ f =>
      have hf' : needL xs ≤ f := by simp only [need] at hf; omega
      cases xs with
      | nil => simp [parseVal, enc, encElems, skipWs, isWs]
      | cons x t =>
        have hw' : WF x ∧ WFL t := hw
        obtain ⟨c, r, he, hws, hb, _⟩ := enc_head x hw'.1
        have hE := parseElems_enc (x :: t) f rest (by simp) hw hf'
        have hcat : enc (.arr (x :: t)) ++ rest = '[' :: (c :: (r ++ encTail t ++ rest)) := by
          simp [enc, encElems, he]
        have hcat2 : encElems (x :: t) ++ rest = c :: (r ++ encTail t ++ rest) := by
          simp [encElems, he]
        rw [hcat]
        rw [hcat2] at hE
        simp only [List.append_assoc] at hE
        simp only [parseVal, skipWs_cons _ _ (by decide : isWs '[' = false), skipWs_cons _ _ hws, hb]
        simp [hE]
  | .obj kvs, f, rest, hw, hf, hd => by
    cases f with
    | zero => simp [need] at hf
    | succ f =>
      have hf' : needM kvs ≤ f := by simp only [need] at hf; omega
      cases kvs with
      | nil => simp [parseVal, enc, encMembers, skipWs, isWs]
      | cons kx t =>
        obtain ⟨k, x⟩ := kx
        have hE := parseMembers_enc ((k, x) :: t) f rest (by simp) hw hf'
        have hcat : enc (.obj ((k, x) :: t)) ++ rest = '{' :: ('"' :: (escStr k ++ '"' :: ':' :: (enc x ++ encMTail t ++ rest))) := by
          simp [enc, encMembers, encStr]
        have hcat2 : encMembers ((k, x) :: t) ++ rest = '"' :: (escStr k ++ '"' :: ':' :: (enc x ++ encMTail t ++ rest)) := by
          simp [encMembers, encStr]
        rw [hcat]
        rw [hcat2] at hE
        simp only [List.append_assoc] at hE
        simp only [parseVal, skipWs_cons _ _ (by decide : isWs '{' = false), skipWs_cons _ _ (by decide : isWs '"' = false)]
        simp [hE]
theorem parseElems_enc : ∀ (xs : List JVal) (f : Nat) (rest : Str), xs ≠ [] → WFL xs → needL xs ≤ f →
    parseElems f (encElems xs ++ rest) = some (xs, rest)
  | [], _, _, hne, _, _ => absurd rfl hne
  | x :: t, f, rest, _, hw, hf => by
    cases f with
    | zero => simp [needL] at hf
    | succ f =>
      have hw' : WF x ∧ WFL t := hw
      have hfx : need x ≤ f := by simp only [needL] at hf; omega
      have hft : needL t ≤ f := by simp only [needL] at hf; omega
      have hV := parseVal_enc x f (encTail t ++ rest) hw'.1 hfx (delim_encTail t rest)
      have hcat : encElems (x :: t) ++ rest = enc x ++ (encTail t ++ rest) := by simp [encElems]
      rw [hcat]
      simp only [parseElems, hV]
      cases t with
      | nil => simp [encTail, skipWs, isWs]
      | cons y t' =>
        have hE := parseElems_enc (y :: t') f rest (by simp) hw'.2 hft
        have : encTail (y :: t') ++ rest = ',' :: (encElems (y :: t') ++ rest) := by simp [encTail, encElems]
        rw [this]
        simp [skipWs, isWs, hE]
theorem parseMembers_enc : ∀ (kvs : List (Str × JVal)) (f : Nat) (rest : Str), kvs ≠ [] → WFM kvs → needM kvs ≤ f →
    parseMembers f (encMembers kvs ++ rest) = some (kvs, rest)
  | [], _, _, hne, _, _ => absurd rfl hne
  | (k, x) :: t, f, rest, _, hw, hf => by
    cases f with
    | zero => simp [needM] at hf
    | succ f =>
      have hw' : WF x ∧ WFM t := hw
      have hfx : need x ≤ f := by simp only [needM] at hf; omega
      have hft : needM t ≤ f := by simp only [needM] at hf; omega
      have hV := parseVal_enc x f (encMTail t ++ rest) hw'.1 hfx (delim_encMTail t rest)
      have hcat : encMembers ((k, x) :: t) ++ rest = '"' :: (escStr k ++ '"' :: (':' :: (enc x ++ (encMTail t ++ rest)))) := by
        simp [encMembers, encStr]
      rw [hcat]
      simp only [parseMembers, skipWs_cons _ _ (by decide : isWs '"' = false), if_true, parseStr_encStr,
        skipWs_cons _ _ (by decide : isWs ':' = false), hV]
      cases t with
      | nil => simp [encMTail, skipWs, isWs]
      | cons y t' =>
        obtain ⟨k', y⟩ := y
        have hE := parseMembers_enc ((k', y) :: t') f rest (by simp) hw'.2 hft
        have : encMTail ((k', y) :: t') ++ rest = ',' :: (encMembers ((k', y) :: t') ++ rest) := by
          simp [encMTail, encMembers]
        rw [this]
        simp [skipWs, isWs, hE]
end

/-! the fuel `decode` supplies is enough: every node of the value costs at least one character -/

mutual
theorem need_le : ∀ (v : JVal), WF v → need v ≤ (enc v).length ∧ 1 ≤ (enc v).length
  | .null, _ => by simp [need, enc]
  | .bool b, _ => by cases b <;> simp [need, enc]
  | .int i, _ => by
    have := (encInt_chars i).2.2
    cases e : encInt i with
    | nil => exact absurd e this
    | cons c r => simp [need, enc, e]
  | .float t, hw => by
    cases e : t with
    | nil => exact absurd e hw.1
    | cons c r => simp [need, enc]
  | .str s, _ => by simp [need, enc, encStr]
  | .arr xs, hw => by
    have := needL_le xs hw
    simp only [need, enc, List.length_cons]; omega
  | .obj kvs, hw => by
    have := needM_le kvs hw
    simp only [need, enc, List.length_cons]; omega
theorem needL_le : ∀ (xs : List JVal), WFL xs → needL xs ≤ (encElems xs).length ∧ needL xs ≤ (encTail xs).length
  | [], _ => by simp [needL]
  | x :: t, hw => by
    have hw' : WF x ∧ WFL t := hw
    have h1 := need_le x hw'.1
    have h2 := needL_le t hw'.2
    have h3 : 1 ≤ (encTail t).length := by cases t <;> simp [encTail]
    simp only [needL, encElems, encTail, List.length_append, List.length_cons]
    omega
theorem needM_le : ∀ (kvs : List (Str × JVal)), WFM kvs → needM kvs ≤ (encMembers kvs).length ∧ needM kvs ≤ (encMTail kvs).length
  | [], _ => by simp [needM]
  | (k, x) :: t, hw => by
    have hw' : WF x ∧ WFM t := hw
    have h1 := need_le x hw'.1
    have h2 := needM_le t hw'.2
    have h3 : 1 ≤ (encMTail t).length := by
      cases t with
      | nil => simp [encMTail]
      | cons y t' => obtain ⟨k', y⟩ := y; simp [encMTail]
    simp only [needM, encMembers, encMTail, List.length_append, List.length_cons]
    omega
end

/-! ### an encoded value is one line of printable-bordered text -/

/-- no raw line break -/
def Clean (s : Str) : Prop := ∀ c ∈ s, c ≠ '\n' ∧ c ≠ '\r'

theorem clean_append {s t : Str} (hs : Clean s) (ht : Clean t) : Clean (s ++ t) := by
  intro c hc
  rcases List.mem_append.mp hc with h | h
  · exact hs c h
  · exact ht c h

theorem clean_cons {c : Char} {t : Str} (hc : c ≠ '\n' ∧ c ≠ '\r') (ht : Clean t) : Clean (c :: t) := by
  intro d hd
  rcases List.mem_cons.mp hd with rfl | h
  · exact hc
  · exact ht d h

theorem clean_nil : Clean [] := by intro c hc; cases hc

theorem numChar_range (c : Char) (h : isNumChar c = true) :
    (0x21 ≤ c.toNat ∧ c.toNat ≤ 0x7e) ∧ c ≠ '\n' ∧ c ≠ '\r' := by
  simp only [isNumChar, Bool.or_eq_true, decide_eq_true_eq] at h
  rcases h with ((((h | h) | h) | h) | h) | h
  · have h1 : (48 : Nat) ≤ c.toNat := h.1
    have h2 : c.toNat ≤ 57 := h.2
    refine ⟨⟨by omega, by omega⟩, ?_, ?_⟩ <;> (intro e; subst e; revert h1; decide)
  all_goals (subst h; decide)

theorem hexDigit_clean (n : Nat) (h : n < 16) : hexDigit n ≠ '\n' ∧ hexDigit n ≠ '\r' := by
  have : n = 0 ∨ n = 1 ∨ n = 2 ∨ n = 3 ∨ n = 4 ∨ n = 5 ∨ n = 6 ∨ n = 7 ∨ n = 8 ∨ n = 9 ∨ n = 10 ∨ n = 11 ∨
      n = 12 ∨ n = 13 ∨ n = 14 ∨ n = 15 := by omega
  rcases this with rfl | rfl | rfl | rfl | rfl | rfl | rfl | rfl | rfl | rfl | rfl | rfl | rfl | rfl | rfl | rfl <;> decide

theorem escChar_clean (c : Char) : Clean (escChar c) := by
  unfold escChar
  repeat' split
  all_goals first
    | (intro d hd; simp only [List.mem_cons, List.not_mem_nil, or_false] at hd
       rcases hd with rfl | rfl <;> decide)
    | skip
  · intro d hd
    simp only [hex4, List.mem_cons, List.not_mem_nil, or_false] at hd
    rcases hd with rfl | rfl | rfl | rfl | rfl | rfl
    · decide
    · decide
    all_goals exact hexDigit_clean _ (Nat.mod_lt _ (by decide))
  · rename_i h1 h2 h3 h4 h5 h6 h7 h8
    intro d hd
    simp only [List.mem_singleton] at hd
    subst hd
    exact ⟨h3, h4⟩

theorem escStr_clean (s : Str) : Clean (escStr s) := by
  induction s with
  | nil => exact clean_nil
  | cons c cs ih => exact clean_append (escChar_clean c) ih

theorem encStr_clean (s : Str) : Clean (encStr s) :=
  clean_cons (by decide) (clean_append (escStr_clean s) (clean_cons (by decide) clean_nil))

mutual
theorem enc_clean : ∀ (v : JVal), WF v → Clean (enc v)
  | .null, _ => by intro c hc; simp [enc] at hc; rcases hc with rfl | rfl | rfl <;> decide
  | .bool b, _ => by
    cases b <;> (intro c hc; simp [enc] at hc)
    · rcases hc with rfl | rfl | rfl | rfl | rfl <;> decide
    · rcases hc with rfl | rfl | rfl | rfl <;> decide
  | .int i, _ => fun c hc => (numChar_range c ((encInt_chars i).1 c hc)).2
  | .float t, hw => fun c hc => (numChar_range c (hw.2.1 c hc)).2
  | .str s, _ => encStr_clean s
  | .arr xs, hw => clean_cons (by decide) (encElems_clean xs hw).1
  | .obj kvs, hw => clean_cons (by decide) (encMembers_clean kvs hw).1
theorem encElems_clean : ∀ (xs : List JVal), WFL xs → Clean (encElems xs) ∧ Clean (encTail xs)
  | [], _ => ⟨clean_cons (by decide) clean_nil, clean_cons (by decide) clean_nil⟩
  | x :: t, hw => by
    have hw' : WF x ∧ WFL t := hw
    have h1 := enc_clean x hw'.1
    have h2 := (encElems_clean t hw'.2).2
    exact ⟨clean_append h1 h2, clean_cons (by decide) (clean_append h1 h2)⟩
theorem encMembers_clean : ∀ (kvs : List (Str × JVal)), WFM kvs → Clean (encMembers kvs) ∧ Clean (encMTail kvs)
  | [], _ => ⟨clean_cons (by decide) clean_nil, clean_cons (by decide) clean_nil⟩
  | (k, x) :: t, hw => by
    have hw' : WF x ∧ WFM t := hw
    have h1 := enc_clean x hw'.1
    have h2 := (encMembers_clean t hw'.2).2
    have h3 : Clean (encStr k ++ ':' :: (enc x ++ encMTail t)) :=
      clean_append (encStr_clean k) (clean_cons (by decide) (clean_append h1 h2))
    exact ⟨h3, clean_cons (by decide) h3⟩
end

/-- printable ASCII, so never white space in any sense -/
def Printable (c : Char) : Prop := 0x21 ≤ c.toNat ∧ c.toNat ≤ 0x7e

instance (c : Char) : Decidable (Printable c) := by unfold Printable; infer_instance

theorem encTail_last (t : List JVal) : ∃ init, encTail t = init ++ [']'] := by
  induction t with
  | nil => exact ⟨[], rfl⟩
  | cons x r ih =>
    obtain ⟨i, hi⟩ := ih
    exact ⟨',' :: (enc x ++ i), by simp [encTail, hi]⟩

theorem encMTail_last (t : List (Str × JVal)) : ∃ init, encMTail t = init ++ ['}'] := by
  induction t with
  | nil => exact ⟨[], rfl⟩
  | cons kx r ih =>
    obtain ⟨k, x⟩ := kx
    obtain ⟨i, hi⟩ := ih
    exact ⟨',' :: (encStr k ++ ':' :: (enc x ++ i)), by simp [encMTail, hi]⟩

/-- first and last character of an encoded value are printable ASCII -/
theorem enc_border (v : JVal) (h : WF v) :
    (∃ c r, enc v = c :: r ∧ Printable c) ∧ (∃ init c, enc v = init ++ [c] ∧ Printable c) := by
  have num : ∀ t : Str, t ≠ [] → (∀ c ∈ t, isNumChar c = true) →
      (∃ c r, t = c :: r ∧ Printable c) ∧ (∃ init c, t = init ++ [c] ∧ Printable c) := by
    intro t hne hall
    constructor
    · cases e : t with
      | nil => exact absurd e hne
      | cons c r => exact ⟨c, r, rfl, (numChar_range c (hall c (by rw [e]; simp))).1⟩
    · have := List.dropLast_concat_getLast hne
      exact ⟨t.dropLast, t.getLast hne, this.symm, (numChar_range _ (hall _ (List.getLast_mem hne))).1⟩
  cases v with
  | null => exact ⟨⟨_, _, rfl, by decide⟩, ⟨['n', 'u', 'l'], 'l', rfl, by decide⟩⟩
  | bool b =>
    cases b
    · exact ⟨⟨_, _, rfl, by decide⟩, ⟨['f', 'a', 'l', 's'], 'e', rfl, by decide⟩⟩
    · exact ⟨⟨_, _, rfl, by decide⟩, ⟨['t', 'r', 'u'], 'e', rfl, by decide⟩⟩
  | int i => exact num (encInt i) (encInt_chars i).2.2 (encInt_chars i).1
  | float t => exact num t h.1 h.2.1
  | str s => exact ⟨⟨_, _, rfl, by decide⟩, ⟨'"' :: escStr s, '"', by simp [enc, encStr], by decide⟩⟩
  | arr xs =>
    refine ⟨⟨_, _, rfl, by decide⟩, ?_⟩
    cases xs with
    | nil => exact ⟨['['], ']', rfl, by decide⟩
    | cons x t =>
      obtain ⟨i, hi⟩ := encTail_last t
      exact ⟨'[' :: (enc x ++ i), ']', by simp [enc, encElems, hi], by decide⟩
  | obj kvs =>
    refine ⟨⟨_, _, rfl, by decide⟩, ?_⟩
    cases kvs with
    | nil => exact ⟨['{'], '}', rfl, by decide⟩
    | cons kx t =>
      obtain ⟨k, x⟩ := kx
      obtain ⟨i, hi⟩ := encMTail_last t
      exact ⟨'{' :: (encStr k ++ ':' :: (enc x ++ i)), '}', by simp [enc, encMembers, hi], by decide⟩

end TCV.JsonText
