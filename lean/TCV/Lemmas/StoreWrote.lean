import TCV.Lemmas.StoreFrame
/-!
Which stored results a request can change: only those at the locations of persisting tasks it ran.
-/
namespace TCV.Store

variable {V : Type}

/-- `s'` comes from `s` by appending `new` to the run log, and the store differs only at locations of persisting tasks in `new` -/
def WroteOnly (U : Universe) (s s' : St V) : Prop :=
  ∃ new, s'.runs = s.runs ++ new ∧
    ∀ l, s'.store l ≠ s.store l → ∃ j ∈ new, (obj U j).persist = true ∧ (obj U j).loc = l

theorem WroteOnly.refl (U : Universe) (s : St V) : WroteOnly U s s := ⟨[], by simp, fun l h => absurd rfl h⟩

theorem WroteOnly.trans {U : Universe} {s1 s2 s3 : St V} (h1 : WroteOnly U s1 s2) (h2 : WroteOnly U s2 s3) : WroteOnly U s1 s3 := by
  obtain ⟨n1, r1, w1⟩ := h1
  obtain ⟨n2, r2, w2⟩ := h2
  refine ⟨n1 ++ n2, by rw [r2, r1, List.append_assoc], ?_⟩
  intro l hne
  by_cases h12 : s2.store l = s1.store l
  · have : s3.store l ≠ s2.store l := by rw [h12]; exact hne
    obtain ⟨j, hj, hp⟩ := w2 l this
    exact ⟨j, List.mem_append_right _ hj, hp⟩
  · obtain ⟨j, hj, hp⟩ := w1 l h12
    exact ⟨j, List.mem_append_left _ hj, hp⟩

section
variable (U : Universe) (f : Nat → List V → V) (fails : Nat → Bool)

def WVal (fuel : Nat) : Prop := ∀ s i s' r, value U f fails fuel s i = (s', r) → WroteOnly U s s'
def WList (val : St V → Nat → St V × Option V) : Prop := ∀ js s s' r, valueListWith val s js = (s', r) → WroteOnly U s s'

theorem wrote_list_step (val : St V → Nat → St V × Option V)
    (hV : ∀ s i s' r, val s i = (s', r) → WroteOnly U s s') : WList U val := by
  intro js
  induction js with
  | nil => intro s s' r h; simp [valueListWith] at h; obtain ⟨rfl, _⟩ := h; exact WroteOnly.refl U _
  | cons j js ih =>
    intro s s' r h
    simp only [valueListWith] at h
    split at h
    · rename_i s1 hv1; cases h; exact hV _ _ _ _ hv1
    · rename_i s1 v hv1
      have f1 := hV _ _ _ _ hv1
      split at h
      · rename_i s2 hl2; cases h; exact f1.trans (ih _ _ _ hl2)
      · rename_i s2 vs hl2; cases h; exact f1.trans (ih _ _ _ hl2)

theorem wrote_step (fuel : Nat) (hL : WList U (value U f fails fuel)) : WVal U f fails (fuel + 1) := by
  intro s i s' r h
  simp only [value] at h
  split at h
  · cases h; exact WroteOnly.refl U s
  · split at h
    · cases h
      exact ⟨[], by simp, fun l hne => absurd rfl hne⟩
    · split at h
      · rename_i s1 hl; cases h; exact hL _ _ _ _ hl
      · rename_i s1 as hl
        have f1 := hL _ _ _ _ hl
        have f2 : WroteOnly U s1 { s1 with runs := s1.runs ++ [i] } := ⟨[i], rfl, fun l hne => absurd rfl hne⟩
        split at h
        · rename_i s3 hl3; cases h; exact (f1.trans f2).trans (hL _ _ _ _ hl3)
        · rename_i s3 ps hl3
          have f3 := (f1.trans f2).trans (hL _ _ _ _ hl3)
          split at h
          · cases h; exact f3
          · cases h
            -- the body of `i` completed: it may write at its own location; `i` is in the run log since `f2`
            obtain ⟨new, hr, hw⟩ := f3
            have hi : i ∈ new := by
              obtain ⟨n1, r1, _⟩ := f1
              obtain ⟨n3, r3, _⟩ := hL _ _ _ _ hl3
              have : s3.runs = s.runs ++ (n1 ++ [i] ++ n3) := by
                rw [r3]; simp only [r1, List.append_assoc]
              have e : new = n1 ++ [i] ++ n3 := List.append_cancel_left (hr.symm.trans this)
              rw [e]; simp
            refine ⟨new, hr, ?_⟩
            intro l hne
            simp only at hne
            by_cases hp : (obj U i).persist = true
            · simp only [hp, if_true] at hne
              by_cases hl' : l = (obj U i).loc
              · exact ⟨i, hi, hp, hl'.symm⟩
              · have : upd s3.store (obj U i).loc (some (f i (as ++ ps))) l = s3.store l := by simp [upd, hl']
                rw [this] at hne
                exact hw l hne
            · have hp' : (obj U i).persist = false := by simpa using hp
              simp only [hp', Bool.false_eq_true, if_false] at hne
              exact hw l hne

theorem wrote_all : ∀ fuel, WVal U f fails fuel := by
  intro fuel
  induction fuel with
  | zero => intro s i s' r h; simp [value] at h; obtain ⟨rfl, _⟩ := h; exact WroteOnly.refl U _
  | succ n ih => exact wrote_step U f fails n (wrote_list_step U _ ih)

theorem wrote_valueAllStop (fuel : Nat) : ∀ (ts : List Nat) (s s' : St V) (rs : List (Option V)),
    valueAllStop U f fails fuel s ts = (s', rs) → WroteOnly U s s'
  | [], s, s', rs, h => by simp [valueAllStop] at h; obtain ⟨rfl, _⟩ := h; exact WroteOnly.refl U _
  | t :: ts, s, s', rs, h => by
    simp only [valueAllStop] at h
    cases hv : value U f fails fuel s t with
    | mk s1 r =>
      have w1 := wrote_all U f fails fuel s t s1 r hv
      cases r with
      | none => simp only [hv] at h; cases h; exact w1
      | some v =>
        cases hva : valueAllStop U f fails fuel s1 ts with
        | mk s2 rs' =>
          simp only [hv, hva] at h
          cases h
          exact w1.trans (wrote_valueAllStop fuel ts s1 _ _ hva)

end
end TCV.Store
