import TCV.Lemmas.StoreSound
/-!
Frame properties of the pull machine: a request never clears memory, never un-forces, never
removes a stored result, and only appends to the run log.  One-step characterisations of the two
"served without running" paths.  Descendant computation = inductive reachability.
-/
namespace TCV.Store

variable {V : Type}

/-- what a request may do to the state -/
structure Frame (s s' : St V) : Prop where
  mem_mono : ∀ j, (s.mem j).isSome → (s'.mem j).isSome
  store_mono : ∀ l, (s.store l).isSome → (s'.store l).isSome
  forced_eq : s'.forced = s.forced
  runs_ext : ∃ new, s'.runs = s.runs ++ new

theorem Frame.refl (s : St V) : Frame s s := ⟨fun _ h => h, fun _ h => h, rfl, ⟨[], by simp⟩⟩

theorem Frame.trans {s1 s2 s3 : St V} (h1 : Frame s1 s2) (h2 : Frame s2 s3) : Frame s1 s3 := by
  obtain ⟨n1, hn1⟩ := h1.runs_ext
  obtain ⟨n2, hn2⟩ := h2.runs_ext
  exact ⟨fun j h => h2.mem_mono j (h1.mem_mono j h), fun l h => h2.store_mono l (h1.store_mono l h),
    by rw [h2.forced_eq, h1.forced_eq], ⟨n1 ++ n2, by rw [hn2, hn1, List.append_assoc]⟩⟩

theorem isSome_upd {α} (g : Nat → Option α) (k : Nat) (v : α) (j : Nat) (h : (g j).isSome) :
    (upd g k (some v) j).isSome := by
  unfold upd; split <;> simp_all

section
variable (U : Universe) (f : Nat → List V → V) (fails : Nat → Bool)

def FVal (fuel : Nat) : Prop := ∀ s i s' r, value U f fails fuel s i = (s', r) → Frame s s'
def FList (val : St V → Nat → St V × Option V) : Prop := ∀ js s s' r, valueListWith val s js = (s', r) → Frame s s'

theorem frame_step (fuel : Nat) (hL : FList (value U f fails fuel)) : FVal U f fails (fuel + 1) := by
  intro s i s' r h
  simp only [value] at h
  split at h
  · cases h; exact Frame.refl s
  · split at h
    · cases h
      exact ⟨fun j hj => isSome_upd _ _ _ _ hj, fun _ hl => hl, rfl, ⟨[], by simp⟩⟩
    · split at h
      · rename_i s1 hl; cases h; exact hL _ _ _ _ hl
      · rename_i s1 as hl
        have f1 := hL _ _ _ _ hl
        have f2 : Frame s1 { s1 with runs := s1.runs ++ [i] } := ⟨fun _ h => h, fun _ h => h, rfl, ⟨[i], rfl⟩⟩
        split at h
        · rename_i s3 hl3; cases h; exact (f1.trans f2).trans (hL _ _ _ _ hl3)
        · rename_i s3 ps hl3
          have f3 := (f1.trans f2).trans (hL _ _ _ _ hl3)
          split at h
          · cases h; exact f3
          · cases h
            refine f3.trans ⟨fun j hj => isSome_upd _ _ _ _ hj, ?_, rfl, ⟨[], by simp⟩⟩
            intro l hl'
            simp only
            split
            · exact isSome_upd _ _ _ _ hl'
            · exact hl'

theorem frame_list_step (val : St V → Nat → St V × Option V)
    (hV : ∀ s i s' r, val s i = (s', r) → Frame s s') : FList val := by
  intro js
  induction js with
  | nil => intro s s' r h; simp [valueListWith] at h; obtain ⟨rfl, _⟩ := h; exact Frame.refl _
  | cons j js ih =>
    intro s s' r h
    simp only [valueListWith] at h
    split at h
    · rename_i s1 hv1; cases h; exact hV _ _ _ _ hv1
    · rename_i s1 v hv1
      have f1 := hV _ _ _ _ hv1
      split at h
      · rename_i s2 hl2; cases h; exact f1.trans (ih _ _ _ hl2)
      · rename_i s2 vs hl2; cases h; exact f1.trans (ih _ _ _ hl2)

theorem frame_all : ∀ fuel, FVal U f fails fuel := by
  intro fuel
  induction fuel with
  | zero => intro s i s' r h; simp [value] at h; obtain ⟨rfl, _⟩ := h; exact Frame.refl _
  | succ n ih => exact frame_step U f fails n (frame_list_step _ ih)

end

/-! ### descendants = reachability -/

/-- `t` is `S` or downstream of `S` inside the chain with objects `nodes` (inductive definition,
independent of the algorithm) -/
inductive Reach (U : Universe) (nodes S : List Nat) : Nat → Prop
  | base {t} : t ∈ S → t ∈ nodes → Reach U nodes S t
  | step {d t} : Reach U nodes S d → d ∈ (obj U t).deps → t ∈ nodes → Reach U nodes S t

/-- the chain's objects are listed in dependency order: nothing depends on a later element -/
def DepOrder (U : Universe) : List Nat → Prop
  | [] => True
  | t :: rest => (∀ b ∈ rest, b ∉ (obj U t).deps) ∧ t ∉ (obj U t).deps ∧ DepOrder U rest

theorem descendants_acc_subset (U : Universe) (S : List Nat) : ∀ (rest acc : List Nat) (x : Nat),
    x ∈ acc → x ∈ descendants U S rest acc := by
  intro rest
  induction rest with
  | nil => intro acc x h; exact h
  | cons t rest ih =>
    intro acc x h
    simp only [descendants]
    split
    · exact ih _ x (by simp [h])
    · exact ih _ x h

/-- generalised invariant: `acc` holds exactly the reachable elements of the processed prefix -/
theorem descendants_spec_aux (U : Universe) (S : List Nat) :
    ∀ (rest pre acc : List Nat), DepOrder U (pre ++ rest) → (pre ++ rest).Nodup →
      (∀ x, x ∈ acc ↔ x ∈ pre ∧ Reach U (pre ++ rest) S x) →
      ∀ x, x ∈ descendants U S rest acc ↔ x ∈ pre ++ rest ∧ Reach U (pre ++ rest) S x := by
  intro rest
  induction rest with
  | nil =>
    intro pre acc _ _ hacc x
    simpa [descendants] using hacc x
  | cons t rest ih =>
    intro pre acc hord hnd hacc x
    have hassoc : pre ++ t :: rest = (pre ++ [t]) ++ rest := by simp
    simp only [descendants]
    -- no element of `pre ++ [t]` depends on an element of `rest`; deps of t inside nodes lie in pre
    have hdeps_t : ∀ d, d ∈ (obj U t).deps → d ∈ pre ++ t :: rest → d ∈ pre := by
      intro d hd hmem
      have hsplit : ∀ (p : List Nat), DepOrder U (p ++ t :: rest) → (∀ b ∈ rest, b ∉ (obj U t).deps) ∧ t ∉ (obj U t).deps := by
        intro p
        induction p with
        | nil => intro h; exact ⟨h.1, h.2.1⟩
        | cons a p ihp => intro h; exact ihp h.2.2
      have := hsplit pre hord
      rcases List.mem_append.mp hmem with h | h
      · exact h
      · rcases List.mem_cons.mp h with rfl | h
        · exact absurd hd this.2
        · exact absurd hd (this.1 d h)
    have hreach_t : Reach U (pre ++ t :: rest) S t ↔ (t ∈ S ∨ ∃ d ∈ (obj U t).deps, d ∈ acc) := by
      constructor
      · intro hr
        cases hr with
        | base hs _ => exact Or.inl hs
        | @step d _ hrd hd _ =>
          right
          have hdn : d ∈ pre ++ t :: rest := by
            cases hrd with
            | base _ hn => exact hn
            | step _ _ hn => exact hn
          exact ⟨d, hd, (hacc d).mpr ⟨hdeps_t d hd hdn, hrd⟩⟩
      · intro h
        rcases h with hs | ⟨d, hd, hda⟩
        · exact Reach.base hs (by simp)
        · exact Reach.step ((hacc d).mp hda).2 hd (by simp)
    have hcond : (S.contains t || (obj U t).deps.any (fun d => acc.contains d)) = true ↔
        (t ∈ S ∨ ∃ d ∈ (obj U t).deps, d ∈ acc) := by
      simp [List.any_eq_true]
    have htpre : t ∉ pre := by
      intro h
      have := List.nodup_append.mp hnd
      exact this.2.2 t h t (by simp) rfl
    split
    · rename_i hc
      have hrt := hreach_t.mpr (hcond.mp hc)
      have := ih (pre ++ [t]) (acc ++ [t]) (by rw [← hassoc]; exact hord) (by rw [← hassoc]; exact hnd) (by
        intro y
        rw [← hassoc]
        constructor
        · intro hy
          rcases List.mem_append.mp hy with hy | hy
          · have := (hacc y).mp hy
            exact ⟨by simp [this.1], this.2⟩
          · have : y = t := by simpa using hy
            subst this
            exact ⟨by simp, hrt⟩
        · intro ⟨hy, hr⟩
          rcases List.mem_append.mp hy with hy | hy
          · exact List.mem_append.mpr (Or.inl ((hacc y).mpr ⟨hy, hr⟩))
          · simp at hy; simp [hy]) x
      rw [← hassoc] at this
      exact this
    · rename_i hc
      have hnrt : ¬ Reach U (pre ++ t :: rest) S t := fun hr => hc (hcond.mpr (hreach_t.mp hr))
      have := ih (pre ++ [t]) acc (by rw [← hassoc]; exact hord) (by rw [← hassoc]; exact hnd) (by
        intro y
        rw [← hassoc]
        constructor
        · intro hy
          have := (hacc y).mp hy
          exact ⟨by simp [this.1], this.2⟩
        · intro ⟨hy, hr⟩
          rcases List.mem_append.mp hy with hy | hy
          · exact (hacc y).mpr ⟨hy, hr⟩
          · have : y = t := by simpa using hy
            subst this
            exact absurd hr hnrt) x
      rw [← hassoc] at this
      exact this

/-- **the forced set is exactly the reflexive-transitive downstream closure** -/
theorem descendants_spec (U : Universe) (S nodes : List Nat) (hord : DepOrder U nodes) (hnd : nodes.Nodup) (x : Nat) :
    x ∈ descendants U S nodes [] ↔ Reach U nodes S x := by
  have := descendants_spec_aux U S nodes [] [] (by simpa using hord) (by simpa using hnd) (by simp) x
  simp only [List.nil_append] at this
  rw [this]
  constructor
  · exact fun h => h.2
  · intro h
    refine ⟨?_, h⟩
    cases h with
    | base _ hn => exact hn
    | step _ _ hn => exact hn

end TCV.Store
