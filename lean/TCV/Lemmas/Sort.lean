import TCV.Model.Sort
namespace TCV

theorem insertBy_perm {α} (le : α → α → Bool) (x : α) : ∀ l : List α, (insertBy le x l).Perm (x :: l)
  | [] => List.Perm.refl _
  | y :: ys => by
    simp only [insertBy]
    split
    · exact List.Perm.refl _
    · exact ((insertBy_perm le x ys).cons y).trans (List.Perm.swap x y ys)

theorem isort_perm {α} (le : α → α → Bool) : ∀ l : List α, (isort le l).Perm l
  | [] => List.Perm.refl _
  | x :: xs => (insertBy_perm le x _).trans ((isort_perm le xs).cons x)

theorem insertBy_pairwise {α} (le : α → α → Bool)
    (total : ∀ a b, (le a b || le b a) = true) (trans : ∀ a b c, le a b = true → le b c = true → le a c = true)
    (x : α) : ∀ l : List α, l.Pairwise (fun a b => le a b = true) → (insertBy le x l).Pairwise (fun a b => le a b = true)
  | [], _ => by simp [insertBy]
  | y :: ys, h => by
    simp only [insertBy]
    split
    · rename_i hxy
      refine List.Pairwise.cons ?_ h
      intro b hb
      rcases List.mem_cons.mp hb with rfl | hb
      · exact hxy
      · exact trans _ _ _ hxy ((List.pairwise_cons.mp h).1 b hb)
    · rename_i hxy
      have hyx : le y x = true := by
        have := total x y
        cases h1 : le x y
        · simpa [h1] using this
        · exact absurd h1 hxy
      refine List.Pairwise.cons ?_ (insertBy_pairwise le total trans x ys (List.pairwise_cons.mp h).2)
      intro b hb
      have := (insertBy_perm le x ys).subset hb
      rcases List.mem_cons.mp this with rfl | hb'
      · exact hyx
      · exact (List.pairwise_cons.mp h).1 b hb'

theorem isort_pairwise {α} (le : α → α → Bool)
    (total : ∀ a b, (le a b || le b a) = true) (trans : ∀ a b c, le a b = true → le b c = true → le a c = true) :
    ∀ l : List α, (isort le l).Pairwise (fun a b => le a b = true)
  | [] => List.Pairwise.nil
  | x :: xs => insertBy_pairwise le total trans x _ (isort_pairwise le total trans xs)

/-- two permutations of one another that are both sorted by an order that is antisymmetric on their
elements are equal — so the sorted form does not depend on the input order -/
theorem isort_eq_of_perm {α} (le : α → α → Bool)
    (total : ∀ a b, (le a b || le b a) = true) (trans : ∀ a b c, le a b = true → le b c = true → le a c = true)
    (l₁ l₂ : List α) (hp : l₁.Perm l₂)
    (anti : ∀ a b, a ∈ l₁ → b ∈ l₁ → le a b = true → le b a = true → a = b) :
    isort le l₁ = isort le l₂ := by
  apply List.Perm.eq_of_pairwise (le := fun a b => le a b = true)
  · intro a b ha hb h1 h2
    exact anti a b ((isort_perm le l₁).subset ha) (hp.symm.subset ((isort_perm le l₂).subset hb)) h1 h2
  · exact isort_pairwise le total trans l₁
  · exact isort_pairwise le total trans l₂
  · exact (isort_perm le l₁).trans (hp.trans (isort_perm le l₂).symm)

/-- a list that is already sorted is left alone -/
theorem isort_of_pairwise {α} (le : α → α → Bool)
    (total : ∀ a b, (le a b || le b a) = true) (trans : ∀ a b c, le a b = true → le b c = true → le a c = true)
    (l : List α) (hs : l.Pairwise (fun a b => le a b = true))
    (anti : ∀ a b, a ∈ l → b ∈ l → le a b = true → le b a = true → a = b) : isort le l = l := by
  apply List.Perm.eq_of_pairwise (le := fun a b => le a b = true)
  · intro a b ha hb h1 h2
    exact anti a b ((isort_perm le l).subset ha) hb h1 h2
  · exact isort_pairwise le total trans l
  · exact hs
  · exact isort_perm le l

end TCV
