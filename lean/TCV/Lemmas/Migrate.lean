import TCV.Model.Migrate
/-! helper lemmas for C20 (M-Migrate) -/
namespace TCV.Migrate

theorem mkdir_files (t : Tree) (d : Str) : (t.mkdir d).files = t.files := by
  unfold Tree.mkdir; split <;> rfl

theorem inspect_files (t : MTask) (loc : Loc) (tr : Tree) : (inspect t loc tr).files = tr.files := by
  unfold inspect; simp only []; split <;> simp [mkdir_files]

theorem put_files (t : Tree) (l : Loc) (v : Val) (l' : Loc) :
    (t.put l v).files l' = if l' = l then some v else t.files l' := rfl

theorem sizeOk_refl (b : Bool) (v : Val) : sizeOk b v v = true := by
  unfold sizeOk pdClose dist; cases b <;> simp

/-- the first task in the list that is persisting, lives at target location `l` and has a source result -/
def writer (sf : Loc → Option Val) (l : Loc) (tasks : List MTask) : Option MTask :=
  tasks.find? (fun t => t.persist && (t.newLoc == l) && (sf t.oldLoc).isSome)

/-- the closed form of the target after a (non-dry) migration -/
def closed (sf tf : Loc → Option Val) (tasks : List MTask) (l : Loc) : Option Val :=
  match writer sf l tasks with
  | some t => sf t.oldLoc
  | none => tf l

/-- tasks that share a target location and both have a source result have the same source result -/
def Agree (sf : Loc → Option Val) (tasks : List MTask) : Prop :=
  ∀ t ∈ tasks, ∀ t' ∈ tasks, t.persist = true → t'.persist = true → t.newLoc = t'.newLoc →
    ∀ v v', sf t.oldLoc = some v → sf t'.oldLoc = some v' → v = v'

/-- whatever the target already holds at a task's location is that task's source result -/
def Compat (sf tf : Loc → Option Val) (tasks : List MTask) : Prop :=
  ∀ t ∈ tasks, t.persist = true → ∀ v w, sf t.oldLoc = some v → tf t.newLoc = some w → w = v

theorem Agree.tail {sf t r} (h : Agree sf (t :: r)) : Agree sf r :=
  fun a ha b hb => h a (List.mem_cons_of_mem _ ha) b (List.mem_cons_of_mem _ hb)

theorem Compat.tail {sf tf t r} (h : Compat sf tf (t :: r)) : Compat sf tf r :=
  fun a ha => h a (List.mem_cons_of_mem _ ha)

theorem writer_spec {sf l tasks t} (h : writer sf l tasks = some t) :
    t ∈ tasks ∧ t.persist = true ∧ t.newLoc = l ∧ (sf t.oldLoc).isSome = true := by
  unfold writer at h
  have h1 := List.mem_of_find?_eq_some h
  have h2 := List.find?_some h
  simp only [Bool.and_eq_true, beq_iff_eq] at h2
  exact ⟨h1, h2.1.1, h2.1.2, h2.2⟩

theorem writer_cons (sf : Loc → Option Val) (l : Loc) (t : MTask) (r : List MTask) :
    writer sf l (t :: r) = if (t.persist && (t.newLoc == l) && (sf t.oldLoc).isSome) = true then some t else writer sf l r := by
  unfold writer; rw [List.find?_cons]; split <;> simp_all

/-- a later writer at the head's location agrees with the head's value -/
theorem closed_at_head {sf : Loc → Option Val} {t : MTask} {r : List MTask} {v : Val}
    (hA : Agree sf (t :: r)) (hp : t.persist = true) (hv : sf t.oldLoc = some v)
    (tf' : Loc → Option Val) (htf : tf' t.newLoc = some v) :
    closed sf tf' r t.newLoc = some v := by
  unfold closed
  cases hw : writer sf t.newLoc r with
  | none => exact htf
  | some t' =>
    have ⟨hm, hp', hl, hs⟩ := writer_spec hw
    cases hv' : sf t'.oldLoc with
    | none => rw [hv'] at hs; cases hs
    | some v' =>
      have := hA t (by simp) t' (List.mem_cons_of_mem _ hm) hp hp' hl.symm v v' hv hv'
      show sf t'.oldLoc = some v
      rw [this]; exact hv'

theorem step_src_files {dry st t st'} (h : step dry st t = .ok st') : st'.1.files = st.1.files := by
  unfold step at h
  split at h
  · cases h; rfl
  · simp only [] at h
    split at h
    · cases h; simp [inspect_files]
    · split at h
      · split at h
        · cases h; simp [inspect_files]
        · cases h
      · split at h <;> (cases h; simp [inspect_files])

theorem migrate_src_files {dry} : ∀ {tasks st st'}, migrate dry st tasks = .ok st' → st'.1.files = st.1.files
  | [], st, st', h => by simp [migrate] at h; rw [h]
  | t :: r, st, st', h => by
    simp only [migrate] at h
    split at h
    · rename_i st1 hs
      rw [migrate_src_files h, step_src_files hs]
    · cases h

theorem step_dry_tgt_files {st t st'} (h : step true st t = .ok st') : st'.2.files = st.2.files := by
  unfold step at h
  split at h
  · cases h; rfl
  · simp only [] at h
    split at h
    · cases h; rfl
    · split at h
      · split at h
        · cases h; simp [inspect_files]
        · cases h
      · simp only [if_true] at h; cases h; simp [inspect_files]

theorem migrate_dry_tgt_files : ∀ {tasks st st'}, migrate true st tasks = .ok st' → st'.2.files = st.2.files
  | [], st, st', h => by simp [migrate] at h; rw [h]
  | t :: r, st, st', h => by
    simp only [migrate] at h
    split at h
    · rename_i st1 hs
      rw [migrate_dry_tgt_files h, step_dry_tgt_files hs]
    · cases h

/-- the main induction: a non-dry migration from a compatible target succeeds and yields the closed form -/
theorem migrate_closed : ∀ (tasks : List MTask) (src tgt : Tree),
    Agree src.files tasks → Compat src.files tgt.files tasks →
    ∃ src' tgt', migrate false (src, tgt) tasks = .ok (src', tgt') ∧ src'.files = src.files ∧
      ∀ l, tgt'.files l = closed src.files tgt.files tasks l
  | [], src, tgt, _, _ => ⟨src, tgt, rfl, rfl, fun l => by simp [closed, writer]⟩
  | t :: r, src, tgt, hA, hC => by
    simp only [migrate]
    by_cases hp : t.persist = true
    · cases hv : src.files t.oldLoc with
      | none =>
        have hs : step false (src, tgt) t = .ok (inspect t t.oldLoc src, tgt) := by
          simp [step, hp, inspect_files, hv]
        obtain ⟨s', t', h1, h2, h3⟩ := migrate_closed r (inspect t t.oldLoc src) tgt
          (by rw [inspect_files]; exact hA.tail) (by rw [inspect_files]; exact hC.tail)
        refine ⟨s', t', by rw [hs]; exact h1, by rw [h2, inspect_files], fun l => ?_⟩
        rw [h3 l, inspect_files]
        simp [closed, writer_cons, hv]
      | some v =>
        cases hw : tgt.files t.newLoc with
        | some w =>
          have hwv : w = v := hC t (by simp) hp v w hv hw
          subst hwv
          have hs : step false (src, tgt) t = .ok (inspect t t.oldLoc src, inspect t t.newLoc tgt) := by
            simp [step, hp, inspect_files, hv, hw, sizeOk_refl]
          obtain ⟨s', t', h1, h2, h3⟩ := migrate_closed r (inspect t t.oldLoc src) (inspect t t.newLoc tgt)
            (by rw [inspect_files]; exact hA.tail) (by rw [inspect_files, inspect_files]; exact hC.tail)
          refine ⟨s', t', by rw [hs]; exact h1, by rw [h2, inspect_files], fun l => ?_⟩
          rw [h3 l, inspect_files, inspect_files]
          by_cases hl : t.newLoc = l
          · subst hl
            rw [closed_at_head hA hp hv tgt.files hw]
            simp [closed, writer_cons, hp, hv]
          · simp [closed, writer_cons, hl]
        | none =>
          have hs : step false (src, tgt) t = .ok (inspect t t.oldLoc src, (inspect t t.newLoc tgt).put t.newLoc v) := by
            simp [step, hp, inspect_files, hv, hw]
          have hC' : Compat src.files ((inspect t t.newLoc tgt).put t.newLoc v).files r := by
            intro a ha hpa va wa hva hwa
            rw [put_files, inspect_files] at hwa
            split at hwa
            · rename_i heq
              cases hwa
              exact hA t (by simp) a (List.mem_cons_of_mem _ ha) hp hpa heq.symm _ _ hv hva
            · exact hC a (List.mem_cons_of_mem _ ha) hpa va wa hva hwa
          obtain ⟨s', t', h1, h2, h3⟩ := migrate_closed r (inspect t t.oldLoc src) ((inspect t t.newLoc tgt).put t.newLoc v)
            (by rw [inspect_files]; exact hA.tail) (by rw [inspect_files]; exact hC')
          refine ⟨s', t', by rw [hs]; exact h1, by rw [h2, inspect_files], fun l => ?_⟩
          rw [h3 l, inspect_files]
          by_cases hl : t.newLoc = l
          · subst hl
            rw [closed_at_head hA hp hv _ (by simp [put_files])]
            simp [closed, writer_cons, hp, hv]
          · have : ((inspect t t.newLoc tgt).put t.newLoc v).files l = tgt.files l := by
              rw [put_files, inspect_files]; simp [Ne.symm hl]
            simp [closed, writer_cons, hl, this]
    · have hp' : t.persist = false := by simpa using hp
      have hs : step false (src, tgt) t = .ok (src, tgt) := by simp [step, hp']
      obtain ⟨s', t', h1, h2, h3⟩ := migrate_closed r src tgt hA.tail hC.tail
      refine ⟨s', t', by rw [hs]; exact h1, h2, fun l => ?_⟩
      rw [h3 l]
      simp [closed, writer_cons, hp']

/-- after a migration the target is compatible again (so it can be repeated) -/
theorem compat_closed {sf tf : Loc → Option Val} {tasks : List MTask} (hA : Agree sf tasks) :
    Compat sf (closed sf tf tasks) tasks := by
  intro t ht hp v w hv hw
  unfold closed at hw
  cases hwr : writer sf t.newLoc tasks with
  | none =>
    -- `t` itself qualifies, so there is a writer
    unfold writer at hwr
    have := List.find?_eq_none.mp hwr t ht
    simp [hp, hv] at this
  | some t0 =>
    rw [hwr] at hw
    have ⟨hm, hp0, hl, _⟩ := writer_spec hwr
    exact (hA t ht t0 hm hp hp0 hl.symm v w hv hw).symm

theorem closed_closed (sf tf : Loc → Option Val) (tasks : List MTask) (l : Loc) :
    closed sf (closed sf tf tasks) tasks l = closed sf tf tasks l := by
  unfold closed
  cases writer sf l tasks <;> rfl

/-! ## directories (finding K5) -/

theorem mkdir_dirs_sub (t : Tree) (d : Str) : ∀ x ∈ t.dirs, x ∈ (t.mkdir d).dirs := by
  intro x hx; unfold Tree.mkdir; split
  · exact hx
  · simp [hx]

theorem mkdir_dirs_new (t : Tree) (d : Str) : ∀ x ∈ (t.mkdir d).dirs, x ∈ t.dirs ∨ x = d := by
  intro x hx; unfold Tree.mkdir at hx; split at hx
  · exact Or.inl hx
  · simp at hx; exact hx

end TCV.Migrate
