import TCV.Model.Cached
import TCV.Lemmas.Key
/-!
# Lemmas for M-Cached: the decorator's loop, read as a dictionary, is Python's binding
-/
namespace TCV.Cached
open TCV

variable {V : Type}

/-! ### association lists as dictionaries -/

theorem dget_dset (kw : List (Str × V)) (n m : Str) (v : V) :
    dget (dset kw n v) m = if n = m then some v else dget kw m := by
  induction kw with
  | nil => simp [dset, dget]
  | cons a r ih =>
    obtain ⟨k, w⟩ := a
    simp only [dset]
    by_cases hk : k = n
    · subst hk
      simp only [if_true, dget]
      by_cases hm : k = m <;> simp [hm]
    · simp only [hk, if_false, dget, ih]
      by_cases hm : k = m
      · have : ¬ n = m := fun h => hk (by rw [hm, h])
        simp [hm, this]
      · simp [hm]

theorem mem_keys_dset (kw : List (Str × V)) (n m : Str) (v : V) :
    m ∈ keys (dset kw n v) ↔ m = n ∨ m ∈ keys kw := by
  induction kw with
  | nil => simp [dset, keys]
  | cons a r ih =>
    obtain ⟨k, w⟩ := a
    simp only [dset]
    by_cases hk : k = n
    · subst hk; simp [keys]
    · simp only [hk, if_false]
      simp only [keys, List.map_cons, List.mem_cons] at ih ⊢
      rw [ih]
      constructor
      · rintro (h | h | h) <;> simp [h]
      · rintro (h | h | h) <;> simp [h]

theorem keys_dset_nodup (kw : List (Str × V)) (n : Str) (v : V) (h : (keys kw).Nodup) :
    (keys (dset kw n v)).Nodup := by
  induction kw with
  | nil => simp [dset, keys]
  | cons a r ih =>
    obtain ⟨k, w⟩ := a
    simp only [dset]
    by_cases hk : k = n
    · subst hk; simpa [keys] using h
    · simp only [hk, if_false]
      have h' : k ∉ keys r ∧ (keys r).Nodup := by simpa [keys] using h
      have := ih h'.2
      simp only [keys, List.map_cons, List.nodup_cons]
      refine ⟨?_, this⟩
      intro hm
      have := (mem_keys_dset r n k v).mp hm
      rcases this with h1 | h1
      · exact hk h1
      · exact h'.1 h1

theorem dget_isSome_iff (kw : List (Str × V)) (m : Str) : (dget kw m).isSome = true ↔ m ∈ keys kw := by
  induction kw with
  | nil => simp [dget, keys]
  | cons a r ih =>
    obtain ⟨k, w⟩ := a
    simp only [dget, keys, List.map_cons, List.mem_cons]
    by_cases hk : k = m
    · simp [hk]
    · simp only [hk, if_false]
      rw [ih]
      constructor
      · exact Or.inr
      · rintro (h | h)
        · exact absurd h.symm hk
        · exact h

theorem dget_none_of_not_mem (kw : List (Str × V)) (m : Str) (h : m ∉ keys kw) : dget kw m = none := by
  cases hd : dget kw m with
  | none => rfl
  | some v => exact absurd ((dget_isSome_iff kw m).mp (by simp [hd])) h

/-- with distinct keys, membership of a pair is lookup -/
theorem mem_iff_dget (kw : List (Str × V)) (h : (keys kw).Nodup) (m : Str) (v : V) :
    (m, v) ∈ kw ↔ dget kw m = some v := by
  induction kw with
  | nil => simp [dget]
  | cons a r ih =>
    obtain ⟨k, w⟩ := a
    have h' : k ∉ keys r ∧ (keys r).Nodup := by simpa [keys] using h
    simp only [List.mem_cons, dget]
    by_cases hk : k = m
    · subst hk
      simp only [if_true, Option.some.injEq]
      constructor
      · rintro (h1 | h1)
        · cases h1; rfl
        · exact absurd (List.mem_map_of_mem (f := (·.1)) h1) h'.1
      · intro h1; exact Or.inl (by rw [h1])
    · simp only [hk, if_false]
      rw [← ih h'.2]
      constructor
      · rintro (h1 | h1)
        · cases h1; exact absurd rfl hk
        · exact h1
      · exact Or.inr

theorem nodup_of_map {α β} (f : α → β) : ∀ l : List α, (l.map f).Nodup → l.Nodup
  | [], _ => List.nodup_nil
  | a :: r, h => by
    simp only [List.map_cons, List.nodup_cons] at h
    exact List.nodup_cons.mpr ⟨fun hm => h.1 (List.mem_map_of_mem hm), nodup_of_map f r h.2⟩

/-- two dictionaries with the same lookups are permutations of one another -/
theorem perm_of_dget_eq (a b : List (Str × V)) (ha : (keys a).Nodup) (hb : (keys b).Nodup)
    (h : ∀ m, dget a m = dget b m) : a.Perm b := by
  have na : a.Nodup := nodup_of_map _ _ ha
  have nb : b.Nodup := nodup_of_map _ _ hb
  rw [List.perm_ext_iff_of_nodup na nb]
  rintro ⟨m, v⟩
  rw [mem_iff_dget a ha, mem_iff_dget b hb, h]

/-! ### the loop as a lookup function -/

/-- what the loop over `ps` (first index `i`) leaves under the name `m` -/
def loopVal (args : List V) : Sig V → Nat → List (Str × V) → Str → Option V
  | [], _, kw, m => dget kw m
  | p :: ps, i, kw, m =>
    if p.name = m then (args[i]?).or ((dget kw m).or p.default) else loopVal args ps (i + 1) kw m

theorem dget_normStep (args : List V) (kw : List (Str × V)) (p : Param V) (i : Nat) (m : Str) :
    dget (normStep args kw p i) m =
      if p.name = m then (args[i]?).or ((dget kw m).or p.default) else dget kw m := by
  unfold normStep
  cases ha : args[i]? with
  | some a =>
    cases hd : p.default with
    | none =>
      simp only [dget_dset]
      by_cases hm : p.name = m <;> simp [hm]
    | some d =>
      have hh : dhas (dset kw p.name a) p.name = true := by simp [dhas, dget_dset]
      simp only [hh, if_true, dget_dset]
      by_cases hm : p.name = m <;> simp [hm]
  | none =>
    cases hd : p.default with
    | none =>
      by_cases hm : p.name = m
      · subst hm; simp
      · simp [hm]
    | some d =>
      simp only
      by_cases hh : dhas kw p.name = true
      · simp only [hh, if_true]
        by_cases hm : p.name = m
        · subst hm
          simp only [dhas] at hh
          cases hg : dget kw p.name with
          | none => simp [hg] at hh
          | some w => simp
        · simp [hm]
      · simp only [hh, Bool.false_eq_true, if_false, dget_dset]
        by_cases hm : p.name = m
        · subst hm
          simp only [dhas] at hh
          cases hg : dget kw p.name with
          | none => simp
          | some w => simp [hg] at hh
        · simp [hm]

theorem loopVal_not_mem (args : List V) (ps : Sig V) (i : Nat) (kw : List (Str × V)) (m : Str)
    (h : m ∉ ps.map (·.name)) : loopVal args ps i kw m = dget kw m := by
  induction ps generalizing i with
  | nil => rfl
  | cons p ps ih =>
    simp only [List.map_cons, List.mem_cons, not_or] at h
    simp only [loopVal]
    rw [if_neg (fun e => h.1 e.symm)]
    exact ih (i + 1) h.2

theorem loopVal_congr (args : List V) (ps : Sig V) (i : Nat) (kw kw' : List (Str × V)) (m : Str)
    (h : dget kw m = dget kw' m) : loopVal args ps i kw m = loopVal args ps i kw' m := by
  induction ps generalizing i with
  | nil => exact h
  | cons p ps ih =>
    simp only [loopVal]
    split
    · rw [h]
    · exact ih (i + 1)

theorem dget_normLoop (args : List V) (ps : Sig V) (i : Nat) (kw : List (Str × V)) (m : Str)
    (hn : (ps.map (·.name)).Nodup) : dget (normLoop args ps i kw) m = loopVal args ps i kw m := by
  induction ps generalizing i kw with
  | nil => rfl
  | cons p ps ih =>
    have hn' : p.name ∉ ps.map (·.name) ∧ (ps.map (·.name)).Nodup := by simpa using hn
    simp only [normLoop, loopVal]
    rw [ih (i + 1) (normStep args kw p i) hn'.2]
    by_cases hm : p.name = m
    · subst hm
      rw [if_pos rfl, loopVal_not_mem _ _ _ _ _ hn'.1, dget_normStep, if_pos rfl]
    · rw [if_neg hm]
      apply loopVal_congr
      rw [dget_normStep, if_neg hm]

theorem keys_normStep_nodup (args : List V) (kw : List (Str × V)) (p : Param V) (i : Nat)
    (h : (keys kw).Nodup) : (keys (normStep args kw p i)).Nodup := by
  unfold normStep
  cases args[i]? <;> cases p.default <;> simp only <;> (try split) <;>
    first | exact h | exact keys_dset_nodup _ _ _ h | exact keys_dset_nodup _ _ _ (keys_dset_nodup _ _ _ h)

theorem keys_normLoop_nodup (args : List V) (ps : Sig V) (i : Nat) (kw : List (Str × V))
    (h : (keys kw).Nodup) : (keys (normLoop args ps i kw)).Nodup := by
  induction ps generalizing i kw with
  | nil => exact h
  | cons p ps ih => exact ih (i + 1) _ (keys_normStep_nodup args kw p i h)

/-! ### Python's binding as a lookup function -/

def specVal (c : Call V) : Sig V → Nat → Str → Option V
  | [], _, _ => none
  | p :: ps, i, m => if p.name = m then bindVal c p i else specVal c ps (i + 1) m

theorem keys_bindFrom_sub (c : Call V) (ps : Sig V) (i : Nat) :
    ∀ m, m ∈ keys (bindFrom c ps i) → m ∈ ps.map (·.name) := by
  induction ps generalizing i with
  | nil => intro m h; simp [bindFrom, keys] at h
  | cons p ps ih =>
    intro m h
    simp only [bindFrom] at h
    split at h
    · simp only [keys, List.map_cons, List.mem_cons] at h
      rcases h with h | h
      · simp [h]
      · exact List.mem_cons_of_mem _ (ih (i + 1) m h)
    · exact List.mem_cons_of_mem _ (ih (i + 1) m h)

theorem keys_bindFrom_nodup (c : Call V) (ps : Sig V) (i : Nat) (hn : (ps.map (·.name)).Nodup) :
    (keys (bindFrom c ps i)).Nodup := by
  induction ps generalizing i with
  | nil => simp [bindFrom, keys]
  | cons p ps ih =>
    have hn' : p.name ∉ ps.map (·.name) ∧ (ps.map (·.name)).Nodup := by simpa using hn
    simp only [bindFrom]
    split
    · simp only [keys, List.map_cons, List.nodup_cons]
      exact ⟨fun h => hn'.1 (keys_bindFrom_sub c ps (i + 1) _ h), ih (i + 1) hn'.2⟩
    · exact ih (i + 1) hn'.2

theorem dget_bindFrom (c : Call V) (ps : Sig V) (i : Nat) (m : Str) (hn : (ps.map (·.name)).Nodup) :
    dget (bindFrom c ps i) m = specVal c ps i m := by
  induction ps generalizing i with
  | nil => rfl
  | cons p ps ih =>
    have hn' : p.name ∉ ps.map (·.name) ∧ (ps.map (·.name)).Nodup := by simpa using hn
    simp only [bindFrom, specVal]
    by_cases hm : p.name = m
    · subst hm
      rw [if_pos rfl]
      cases hb : bindVal c p i with
      | some v => simp [dget]
      | none =>
        simp only
        exact dget_none_of_not_mem _ _ (fun h => hn'.1 (keys_bindFrom_sub c ps (i + 1) _ h))
    · rw [if_neg hm]
      cases hb : bindVal c p i with
      | some v => simp only [dget, if_neg hm]; exact ih (i + 1) hn'.2
      | none => exact ih (i + 1) hn'.2

/-- keyword-only parameters get nothing from `args` -/
def KwOk (args : List V) (ps : Sig V) (i : Nat) : Prop :=
  ∀ j p, ps[j]? = some p → p.kwOnly = true → args[i + j]? = none

theorem loopVal_eq_specVal (c : Call V) (ps : Sig V) (i : Nat) (m : Str)
    (hk : KwOk c.args ps i) (hm : m ∈ ps.map (·.name)) :
    loopVal c.args ps i c.kwargs m = specVal c ps i m := by
  induction ps generalizing i with
  | nil => simp at hm
  | cons p ps ih =>
    simp only [loopVal, specVal]
    by_cases hpm : p.name = m
    · rw [if_pos hpm, if_pos hpm]
      unfold bindVal
      cases hkw : p.kwOnly with
      | false => simp [hpm]
      | true =>
        have := hk 0 p (by simp) hkw
        simp only [Nat.add_zero] at this
        simp [this, hpm]
    · rw [if_neg hpm, if_neg hpm]
      apply ih
      · intro j q hq hqk
        have := hk (j + 1) q (by simpa using hq) hqk
        simpa [Nat.add_assoc, Nat.add_comm 1 j] using this
      · simp only [List.map_cons, List.mem_cons] at hm
        rcases hm with h | h
        · exact absurd h.symm hpm
        · exact h

theorem npos_le_of_kwOnly (sig : Sig V)
    (hp : sig.Pairwise (fun p q => (!(p.kwOnly && !q.kwOnly)) = true)) :
    ∀ j p, sig[j]? = some p → p.kwOnly = true → npos sig ≤ j := by
  induction sig with
  | nil => intro j p h; simp at h
  | cons q r ih =>
    have hp' := List.pairwise_cons.mp hp
    intro j p h hk
    cases j with
    | zero =>
      simp only [List.getElem?_cons_zero, Option.some.injEq] at h
      subst h
      have hall : ∀ x ∈ r, x.kwOnly = true := by
        intro x hx
        have := hp'.1 x hx
        simpa [hk] using this
      have : (r.filter (fun p => !p.kwOnly)) = [] := by
        rw [List.filter_eq_nil_iff]; intro x hx; simp [hall x hx]
      simp [npos, hk, this]
    | succ j' =>
      have := ih hp'.2 j' p (by simpa using h) hk
      unfold npos at this ⊢
      simp only [List.filter_cons]
      split
      · simp only [List.length_cons]; omega
      · omega

theorem kwOk_of_valid (sig : Sig V) (c : Call V) (h : valid sig c = true) : KwOk c.args sig 0 := by
  simp only [valid, wfSig, Bool.and_eq_true, decide_eq_true_eq] at h
  obtain ⟨⟨⟨⟨⟨⟨_, hpw⟩, hlen⟩, _⟩, _⟩, _⟩, _⟩ := h
  intro j p hj hk
  have := npos_le_of_kwOnly sig hpw j p hj hk
  rw [List.getElem?_eq_none_iff]
  omega

/-- **the dictionary the decorator builds is Python's binding** (as lookups and as key sets) -/
theorem normalise_perm_binding (sig : Sig V) (c : Call V) (h : valid sig c = true) :
    (normalise sig c).Perm (binding sig c) := by
  have hk := kwOk_of_valid sig c h
  simp only [valid, wfSig, Bool.and_eq_true, decide_eq_true_eq, List.all_eq_true] at h
  obtain ⟨⟨⟨⟨⟨⟨hnd, _⟩, _⟩, hkn⟩, hsub⟩, _⟩, _⟩ := h
  apply perm_of_dget_eq
  · exact keys_normLoop_nodup _ _ _ _ hkn
  · exact keys_bindFrom_nodup _ _ _ hnd
  · intro m
    unfold normalise binding
    rw [dget_normLoop _ _ _ _ _ hnd, dget_bindFrom _ _ _ _ hnd]
    by_cases hm : m ∈ sig.map (·.name)
    · exact loopVal_eq_specVal c sig 0 m hk hm
    · rw [loopVal_not_mem _ _ _ _ _ hm]
      have h1 : dget c.kwargs m = none := by
        apply dget_none_of_not_mem
        intro hmem
        have := hsub m hmem
        simp only [List.contains_eq_mem, decide_eq_true_eq] at this
        exact hm this
      rw [h1]
      have : ∀ (ps : Sig V) i, m ∉ ps.map (·.name) → specVal c ps i m = none := by
        intro ps
        induction ps with
        | nil => intros; rfl
        | cons p ps ih =>
          intro i hmem
          simp only [List.map_cons, List.mem_cons, not_or] at hmem
          simp only [specVal]
          rw [if_neg (fun e => hmem.1 e.symm)]
          exact ih (i + 1) hmem.2
      rw [this sig 0 hm]

theorem keys_bindFrom_allBound (c : Call V) (ps : Sig V) (i : Nat) (hb : allBound c ps i = true) :
    keys (bindFrom c ps i) = ps.map (·.name) := by
  induction ps generalizing i with
  | nil => rfl
  | cons p ps ih =>
    simp only [allBound, Bool.and_eq_true] at hb
    simp only [bindFrom]
    cases hv : bindVal c p i with
    | none => simp [hv] at hb
    | some v =>
      simp only [keys, List.map_cons]
      congr 1
      exact ih (i + 1) hb.2

/-- under a valid call every parameter is bound: the binding lists all parameters in order -/
theorem binding_names (sig : Sig V) (c : Call V) (h : valid sig c = true) :
    keys (binding sig c) = sig.map (·.name) := by
  simp only [valid, Bool.and_eq_true] at h
  exact keys_bindFrom_allBound c sig 0 h.2

/-- sorting a dictionary by name does not depend on its insertion order -/
theorem sortItems_perm (a b : List (Str × V)) (ha : (keys a).Nodup) (hp : a.Perm b) :
    PVal.sortItems a = PVal.sortItems b := by
  unfold PVal.sortItems
  apply PVal.isort_key_perm (fun kv : Str × V => kv.1) a b hp
  intro x y hx hy hxy
  obtain ⟨k, v⟩ := x
  obtain ⟨k', v'⟩ := y
  simp only at hxy
  subst hxy
  have h1 := (mem_iff_dget a ha k v).mp hx
  have h2 := (mem_iff_dget a ha k v').mp hy
  rw [h1] at h2
  cases h2; rfl

theorem keys_filter_nodup (ign : List Str) (a : List (Str × V)) (ha : (keys a).Nodup) :
    (keys (dropIgnored ign a)).Nodup := by
  unfold dropIgnored keys
  exact (List.Nodup.sublist (List.Sublist.map _ List.filter_sublist) ha)

end TCV.Cached
