import TCV.Model.Test
/-! helper lemmas for C19 (M-Test): soundness of the pull machine with value-only nodes, and the
"mocks are never run, never stored" invariant -/
namespace TCV.TestM
variable {V : Type}

theorem upd_same {α} (g : Nat → α) (k : Nat) (v : α) : upd g k v k = v := by simp [upd]
theorem upd_other {α} (g : Nat → α) (k x : Nat) (v : α) (h : x ≠ k) : upd g k v x = g x := by simp [upd, h]

/-- every value held in memory or in the store is the semantic value of the task it belongs to -/
def Good (U : Nat → Node V) (sem : Nat → V) (s : St V) : Prop :=
  (∀ i v, s.mem i = some v → v = sem i) ∧
  (∀ l v, s.store l = some v → ∀ i, locOf U i = some l → v = sem i)

theorem good_empty (U : Nat → Node V) (sem : Nat → V) : Good U sem emptySt :=
  ⟨fun _ _ h => by simp [emptySt] at h, fun _ _ h => by simp [emptySt] at h⟩

/-- `sem` is the reference semantics: a mock is its value, a task is its function of the inputs' semantics -/
def IsSem (U : Nat → Node V) (f : Nat → List V → V) (sem : Nat → V) : Prop :=
  ∀ i, sem i = match U i with
    | .mock v => v
    | .task _ _ used => f i (used.map sem)

/-- two persisting tasks that share a location have the same semantics -/
def LocOk (U : Nat → Node V) (sem : Nat → V) : Prop :=
  ∀ i j l, locOf U i = some l → locOf U j = some l → sem i = sem j

section
variable (U : Nat → Node V) (f : Nat → List V → V) (sem : Nat → V)

def PVal (fuel : Nat) : Prop :=
  ∀ s i s' r, Good U sem s → value U f fuel s i = (s', r) → Good U sem s' ∧ (∀ v, r = some v → v = sem i)

/-- soundness of a single-node evaluator -/
def ValOk (val : St V → Nat → St V × Option V) : Prop :=
  ∀ s i s' r, Good U sem s → val s i = (s', r) → Good U sem s' ∧ (∀ v, r = some v → v = sem i)

theorem listWith_sound (val : St V → Nat → St V × Option V) (hV : ValOk U sem val) :
    ∀ js s s' r, Good U sem s → listWith val s js = (s', r) → Good U sem s' ∧ (∀ vs, r = some vs → vs = js.map sem) := by
  intro js
  induction js with
  | nil =>
    intro s s' r hg h
    simp [listWith] at h
    obtain ⟨rfl, rfl⟩ := h
    exact ⟨hg, fun vs hvs => by cases hvs; rfl⟩
  | cons j js ih =>
    intro s s' r hg h
    simp only [listWith] at h
    split at h
    · rename_i s1 hv1
      cases h
      exact ⟨(hV _ _ _ _ hg hv1).1, fun vs hvs => by cases hvs⟩
    · rename_i s1 v hv1
      obtain ⟨hg1, hvv⟩ := hV _ _ _ _ hg hv1
      split at h
      · rename_i s2 hl2
        cases h
        exact ⟨(ih _ _ _ hg1 hl2).1, fun vs hvs => by cases hvs⟩
      · rename_i s2 vs hl2
        cases h
        obtain ⟨hg2, hvs⟩ := ih _ _ _ hg1 hl2
        refine ⟨hg2, fun ws hws => ?_⟩
        cases hws
        simp [hvv v rfl, hvs vs rfl]

theorem sound_step (hsem : IsSem U f sem) (hloc : LocOk U sem) (fuel : Nat) (hV : PVal U f sem fuel) :
    PVal U f sem (fuel + 1) := by
  have hL := listWith_sound U sem (value U f fuel) hV
  intro s i s' r hg h
  have hs := hsem i
  simp only [value] at h
  split at h
  · -- mock
    rename_i v hU
    cases h
    rw [hU] at hs
    exact ⟨hg, fun v' hv' => by cases hv'; exact hs.symm⟩
  · rename_i loc persist used hU
    rw [hU] at hs
    simp only [] at hs
    split at h
    · rename_i v hm
      cases h
      exact ⟨hg, fun v' hv' => by cases hv'; exact hg.1 i v hm⟩
    · split at h
      · rename_i hm v hst
        cases h
        have hv : v = sem i := by
          split at hst
          · rename_i hp
            exact hg.2 _ v hst i (by simp [locOf, hU, hp])
          · cases hst
        refine ⟨⟨?_, hg.2⟩, fun v' hv' => by cases hv'; exact hv⟩
        intro j w hj
        by_cases hji : j = i
        · subst hji; simp [upd_same] at hj; rw [← hj]; exact hv
        · simp only [upd_other _ _ _ _ hji] at hj; exact hg.1 j w hj
      · split at h
        · rename_i s1 hl
          cases h
          exact ⟨(hL _ _ _ _ hg hl).1, fun v hv => by cases hv⟩
        · rename_i s1 as hl
          cases h
          obtain ⟨hg1, has⟩ := hL _ _ _ _ hg hl
          have hv : f i as = sem i := by rw [has as rfl, hs]
          refine ⟨⟨?_, ?_⟩, fun v' hv' => by cases hv'; exact hv⟩
          · intro j w hj
            by_cases hji : j = i
            · subst hji; simp [upd_same] at hj; rw [← hj]; exact hv
            · simp only [upd_other _ _ _ _ hji] at hj; exact hg1.1 j w hj
          · intro l w hw j hjl
            by_cases hp : persist = true
            · simp only [hp, if_true] at hw
              by_cases hll : l = loc
              · subst hll; simp [upd_same] at hw
                rw [← hw, hv]
                exact hloc i j l (by simp [locOf, hU, hp]) hjl
              · rw [upd_other _ _ _ _ hll] at hw; exact hg1.2 l w hw j hjl
            · simp only [hp] at hw; exact hg1.2 l w hw j hjl

theorem sound_all (hsem : IsSem U f sem) (hloc : LocOk U sem) : ∀ fuel, PVal U f sem fuel := by
  intro fuel
  induction fuel with
  | zero =>
    intro s i s' r hg h
    simp [value] at h
    obtain ⟨rfl, rfl⟩ := h
    exact ⟨hg, fun v hv => by cases hv⟩
  | succ n ih => exact sound_step U f sem hsem hloc n ih

/-- whatever `value` returns is the semantic value, and the invariant survives (also on failure) -/
theorem value_sound (hsem : IsSem U f sem) (hloc : LocOk U sem) (fuel : Nat) (s : St V) (i : Nat) (s' : St V) (v : V)
    (hg : Good U sem s) (h : value U f fuel s i = (s', some v)) : v = sem i ∧ Good U sem s' :=
  let ⟨hg', hv⟩ := sound_all U f sem hsem hloc fuel s i s' (some v) hg h
  ⟨hv v rfl, hg'⟩

/-! ## mocks are never run and never stored -/

/-- what may change: the run log grows by real tasks only, memory changes at real tasks only, the
store changes only at locations of persisting real tasks -/
def Frame (s s' : St V) : Prop :=
  (∀ j ∈ s'.runs, j ∈ s.runs ∨ isMock U j = false) ∧
  (∀ j, isMock U j = true → s'.mem j = s.mem j) ∧
  (∀ l, (∀ j, locOf U j ≠ some l) → s'.store l = s.store l)

theorem Frame.refl (s : St V) : Frame U s s := ⟨fun _ h => Or.inl h, fun _ _ => rfl, fun _ _ => rfl⟩

theorem Frame.trans {s1 s2 s3 : St V} (h1 : Frame U s1 s2) (h2 : Frame U s2 s3) : Frame U s1 s3 :=
  ⟨fun j hj => (h2.1 j hj).elim (fun h => h1.1 j h) Or.inr,
   fun j hj => (h2.2.1 j hj).trans (h1.2.1 j hj),
   fun l hl => (h2.2.2 l hl).trans (h1.2.2 l hl)⟩

def FVal (fuel : Nat) : Prop := ∀ s i s' r, value U f fuel s i = (s', r) → Frame U s s'

theorem listWith_frame (val : St V → Nat → St V × Option V) (hV : ∀ s i s' r, val s i = (s', r) → Frame U s s') :
    ∀ js s s' r, listWith val s js = (s', r) → Frame U s s' := by
  intro js
  induction js with
  | nil => intro s s' r h; simp [listWith] at h; obtain ⟨rfl, rfl⟩ := h; exact Frame.refl U s
  | cons j js ih =>
    intro s s' r h
    simp only [listWith] at h
    split at h
    · rename_i s1 hv1; cases h; exact hV _ _ _ _ hv1
    · rename_i s1 v hv1
      have h1 := hV _ _ _ _ hv1
      split at h
      · rename_i s2 hl2; cases h; exact Frame.trans U h1 (ih _ _ _ hl2)
      · rename_i s2 vs hl2; cases h; exact Frame.trans U h1 (ih _ _ _ hl2)

theorem frame_step (fuel : Nat) (hV : FVal U f fuel) : FVal U f (fuel + 1) := by
  have hL := listWith_frame U (value U f fuel) hV
  intro s i s' r h
  simp only [value] at h
  split at h
  · cases h; exact Frame.refl U s
  · rename_i loc persist used hU
    have hnm : isMock U i = false := by simp [isMock, hU]
    split at h
    · cases h; exact Frame.refl U s
    · split at h
      · cases h
        refine ⟨fun _ hj => Or.inl hj, fun j hj => ?_, fun _ _ => rfl⟩
        have : j ≠ i := by intro e; subst e; rw [hnm] at hj; cases hj
        exact upd_other _ _ _ _ this
      · split at h
        · rename_i s1 hl; cases h; exact hL _ _ _ _ hl
        · rename_i s1 as hl
          cases h
          have h1 := hL _ _ _ _ hl
          refine Frame.trans U h1 ⟨fun j hj => ?_, fun j hj => ?_, fun l hl' => ?_⟩
          · simp only [List.mem_append, List.mem_singleton] at hj
            rcases hj with hj | hj
            · exact Or.inl hj
            · subst hj; exact Or.inr hnm
          · have : j ≠ i := by intro e; subst e; rw [hnm] at hj; cases hj
            exact upd_other _ _ _ _ this
          · by_cases hp : persist = true
            · simp only [hp, if_true]
              have : l ≠ loc := by
                intro e; subst e
                exact hl' i (by simp [locOf, hU, hp])
              exact upd_other _ _ _ _ this
            · simp [hp]

theorem frame_all : ∀ fuel, FVal U f fuel := by
  intro fuel
  induction fuel with
  | zero => intro s i s' r h; simp [value] at h; obtain ⟨rfl, rfl⟩ := h; exact Frame.refl U s
  | succ n ih => exact frame_step U f n ih

end

/-! ## the real chain has the same semantics -/

theorem isSem_real (U : Nat → Node V) (f : Nat → List V → V) (sem : Nat → V) (rloc : Nat → Nat)
    (h : IsSem U f sem) : IsSem (realOf U rloc) (realF U f) sem := by
  intro i
  have := h i
  unfold realOf realF
  cases hU : U i with
  | mock v => rw [hU] at this; simpa using this
  | task loc p used => rw [hU] at this; simpa using this

end TCV.TestM

namespace TCV.TestM
variable {V : Type}

/-! ## construction -/

theorem collect_ok {α β} (h : α → Except Err β) : ∀ as : List α,
    (∃ l, collect h as = .ok l) ↔ ∀ a ∈ as, ∃ b, h a = .ok b
  | [] => by simp [collect]
  | a :: r => by
    have ih := collect_ok h r
    simp only [collect, List.mem_cons, forall_eq_or_imp]
    cases ha : h a with
    | error e => simp
    | ok b =>
      cases hr : collect h r with
      | ok l =>
        rw [hr] at ih
        exact ⟨fun _ => ⟨⟨b, rfl⟩, ih.mp ⟨l, rfl⟩⟩, fun _ => ⟨_, rfl⟩⟩
      | error e =>
        rw [hr] at ih
        constructor
        · intro ⟨l, hl⟩; cases hl
        · intro ⟨_, h2⟩; obtain ⟨l, hl⟩ := ih.mpr h2; cases hl

theorem collect_err {α β} (h : α → Except Err β) : ∀ (as : List α) (e : Err),
    collect h as = .error e → ∃ a ∈ as, h a = .error e
  | [], e, hc => by simp [collect] at hc
  | a :: r, e, hc => by
    simp only [collect] at hc
    split at hc
    · rename_i e' ha; cases hc; exact ⟨a, by simp, ha⟩
    · split at hc
      · cases hc
      · rename_i e' hr; cases hc
        obtain ⟨x, hx, hxe⟩ := collect_err h r _ hr
        exact ⟨x, List.mem_cons_of_mem _ hx, hxe⟩

end TCV.TestM
