import TCV.Model.Val
/-!
# Injectivity of the value representation (C03 core)

`reprRaw` is a prefix code on well-formed, *quote-free* JSON-like values: equal text ⇒ equal value.
Ported from the design-time spike, extended by the separators of the key text (`#`, `$`, `=`) as
delimiters so that the same lemma serves `keyText`.
-/
namespace TCV.PVal

/-- delimiter characters: an atom token contains none of them -/
def isDelim (c : Char) : Bool :=
  c == ',' || c == ' ' || c == ']' || c == '}' || c == ':' || c == q || c == '[' || c == '{' ||
  c == '#' || c == '$' || c == '='

mutual
/-- JSON-like (no `rstr`, no `obj`), atoms are non-empty delimiter-free tokens, strings and keys
contain no `'` (the K1 class predicate is the negation of the last clause) -/
def WF : PVal → Prop
  | .atom t => t ≠ [] ∧ ∀ c ∈ t, isDelim c = false
  | .str s => ∀ c ∈ s, c ≠ q
  | .rstr _ _ => False
  | .list xs => WFL xs
  | .dict kvs => WFD kvs
  | .obj _ => False
def WFL : List PVal → Prop
  | [] => True
  | x :: r => WF x ∧ WFL r
def WFD : List (Str × PVal) → Prop
  | [] => True
  | (k, v) :: r => (∀ c ∈ k, c ≠ q) ∧ WF v ∧ WFD r
end

/-- a "stop" suffix: empty or starting with a delimiter -/
def Stop (r : Str) : Prop := r = [] ∨ ∃ c t, r = c :: t ∧ isDelim c = true

theorem span_unique {p : Char → Bool} : ∀ (a b r1 r2 : Str),
    (∀ c ∈ a, p c = false) → (∀ c ∈ b, p c = false) →
    (r1 = [] ∨ ∃ c t, r1 = c :: t ∧ p c = true) → (r2 = [] ∨ ∃ c t, r2 = c :: t ∧ p c = true) →
    a ++ r1 = b ++ r2 → a = b ∧ r1 = r2 := by
  intro a
  induction a with
  | nil =>
    intro b r1 r2 _ hb h1 h2 h
    cases b with
    | nil => exact ⟨rfl, by simpa using h⟩
    | cons x b' =>
      simp at h
      rcases h1 with h1 | ⟨c, t, h1, hc⟩
      · simp [h1] at h
      · subst h1; simp at h
        have := hb x (by simp)
        rw [← h.1] at this; simp [this] at hc
  | cons x a' ih =>
    intro b r1 r2 ha hb h1 h2 h
    cases b with
    | nil =>
      simp at h
      rcases h2 with h2 | ⟨c, t, h2, hc⟩
      · simp [h2] at h
      · subst h2; simp at h
        have := ha x (by simp)
        rw [h.1] at this; simp [this] at hc
    | cons y b' =>
      simp at h
      obtain ⟨hxy, h⟩ := h
      have := ih b' r1 r2 (fun c hc => ha c (by simp [hc])) (fun c hc => hb c (by simp [hc])) h1 h2 h
      exact ⟨by rw [hxy, this.1], this.2⟩

theorem isDelim_q : isDelim q = true := by decide

/-- the head of a WF value's repr is never `]`, `}`, `,`, ` `, `:` -/
def closing (c : Char) : Bool := c == ']' || c == '}' || c == ',' || c == ' ' || c == ':'

theorem reprRaw_head (pr : Char → Bool) : ∀ v, WF v → ∃ c t, reprRaw pr v = c :: t ∧ closing c = false
  | .atom t, h => by
    cases t with
    | nil => exact absurd rfl h.1
    | cons c t' =>
      refine ⟨c, t', by simp [reprRaw], ?_⟩
      have := h.2 c (by simp)
      simp [isDelim] at this
      simp [closing, this]
  | .str s, _ => ⟨q, s ++ [q], by simp [reprRaw], by decide⟩
  | .list xs, _ => ⟨'[', reprL pr xs ++ [']'], by simp [reprRaw], by decide⟩
  | .dict kvs, _ => ⟨'{', reprD pr kvs ++ ['}'], by simp [reprRaw], by decide⟩
  | .rstr _ _, h => by simp [WF] at h
  | .obj _, h => by simp [WF] at h

theorem stop_cons_delim {c : Char} {t : Str} (h : isDelim c = true) : Stop (c :: t) :=
  Or.inr ⟨c, t, rfl, h⟩

theorem stop_LT (pr : Char → Bool) (xs : List PVal) (r : Str) : Stop (reprLT pr xs ++ ']' :: r) := by
  cases xs with
  | nil => exact stop_cons_delim (by decide)
  | cons x xs => simp [reprLT]; exact stop_cons_delim (by decide)

theorem stop_DT (pr : Char → Bool) (kvs : List (Str × PVal)) (r : Str) : Stop (reprDT pr kvs ++ '}' :: r) := by
  cases kvs with
  | nil => exact stop_cons_delim (by decide)
  | cons kv kvs => obtain ⟨k, v⟩ := kv; simp [reprDT]; exact stop_cons_delim (by decide)

theorem key_unique (k k' : Str) (r1 r2 : Str) (hk : ∀ c ∈ k, c ≠ q) (hk' : ∀ c ∈ k', c ≠ q)
    (h : k ++ q :: r1 = k' ++ q :: r2) : k = k' ∧ r1 = r2 := by
  have := span_unique (p := fun c => c == q) k k' (q :: r1) (q :: r2)
    (fun c hc => by simpa using hk c hc) (fun c hc => by simpa using hk' c hc)
    (Or.inr ⟨q, r1, rfl, by simp⟩) (Or.inr ⟨q, r2, rfl, by simp⟩) h
  exact ⟨this.1, by simpa using this.2⟩

/-- an atom's first character is no delimiter: clash with every bracket/quote-headed repr -/
theorem atom_head_clash {t : Str} {c : Char} {r1 r2 rest : Str}
    (hv : t ≠ [] ∧ ∀ c ∈ t, isDelim c = false) (hc : isDelim c = true)
    (h : t ++ r1 = c :: rest ++ r2) : False := by
  obtain ⟨hne, hd⟩ := hv
  cases t with
  | nil => exact hne rfl
  | cons c' t' =>
    simp at h
    have := hd c' (by simp); rw [h.1] at this; rw [this] at hc; cases hc

variable (pr : Char → Bool)

mutual
theorem injV : ∀ (v w : PVal) (r1 r2 : Str), WF v → WF w → Stop r1 → Stop r2 →
    reprRaw pr v ++ r1 = reprRaw pr w ++ r2 → v = w ∧ r1 = r2
  | .rstr _ _, _, _, _, hv, _, _, _, _ => by simp [WF] at hv
  | .obj _, _, _, _, hv, _, _, _, _ => by simp [WF] at hv
  | .atom t, w, r1, r2, hv, hw, s1, s2, h => by
    cases w with
    | atom t' =>
      have := span_unique (p := isDelim) t t' r1 r2 hv.2 hw.2 s1 s2 (by simpa [reprRaw] using h)
      exact ⟨by rw [this.1], this.2⟩
    | str s => exact (atom_head_clash hv isDelim_q (by simpa [reprRaw] using h)).elim
    | list xs => exact (atom_head_clash (c := '[') hv (by decide) (by simpa [reprRaw] using h)).elim
    | dict kvs => exact (atom_head_clash (c := '{') hv (by decide) (by simpa [reprRaw] using h)).elim
    | rstr _ _ => simp [WF] at hw
    | obj _ => simp [WF] at hw
  | .str s, w, r1, r2, hv, hw, s1, s2, h => by
    cases w with
    | atom t' => exact (atom_head_clash hw isDelim_q (by simpa [reprRaw] using h.symm)).elim
    | str s' =>
      simp [reprRaw] at h
      have := key_unique s s' r1 r2 hv hw (by simpa using h)
      exact ⟨by rw [this.1], this.2⟩
    | list xs => simp [reprRaw, q] at h
    | dict kvs => simp [reprRaw, q] at h
    | rstr _ _ => simp [WF] at hw
    | obj _ => simp [WF] at hw
  | .list xs, w, r1, r2, hv, hw, s1, s2, h => by
    cases w with
    | atom t' => exact (atom_head_clash (c := '[') hw (by decide) (by simpa [reprRaw] using h.symm)).elim
    | str s' => simp [reprRaw, q] at h
    | list ys =>
      simp [reprRaw] at h
      have := injL xs ys r1 r2 hv hw (by simpa using h)
      exact ⟨by rw [this.1], this.2⟩
    | dict kvs => simp [reprRaw] at h
    | rstr _ _ => simp [WF] at hw
    | obj _ => simp [WF] at hw
  | .dict kvs, w, r1, r2, hv, hw, s1, s2, h => by
    cases w with
    | atom t' => exact (atom_head_clash (c := '{') hw (by decide) (by simpa [reprRaw] using h.symm)).elim
    | str s' => simp [reprRaw, q] at h
    | list ys => simp [reprRaw] at h
    | dict kvs' =>
      simp [reprRaw] at h
      have := injD kvs kvs' r1 r2 hv hw (by simpa using h)
      exact ⟨by rw [this.1], this.2⟩
    | rstr _ _ => simp [WF] at hw
    | obj _ => simp [WF] at hw
theorem injL : ∀ (xs ys : List PVal) (r1 r2 : Str), WFL xs → WFL ys →
    reprL pr xs ++ ']' :: r1 = reprL pr ys ++ ']' :: r2 → xs = ys ∧ r1 = r2
  | [], ys, r1, r2, _, hy, h => by
    cases ys with
    | nil => simpa [reprL] using h
    | cons y ys' =>
      exfalso
      obtain ⟨c, t, hc, hcl⟩ := reprRaw_head pr y hy.1
      simp [reprL, hc] at h
      rw [← h.1] at hcl; simp [closing] at hcl
  | x :: xs', ys, r1, r2, hx, hy, h => by
    cases ys with
    | nil =>
      exfalso
      obtain ⟨c, t, hc, hcl⟩ := reprRaw_head pr x hx.1
      simp [reprL, hc] at h
      rw [h.1] at hcl; simp [closing] at hcl
    | cons y ys' =>
      simp only [reprL, List.append_assoc] at h
      have hV := injV x y _ _ hx.1 hy.1 (stop_LT pr xs' r1) (stop_LT pr ys' r2) h
      have hT := injLT xs' ys' r1 r2 hx.2 hy.2 hV.2
      exact ⟨by rw [hV.1, hT.1], hT.2⟩
theorem injLT : ∀ (xs ys : List PVal) (r1 r2 : Str), WFL xs → WFL ys →
    reprLT pr xs ++ ']' :: r1 = reprLT pr ys ++ ']' :: r2 → xs = ys ∧ r1 = r2
  | [], ys, r1, r2, _, hy, h => by
    cases ys with
    | nil => simpa [reprLT] using h
    | cons y ys' => simp [reprLT] at h
  | x :: xs', ys, r1, r2, hx, hy, h => by
    cases ys with
    | nil => simp [reprLT] at h
    | cons y ys' =>
      simp only [reprLT, List.cons_append, List.append_assoc, List.cons.injEq, true_and] at h
      have hV := injV x y _ _ hx.1 hy.1 (stop_LT pr xs' r1) (stop_LT pr ys' r2) h
      have hT := injLT xs' ys' r1 r2 hx.2 hy.2 hV.2
      exact ⟨by rw [hV.1, hT.1], hT.2⟩
theorem injD : ∀ (xs ys : List (Str × PVal)) (r1 r2 : Str), WFD xs → WFD ys →
    reprD pr xs ++ '}' :: r1 = reprD pr ys ++ '}' :: r2 → xs = ys ∧ r1 = r2
  | [], ys, r1, r2, _, hy, h => by
    cases ys with
    | nil => simpa [reprD] using h
    | cons y ys' => obtain ⟨k, v⟩ := y; simp [reprD, q] at h
  | (k, v) :: xs', ys, r1, r2, hx, hy, h => by
    cases ys with
    | nil => simp [reprD, q] at h
    | cons y ys' =>
      obtain ⟨k', v'⟩ := y
      simp only [reprD, List.cons_append, List.append_assoc, List.cons.injEq, true_and] at h
      have hK := key_unique k k' _ _ hx.1 hy.1 h
      have hV := injV v v' _ _ hx.2.1 hy.2.1 (stop_DT pr xs' r1) (stop_DT pr ys' r2) (by simpa using hK.2)
      have hT := injDT xs' ys' r1 r2 hx.2.2 hy.2.2 hV.2
      exact ⟨by rw [hK.1, hV.1, hT.1], hT.2⟩
theorem injDT : ∀ (xs ys : List (Str × PVal)) (r1 r2 : Str), WFD xs → WFD ys →
    reprDT pr xs ++ '}' :: r1 = reprDT pr ys ++ '}' :: r2 → xs = ys ∧ r1 = r2
  | [], ys, r1, r2, _, hy, h => by
    cases ys with
    | nil => simpa [reprDT] using h
    | cons y ys' => obtain ⟨k, v⟩ := y; simp [reprDT] at h
  | (k, v) :: xs', ys, r1, r2, hx, hy, h => by
    cases ys with
    | nil => simp [reprDT] at h
    | cons y ys' =>
      obtain ⟨k', v'⟩ := y
      simp only [reprDT, List.cons_append, List.append_assoc, List.cons.injEq, true_and] at h
      have hK := key_unique k k' _ _ hx.1 hy.1 h
      have hV := injV v v' _ _ hx.2.1 hy.2.1 (stop_DT pr xs' r1) (stop_DT pr ys' r2) (by simpa using hK.2)
      have hT := injDT xs' ys' r1 r2 hx.2.2 hy.2.2 hV.2
      exact ⟨by rw [hK.1, hV.1, hT.1], hT.2⟩
end

theorem reprRaw_injective (v w : PVal) (hv : WF v) (hw : WF w) (h : reprRaw pr v = reprRaw pr w) : v = w :=
  (injV pr v w [] [] hv hw (Or.inl rfl) (Or.inl rfl) (by simpa using h)).1

end TCV.PVal
