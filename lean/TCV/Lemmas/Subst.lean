import TCV.Model.Subst
import TCV.Lemmas.Key
/-! helper lemmas for C11 (M-Subst) -/
namespace TCV.Subst
open TCV TCV.PVal

/-- `c` is neither `}` nor a newline: a character the lazy `.*?` can run over while looking for `}` -/
def NameChar (c : Char) : Prop := c ≠ '}' ∧ c ≠ '\n'

/-! ## the scanner: declarative equations (the regex semantics, case by case) -/

theorem lits_append (a b : Str) : lits (a ++ b) = lits a ++ lits b := by simp [lits]

theorem scan_nil : scan [] = [] := rfl

/-- a character other than `{` cannot start a match: it is literal, the scan goes on behind it -/
theorem scan_lit_cons (c : Char) (r : Str) (h : c ≠ '{') : scan (c :: r) = Seg.lit c :: scan r := by
  simp [scan, scanAux, h]

theorem scanAux_open_match (acc t post : Str) (ht : ∀ c ∈ t, NameChar c) :
    scanAux (some acc) (t ++ '}' :: post) = Seg.ph (acc ++ t) :: scanAux none post := by
  induction t generalizing acc with
  | nil => simp [scanAux]
  | cons c t ih =>
    have hc := ht c (by simp)
    simp only [List.cons_append, scanAux, hc.1, hc.2, if_false]
    rw [ih (acc ++ [c]) (fun x hx => ht x (by simp [hx]))]
    simp

theorem scanAux_open_nl (acc t post : Str) (ht : ∀ c ∈ t, NameChar c) :
    scanAux (some acc) (t ++ '\n' :: post) = lits ('{' :: (acc ++ t ++ ['\n'])) ++ scanAux none post := by
  induction t generalizing acc with
  | nil => simp [scanAux]
  | cons c t ih =>
    have hc := ht c (by simp)
    simp only [List.cons_append, scanAux, hc.1, hc.2, if_false]
    rw [ih (acc ++ [c]) (fun x hx => ht x (by simp [hx]))]
    simp

theorem scanAux_open_end (acc t : Str) (ht : ∀ c ∈ t, NameChar c) :
    scanAux (some acc) t = lits ('{' :: (acc ++ t)) := by
  induction t generalizing acc with
  | nil => simp [scanAux]
  | cons c t ih =>
    have hc := ht c (by simp)
    simp only [scanAux, hc.1, hc.2, if_false]
    rw [ih (acc ++ [c]) (fun x hx => ht x (by simp [hx]))]
    simp

/-- a `{` followed by a stretch without `}` and newline and then `}`: a match whose name is that
stretch (lazy: the *first* `}`; the name may contain `{`), and the scan resumes behind the `}` -/
theorem scan_match (name post : Str) (hn : ∀ c ∈ name, NameChar c) :
    scan ('{' :: (name ++ '}' :: post)) = Seg.ph name :: scan post := by
  have := scanAux_open_match [] name post hn
  simpa [scan, scanAux] using this

/-- a `{` with a newline before any `}`: no match starts at the `{` **nor anywhere inside the
stretch**; everything up to and including the newline is literal -/
theorem scan_fail_nl (t post : Str) (ht : ∀ c ∈ t, NameChar c) :
    scan ('{' :: (t ++ '\n' :: post)) = lits ('{' :: (t ++ ['\n'])) ++ scan post := by
  have := scanAux_open_nl [] t post ht
  simpa [scan, scanAux] using this

/-- a `{` with neither `}` nor newline behind it: everything to the end is literal -/
theorem scan_fail_end (t : Str) (ht : ∀ c ∈ t, NameChar c) :
    scan ('{' :: t) = lits ('{' :: t) := by
  have := scanAux_open_end [] t ht
  simpa [scan, scanAux] using this

/-- a brace-free prefix is literal -/
theorem scan_lit_prefix (pre rest : Str) (h : ∀ c ∈ pre, c ≠ '{') :
    scan (pre ++ rest) = lits pre ++ scan rest := by
  induction pre with
  | nil => simp [lits]
  | cons c p ih =>
    rw [List.cons_append, scan_lit_cons c _ (h c (by simp)), ih (fun x hx => h x (by simp [hx]))]
    simp [lits]

/-! ## losslessness -/

theorem render_append (a b : List Seg) : render (a ++ b) = render a ++ render b := by
  induction a with
  | nil => rfl
  | cons g r ih => simp [render, ih]

theorem render_lits (s : Str) : render (lits s) = s := by
  induction s with
  | nil => rfl
  | cons c r ih =>
    have : render (lits r) = r := ih
    simp [lits, render, Seg.src] at this ⊢
    exact this

def pending : Option Str → Str
  | none => []
  | some acc => '{' :: acc

theorem render_scanAux : ∀ (s : Str) (st : Option Str), render (scanAux st s) = pending st ++ s
  | [], none => rfl
  | [], some acc => by simp [scanAux, render_lits, pending]
  | c :: r, none => by
    simp only [scanAux]
    split
    · rename_i h; subst h
      rw [render_scanAux r (some [])]; simp [pending]
    · simp [render, Seg.src, render_scanAux r none, pending]
  | c :: r, some acc => by
    simp only [scanAux]
    split
    · rename_i h; subst h
      simp [render, Seg.src, render_scanAux r none, pending]
    · split
      · rename_i _ h; subst h
        rw [render_append, render_lits, render_scanAux r none]; simp [pending]
      · rw [render_scanAux r (some (acc ++ [c]))]; simp [pending]

/-! ## segment-wise facts -/

theorem applySegs_append (env : Env) (a b : List Seg) : applySegs env (a ++ b) = applySegs env a ++ applySegs env b := by
  induction a with
  | nil => rfl
  | cons g r ih => simp [applySegs, ih]

theorem applySegs_lits (env : Env) (s : Str) : applySegs env (lits s) = s := by
  induction s with
  | nil => rfl
  | cons c r ih =>
    have : applySegs env (lits r) = r := ih
    simp [lits, applySegs, Seg.out] at this ⊢
    exact this

theorem names_append (a b : List Seg) : names (a ++ b) = names a ++ names b := by
  induction a with
  | nil => rfl
  | cons g r ih => cases g <;> simp [names, ih]

theorem names_lits (s : Str) : names (lits s) = [] := by
  induction s with
  | nil => rfl
  | cons c r ih => simpa [lits, names] using ih

theorem hasPh_append (a b : List Seg) : hasPh (a ++ b) = (hasPh a || hasPh b) := by
  induction a with
  | nil => rfl
  | cons g r ih => cases g <;> simp [hasPh, ih]

theorem hasPh_lits (s : Str) : hasPh (lits s) = false := by
  induction s with
  | nil => rfl
  | cons c r ih => simpa [lits, hasPh] using ih

theorem hasPh_eq_names (segs : List Seg) : hasPh segs = !(names segs).isEmpty := by
  induction segs with
  | nil => rfl
  | cons g r ih => cases g <;> simp [hasPh, names, ih]

/-- when no matched name is defined the output is the source -/
theorem applySegs_undefined (env : Env) : ∀ segs : List Seg, (∀ n ∈ names segs, env n = none) →
    applySegs env segs = render segs
  | [], _ => rfl
  | .lit c :: r, h => by
    simp only [applySegs, render, Seg.out, Seg.src]
    rw [applySegs_undefined env r (fun n hn => h n (by simpa [names] using hn))]
  | .ph m :: r, h => by
    have hm : env m = none := h m (by simp [names])
    simp only [applySegs, render, Seg.out, Seg.src, hm]
    rw [applySegs_undefined env r (fun n hn => h n (by simp [names, hn]))]

/-- no placeholder matched: the output is the source, for every environment -/
theorem applySegs_noPh (env : Env) (segs : List Seg) (h : hasPh segs = false) : applySegs env segs = render segs := by
  apply applySegs_undefined
  rw [hasPh_eq_names] at h
  intro n hn
  cases hs : names segs with
  | nil => rw [hs] at hn; cases hn
  | cons a b => rw [hs] at h; simp at h

/-- matched names never contain `}` or a newline -/
theorem names_scanAux_clean : ∀ (s : Str) (st : Option Str), (∀ acc, st = some acc → ∀ c ∈ acc, NameChar c) →
    ∀ n ∈ names (scanAux st s), ∀ c ∈ n, NameChar c
  | [], none, _ => by simp [scanAux, names]
  | [], some acc, _ => by simp [scanAux, names_lits]
  | c :: r, none, _ => by
    simp only [scanAux]
    split
    · exact names_scanAux_clean r (some []) (by simp)
    · simpa [names] using names_scanAux_clean r none (by simp)
  | c :: r, some acc, h => by
    simp only [scanAux]
    split
    · intro n hn
      simp only [names, List.mem_cons] at hn
      rcases hn with hn | hn
      · rw [hn]; exact h acc rfl
      · exact names_scanAux_clean r none (by simp) n hn
    · split
      · rw [names_append, names_lits]
        simpa using names_scanAux_clean r none (by simp)
      · rename_i h1 h2
        apply names_scanAux_clean r (some (acc ++ [c]))
        intro acc' he x hx
        cases he
        simp only [List.mem_append, List.mem_singleton] at hx
        rcases hx with hx | hx
        · exact h acc rfl x hx
        · subst hx; exact ⟨h1, h2⟩

/-! ## trees -/

mutual
theorem substTree_eq_mapStr (env : Env) : ∀ v : PVal, substTree env v = mapStr (substLeaf env) v
  | .atom _ => rfl
  | .str _ => rfl
  | .rstr _ _ => rfl
  | .obj _ => rfl
  | .list xs => by simp [substTree, mapStr, substL_eq_mapStrL env xs]
  | .dict kvs => by simp [substTree, mapStr, substD_eq_mapStrD env kvs]
theorem substL_eq_mapStrL (env : Env) : ∀ xs : List PVal, substL env xs = mapStrL (substLeaf env) xs
  | [] => rfl
  | x :: r => by simp [substL, mapStrL, substTree_eq_mapStr env x, substL_eq_mapStrL env r]
theorem substD_eq_mapStrD (env : Env) : ∀ kvs : List (Str × PVal), substD env kvs = mapStrD (substLeaf env) kvs
  | [] => rfl
  | (k, v) :: r => by simp [substD, mapStrD, substTree_eq_mapStr env v, substD_eq_mapStrD env r]
end

theorem shape_of_strLeaf (v : PVal) (h : isStrLeaf v = true) : shape v = .str [] := by
  cases v <;> simp [isStrLeaf] at h <;> rfl

theorem leaves_of_strLeaf (v : PVal) (h : isStrLeaf v = true) : leaves v = [v] := by
  cases v <;> simp [isStrLeaf] at h <;> rfl

mutual
/-- `mapStr f` with a leaf-to-leaf `f` keeps the shape: nesting, lengths, keys, atoms, objects -/
theorem shape_mapStr (f : PVal → PVal) (hf : ∀ v, isStrLeaf v = true → isStrLeaf (f v) = true) :
    ∀ v : PVal, shape (mapStr f v) = shape v
  | .atom _ => rfl
  | .obj _ => rfl
  | .str s => by simp [mapStr, shape, shape_of_strLeaf _ (hf (.str s) rfl)]
  | .rstr a b => by simp [mapStr, shape, shape_of_strLeaf _ (hf (.rstr a b) rfl)]
  | .list xs => by simp [mapStr, shape, shapeL_mapStrL f hf xs]
  | .dict kvs => by simp [mapStr, shape, shapeD_mapStrD f hf kvs]
theorem shapeL_mapStrL (f : PVal → PVal) (hf : ∀ v, isStrLeaf v = true → isStrLeaf (f v) = true) :
    ∀ xs : List PVal, shapeL (mapStrL f xs) = shapeL xs
  | [] => rfl
  | x :: r => by simp [mapStrL, shapeL, shape_mapStr f hf x, shapeL_mapStrL f hf r]
theorem shapeD_mapStrD (f : PVal → PVal) (hf : ∀ v, isStrLeaf v = true → isStrLeaf (f v) = true) :
    ∀ kvs : List (Str × PVal), shapeD (mapStrD f kvs) = shapeD kvs
  | [] => rfl
  | (k, v) :: r => by simp [mapStrD, shapeD, shape_mapStr f hf v, shapeD_mapStrD f hf r]
end

mutual
/-- … and its string leaves are exactly the images of the original string leaves, in order -/
theorem leaves_mapStr (f : PVal → PVal) (hf : ∀ v, isStrLeaf v = true → isStrLeaf (f v) = true) :
    ∀ v : PVal, leaves (mapStr f v) = (leaves v).map f
  | .atom _ => rfl
  | .obj _ => rfl
  | .str s => by simp [mapStr, leaves, leaves_of_strLeaf _ (hf (.str s) rfl)]
  | .rstr a b => by simp [mapStr, leaves, leaves_of_strLeaf _ (hf (.rstr a b) rfl)]
  | .list xs => by simp [mapStr, leaves, leavesL_mapStrL f hf xs]
  | .dict kvs => by simp [mapStr, leaves, leavesD_mapStrD f hf kvs]
theorem leavesL_mapStrL (f : PVal → PVal) (hf : ∀ v, isStrLeaf v = true → isStrLeaf (f v) = true) :
    ∀ xs : List PVal, leavesL (mapStrL f xs) = (leavesL xs).map f
  | [] => rfl
  | x :: r => by simp [mapStrL, leavesL, leaves_mapStr f hf x, leavesL_mapStrL f hf r]
theorem leavesD_mapStrD (f : PVal → PVal) (hf : ∀ v, isStrLeaf v = true → isStrLeaf (f v) = true) :
    ∀ kvs : List (Str × PVal), leavesD (mapStrD f kvs) = (leavesD kvs).map f
  | [] => rfl
  | (k, v) :: r => by simp [mapStrD, leavesD, leaves_mapStr f hf v, leavesD_mapStrD f hf r]
end

mutual
/-- the number of string leaves can be read off the shape -/
theorem numLeaves_shape : ∀ v : PVal, (leaves (shape v)).length = (leaves v).length
  | .atom _ => rfl
  | .obj _ => rfl
  | .str _ => rfl
  | .rstr _ _ => rfl
  | .list xs => by simp [shape, leaves, numLeavesL_shape xs]
  | .dict kvs => by simp [shape, leaves, numLeavesD_shape kvs]
theorem numLeavesL_shape : ∀ xs : List PVal, (leavesL (shapeL xs)).length = (leavesL xs).length
  | [] => rfl
  | x :: r => by simp [shapeL, leavesL, numLeaves_shape x, numLeavesL_shape r]
theorem numLeavesD_shape : ∀ kvs : List (Str × PVal), (leavesD (shapeD kvs)).length = (leavesD kvs).length
  | [] => rfl
  | (k, v) :: r => by simp [shapeD, leavesD, numLeaves_shape v, numLeavesD_shape r]
end

mutual
/-- a value is determined by its shape and its string leaves -/
theorem eq_of_shape_leaves : ∀ v w : PVal, shape v = shape w → leaves v = leaves w → v = w
  | .atom a, w, hs, _ => by cases w <;> simp [shape] at hs ⊢ <;> exact hs
  | .obj a, w, hs, _ => by cases w <;> simp [shape] at hs ⊢ <;> exact hs
  | .str s, w, hs, hl => by cases w <;> simp [shape, leaves] at hs hl ⊢ <;> exact hl
  | .rstr a b, w, hs, hl => by cases w <;> simp [shape, leaves] at hs hl ⊢ <;> exact hl
  | .list xs, w, hs, hl => by
    cases w <;> simp [shape] at hs
    rename_i ys
    simp only [leaves] at hl
    rw [eqL_of_shape_leaves xs ys hs hl]
  | .dict kvs, w, hs, hl => by
    cases w <;> simp [shape] at hs
    rename_i kvs'
    simp only [leaves] at hl
    rw [eqD_of_shape_leaves kvs kvs' hs hl]
theorem eqL_of_shape_leaves : ∀ xs ys : List PVal, shapeL xs = shapeL ys → leavesL xs = leavesL ys → xs = ys
  | [], [], _, _ => rfl
  | [], _ :: _, hs, _ => by simp [shapeL] at hs
  | _ :: _, [], hs, _ => by simp [shapeL] at hs
  | x :: r, y :: r', hs, hl => by
    simp only [shapeL, List.cons.injEq] at hs
    simp only [leavesL] at hl
    have hlen : (leaves x).length = (leaves y).length := by
      rw [← numLeaves_shape x, ← numLeaves_shape y, hs.1]
    have := List.append_inj hl hlen
    rw [eq_of_shape_leaves x y hs.1 this.1, eqL_of_shape_leaves r r' hs.2 this.2]
theorem eqD_of_shape_leaves : ∀ xs ys : List (Str × PVal), shapeD xs = shapeD ys → leavesD xs = leavesD ys → xs = ys
  | [], [], _, _ => rfl
  | [], _ :: _, hs, _ => by simp [shapeD] at hs
  | _ :: _, [], hs, _ => by simp [shapeD] at hs
  | (k, x) :: r, (k', y) :: r', hs, hl => by
    simp only [shapeD, List.cons.injEq, Prod.mk.injEq] at hs
    simp only [leavesD] at hl
    have hlen : (leaves x).length = (leaves y).length := by
      rw [← numLeaves_shape x, ← numLeaves_shape y, hs.1.2]
    have := List.append_inj hl hlen
    rw [eq_of_shape_leaves x y hs.1.2 this.1, eqD_of_shape_leaves r r' hs.2 this.2, hs.1.1]
end


mutual
theorem leaves_are_strLeaves : ∀ (v : PVal) (l : PVal), l ∈ leaves v → isStrLeaf l = true
  | .atom _, l, h => by simp [leaves] at h
  | .obj _, l, h => by simp [leaves] at h
  | .str s, l, h => by simp [leaves] at h; subst h; rfl
  | .rstr a b, l, h => by simp [leaves] at h; subst h; rfl
  | .list xs, l, h => leavesL_are_strLeaves xs l (by simpa [leaves] using h)
  | .dict kvs, l, h => leavesD_are_strLeaves kvs l (by simpa [leaves] using h)
theorem leavesL_are_strLeaves : ∀ (xs : List PVal) (l : PVal), l ∈ leavesL xs → isStrLeaf l = true
  | [], l, h => by simp [leavesL] at h
  | x :: r, l, h => by
    simp only [leavesL, List.mem_append] at h
    rcases h with h | h
    · exact leaves_are_strLeaves x l h
    · exact leavesL_are_strLeaves r l h
theorem leavesD_are_strLeaves : ∀ (kvs : List (Str × PVal)) (l : PVal), l ∈ leavesD kvs → isStrLeaf l = true
  | [], l, h => by simp [leavesD] at h
  | (k, x) :: r, l, h => by
    simp only [leavesD, List.mem_append] at h
    rcases h with h | h
    · exact leaves_are_strLeaves x l h
    · exact leavesD_are_strLeaves r l h
end

/-! ## a second application -/

theorem substStr_again (env env' : Env) (s : Str) : substTree env' (substStr env s) = substStr env s := by
  unfold substStr
  split
  · rfl
  · rename_i h; simp [substTree, substStr, h]

mutual
theorem substTree_idem (env env' : Env) : ∀ v : PVal, substTree env' (substTree env v) = substTree env v
  | .atom _ => rfl
  | .obj _ => rfl
  | .rstr _ _ => rfl
  | .str s => by simp only [substTree]; exact substStr_again env env' s
  | .list xs => by simp [substTree, substL_idem env env' xs]
  | .dict kvs => by simp [substTree, substD_idem env env' kvs]
theorem substL_idem (env env' : Env) : ∀ xs : List PVal, substL env' (substL env xs) = substL env xs
  | [] => rfl
  | x :: r => by simp [substL, substTree_idem env env' x, substL_idem env env' r]
theorem substD_idem (env env' : Env) : ∀ kvs : List (Str × PVal), substD env' (substD env kvs) = substD env kvs
  | [] => rfl
  | (k, v) :: r => by simp [substD, substTree_idem env env' v, substD_idem env env' r]
end

/-! ## copies -/

mutual
theorem deepcopy_id (pr : Char → Bool) : ∀ v : PVal, deepcopy pr v = v
  | .atom _ => rfl
  | .obj _ => rfl
  | .str _ => rfl
  | .rstr _ _ => rfl
  | .list xs => by simp [deepcopy, deepcopyL_id pr xs]
  | .dict kvs => by simp [deepcopy, deepcopyD_id pr kvs]
theorem deepcopyL_id (pr : Char → Bool) : ∀ xs : List PVal, deepcopyL pr xs = xs
  | [] => rfl
  | x :: r => by simp [deepcopyL, deepcopy_id pr x, deepcopyL_id pr r]
theorem deepcopyD_id (pr : Char → Bool) : ∀ kvs : List (Str × PVal), deepcopyD pr kvs = kvs
  | [] => rfl
  | (k, v) :: r => by simp [deepcopyD, deepcopy_id pr v, deepcopyD_id pr r]
end

theorem escChar_length_pos (pr : Char → Bool) (qc c : Char) : 1 ≤ (escChar pr qc c).length := by
  unfold escChar
  simp only []
  repeat' split
  all_goals simp [hexN]

theorem escAll_length_ge (pr : Char → Bool) (qc : Char) : ∀ s : Str, s.length ≤ (escAll pr qc s).length
  | [] => by simp [escAll]
  | c :: r => by
    have := escChar_length_pos pr qc c
    have := escAll_length_ge pr qc r
    simp only [escAll, List.length_append, List.length_cons]
    omega

theorem pyRepr_length_gt (pr : Char → Bool) (s : Str) : s.length + 2 ≤ (pyRepr pr s).length := by
  have := fun qc => escAll_length_ge pr qc s
  simp only [pyRepr, List.length_cons, List.length_append, List.length_nil]
  split
  · have := this '"'; omega
  · have := this '\''; omega

/-! ## representation of a substituted structure -/

theorem substL_eq_map (env : Env) : ∀ xs : List PVal, substL env xs = xs.map (substTree env)
  | [] => rfl
  | x :: r => by simp [substL, substL_eq_map env r]

theorem substD_eq_map (env : Env) : ∀ kvs : List (Str × PVal), substD env kvs = kvs.map (fun kv => (kv.1, substTree env kv.2))
  | [] => rfl
  | (k, v) :: r => by simp [substD, substD_eq_map env r]

theorem insertBy_mapVal {β γ} (f : β → γ) (k : Str) (v : β) : ∀ l : List (Str × β),
    insertBy (fun a b : Str × γ => strLe a.1 b.1) (k, f v) (l.map (fun kv => (kv.1, f kv.2)))
      = (insertBy (fun a b : Str × β => strLe a.1 b.1) (k, v) l).map (fun kv => (kv.1, f kv.2))
  | [] => rfl
  | y :: ys => by
    simp only [insertBy, List.map_cons]
    split
    · rfl
    · simp [insertBy_mapVal f k v ys]

theorem sortItems_mapVal {β γ} (f : β → γ) : ∀ l : List (Str × β),
    sortItems (l.map (fun kv => (kv.1, f kv.2))) = (sortItems l).map (fun kv => (kv.1, f kv.2))
  | [] => rfl
  | (k, v) :: r => by
    have ih := sortItems_mapVal f r
    simp only [sortItems, isort, List.map_cons] at ih ⊢
    rw [ih, insertBy_mapVal]

mutual
/-- sorting the mappings commutes with the substitution (keys are not touched) -/
theorem canon_substTree (env : Env) : ∀ v : PVal, canon (substTree env v) = substTree env (canon v)
  | .atom _ => rfl
  | .obj _ => rfl
  | .rstr _ _ => rfl
  | .str s => by
    simp only [substTree, canon]
    unfold substStr; split <;> rfl
  | .list xs => by simp [substTree, canon, canonL_substL env xs]
  | .dict kvs => by
    simp only [substTree, canon, canonD_substD env kvs]
    rw [substD_eq_map, substD_eq_map, sortItems_mapVal]
theorem canonL_substL (env : Env) : ∀ xs : List PVal, canonL (substL env xs) = substL env (canonL xs)
  | [] => rfl
  | x :: r => by simp [substL, canonL, canon_substTree env x, canonL_substL env r]
theorem canonD_substD (env : Env) : ∀ kvs : List (Str × PVal), canonD (substD env kvs) = substD env (canonD kvs)
  | [] => rfl
  | (k, v) :: r => by simp [substD, canonD, canon_substTree env v, canonD_substD env r]
end

theorem reprRaw_substStr (pr : Char → Bool) (env env' : Env) (s : Str) :
    reprRaw pr (substStr env s) = reprRaw pr (substStr env' s) := by
  unfold substStr; split <;> simp [reprRaw]

mutual
theorem reprRaw_substTree (pr : Char → Bool) (env env' : Env) : ∀ v : PVal,
    reprRaw pr (substTree env v) = reprRaw pr (substTree env' v)
  | .atom _ => rfl
  | .obj _ => rfl
  | .rstr _ _ => rfl
  | .str s => by simp only [substTree]; exact reprRaw_substStr pr env env' s
  | .list xs => by simp [substTree, reprRaw, reprL_substL pr env env' xs]
  | .dict kvs => by simp [substTree, reprRaw, reprD_substD pr env env' kvs]
theorem reprL_substL (pr : Char → Bool) (env env' : Env) : ∀ xs : List PVal,
    reprL pr (substL env xs) = reprL pr (substL env' xs)
  | [] => rfl
  | x :: r => by simp [substL, reprL, reprRaw_substTree pr env env' x, reprLT_substL pr env env' r]
theorem reprLT_substL (pr : Char → Bool) (env env' : Env) : ∀ xs : List PVal,
    reprLT pr (substL env xs) = reprLT pr (substL env' xs)
  | [] => rfl
  | x :: r => by simp [substL, reprLT, reprRaw_substTree pr env env' x, reprLT_substL pr env env' r]
theorem reprD_substD (pr : Char → Bool) (env env' : Env) : ∀ kvs : List (Str × PVal),
    reprD pr (substD env kvs) = reprD pr (substD env' kvs)
  | [] => rfl
  | (k, v) :: r => by simp [substD, reprD, reprRaw_substTree pr env env' v, reprDT_substD pr env env' r]
theorem reprDT_substD (pr : Char → Bool) (env env' : Env) : ∀ kvs : List (Str × PVal),
    reprDT pr (substD env kvs) = reprDT pr (substD env' kvs)
  | [] => rfl
  | (k, v) :: r => by simp [substD, reprDT, reprRaw_substTree pr env env' v, reprDT_substD pr env env' r]
end

end TCV.Subst
