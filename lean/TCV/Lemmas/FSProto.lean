import TCV.Lemmas.FS
/-!
# Lemmas about the concrete protocols of `data.py`: `_remove_dir`, `_replace_dir`, the staging of
file and directory results, typing of every request protocol.
-/
namespace TCV.FS
variable {V : Type}

/-- what `WF` says role by role -/
theorem wf_facts {K : Kind} {s : State V} (h : WF K s) :
    (s .log).isDir = false ∧ (s .runinfo).isDir = false ∧
    (K.isDir = true → (s .final).isFile = false ∧ (s .tmp).isFile = false ∧ (s .old).isFile = false ∧
      (s .error).isFile = false) ∧
    (K.isDir = false → (s .final).isDir = false ∧ (s .tmp).isDir = false) := by
  have h1 := h .log; have h2 := h .runinfo; have h3 := h .final; have h4 := h .tmp
  have h5 := h .old; have h6 := h .error
  simp only [nodeOK, roleIsDir] at h1 h2 h3 h4 h5 h6
  refine ⟨by simpa using h1, by simpa using h2, ?_, ?_⟩
  · intro hk; simp only [hk, if_true] at h3 h4 h5 h6; simp_all
  · intro hk; simp only [hk] at h3 h4; simp_all

/-- `_remove_dir`: afterwards neither the result nor `<key>_old` exists, nothing else changed -/
theorem run_removeDir (s : State V) (ho : (s .old).isFile = false) (hf : (s .final).isFile = false) :
    ∃ t, run removeDir s = .ok t ∧ t .final = .absent ∧ t .old = .absent ∧
      ∀ r, r ≠ .final → r ≠ .old → t r = s r := by
  cases ho' : s .old <;> cases hf' : s .final <;>
    simp_all [removeDir, run, gstep, Guard.holds, Node.present, step, Node.isFile, State.set]

/-- `_replace_dir`: the staged directory becomes the result -/
theorem run_replaceDir (s : State V) (ho : (s .old).isFile = false) (hf : (s .final).isFile = false)
    (d : DirC V) (ht : s .tmp = .dir d) :
    ∃ t, run replaceDir s = .ok t ∧ t .final = .dir d ∧ t .old = .absent ∧ t .tmp = .absent ∧
      ∀ r, r ≠ .final → r ≠ .old → r ≠ .tmp → t r = s r := by
  obtain ⟨t, h1, h2, h3, h4⟩ := run_removeDir s ho hf
  have htt : t .tmp = .dir d := by rw [h4 _ (by decide) (by decide)]; exact ht
  refine ⟨(t.set .final (.dir d)).set .tmp .absent, ?_, ?_, ?_, ?_, ?_⟩
  · unfold replaceDir
    rw [run_append, h1]
    simp [run, gstep, always, Guard.holds, step, htt, h2]
  · simp [State.set]
  · simp [State.set, h3]
  · simp [State.set]
  · intro r a b c; simp [State.set, a, c, h4 r a b]

theorem allKeeps_removeDir : allKeeps (removeDir : Proto V) = true := rfl

/-- `_replace_dir` never shows anything but the previous result, nothing, or the staged directory -/
theorem safe_replaceDir {A : Node V → Prop} (hA : A .absent) (s : State V)
    (ho : (s .old).isFile = false) (hf : (s .final).isFile = false)
    (hs : A (s .final)) (ht : A (s .tmp)) : Safe A replaceDir s := by
  unfold replaceDir
  apply safe_append (safe_keeps hA _ allKeeps_removeDir s hs)
  intro s₁ h₁
  obtain ⟨t, h1, h2, h3, h4⟩ := run_removeDir s ho hf
  rw [h1] at h₁; cases h₁
  apply safe_publish
  · rw [h2]; exact hA
  · rw [h4 _ (by decide) (by decide)]; exact ht
  · rw [h2]; rfl

/-- a directory is filled in `<key>_tmp`, then published -/
theorem safe_fill_replaceDir {A : Node V → Prop} (hA : A .absent) (v : V) (hv : A (.dir (.complete v)))
    (s : State V) (ho : (s .old).isFile = false) (hf : (s .final).isFile = false)
    (ht : (s .tmp).isFile = false) (hs : A (s .final)) :
    Safe A (always (.writeAll .tmp v) :: replaceDir) s := by
  have : (always (.writeAll .tmp v) :: replaceDir : Proto V) = [always (.writeAll .tmp v)] ++ replaceDir := rfl
  rw [this]
  apply safe_append (safe_keeps hA _ rfl s hs)
  intro s₁ h₁
  cases e : s .tmp with
  | absent => simp [run, gstep, always, Guard.holds, step, e] at h₁
  | file c => rw [e] at ht; simp [Node.isFile] at ht
  | dir d =>
    simp only [run, gstep, always, Guard.holds, step, e, if_true] at h₁
    cases h₁
    apply safe_replaceDir hA
    · rw [set_other _ _ (by decide)]; exact ho
    · rw [set_other _ _ (by decide)]; exact hf
    · rw [set_other _ _ (by decide)]; exact hs
    · rw [set_same]; exact hv

/-- a file is written under its temporary name, then moved into place -/
theorem safe_fileSave {A : Node V → Prop} (hA : A .absent) (v : V) (hv : A (.file (.complete v)))
    (s : State V) (hf : (s .final).isDir = false) (hs : A (s .final)) :
    Safe A [always (.openTrunc .tmp), always (.writeAll .tmp v), always (.move .tmp .final)] s := by
  have : ([always (.openTrunc .tmp), always (.writeAll .tmp v), always (.move .tmp .final)] : Proto V) =
      [always (.openTrunc .tmp), always (.writeAll .tmp v)] ++ [always (.move .tmp .final)] := rfl
  rw [this]
  apply safe_append (safe_keeps hA _ rfl s hs)
  intro s₁ h₁
  cases e : s .tmp <;>
    simp only [run, gstep, always, Guard.holds, step, e, if_true, set_same] at h₁ <;>
    first
    | (cases h₁
       apply safe_publish
       · simp only [State.set]; simpa using hs
       · simp only [State.set]; simpa using hv
       · simp only [State.set]; simpa using hf)
    | cases h₁

/-! ### a role that is never removed stays present -/

/-- the primitive does not remove or rename away role `r` -/
def Prim.keepsPresent (r : Role) : Prim V → Bool
  | .rmtree a | .unlink a | .rename a _ | .move a _ => a != r
  | _ => true

def allKeepPresent (r : Role) (l : Proto V) : Bool := l.all (fun g => g.prim.keepsPresent r)

theorem step_keepsPresent (r : Role) (p : Prim V) (s t : State V) (hp : p.keepsPresent r = true)
    (hs : (s r).present = true) (h : step p s = .ok t) : (t r).present = true := by
  cases p with
  | openTrunc a =>
    simp only [step] at h
    split at h
    · cases h
    · cases h; by_cases e : r = a
      · subst e; simp [Node.present]
      · rw [set_other _ _ e]; exact hs
  | writeAll a v =>
    simp only [step] at h
    split at h <;> first | cases h | skip
    all_goals
      by_cases e : r = a
      · subst e; simp [Node.present]
      · rw [set_other _ _ e]; exact hs
  | writePart a =>
    simp only [step] at h
    split at h <;> first | cases h | skip
    all_goals
      by_cases e : r = a
      · subst e; simp [Node.present]
      · rw [set_other _ _ e]; exact hs
  | rename a b =>
    have hra : r ≠ a := by intro e; subst e; simp [Prim.keepsPresent] at hp
    simp only [step] at h
    by_cases e : a = b
    · simp only [e, if_true] at h; cases h; exact hs
    · simp only [e, if_false] at h
      cases ha : s a <;> cases hb : s b <;> rw [ha, hb] at h <;> simp at h
      all_goals
        subst h
        rw [set_other _ _ hra]
        by_cases e' : r = b
        · subst e'; simp [Node.present]
        · rw [set_other _ _ e']; exact hs
  | move a b =>
    have hra : r ≠ a := by intro e; subst e; simp [Prim.keepsPresent] at hp
    simp only [step] at h
    by_cases e : a = b
    · simp only [e, if_true] at h; cases h; exact hs
    · simp only [e, if_false] at h
      cases ha : s a <;> cases hb : s b <;> rw [ha, hb] at h <;> simp at h
      all_goals
        subst h
        rw [set_other _ _ hra]
        by_cases e' : r = b
        · subst e'; simp [Node.present]
        · rw [set_other _ _ e']; exact hs
  | rmtree a =>
    have hra : r ≠ a := by intro e; subst e; simp [Prim.keepsPresent] at hp
    simp only [step] at h
    split at h <;> first | cases h | skip
    rw [set_other _ _ hra]; exact hs
  | mkdir a =>
    simp only [step] at h
    split at h <;> first | cases h | skip
    by_cases e : r = a
    · subst e; simp [Node.present]
    · rw [set_other _ _ e]; exact hs
  | unlink a =>
    have hra : r ≠ a := by intro e; subst e; simp [Prim.keepsPresent] at hp
    simp only [step] at h
    split at h <;> first | cases h | skip
    rw [set_other _ _ hra]; exact hs

theorem half_keepsPresent (r : Role) (p : Prim V) (s t : State V)
    (hs : (s r).present = true) (h : t ∈ half p s) : (t r).present = true := by
  have key : ∀ a n, n.present = true → t = s.set a n → (t r).present = true := by
    intro a n hn e; subst e
    by_cases e' : r = a
    · subst e'; rw [set_same]; exact hn
    · rw [set_other _ _ e']; exact hs
  cases p with
  | writeAll a v => simp only [half] at h; split at h <;> simp at h <;> exact key _ _ rfl h
  | writePart a => simp only [half] at h; split at h <;> simp at h <;> exact key _ _ rfl h
  | rmtree a => simp only [half] at h; split at h <;> simp at h <;> exact key _ _ rfl h
  | openTrunc a => simp [half] at h
  | rename a b => simp [half] at h
  | move a b => simp [half] at h
  | mkdir a => simp [half] at h
  | unlink a => simp [half] at h

/-- a protocol that never removes, unlinks or renames away role `r` keeps it present at every crash
point (a crash inside a write leaves it torn or partial, but there) -/
theorem crashStates_keepPresent (r : Role) (l : Proto V) (hl : allKeepPresent r l = true) :
    ∀ (s t : State V), (s r).present = true → t ∈ crashStates l s → (t r).present = true := by
  induction l with
  | nil => intro s t hs h; simp at h; subst h; exact hs
  | cons g gs ih =>
    intro s t hs h
    simp only [allKeepPresent, List.all_cons, Bool.and_eq_true] at hl
    rw [mem_crashStates_cons] at h
    rcases h with h | h | ⟨s', hg, h⟩
    · subst h; exact hs
    · unfold ghalf at h
      split at h
      · exact half_keepsPresent r _ _ _ hs h
      · cases h
    · refine ih hl.2 s' t ?_ h
      unfold gstep at hg
      split at hg
      · exact step_keepsPresent r _ _ _ hl.1 hs hg
      · cases hg; exact hs

/-! ### typing of the request protocols -/

theorem allTyped_append (K : Kind) (l₁ l₂ : Proto V) :
    allTyped K (l₁ ++ l₂) = (allTyped K l₁ && allTyped K l₂) := by
  simp [allTyped, List.all_append]

theorem allKeeps_append (l₁ l₂ : Proto V) : allKeeps (l₁ ++ l₂) = (allKeeps l₁ && allKeeps l₂) := by
  simp [allKeeps, List.all_append]

theorem allTyped_initP (K : Kind) : allTyped K (initP K : Proto V) = true := by
  cases K <;> rfl

theorem allKeeps_initP (K : Kind) : allKeeps (initP K : Proto V) = true := by
  cases K <;> rfl

theorem allTyped_computeP (K : Kind) (v : V) (fin : Bool) (f : Fault) :
    allTyped K (computeP K v fin f) = true := by
  cases K <;> cases fin <;> cases f <;> first | rfl | (rename_i w; cases w <;> rfl)

theorem allTyped_requestP (K : Kind) (v : V) (fin : Bool) (f : Fault) (forced : Bool) (s : State V) :
    allTyped K (requestP K v fin f forced s) = true := by
  unfold requestP
  rw [allTyped_append, allTyped_initP]
  split
  · rfl
  · simp [allTyped_computeP]

theorem allTyped_deleteP (K : Kind) : allTyped K (deleteP K : Proto V) = true := by
  cases K <;> rfl

theorem allKeeps_deleteP (K : Kind) : allKeeps (deleteP K : Proto V) = true := by
  cases K <;> rfl

end TCV.FS
