import TCV.Model.Names
namespace TCV.Names

theorem find?_perm {α} (p : α → Bool) {l l' : List α} (hp : l.Perm l')
    (huniq : ∀ a b, a ∈ l → b ∈ l → p a = true → p b = true → a = b) : l.find? p = l'.find? p := by
  cases h : l.find? p with
  | some a =>
    have ha := List.find?_some h
    have hal := List.mem_of_find?_eq_some h
    cases h' : l'.find? p with
    | some b =>
      have hb := List.find?_some h'
      have hbl := hp.symm.subset (List.mem_of_find?_eq_some h')
      rw [huniq a b hal hbl ha hb]
    | none =>
      have := List.find?_eq_none.mp h' a (hp.subset hal)
      simp [ha] at this
  | none =>
    have hn := List.find?_eq_none.mp h
    symm
    apply List.find?_eq_none.mpr
    intro x hx
    exact hn x (hp.symm.subset hx)

theorem all_perm {α} (p : α → Bool) {l l' : List α} (hp : l.Perm l') : l.all p = l'.all p := by
  rw [Bool.eq_iff_iff]
  simp only [List.all_eq_true]
  exact ⟨fun h x hx => h x (hp.symm.subset hx), fun h x hx => h x (hp.subset hx)⟩

theorem contains_perm {α} [BEq α] [LawfulBEq α] (a : α) {l l' : List α} (hp : l.Perm l') :
    l.contains a = l'.contains a := by
  rw [Bool.eq_iff_iff]
  simp only [List.contains_iff_mem]
  exact ⟨fun h => hp.subset h, fun h => hp.symm.subset h⟩

theorem lessNestedOf_length {c t : Str} (h : lessNestedOf c t = true) : t = c ∨ c.length + 1 ≤ t.length := by
  unfold lessNestedOf at h
  simp only [Bool.or_eq_true, beq_iff_eq] at h
  rcases h with h | h
  · exact Or.inl h
  · right
    have := List.IsSuffix.length_le (List.isSuffixOf_iff_suffix.mp h)
    simpa using this

theorem lessNestedOf_antisymm {c d : Str} (h1 : lessNestedOf c d = true) (h2 : lessNestedOf d c = true) : c = d := by
  rcases lessNestedOf_length h1 with h | h
  · exact h.symm
  · rcases lessNestedOf_length h2 with h' | h'
    · exact h'
    · omega

theorem nameMatch_self (d : Bool) (n : Str) : nameMatch d n n = true := by
  simp [nameMatch]

end TCV.Names
