import TCV.Model.Glue
import TCV.Lemmas.Sort
import TCV.Lemmas.ParMap
/-! helper lemmas for C06: json-lines framing, decimal file names, numeric ordering -/
namespace TCV.Glue

/-! ### lines -/

theorem universalNewlinesAux_id (s : Str) (h : '\r' ∉ s) : ∀ b, (b = true → s.head? ≠ some '\n') →
    universalNewlinesAux b s = s := by
  induction s with
  | nil => intro b _; rfl
  | cons c cs ih =>
    intro b hb
    have hc : c ≠ '\r' := by intro e; exact h (by simp [e])
    have hcs : '\r' ∉ cs := by intro e; exact h (List.mem_cons_of_mem _ e)
    simp only [universalNewlinesAux, hc, if_false]
    split
    · rename_i hh
      exact absurd (by simp [hh.1]) (hb hh.2)
    · rw [ih hcs false (by intro e; cases e)]

theorem universalNewlines_id (s : Str) (h : '\r' ∉ s) : universalNewlines s = s :=
  universalNewlinesAux_id s h false (by intro e; cases e)

theorem splitLinesAux_line (s rest cur : Str) (h : '\n' ∉ s) :
    splitLinesAux (s ++ '\n' :: rest) cur = (cur.reverse ++ s ++ ['\n']) :: splitLinesAux rest [] := by
  induction s generalizing cur with
  | nil => simp [splitLinesAux]
  | cons c cs ih =>
    have hc : c ≠ '\n' := by intro e; exact h (by simp [e])
    have hcs : '\n' ∉ cs := by intro e; exact h (List.mem_cons_of_mem _ e)
    simp only [List.cons_append, splitLinesAux, hc, if_false]
    rw [ih (c :: cur) hcs]
    simp

theorem splitLines_writeJsons {α} (enc : α → Str) (xs : List α) (h : ∀ x ∈ xs, '\n' ∉ enc x) :
    splitLinesAux (writeJsons enc xs) [] = xs.map (fun x => enc x ++ ['\n']) := by
  induction xs with
  | nil => simp [writeJsons, splitLinesAux]
  | cons x xs ih =>
    have hx := h x (by simp)
    have : writeJsons enc (x :: xs) = enc x ++ '\n' :: writeJsons enc xs := by
      simp [writeJsons]
    rw [this, splitLinesAux_line _ _ _ hx, ih (fun y hy => h y (List.mem_cons_of_mem _ hy))]
    simp

theorem writeJsons_noCR {α} (enc : α → Str) (xs : List α) (h : ∀ x ∈ xs, '\r' ∉ enc x) :
    '\r' ∉ writeJsons enc xs := by
  induction xs with
  | nil => simp [writeJsons]
  | cons x xs ih =>
    have : writeJsons enc (x :: xs) = enc x ++ '\n' :: writeJsons enc xs := by simp [writeJsons]
    rw [this]
    intro hm
    rcases List.mem_append.mp hm with h1 | h1
    · exact h x (by simp) h1
    · rcases List.mem_cons.mp h1 with h2 | h2
      · cases h2
      · exact ih (fun y hy => h y (List.mem_cons_of_mem _ hy)) h2

/-- a text that does not begin or end with white space, followed by `\n`, strips back to itself -/
theorem strip_line (isSpace : Char → Bool) (hnl : isSpace '\n' = true) (s : Str) (hne : s ≠ [])
    (hfirst : ∀ c, s.head? = some c → isSpace c = false) (hlast : ∀ c, s.getLast? = some c → isSpace c = false) :
    strip isSpace (s ++ ['\n']) = s := by
  unfold strip
  cases s with
  | nil => exact absurd rfl hne
  | cons c cs =>
    have h1 : isSpace c = false := hfirst c rfl
    have hd : ((c :: cs) ++ ['\n']).dropWhile isSpace = (c :: cs) ++ ['\n'] := by
      simp [h1]
    rw [hd]
    have hr : ((c :: cs) ++ ['\n']).reverse = '\n' :: (c :: cs).reverse := by simp
    rw [hr]
    have hl : (c :: cs).reverse ≠ [] := by simp
    obtain ⟨l, ls, hls⟩ : ∃ l ls, (c :: cs).reverse = l :: ls := by
      cases hrev : (c :: cs).reverse with
      | nil => exact absurd hrev hl
      | cons l ls => exact ⟨l, ls, rfl⟩
    have hlast' : isSpace l = false := by
      apply hlast l
      have : (c :: cs).getLast? = (c :: cs).reverse.head? := (List.head?_reverse).symm
      rw [this, hls]; rfl
    rw [hls]
    simp only [List.dropWhile, hnl, hlast']
    rw [← hls]; simp

/-! ### decimal names -/

theorem digitChar_val (d : Nat) (h : d < 10) :
    ('0' ≤ digitChar d ∧ digitChar d ≤ '9') ∧ (digitChar d).toNat - 48 = d := by
  have : d = 0 ∨ d = 1 ∨ d = 2 ∨ d = 3 ∨ d = 4 ∨ d = 5 ∨ d = 6 ∨ d = 7 ∨ d = 8 ∨ d = 9 := by omega
  rcases this with rfl | rfl | rfl | rfl | rfl | rfl | rfl | rfl | rfl | rfl <;> decide

theorem digitChar_ne_dot (d : Nat) (h : d < 10) : digitChar d ≠ '.' := by
  have : d = 0 ∨ d = 1 ∨ d = 2 ∨ d = 3 ∨ d = 4 ∨ d = 5 ∨ d = 6 ∨ d = 7 ∨ d = 8 ∨ d = 9 := by omega
  rcases this with rfl | rfl | rfl | rfl | rfl | rfl | rfl | rfl | rfl | rfl <;> decide

theorem parseNatAux_append (s t : Str) (acc : Nat) :
    parseNatAux (s ++ t) acc = (parseNatAux s acc).bind (fun a => parseNatAux t a) := by
  induction s generalizing acc with
  | nil => simp [parseNatAux]
  | cons c cs ih =>
    simp only [List.cons_append, parseNatAux]
    split
    · exact ih _
    · rfl

theorem parseNatAux_digits (fuel n : Nat) (h : n < fuel) (acc : Nat) :
    parseNatAux (digitsAux fuel n) acc = some (acc * 10 ^ (digitsAux fuel n).length + n) ∧ digitsAux fuel n ≠ [] := by
  induction fuel generalizing n acc with
  | zero => omega
  | succ f ih =>
    simp only [digitsAux]
    split
    · rename_i hlt
      obtain ⟨⟨h1, h2⟩, h3⟩ := digitChar_val n hlt
      simp [parseNatAux, h1, h2, h3]
    · rename_i hge
      have hdiv : n / 10 < f := by omega
      obtain ⟨ih1, ih2⟩ := ih (n / 10) hdiv acc
      obtain ⟨⟨h1, h2⟩, h3⟩ := digitChar_val (n % 10) (Nat.mod_lt _ (by decide))
      refine ⟨?_, by simp⟩
      rw [parseNatAux_append, ih1]
      simp only [Option.bind_some, parseNatAux, h1, h2, and_self, if_true, h3, List.length_append,
        List.length_singleton, Nat.pow_succ]
      congr 1
      have := Nat.div_add_mod n 10
      rw [Nat.add_mul, Nat.mul_assoc]
      omega

/-- `int(str(i)) = i` -/
theorem parseNat_digits (n : Nat) : parseNat (digits n) = some n := by
  obtain ⟨h1, h2⟩ := parseNatAux_digits (n + 1) n (by omega) 0
  unfold parseNat digits
  simp [h2, h1]

theorem digitsAux_noDot (fuel n : Nat) : '.' ∉ digitsAux fuel n := by
  induction fuel generalizing n with
  | zero => simp [digitsAux]
  | succ f ih =>
    simp only [digitsAux]
    split
    · rename_i hlt
      simp only [List.mem_singleton]
      exact fun e => digitChar_ne_dot n hlt e.symm
    · intro hm
      rcases List.mem_append.mp hm with h | h
      · exact ih _ h
      · simp only [List.mem_singleton] at h
        exact digitChar_ne_dot (n % 10) (Nat.mod_lt _ (by decide)) h.symm

theorem beforeDot_append (s t : Str) (h : '.' ∉ s) : beforeDot (s ++ '.' :: t) = s := by
  induction s with
  | nil => simp [beforeDot]
  | cons c cs ih =>
    have hc : c ≠ '.' := by intro e; exact h (by simp [e])
    simp only [List.cons_append, beforeDot, hc, if_false]
    rw [ih (fun e => h (List.mem_cons_of_mem _ e))]

/-- the sort key of `f'{i}.npy'` is `i` -/
theorem fileKey_fileName (i : Nat) : fileKey (fileName i) = some i := by
  unfold fileKey fileName
  have : digits i ++ ".npy".toList = digits i ++ '.' :: "npy".toList := rfl
  rw [this, beforeDot_append (digits i) _ (digitsAux_noDot _ _)]
  exact parseNat_digits i

theorem endsWithNpy_fileName (i : Nat) : endsWithNpy (fileName i) = true := by
  unfold endsWithNpy fileName
  simp [List.isSuffixOf_iff_suffix]

/-! ### ordering -/

theorem mapM_option_all {α β} (f : α → Option β) (g : α → β) (l : List α) (h : ∀ a ∈ l, f a = some (g a)) :
    l.mapM f = some (l.map g) := by
  induction l with
  | nil => rfl
  | cons a as ih =>
    simp [List.mapM_cons, h a (by simp), ih (fun b hb => h b (List.mem_cons_of_mem _ hb))]

theorem mapM_except_all {α β ε} (f : α → Except ε β) (g : α → β) (l : List α) (h : ∀ a ∈ l, f a = .ok (g a)) :
    l.mapM f = .ok (l.map g) := by
  induction l with
  | nil => rfl
  | cons a as ih =>
    simp only [List.mapM_cons, h a (by simp), ih (fun b hb => h b (List.mem_cons_of_mem _ hb))]
    rfl

theorem mapM_map' {α β γ ε} (h : α → β) (f : β → Except ε γ) (l : List α) :
    (l.map h).mapM f = l.mapM (fun x => f (h x)) := by
  induction l with
  | nil => rfl
  | cons a as ih => simp only [List.map_cons, List.mapM_cons, ih]

/-- sorting any permutation of an index-tagged list by the index restores the list (shared with C17) -/
theorem isort_index_restores {β} (ys : List β) (l : List (Nat × β))
    (hp : l.Perm (ys.zipIdx.map (fun p => (p.2, p.1)))) :
    isort (fun a b : Nat × β => decide (a.1 ≤ b.1)) l = ys.zipIdx.map (fun p => (p.2, p.1)) := by
  have htot : ∀ a b : Nat × β, (decide (a.1 ≤ b.1) || decide (b.1 ≤ a.1)) = true := by
    intro a b; simp; omega
  have htr : ∀ a b c : Nat × β, decide (a.1 ≤ b.1) = true → decide (b.1 ≤ c.1) = true → decide (a.1 ≤ c.1) = true := by
    intro a b c h1 h2; simp at *; omega
  have hp2 := (isort_perm (fun a b : Nat × β => decide (a.1 ≤ b.1)) l).trans hp
  exact List.Perm.eq_of_pairwise (le := fun a b : Nat × β => (decide (a.1 ≤ b.1)) = true)
    (by
      intro a b ha hb h1 h2
      have ha' := hp2.subset ha
      simp at h1 h2
      exact TCV.ParMap.zipIdx_swap_fst_inj _ 0 a b ha' hb (by omega))
    (isort_pairwise _ htot htr l) (TCV.ParMap.zipIdx_swap_pairwise ys 0) hp2

end TCV.Glue
