import TCV.Model.Key
import TCV.Lemmas.Sort
/-! lemmas about the string order, sorting of items and the key text (used by C02/C03) -/
namespace TCV.PVal

theorem strLe_total : ∀ a b : Str, (strLe a b || strLe b a) = true
  | [], _ => by simp [strLe]
  | _ :: _, [] => by simp [strLe]
  | a :: as, b :: bs => by
    simp only [strLe]
    by_cases h1 : a.toNat < b.toNat
    · simp [h1]
    · by_cases h2 : b.toNat < a.toNat
      · simp [h1, h2]
      · simp [h1, h2]; simpa using strLe_total as bs

theorem strLe_trans : ∀ a b c : Str, strLe a b = true → strLe b c = true → strLe a c = true
  | [], _, _, _, _ => by simp [strLe]
  | _ :: _, [], _, h, _ => by simp [strLe] at h
  | _ :: _, _ :: _, [], _, h => by simp [strLe] at h
  | a :: as, b :: bs, c :: cs, h1, h2 => by
    simp only [strLe] at *
    by_cases hab : a.toNat < b.toNat
    · by_cases hbc : b.toNat < c.toNat
      · have : a.toNat < c.toNat := by omega
        simp [this]
      · by_cases hcb : c.toNat < b.toNat
        · simp [hbc, hcb] at h2
        · have : a.toNat < c.toNat := by omega
          simp [this]
    · by_cases hba : b.toNat < a.toNat
      · simp [hab, hba] at h1
      · simp only [hab, hba, if_false] at h1
        by_cases hbc : b.toNat < c.toNat
        · have : a.toNat < c.toNat := by omega
          simp [this]
        · by_cases hcb : c.toNat < b.toNat
          · simp [hbc, hcb] at h2
          · simp only [hbc, hcb, if_false] at h2
            have e1 : ¬ a.toNat < c.toNat := by omega
            have e2 : ¬ c.toNat < a.toNat := by omega
            simp only [e1, e2, if_false]
            exact strLe_trans as bs cs h1 h2

theorem strLe_antisymm : ∀ a b : Str, strLe a b = true → strLe b a = true → a = b
  | [], [], _, _ => rfl
  | [], _ :: _, _, h => by simp [strLe] at h
  | _ :: _, [], h, _ => by simp [strLe] at h
  | a :: as, b :: bs, h1, h2 => by
    simp only [strLe] at h1 h2
    by_cases hab : a.toNat < b.toNat
    · have : ¬ b.toNat < a.toNat := by omega
      simp [hab, this] at h2
    · by_cases hba : b.toNat < a.toNat
      · simp [hab, hba] at h1
      · simp only [hab, hba, if_false] at h1 h2
        have : a = b := Char.toNat_inj.mp (by omega)
        rw [this, strLe_antisymm as bs h1 h2]

/-- sorting by a string-valued key does not depend on the input order when the keys are unique -/
theorem isort_key_perm {α} (key : α → Str) (l l' : List α) (hp : l.Perm l')
    (huniq : ∀ a b, a ∈ l → b ∈ l → key a = key b → a = b) :
    isort (fun a b => strLe (key a) (key b)) l = isort (fun a b => strLe (key a) (key b)) l' :=
  isort_eq_of_perm (fun a b => strLe (key a) (key b)) (fun a b => strLe_total (key a) (key b))
    (fun a b c => strLe_trans (key a) (key b) (key c)) l l' hp
    (fun a b ha hb h1 h2 => huniq a b ha hb (strLe_antisymm _ _ h1 h2))

theorem canonL_eq_map : ∀ xs : List PVal, canonL xs = xs.map canon
  | [] => rfl
  | x :: r => by simp [canonL, canonL_eq_map r]

theorem canonD_eq_map : ∀ kvs : List (Str × PVal), canonD kvs = kvs.map (fun kv => (kv.1, canon kv.2))
  | [] => rfl
  | (k, v) :: r => by simp [canonD, canonD_eq_map r]

theorem filterMap_insertBy_none {α β} (le : α → α → Bool) (f : α → Option β) (x : α) (hx : f x = none) :
    ∀ l : List α, (insertBy le x l).filterMap f = l.filterMap f
  | [] => by simp [insertBy, hx]
  | y :: ys => by
    simp only [insertBy]
    split
    · simp [List.filterMap_cons, hx]
    · simp only [List.filterMap_cons]
      rw [filterMap_insertBy_none le f x hx ys]

end TCV.PVal
