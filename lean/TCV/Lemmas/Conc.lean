import TCV.Model.Conc
/-!
# Lemmas for M-Conc: `step` = `Step`, runs are reachability, and the inductive invariant of the
repaired (`atomic`) protocol.
-/
namespace TCV.Conc

theorem upd_same (s : St) (t : Nat) (x : Th) : upd s t x t = x := by simp [upd]
theorem upd_other (s : St) (t u : Nat) (x : Th) (h : u ≠ t) : upd s t x u = s.th u := by simp [upd, h]

/-! ### the executable step function is the step relation -/

theorem step_sound {m : Mode} {s s' : St} {t : Nat} (h : step m s t = some s') : Step m s t s' := by
  unfold step at h
  simp only at h
  split at h
  · rename_i hp
    split at h
    · rename_i hl; cases h; exact Step.acquire1 s t hp hl
    · cases h
  · rename_i hp; cases h; exact Step.check s t hp
  · rename_i ex hp; cases h; exact Step.release1 s t ex hp
  · rename_i hp
    split at h
    · rename_i v hf; cases h; exact Step.load s t v hp hf
    · rename_i hf; cases h; exact Step.loadFail s t hp (fun v hv => hf v hv)
  · rename_i hp
    split at h
    · rename_i hl; cases h; exact Step.acquire2 s t hp hl
    · cases h
  · rename_i hp
    split at h
    · rename_i hr; cases h; exact Step.computeRaise s t hp hr
    · rename_i hr; cases h; exact Step.compute s t hp (by simpa using hr)
  · rename_i v hp
    split at h
    · cases h; exact Step.openTmp s t v rfl hp
    · cases h; exact Step.truncate s t v rfl hp
  · rename_i v hp; cases h; exact Step.writeTmp s t v hp
  · rename_i v hp; cases h; exact Step.replace s t v hp
  · rename_i v hp; cases h; exact Step.writeInPlace s t v hp
  · rename_i v hp; cases h; exact Step.release2 s t v hp
  · rename_i hp; cases h; exact Step.releaseRaise s t hp
  · cases h

theorem step_complete {m : Mode} {s s' : St} {t : Nat} (h : Step m s t s') : step m s t = some s' := by
  cases h with
  | acquire1 h hl => simp [step, h, hl]
  | check h => simp [step, h]
  | release1 ex h => simp [step, h]
  | load v h hf => simp [step, h, hf]
  | loadFail h hf =>
    cases hfile : s.file with
    | entry v => exact absurd hfile (hf v)
    | absent => simp [step, h, hfile]
    | torn => simp [step, h, hfile]
  | acquire2 h hl => simp [step, h, hl]
  | compute h hr => simp [step, h, hr]
  | computeRaise h hr => simp [step, h, hr]
  | openTmp v hm h => subst hm; simp [step, h]
  | writeTmp v h => simp [step, h]
  | replace v h => simp [step, h]
  | truncate v hm h => subst hm; simp [step, h]
  | writeInPlace v h => simp [step, h]
  | release2 v h => simp [step, h]
  | releaseRaise h => simp [step, h]

theorem step_iff {m : Mode} {s s' : St} {t : Nat} : step m s t = some s' ↔ Step m s t s' :=
  ⟨step_sound, step_complete⟩

theorem reach_trans {m : Mode} {a b c : St} (h1 : Reach m a b) (h2 : Reach m b c) : Reach m a c := by
  induction h2 with
  | refl => exact h1
  | step _ hs ih => exact Reach.step ih hs

/-- a successful scheduler-driven run is an execution of the step relation -/
theorem run_reach {m : Mode} : ∀ (sched : List Nat) {s s' : St}, run m s sched = some s' → Reach m s s' := by
  intro sched
  induction sched with
  | nil => intro s s' h; simp [run] at h; subst h; exact Reach.refl
  | cons t rest ih =>
    intro s s' h
    simp only [run] at h
    split at h
    · cases h
    · rename_i s1 hs1
      exact reach_trans (Reach.step Reach.refl (step_sound hs1)) (ih h)

/-- and every execution is the run of some schedule -/
theorem reach_run {m : Mode} {s s' : St} (h : Reach m s s') : ∃ sched, run m s sched = some s' := by
  induction h with
  | refl => exact ⟨[], rfl⟩
  | @step _ _ t _ hs ih =>
    obtain ⟨sched, hr⟩ := ih
    refine ⟨sched ++ [t], ?_⟩
    have : ∀ (l : List Nat) (a b : St) (t : Nat), run m a l = some b → ∀ c, step m b t = some c → run m a (l ++ [t]) = some c := by
      intro l
      induction l with
      | nil => intro a b t h c hc; simp [run] at h; subst h; simp [run, hc]
      | cons x r ihr =>
        intro a b t h c hc
        simp only [run] at h
        split at h
        · cases h
        · rename_i a1 ha1
          simp only [List.cons_append, run, ha1]
          exact ihr a1 b t h c hc
    exact this sched _ _ _ hr _ (step_complete hs)

/-! ### the invariant of the repaired protocol -/

/-- program counters before the computer has been called -/
def preCompute : PC → Bool
  | .start | .inL1 | .checked _ | .loading | .wantL2 | .inL2 => true
  | _ => false

/-- program counters on the compute-and-store path -/
def onWritePath : PC → Bool
  | .wantL2 | .inL2 | .computed _ | .tmpOpen _ | .tmpWritten _ | .truncated _ | .saved _ | .raisedIn => true
  | _ => false

structure Inv (s : St) : Prop where
  noTorn : s.file ≠ .torn
  fileComplete : ∀ v, s.file = .entry v → v < s.fresh
  retPresent : s.returned = true → s.file.present = true
  sawPresent : ∀ t, ((s.th t).pc = .checked true ∨ (s.th t).pc = .loading) → s.file.present = true
  lockOwner : ∀ t, holds (s.th t).pc = true → s.lock = some t
  lateRet : ∀ t, (s.th t).late = true → (s.th t).pc ≠ .start → s.returned = true
  lateSees : ∀ t ex, (s.th t).late = true → (s.th t).pc = .checked ex → ex = true
  lateNoCompute : ∀ t r, (s.th t).late = true → (s.th t).kind = .goc false r →
      onWritePath (s.th t).pc = false ∧ (s.th t).ncomp = 0
  pending : ∀ t v, ((s.th t).pc = .computed v ∨ (s.th t).pc = .tmpOpen v ∨ (s.th t).pc = .tmpWritten v ∨
      (s.th t).pc = .saved v ∨ (s.th t).pc = .done (.val v)) → v < s.fresh
  tmpOK : ∀ t v, (s.th t).pc = .tmpWritten v → s.tmp = .entry v
  savedPresent : ∀ t v, (s.th t).pc = .saved v → s.file.present = true
  ncompPre : ∀ t, preCompute (s.th t).pc = true → (s.th t).ncomp = 0
  ncompLe : ∀ t, (s.th t).ncomp ≤ 1
  notFailed : ∀ t, (s.th t).failed = false
  noTrunc : ∀ t v, (s.th t).pc ≠ .truncated v

theorem inv_init {s : St} (h : Init s) : Inv s := by
  obtain ⟨hp, hg, hl, hf, hr⟩ := h
  refine ⟨?_, ?_, ?_, ?_, ?_, ?_, ?_, ?_, ?_, ?_, ?_, ?_, ?_, ?_, ?_⟩
  · rcases hf with hf | ⟨v, hf, _⟩ <;> simp [hf]
  · intro v hv; rcases hf with hf | ⟨w, hf, hw⟩
    · simp [hf] at hv
    · rw [hf] at hv; cases hv; exact hw
  · exact hr
  · intro t h; simp [hp t] at h
  · intro t h; simp [hp t, holds] at h
  · intro t h; simp [(hg t).1] at h
  · intro t ex h; simp [(hg t).1] at h
  · intro t r h; simp [(hg t).1] at h
  · intro t v h; simp [hp t] at h
  · intro t v h; simp [hp t] at h
  · intro t v h; simp [hp t] at h
  · intro t _; exact (hg t).2.2.1
  · intro t; rw [(hg t).2.2.1]; omega
  · intro t; exact (hg t).2.1
  · intro t v; simp [hp t]

theorem inv_acquire1 {s : St} {t : Nat} (hI : Inv s) (h : (s.th t).pc = .start) (hl : s.lock = none) :
    Inv { s with lock := some t, th := upd s t { (s.th t) with pc := .inL1, late := s.returned } } := by
  obtain ⟨h1, h2, h3, h4, h5, h6, h7, h8, h9, h10, h11, h14, h15, h12, h13⟩ := hI
  refine ⟨?_, ?_, ?_, ?_, ?_, ?_, ?_, ?_, ?_, ?_, ?_, ?_, ?_, ?_, ?_⟩ <;>
    grind [upd, holds, wantsLoad, afterCheck, afterLoadFail, onWritePath, preCompute, FileSt.present]

theorem inv_check {s : St} {t : Nat} (hI : Inv s) (h : (s.th t).pc = .inL1) :
    Inv { s with th := upd s t { (s.th t) with pc := .checked s.file.present, saw := s.file.present } } := by
  obtain ⟨h1, h2, h3, h4, h5, h6, h7, h8, h9, h10, h11, h14, h15, h12, h13⟩ := hI
  refine ⟨?_, ?_, ?_, ?_, ?_, ?_, ?_, ?_, ?_, ?_, ?_, ?_, ?_, ?_, ?_⟩ <;>
    grind [upd, holds, wantsLoad, afterCheck, afterLoadFail, onWritePath, preCompute, FileSt.present]

theorem inv_load {s : St} {t : Nat} (hI : Inv s) (v : Nat) (h : (s.th t).pc = .loading) (hf : s.file = .entry v) :
    Inv { s with returned := true, th := upd s t { (s.th t) with pc := .done (.val v) } } := by
  obtain ⟨h1, h2, h3, h4, h5, h6, h7, h8, h9, h10, h11, h14, h15, h12, h13⟩ := hI
  refine ⟨?_, ?_, ?_, ?_, ?_, ?_, ?_, ?_, ?_, ?_, ?_, ?_, ?_, ?_, ?_⟩ <;>
    grind [upd, holds, wantsLoad, afterCheck, afterLoadFail, onWritePath, preCompute, FileSt.present]

theorem inv_acquire2 {s : St} {t : Nat} (hI : Inv s) (h : (s.th t).pc = .wantL2) (hl : s.lock = none) :
    Inv { s with lock := some t, th := upd s t { (s.th t) with pc := .inL2 } } := by
  obtain ⟨h1, h2, h3, h4, h5, h6, h7, h8, h9, h10, h11, h14, h15, h12, h13⟩ := hI
  refine ⟨?_, ?_, ?_, ?_, ?_, ?_, ?_, ?_, ?_, ?_, ?_, ?_, ?_, ?_, ?_⟩ <;>
    grind [upd, holds, wantsLoad, afterCheck, afterLoadFail, onWritePath, preCompute, FileSt.present]

theorem inv_compute {s : St} {t : Nat} (hI : Inv s) (h : (s.th t).pc = .inL2) (_hr : raises (s.th t).kind = false) :
    Inv { s with fresh := s.fresh + 1,
                 th := upd s t { (s.th t) with pc := .computed s.fresh, ncomp := (s.th t).ncomp + 1 } } := by
  obtain ⟨h1, h2, h3, h4, h5, h6, h7, h8, h9, h10, h11, h14, h15, h12, h13⟩ := hI
  refine ⟨?_, ?_, ?_, ?_, ?_, ?_, ?_, ?_, ?_, ?_, ?_, ?_, ?_, ?_, ?_⟩ <;>
    grind [upd, holds, wantsLoad, afterCheck, afterLoadFail, onWritePath, preCompute, FileSt.present]

theorem inv_computeRaise {s : St} {t : Nat} (hI : Inv s) (h : (s.th t).pc = .inL2) (_hr : raises (s.th t).kind = true) :
    Inv { s with th := upd s t { (s.th t) with pc := .raisedIn, ncomp := (s.th t).ncomp + 1 } } := by
  obtain ⟨h1, h2, h3, h4, h5, h6, h7, h8, h9, h10, h11, h14, h15, h12, h13⟩ := hI
  refine ⟨?_, ?_, ?_, ?_, ?_, ?_, ?_, ?_, ?_, ?_, ?_, ?_, ?_, ?_, ?_⟩ <;>
    grind [upd, holds, wantsLoad, afterCheck, afterLoadFail, onWritePath, preCompute, FileSt.present]

theorem inv_openTmp {s : St} {t : Nat} (hI : Inv s) (v : Nat) (h : (s.th t).pc = .computed v) :
    Inv { s with tmp := .torn, th := upd s t { (s.th t) with pc := .tmpOpen v } } := by
  obtain ⟨h1, h2, h3, h4, h5, h6, h7, h8, h9, h10, h11, h14, h15, h12, h13⟩ := hI
  refine ⟨?_, ?_, ?_, ?_, ?_, ?_, ?_, ?_, ?_, ?_, ?_, ?_, ?_, ?_, ?_⟩ <;>
    grind [upd, holds, wantsLoad, afterCheck, afterLoadFail, onWritePath, preCompute, FileSt.present]

theorem inv_writeTmp {s : St} {t : Nat} (hI : Inv s) (v : Nat) (h : (s.th t).pc = .tmpOpen v) :
    Inv { s with tmp := .entry v, th := upd s t { (s.th t) with pc := .tmpWritten v } } := by
  obtain ⟨h1, h2, h3, h4, h5, h6, h7, h8, h9, h10, h11, h14, h15, h12, h13⟩ := hI
  refine ⟨?_, ?_, ?_, ?_, ?_, ?_, ?_, ?_, ?_, ?_, ?_, ?_, ?_, ?_, ?_⟩ <;>
    grind [upd, holds, wantsLoad, afterCheck, afterLoadFail, onWritePath, preCompute, FileSt.present]

theorem inv_replace {s : St} {t : Nat} (hI : Inv s) (v : Nat) (h : (s.th t).pc = .tmpWritten v) :
    Inv { s with file := s.tmp, tmp := .absent, th := upd s t { (s.th t) with pc := .saved v } } := by
  have htmp := hI.tmpOK t v h
  obtain ⟨h1, h2, h3, h4, h5, h6, h7, h8, h9, h10, h11, h14, h15, h12, h13⟩ := hI
  refine ⟨?_, ?_, ?_, ?_, ?_, ?_, ?_, ?_, ?_, ?_, ?_, ?_, ?_, ?_, ?_⟩ <;>
    grind [upd, holds, wantsLoad, afterCheck, afterLoadFail, onWritePath, preCompute, FileSt.present]

theorem inv_release2 {s : St} {t : Nat} (hI : Inv s) (v : Nat) (h : (s.th t).pc = .saved v) :
    Inv { s with lock := none, returned := true, th := upd s t { (s.th t) with pc := .done (.val v) } } := by
  obtain ⟨h1, h2, h3, h4, h5, h6, h7, h8, h9, h10, h11, h14, h15, h12, h13⟩ := hI
  refine ⟨?_, ?_, ?_, ?_, ?_, ?_, ?_, ?_, ?_, ?_, ?_, ?_, ?_, ?_, ?_⟩ <;>
    grind [upd, holds, wantsLoad, afterCheck, afterLoadFail, onWritePath, preCompute, FileSt.present]

theorem inv_releaseRaise {s : St} {t : Nat} (hI : Inv s) (h : (s.th t).pc = .raisedIn) :
    Inv { s with lock := none, th := upd s t { (s.th t) with pc := .done .raised } } := by
  obtain ⟨h1, h2, h3, h4, h5, h6, h7, h8, h9, h10, h11, h14, h15, h12, h13⟩ := hI
  refine ⟨?_, ?_, ?_, ?_, ?_, ?_, ?_, ?_, ?_, ?_, ?_, ?_, ?_, ?_, ?_⟩ <;>
    grind [upd, holds, wantsLoad, afterCheck, afterLoadFail, onWritePath, preCompute, FileSt.present]

theorem inv_release1 {s : St} {t : Nat} (hI : Inv s) (ex : Bool) (h : (s.th t).pc = .checked ex) :
    Inv { s with lock := none, th := upd s t { (s.th t) with pc := afterCheck (s.th t).kind ex } } := by
  obtain ⟨h1, h2, h3, h4, h5, h6, h7, h8, h9, h10, h11, h14, h15, h12, h13⟩ := hI
  have hlate : (s.th t).late = true → ex = true := fun hl => h7 t ex hl h
  cases ex <;> cases hkind : (s.th t).kind <;>
  refine ⟨?_, ?_, ?_, ?_, ?_, ?_, ?_, ?_, ?_, ?_, ?_, ?_, ?_, ?_, ?_⟩ <;>
    grind [upd, holds, wantsLoad, afterCheck, afterLoadFail, onWritePath, preCompute, FileSt.present]

theorem inv_step {s s' : St} {t : Nat} (hI : Inv s) (hS : Step .atomic s t s') : Inv s' := by
  cases hS with
  | acquire1 h hl => exact inv_acquire1 hI h hl
  | check h => exact inv_check hI h
  | release1 ex h => exact inv_release1 hI ex h
  | load v h hf => exact inv_load hI v h hf
  | loadFail h hf =>
    exfalso
    have hp := hI.sawPresent t (Or.inr h)
    cases hfile : s.file with
    | absent => simp [hfile, FileSt.present] at hp
    | torn => exact hI.noTorn hfile
    | entry v => exact hf v hfile
  | acquire2 h hl => exact inv_acquire2 hI h hl
  | compute h hr => exact inv_compute hI h hr
  | computeRaise h hr => exact inv_computeRaise hI h hr
  | openTmp v hm h => exact inv_openTmp hI v h
  | writeTmp v h => exact inv_writeTmp hI v h
  | replace v h => exact inv_replace hI v h
  | truncate v hm h => cases hm
  | writeInPlace v h => exact absurd h (hI.noTrunc t v)
  | release2 v h => exact inv_release2 hI v h
  | releaseRaise h => exact inv_releaseRaise hI h

theorem inv_reach {s0 s : St} (h0 : Inv s0) (hr : Reach .atomic s0 s) : Inv s := by
  induction hr with
  | refl => exact h0
  | step _ hs ih => exact inv_step ih hs

/-! ### second invariant: where `NO_VALUE` and exceptions come from (uses the first: no load fails) -/

structure Inv2 (s : St) : Prop where
  sawChecked : ∀ t ex, (s.th t).pc = .checked ex → (s.th t).saw = ex
  missAbsent : ∀ t, (s.th t).pc = .done .miss → (s.th t).kind = .get ∧ (s.th t).saw = false
  raisedOwn : ∀ t, ((s.th t).pc = .raisedIn ∨ (s.th t).pc = .done .raised) → raises (s.th t).kind = true
  getNoWrite : ∀ t, (s.th t).kind = .get → onWritePath (s.th t).pc = false
  getNoComp : ∀ t, (s.th t).kind = .get → (s.th t).ncomp = 0

theorem inv2_init {s : St} (h : Init s) : Inv2 s := by
  obtain ⟨hp, hg, hl, hf, hr⟩ := h
  refine ⟨?_, ?_, ?_, ?_, ?_⟩
  · intro t ex h; simp [hp t] at h
  · intro t h; simp [hp t] at h
  · intro t h; simp [hp t] at h
  · intro t _; simp [hp t, onWritePath]
  · intro t _; exact (hg t).2.2.1

theorem inv2_step {s s' : St} {t : Nat} (hI : Inv s) (hJ : Inv2 s) (hS : Step .atomic s t s') : Inv2 s' := by
  obtain ⟨j1, j2, j3, j4, j5⟩ := hJ
  cases hS with
  | loadFail h hf =>
    exfalso
    have hp := hI.sawPresent t (Or.inr h)
    cases hfile : s.file with
    | absent => simp [hfile, FileSt.present] at hp
    | torn => exact hI.noTorn hfile
    | entry v => exact hf v hfile
  | release1 ex h =>
    have hs := j1 t ex h
    have hg := j4 t
    cases ex <;> cases hkind : (s.th t).kind <;>
      refine ⟨?_, ?_, ?_, ?_, ?_⟩ <;>
      grind [upd, wantsLoad, afterCheck, onWritePath, raises]
  | truncate v hm h => cases hm
  | writeInPlace v h => exact absurd h (hI.noTrunc t v)
  | _ =>
    refine ⟨?_, ?_, ?_, ?_, ?_⟩ <;> grind [upd, wantsLoad, afterCheck, onWritePath, raises]

theorem inv12_reach {s0 s : St} (h0 : Init s0) (hr : Reach .atomic s0 s) : Inv s ∧ Inv2 s := by
  induction hr with
  | refl => exact ⟨inv_init h0, inv2_init h0⟩
  | step _ hs ih => exact ⟨inv_step ih.1 hs, inv2_step ih.1 ih.2 hs⟩

/-! ### presence is monotone -/

theorem present_step {s s' : St} {t : Nat} (hI : Inv s) (hS : Step .atomic s t s')
    (hp : s.file.present = true) : s'.file.present = true := by
  cases hS with
  | replace v h => have := hI.tmpOK t v h; simp [this, FileSt.present]
  | truncate v hm h => cases hm
  | writeInPlace v h => simp [FileSt.present]
  | _ => exact hp

theorem present_reach {s s' : St} (hI : Inv s) (hr : Reach .atomic s s')
    (hp : s.file.present = true) : s'.file.present = true ∧ Inv s' := by
  induction hr with
  | refl => exact ⟨hp, hI⟩
  | step _ hs ih => exact ⟨present_step ih.2 hs ih.1, inv_step ih.2 hs⟩

/-- a caller that has not started while the entry is present never ends with `NO_VALUE` -/
structure NoMiss (t : Nat) (s : St) : Prop where
  present : s.file.present = true
  notFalse : (s.th t).pc ≠ .checked false
  notMiss : (s.th t).pc ≠ .done .miss

theorem noMiss_step {s s' : St} {t u : Nat} (hI : Inv s) (hN : NoMiss t s) (hS : Step .atomic s u s') :
    NoMiss t s' := by
  have hp := present_step hI hS hN.present
  obtain ⟨n1, n2, n3⟩ := hN
  refine ⟨hp, ?_, ?_⟩
  · cases hS with
    | release1 ex h =>
      cases ex <;> cases hkind : (s.th u).kind <;> grind [upd, wantsLoad, afterCheck]
    | loadFail h hf => cases hkind : (s.th u).kind <;> grind [upd, afterLoadFail]
    | _ => grind [upd, FileSt.present]
  · cases hS with
    | loadFail h hf =>
      exfalso
      have hp := hI.sawPresent u (Or.inr h)
      cases hfile : s.file with
      | absent => simp [hfile, FileSt.present] at hp
      | torn => exact hI.noTorn hfile
      | entry v => exact hf v hfile
    | release1 ex h =>
      cases ex <;> cases hkind : (s.th u).kind <;> grind [upd, wantsLoad, afterCheck]
    | _ => grind [upd, wantsLoad, afterCheck, afterLoadFail, FileSt.present]

theorem noMiss_reach {s s' : St} {t : Nat} (hI : Inv s) (hN : NoMiss t s) (hr : Reach .atomic s s') :
    NoMiss t s' ∧ Inv s' := by
  induction hr with
  | refl => exact ⟨hN, hI⟩
  | step _ hs ih => exact ⟨noMiss_step ih.2 ih.1 hs, inv_step ih.2 hs⟩

end TCV.Conc
