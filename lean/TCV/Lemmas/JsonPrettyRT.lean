import TCV.Lemmas.JsonTextRT
/-!
# the parser reads back the indent-2 form (`JSONData.save`: `orjson.dumps(v, OPT_INDENT_2 | OPT_SORT_KEYS)`)

`parseVal_encP`: for every value, nesting depth and white-space prefix the parser returns exactly the value that was written
(members in the order written), by the mutual induction of `JsonTextRT.lean` with line breaks and indentation skipped.
-/
namespace TCV.JsonText
open TCV TCV.Glue

def AllWs (w : Str) : Prop := ∀ c ∈ w, isWs c = true

theorem skipWs_prefix : ∀ (w : Str) (c : Char) (r : Str), AllWs w → isWs c = false → skipWs (w ++ c :: r) = c :: r
  | [], c, r, _, hc => skipWs_cons c r hc
  | x :: w, c, r, hw, hc => by
    have hx : isWs x = true := hw x (List.mem_cons_self ..)
    simp only [List.cons_append, skipWs, hx, if_true]
    exact skipWs_prefix w c r (fun y hy => hw y (List.mem_cons_of_mem _ hy)) hc

theorem allWs_indent (d : Nat) : AllWs (indent d) := by
  intro c hc
  simp only [indent, List.mem_replicate] at hc
  rw [hc.2]; decide

theorem allWs_nl_indent (d : Nat) : AllWs ('\n' :: indent d) := by
  intro c hc
  rcases List.mem_cons.mp hc with rfl | h
  · decide
  · exact allWs_indent d c h

theorem allWs_nil : AllWs [] := by intro c hc; cases hc

def isAtom : JVal → Bool
  | .arr _ => false
  | .obj _ => false
  | _ => true

/-- atoms are written alike in both forms -/
theorem encP_atom (d : Nat) (v : JVal) (h : isAtom v = true) : encP d v = enc v := by
  cases v with
  | arr xs => simp [isAtom] at h
  | obj kvs => simp [isAtom] at h
  | null => simp [encP, enc]
  | bool b => cases b <;> simp [encP, enc]
  | int i => simp [encP, enc]
  | float t => simp [encP, enc]
  | str s => simp [encP, enc]

/-- the first character of the indent-2 form is neither white space nor a closing bracket -/
theorem encP_head (d : Nat) (v : JVal) (h : WF v) : ∃ c r, encP d v = c :: r ∧ isWs c = false ∧ c ≠ ']' ∧ c ≠ '}' := by
  cases v with
  | arr xs =>
    cases xs with
    | nil => exact ⟨'[', [']'], by simp [encP, encPElems], by decide, by decide, by decide⟩
    | cons x t => exact ⟨'[', '\n' :: (indent (d + 1) ++ encP (d + 1) x ++ encPTail d t), by simp [encP, encPElems], by decide, by decide, by decide⟩
  | obj kvs =>
    cases kvs with
    | nil => exact ⟨'{', ['}'], by simp [encP, encPMembers], by decide, by decide, by decide⟩
    | cons kv r =>
      obtain ⟨k, x⟩ := kv
      exact ⟨'{', '\n' :: (indent (d + 1) ++ encStr k ++ ':' :: ' ' :: (encP (d + 1) x ++ encPMTail d r)), by simp [encP, encPMembers], by decide, by decide, by decide⟩
  | null => rw [encP_atom d _ rfl]; exact enc_head _ h
  | bool b => rw [encP_atom d _ rfl]; exact enc_head _ h
  | int i => rw [encP_atom d _ rfl]; exact enc_head _ h
  | float t => rw [encP_atom d _ rfl]; exact enc_head _ h
  | str s => rw [encP_atom d _ rfl]; exact enc_head _ h

theorem delim_encPTail (d : Nat) (t : List JVal) (rest : Str) : Delim (encPTail d t ++ rest) := by
  cases t with
  | nil => exact delim_cons _ _ (by decide)
  | cons y t' => exact delim_cons _ _ (by decide)

theorem delim_encPMTail (d : Nat) (t : List (Str × JVal)) (rest : Str) : Delim (encPMTail d t ++ rest) := by
  cases t with
  | nil => exact delim_cons _ _ (by decide)
  | cons y t' => obtain ⟨k, y⟩ := y; exact delim_cons _ _ (by decide)

/-- leading white space does not matter to `parseVal` -/
theorem parseVal_skip (f : Nat) (w : Str) (c : Char) (r : Str) (hw : AllWs w) (hc : isWs c = false) :
    parseVal (f + 1) (w ++ c :: r) = parseVal (f + 1) (c :: r) := by
  simp only [parseVal, skipWs_prefix w c r hw hc, skipWs_cons c r hc]

/-- the elements / members of a non-empty container, from the first one to the closing bracket -/
def bodyL (d : Nat) : List JVal → Str
  | [] => []
  | x :: t => encP (d + 1) x ++ encPTail d t
def bodyM (d : Nat) : List (Str × JVal) → Str
  | [] => []
  | (k, x) :: t => encStr k ++ ':' :: ' ' :: (encP (d + 1) x ++ encPMTail d t)

theorem need_pos (v : JVal) : 1 ≤ need v := by cases v <;> simp [need]

/-- the compact round trip behind a white-space prefix -/
theorem parseVal_atom (v : JVal) (f : Nat) (w rest : Str) (hw : WF v) (hf : need v ≤ f) (hd : Delim rest) (hws : AllWs w) :
    parseVal f (w ++ (enc v ++ rest)) = some (v, rest) := by
  cases f with
  | zero => have := need_pos v; omega
  | succ f =>
    obtain ⟨c, r, he, hcw, _, _⟩ := enc_head v hw
    have h := parseVal_enc v (f + 1) rest hw hf hd
    rw [he] at h ⊢
    rw [show w ++ (c :: r ++ rest) = w ++ c :: (r ++ rest) by simp, parseVal_skip f w c _ hws hcw]
    simpa using h

mutual
theorem parseVal_encP : ∀ (v : JVal) (d f : Nat) (w rest : Str), WF v → need v ≤ f → Delim rest → AllWs w →
    parseVal f (w ++ (encP d v ++ rest)) = some (v, rest)
  | .arr xs, d, f, w, rest, hw, hf, hd, hws => by
    cases f with
    | zero => simp [need] at hf
    | succ f =>
      have hf' : needL xs ≤ f := by simp only [need] at hf; omega
      cases xs with
      | nil =>
        have : encP d (.arr []) ++ rest = '[' :: ']' :: rest := by simp [encP, encPElems]
        rw [this, parseVal_skip f w '[' _ hws (by decide)]
        simp [parseVal, skipWs, isWs]
      | cons x t =>
        have hw' : WF x ∧ WFL t := hw
        obtain ⟨c, r, he, hcw, hb, _⟩ := encP_head (d + 1) x hw'.1
        have hcat : encP d (.arr (x :: t)) ++ rest = '[' :: ('\n' :: indent (d + 1) ++ (encP (d + 1) x ++ (encPTail d t ++ rest))) := by
          simp [encP, encPElems]
        rw [hcat, parseVal_skip f w '[' _ hws (by decide)]
        have hE := parseElems_encP (x :: t) d f [] rest (by simp) hw hf' allWs_nil
        simp only [bodyL, he, List.nil_append, List.cons_append, List.append_assoc] at hE
        -- the parser looks at the first non-blank character after `[`
        have hsk : skipWs ('\n' :: indent (d + 1) ++ (encP (d + 1) x ++ (encPTail d t ++ rest))) = c :: (r ++ (encPTail d t ++ rest)) := by
          rw [he]; exact skipWs_prefix _ c _ (allWs_nl_indent _) hcw
        simp only [parseVal, skipWs_cons _ _ (by decide : isWs '[' = false)]
        simp only [show ('[' = 'n') = False by decide, show ('[' = 't') = False by decide, show ('[' = 'f') = False by decide,
          show ('[' = '"') = False by decide, if_false, if_true, hsk, hb]
        simp [hE]
  | .obj kvs, d, f, w, rest, hw, hf, hd, hws => by
    cases f with
    | zero => simp [need] at hf
    | succ f =>
      have hf' : needM kvs ≤ f := by simp only [need] at hf; omega
      cases kvs with
      | nil =>
        have : encP d (.obj []) ++ rest = '{' :: '}' :: rest := by simp [encP, encPMembers]
        rw [this, parseVal_skip f w '{' _ hws (by decide)]
        simp [parseVal, skipWs, isWs]
      | cons kx t =>
        obtain ⟨k, x⟩ := kx
        have hcat : encP d (.obj ((k, x) :: t)) ++ rest =
            '{' :: ('\n' :: indent (d + 1) ++ ('"' :: (escStr k ++ '"' :: ':' :: ' ' :: (encP (d + 1) x ++ (encPMTail d t ++ rest))))) := by
          simp [encP, encPMembers, encStr]
        rw [hcat, parseVal_skip f w '{' _ hws (by decide)]
        have hE := parseMembers_encP ((k, x) :: t) d f [] rest (by simp) hw hf' allWs_nil
        simp only [bodyM, List.nil_append, encStr, List.cons_append, List.append_assoc] at hE
        have hsk : skipWs ('\n' :: indent (d + 1) ++ ('"' :: (escStr k ++ '"' :: ':' :: ' ' :: (encP (d + 1) x ++ (encPMTail d t ++ rest))))) =
            '"' :: (escStr k ++ '"' :: ':' :: ' ' :: (encP (d + 1) x ++ (encPMTail d t ++ rest))) :=
          skipWs_prefix _ '"' _ (allWs_nl_indent _) (by decide)
        simp only [parseVal, skipWs_cons _ _ (by decide : isWs '{' = false)]
        simp only [show ('{' = 'n') = False by decide, show ('{' = 't') = False by decide, show ('{' = 'f') = False by decide,
          show ('{' = '"') = False by decide, show ('{' = '[') = False by decide, if_false, if_true, hsk,
          show ('"' = '}') = False by decide]
        simp [hE]
  | .null, d, f, w, rest, hw, hf, hd, hws => by
    rw [encP_atom d _ rfl]
    exact parseVal_atom .null f w rest hw hf hd hws
  | .bool b, d, f, w, rest, hw, hf, hd, hws => by
    rw [encP_atom d _ rfl]
    exact parseVal_atom (.bool b) f w rest hw hf hd hws
  | .int i, d, f, w, rest, hw, hf, hd, hws => by
    rw [encP_atom d _ rfl]
    exact parseVal_atom (.int i) f w rest hw hf hd hws
  | .float t, d, f, w, rest, hw, hf, hd, hws => by
    rw [encP_atom d _ rfl]
    exact parseVal_atom (.float t) f w rest hw hf hd hws
  | .str s, d, f, w, rest, hw, hf, hd, hws => by
    rw [encP_atom d _ rfl]
    exact parseVal_atom (.str s) f w rest hw hf hd hws
theorem parseElems_encP : ∀ (xs : List JVal) (d f : Nat) (w rest : Str), xs ≠ [] → WFL xs → needL xs ≤ f → AllWs w →
    parseElems f (w ++ (bodyL d xs ++ rest)) = some (xs, rest)
  | [], _, _, _, _, hne, _, _, _ => absurd rfl hne
  | x :: t, d, f, w, rest, _, hw, hf, hws => by
    cases f with
    | zero => simp [needL] at hf
    | succ f =>
      have hw' : WF x ∧ WFL t := hw
      have hfx : need x ≤ f := by simp only [needL] at hf; omega
      have hft : needL t ≤ f := by simp only [needL] at hf; omega
      have hV := parseVal_encP x (d + 1) f w (encPTail d t ++ rest) hw'.1 hfx (delim_encPTail d t rest) hws
      simp only [bodyL, List.append_assoc, parseElems, hV]
      cases t with
      | nil =>
        have : encPTail d [] ++ rest = ('\n' :: indent d) ++ ']' :: rest := by simp [encPTail]
        rw [this, skipWs_prefix _ ']' rest (allWs_nl_indent d) (by decide)]
        simp
      | cons y t' =>
        have hE := parseElems_encP (y :: t') d f ('\n' :: indent (d + 1)) rest (by simp) hw'.2 hft (allWs_nl_indent _)
        have : encPTail d (y :: t') ++ rest = ',' :: ('\n' :: indent (d + 1) ++ (bodyL d (y :: t') ++ rest)) := by
          simp [encPTail, bodyL]
        rw [this, skipWs_cons _ _ (by decide : isWs ',' = false)]
        simpa using hE
theorem parseMembers_encP : ∀ (kvs : List (Str × JVal)) (d f : Nat) (w rest : Str), kvs ≠ [] → WFM kvs → needM kvs ≤ f → AllWs w →
    parseMembers f (w ++ (bodyM d kvs ++ rest)) = some (kvs, rest)
  | [], _, _, _, _, hne, _, _, _ => absurd rfl hne
  | (k, x) :: t, d, f, w, rest, _, hw, hf, hws => by
    cases f with
    | zero => simp [needM] at hf
    | succ f =>
      have hw' : WF x ∧ WFM t := hw
      have hfx : need x ≤ f := by simp only [needM] at hf; omega
      have hft : needM t ≤ f := by simp only [needM] at hf; omega
      have hV := parseVal_encP x (d + 1) f [' '] (encPMTail d t ++ rest) hw'.1 hfx (delim_encPMTail d t rest) (by intro c hc; simp at hc; subst hc; decide)
      have hcat : w ++ (bodyM d ((k, x) :: t) ++ rest) =
          w ++ '"' :: (escStr k ++ '"' :: (':' :: ([' '] ++ (encP (d + 1) x ++ (encPMTail d t ++ rest))))) := by
        simp [bodyM, encStr]
      rw [hcat]
      simp only [parseMembers, skipWs_prefix w '"' _ hws (by decide), if_true, parseStr_encStr,
        skipWs_cons _ _ (by decide : isWs ':' = false), hV]
      cases t with
      | nil =>
        have : encPMTail d [] ++ rest = ('\n' :: indent d) ++ '}' :: rest := by simp [encPMTail]
        rw [this, skipWs_prefix _ '}' rest (allWs_nl_indent d) (by decide)]
        simp
      | cons y t' =>
        obtain ⟨k', y⟩ := y
        have hE := parseMembers_encP ((k', y) :: t') d f ('\n' :: indent (d + 1)) rest (by simp) hw'.2 hft (allWs_nl_indent _)
        have : encPMTail d ((k', y) :: t') ++ rest = ',' :: ('\n' :: indent (d + 1) ++ (bodyM d ((k', y) :: t') ++ rest)) := by
          simp [encPMTail, bodyM]
        rw [this, skipWs_cons _ _ (by decide : isWs ',' = false)]
        simpa using hE
end

/-! ### the fuel `decode` supplies is enough for the indent-2 form too -/

mutual
theorem needP_le : ∀ (v : JVal) (d : Nat), WF v → need v ≤ (encP d v).length ∧ 1 ≤ (encP d v).length
  | .null, d, hw => by rw [encP_atom d _ rfl]; exact need_le _ hw
  | .bool b, d, hw => by rw [encP_atom d _ rfl]; exact need_le _ hw
  | .int i, d, hw => by rw [encP_atom d _ rfl]; exact need_le _ hw
  | .float t, d, hw => by rw [encP_atom d _ rfl]; exact need_le _ hw
  | .str s, d, hw => by rw [encP_atom d _ rfl]; exact need_le _ hw
  | .arr [], d, _ => by simp [need, needL, encP, encPElems]
  | .arr (x :: t), d, hw => by
    have hw' : WF x ∧ WFL t := hw
    have h1 := needP_le x (d + 1) hw'.1
    have h2 := needLP_le t d hw'.2
    simp only [need, needL, encP, encPElems, List.length_cons, List.length_append]
    omega
  | .obj [], d, _ => by simp [need, needM, encP, encPMembers]
  | .obj ((k, x) :: t), d, hw => by
    have hw' : WF x ∧ WFM t := hw
    have h1 := needP_le x (d + 1) hw'.1
    have h2 := needMP_le t d hw'.2
    simp only [need, needM, encP, encPMembers, List.length_cons, List.length_append]
    omega
theorem needLP_le : ∀ (t : List JVal) (d : Nat), WFL t → needL t ≤ (encPTail d t).length
  | [], d, _ => by simp [needL]
  | y :: t', d, hw => by
    have hw' : WF y ∧ WFL t' := hw
    have h1 := needP_le y (d + 1) hw'.1
    have h2 := needLP_le t' d hw'.2
    simp only [needL, encPTail, List.length_cons, List.length_append]
    omega
theorem needMP_le : ∀ (t : List (Str × JVal)) (d : Nat), WFM t → needM t ≤ (encPMTail d t).length
  | [], d, _ => by simp [needM]
  | (k, y) :: t', d, hw => by
    have hw' : WF y ∧ WFM t' := hw
    have h1 := needP_le y (d + 1) hw'.1
    have h2 := needMP_le t' d hw'.2
    simp only [needM, encPMTail, List.length_cons, List.length_append]
    omega
end

/-! ### sorting the members of every mapping keeps a value well-formed -/

theorem wfm_iff : ∀ (l : List (Str × JVal)), WFM l ↔ ∀ kv ∈ l, WF kv.2
  | [] => by simp [WFM]
  | (_, x) :: r => by simp [WFM, wfm_iff r]

mutual
theorem wf_sortKeys : ∀ (v : JVal), WF v → WF (sortKeys v)
  | .null, h => by simpa [sortKeys] using h
  | .bool b, h => by simpa [sortKeys] using h
  | .int i, h => by simpa [sortKeys] using h
  | .float t, h => by simpa [sortKeys] using h
  | .str s, h => by simpa [sortKeys] using h
  | .arr xs, h => by
    simp only [sortKeys, WF]
    exact wfl_sortElems xs h
  | .obj kvs, h => by
    simp only [sortKeys, WF]
    rw [wfm_iff]
    intro kv hkv
    have hp := isort_perm keyLe (sortMembers kvs)
    exact (wfm_iff _).mp (wfm_sortMembers kvs h) kv (hp.subset hkv)
theorem wfl_sortElems : ∀ (xs : List JVal), WFL xs → WFL (sortElems xs)
  | [], _ => trivial
  | x :: r, h => ⟨wf_sortKeys x h.1, wfl_sortElems r h.2⟩
theorem wfm_sortMembers : ∀ (kvs : List (Str × JVal)), WFM kvs → WFM (sortMembers kvs)
  | [], _ => trivial
  | (k, x) :: r, h => ⟨wf_sortKeys x h.1, wfm_sortMembers r h.2⟩
end

/-- **the indent-2 form reads back**: at every nesting depth -/
theorem decode_encP (v : JVal) (d : Nat) (h : WF v) : decode (encP d v) = some v := by
  unfold decode
  have h1 := parseVal_encP v d ((encP d v).length + 1) [] [] h (by have := (needP_le v d h).1; omega) delim_nil allWs_nil
  simp only [List.nil_append, List.append_nil] at h1
  simp [h1, skipWs]

/-- **json_pretty_roundtrip**: what `JSONData.save` writes (`indent=2, sort_keys=True`) is read back by the decoder as the value
with the members of every mapping in key order — the same JSON value (Python dict equality ignores the order) -/
theorem json_pretty_roundtrip (v : JVal) (h : WF v) : decode (encPretty v) = some (sortKeys v) :=
  decode_encP (sortKeys v) 0 (wf_sortKeys v h)

end TCV.JsonText

namespace TCV.JsonText
/-- the indent-2 text of a small nested value, as orjson writes it -/
example : encPretty (.obj [("b".toList, .int 1), ("a".toList, .arr [.null, .obj []])]) =
    "{\n  \"a\": [\n    null,\n    {}\n  ],\n  \"b\": 1\n}".toList := by decide
end TCV.JsonText
