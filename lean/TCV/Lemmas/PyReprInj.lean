import TCV.Model.Val
/-!
# Python's `repr` of `str` is injective

`pyRepr` (model of CPython `unicode_repr`) can be read back character by character: every escape has its own shape.
Used for `Path`-typed parameters, substituted strings (`ReprStr`) and the arguments of `AutoParameterObject`s, whose text is
built with Python's escaping `repr` (unlike plain string parameters, which are quoted without escaping — finding K1).
-/
namespace TCV.PVal
open TCV

def hexVal1 (c : Char) : Nat := if c.toNat < 58 then c.toNat - 48 else c.toNat - 87

def hexVal : Str → Nat → Nat
  | [], acc => acc
  | c :: r, acc => hexVal r (acc * 16 + hexVal1 c)

theorem hexVal1_hexDigit : ∀ n, n < 16 → hexVal1 (hexDigit n) = n := by decide

theorem hexVal_append : ∀ (a b : Str) (acc : Nat), hexVal (a ++ b) acc = hexVal b (hexVal a acc)
  | [], _, _ => rfl
  | c :: r, b, acc => by simp only [List.cons_append, hexVal]; exact hexVal_append r b _

theorem hexN_length : ∀ w n, (hexN w n).length = w
  | 0, _ => rfl
  | w + 1, n => by simp [hexN, hexN_length w]

theorem hexVal_hexN : ∀ (w n acc : Nat), n < 16 ^ w → hexVal (hexN w n) acc = acc * 16 ^ w + n
  | 0, n, acc, h => by
    have : n = 0 := by simpa using h
    simp [hexN, hexVal, this]
  | w + 1, n, acc, h => by
    have hd : n / 16 < 16 ^ w := by
      apply Nat.div_lt_of_lt_mul
      rw [Nat.pow_succ, Nat.mul_comm] at h
      exact h
    simp only [hexN]
    rw [hexVal_append, hexVal_hexN w (n / 16) acc hd]
    simp only [hexVal, hexVal1_hexDigit (n % 16) (Nat.mod_lt _ (by decide))]
    rw [Nat.pow_succ, ← Nat.mul_assoc]
    have := Nat.div_add_mod n 16
    generalize acc * 16 ^ w = t at *
    omega

/-- read one (possibly escaped) character from the front of the inside of a Python string literal -/
def unescPy : Str → Option (Char × Str)
  | [] => none
  | c :: r =>
    if c == '\\' then
      match r with
      | [] => none
      | d :: r' =>
        if d == 't' then some ('\t', r')
        else if d == 'n' then some ('\n', r')
        else if d == 'r' then some ('\r', r')
        else if d == 'x' then some (Char.ofNat (hexVal (r'.take 2) 0), r'.drop 2)
        else if d == 'u' then some (Char.ofNat (hexVal (r'.take 4) 0), r'.drop 4)
        else if d == 'U' then some (Char.ofNat (hexVal (r'.take 8) 0), r'.drop 8)
        else some (d, r')
    else some (c, r)

theorem take_hexN (w n : Nat) (rest : Str) : (hexN w n ++ rest).take w = hexN w n := by
  rw [List.take_append_of_le_length (by rw [hexN_length]; exact Nat.le_refl _)]
  exact List.take_of_length_le (by rw [hexN_length]; exact Nat.le_refl _)

theorem drop_hexN (w n : Nat) (rest : Str) : (hexN w n ++ rest).drop w = rest := by
  have := hexN_length w n
  rw [List.drop_append_of_le_length (by omega)]
  simp [List.drop_of_length_le (by omega : (hexN w n).length ≤ w)]

theorem unescPy_hex (d : Char) (w : Nat) (c : Char) (rest : Str) (hd : d = 'x' ∧ w = 2 ∨ d = 'u' ∧ w = 4 ∨ d = 'U' ∧ w = 8)
    (hc : c.toNat < 16 ^ w) : unescPy ('\\' :: d :: (hexN w c.toNat ++ rest)) = some (c, rest) := by
  have hv : hexVal (hexN w c.toNat) 0 = c.toNat := by rw [hexVal_hexN w c.toNat 0 hc]; simp
  rcases hd with ⟨rfl, rfl⟩ | ⟨rfl, rfl⟩ | ⟨rfl, rfl⟩ <;>
    simp [unescPy, take_hexN, drop_hexN, hv, Char.ofNat_toNat]

theorem unescPy_escChar (pr : Char → Bool) (qc : Char) (hq : qc = '\'' ∨ qc = '"') (c : Char) (rest : Str) :
    unescPy (escChar pr qc c ++ rest) = some (c, rest) := by
  have hvalid : c.toNat < 16 ^ 8 := by
    have := c.valid
    have : c.toNat < 0x110000 := by
      rcases c.valid with h | ⟨_, h⟩ <;> simp only [Char.toNat, UInt32.toNat] at * <;> omega
    omega
  unfold escChar
  simp only
  split
  · -- quote or backslash
    rename_i h
    simp only [Bool.or_eq_true, beq_iff_eq] at h
    rcases h with h | h
    · subst h; rcases hq with rfl | rfl <;> simp [unescPy]
    · subst h; simp [unescPy]
  · rename_i hnq
    simp only [Bool.or_eq_true, beq_iff_eq, not_or] at hnq
    have hbs : (c == '\\') = false := by simpa using hnq.2
    split
    · rename_i h; simp only [beq_iff_eq] at h; subst h; simp [unescPy]
    split
    · rename_i h; simp only [beq_iff_eq] at h; subst h; simp [unescPy]
    split
    · rename_i h; simp only [beq_iff_eq] at h; subst h; simp [unescPy]
    split
    · rename_i h
      have : c.toNat < 16 ^ 2 := by
        simp only [Bool.or_eq_true, decide_eq_true_eq, beq_iff_eq] at h
        rcases h with h | h <;> omega
      exact unescPy_hex 'x' 2 c rest (Or.inl ⟨rfl, rfl⟩) this
    split
    · simp [unescPy, hbs]
    split
    · split
      · rename_i h
        exact unescPy_hex 'x' 2 c rest (Or.inl ⟨rfl, rfl⟩) (by first | omega | (simp only [decide_eq_true_eq] at h; omega))
      · split
        · rename_i h
          exact unescPy_hex 'u' 4 c rest (Or.inr (Or.inl ⟨rfl, rfl⟩)) (by first | omega | (simp only [decide_eq_true_eq] at h; omega))
        · exact unescPy_hex 'U' 8 c rest (Or.inr (Or.inr ⟨rfl, rfl⟩)) hvalid
    · simp [unescPy, hbs]

theorem escAll_injective (pr : Char → Bool) (qc : Char) (hq : qc = '\'' ∨ qc = '"') :
    ∀ s s' : Str, escAll pr qc s = escAll pr qc s' → s = s'
  | [], [], _ => rfl
  | [], c :: r, h => by
    have := congrArg unescPy h
    simp only [escAll] at this
    rw [unescPy_escChar pr qc hq] at this
    simp [unescPy] at this
  | c :: r, [], h => by
    have := congrArg unescPy h
    simp only [escAll] at this
    rw [unescPy_escChar pr qc hq] at this
    simp [unescPy] at this
  | c :: r, c' :: r', h => by
    have := congrArg unescPy h
    simp only [escAll] at this
    rw [unescPy_escChar pr qc hq, unescPy_escChar pr qc hq] at this
    simp only [Option.some.injEq, Prod.mk.injEq] at this
    rw [this.1, escAll_injective pr qc hq r r' this.2]

/-- **Python's `repr` of a string determines the string** -/
theorem pyRepr_injective (pr : Char → Bool) (s s' : Str) (h : pyRepr pr s = pyRepr pr s') : s = s' := by
  simp only [pyRepr] at h
  have hq : ∀ t : Str, (if (t.contains '\'' && !t.contains '"') = true then '"' else '\'') = '\'' ∨
      (if (t.contains '\'' && !t.contains '"') = true then '"' else '\'') = '"' := by
    intro t; split <;> simp
  injection h with h1 h2
  rw [← h1] at h2
  exact escAll_injective pr _ (hq s) s s' (List.append_cancel_right h2)

end TCV.PVal
