import TCV.Model.Build
/-!
lemmas about the second pass of chain construction (`Build.recreate`, the model of
`Chain._recreate_tasks_with_parameter_config._get_task`): the recursion over input tasks visits the
tasks in dependency order, never creates a task twice, and cannot succeed on a cyclic declaration —
for every fuel (recursion limit), every registry and every starting state.
-/
namespace TCV.Build
open TCV TCV.Config TCV.PVal

variable (H : Str → Str) (pr : Char → Bool) (t1s : List (Task1 × List (Str × InVal)))

/-- names of the tasks created so far -/
def B2.names (st : B2) : List Str := st.done.map (·.full)

/-- `f` is a (resolved) input task of `name` in the first-pass table -/
def InputOf (f name : Str) : Prop :=
  ∃ t ins k, t1s.find? (fun p => p.1.full == name) = some (t, ins) ∧ (k, InVal.task f) ∈ ins

/-- one step of the loop over a task's inputs -/
def stepIn (fuel : Nat) : B2 → Str × InVal → Except Err B2 :=
  fun s kv => match kv.2 with
    | .task f => recreate H pr t1s fuel s f
    | .dflt _ => .ok s

/-- what `_get_task` does once the inputs are there: key, registry lookup, new entry -/
def finish (t : Task1) (ins : List (Str × InVal)) (st1 : B2) : B2 :=
  let inKeys := ins.filterMap (fun kv => match kv.2 with
    | .task f => (st1.done.find? (fun t => t.full == f)).map (fun t2 => (kv.1, t2.key))
    | .dflt _ => none)
  let key := Key.keyOf H pr (toKeyParams t.cls.params t.params) t.ns inKeys
  let r := assign st1.reg st1.next (t.cls.slug, key) t.ns t.params t.cls.cid
  { done := st1.done ++ [{ full := t.full, cid := t.cls.cid, slug := t.cls.slug, ns := t.ns, cfgIx := t.cfgIx,
                           params := t.params, inputs := ins, key := key, objId := r.1, objNs := r.2.1, objParams := r.2.2.1,
                           objCid := r.2.2.2.2.2 }],
    reg := r.2.2.2.1, next := r.2.2.2.2.1 }

theorem recreate_succ (fuel : Nat) (st : B2) (name : Str) :
    recreate H pr t1s (fuel + 1) st name =
      if st.done.any (fun t => t.full == name) then .ok st
      else match t1s.find? (fun p => p.1.full == name) with
        | none => .error .notFound
        | some (t, ins) =>
          match ins.foldlM (stepIn H pr t1s fuel) st with
          | .error e => .error e
          | .ok st1 => .ok (finish H pr t ins st1) := by
  rfl

theorem finish_done (t : Task1) (ins : List (Str × InVal)) (st1 : B2) :
    ∃ r : Task2, (finish H pr t ins st1).done = st1.done ++ [r] ∧ r.full = t.full ∧ r.inputs = ins ∧
      r.params = t.params ∧ r.cid = t.cls.cid ∧ r.slug = t.cls.slug ∧ r.ns = t.ns ∧ r.cfgIx = t.cfgIx :=
  ⟨_, rfl, rfl, rfl, rfl, rfl, rfl, rfl, rfl⟩

/-- a path upwards in the recursion: each element is an input of the next -/
def PathUp : List Str → Prop
  | [] => True
  | [_] => True
  | a :: b :: r => InputOf t1s a b ∧ PathUp (b :: r)

theorem pathUp_pred : ∀ (l : List Str), PathUp t1s l → ∀ x ∈ l.tail, ∃ q ∈ l, InputOf t1s q x
  | [], _, x, hx => by simp at hx
  | [_], _, x, hx => by simp at hx
  | a :: b :: r, h, x, hx => by
    simp only [List.tail_cons, List.mem_cons] at hx
    rcases hx with rfl | hx
    · exact ⟨a, by simp, h.1⟩
    · obtain ⟨q, hq, hi⟩ := pathUp_pred (b :: r) h.2 x (by simpa using hx)
      exact ⟨q, List.mem_cons_of_mem _ hq, hi⟩

theorem foldlM_nil_ok (fuel : Nat) (s : B2) : ([] : List (Str × InVal)).foldlM (stepIn H pr t1s fuel) s = .ok s := rfl

theorem foldlM_cons_eq (fuel : Nat) (kv : Str × InVal) (l : List (Str × InVal)) (s : B2) :
    (kv :: l).foldlM (stepIn H pr t1s fuel) s =
      match stepIn H pr t1s fuel s kv with
      | .error e => .error e
      | .ok s2 => l.foldlM (stepIn H pr t1s fuel) s2 := by
  simp only [List.foldlM_cons, bind, Except.bind]
  cases stepIn H pr t1s fuel s kv <;> rfl

/-- the statement proved by induction on the fuel: a successful call never creates a task that is still being
built further up the recursion (`anc`), hence is never made on such a task -/
def AncOK (fuel : Nat) : Prop :=
  ∀ (st : B2) (name : Str) (anc : List Str) (st' : B2),
    PathUp t1s (name :: anc) → (∀ x ∈ anc, x ∉ st.names) → recreate H pr t1s fuel st name = .ok st' →
    (∀ x ∈ anc, x ∉ st'.names) ∧ name ∉ anc ∧ name ∈ st'.names ∧ ∃ ext, st'.done = st.done ++ ext

/-- facts about the loop over the inputs of `name`, given `AncOK` for the nested calls -/
theorem inputs_fold (fuel : Nat) (hA : AncOK H pr t1s fuel) (name : Str) (anc : List Str)
    (t : Task1) (ins : List (Str × InVal)) (hfind : t1s.find? (fun p => p.1.full == name) = some (t, ins))
    (hpath : PathUp t1s (name :: anc)) :
    ∀ (l : List (Str × InVal)), (∀ kv ∈ l, kv ∈ ins) → ∀ (s s1 : B2),
      l.foldlM (stepIn H pr t1s fuel) s = .ok s1 → (∀ x ∈ name :: anc, x ∉ s.names) →
      (∀ x ∈ name :: anc, x ∉ s1.names) ∧ (∃ ext, s1.done = s.done ++ ext) ∧
      ∀ k f, (k, InVal.task f) ∈ l → f ∈ s1.names ∧ f ∉ name :: anc
  | [], _, s, s1, h, hP => by
    rw [foldlM_nil_ok] at h; cases h
    exact ⟨hP, ⟨[], by simp⟩, by simp⟩
  | kv :: l, hsub, s, s1, h, hP => by
    rw [foldlM_cons_eq] at h
    cases hs : stepIn H pr t1s fuel s kv with
    | error e => rw [hs] at h; cases h
    | ok s2 =>
      rw [hs] at h
      have hkv : kv ∈ ins := hsub kv (List.mem_cons_self ..)
      -- the step
      have step : (∀ x ∈ name :: anc, x ∉ s2.names) ∧ (∃ ext, s2.done = s.done ++ ext) ∧
          ∀ k f, kv = (k, InVal.task f) → f ∈ s2.names ∧ f ∉ name :: anc := by
        obtain ⟨k, v⟩ := kv
        cases v with
        | dflt d =>
          simp only [stepIn] at hs; cases hs
          exact ⟨hP, ⟨[], by simp⟩, by intro k f h; cases h⟩
        | task f =>
          simp only [stepIn] at hs
          have hp : PathUp t1s (f :: name :: anc) := ⟨⟨t, ins, k, hfind, hkv⟩, hpath⟩
          obtain ⟨h1, h2, h3, h4⟩ := hA s f (name :: anc) s2 hp hP hs
          refine ⟨h1, h4, ?_⟩
          intro k' f' he
          cases he
          exact ⟨h3, h2⟩
      obtain ⟨hP2, ⟨ext2, hext2⟩, hkv2⟩ := step
      obtain ⟨r1, ⟨ext, hext⟩, r3⟩ := inputs_fold fuel hA name anc t ins hfind hpath l
        (fun kv h => hsub kv (List.mem_cons_of_mem _ h)) s2 s1 h hP2
      refine ⟨r1, ⟨ext2 ++ ext, by rw [hext, hext2, List.append_assoc]⟩, ?_⟩
      intro k f hm
      rcases List.mem_cons.mp hm with he | hm
      · obtain ⟨g1, g2⟩ := hkv2 k f he.symm
        refine ⟨?_, g2⟩
        simp only [B2.names, hext, List.map_append, List.mem_append]
        exact Or.inl g1
      · exact r3 k f hm

theorem any_full_iff (done : List Task2) (name : Str) :
    done.any (fun t => t.full == name) = true ↔ name ∈ done.map (·.full) := by
  simp only [List.any_eq_true, beq_iff_eq, List.mem_map]

theorem find_full {t : Task1} {ins : List (Str × InVal)} {name : Str}
    (h : t1s.find? (fun p => p.1.full == name) = some (t, ins)) : t.full = name := by
  have := List.find?_some h
  simpa using this

theorem ancOK : ∀ fuel, AncOK H pr t1s fuel
  | 0 => by
    intro st name anc st' _ _ h
    simp [recreate] at h
  | fuel + 1 => by
    intro st name anc st' hpath hanc h
    rw [recreate_succ] at h
    by_cases hd : st.done.any (fun t => t.full == name) = true
    · rw [if_pos hd] at h
      cases h
      have hn : name ∈ st.names := (any_full_iff st.done name).mp hd
      exact ⟨hanc, fun hx => hanc name hx hn, hn, [], by simp⟩
    · rw [if_neg hd] at h
      have hn : name ∉ st.names := fun hx => hd ((any_full_iff st.done name).mpr hx)
      cases hf : t1s.find? (fun p => p.1.full == name) with
      | none => rw [hf] at h; cases h
      | some p =>
        obtain ⟨t, ins⟩ := p
        rw [hf] at h
        simp only at h
        cases hfold : ins.foldlM (stepIn H pr t1s fuel) st with
        | error e => rw [hfold] at h; cases h
        | ok st1 =>
          rw [hfold] at h
          simp only at h
          cases h
          have hP : ∀ x ∈ name :: anc, x ∉ st.names := by
            intro x hx
            rcases List.mem_cons.mp hx with rfl | hx
            · exact hn
            · exact hanc x hx
          obtain ⟨r1, ⟨ext, hext⟩, r3⟩ := inputs_fold H pr t1s fuel (ancOK fuel) name anc t ins hf hpath ins
            (fun _ h => h) st st1 hfold hP
          obtain ⟨r, hr, hfull, _⟩ := finish_done H pr t ins st1
          have hname : t.full = name := find_full t1s hf
          have hnot : name ∉ anc := by
            intro hx
            obtain ⟨q, hq, ⟨t', ins', k, hf', hk⟩⟩ := pathUp_pred t1s (name :: anc) hpath name (by simpa using hx)
            rw [hf] at hf'
            cases hf'
            exact (r3 k q hk).2 hq
          refine ⟨?_, hnot, ?_, ⟨ext ++ [r], by rw [hr, hext, List.append_assoc]⟩⟩
          · intro x hx
            simp only [B2.names, hr, List.map_append, List.mem_append, List.map_cons, List.map_nil, List.mem_singleton,
              not_or]
            refine ⟨r1 x (List.mem_cons_of_mem _ hx), ?_⟩
            rw [hfull, hname]
            intro he
            exact hnot (he ▸ hx)
          · simp only [B2.names, hr, List.map_append, List.mem_append, List.map_cons, List.map_nil, List.mem_singleton]
            exact Or.inr (by rw [hfull, hname])

/-! ## dependency order -/

/-- every task comes after all its input tasks, and no name occurs twice -/
def DepOrdered (done : List Task2) : Prop :=
  ∀ pre t post, done = pre ++ t :: post →
    t.full ∉ pre.map (·.full) ∧ ∀ k f, (k, InVal.task f) ∈ t.inputs → f ∈ pre.map (·.full)

theorem depOrdered_nil : DepOrdered [] := by
  intro pre t post h
  simp at h

theorem depOrdered_snoc (done : List Task2) (r : Task2) (h : DepOrdered done)
    (hnew : r.full ∉ done.map (·.full)) (hin : ∀ k f, (k, InVal.task f) ∈ r.inputs → f ∈ done.map (·.full)) :
    DepOrdered (done ++ [r]) := by
  intro pre t post he
  rcases List.eq_nil_or_concat post with rfl | ⟨post', z, rfl⟩
  · -- t is the new last element
    have : pre ++ [t] = done ++ [r] := he.symm
    have h1 := List.append_inj' this rfl
    obtain ⟨rfl, h2⟩ := h1
    cases h2
    exact ⟨hnew, hin⟩
  · have : done ++ [r] = (pre ++ t :: post') ++ [z] := by rw [he]; simp
    have h1 := List.append_inj' this rfl
    exact h pre t post' h1.1

/-- the statement about dependency order, by induction on the fuel -/
theorem recreate_depOrdered : ∀ (fuel : Nat) (st : B2) (name : Str) (st' : B2),
    DepOrdered st.done → recreate H pr t1s fuel st name = .ok st' → DepOrdered st'.done
  | 0, st, name, st', _, h => by simp [recreate] at h
  | fuel + 1, st, name, st', hD, h => by
    rw [recreate_succ] at h
    by_cases hd : st.done.any (fun t => t.full == name) = true
    · rw [if_pos hd] at h; cases h; exact hD
    · rw [if_neg hd] at h
      have hn : name ∉ st.names := fun hx => hd ((any_full_iff st.done name).mpr hx)
      cases hf : t1s.find? (fun p => p.1.full == name) with
      | none => rw [hf] at h; cases h
      | some p =>
        obtain ⟨t, ins⟩ := p
        rw [hf] at h
        simp only at h
        cases hfold : ins.foldlM (stepIn H pr t1s fuel) st with
        | error e => rw [hfold] at h; cases h
        | ok st1 =>
          rw [hfold] at h
          simp only at h
          cases h
          have hP : ∀ x ∈ [name], x ∉ st.names := by
            intro x hx; simp at hx; subst hx; exact hn
          obtain ⟨r1, _, r3⟩ := inputs_fold H pr t1s fuel (ancOK H pr t1s fuel) name [] t ins hf trivial ins
            (fun _ h => h) st st1 hfold hP
          -- dependency order survives the loop over the inputs
          have hD1 : DepOrdered st1.done := by
            have : ∀ (l : List (Str × InVal)) (s s1 : B2), l.foldlM (stepIn H pr t1s fuel) s = .ok s1 →
                DepOrdered s.done → DepOrdered s1.done := by
              intro l
              induction l with
              | nil => intro s s1 h hs; rw [foldlM_nil_ok] at h; cases h; exact hs
              | cons kv l ih =>
                intro s s1 h hs
                rw [foldlM_cons_eq] at h
                cases hstep : stepIn H pr t1s fuel s kv with
                | error e => rw [hstep] at h; cases h
                | ok s2 =>
                  rw [hstep] at h
                  refine ih s2 s1 h ?_
                  obtain ⟨k, v⟩ := kv
                  cases v with
                  | dflt d => simp only [stepIn] at hstep; cases hstep; exact hs
                  | task f =>
                    simp only [stepIn] at hstep
                    exact recreate_depOrdered fuel s f s2 hs hstep
            exact this ins st st1 hfold hD
          obtain ⟨r, hr, hfull, hins, _⟩ := finish_done H pr t ins st1
          have hname : t.full = name := find_full t1s hf
          rw [hr]
          refine depOrdered_snoc st1.done r hD1 ?_ ?_
          · rw [hfull, hname]; exact r1 name (by simp)
          · intro k f hk
            rw [hins] at hk
            exact (r3 k f hk).1

/-- position of a name among the created tasks -/
def rankIn (done : List Task2) (x : Str) : Nat := done.findIdx (fun t => t.full == x)

theorem rankIn_split (pre : List Task2) (t : Task2) (post : List Task2) (h : t.full ∉ pre.map (·.full)) :
    rankIn (pre ++ t :: post) t.full = pre.length := by
  unfold rankIn
  induction pre with
  | nil => simp [List.findIdx_cons]
  | cons a pre ih =>
    simp only [List.map_cons, List.mem_cons, not_or] at h
    have hb : (a.full == t.full) = false := by
      simp only [beq_eq_false_iff_ne, ne_eq]
      exact fun e => h.1 e.symm
    simp only [List.cons_append, List.findIdx_cons, hb, cond_false, List.length_cons]
    rw [ih h.2]

theorem rankIn_lt_of_mem (pre : List Task2) (rest : List Task2) (f : Str) (h : f ∈ pre.map (·.full)) :
    rankIn (pre ++ rest) f < pre.length := by
  unfold rankIn
  induction pre with
  | nil => simp at h
  | cons a pre ih =>
    simp only [List.cons_append, List.findIdx_cons, List.length_cons]
    by_cases hb : (a.full == f) = true
    · simp [hb]
    · have hb' : (a.full == f) = false := by simpa using hb
      simp only [hb', cond_false]
      have : f ∈ pre.map (·.full) := by
        simp only [List.map_cons, List.mem_cons] at h
        rcases h with rfl | h
        · simp at hb
        · exact h
      have := ih this
      omega

/-- a dependency-ordered task list has a rank function that strictly increases along every edge: no cycles -/
theorem depOrdered_rank (done : List Task2) (h : DepOrdered done) :
    ∀ t ∈ done, ∀ k f, (k, InVal.task f) ∈ t.inputs → rankIn done f < rankIn done t.full := by
  intro t ht k f hk
  obtain ⟨pre, post, rfl⟩ := List.append_of_mem ht
  obtain ⟨h1, h2⟩ := h pre t post rfl
  rw [rankIn_split pre t post h1]
  exact rankIn_lt_of_mem pre (t :: post) f (h2 k f hk)

end TCV.Build

namespace TCV.Build
open TCV TCV.Config TCV.PVal

variable (H : Str → Str) (pr : Char → Bool) (t1s : List (Task1 × List (Str × InVal)))

/-! ## every created task is the declared one, with the key of its parameters and input keys -/

/-- the keys of the input tasks as `finish` collects them from the tasks created before -/
def inKeysOf (pre : List Task2) (ins : List (Str × InVal)) : List (Str × Str) :=
  ins.filterMap (fun kv => match kv.2 with
    | .task f => (pre.find? (fun t => t.full == f)).map (fun t2 => (kv.1, t2.key))
    | .dflt _ => none)

/-- a created task `t` (with the tasks `pre` created before it) is the first-pass task of its name: same class, config,
namespace and parameter values, the resolved inputs of the first pass, and the key computed from exactly these -/
def DeclaredAt (pre : List Task2) (t : Task2) : Prop :=
  ∃ t1 : Task1, t1s.find? (fun p => p.1.full == t.full) = some (t1, t.inputs) ∧
    t.params = t1.params ∧ t.cid = t1.cls.cid ∧ t.slug = t1.cls.slug ∧ t.ns = t1.ns ∧ t.cfgIx = t1.cfgIx ∧
    t.key = Key.keyOf H pr (toKeyParams t1.cls.params t1.params) t1.ns (inKeysOf pre t.inputs)

def AllDeclared (done : List Task2) : Prop :=
  ∀ pre t post, done = pre ++ t :: post → DeclaredAt H pr t1s pre t

theorem allDeclared_nil : AllDeclared H pr t1s [] := by
  intro pre t post h
  simp at h

theorem allDeclared_snoc (done : List Task2) (r : Task2) (h : AllDeclared H pr t1s done)
    (hr : DeclaredAt H pr t1s done r) : AllDeclared H pr t1s (done ++ [r]) := by
  intro pre t post he
  rcases List.eq_nil_or_concat post with rfl | ⟨post', z, rfl⟩
  · have : pre ++ [t] = done ++ [r] := he.symm
    obtain ⟨rfl, h2⟩ := List.append_inj' this rfl
    cases h2
    exact hr
  · have : done ++ [r] = (pre ++ t :: post') ++ [z] := by rw [he]; simp
    exact h pre t post' (List.append_inj' this rfl).1

theorem finish_declared (t : Task1) (ins : List (Str × InVal)) (st1 : B2) (name : Str)
    (hf : t1s.find? (fun p => p.1.full == name) = some (t, ins)) :
    ∃ r : Task2, (finish H pr t ins st1).done = st1.done ++ [r] ∧ DeclaredAt H pr t1s st1.done r := by
  have hname : t.full = name := find_full t1s hf
  refine ⟨_, rfl, t, ?_, rfl, rfl, rfl, rfl, rfl, rfl⟩
  simp only [hname]
  exact hf

theorem recreate_allDeclared : ∀ (fuel : Nat) (st : B2) (name : Str) (st' : B2),
    AllDeclared H pr t1s st.done → recreate H pr t1s fuel st name = .ok st' → AllDeclared H pr t1s st'.done
  | 0, st, name, st', _, h => by simp [recreate] at h
  | fuel + 1, st, name, st', hD, h => by
    rw [recreate_succ] at h
    by_cases hd : st.done.any (fun t => t.full == name) = true
    · rw [if_pos hd] at h; cases h; exact hD
    · rw [if_neg hd] at h
      cases hf : t1s.find? (fun p => p.1.full == name) with
      | none => rw [hf] at h; cases h
      | some p =>
        obtain ⟨t, ins⟩ := p
        rw [hf] at h
        simp only at h
        cases hfold : ins.foldlM (stepIn H pr t1s fuel) st with
        | error e => rw [hfold] at h; cases h
        | ok st1 =>
          rw [hfold] at h
          simp only at h
          cases h
          have hD1 : AllDeclared H pr t1s st1.done := by
            have : ∀ (l : List (Str × InVal)) (s s1 : B2), l.foldlM (stepIn H pr t1s fuel) s = .ok s1 →
                AllDeclared H pr t1s s.done → AllDeclared H pr t1s s1.done := by
              intro l
              induction l with
              | nil => intro s s1 h hs; rw [foldlM_nil_ok] at h; cases h; exact hs
              | cons kv l ih =>
                intro s s1 h hs
                rw [foldlM_cons_eq] at h
                cases hstep : stepIn H pr t1s fuel s kv with
                | error e => rw [hstep] at h; cases h
                | ok s2 =>
                  rw [hstep] at h
                  refine ih s2 s1 h ?_
                  obtain ⟨k, v⟩ := kv
                  cases v with
                  | dflt d => simp only [stepIn] at hstep; cases hstep; exact hs
                  | task f =>
                    simp only [stepIn] at hstep
                    exact recreate_allDeclared fuel s f s2 hs hstep
            exact this ins st st1 hfold hD
          obtain ⟨r, hr, hdecl⟩ := finish_declared H pr t1s t ins st1 name hf
          rw [hr]
          exact allDeclared_snoc H pr t1s st1.done r hD1 hdecl

/-! ## the loop over all task names (`for task_name, task in tasks.items(): _get_task(…)`) -/

theorem names_fold (fuel : Nat) : ∀ (l : List Str) (s s' : B2),
    l.foldlM (fun s n => recreate H pr t1s fuel s n) s = .ok s' →
    DepOrdered s.done → AllDeclared H pr t1s s.done →
    DepOrdered s'.done ∧ AllDeclared H pr t1s s'.done ∧ (∃ ext, s'.done = s.done ++ ext) ∧ ∀ n ∈ l, n ∈ s'.names
  | [], s, s', h, h1, h2 => by
    simp only [List.foldlM_nil, pure, Except.pure] at h
    cases h
    exact ⟨h1, h2, ⟨[], by simp⟩, by simp⟩
  | n :: l, s, s', h, h1, h2 => by
    simp only [List.foldlM_cons, bind, Except.bind] at h
    cases hs : recreate H pr t1s fuel s n with
    | error e => rw [hs] at h; cases h
    | ok s2 =>
      rw [hs] at h
      simp only at h
      have a1 := recreate_depOrdered H pr t1s fuel s n s2 h1 hs
      have a2 := recreate_allDeclared H pr t1s fuel s n s2 h2 hs
      obtain ⟨_, _, a3, ⟨ext2, hext2⟩⟩ := ancOK H pr t1s fuel s n [] s2 trivial (by simp) hs
      obtain ⟨b1, b2, ⟨ext, hext⟩, b4⟩ := names_fold fuel l s2 s' h a1 a2
      refine ⟨b1, b2, ⟨ext2 ++ ext, by rw [hext, hext2, List.append_assoc]⟩, ?_⟩
      intro x hx
      rcases List.mem_cons.mp hx with rfl | hx
      · simp only [B2.names, hext, List.map_append, List.mem_append]
        exact Or.inl a3
      · exact b4 x hx

end TCV.Build
