import TCV.Lemmas.Inj
import TCV.Lemmas.Key
/-!
Injectivity of the whole key text (C03): `<name>=<value repr>###…$$$<input>=<key>###…` is a prefix
code on well-formed, quote-free content — parameter names and value representations, the `None`
marker of an empty registry, input names and input keys can all be read back.
-/
namespace TCV.Key
open TCV TCV.PVal

/-- one persisted parameter as text -/
def seg (pr : Char → Bool) (nv : Str × PVal) : Str := nv.1 ++ '=' :: reprRaw pr nv.2

def hashes : Str := ['#', '#', '#']
def dollars : Str := ['$', '$', '$']

theorem joinHash_cons_cons (a b : Str) (r : List Str) : joinHash (a :: b :: r) = a ++ hashes ++ joinHash (b :: r) := by
  simp [joinHash, hashes]

/-- names: non-empty tokens without delimiter characters (identifiers) -/
def NameOK (n : Str) : Prop := n ≠ [] ∧ ∀ c ∈ n, isDelim c = false

def ParamsOK : List (Str × PVal) → Prop
  | [] => True
  | (n, v) :: r => NameOK n ∧ WF v ∧ ParamsOK r

theorem stop_hashes (r : Str) : Stop (hashes ++ r) := stop_cons_delim (by decide)
theorem stop_dollars (r : Str) : Stop (dollars ++ r) := stop_cons_delim (by decide)

/-- reading one `name=value` segment back -/
theorem seg_inj (pr : Char → Bool) (n n' : Str) (v v' : PVal) (r r' : Str)
    (hn : NameOK n) (hn' : NameOK n') (hv : WF v) (hv' : WF v') (hr : Stop r) (hr' : Stop r')
    (h : seg pr (n, v) ++ r = seg pr (n', v') ++ r') : n = n' ∧ v = v' ∧ r = r' := by
  simp only [seg, List.append_assoc, List.cons_append] at h
  have h1 := span_unique (p := isDelim) n n' _ _ hn.2 hn'.2
    (Or.inr ⟨'=', _, rfl, by decide⟩) (Or.inr ⟨'=', _, rfl, by decide⟩) h
  have h2 : reprRaw pr v ++ r = reprRaw pr v' ++ r' := by simpa using h1.2
  have h3 := injV pr v v' r r' hv hv' hr hr' h2
  exact ⟨h1.1, h3.1, h3.2⟩

/-- the text of a non-empty list of persisted parameters followed by `$$$rest` determines list and rest -/
theorem segs_inj (pr : Char → Bool) : ∀ (x : Str × PVal) (xs : List (Str × PVal)) (y : Str × PVal) (ys : List (Str × PVal)) (r r' : Str),
    ParamsOK (x :: xs) → ParamsOK (y :: ys) →
    joinHash ((x :: xs).map (seg pr)) ++ (dollars ++ r) = joinHash ((y :: ys).map (seg pr)) ++ (dollars ++ r') →
    x :: xs = y :: ys ∧ r = r'
  | (n, v), [], (n', v'), [], r, r', hx, hy, h => by
    simp only [List.map_cons, List.map_nil, joinHash] at h
    have := seg_inj pr n n' v v' _ _ hx.1 hy.1 hx.2.1 hy.2.1 (stop_dollars r) (stop_dollars r') h
    obtain ⟨h1, h2, h3⟩ := this
    subst h1 h2
    exact ⟨rfl, by simpa [dollars] using h3⟩
  | (n, v), [], (n', v'), y2 :: ys, r, r', hx, hy, h => by
    exfalso
    simp only [List.map_cons, List.map_nil, joinHash_cons_cons, joinHash, List.append_assoc] at h
    have := seg_inj pr n n' v v' _ _ hx.1 hy.1 hx.2.1 hy.2.1 (stop_dollars r) (stop_hashes _) h
    have h3 := this.2.2
    simp [dollars, hashes] at h3
  | (n, v), x2 :: xs, (n', v'), [], r, r', hx, hy, h => by
    exfalso
    simp only [List.map_cons, List.map_nil, joinHash_cons_cons, joinHash, List.append_assoc] at h
    have := seg_inj pr n n' v v' _ _ hx.1 hy.1 hx.2.1 hy.2.1 (stop_hashes _) (stop_dollars r') h
    have h3 := this.2.2
    simp [dollars, hashes] at h3
  | (n, v), x2 :: xs, (n', v'), y2 :: ys, r, r', hx, hy, h => by
    simp only [List.map_cons, joinHash_cons_cons, List.append_assoc] at h
    have := seg_inj pr n n' v v' _ _ hx.1 hy.1 hx.2.1 hy.2.1 (stop_hashes _) (stop_hashes _) h
    obtain ⟨h1, h2, h3⟩ := this
    have h4 : joinHash ((x2 :: xs).map (seg pr)) ++ (dollars ++ r) = joinHash ((y2 :: ys).map (seg pr)) ++ (dollars ++ r') := by
      have := List.append_cancel_left (as := hashes) (by simpa [List.append_assoc] using h3)
      simpa [List.map_cons, List.append_assoc] using this
    obtain ⟨x2, v2⟩ := x2
    obtain ⟨y2, w2⟩ := y2
    have ih := segs_inj pr (x2, v2) xs (y2, w2) ys r r' hx.2.2 hy.2.2 h4
    subst h1 h2
    rw [ih.1]
    exact ⟨rfl, ih.2⟩

/-- the registry part of the key text: `None` when nothing is persisted -/
def regText (pr : Char → Bool) (l : List (Str × PVal)) : Str :=
  match l.map (seg pr) with
  | [] => "None".toList
  | rs => joinHash rs

theorem regText_inj (pr : Char → Bool) (l l' : List (Str × PVal)) (r r' : Str) (hl : ParamsOK l) (hl' : ParamsOK l')
    (h : regText pr l ++ (dollars ++ r) = regText pr l' ++ (dollars ++ r')) : l = l' ∧ r = r' := by
  cases l with
  | nil =>
    cases l' with
    | nil => simpa [regText, dollars] using h
    | cons y ys =>
      exfalso
      obtain ⟨n', v'⟩ := y
      -- "None$$$…" against "name=…": the token before the first delimiter differs in what follows it
      have hseg : regText pr ((n', v') :: ys) = n' ++ ('=' :: (reprRaw pr v' ++ (match ys with
          | [] => []
          | z :: zs => hashes ++ joinHash ((z :: zs).map (seg pr))))) := by
        cases ys with
        | nil => simp [regText, joinHash, seg]
        | cons z zs => simp [regText, joinHash_cons_cons, seg, List.append_assoc]
      rw [hseg] at h
      simp only [regText, List.map_nil, List.append_assoc, List.cons_append] at h
      have := span_unique (p := isDelim) "None".toList n' _ _ (by decide) hl'.1.2
        (Or.inr ⟨'$', _, rfl, by decide⟩) (Or.inr ⟨'=', _, rfl, by decide⟩) (by simpa [dollars] using h)
      have h2 := this.2
      simp [dollars] at h2
  | cons x xs =>
    cases l' with
    | nil =>
      exfalso
      obtain ⟨n, v⟩ := x
      have hseg : regText pr ((n, v) :: xs) = n ++ ('=' :: (reprRaw pr v ++ (match xs with
          | [] => []
          | z :: zs => hashes ++ joinHash ((z :: zs).map (seg pr))))) := by
        cases xs with
        | nil => simp [regText, joinHash, seg]
        | cons z zs => simp [regText, joinHash_cons_cons, seg, List.append_assoc]
      rw [hseg] at h
      simp only [regText, List.map_nil, List.append_assoc, List.cons_append] at h
      have := span_unique (p := isDelim) n "None".toList _ _ hl.1.2 (by decide)
        (Or.inr ⟨'=', _, rfl, by decide⟩) (Or.inr ⟨'$', _, rfl, by decide⟩) (by simpa [dollars] using h)
      have h2 := this.2
      simp [dollars] at h2
    | cons y ys =>
      have hx : regText pr (x :: xs) = joinHash ((x :: xs).map (seg pr)) := by simp [regText]
      have hy : regText pr (y :: ys) = joinHash ((y :: ys).map (seg pr)) := by simp [regText]
      rw [hx, hy] at h
      exact segs_inj pr x xs y ys r r' hl hl' h

/-! ### the inputs part: `<name>=<key>###…` up to the end of the text -/

def iseg (nk : Str × Str) : Str := nk.1 ++ '=' :: nk.2

/-- input names contain no `=`; keys contain no `#` (hex digits) -/
def InputsOK : List (Str × Str) → Prop
  | [] => True
  | (n, k) :: r => (∀ c ∈ n, c ≠ '=') ∧ (∀ c ∈ k, c ≠ '#') ∧ InputsOK r

theorem iseg_inj (n n' k k' r r' : Str) (hn : ∀ c ∈ n, c ≠ '=') (hn' : ∀ c ∈ n', c ≠ '=')
    (hk : ∀ c ∈ k, c ≠ '#') (hk' : ∀ c ∈ k', c ≠ '#')
    (hr : r = [] ∨ ∃ t, r = '#' :: t) (hr' : r' = [] ∨ ∃ t, r' = '#' :: t)
    (h : iseg (n, k) ++ r = iseg (n', k') ++ r') : n = n' ∧ k = k' ∧ r = r' := by
  simp only [iseg, List.append_assoc, List.cons_append] at h
  have h1 := span_unique (p := fun c => c == '=') n n' _ _ (fun c hc => by simpa using hn c hc) (fun c hc => by simpa using hn' c hc)
    (Or.inr ⟨'=', _, rfl, by simp⟩) (Or.inr ⟨'=', _, rfl, by simp⟩) h
  have h2 : k ++ r = k' ++ r' := by simpa using h1.2
  have h3 := span_unique (p := fun c => c == '#') k k' r r' (fun c hc => by simpa using hk c hc) (fun c hc => by simpa using hk' c hc)
    (by rcases hr with h | ⟨t, h⟩; exact Or.inl h; exact Or.inr ⟨'#', t, h, by simp⟩)
    (by rcases hr' with h | ⟨t, h⟩; exact Or.inl h; exact Or.inr ⟨'#', t, h, by simp⟩) h2
  exact ⟨h1.1, h3.1, h3.2⟩

theorem isegs_inj : ∀ (l l' : List (Str × Str)), InputsOK l → InputsOK l' →
    joinHash (l.map iseg) = joinHash (l'.map iseg) → l = l'
  | [], [], _, _, _ => rfl
  | [], (n, k) :: r, _, _, h => by
    exfalso
    cases r with
    | nil => simp [joinHash, iseg] at h
    | cons z zs => simp [joinHash_cons_cons, joinHash, iseg] at h
  | (n, k) :: r, [], _, _, h => by
    exfalso
    cases r with
    | nil => simp [joinHash, iseg] at h
    | cons z zs => simp [joinHash_cons_cons, joinHash, iseg] at h
  | (n, k) :: [], (n', k') :: [], hl, hl', h => by
    simp only [List.map_cons, List.map_nil, joinHash] at h
    have := iseg_inj n n' k k' [] [] hl.1 hl'.1 hl.2.1 hl'.2.1 (Or.inl rfl) (Or.inl rfl) (by simpa using h)
    rw [this.1, this.2.1]
  | (n, k) :: [], (n', k') :: z :: zs, hl, hl', h => by
    exfalso
    simp only [List.map_cons, List.map_nil, joinHash_cons_cons, joinHash, List.append_assoc] at h
    have := iseg_inj n n' k k' [] _ hl.1 hl'.1 hl.2.1 hl'.2.1 (Or.inl rfl) (Or.inr ⟨_, rfl⟩) (by simpa [hashes] using h)
    have h3 := this.2.2
    simp at h3
  | (n, k) :: z :: zs, (n', k') :: [], hl, hl', h => by
    exfalso
    simp only [List.map_cons, List.map_nil, joinHash_cons_cons, joinHash, List.append_assoc] at h
    have := iseg_inj n n' k k' _ [] hl.1 hl'.1 hl.2.1 hl'.2.1 (Or.inr ⟨_, rfl⟩) (Or.inl rfl) (by simpa [hashes] using h)
    have h3 := this.2.2
    simp at h3
  | (n, k) :: z :: zs, (n', k') :: z' :: zs', hl, hl', h => by
    simp only [List.map_cons, joinHash_cons_cons, List.append_assoc] at h
    have := iseg_inj n n' k k' _ _ hl.1 hl'.1 hl.2.1 hl'.2.1 (Or.inr ⟨_, rfl⟩) (Or.inr ⟨_, rfl⟩) (by simpa [hashes] using h)
    obtain ⟨h1, h2, h3⟩ := this
    have h4 : joinHash ((z :: zs).map iseg) = joinHash ((z' :: zs').map iseg) := by
      simpa [hashes] using h3
    have ih := isegs_inj (z :: zs) (z' :: zs') hl.2.2 hl'.2.2 h4
    rw [h1, h2, ih]

end TCV.Key
