import TCV.Model.ParMap
import TCV.Lemmas.ParMap
import TCV.Props.C17
