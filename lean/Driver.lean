import Drv.Util
import Drv.ParMap
import Drv.Names
import Drv.Key
import Drv.Link
import Drv.Cached
import Drv.Cache
import Drv.Conc
import Drv.JsonText
import Drv.Glue
import Drv.FS
import Drv.Test
import Drv.Migrate
import Drv.Subst
import Drv.Store
import Drv.Build
import Drv.RunRec
import Drv.AutoObj
/-! JSON-lines driver over the executable model: one request per line in, one reply per line out. -/
open Lean

def dispatch (j : Json) : Drv.R Json := do
  let m ← Drv.str j "m"
  match m with
  | "parmap" => Drv.ParMap.handle j
  | "names" => Drv.Names.handle j
  | "key" => Drv.Key.handle j
  | "store" => Drv.Store.handle j
  | "build" => Drv.Build.handle j
  | "runrec" => Drv.RunRec.handle j
  | "subst" => Drv.Subst.handle j
  | "migrate" => Drv.Migrate.handle j
  | "test" => Drv.Test.handle j
  | "fs" => Drv.FS.handle j
  | "glue" => Drv.Glue.handle j
  | "jsontext" => Drv.JsonText.handle j
  | "conc" => Drv.Conc.handle j
  | "cache" => Drv.Cache.handle j
  | "cached" => Drv.Cached.handle j
  | "autoobj" => Drv.AutoObj.handle j
  | "link" => Drv.Link.handle j
  | _ => throw "bad_op"

partial def loop (h : IO.FS.Stream) (out : IO.FS.Stream) : IO Unit := do
  let line ← h.getLine
  if line.isEmpty then return ()
  let reply : Json :=
    match Json.parse line with
    | .error e => Json.mkObj [("err", Json.str s!"parse: {e}")]
    | .ok j => match dispatch j with
      | .ok r => r
      | .error e => Json.mkObj [("err", Json.str e)]
  out.putStrLn reply.compress
  loop h out

def main : IO Unit := do
  let out ← IO.getStdout
  loop (← IO.getStdin) out
  out.flush
